(* C06 model: physical::compiled_expr (Compiler::{num_f64,side,boolean}, CompiledPredicate::{compile,
   evaluate,eval_chunk}) and the interpreter evaluate_expr_internal / evaluate_binary_op of
   physical/operators/filter.rs restricted to the compiled subset.
   anchors: src/physical/compiled_expr.rs, src/physical/operators/filter.rs:198-405,539-745

   Data representation: every cell value is a Z. Float64 = its IEEE-754 bit pattern as u64
   (0 <= x < 2^64); Int64/Int32/Date32 = the integer. Column names are Z ids (bare, unqualified names;
   the qualified / unique-suffix resolution of find_field is not modelled: the check only uses bare names).
   f64 arithmetic (+,-,*,/) is a Section variable `fop` shared by both evaluators: both run the same IEEE
   operation on the same operands, rounding is not modelled. *)
From QV Require Export Base.Util.
Local Open Scope Z_scope.

Definition CHUNK : nat := 1024.
Definition MAX_REGS : nat := 24.

Inductive ty := TF64 | TI64 | TI32 | TD32 | TOther.
Definition ty_eqb (a b : ty) : bool :=
  match a, b with
  | TF64, TF64 | TI64, TI64 | TI32, TI32 | TD32, TD32 | TOther, TOther => true
  | _, _ => false
  end.
Inductive arith := Add | Sub | Mul | Div.
Inductive cmp := CEq | CNe | CLt | CLe | CGt | CGe.
(* ScalarValue: Float64 / Int64 / Int32 / Date32; everything else (Null, Utf8, Boolean, ...) = LOther *)
Inductive lit := LF64 (bits : Z) | LI64 (v : Z) | LI32 (v : Z) | LD32 (v : Z) | LOther.

(* planner::Expr restricted to the shapes either evaluator looks at.
   BinaryExpr{op} is split by operator family; ECastF64 = Cast{data_type: Float64};
   EOther = every other Expr (functions, CASE, IN, other casts, IS NULL, LIKE, %, ...). *)
Inductive expr :=
| ECol (c : Z)
| ELit (l : lit)
| EArith (op : arith) (a b : expr)
| ECmp (op : cmp) (a b : expr)
| EAnd (a b : expr)
| EOr (a b : expr)
| ENot (a : expr)
| EBetween (x lo hi : expr) (negated : bool)
| EAlias (e : expr)
| ECastF64 (e : expr)
| EOther.

(* ------------------------------------------------------------------ *)
(* f64 comparisons on bit patterns                                      *)
Definition two63 : Z := 9223372036854775808.
Definition f64_exp_inf : Z := 9218868437227405312.   (* 0x7FF0_0000_0000_0000 *)
Definition f64_is_nan (x : Z) : bool := f64_exp_inf <? x mod two63.
Definition f64_is_zero (x : Z) : bool := x mod two63 =? 0.
(* f64::total_cmp key: bits as i64, then `l ^= (((l >> 63) as u64) >> 1) as i64` (flip the low 63 bits of
   negatives). For x >= 2^63 with magnitude m = x - 2^63 the i64 is m - 2^63 and the flip gives -1 - m. *)
Definition f64_key (x : Z) : Z := if x <? two63 then x else - (x - two63) - 1.

Inductive ord := OLt | OEq | OGt | OUn.
Definition ord_of (c : comparison) : ord := match c with Lt => OLt | Eq => OEq | Gt => OGt end.
(* arrow-ord cmp kernels on Float64: ArrowNativeTypeOp::{is_eq,is_lt,..} = total_cmp *)
Definition f64_total_cmp (a b : Z) : ord := ord_of (f64_key a ?= f64_key b).
(* Rust PartialOrd / PartialEq on f64 (IEEE-754): NaN unordered, -0.0 == +0.0, otherwise the
   sign-magnitude order of the bit patterns *)
Definition f64_ieee_cmp (a b : Z) : ord :=
  if f64_is_nan a || f64_is_nan b then OUn
  else if f64_is_zero a && f64_is_zero b then OEq
  else f64_total_cmp a b.
Definition int_cmp (a b : Z) : ord := ord_of (a ?= b).

(* Cmp::apply : ==, !=, <, <=, >, >= on a partial order (`!=` is true on unordered) *)
Definition cmp_apply (op : cmp) (o : ord) : bool :=
  match op, o with
  | CEq, OEq => true
  | CNe, OEq => false
  | CNe, _ => true
  | CLt, OLt => true
  | CLe, OLt | CLe, OEq => true
  | CGt, OGt => true
  | CGe, OGt | CGe, OEq => true
  | _, _ => false
  end.

Definition b2z (b : bool) : Z := if b then 1 else 0.

(* ------------------------------------------------------------------ *)
(* The compiler                                                         *)
Inductive src := SCol (slot : nat) | SLitF (v : Z) | SLitI64 (v : Z) | SLitI32 (v : Z) | SReg (r : nat).
Inductive instr :=
| ILoadF (col dst : nat)
| ILitF (v : Z) (dst : nat)
| IArith (op : arith) (a b dst : nat)
| ICmpF (a b : src) (op : cmp) (dst : nat)
| ICmpI64 (a b : src) (op : cmp) (dst : nat)
| ICmpI32 (a b : src) (op : cmp) (dst : nat)
| IAnd (a b dst : nat)
| IOr (a b dst : nat)
| INot (a dst : nat).

Definition schema := list (Z * ty).
Fixpoint find_field (s : schema) (c : Z) : option ty :=
  match s with
  | [] => None
  | (n, t) :: r => if n =? c then Some t else find_field r c
  end.

Record cst := mkCst { cs_cols : list (Z * ty); cs_prog : list instr; cs_nf : nat; cs_nm : nat }.
Definition cst0 : cst := mkCst [] [] 0 0.
Definition push (i : instr) (st : cst) : cst :=
  mkCst (cs_cols st) (cs_prog st ++ [i]) (cs_nf st) (cs_nm st).

Fixpoint position (c : Z) (cols : list (Z * ty)) : option nat :=
  match cols with
  | [] => None
  | (n, _) :: r => if n =? c then Some O else option_map S (position c r)
  end.

Definition col_slot (st : cst) (c : Z) (dt : ty) : option (nat * cst) :=
  match position c (cs_cols st) with
  | Some i => if ty_eqb (snd (nth i (cs_cols st) (0, TOther))) dt then Some (i, st) else None
  | None => Some (length (cs_cols st), mkCst (cs_cols st ++ [(c, dt)]) (cs_prog st) (cs_nf st) (cs_nm st))
  end.
Definition falloc (st : cst) : option (nat * cst) :=
  if (MAX_REGS <=? cs_nf st)%nat then None
  else Some (cs_nf st, mkCst (cs_cols st) (cs_prog st) (S (cs_nf st)) (cs_nm st)).
Definition malloc (st : cst) : option (nat * cst) :=
  if (MAX_REGS <=? cs_nm st)%nat then None
  else Some (cs_nm st, mkCst (cs_cols st) (cs_prog st) (cs_nf st) (S (cs_nm st))).

Notation "'do' p <- e ; f" := (match e with Some p => f | None => None end)
  (at level 200, p pattern, e at level 100, f at level 200, right associativity).

Fixpoint num_f64 (s : schema) (e : expr) (st : cst) : option (nat * cst) :=
  match e with
  | ECol c =>
      match find_field s c with
      | Some TF64 =>
          do (slot, st1) <- col_slot st c TF64;
          do (dst, st2) <- falloc st1;
          Some (dst, push (ILoadF slot dst) st2)
      | _ => None
      end
  | ELit (LF64 x) =>
      do (dst, st1) <- falloc st;
      Some (dst, push (ILitF x dst) st1)
  | EArith op a b =>
      do (ra, st1) <- num_f64 s a st;
      do (rb, st2) <- num_f64 s b st1;
      do (dst, st3) <- falloc st2;
      Some (dst, push (IArith op ra rb dst) st3)
  | EAlias e1 => num_f64 s e1 st
  | ECastF64 e1 => num_f64 s e1 st
  | _ => None
  end.

Definition is_numeric (t : ty) : bool := match t with TOther => false | _ => true end.

Fixpoint side (s : schema) (e : expr) (st : cst) : option (src * ty * cst) :=
  match e with
  | ECol c =>
      match find_field s c with
      | Some dt =>
          if is_numeric dt then
            do (slot, st1) <- col_slot st c dt;
            Some (SCol slot, dt, st1)
          else None
      | None => None
      end
  | ELit (LF64 x) => Some (SLitF x, TF64, st)
  | ELit (LI64 x) => Some (SLitI64 x, TI64, st)
  | ELit (LI32 x) => Some (SLitI32 x, TI32, st)
  | ELit (LD32 x) => Some (SLitI32 x, TD32, st)
  | EAlias e1 => side s e1 st
  | EArith _ _ _ =>
      do (r, st1) <- num_f64 s e st;
      Some (SReg r, TF64, st1)
  | _ => None
  end.

(* the comparison arm of Compiler::boolean *)
Definition cmp_node (s : schema) (op : cmp) (l r : expr) (st : cst) : option (nat * cst) :=
  do (a, ta, st1) <- side s l st;
  do (b, tb, st2) <- side s r st1;
  if ty_eqb ta tb then
    do (dst, st3) <- malloc st2;
    match ta with
    | TF64 => Some (dst, push (ICmpF a b op dst) st3)
    | TI64 => Some (dst, push (ICmpI64 a b op dst) st3)
    | TI32 | TD32 => Some (dst, push (ICmpI32 a b op dst) st3)
    | TOther => None
    end
  else None.

Fixpoint boolean (s : schema) (e : expr) (st : cst) : option (nat * cst) :=
  match e with
  | EAnd a b =>
      do (ra, st1) <- boolean s a st;
      do (rb, st2) <- boolean s b st1;
      do (dst, st3) <- malloc st2;
      Some (dst, push (IAnd ra rb dst) st3)
  | EOr a b =>
      do (ra, st1) <- boolean s a st;
      do (rb, st2) <- boolean s b st1;
      do (dst, st3) <- malloc st2;
      Some (dst, push (IOr ra rb dst) st3)
  | ECmp op l r => cmp_node s op l r st
  | ENot a =>
      do (ra, st1) <- boolean s a st;
      do (dst, st2) <- malloc st1;
      Some (dst, push (INot ra dst) st2)
  | EBetween x lo hi negated =>
      (* self.boolean(BinaryExpr{x >= lo}), self.boolean(BinaryExpr{x <= hi}), And, optional Not *)
      do (ge, st1) <- cmp_node s CGe x lo st;
      do (le, st2) <- cmp_node s CLe x hi st1;
      do (dst, st3) <- malloc st2;
      let st4 := push (IAnd ge le dst) st3 in
      if negated then
        do (nd, st5) <- malloc st4;
        Some (nd, push (INot dst nd) st5)
      else Some (dst, st4)
  | EAlias e1 => boolean s e1 st
  | _ => None
  end.

Record cpred := mkPred {
  p_cols : list (Z * ty); p_prog : list instr; p_out : nat; p_fregs : nat; p_mregs : nat }.

(* CompiledPredicate::compile with compilation enabled *)
Definition compile (e : expr) (s : schema) : option cpred :=
  match boolean s e cst0 with
  | Some (out, st) => Some (mkPred (cs_cols st) (cs_prog st) out (cs_nf st) (cs_nm st))
  | None => None
  end.

(* ------------------------------------------------------------------ *)
(* Batches                                                              *)
Record column := mkCol { c_name : Z; c_ty : ty; c_vals : list Z; c_valid : list bool }.
Record batch := mkBatch { b_rows : nat; b_cols : list column }.
Definition schema_of (b : batch) : schema := map (fun c => (c_name c, c_ty c)) (b_cols b).
Fixpoint find_col (cols : list column) (c : Z) : option column :=
  match cols with
  | [] => None
  | x :: r => if c_name x =? c then Some x else find_col r c
  end.
Definition wf_batch (b : batch) : Prop :=
  Forall (fun c => length (c_vals c) = b_rows b /\ length (c_valid c) = b_rows b) (b_cols b).
Definition wf_batchb (b : batch) : bool :=
  forallb (fun c => Nat.eqb (length (c_vals c)) (b_rows b) && Nat.eqb (length (c_valid c)) (b_rows b)) (b_cols b).

Fixpoint zipw {A B C} (f : A -> B -> C) (x : list A) (y : list B) : list C :=
  match x, y with
  | a :: x', b :: y' => f a b :: zipw f x' y'
  | _, _ => []
  end.

(* ------------------------------------------------------------------ *)
(* The register machine: CompiledPredicate::evaluate / eval_chunk       *)
Definition regs := list (list Z).   (* slabs, each CHUNK long; only [..len] is live in a chunk *)
Definition slice (start len : nat) (l : list Z) : list Z := firstn len (skipn start l).
Definition wr (new old : list Z) : list Z := new ++ skipn (length new) old.   (* d[..len] = new *)
Definition rd (len : nat) (x : list Z) : list Z := firstn len x.
(* slabs[dst][..len] = new; None = index panic *)
Definition set_reg (rs : regs) (dst : nat) (new : list Z) : option regs :=
  if (dst <? length rs)%nat then Some (upd dst (wr new) rs) else None.

Inductive operand := OSlice (l : list Z) | OScalar (v : Z).
(* cmp_shapes!: the four slice/scalar shapes of one comparison loop over 0..len *)
Definition cmp_shapes (f : Z -> Z -> bool) (a b : operand) (len : nat) : list Z :=
  match a, b with
  | OSlice x, OSlice y => zipw (fun u v => b2z (f u v)) x y
  | OSlice x, OScalar y => map (fun u => b2z (f u y)) x
  | OScalar x, OSlice y => map (fun v => b2z (f x v)) y
  | OScalar x, OScalar y => repeat (b2z (f x y)) len
  end.

Section Eval.
  Variable fop : arith -> Z -> Z -> Z.

  Section Chunk.
    Variable arrays : list column.
    Variable start len : nat.

    (* the `resolve` closures; None = unreachable!("typed at compile") / index panic *)
    Definition resolve_f (f : regs) (s : src) : option operand :=
      match s with
      | SCol c => match nth_error arrays c with
                  | Some a => match c_ty a with TF64 => Some (OSlice (slice start len (c_vals a))) | _ => None end
                  | None => None
                  end
      | SLitF v => Some (OScalar v)
      | SReg r => if (r <? length f)%nat then Some (OSlice (rd len (nth r f []))) else None
      | _ => None
      end.
    Definition resolve_i64 (s : src) : option operand :=
      match s with
      | SCol c => match nth_error arrays c with
                  | Some a => match c_ty a with TI64 => Some (OSlice (slice start len (c_vals a))) | _ => None end
                  | None => None
                  end
      | SLitI64 v => Some (OScalar v)
      | _ => None
      end.
    Definition resolve_i32 (s : src) : option operand :=
      match s with
      | SCol c => match nth_error arrays c with
                  | Some a => match c_ty a with
                              | TI32 | TD32 => Some (OSlice (slice start len (c_vals a)))
                              | _ => None
                              end
                  | None => None
                  end
      | SLitI32 v => Some (OScalar v)
      | _ => None
      end.

    (* binary register op through `split_at_mut(dst)`: operands must be < dst (else index panic) *)
    Definition bin_reg (rs : regs) (g : Z -> Z -> Z) (a b dst : nat) : option regs :=
      if ((a <? dst) && (b <? dst))%nat
      then set_reg rs dst (zipw g (rd len (nth a rs [])) (rd len (nth b rs [])))
      else None.

    Definition step (fm : regs * regs) (ins : instr) : option (regs * regs) :=
      let (f, m) := fm in
      match ins with
      | ILoadF col dst =>
          match nth_error arrays col with
          | Some a =>
              match c_ty a with
              | TF64 => do f' <- set_reg f dst (slice start len (c_vals a)); Some (f', m)
              | _ => Some (f, m)       (* `if let ColArr::F64` falls through *)
              end
          | None => None
          end
      | ILitF v dst => do f' <- set_reg f dst (repeat v len); Some (f', m)
      | IArith op a b dst => do f' <- bin_reg f (fop op) a b dst; Some (f', m)
      | ICmpF a b op dst =>
          do oa <- resolve_f f a;
          do ob <- resolve_f f b;
          do m' <- set_reg m dst (cmp_shapes (fun u v => cmp_apply op (f64_ieee_cmp u v)) oa ob len);
          Some (f, m')
      | ICmpI64 a b op dst =>
          do oa <- resolve_i64 a;
          do ob <- resolve_i64 b;
          do m' <- set_reg m dst (cmp_shapes (fun u v => cmp_apply op (int_cmp u v)) oa ob len);
          Some (f, m')
      | ICmpI32 a b op dst =>
          do oa <- resolve_i32 a;
          do ob <- resolve_i32 b;
          do m' <- set_reg m dst (cmp_shapes (fun u v => cmp_apply op (int_cmp u v)) oa ob len);
          Some (f, m')
      | IAnd a b dst => do m' <- bin_reg m Z.land a b dst; Some (f, m')
      | IOr a b dst => do m' <- bin_reg m Z.lor a b dst; Some (f, m')
      | INot a dst =>
          if (a <? dst)%nat
          then do m' <- set_reg m dst (map (fun x => 1 - x) (rd len (nth a m []))); Some (f, m')
          else None
      end.

    Fixpoint exec (prog : list instr) (fm : regs * regs) : option (regs * regs) :=
      match prog with
      | [] => Some fm
      | i :: r => do fm' <- step fm i; exec r fm'
      end.
  End Chunk.

  (* ---- bit packing of one chunk's 0/1 bytes ---- *)
  Definition u8 (x : Z) : Z := x mod 256.
  (* packed[bi] = out[o] | out[o+1]<<1 | ... | out[o+7]<<7  for bi in 0..len/8 *)
  Fixpoint pack_full (full : nat) (o : list Z) : list Z :=
    match full with
    | O => []
    | S k =>
        match o with
        | b0 :: b1 :: b2 :: b3 :: b4 :: b5 :: b6 :: b7 :: r =>
            Z.lor (Z.lor (Z.lor (Z.lor (Z.lor (Z.lor (Z.lor b0 (u8 (Z.shiftl b1 1))) (u8 (Z.shiftl b2 2)))
              (u8 (Z.shiftl b3 3))) (u8 (Z.shiftl b4 4))) (u8 (Z.shiftl b5 5))) (u8 (Z.shiftl b6 6)))
              (u8 (Z.shiftl b7 7))
            :: pack_full k r
        | _ => []
        end
    end.
  (* for i in full*8..len { if out[i] != 0 { packed[i/8] |= 1 << (i%8) } } ; i/8 = full, i%8 = i - full*8 *)
  Fixpoint pack_tail (j : nat) (acc : Z) (vs : list Z) : Z :=
    match vs with
    | [] => acc
    | v :: r => pack_tail (S j) (if v =? 0 then acc else Z.lor acc (Z.shiftl 1 (Z.of_nat j))) r
    end.
  (* bytes 0 .. ceil(len/8) of `packed`; the rest of the 128-byte array stays 0 and is not read *)
  Definition pack (len : nat) (out : list Z) : list Z :=
    let full := (len / 8)%nat in
    let tail := firstn (len - full * 8) (skipn (full * 8) out) in
    pack_full full out ++ match tail with [] => [] | _ => [pack_tail 0 0 tail] end.
  (* BooleanBufferBuilder::append_packed_range(0..len, packed): bit i = (packed[i/8] >> (i%8)) & 1 *)
  Fixpoint unpack (len : nat) (packed : list Z) : list bool :=
    match packed with
    | [] => []
    | x :: r => map (fun j => Z.testbit x (Z.of_nat j)) (seq 0 (Nat.min 8 len)) ++ unpack (len - 8) r
    end.

  Definition row_valid (arrays : list column) (row : nat) : bool :=
    forallb (fun a => nth row (c_valid a) true) arrays.

  (* while start < n { len = min(n - start, CHUNK); eval_chunk; pack; append; valid bits; start += len } *)
  Fixpoint chunk_loop (fuel : nat) (prog : list instr) (out : nat) (arrays : list column) (n start : nat)
           (fm : regs * regs) (bits vbits : list bool) : option (list bool * list bool) :=
    if (start <? n)%nat then
      match fuel with
      | O => None
      | S k =>
          let len := Nat.min (n - start) CHUNK in
          do (f', m') <- exec arrays start len prog fm;
          if (out <? length m')%nat then
            let o := nth out m' [] in
            chunk_loop k prog out arrays n (start + len) (f', m')
                       (bits ++ unpack len (pack len o))
                       (vbits ++ map (row_valid arrays) (seq start len))
          else None
      end
    else Some (bits, vbits).

  (* find_batch_column + type re-check; None = evaluate returns None (caller falls back) *)
  Fixpoint resolve (b : batch) (cols : list (Z * ty)) : option (list column) :=
    match cols with
    | [] => Some []
    | (n, t) :: r =>
        match find_col (b_cols b) n with
        | Some c => if ty_eqb (c_ty c) t then option_map (cons c) (resolve b r) else None
        | None => None
        end
    end.

  Definition any_nulls (arrays : list column) : bool :=
    existsb (fun a => existsb negb (c_valid a)) arrays.

  Definition run (p : cpred) (b : batch) : option (list (option bool)) :=
    do arrays <- resolve b (p_cols p);
    let n := b_rows b in
    let f0 := repeat (repeat 0 CHUNK) (Nat.max (p_fregs p) 1) in
    let m0 := repeat (repeat 0 CHUNK) (Nat.max (p_mregs p) 1) in
    do (bits, vbits) <- chunk_loop n (p_prog p) (p_out p) arrays n 0 (f0, m0) [] [];
    Some (if any_nulls arrays
          then zipw (fun v x => if v : bool then Some x else None) vbits bits
          else map Some bits).

  (* ------------------------------------------------------------------ *)
  (* The interpreter: evaluate_expr_internal on whole arrays              *)
  Inductive arr :=
  | ANum (t : ty) (vals : list Z) (valid : list bool)
  | ABool (vals : list bool) (valid : list bool).

  (* arrow cmp::{eq,neq,lt,lt_eq,gt,gt_eq} on two arrays of the SAME type (coerce_arrays is the identity);
     differing types (coercion) and non-numeric types are outside the model: None *)
  Definition cmp_arrays (op : cmp) (l r : arr) : option arr :=
    match l, r with
    | ANum t x vx, ANum t' y vy =>
        if ty_eqb t t' then
          match t with
          | TF64 => Some (ABool (zipw (fun u v => cmp_apply op (f64_total_cmp u v)) x y) (zipw andb vx vy))
          | TI64 | TI32 | TD32 => Some (ABool (zipw (fun u v => cmp_apply op (int_cmp u v)) x y) (zipw andb vx vy))
          | TOther => None
          end
        else None
    | _, _ => None
    end.
  (* arrow boolean::and / boolean::or: NULL if either side is NULL (not Kleene) *)
  Definition bool_arrays (g : bool -> bool -> bool) (l r : arr) : option arr :=
    match l, r with
    | ABool x vx, ABool y vy => Some (ABool (zipw g x y) (zipw andb vx vy))
    | _, _ => None
    end.
  Definition not_array (a : arr) : option arr :=
    match a with ABool x vx => Some (ABool (map negb x) vx) | _ => None end.

  Fixpoint interp_arr (b : batch) (e : expr) : option arr :=
    let n := b_rows b in
    match e with
    | ECol c => match find_col (b_cols b) c with
                | Some col => Some (ANum (c_ty col) (c_vals col) (c_valid col))
                | None => None
                end
    | ELit (LF64 x) => Some (ANum TF64 (repeat x n) (repeat true n))
    | ELit (LI64 x) => Some (ANum TI64 (repeat x n) (repeat true n))
    | ELit (LI32 x) => Some (ANum TI32 (repeat x n) (repeat true n))
    | ELit (LD32 x) => Some (ANum TD32 (repeat x n) (repeat true n))
    | ELit LOther => None
    | EArith op x y =>
        (* numeric::{add,sub,mul,div} on two Float64 arrays; other types are outside the model *)
        match interp_arr b x, interp_arr b y with
        | Some (ANum TF64 vx nx), Some (ANum TF64 vy ny) =>
            Some (ANum TF64 (zipw (fop op) vx vy) (zipw andb nx ny))
        | _, _ => None
        end
    | ECmp op x y =>
        do l <- interp_arr b x; do r <- interp_arr b y; cmp_arrays op l r
    | EAnd x y => do l <- interp_arr b x; do r <- interp_arr b y; bool_arrays andb l r
    | EOr x y => do l <- interp_arr b x; do r <- interp_arr b y; bool_arrays orb l r
    | ENot x => do a <- interp_arr b x; not_array a
    | EBetween x lo hi negated =>
        do v <- interp_arr b x;
        do l <- interp_arr b lo;
        do h <- interp_arr b hi;
        do ge <- cmp_arrays CGe v l;
        do le <- cmp_arrays CLe v h;
        do r <- bool_arrays andb ge le;
        if negated then not_array r else Some r
    | EAlias e1 => interp_arr b e1
    | ECastF64 e1 =>
        (* arrow cast Float64 -> Float64 is the identity; other source types are outside the model *)
        match interp_arr b e1 with
        | Some (ANum TF64 v nv) => Some (ANum TF64 v nv)
        | _ => None
        end
    | EOther => None
    end.

  Definition interp (e : expr) (b : batch) : option (list (option bool)) :=
    match interp_arr b e with
    | Some (ABool x vx) => Some (zipw (fun v x => if v : bool then Some x else None) vx x)
    | _ => None
    end.

  (* ------------------------------------------------------------------ *)
  (* Row-wise reading of an expression (used by known_* and the proofs)   *)
  Definition col_val (b : batch) (c : Z) (i : nat) : Z :=
    match find_col (b_cols b) c with Some col => nth i (c_vals col) 0 | None => 0 end.
  Definition col_ok (b : batch) (c : Z) (i : nat) : bool :=
    match find_col (b_cols b) c with Some col => nth i (c_valid col) true | None => true end.
  Definition lit_val (l : lit) : Z :=
    match l with LF64 x | LI64 x | LI32 x | LD32 x => x | LOther => 0 end.
  Definition lit_ty (l : lit) : ty :=
    match l with LF64 _ => TF64 | LI64 _ => TI64 | LI32 _ => TI32 | LD32 _ => TD32 | LOther => TOther end.

  Fixpoint vsem (b : batch) (e : expr) (i : nat) : Z :=
    match e with
    | ECol c => col_val b c i
    | ELit l => lit_val l
    | EArith op x y => fop op (vsem b x i) (vsem b y i)
    | EAlias e1 | ECastF64 e1 => vsem b e1 i
    | _ => 0
    end.
  Fixpoint ety (s : schema) (e : expr) : ty :=
    match e with
    | ECol c => match find_field s c with Some t => t | None => TOther end
    | ELit l => lit_ty l
    | EArith _ _ _ => TF64
    | EAlias e1 => ety s e1
    | ECastF64 _ => TF64
    | _ => TOther
    end.
  (* every referenced column is valid at row i *)
  Fixpoint rvalid (b : batch) (e : expr) (i : nat) : bool :=
    match e with
    | ECol c => col_ok b c i
    | ELit _ | EOther => true
    | EArith _ x y | ECmp _ x y | EAnd x y | EOr x y => rvalid b x i && rvalid b y i
    | ENot x | EAlias x | ECastF64 x => rvalid b x i
    | EBetween x lo hi _ => (rvalid b x i && rvalid b lo i) && (rvalid b x i && rvalid b hi i)
    end.

  Definition is_f64 (t : ty) : bool := match t with TF64 => true | _ => false end.
  Definition nan_pair (u v : Z) : bool := f64_is_nan u || f64_is_nan v.
  Definition zero_pair (u v : Z) : bool := f64_is_zero u && f64_is_zero v && negb (u =? v).

  (* some Float64 comparison of e has, on row i, operands satisfying `pair` *)
  Fixpoint f64cmp_at (pair : Z -> Z -> bool) (b : batch) (e : expr) (i : nat) : bool :=
    match e with
    | ECmp _ x y => is_f64 (ety (schema_of b) x) && pair (vsem b x i) (vsem b y i)
    | EAnd x y | EOr x y => f64cmp_at pair b x i || f64cmp_at pair b y i
    | ENot x | EAlias x => f64cmp_at pair b x i
    | EBetween x lo hi _ =>
        is_f64 (ety (schema_of b) x) && (pair (vsem b x i) (vsem b lo i) || pair (vsem b x i) (vsem b hi i))
    | _ => false
    end.

  (* the known-finding classes, decided by the input's shape only *)
  Definition nan_row (e : expr) (b : batch) (i : nat) : bool := rvalid b e i && f64cmp_at nan_pair b e i.
  Definition negzero_row (e : expr) (b : batch) (i : nat) : bool := rvalid b e i && f64cmp_at zero_pair b e i.
  Definition special_row (e : expr) (b : batch) (i : nat) : bool := nan_row e b i || negzero_row e b i.
  Definition known_nan_f64 (e : expr) (b : batch) : bool := existsb (nan_row e b) (seq 0 (b_rows b)).
  Definition known_negzero_f64 (e : expr) (b : batch) : bool := existsb (negzero_row e b) (seq 0 (b_rows b)).
  Definition known_special_f64 (e : expr) (b : batch) : bool := known_nan_f64 e b || known_negzero_f64 e b.
End Eval.

(* ------------------------------------------------------------------ *)
(* SSA-shaped register use: every dst is the next fresh register of its file, every register operand is
   smaller than it, and at most MAX_REGS registers per file. Returns the final counters. *)
Definition src_ok (nf : nat) (s : src) : bool := match s with SReg r => (r <? nf)%nat | _ => true end.
Fixpoint ssa_run (nf nm : nat) (prog : list instr) : option (nat * nat) :=
  match prog with
  | [] => Some (nf, nm)
  | ins :: r =>
      match ins with
      | ILoadF _ d | ILitF _ d =>
          if ((d =? nf) && (nf <? MAX_REGS))%nat then ssa_run (S nf) nm r else None
      | IArith _ a b d =>
          if ((a <? d) && (b <? d) && (d =? nf) && (nf <? MAX_REGS))%nat then ssa_run (S nf) nm r else None
      | ICmpF a b _ d | ICmpI64 a b _ d | ICmpI32 a b _ d =>
          if (src_ok nf a && src_ok nf b && (d =? nm) && (nm <? MAX_REGS))%nat then ssa_run nf (S nm) r else None
      | IAnd a b d | IOr a b d =>
          if ((a <? d) && (b <? d) && (d =? nm) && (nm <? MAX_REGS))%nat then ssa_run nf (S nm) r else None
      | INot a d =>
          if ((a <? d) && (d =? nm) && (nm <? MAX_REGS))%nat then ssa_run nf (S nm) r else None
      end
  end.

(* ------------------------------------------------------------------ *)
(* helpers for the correspondence check                                 *)
(* logical per-row value as a digit: 0 false, 1 true, 2 NULL *)
Definition enc (x : option bool) : Z := match x with Some false => 0 | Some true => 1 | None => 2 end.
(* impl output: None = declined / error; Some digits *)
Definition out_eqb (impl : option (list Z)) (model : option (list (option bool))) : bool :=
  match impl, model with
  | None, None => true
  | Some a, Some m => list_eqb Z.eqb a (map enc m)
  | _, _ => false
  end.
(* f64 arithmetic oracle for the check: a finite table ((opcode, a, b), result) computed by the host FPU *)
Definition arith_code (op : arith) : Z := match op with Add => 0 | Sub => 1 | Mul => 2 | Div => 3 end.
Fixpoint tbl_fop (t : list (Z * Z * Z * Z)) (op : arith) (a b : Z) : Z :=
  match t with
  | [] => 0
  | (o, x, y, r) :: t' => if (o =? arith_code op) && (x =? a) && (y =? b) then r else tbl_fop t' op a b
  end.
(* batch columns from k distinct pattern rows and a layout of (pattern index, repeat) segments *)
Definition expand {A} (d : A) (segs : list (nat * nat)) (l : list A) : list A :=
  flat_map (fun s => repeat (nth (fst s) l d) (snd s)) segs.
Definition expand_col (segs : list (nat * nat)) (c : column) : column :=
  mkCol (c_name c) (c_ty c) (expand 0 segs (c_vals c)) (expand true segs (c_valid c)).
Definition expand_batch (segs : list (nat * nat)) (b : batch) : batch :=
  mkBatch (list_sum (map snd segs)) (map (expand_col segs) (b_cols b)).
