(* C06: the model's IEEE comparison on bit patterns (Model.f64_ieee_cmp, used for Rust `<`,`==` on f64)
   agrees with Flocq's IEEE-754 binary64 comparison Bcompare on a grid of boundary values:
   +-0, smallest/largest subnormals, smallest normal, 0.5, 1.0 and neighbours, -0.5, -1.0, largest finite,
   +-inf, signalling/quiet/negative/payload NaNs, all-ones. *)
From Flocq Require Import IEEE754.Binary IEEE754.Bits.
From QV Require Import Base.Util C06.Model.
Local Open Scope Z_scope.

Definition flocq_cmp (a b : Z) : ord :=
  match Bcompare 53 1024 (b64_of_bits a) (b64_of_bits b) with
  | Some Lt => OLt | Some Eq => OEq | Some Gt => OGt | None => OUn
  end.
Definition f64_grid : list Z :=
  [0; 9223372036854775808; 1; 9223372036854775809; 4503599627370495; 4503599627370496;
   4602678819172646912; 4607182418800017408; 13830554455654793216; 13826050856027422720;
   9218868437227405311; 9218868437227405312; 18442240474082181120; 18442240474082181119;
   9218868437227405313; 9221120237041090560; 18444492273895866368; 9221120237041090561; 18446744073709551615;
   4607182418800017409; 4607182418800017407].
Definition ord_eqb (x y : ord) : bool :=
  match x, y with OLt, OLt | OEq, OEq | OGt, OGt | OUn, OUn => true | _, _ => false end.

Lemma ieee_cmp_matches_flocq_on_grid :
  forallb (fun a => forallb (fun b => ord_eqb (f64_ieee_cmp a b) (flocq_cmp a b)) f64_grid) f64_grid = true.
Proof. vm_compute. reflexivity. Qed.
