(* Shared by C16 / C41 / C42: Rust byte-slice and str primitives over `list Z`.
   A `&[u8]` is a list of bytes 0..255; a `&str`/`String` is the list of its Unicode scalar
   values (code points), so `char::is_whitespace`, `trim`, `split_whitespace`, `split_once`,
   `parse::<uN>()`, `from_str_radix(_,16)` are modelled on code points, and
   `from_utf8` / `from_utf8_lossy` are the decoders from bytes to code points.
   Definitions first, then the lemmas the three developments share. *)
From QV Require Export Base.Util.

(* ---------- char::is_whitespace (Unicode White_Space) ---------- *)
Definition is_ws (c : Z) : bool :=
  ((9 <=? c) && (c <=? 13)) || (c =? 32) || (c =? 133) || (c =? 160) || (c =? 5760)
  || ((8192 <=? c) && (c <=? 8202)) || (c =? 8232) || (c =? 8233) || (c =? 8239)
  || (c =? 8287) || (c =? 12288).

(* str::trim_start / trim_end / trim *)
Fixpoint trim_start (l : list Z) : list Z :=
  match l with
  | [] => []
  | x :: r => if is_ws x then trim_start r else l
  end.
Fixpoint trim_end (l : list Z) : list Z :=
  match l with
  | [] => []
  | x :: r => match trim_end r with
              | [] => if is_ws x then [] else [x]
              | r' => x :: r'
              end
  end.
Definition trim (l : list Z) : list Z := trim_end (trim_start l).

(* slice::split(pred) / str::split(char): always at least one piece *)
Fixpoint split_by (p : Z -> bool) (l : list Z) : list (list Z) :=
  match l with
  | [] => [[]]
  | x :: r => if p x then [] :: split_by p r
              else match split_by p r with
                   | q :: qs => (x :: q) :: qs
                   | [] => [[x]]
                   end
  end.
Definition split_on (c : Z) : list Z -> list (list Z) := split_by (Z.eqb c).

Definition is_nil {A} (l : list A) : bool := match l with [] => true | _ => false end.
(* str::split_whitespace = split(char::is_whitespace).filter(|s| !s.is_empty()) *)
Definition split_ws (l : list Z) : list (list Z) := filter (fun t => negb (is_nil t)) (split_by is_ws l).

(* str::split_once(char) *)
Fixpoint split_once (c : Z) (l : list Z) : option (list Z * list Z) :=
  match l with
  | [] => None
  | x :: r => if x =? c then Some ([], r)
              else match split_once c r with
                   | Some (a, b) => Some (x :: a, b)
                   | None => None
                   end
  end.

Definition to_lower (c : Z) : Z := if (65 <=? c) && (c <=? 90) then c + 32 else c.

(* ---------- <unsigned>::from_str / from_str_radix ---------- *)
Definition is_digit (c : Z) : bool := (48 <=? c) && (c <=? 57).
Definition digits_val (l : list Z) : Z := fold_left (fun a d => a * 10 + (d - 48)) l 0.
(* a single leading '+' is accepted; "" and "+" are errors; '-' is an invalid digit for unsigned *)
Definition strip_plus (l : list Z) : list Z := match l with 43 :: r => r | _ => l end.
Definition parse_uint (bound : Z) (l : list Z) : option Z :=
  let ds := strip_plus l in
  if is_nil ds then None
  else if forallb is_digit ds
       then (let v := digits_val ds in if v <? bound then Some v else None)
       else None.

Definition hex_digit (c : Z) : option Z :=
  if is_digit c then Some (c - 48)
  else if (97 <=? c) && (c <=? 102) then Some (c - 87)
  else if (65 <=? c) && (c <=? 70) then Some (c - 55)
  else None.
Fixpoint hex_val (acc : Z) (l : list Z) : option Z :=
  match l with
  | [] => Some acc
  | c :: r => match hex_digit c with Some d => hex_val (acc * 16 + d) r | None => None end
  end.
(* bound = Some 2^64 for usize; None = unbounded (used by reference decoders) *)
Definition parse_hex (bound : option Z) (l : list Z) : option Z :=
  let ds := strip_plus l in
  if is_nil ds then None
  else match hex_val 0 ds with
       | Some v => match bound with
                   | Some b => if v <? b then Some v else None
                   | None => Some v
                   end
       | None => None
       end.

(* canonical renderers (format!("{}"), format!("{:x}")) *)
Fixpoint dec_fuel (f : nat) (n : Z) : list Z :=
  match f with
  | O => []
  | S f' => if n <? 10 then [48 + n] else dec_fuel f' (n / 10) ++ [48 + n mod 10]
  end.
Definition dec (n : Z) : list Z := dec_fuel 20 n.       (* exact for 0 <= n < 10^20 *)
Definition hex_char (d : Z) : Z := if d <? 10 then 48 + d else 87 + d.
Fixpoint hex_fuel (f : nat) (n : Z) : list Z :=
  match f with
  | O => []
  | S f' => if n <? 16 then [hex_char n] else hex_fuel f' (n / 16) ++ [hex_char (n mod 16)]
  end.
Definition hex (n : Z) : list Z := hex_fuel 16 n.       (* exact for 0 <= n < 16^16 = 2^64 *)

(* ---------- UTF-8: one step of core::str::lossy::Utf8Chunks / run_utf8_validation ---------- *)
Definition is_cont (b : Z) : bool := (128 <=? b) && (b <=? 191).
Definition second3_ok (b0 b1 : Z) : bool :=
  ((b0 =? 224) && (160 <=? b1) && (b1 <=? 191))
  || ((225 <=? b0) && (b0 <=? 236) && is_cont b1)
  || ((b0 =? 237) && (128 <=? b1) && (b1 <=? 159))
  || ((238 <=? b0) && (b0 <=? 239) && is_cont b1).
Definition second4_ok (b0 b1 : Z) : bool :=
  ((b0 =? 240) && (144 <=? b1) && (b1 <=? 191))
  || ((241 <=? b0) && (b0 <=? 243) && is_cont b1)
  || ((b0 =? 244) && (128 <=? b1) && (b1 <=? 143)).

(* (Some code_point, bytes consumed) for a valid sequence, (None, k) for an invalid chunk of k>=1
   bytes (the "maximal prefix of a valid sequence" that from_utf8_lossy replaces by one U+FFFD) *)
Definition utf8_step (l : list Z) : option Z * nat :=
  match l with
  | [] => (None, 1%nat)
  | b0 :: r =>
    if b0 <? 128 then (Some b0, 1%nat)
    else if (194 <=? b0) && (b0 <=? 223) then
      match r with
      | b1 :: _ => if is_cont b1 then (Some ((b0 - 192) * 64 + (b1 - 128)), 2%nat) else (None, 1%nat)
      | [] => (None, 1%nat)
      end
    else if (224 <=? b0) && (b0 <=? 239) then
      match r with
      | b1 :: r2 =>
        if second3_ok b0 b1 then
          match r2 with
          | b2 :: _ => if is_cont b2
                       then (Some ((b0 - 224) * 4096 + (b1 - 128) * 64 + (b2 - 128)), 3%nat)
                       else (None, 2%nat)
          | [] => (None, 2%nat)
          end
        else (None, 1%nat)
      | [] => (None, 1%nat)
      end
    else if (240 <=? b0) && (b0 <=? 244) then
      match r with
      | b1 :: r2 =>
        if second4_ok b0 b1 then
          match r2 with
          | b2 :: r3 =>
            if is_cont b2 then
              match r3 with
              | b3 :: _ => if is_cont b3
                           then (Some ((b0 - 240) * 262144 + (b1 - 128) * 4096 + (b2 - 128) * 64 + (b3 - 128)), 4%nat)
                           else (None, 3%nat)
              | [] => (None, 3%nat)
              end
            else (None, 2%nat)
          | [] => (None, 2%nat)
          end
        else (None, 1%nat)
      | [] => (None, 1%nat)
      end
    else (None, 1%nat)
  end.

Fixpoint utf8_chunks (fuel : nat) (l : list Z) : list (option Z) :=
  match fuel with
  | O => []
  | S f => match l with
           | [] => []
           | _ => let '(c, n) := utf8_step l in c :: utf8_chunks f (skipn n l)
           end
  end.
(* String::from_utf8_lossy: invalid chunks become U+FFFD *)
Definition from_utf8_lossy (l : list Z) : list Z :=
  map (fun o => match o with Some c => c | None => 65533 end) (utf8_chunks (length l) l).
(* str::from_utf8(..).ok() *)
Fixpoint all_some (l : list (option Z)) : option (list Z) :=
  match l with
  | [] => Some []
  | Some c :: r => match all_some r with Some cs => Some (c :: cs) | None => None end
  | None :: _ => None
  end.
Definition from_utf8 (l : list Z) : option (list Z) := all_some (utf8_chunks (length l) l).

(* ---------- slice.windows(|p|).position(|w| w == p), p non-empty ---------- *)
Fixpoint is_prefix (p l : list Z) : bool :=
  match p, l with
  | [], _ => true
  | _ :: _, [] => false
  | a :: p', b :: l' => (a =? b) && is_prefix p' l'
  end.
Fixpoint find_sub (p l : list Z) : option nat :=
  match l with
  | [] => None
  | _ :: r => if is_prefix p l then Some 0%nat else option_map S (find_sub p r)
  end.

Definition zlen (l : list Z) : Z := Z.of_nat (length l).
Definition ascii (l : list Z) : bool := forallb (fun c => (0 <=? c) && (c <? 128)) l.
Definition no_ws (l : list Z) : bool := forallb (fun c => negb (is_ws c)) l.
Definition all_ws (l : list Z) : bool := forallb is_ws l.
Definition lacks (c : Z) (l : list Z) : bool := forallb (fun x => negb (x =? c)) l.

(* ====================================================================== *)
(* Lemmas                                                                  *)

Lemma all_ws_app a b : all_ws (a ++ b) = all_ws a && all_ws b.
Proof. apply forallb_app. Qed.

Lemma trim_start_ws w l : all_ws w = true -> trim_start (w ++ l) = trim_start l.
Proof.
  induction w as [|x w IH]; cbn [app all_ws forallb]; auto.
  intros H; apply andb_true_iff in H as [Hx Hw]. cbn [trim_start]. rewrite Hx. now apply IH.
Qed.
Lemma trim_start_nonws x r : is_ws x = false -> trim_start (x :: r) = x :: r.
Proof. intros H; cbn [trim_start]. now rewrite H. Qed.
Lemma trim_end_all_ws w : all_ws w = true -> trim_end w = [].
Proof.
  induction w as [|x w IH]; cbn [all_ws forallb trim_end]; auto.
  intros H; apply andb_true_iff in H as [Hx Hw]. fold (all_ws w) in Hw. rewrite (IH Hw). now rewrite Hx.
Qed.
Lemma trim_end_ws l w : all_ws w = true -> trim_end (l ++ w) = trim_end l.
Proof.
  intros Hw; induction l as [|x l IH]; cbn [app trim_end].
  - now apply trim_end_all_ws.
  - now rewrite IH.
Qed.
Lemma trim_end_snoc l x : is_ws x = false -> trim_end (l ++ [x]) = l ++ [x].
Proof.
  intros Hx; induction l as [|a l IH]; cbn [app trim_end].
  - now rewrite Hx.
  - rewrite IH. destruct (l ++ [x]) eqn:E; [destruct l; discriminate|reflexivity].
Qed.
Lemma trim_end_app_snoc a l x : is_ws x = false -> trim_end (a ++ l ++ [x]) = a ++ l ++ [x].
Proof. intros H. rewrite app_assoc. now apply trim_end_snoc. Qed.

Lemma trim_comm l : trim_start (trim_end l) = trim_end (trim_start l).
Proof.
  induction l as [|x l IH]; auto.
  cbn [trim_end trim_start]. destruct (is_ws x) eqn:Hx.
  - destruct (trim_end l) eqn:E.
    + cbn [trim_start]. rewrite <- IH. reflexivity.
    + rewrite <- IH. cbn [trim_start]. now rewrite Hx.
  - cbn [trim_end]. destruct (trim_end l); cbn [trim_start]; now rewrite Hx.
Qed.

Lemma trim_pad w1 v w2 : all_ws w1 = true -> all_ws w2 = true -> trim (w1 ++ v ++ w2) = trim v.
Proof.
  intros H1 H2. unfold trim. rewrite trim_start_ws by assumption.
  rewrite <- trim_comm, trim_end_ws by assumption. apply trim_comm.
Qed.
Lemma trim_end_nonws l : no_ws l = true -> trim_end l = l.
Proof.
  induction l as [|x l IH]; auto. cbn [no_ws forallb]. intros H.
  apply andb_true_iff in H as [Hx Hr]. apply negb_true_iff in Hx.
  cbn [trim_end]. rewrite (IH Hr). rewrite Hx. destruct l; reflexivity.
Qed.
Lemma trim_nonws l : no_ws l = true -> trim l = l.
Proof.
  intros H. unfold trim. destruct l as [|x r]; auto.
  pose proof H as H'. cbn [no_ws forallb] in H'. apply andb_true_iff in H' as [Hx _]. apply negb_true_iff in Hx.
  rewrite trim_start_nonws by assumption. now apply trim_end_nonws.
Qed.
Lemma trim_all_ws w : all_ws w = true -> trim w = [].
Proof. intros H. unfold trim. rewrite <- (app_nil_r w). rewrite trim_start_ws by auto. reflexivity. Qed.
(* a core that starts and ends with non-whitespace survives trim, whatever is inside *)
Lemma trim_core w1 x mid y w2 :
  all_ws w1 = true -> all_ws w2 = true -> is_ws x = false -> is_ws y = false ->
  trim (w1 ++ (x :: mid ++ [y]) ++ w2) = x :: mid ++ [y].
Proof.
  intros H1 H2 Hx Hy. rewrite trim_pad by assumption. unfold trim.
  rewrite trim_start_nonws by assumption.
  change (x :: mid ++ [y]) with ((x :: mid) ++ [y]). now apply trim_end_snoc.
Qed.
Lemma trim_preserves_in c l : is_ws c = false -> In c l -> In c (trim l).
Proof.
  intros Hc. unfold trim. intros H.
  assert (Hs : In c (trim_start l)).
  { induction l as [|x l IH]; auto. cbn [trim_start]. destruct (is_ws x) eqn:E; auto.
    destruct H as [->|H]; [congruence|auto]. }
  clear H. induction (trim_start l) as [|x r IH]; auto.
  cbn [trim_end]. destruct Hs as [->|Hs].
  - destruct (trim_end r); [rewrite Hc|]; now left.
  - specialize (IH Hs). destruct (trim_end r); [destruct IH|]. now right.
Qed.

(* ---------- split ---------- *)
Lemma split_by_nonnil p l : split_by p l <> [].
Proof. destruct l as [|x r]; cbn; [discriminate|]. destruct (p x); [discriminate|]. destruct (split_by p r); discriminate. Qed.
Lemma split_by_none p t : forallb (fun x => negb (p x)) t = true -> split_by p t = [t].
Proof.
  induction t as [|x t IH]; auto. cbn [forallb]. intros H. apply andb_true_iff in H as [Hx Ht].
  apply negb_true_iff in Hx. cbn [split_by]. now rewrite Hx, IH.
Qed.
Lemma split_by_app p t x rest :
  forallb (fun x => negb (p x)) t = true -> p x = true ->
  split_by p (t ++ x :: rest) = t :: split_by p rest.
Proof.
  intros Ht Hx. induction t as [|a t IH]; cbn [app split_by].
  - now rewrite Hx.
  - cbn [forallb] in Ht. apply andb_true_iff in Ht as [Ha Ht]. apply negb_true_iff in Ha.
    now rewrite Ha, IH.
Qed.
Lemma split_once_app c a b : lacks c a = true -> split_once c (a ++ c :: b) = Some (a, b).
Proof.
  induction a as [|x a IH]; cbn [app split_once lacks forallb].
  - now rewrite Z.eqb_refl.
  - intros H. apply andb_true_iff in H as [Hx Ha]. apply negb_true_iff in Hx. now rewrite Hx, IH.
Qed.
Lemma split_once_none c a : lacks c a = true -> split_once c a = None.
Proof.
  induction a as [|x a IH]; auto. cbn [split_once lacks forallb]. intros H.
  apply andb_true_iff in H as [Hx Ha]. apply negb_true_iff in Hx. now rewrite Hx, IH.
Qed.
Lemma split_once_some c l a b : split_once c l = Some (a, b) -> l = a ++ c :: b.
Proof.
  revert a; induction l as [|x l IH]; intros a; cbn [split_once]; [discriminate|].
  destruct (Z.eqb_spec x c) as [->|Ne].
  - intros H; inversion H; reflexivity.
  - destruct (split_once c l) as [[a' b']|]; [|discriminate]. intros H; inversion H; subst.
    cbn [app]. f_equal. now apply IH.
Qed.

(* ---------- numbers ---------- *)
Lemma digits_val_snoc l d : digits_val (l ++ [d]) = digits_val l * 10 + (d - 48).
Proof. unfold digits_val. now rewrite fold_left_app. Qed.

Lemma is_digit_intro c : 48 <= c <= 57 -> is_digit c = true.
Proof. intros H. unfold is_digit. apply andb_true_iff; split; apply Z.leb_le; lia. Qed.
Lemma dec_fuel_S f n : dec_fuel (S f) n = if n <? 10 then [48 + n] else dec_fuel f (n / 10) ++ [48 + n mod 10].
Proof. reflexivity. Qed.
Lemma hex_fuel_S f n : hex_fuel (S f) n = if n <? 16 then [hex_char n] else hex_fuel f (n / 16) ++ [hex_char (n mod 16)].
Proof. reflexivity. Qed.
Lemma dec_fuel_spec f : forall n, 0 <= n < 10 ^ Z.of_nat (S f) ->
  digits_val (dec_fuel (S f) n) = n /\ forallb is_digit (dec_fuel (S f) n) = true /\ dec_fuel (S f) n <> [].
Proof.
  induction f as [|f IH]; intros n Hn; rewrite dec_fuel_S; destruct (Z.ltb_spec n 10) as [L|L].
  - repeat split; [unfold digits_val; cbn [fold_left]; lia | | discriminate].
    cbn [forallb]. rewrite is_digit_intro by lia. reflexivity.
  - change (10 ^ Z.of_nat 1) with 10 in Hn. lia.
  - repeat split; [unfold digits_val; cbn [fold_left]; lia | | discriminate].
    cbn [forallb]. rewrite is_digit_intro by lia. reflexivity.
  - rewrite Nat2Z.inj_succ, Z.pow_succ_r in Hn by lia.
    assert (Hq : 0 <= n / 10 < 10 ^ Z.of_nat (S f)).
    { split; [apply Z.div_pos; lia|]. apply Z.div_lt_upper_bound; lia. }
    destruct (IH _ Hq) as (Hv & Hd & Hne).
    pose proof (Z.mod_pos_bound n 10 ltac:(lia)) as Hm.
    repeat split.
    + rewrite digits_val_snoc, Hv. pose proof (Z.div_mod n 10 ltac:(lia)). lia.
    + rewrite forallb_app, Hd. cbn [forallb]. rewrite is_digit_intro by lia. reflexivity.
    + intros E. apply app_eq_nil in E as [_ E]. discriminate.
Qed.

Lemma dec_spec n : 0 <= n < 2 ^ 64 ->
  digits_val (dec n) = n /\ forallb is_digit (dec n) = true /\ dec n <> [].
Proof. intros H. apply (dec_fuel_spec 19). change (10 ^ Z.of_nat 20) with 100000000000000000000. change (2 ^ 64) with 18446744073709551616 in H. lia. Qed.

Lemma is_digit_props c : is_digit c = true -> is_ws c = false /\ (c =? 43) = false /\ (c =? 44) = false /\ (c =? 45) = false /\ 0 <= c < 128.
Proof.
  unfold is_digit, is_ws. intros H. apply andb_true_iff in H as [A B]. apply Z.leb_le in A. apply Z.leb_le in B.
  repeat split; try lia;
  repeat (apply orb_false_iff; split); try (apply andb_false_iff); try (apply Z.eqb_neq; lia);
  try (left; apply Z.leb_gt; lia); try (right; apply Z.leb_gt; lia).
Qed.
Lemma digits_no_ws l : forallb is_digit l = true -> no_ws l = true.
Proof.
  unfold no_ws. induction l as [|x l IH]; auto. cbn [forallb]. intros H. apply andb_true_iff in H as [Hx Hl].
  destruct (is_digit_props x Hx) as (W & _). now rewrite W, IH.
Qed.
Lemma digits_lack c l : is_digit c = false -> forallb is_digit l = true -> lacks c l = true.
Proof.
  intros Hc. unfold lacks. induction l as [|x l IH]; auto. cbn [forallb]. intros H. apply andb_true_iff in H as [Hx Hl].
  rewrite IH by assumption. rewrite andb_true_r. apply negb_true_iff, Z.eqb_neq. intros ->. congruence.
Qed.

(* leading zeros do not change the value *)
Lemma digits_val_zeros k l : digits_val (repeat 48 k ++ l) = digits_val l.
Proof.
  unfold digits_val. rewrite fold_left_app.
  assert (E : fold_left (fun a d => a * 10 + (d - 48)) (repeat 48 k) 0 = 0).
  { induction k as [|k IH]; auto. }
  now rewrite E.
Qed.

Lemma parse_uint_digits bound ds :
  ds <> [] -> forallb is_digit ds = true -> digits_val ds < bound -> parse_uint bound ds = Some (digits_val ds).
Proof.
  intros Hne Hd Hb. unfold parse_uint.
  assert (Hs : strip_plus ds = ds).
  { destruct ds as [|x r]; auto. cbn [forallb] in Hd. apply andb_true_iff in Hd as [Hx _].
    destruct (is_digit_props x Hx) as (_ & P & _). apply Z.eqb_neq in P.
    unfold strip_plus. destruct x as [|p|p]; auto. repeat (destruct p as [p|p|]; auto); congruence. }
  rewrite Hs. destruct ds; [congruence|]. cbn [is_nil]. rewrite Hd.
  destruct (Z.ltb_spec (digits_val (z :: ds)) bound); [reflexivity|lia].
Qed.

(* whatever parses as an unsigned decimal consists of digits and '+' only *)
Lemma parse_uint_chars bound l v c : parse_uint bound l = Some v -> In c l -> is_digit c = true \/ c = 43.
Proof.
  unfold parse_uint. destruct (is_nil (strip_plus l)); [discriminate|].
  destruct (forallb is_digit (strip_plus l)) eqn:E; [|discriminate]. intros _ Hin.
  rewrite forallb_forall in E.
  unfold strip_plus in E. destruct l as [|x r]; [destruct Hin|].
  destruct (Z.eq_dec x 43) as [->|Ne].
  - destruct Hin as [<-|Hin]; [now right|left; now apply E].
  - left. apply E. destruct x as [|p|p]; auto.
    repeat (destruct p as [p|p|]; auto); congruence.
Qed.

(* ---------- hex ---------- *)
Lemma hex_val_app acc a b : hex_val acc (a ++ b) = match hex_val acc a with Some v => hex_val v b | None => None end.
Proof. revert acc; induction a as [|x a IH]; intros acc; cbn [app hex_val]; auto. destruct (hex_digit x); auto. Qed.
Lemma hex_digit_char d : 0 <= d < 16 -> hex_digit (hex_char d) = Some d.
Proof.
  intros H. unfold hex_char, hex_digit, is_digit.
  destruct (Z.ltb_spec d 10).
  - replace ((48 <=? 48 + d) && (48 + d <=? 57)) with true by (symmetry; apply andb_true_iff; split; apply Z.leb_le; lia).
    f_equal; lia.
  - replace ((48 <=? 87 + d) && (87 + d <=? 57)) with false by (symmetry; apply andb_false_iff; right; apply Z.leb_gt; lia).
    replace ((97 <=? 87 + d) && (87 + d <=? 102)) with true by (symmetry; apply andb_true_iff; split; apply Z.leb_le; lia).
    f_equal; lia.
Qed.
Lemma hex_char_range d : 0 <= d < 16 -> 48 <= hex_char d <= 102 /\ hex_char d <> 59.
Proof. intros H. unfold hex_char. destruct (Z.ltb_spec d 10); lia. Qed.

Lemma hex_fuel_spec f : forall n, 0 <= n < 16 ^ Z.of_nat (S f) ->
  hex_val 0 (hex_fuel (S f) n) = Some n /\ hex_fuel (S f) n <> [] /\
  Forall (fun c => 48 <= c <= 102 /\ c <> 59) (hex_fuel (S f) n).
Proof.
  assert (Base : forall n, 0 <= n < 16 -> hex_val 0 [hex_char n] = Some n /\ [hex_char n] <> [] /\
            Forall (fun c => 48 <= c <= 102 /\ c <> 59) [hex_char n]).
  { intros n L. repeat split; [|discriminate|].
    - cbn [hex_val]. rewrite hex_digit_char by lia. f_equal.
    - constructor; [apply hex_char_range; lia|constructor]. }
  induction f as [|f IH]; intros n Hn; rewrite hex_fuel_S; destruct (Z.ltb_spec n 16) as [L|L].
  - apply Base; lia.
  - change (16 ^ Z.of_nat 1) with 16 in Hn. lia.
  - apply Base; lia.
  - rewrite Nat2Z.inj_succ, Z.pow_succ_r in Hn by lia.
    assert (Hq : 0 <= n / 16 < 16 ^ Z.of_nat (S f)).
    { split; [apply Z.div_pos; lia|]. apply Z.div_lt_upper_bound; lia. }
    destruct (IH _ Hq) as (Hv & Hne & Hr).
    pose proof (Z.mod_pos_bound n 16 ltac:(lia)) as Hm.
    repeat split.
    + rewrite hex_val_app, Hv. cbn [hex_val]. rewrite hex_digit_char by lia.
      f_equal. pose proof (Z.div_mod n 16 ltac:(lia)). lia.
    + intros E. apply app_eq_nil in E as [_ E]. discriminate.
    + apply Forall_app; split; auto. constructor; [apply hex_char_range; lia|constructor].
Qed.

Lemma hex_spec n : 0 <= n < 2 ^ 64 ->
  hex_val 0 (hex n) = Some n /\ hex n <> [] /\ Forall (fun c => 48 <= c <= 102 /\ c <> 59) (hex n).
Proof. intros H. apply (hex_fuel_spec 15). change (16 ^ Z.of_nat 16) with (2 ^ 64). lia. Qed.

(* ---------- UTF-8 on ASCII ---------- *)
Lemma utf8_chunks_ascii l : ascii l = true -> forall f, (length l <= f)%nat -> utf8_chunks f l = map Some l.
Proof.
  induction l as [|x l IH]; intros H f Hf.
  - destruct f; reflexivity.
  - destruct f as [|f]; [cbn in Hf; lia|].
    cbn [ascii forallb] in H. apply andb_true_iff in H as [Hx Hl]. apply andb_true_iff in Hx as [_ Hx].
    cbn [utf8_chunks utf8_step]. rewrite Hx. cbn [skipn map]. f_equal. apply IH; auto. cbn in Hf; lia.
Qed.
Lemma from_utf8_lossy_ascii l : ascii l = true -> from_utf8_lossy l = l.
Proof.
  intros H. unfold from_utf8_lossy. rewrite utf8_chunks_ascii by auto. rewrite map_map. apply map_id.
Qed.
Lemma all_some_map_Some l : all_some (map Some l) = Some l.
Proof. induction l as [|x l IH]; auto. cbn. now rewrite IH. Qed.
Lemma from_utf8_ascii l : ascii l = true -> from_utf8 l = Some l.
Proof. intros H. unfold from_utf8. rewrite utf8_chunks_ascii by auto. apply all_some_map_Some. Qed.
Lemma ascii_app a b : ascii (a ++ b) = ascii a && ascii b.
Proof. apply forallb_app. Qed.

(* ---------- find_sub ---------- *)
Lemma is_prefix_length p l : is_prefix p l = true -> (length p <= length l)%nat.
Proof.
  revert l; induction p as [|a p IH]; intros [|b l]; cbn; intros H; try lia; try discriminate.
  apply andb_true_iff in H as [_ H]. apply IH in H. lia.
Qed.
Lemma find_sub_bound p l n : find_sub p l = Some n -> (n + length p <= length l)%nat.
Proof.
  revert n; induction l as [|x l IH]; intros n; cbn [find_sub]; [discriminate|].
  destruct (is_prefix p (x :: l)) eqn:E.
  - intros H; inversion H; subst. apply is_prefix_length in E. lia.
  - destruct (find_sub p l) as [m|]; cbn; [|discriminate]. intros H; inversion H; subst.
    specialize (IH m eq_refl). cbn [length]. lia.
Qed.
Lemma is_prefix_firstn p l k :
  is_prefix p (firstn k l) = is_prefix p l && (length p <=? k)%nat.
Proof.
  revert l k; induction p as [|a p IH]; intros l k.
  - reflexivity.
  - destruct l as [|b l]; destruct k as [|k]; cbn [firstn is_prefix length]; auto.
    + now rewrite andb_false_r.
    + rewrite IH. cbn [Nat.leb]. now rewrite andb_assoc.
Qed.
(* the first match in a prefix is the first match of the whole, if it fits *)
Lemma find_sub_firstn p l n : p <> [] -> find_sub p l = Some n ->
  forall k, find_sub p (firstn k l) = if (n + length p <=? k)%nat then Some n else None.
Proof.
  intros Hp. revert n; induction l as [|x l IH]; intros n; cbn [find_sub]; [discriminate|].
  destruct (is_prefix p (x :: l)) eqn:E.
  - intros H k; inversion H; subst. destruct k as [|k].
    + cbn [firstn find_sub]. destruct p; [congruence|]. reflexivity.
    + cbn [firstn find_sub]. change (x :: firstn k l) with (firstn (S k) (x :: l)).
      rewrite is_prefix_firstn, E. cbn [andb plus].
      destruct (length p <=? S k)%nat eqn:L; auto.
      destruct (find_sub p (firstn k l)) as [m|] eqn:F; auto.
      apply find_sub_bound in F. rewrite firstn_length in F. apply Nat.leb_gt in L. lia.
  - destruct (find_sub p l) as [m|] eqn:F; cbn [option_map]; [|discriminate]. intros H k; inversion H; subst.
    destruct k as [|k].
    + reflexivity.
    + cbn [firstn find_sub]. change (x :: firstn k l) with (firstn (S k) (x :: l)).
      rewrite is_prefix_firstn, E. cbn [andb]. rewrite (IH m eq_refl k). cbn [plus Nat.leb].
      destruct (m + length p <=? k)%nat; reflexivity.
Qed.
