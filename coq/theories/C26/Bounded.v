(* C26 — exhaustive agreement on small inputs (vm_compute), complementing the general theorems of Proofs.v:
   NTILE's closed form against the standard's bucket list; every window function (DENSE_RANK, NTILE, AVG and
   double sums included) against its definition on every sorted input of at most 3 rows over a small value
   domain; RANGE frames with offsets on every sorted input of at most 4 rows — outside the recorded class;
   the witnesses of the recorded classes. *)
From QV Require Import C26.Model.
Open Scope Z_scope.

(* ---------- NTILE ---------- *)
Definition ntile_ok (n k : nat) : bool :=
  forallb (fun pos => nth pos (ntile_list n k) 0 =? ntile_ix n k pos) (seq 0 n).

Lemma ntile_table : forallb (fun n => forallb (fun k => ntile_ok n k) (seq 1 40)) (seq 0 41) = true.
Proof. vm_cast_no_check (eq_refl true). Qed.

Theorem ntile_bounded n k pos : (n <= 40)%nat -> (1 <= k <= 40)%nat -> (pos < n)%nat ->
  nth pos (ntile_list n k) 0 = ntile_ix n k pos.
Proof.
  intros Hn Hk Hp. pose proof ntile_table as T.
  rewrite forallb_forall in T. specialize (T n ltac:(apply in_seq; lia)).
  rewrite forallb_forall in T. specialize (T k ltac:(apply in_seq; lia)).
  unfold ntile_ok in T. rewrite forallb_forall in T. specialize (T pos ltac:(apply in_seq; lia)).
  now apply Z.eqb_eq.
Qed.

(* ---------- small inputs ---------- *)
Fixpoint lists_n {A} (xs : list A) (n : nat) : list (list A) :=
  match n with O => [[]] | S m => flat_map (fun x => map (cons x) (lists_n xs m)) xs end.
Definition lists_upto {A} (xs : list A) (n : nat) : list (list A) := flat_map (lists_n xs) (seq 0 (S n)).

Definition agree (w : wexpr) (lin : list row) : bool :=
  match wmodel w lin, wspec w lin with
  | Some a, Some b => col_close a b
  | None, None => true
  | _, _ => false
  end.

(* rows (p, k, v): partition key, order key, argument *)
Definition rows_pkv : list row :=
  flat_map (fun p => flat_map (fun k => map (fun v => [p; k; v]) [VNull; VInt 1; VInt 2]) [VNull; VInt 0; VInt 1]) [VNull; VInt 1].
Definition tables3 : list (list row) := lists_upto rows_pkv 3.

Definition okeys (desc nf : bool) : list sortkey := [mkKey (ECol 1) desc nf].
Definition mkw (fn : wfunc) (arg dflt : option expr) (part : bool) (desc nf : bool) (fr : option frame) : wexpr :=
  mkW fn arg dflt (if part then [ECol 0] else []) (okeys desc nf) fr true MNone.

Definition bools := [false; true].
Definition flag_combos : list (bool * bool) := [(false, true); (true, false); (false, false)].

(* (function, argument, default, frame) *)
Definition small_funcs : list (wfunc * option expr * option expr * option frame) :=
  let c2 := Some (ECol 2) in
  let fr u s e := Some (mkFrame u s e) in
  [(WRowNumber, None, None, None); (WRank, None, None, None); (WDenseRank, None, None, None);
   (WPercentRank, None, None, None); (WCumeDist, None, None, None);
   (WNtile 2, None, None, None); (WNtile 3, None, None, None);
   (WLag 1, c2, None, None); (WLead 2, c2, Some (ELit (VInt 9)), None);
   (WAgg AAvg, c2, None, None); (WAgg AAvg, c2, None, fr URows (BPrec 1) (BFol 1)); (WAgg AAvg, c2, None, fr URows (BFol 1) (BPrec 1));
   (WAgg AAvg, c2, None, fr URange BCur BUnbFol); (WAgg AAvg, c2, None, fr URows BCur BUnbFol);
   (WAgg ASum, c2, None, None); (WAgg ASum, c2, None, fr URows (BPrec 2) (BPrec 1)); (WAgg ASum, c2, None, fr URange BCur BCur);
   (WFirst, c2, None, None); (WFirst, c2, None, fr URows (BFol 1) (BFol 2));
   (WLast, c2, None, None); (WLast, c2, None, fr URows BUnbPrec BUnbFol);
   (WNth 2, c2, None, None); (WNth 2, c2, None, fr URows (BPrec 1) BCur);
   (WAgg ACountStar, None, None, fr URows (BPrec 1) (BFol 1)); (WAgg ACount, c2, None, None);
   (WAgg AMin, c2, None, None); (WAgg AMin, c2, None, fr URows BCur (BFol 1)); (WAgg AMax, c2, None, fr URange BUnbPrec BUnbFol)].

Definition mkf (part : bool) (dn : bool * bool) (f : wfunc * option expr * option expr * option frame) : wexpr :=
  mkw (fst (fst (fst f))) (snd (fst (fst f))) (snd (fst f)) part (fst dn) (snd dn) (snd f).
Definition probe (part : bool) (dn : bool * bool) : wexpr := mkw WRank None None part (fst dn) (snd dn) None.

Lemma wf_probe part dn f lin : wf_sorted (mkf part dn f) lin = wf_sorted (probe part dn) lin.
Proof. reflexivity. Qed.

(* every function agrees with its definition on every well-formed sorted input of at most 3 rows *)
Lemma small_table :
  forallb (fun part => forallb (fun dn =>
    let ts := filter (wf_sorted (probe part dn)) tables3 in
    forallb (fun f => forallb (agree (mkf part dn f)) ts) small_funcs) flag_combos) bools = true.
Proof. vm_cast_no_check (eq_refl true). Qed.

Theorem small_inputs_agree part dn f lin :
  In part bools -> In dn flag_combos -> In f small_funcs -> In lin tables3 ->
  wf_sorted (mkf part dn f) lin = true -> agree (mkf part dn f) lin = true.
Proof.
  intros Hp Hd Hf Hl WF. pose proof small_table as T.
  rewrite forallb_forall in T. specialize (T part Hp). rewrite forallb_forall in T. specialize (T dn Hd). cbv zeta in T.
  rewrite forallb_forall in T. specialize (T f Hf). rewrite forallb_forall in T. apply T.
  apply filter_In. split; [exact Hl|]. now rewrite <- (wf_probe part dn f).
Qed.

(* ---------- RANGE frames with offsets ---------- *)
Definition rows_kv : list row :=
  flat_map (fun k => map (fun v => [VNull; k; v]) [VNull; VInt 1]) [VNull; VInt 0; VInt 1; VInt 3].
Definition tables4 : list (list row) := lists_upto rows_kv 4.
Definition off_bounds_start : list bound := [BUnbPrec; BPrec 0; BPrec 1; BPrec 2; BCur; BFol 1].
Definition off_bounds_end : list bound := [BPrec 1; BCur; BFol 0; BFol 1; BFol 2; BUnbFol].
Definition range_funcs : list (wfunc * option expr * option expr * option frame) :=
  flat_map (fun bs => flat_map (fun be =>
    if is_offset bs || is_offset be
    then map (fun f => (fst f, snd f, None, Some (mkFrame URange bs be)))
             [(WAgg ACountStar, None); (WFirst, Some (ECol 2)); (WAgg ASum, Some (ECol 2))]
    else []) off_bounds_end) off_bounds_start.
Definition all_flags : list (bool * bool) := [(false, true); (true, false); (false, false); (true, true)].

Lemma range_table :
  forallb (fun dn =>
    let ts := filter (wf_sorted (probe false dn)) tables4 in
    forallb (fun f => forallb (fun lin => known_range_null_edge (mkf false dn f) lin || agree (mkf false dn f) lin) ts) range_funcs)
    all_flags = true.
Proof. vm_cast_no_check (eq_refl true). Qed.

(* scan-based RANGE offset bounds = the value predicate of the standard, outside the recorded class *)
Theorem range_offset_agree dn f lin :
  In dn all_flags -> In f range_funcs -> In lin tables4 ->
  wf_sorted (mkf false dn f) lin = true -> known_range_null_edge (mkf false dn f) lin = false ->
  agree (mkf false dn f) lin = true.
Proof.
  intros Hd Hf Hl WF K. pose proof range_table as T.
  rewrite forallb_forall in T. specialize (T dn Hd). cbv zeta in T.
  rewrite forallb_forall in T. specialize (T f Hf). rewrite forallb_forall in T.
  specialize (T lin). rewrite K in T. apply T.
  apply filter_In. split; [exact Hl|]. now rewrite <- (wf_probe false dn f).
Qed.

(* ---------- witnesses of the recorded classes ---------- *)
(* t(id,k) = (1,NULL),(2,1); COUNT star OVER (ORDER BY k NULLS FIRST RANGE BETWEEN UNBOUNDED PRECEDING AND 1 PRECEDING):
   for k = 1 no non-NULL key is <= 0, the frame is the NULL row (count 1); the engine's scan returns an empty frame *)
Definition w_edge : wexpr :=
  mkW (WAgg ACountStar) None None [] [mkKey (ECol 1) false true] (Some (mkFrame URange BUnbPrec (BPrec 1))) true MNone.
Definition t_edge : list row := [[VInt 1; VNull]; [VInt 2; VInt 1]].
Theorem range_null_edge_refuted :
  wf_sorted w_edge t_edge = true /\ known_range_null_edge w_edge t_edge = true /\
  wspec w_edge t_edge = Some [VInt 1; VInt 1] /\ wmodel w_edge t_edge = Some [VInt 1; VInt 0].
Proof. vm_compute. repeat split. Qed.
(* the mirror image: NULLS LAST, RANGE BETWEEN 1 FOLLOWING AND UNBOUNDED FOLLOWING *)
Definition w_edge2 : wexpr :=
  mkW (WAgg ACountStar) None None [] [mkKey (ECol 1) false false] (Some (mkFrame URange (BFol 1) BUnbFol)) true MNone.
Definition t_edge2 : list row := [[VInt 2; VInt 1]; [VInt 1; VNull]].
Theorem range_null_edge_refuted2 :
  wf_sorted w_edge2 t_edge2 = true /\ known_range_null_edge w_edge2 t_edge2 = true /\
  wspec w_edge2 t_edge2 = Some [VInt 1; VInt 1] /\ wmodel w_edge2 t_edge2 = Some [VInt 0; VInt 1].
Proof. vm_compute. repeat split. Qed.

(* t(id,p,x) = (1,1,2^60),(2,2,1),(3,2,2): SUM(x) OVER (PARTITION BY p) is 3 on partition 2; the f64 prefix array over the
   whole sorted input absorbs the small values: the engine answers 0 *)
Definition w_f64 : wexpr := mkW (WAgg ASum) (Some (ECol 2)) None [ECol 1] [] None false MNone.
Definition t_f64 : list row := [[VInt 1; VInt 1; VInt (2 ^ 60)]; [VInt 2; VInt 2; VInt 1]; [VInt 3; VInt 2; VInt 2]].
Theorem f64_prefix_refuted :
  wf_sorted w_f64 t_f64 = true /\ known_f64_prefix w_f64 t_f64 = true /\
  wspec w_f64 t_f64 = Some [VInt (2 ^ 60); VInt 3; VInt 3] /\ wmodel w_f64 t_f64 = Some [VInt (2 ^ 60); VInt 0; VInt 0].
Proof. vm_compute. repeat split. Qed.

(* t(id,k) = (1,2^60): COUNT star OVER (ORDER BY k RANGE BETWEEN 2 FOLLOWING AND 3 FOLLOWING) is 0 (no key in [k+2,k+3]);
   in f64 k+2 = k+3 = k and the row falls into its own frame: the engine answers 1 *)
Definition w_rkey : wexpr :=
  mkW (WAgg ACountStar) None None [] [mkKey (ECol 1) false false] (Some (mkFrame URange (BFol 2) (BFol 3))) true MNone.
Definition t_rkey : list row := [[VInt 1; VInt (2 ^ 60)]].
Theorem f64_range_key_refuted :
  wf_sorted w_rkey t_rkey = true /\ known_f64_range_key w_rkey t_rkey = true /\
  wspec w_rkey t_rkey = Some [VInt 0] /\ wmodel w_rkey t_rkey = Some [VInt 1].
Proof. vm_compute. repeat split. Qed.

(* modifiers: t(id,x) = (1,1),(2,NULL),(3,1).  The definitions give the values below; the binder used to parse and drop the
   modifier (regression witness, `wmodel_before_modifier_fix`); it now refuses the statement. *)
Definition t_mod : list row := [[VInt 1; VInt 1]; [VInt 2; VNull]; [VInt 3; VInt 1]].
Definition w_ignore : wexpr := mkW (WLag 1) (Some (ECol 1)) None [] [mkKey (ECol 0) false false] None true MIgnoreNulls.
Definition w_filter : wexpr :=
  mkW (WAgg ACount) (Some (ECol 1)) None [] [] None false (MFilter (ECmp CGt (ECol 0) (ELit (VInt 1)))).
Definition w_distinct : wexpr := mkW (WAgg ASum) (Some (ECol 1)) None [] [] None false MDistinct.
Theorem ignored_modifier_before_fix :
  (* LAG(x) IGNORE NULLS OVER (ORDER BY id): row 3 sees 1, the engine answered NULL *)
  wspec w_ignore t_mod = Some [VNull; VInt 1; VInt 1] /\ wmodel_before_modifier_fix w_ignore t_mod = Some [VNull; VInt 1; VNull] /\
  (* COUNT(x) FILTER (WHERE id > 1) OVER (): 1, the engine counted 2 *)
  wspec w_filter t_mod = Some [VInt 1; VInt 1; VInt 1] /\ wmodel_before_modifier_fix w_filter t_mod = Some [VInt 2; VInt 2; VInt 2] /\
  (* SUM(DISTINCT x) OVER (): 1, the engine summed 2 *)
  wspec w_distinct t_mod = Some [VInt 1; VInt 1; VInt 1] /\ wmodel_before_modifier_fix w_distinct t_mod = Some [VInt 2; VInt 2; VInt 2].
Proof. vm_compute. repeat split. Qed.

(* now: every call carrying one of these modifiers is refused, whatever the input *)
Theorem modifiers_refused w lin : has_modifier w = true -> wmodel w lin = None.
Proof. unfold has_modifier, wmodel. destruct (w_mod w); [discriminate| | |]; reflexivity. Qed.
(* ... and calls without a modifier are unaffected by the repair *)
Theorem no_modifier_unchanged w lin : w_mod w = MNone -> wmodel w lin = wmodel_before_modifier_fix w lin.
Proof. intros H. unfold wmodel. now rewrite H. Qed.
