(* C26 — proofs. Structure:
   1. arrow's `partition` (ranges): every index lies in exactly one range, and on a list whose equivalence
      classes are contiguous (what sorting gives) the range of i holds exactly the rows equivalent to row i;
   2. on such a range decomposition the index formulas of evaluate_sorted are the counting definitions
      (ROW_NUMBER, RANK, PERCENT_RANK, CUME_DIST), the ROWS frame and the RANGE UNBOUNDED/CURRENT ROW frames
      are the definitional row sets, NTILE is the standard bucket list;
   3. prefix sums: difference of prefixes = fold over the frame; rnd53 is the identity while the magnitudes
      stay within 2^53, and not beyond (witness);
   4. RANGE offset bounds: scan = definitional predicate when the NULL rows are not on the unbounded side
      (bounded exhaustive check), witnesses for the recorded classes;
   5. whole-function agreement wmodel = wspec on every linearisation of every small table (bounded). *)
From QV Require Import C26.Model.
From QV Require Export C26.Lemmas.
Open Scope Z_scope.

(* ---------- helpers on slices ---------- *)
Lemma slice_empty {A} (l : list A) a b : (b <= a)%nat -> slice l a b = [].
Proof. intros H. unfold slice. replace (b - a)%nat with 0%nat by lia. reflexivity. Qed.

Lemma nth_error_slice {A} (l : list A) d a b k : (a <= b)%nat -> (b <= length l)%nat ->
  nth_error (slice l a b) k = if (k <? b - a)%nat then Some (nth (a + k) l d) else None.
Proof.
  intros H1 H2. pose proof (slice_length l a b H1 H2) as HL.
  destruct (Nat.ltb_spec k (b - a)).
  - rewrite (nth_error_nth' _ d) by lia. now rewrite slice_nth.
  - apply nth_error_None. lia.
Qed.

Lemma slice_head {A} (l : list A) d a b : (a < b)%nat -> (b <= length l)%nat ->
  exists t, slice l a b = nth a l d :: t.
Proof.
  intros H1 H2. pose proof (slice_length l a b ltac:(lia) H2) as HL.
  destruct (slice l a b) as [|x t] eqn:E; [cbn in HL; lia|]. exists t. f_equal.
  pose proof (slice_nth l a b 0 d ltac:(lia)) as N. rewrite E in N. cbn in N. now rewrite Nat.add_0_r in N.
Qed.

Lemma rev_head {A} (l : list A) d : l <> [] -> exists t, rev l = nth (length l - 1) l d :: t.
Proof.
  intros H. destruct (rev l) as [|x t] eqn:E.
  - apply (f_equal (@length A)) in E. rewrite rev_length in E. destruct l; [congruence|discriminate].
  - exists t. f_equal. rewrite <- (rev_involutive l) at 2. rewrite E.
    assert (length l = S (length t)) as HL by (rewrite <- (rev_length l), E; reflexivity).
    cbn [rev]. rewrite app_nth2 by (rewrite rev_length; lia). rewrite rev_length.
    replace (length l - 1 - length t)%nat with 0%nat by lia. reflexivity.
Qed.

Lemma map_seq_nth {A B} (f : A -> B) (l : list A) d : map (fun i => f (nth i l d)) (seq 0 (length l)) = map f l.
Proof.
  apply (nth_ext _ _ ((fun i => f (nth i l d)) 0%nat) (f d)).
  - now rewrite !map_length, seq_length.
  - rewrite map_length, seq_length. intros k Hk.
    rewrite (map_nth f). rewrite (map_nth (fun i => f (nth i l d))). now rewrite seq_nth by exact Hk.
Qed.

(* ---------- 5. the window functions on a well-formed sorted input ---------- *)
Section Functions.
  Variable w : wexpr.
  Variable lin : list row.
  Hypothesis WF : wf_sorted w lin = true.
  Variable i : nat.
  Hypothesis Hi : (i < length lin)%nat.
  Let r := nth i lin [].
  Let ps := fst (range_of (m_parts w lin) i).
  Let pe := snd (range_of (m_parts w lin) i).
  Let qs := fst (range_of (m_peers w lin) i).
  Let qe := snd (range_of (m_peers w lin) i).

  Let HP := wf_part w lin WF i Hi.
  Let HQ := wf_peer w lin WF i Hi.
  Let HS := wf_sorted_in_part w lin WF i.
  Let HA := wf_anti w lin WF.

  (* ROW_NUMBER, RANK, PERCENT_RANK, CUME_DIST: the index formulas are the counting definitions *)
  Theorem rank_family_correct :
    match w_func w with WRowNumber | WRank | WPercentRank | WCumeDist => True | _ => False end ->
    m_value w lin i = s_value w lin i.
  Proof.
    intros Hf. unfold m_value, s_value.
    pose proof (position_is_offset [] lin (s_inpart w) (s_oc w) i ps pe qs qe Hi HP HQ) as Pos.
    pose proof (rank_is_count [] lin (s_inpart w) (s_oc w) i ps pe qs qe Hi HP HQ (fun j k a b c => HS j k Hi a b c) HA) as Rk.
    pose proof (cume_is_count [] lin (s_inpart w) (s_oc w) i ps pe qs qe Hi HP HQ (fun j k a b c => HS j k Hi a b c) HA) as Cu.
    pose proof (partition_size [] lin (s_inpart w) (s_oc w) i ps pe qs qe Hi HP HQ) as Np. cbv beta in Pos, Rk, Cu, Np.
    destruct (w_func w); try contradiction; cbv zeta; fold ps pe qs qe; unfold row in *.
    - rewrite Pos. reflexivity.
    - rewrite Rk. reflexivity.
    - rewrite Np, Rk. reflexivity.
    - rewrite Cu, Np. reflexivity.
  Qed.
  Let HS' := fun j k a b c => HS j k Hi a b c.

  (* the partition and the position the definition works with *)
  Lemma spec_partition : filter (s_inpart w (nth i lin [])) lin = slice lin ps pe.
  Proof. exact (partition_is_slice [] lin (s_inpart w) (s_oc w) i ps pe qs qe Hi HP HQ). Qed.
  Lemma spec_position : length (filter (s_inpart w (nth i lin [])) (firstn i lin)) = (i - ps)%nat.
  Proof. exact (position_is_offset [] lin (s_inpart w) (s_oc w) i ps pe qs qe Hi HP HQ). Qed.
  Lemma part_bounds : (ps <= i < pe)%nat /\ (pe <= length lin)%nat.
  Proof. destruct HP as (P1 & P2 & _). split; assumption. Qed.

  (* frame_range = the definitional frame, for ROWS frames and for RANGE frames bounded by UNBOUNDED / CURRENT ROW
     (the default frames included); empty and inverted frames come out as empty slices *)
  Theorem frame_correct fs fe :
    (f_units (resolve w) = URange -> is_offset (f_start (resolve w)) || is_offset (f_end (resolve w)) = false) ->
    m_frame w lin i = Some (fs, fe) ->
    s_frame w lin i = Some (slice lin fs fe) /\ (ps <= fs)%nat /\ (fs <= fe)%nat /\ (fe <= pe)%nat.
  Proof.
    intros Hoff. unfold m_frame, s_frame. cbv zeta. fold ps pe qs qe.
    rewrite spec_partition, spec_position.
    set (f := resolve w) in *.
    destruct (f_units f) eqn:EU.
    - (* ROWS *)
      destruct (f_start f) eqn:ES; destruct (f_end f) eqn:EE; intros M; try discriminate;
        injection M as <- <-;
        pose proof (rows_frame_is_slice [] lin (s_inpart w) (s_oc w) i ps pe qs qe Hi HP HQ f
                      ltac:(rewrite ES; discriminate) ltac:(rewrite EE; discriminate)) as (R & B);
        rewrite ES, EE in R, B; unfold row in *; rewrite R; (split; [reflexivity|exact B]).
    - (* RANGE without offsets *)
      specialize (Hoff eq_refl).
      destruct (f_start f) eqn:ES; destruct (f_end f) eqn:EE; cbn in Hoff; try discriminate; intros M; try discriminate;
        match type of M with
        | (if ?c then _ else _) = _ => replace c with false in M by (cbn; reflexivity)
        end;
        match goal with
        | |- context [if ?c then None else _] => replace c with false by (cbn; reflexivity)
        end.
      all: pose proof (range_frame_is_slice [] lin (s_inpart w) (s_oc w) i ps pe qs qe Hi HP HQ HS' HA) as RF.
      + destruct (RF BUnbPrec BCur (or_introl eq_refl) (or_intror eq_refl)) as (R & C). cbv zeta in R, C. cbv beta in R.
        rewrite C in M. injection M as <- <-.
        pose proof (peers_inside [] lin (s_inpart w) (s_oc w) i ps pe qs qe Hi HP HQ) as [I1 I2].
        destruct HQ as (Q1 & _). fold qs qe in Q1.
        split; [|lia]. f_equal. etransitivity; [|exact R]. apply filter_ext. intros a. reflexivity.
      + destruct (RF BUnbPrec BUnbFol (or_introl eq_refl) (or_introl eq_refl)) as (R & C). cbv zeta in R, C. cbv beta in R.
        rewrite C in M. injection M as <- <-.
        pose proof part_bounds as [B1 B2].
        split; [|lia]. f_equal. etransitivity; [|exact R]. apply filter_ext. intros a. reflexivity.
      + destruct (RF BCur BCur (or_intror eq_refl) (or_intror eq_refl)) as (R & C). cbv zeta in R, C. cbv beta in R.
        rewrite C in M. injection M as <- <-.
        pose proof (peers_inside [] lin (s_inpart w) (s_oc w) i ps pe qs qe Hi HP HQ) as [I1 I2].
        destruct HQ as (Q1 & _). fold qs qe in Q1.
        split; [|lia]. f_equal. etransitivity; [|exact R]. apply filter_ext. intros a. reflexivity.
      + destruct (RF BCur BUnbFol (or_intror eq_refl) (or_introl eq_refl)) as (R & C). cbv zeta in R, C. cbv beta in R.
        rewrite C in M. injection M as <- <-.
        pose proof (peers_inside [] lin (s_inpart w) (s_oc w) i ps pe qs qe Hi HP HQ) as [I1 I2].
        destruct HQ as (Q1 & _). fold qs qe in Q1.
        split; [|lia]. f_equal. etransitivity; [|exact R]. apply filter_ext. intros a. reflexivity.
  Qed.
  (* ----- functions that read argument values ----- *)
  Hypothesis Hargs : forall r e, In r lin -> (w_arg w = Some e \/ w_default w = Some e) ->
    eval eng_sem r e = eval sql_sem r e.
  Hypothesis Hmod : w_mod w = MNone.

  Lemma m_arg_eq j : (j < length lin)%nat -> m_arg w lin j = s_arg w (nth j lin []).
  Proof.
    intros Hj. unfold m_arg, s_arg. destruct (w_arg w) as [e|] eqn:E; [|reflexivity].
    apply Hargs; [apply nth_In; exact Hj|now left].
  Qed.
  Lemma m_args_eq : m_args w lin = map (s_arg w) lin.
  Proof.
    unfold m_args. rewrite <- (map_seq_nth (s_arg w) lin []).
    apply map_ext_in. intros j Hj. apply in_seq in Hj. apply m_arg_eq. lia.
  Qed.

  Definition frame_supported : Prop :=
    f_units (resolve w) = URange -> is_offset (f_start (resolve w)) || is_offset (f_end (resolve w)) = false.

  (* FIRST_VALUE / LAST_VALUE / NTH_VALUE: first, last, k-th row of the frame; NULL on an empty or short frame *)
  Theorem value_functions_correct : frame_supported ->
    match w_func w with WFirst | WLast | WNth _ => True | _ => False end ->
    m_value w lin i = s_value w lin i.
  Proof.
    intros Hfr Hf. unfold frame_supported in Hfr. pose proof m_arg_eq as MA. unfold m_value, s_value. cbv zeta. rewrite Hmod.
    pose proof part_bounds as [B1 B2].
    destruct (w_func w) as [| | | | | |?|?| | |k|?] eqn:EF; try contradiction;
      (destruct (w_arg w) as [e|] eqn:EA; [|reflexivity]).
    - destruct (m_frame w lin i) as [[fs fe]|] eqn:M.
      + destruct (frame_correct fs fe Hfr M) as (SF & F1 & F2 & F3). fold ps pe in F1, F3. rewrite SF. f_equal.
        destruct (Nat.leb_spec fe fs).
        * now rewrite slice_empty by lia.
        * destruct (slice_head lin [] fs fe ltac:(lia) ltac:(lia)) as [t ->]. apply MA. lia.
      + (* the engine refuses: so does the definition (same conditions) *)
        unfold m_frame, s_frame in *. cbv zeta in *.
        set (f := resolve w) in *.
        destruct (f_start f), (f_end f), (f_units f); cbn [is_offset orb andb] in *; try discriminate; try reflexivity;
          try (specialize (Hfr eq_refl); discriminate).
    - destruct (m_frame w lin i) as [[fs fe]|] eqn:M.
      + destruct (frame_correct fs fe Hfr M) as (SF & F1 & F2 & F3). fold ps pe in F1, F3. rewrite SF. f_equal.
        destruct (Nat.leb_spec fe fs).
        * now rewrite slice_empty by lia.
        * assert (slice lin fs fe <> []) as NE
            by (intros E; apply (f_equal (@length _)) in E; rewrite slice_length in E by lia; cbn in E; lia).
          destruct (rev_head (slice lin fs fe) [] NE) as [t ->].
          rewrite slice_length by lia. rewrite slice_nth by lia.
          replace (fs + (fe - fs - 1))%nat with (fe - 1)%nat by lia. apply MA. lia.
      + unfold m_frame, s_frame in *. cbv zeta in *.
        set (f := resolve w) in *.
        destruct (f_start f), (f_end f), (f_units f); cbn [is_offset orb andb] in *; try discriminate; try reflexivity;
          try (specialize (Hfr eq_refl); discriminate).
    - destruct (k <=? 0)%Z eqn:EK; [reflexivity|].
      destruct (m_frame w lin i) as [[fs fe]|] eqn:M.
      + destruct (frame_correct fs fe Hfr M) as (SF & F1 & F2 & F3). fold ps pe in F1, F3. rewrite SF. f_equal.
        destruct (Nat.leb_spec fe fs).
        * rewrite slice_empty by lia. now destruct (Z.to_nat k - 1)%nat.
        * rewrite (nth_error_slice lin [] fs fe) by lia.
          destruct (Nat.ltb_spec (fs + (Z.to_nat k - 1)) fe); destruct (Nat.ltb_spec (Z.to_nat k - 1) (fe - fs)); try lia.
          -- apply MA. lia.
          -- reflexivity.
      + unfold m_frame, s_frame in *. cbv zeta in *.
        set (f := resolve w) in *.
        destruct (f_start f), (f_end f), (f_units f); cbn [is_offset orb andb] in *; try discriminate; try reflexivity;
          try (specialize (Hfr eq_refl); discriminate).
  Qed.
  (* ----- LAG / LEAD ----- *)
  Lemma firstn_slice k a b : (a <= b)%nat -> (b <= length lin)%nat -> (k <= b - a)%nat ->
    firstn k (slice lin a b) = slice lin a (a + k).
  Proof.
    intros H1 H2 H3. unfold row in *. apply (nth_ext _ _ [] []).
    - rewrite firstn_length. rewrite (slice_length lin a b) by lia. rewrite (slice_length lin a (a + k)) by lia. lia.
    - rewrite firstn_length. rewrite (slice_length lin a b) by lia. intros j Hj.
      rewrite nth_firstn_lt by lia. rewrite !slice_nth by lia. reflexivity.
  Qed.
  Lemma skipn_slice k a b : (a <= b)%nat -> (b <= length lin)%nat -> (k <= b - a)%nat ->
    skipn k (slice lin a b) = slice lin (a + k) b.
  Proof.
    intros H1 H2 H3. unfold row in *. apply (nth_ext _ _ [] []).
    - rewrite skipn_length. rewrite (slice_length lin a b) by lia. rewrite (slice_length lin (a + k) b) by lia. lia.
    - rewrite skipn_length. rewrite (slice_length lin a b) by lia. intros j Hj.
      rewrite nth_skipn_add. rewrite !slice_nth by lia. f_equal. lia.
  Qed.

  Theorem lag_lead_correct :
    match w_func w with WLag _ | WLead _ => True | _ => False end ->
    m_value w lin i = s_value w lin i.
  Proof.
    intros Hf. pose proof m_arg_eq as MA. pose proof Hargs as HD.
    unfold m_value, s_value. cbv zeta. rewrite Hmod. fold ps pe.
    rewrite spec_partition, spec_position.
    pose proof part_bounds as [B1 B2].
    assert (forall dv, match w_default w with Some dd => eval eng_sem (nth i lin []) dd | None => dv end
                     = match w_default w with Some dd => eval sql_sem (nth i lin []) dd | None => dv end) as DF.
    { intros dv. destruct (w_default w) as [dd|] eqn:ED; [|reflexivity]. apply HD; [apply nth_In; exact Hi|now right]. }
    destruct (w_func w) as [| | | | | |off|off| | | |?] eqn:EF; try contradiction;
      (destruct (w_arg w) as [e|] eqn:EA; [|reflexivity]);
      (destruct (off <? 0)%Z eqn:EO; [reflexivity|]); f_equal;
      set (o := Z.to_nat off).
    - (* LAG *)
      rewrite firstn_slice by lia. replace (ps + (i - ps))%nat with i by lia.
      destruct (Nat.eqb_spec o 0) as [E0|N0].
      + rewrite E0. rewrite Nat.sub_0_r.
        destruct (Nat.leb_spec 0 i); [|lia]. destruct (Nat.leb_spec ps i); [|lia]. cbn [andb]. apply MA. exact Hi.
      + destruct (Nat.leb_spec o i) as [L1|L1]; [destruct (Nat.leb_spec ps (i - o)) as [L2|L2]|]; cbn [andb].
        * rewrite (nth_error_nth' (rev (slice lin ps i)) (@nil value)) by (rewrite rev_length, slice_length by lia; lia).
          rewrite rev_nth by (rewrite slice_length by lia; lia). rewrite slice_length by lia.
          rewrite slice_nth by lia. replace (ps + (i - ps - S (o - 1)))%nat with (i - o)%nat by lia. apply MA. lia.
        * replace (nth_error (rev (slice lin ps i)) (o - 1)) with (@None row)
            by (symmetry; apply nth_error_None; rewrite rev_length, slice_length by lia; lia).
          apply DF.
        * replace (nth_error (rev (slice lin ps i)) (o - 1)) with (@None row)
            by (symmetry; apply nth_error_None; rewrite rev_length, slice_length by lia; lia).
          apply DF.
    - (* LEAD *)
      rewrite skipn_slice by lia. replace (ps + S (i - ps))%nat with (S i) by lia.
      destruct (Nat.eqb_spec o 0) as [E0|N0].
      + rewrite E0. rewrite Nat.add_0_r. destruct (Nat.ltb_spec i pe); [|lia]. apply MA. exact Hi.
      + rewrite (nth_error_slice lin [] (S i) pe) by lia.
        destruct (Nat.ltb_spec (i + o) pe); destruct (Nat.ltb_spec (o - 1) (pe - S i)); try lia.
        * replace (S i + (o - 1))%nat with (i + o)%nat by lia. apply MA. lia.
        * apply DF.
  Qed.

  (* ----- frame aggregates ----- *)
  Lemma slice_args fs fe : slice (m_args w lin) fs fe = map (s_arg w) (slice lin fs fe).
  Proof. rewrite m_args_eq. apply slice_map. Qed.

  Lemma abs_total_is_abs_sum : abs_total w lin = abs_sum (map zval (map (s_arg w) lin)).
  Proof.
    unfold abs_total, abs_sum.
    assert (forall l a, fold_left (fun a r => a + Z.abs (zval (s_arg w r))) l a = a + zsum (map Z.abs (map zval (map (s_arg w) l)))) as F.
    { induction l as [|x t IH]; intros a; [cbn; lia|]. cbn [fold_left map]. rewrite IH, zsum_cons. lia. }
    rewrite F. lia.
  Qed.

  Theorem aggregates_correct f : frame_supported -> w_func w = WAgg f ->
    match f with
    | ACountStar => w_arg w = None
    | ACount | AMin | AMax => w_arg w <> None
    | ASum => w_arg w <> None /\ m_int_col w lin = true /\ known_f64_prefix w lin = false
    | _ => False
    end ->
    m_value w lin i = s_value w lin i.
  Proof.
    intros Hfr EF Hf. unfold frame_supported in Hfr. pose proof slice_args as SA. pose proof m_args_eq as MAS.
    pose proof abs_total_is_abs_sum as AT.
    unfold m_value, s_value. cbv zeta. rewrite Hmod, EF.
    pose proof part_bounds as [B1 B2].
    destruct (m_frame w lin i) as [[fs fe]|] eqn:M.
    - destruct (frame_correct fs fe Hfr M) as (SF & F1 & F2 & F3). fold ps pe in F1, F3. rewrite SF.
      assert (length (slice lin fs fe) = (fe - fs)%nat) as HL by (apply slice_length; lia).
      assert (length (m_args w lin) = length lin) as HLA by (rewrite MAS, map_length; reflexivity).
      destruct f; try contradiction.
      + (* COUNT star *) unfold m_prefix_cnt. rewrite Hf.
        f_equal. unfold s_sum. rewrite HL. cbn [agg_apply]. f_equal.
        rewrite prefix_diff_is_frame_sum by (rewrite ?map_length; lia).
        rewrite slice_map.
        assert (forall l : list value, zsum (map (fun _ => 1) l) = Z.of_nat (length l)) as C
          by (induction l as [|x t IH]; [reflexivity|cbn [map length]; rewrite zsum_cons, IH; lia]).
        rewrite C, slice_length by lia. reflexivity.
      + (* COUNT *) unfold m_prefix_cnt. destruct (w_arg w) as [e|] eqn:EA; [|congruence]. f_equal. unfold s_sum.
        rewrite HL, <- SA. apply count_prefix_is_frame_count; lia.
      + (* SUM *) destruct Hf as (H1 & H2 & H3). destruct (w_arg w) as [e|] eqn:EA; [|congruence].
        rewrite H2. unfold s_sum. rewrite HL, <- SA.
        unfold known_f64_prefix in H3. rewrite EF in H3.
        assert (abs_sum (map zval (m_args w lin)) <= 2 ^ 53) as HB.
        { rewrite MAS, <- AT. apply andb_false_iff in H3 as [H3|H3].
          - exfalso. unfold m_int_col in H2. rewrite MAS in H2. rewrite forallb_forall in H2.
            assert (forallb (fun r => is_null (s_arg w r) || is_int (s_arg w r)) lin = true) as X
              by (apply forallb_forall; intros x Hx; apply H2, in_map, Hx). congruence.
          - apply Z.ltb_ge in H3. exact H3. }
        pose proof (sum_prefix_is_frame_sum (m_args w lin) fs fe ltac:(lia) ltac:(lia) H2 HB) as SP. cbv zeta in SP.
        unfold m_prefix_nn, m_prefix_sum_z. rewrite <- SP.
        destruct (_ <=? 0); reflexivity.
      + (* MIN *) destruct (w_arg w) as [e|] eqn:EA; [|congruence]. f_equal. unfold s_sum, m_slice. rewrite <- SA. reflexivity.
      + (* MAX *) destruct (w_arg w) as [e|] eqn:EA; [|congruence]. f_equal. unfold s_sum, m_slice. rewrite <- SA. reflexivity.
    - assert (s_frame w lin i = None) as ->.
      { unfold m_frame, s_frame in *. cbv zeta in *. set (fr := resolve w) in *.
        destruct (f_start fr), (f_end fr), (f_units fr); cbn [is_offset orb andb] in *; try discriminate; try reflexivity;
          try (specialize (Hfr eq_refl); discriminate). }
      destruct f; try contradiction; reflexivity.
  Qed.
End Functions.

(* ---------- 6. corollaries and satisfiability ---------- *)
(* an empty or inverted frame (e.g. ROWS BETWEEN 1 FOLLOWING AND 1 PRECEDING, or offsets falling outside the partition)
   is the empty row set of the definition: value functions and SUM/MIN/MAX/AVG see NULL, COUNT sees 0 *)
Theorem empty_frame_correct w lin i fs fe : wf_sorted w lin = true -> (i < length lin)%nat ->
  frame_supported w -> m_frame w lin i = Some (fs, fe) -> (fe <= fs)%nat -> s_frame w lin i = Some [].
Proof.
  intros WF Hi Hfr M H. destruct (frame_correct w lin WF i Hi fs fe Hfr M) as (SF & _).
  rewrite SF. now rewrite slice_empty.
Qed.
Theorem empty_frame_values :
  agg_apply ACountStar [] 0 = VInt 0 /\ agg_apply ACount [] 0 = VInt 0 /\ agg_apply ASum [] 0 = VNull /\
  agg_apply AAvg [] 0 = VNull /\ agg_apply AMin [] 0 = VNull /\ agg_apply AMax [] 0 = VNull.
Proof. repeat split. Qed.

(* plain columns and literals evaluate alike under both semantics: the argument hypothesis of the theorems *)
Lemma args_agree_plain w lin :
  (forall e, (w_arg w = Some e \/ w_default w = Some e) -> (exists c, e = ECol c) \/ (exists v, e = ELit v)) ->
  forall r e, In r lin -> (w_arg w = Some e \/ w_default w = Some e) -> eval eng_sem r e = eval sql_sem r e.
Proof. intros H r e _ He. destruct (H e He) as [[c ->]|[v ->]]; reflexivity. Qed.

(* the hypotheses are satisfiable: t(id,p,k,x), LAST_VALUE(x) OVER (PARTITION BY p ORDER BY k DESC NULLS FIRST ROWS ..) *)
Definition w_example : wexpr :=
  mkW WLast (Some (ECol 3)) None [ECol 1] [mkKey (ECol 2) true true] (Some (mkFrame URows (BPrec 1) (BFol 1))) true MNone.
Definition lin_example : list row :=
  [[VInt 4; VNull; VInt 2; VInt 7]; [VInt 1; VInt 1; VNull; VInt 5]; [VInt 2; VInt 1; VInt 3; VNull];
   [VInt 5; VInt 1; VInt 3; VInt 2]; [VInt 3; VInt 1; VInt 0; VInt 9]].
Example hypotheses_satisfiable :
  wf_sorted w_example lin_example = true /\ frame_supported w_example /\
  wmodel w_example lin_example = Some [VInt 7; VNull; VInt 2; VInt 9; VInt 9] /\
  wspec w_example lin_example = wmodel w_example lin_example.
Proof. split; [vm_compute; reflexivity|]. split; [intros H; discriminate H|]. split; vm_compute; reflexivity. Qed.
