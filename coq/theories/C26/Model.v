(* C26 — window functions.
   MODEL: transcription of src/physical/operators/window.rs (WindowExec::evaluate_window, frame_range,
   range_offset_bound/_end, evaluate_sorted, evaluate_window_aggregate) and of the frame resolution in
   src/planner/binder.rs (bind_window_function), on the input in the engine's SORTED order `lin`
   (lexsort by partition keys ASC NULLS FIRST, then the ORDER BY keys).  The order arrow's unstable lexsort
   gives to tied rows is not determined, so `lin` is an input of the model; the check quantifies over
   the linearisations consistent with the keys (`lins`).
   SPEC: the SQL definitions by counting / filtering over the partition (rows not distinct on the
   PARTITION BY values), positions taken in the same linearisation.
   Exact rationals (Q) stand for the doubles; f64 arithmetic is modelled exactly except for the integer
   prefix sums, where the rounding to 53 bits is modelled (`rnd53`). *)
From QV Require Export Sql.Query.
From Coq Require Export Qabs.
Open Scope Z_scope.

Inductive wfunc :=
| WRowNumber | WRank | WDenseRank | WPercentRank | WCumeDist
| WNtile (k : Z)
| WLag (off : Z) | WLead (off : Z)
| WFirst | WLast | WNth (k : Z)
| WAgg (f : aggfn).

Inductive bound := BUnbPrec | BPrec (k : nat) | BCur | BFol (k : nat) | BUnbFol.
Inductive units := URows | URange.
Record frame := mkFrame { f_units : units; f_start : bound; f_end : bound }.

(* call modifiers the SQL grammar of the engine's parser accepts on a window function call *)
Inductive wmod := MNone | MIgnoreNulls | MFilter (p : expr) | MDistinct.

Record wexpr := mkW {
  w_func : wfunc;
  w_arg : option expr;          (* value argument; None = `*` / no argument *)
  w_default : option expr;      (* LAG/LEAD third argument *)
  w_part : list expr;
  w_order : list sortkey;
  w_frame : option frame;       (* None = no frame clause *)
  w_okey_num : bool;            (* static type of the single ORDER BY key is numeric or date *)
  w_mod : wmod }.

(* binder: the frame is stored resolved; this is also the standard's default *)
Definition default_frame (ordered : bool) : frame :=
  if ordered then mkFrame URange BUnbPrec BCur else mkFrame URows BUnbPrec BUnbFol.
Definition is_nil {A} (l : list A) : bool := match l with [] => true | _ => false end.
Definition resolve (w : wexpr) : frame :=
  match w_frame w with Some f => f | None => default_frame (negb (is_nil (w_order w))) end.
Definition is_offset (b : bound) : bool := match b with BPrec _ | BFol _ => true | _ => false end.

(* ---------- arrow::compute::partition: maximal runs of adjacent not-distinct rows ---------- *)
Section Ranges.
  Context {A : Type} (same : A -> A -> bool).
  Fixpoint ranges_aux (l : list A) (start i : nat) : list (nat * nat) :=
    match l with
    | [] => []
    | x :: t => match t with
                | [] => [(start, S i)]
                | y :: _ => if same x y then ranges_aux t start (S i)
                            else (start, S i) :: ranges_aux t (S i) (S i)
                end
    end.
  Definition ranges (l : list A) := ranges_aux l 0 0.
End Ranges.

Definition in_range (r : nat * nat) (i : nat) : bool := (fst r <=? i)%nat && (i <? snd r)%nat.
(* peer_of[i]: index of the range holding i *)
Fixpoint range_idx (rs : list (nat * nat)) (i : nat) : nat :=
  match rs with [] => 0%nat | r :: t => if in_range r i then 0%nat else S (range_idx t i) end.
Definition range_of (rs : list (nat * nat)) (i : nat) : nat * nat := nth (range_idx rs i) rs (0, 0)%nat.

(* ---------- pieces of evaluate_sorted that only see indices ---------- *)
(* RANK / ROW_NUMBER / CUME_DIST / PERCENT_RANK from the partition range (ps,pe) and the peer range (qs,qe) *)
Definition rownum_ix (ps i : nat) : Z := Z.of_nat (i - ps) + 1.
Definition rank_ix (ps qs : nat) : Z := Z.of_nat (qs - ps) + 1.
Definition qdiv (a b : Z) : Q := Qred (inject_Z a / inject_Z b)%Q.
Definition percent_rank_ix (ps pe qs : nat) : Q :=
  let rows := (pe - ps)%nat in
  if (rows <=? 1)%nat then 0%Q else qdiv (rank_ix ps qs - 1) (Z.of_nat rows - 1).
Definition cume_dist_ix (ps pe qe : nat) : Q := qdiv (Z.of_nat (qe - ps)) (Z.of_nat (pe - ps)).

(* DENSE_RANK loop: dense += 1 whenever peer_of changes (last_peer starts as usize::MAX) *)
Fixpoint dense_loop (last : option nat) (dense : Z) (pidx : list nat) : list Z :=
  match pidx with
  | [] => []
  | p :: t =>
      let dense' := match last with Some q => if (q =? p)%nat then dense else dense + 1 | None => dense + 1 end in
      dense' :: dense_loop (Some p) dense' t
  end.

(* NTILE: m rows, `buckets` buckets, pos = index inside the partition *)
Definition ntile_ix (m buckets pos : nat) : Z :=
  let size := (m / buckets)%nat in
  let rem := (m mod buckets)%nat in
  let big := (rem * (size + 1))%nat in
  if (size =? 0)%nat then Z.of_nat pos + 1
  else if (pos <? big)%nat then Z.of_nat (pos / (size + 1)) + 1
  else Z.of_nat (rem + (pos - big) / size) + 1.

(* ROWS frame bounds (usize arithmetic: saturating_sub, max, min) *)
Definition rows_start (b : bound) (ps pe i : nat) : nat :=
  match b with
  | BUnbPrec => ps
  | BPrec k => Nat.max (i - k) ps
  | BCur => i
  | BFol k => Nat.min (i + k) pe
  | BUnbFol => pe            (* unreachable: rejected at bind *)
  end.
Definition rows_end (b : bound) (ps pe i : nat) : nat :=
  match b with
  | BUnbPrec => ps           (* unreachable: rejected at bind *)
  | BPrec k => Nat.max (S i - k) ps
  | BCur => S i
  | BFol k => Nat.min (S i + k) pe
  | BUnbFol => pe
  end.
(* Ok(start.max(ps)..end.clamp(ps, pe).max(start.max(ps))) *)
Definition clamp_frame (ps pe s e : nat) : nat * nat :=
  let s' := Nat.max s ps in (s', Nat.max (Nat.min (Nat.max e ps) pe) s').

(* ---------- prefix arrays ---------- *)
Fixpoint scan (f : Z -> Z -> Z) (acc : Z) (xs : list Z) : list Z :=
  acc :: match xs with [] => [] | x :: t => scan f (f acc x) t end.
Fixpoint scanq (acc : Q) (xs : list Q) : list Q :=
  acc :: match xs with [] => [] | x :: t => scanq (Qred (acc + x)) t end.

(* i64 -> f64 and f64 + f64 on integer-valued doubles: round to nearest, ties to even, 53 bits *)
Definition rnd53 (z : Z) : Z :=
  let a := Z.abs z in
  if a <? 2 ^ 53 then z
  else
    let e := Z.log2 a - 52 in
    let q := a / 2 ^ e in
    let r := a mod 2 ^ e in
    let h := 2 ^ (e - 1) in
    let q' := if (h <? r) || ((r =? h) && Z.odd q) then q + 1 else q in
    Z.sgn z * (q' * 2 ^ e).
Definition fadd (a b : Z) : Z := rnd53 (a + b).

(* order key of a sorted row as f64 (range_key): `value(i) as f64` rounds an Int64 beyond 2^53; the definition
   compares the exact values (rnd = identity) *)
Definition range_key_with (rnd : Z -> Z) (v : value) : option Q :=
  match v with VInt z => Some (inject_Z (rnd z)) | VDbl q => Some q | VDate d => Some (inject_Z d) | _ => None end.
Definition range_key := range_key_with rnd53.
Definition range_key_exact := range_key_with (fun z => z).
(* f64 addition on an integer-valued double *)
Definition fround (q : Q) : Q := if (Qden q =? 1)%positive then inject_Z (rnd53 (Qnum q)) else q.

Definition opt_all {A} (l : list (option A)) : option (list A) :=
  fold_right (fun x acc => match x, acc with Some a, Some t => Some (a :: t) | _, _ => None end) (Some []) l.

Definition is_int (v : value) : bool := match v with VInt _ => true | _ => false end.
Definition zval (v : value) : Z := match v with VInt z => z | _ => 0 end.
Definition qval (v : value) : Q := match v with VDbl q => q | VInt z => inject_Z z | _ => 0%Q end.

(* ======================= the engine ======================= *)
Section Model.
  Variable w : wexpr.
  Variable lin : list row.
  Let Sm := eng_sem.
  Let n := length lin.
  Let row_at (i : nat) : row := nth i lin [].
  Let pkv (r : row) := map (eval Sm r) (w_part w).
  Let okv (r : row) := map (fun k => eval Sm r (k_expr k)) (w_order w).

  Definition m_psame (a b : row) := row_same (pkv a) (pkv b).
  Definition m_qsame (a b : row) := row_same (pkv a ++ okv a) (pkv b ++ okv b).
  Definition m_parts : list (nat * nat) :=
    match w_part w with [] => [(0, n)%nat] | _ => ranges m_psame lin end.
  Definition m_peers : list (nat * nat) :=
    match w_part w, w_order w with [], [] => [(0, n)%nat] | _, _ => ranges m_qsame lin end.

  Definition m_rkey (j : nat) : option Q := match okv (row_at j) with [v] => range_key v | _ => None end.
  Definition m_desc : bool := match w_order w with [k] => k_desc k | _ => false end.
  (* range_frame_key: exactly one ORDER BY key of a supported type, else NotImplemented *)
  Definition m_offset_ok : bool := match w_order w with [_] => w_okey_num w | _ => false end.

  Definition m_limit (cur : Q) (k : nat) (preceding : bool) : Q :=
    fround (if Bool.eqb preceding (negb m_desc) then (cur - inject_Z (Z.of_nat k))%Q else (cur + inject_Z (Z.of_nat k))%Q).

  (* range_offset_bound: first row of the partition with a non-NULL key inside the bound *)
  Definition m_off_start (part peer : nat * nat) (i k : nat) (preceding : bool) : nat :=
    match m_rkey i with
    | None => fst peer
    | Some cur =>
        let l := m_limit cur k preceding in
        match find (fun j => match m_rkey j with
                             | None => false
                             | Some v => if m_desc then Qle_bool v l else Qle_bool l v
                             end) (seq (fst part) (snd part - fst part)) with
        | Some j => j
        | None => snd part
        end
    end.
  (* range_offset_end: one past the last row with a non-NULL key inside the bound; part.start if none *)
  Definition m_off_end (part peer : nat * nat) (i k : nat) (preceding : bool) : nat :=
    match m_rkey i with
    | None => snd peer
    | Some cur =>
        let l := m_limit cur k preceding in
        fold_left (fun e j => match m_rkey j with
                              | None => e
                              | Some v => if (if m_desc then Qle_bool l v else Qle_bool v l) then S j else e
                              end) (seq (fst part) (snd part - fst part)) (fst part)
    end.

  (* frame_range; None = an error (bind-time rejection or NotImplemented) *)
  Definition m_frame (i : nat) : option (nat * nat) :=
    let f := resolve w in
    let part := range_of m_parts i in
    let peer := range_of m_peers i in
    let ps := fst part in let pe := snd part in
    match f_start f, f_end f with
    | BUnbFol, _ | _, BUnbPrec => None
    | bs, be =>
        match f_units f with
        | URows => Some (clamp_frame ps pe (rows_start bs ps pe i) (rows_end be ps pe i))
        | URange =>
            if (is_offset bs || is_offset be) && negb m_offset_ok then None
            else
              let s := match bs with
                       | BUnbPrec => ps | BCur => fst peer
                       | BPrec k => m_off_start part peer i k true
                       | BFol k => m_off_start part peer i k false
                       | BUnbFol => pe end in
              let e := match be with
                       | BUnbFol => pe | BCur => snd peer
                       | BPrec k => m_off_end part peer i k true
                       | BFol k => m_off_end part peer i k false
                       | BUnbPrec => ps end in
              Some (clamp_frame ps pe s e)
        end
    end.

  Definition m_arg (i : nat) : value := match w_arg w with Some e => eval Sm (row_at i) e | None => VNull end.
  Definition m_args : list value := map m_arg (seq 0 n).

  (* prefix arrays over the WHOLE sorted input (not reset per partition) *)
  Definition m_prefix_cnt : list Z :=
    scan Z.add 0 (map (fun v => match w_arg w with None => 1 | Some _ => if is_null v then 0 else 1 end) m_args).
  Definition m_int_col : bool := forallb (fun v => is_null v || is_int v) m_args.
  (* values cast to f64, NULL contributing 0.0; integer columns keep the 53-bit rounding *)
  Definition m_prefix_sum_z : list Z := scan fadd 0 (map (fun v => rnd53 (zval v)) m_args).
  Definition m_prefix_sum_q : list Q := scanq 0%Q (map (fun v => if is_null v then 0%Q else qval v) m_args).
  Definition m_prefix_nn : list Z := scan Z.add 0 (map (fun v => if is_null v then 0 else 1) m_args).

  Definition m_slice (s e : nat) : list value := firstn (e - s) (skipn s m_args).

  Definition m_value (i : nat) : option value :=
    let part := range_of m_parts i in
    let peer := range_of m_peers i in
    let ps := fst part in let pe := snd part in
    let qs := fst peer in let qe := snd peer in
    match w_func w with
    | WRowNumber => Some (VInt (rownum_ix ps i))
    | WRank => Some (VInt (rank_ix ps qs))
    | WDenseRank => Some (VInt (nth (i - ps) (dense_loop None 0 (map (range_idx m_peers) (seq ps (pe - ps)))) 0))
    | WPercentRank => Some (VDbl (percent_rank_ix ps pe qs))
    | WCumeDist => Some (VDbl (cume_dist_ix ps pe qe))
    | WNtile b => if b <=? 0 then None else Some (VInt (ntile_ix (pe - ps) (Z.to_nat b) (i - ps)))
    | WLag off | WLead off =>
        match w_arg w with
        | None => None
        | Some _ =>
            if off <? 0 then None
            else
              let o := Z.to_nat off in
              let src := match w_func w with
                         | WLead _ => if (i + o <? pe)%nat then Some (i + o)%nat else None
                         | _ => if (o <=? i)%nat && (ps <=? i - o)%nat then Some (i - o)%nat else None
                         end in
              Some match src with
                   | Some j => m_arg j
                   | None => match w_default w with Some d => eval Sm (row_at i) d | None => VNull end
                   end
        end
    | WFirst | WLast | WNth _ =>
        match w_arg w with
        | None => None
        | Some _ =>
            let bad := match w_func w with WNth k => k <=? 0 | _ => false end in
            if bad then None
            else match m_frame i with
                 | None => None
                 | Some (fs, fe) =>
                     Some (if (fe <=? fs)%nat then VNull
                           else match w_func w with
                                | WFirst => m_arg fs
                                | WLast => m_arg (fe - 1)
                                | WNth k => let j := (fs + (Z.to_nat k - 1))%nat in if (j <? fe)%nat then m_arg j else VNull
                                | _ => VNull
                                end)
                 end
        end
    | WAgg f =>
        match m_frame i with
        | None => None
        | Some (fs, fe) =>
            match f with
            | ACountStar | ACount => Some (VInt (nth fe m_prefix_cnt 0 - nth fs m_prefix_cnt 0))
            | ASum | AAvg =>
                match w_arg w with
                | None => None
                | Some _ =>
                    let cnt := nth fe m_prefix_nn 0 - nth fs m_prefix_nn 0 in
                    if cnt <=? 0 then Some VNull
                    else if m_int_col then
                      let s := rnd53 (nth fe m_prefix_sum_z 0 - nth fs m_prefix_sum_z 0) in
                      Some (match f with AAvg => VDbl (qdiv s cnt) | _ => VInt s end)
                    else
                      let s := (nth fe m_prefix_sum_q 0%Q - nth fs m_prefix_sum_q 0%Q)%Q in
                      Some (match f with AAvg => VDbl (Qred (s / inject_Z cnt)) | _ => VDbl (Qred s) end)
                end
            | AMin | AMax =>
                match w_arg w with
                | None => None
                | Some _ => Some (best_value (match f with AMin => Lt | _ => Gt end) (non_null (m_slice fs fe)))
                end
            | ACountDistinct => None
            end
        end
    end.

  (* the window column in sorted order (the engine then scatters it back to the input order).
     Before the `fix:` commit recorded in known_findings.txt the binder parsed IGNORE NULLS / FILTER (WHERE ..) / DISTINCT
     on a window call and dropped them: that behaviour stays expressible for the regression theorem. *)
  Definition wmodel_before_modifier_fix : option (list value) := opt_all (map m_value (seq 0 n)).
  (* bind_window_function now refuses those modifiers by name (NotImplemented) *)
  Definition wmodel : option (list value) :=
    match w_mod w with MNone => wmodel_before_modifier_fix | _ => None end.
End Model.

(* ======================= the SQL definition ======================= *)
Section Spec.
  Variable w : wexpr.
  Variable lin : list row.          (* the rows, ties linearised in some way consistent with the keys *)
  Let Sm := sql_sem.
  Let pkv (r : row) := map (eval Sm r) (w_part w).
  Let okv (r : row) := map (fun k => eval Sm r (k_expr k)) (w_order w).
  Let flags := map (fun k => (k_desc k, k_nulls_first k)) (w_order w).

  Definition s_inpart (r r' : row) : bool := row_same (pkv r) (pkv r').
  (* window ordering of r' against r *)
  Definition s_oc (r' r : row) : comparison := keys_cmp flags (okv r') (okv r).
  Definition is_lt (c : comparison) := match c with Lt => true | _ => false end.
  Definition is_gt (c : comparison) := match c with Gt => true | _ => false end.
  Definition is_eq (c : comparison) := match c with Eq => true | _ => false end.

  Definition s_arg (r : row) : value := match w_arg w with Some e => eval Sm r e | None => VNull end.
  Definition s_key (r : row) : option Q := match okv r with [v] => range_key_exact v | _ => None end.
  Definition s_desc : bool := match w_order w with [k] => k_desc k | _ => false end.
  Definition s_nulls_first : bool := match w_order w with [k] => k_nulls_first k | _ => false end.
  Definition s_offset_ok : bool := match w_order w with [_] => w_okey_num w | _ => false end.

  Fixpoint dedup_oc (l : list row) : list row :=
    match l with [] => [] | x :: t => x :: filter (fun y => negb (is_eq (s_oc x y))) (dedup_oc t) end.

  (* NTILE(k) over n rows: the first n mod k buckets hold n/k + 1 rows, the others n/k *)
  Definition ntile_list (n k : nat) : list Z :=
    flat_map (fun b => repeat (Z.of_nat b + 1) (n / k + (if (b <? n mod k)%nat then 1 else 0))%nat) (seq 0 k).

  (* is the row at position k of the partition inside the ROWS frame of the row at position pos *)
  Definition rows_in (f : frame) (pos k : Z) : bool :=
    (match f_start f with
     | BUnbPrec => true | BPrec a => pos - Z.of_nat a <=? k | BCur => pos <=? k
     | BFol a => pos + Z.of_nat a <=? k | BUnbFol => false end)
    && (match f_end f with
        | BUnbFol => true | BPrec a => k <=? pos - Z.of_nat a | BCur => k <=? pos
        | BFol a => k <=? pos + Z.of_nat a | BUnbPrec => false end).

  (* RANGE frame: is r' inside the frame of r.  Offsets (SQL:2011 7.11 GR 5): with a NULL sort key the bound
     is the peer group; otherwise a start bound removes the NULLS FIRST nulls and the keys before the bound,
     an end bound removes the NULLS LAST nulls and the keys after the bound. *)
  Definition range_start_in (b : bound) (r r' : row) : bool :=
    let off (delta : Q) :=
      match s_key r with
      | None => negb (is_lt (s_oc r' r))
      | Some cur => match s_key r' with
                    | None => negb s_nulls_first
                    | Some v => if s_desc then Qle_bool v (cur - delta) else Qle_bool (cur + delta) v
                    end
      end in
    match b with
    | BUnbPrec => true
    | BCur => negb (is_lt (s_oc r' r))
    | BPrec a => off (- inject_Z (Z.of_nat a))%Q
    | BFol a => off (inject_Z (Z.of_nat a))
    | BUnbFol => false
    end.
  Definition range_end_in (b : bound) (r r' : row) : bool :=
    let off (delta : Q) :=
      match s_key r with
      | None => negb (is_gt (s_oc r' r))
      | Some cur => match s_key r' with
                    | None => s_nulls_first
                    | Some v => if s_desc then Qle_bool (cur - delta) v else Qle_bool v (cur + delta)
                    end
      end in
    match b with
    | BUnbFol => true
    | BCur => negb (is_gt (s_oc r' r))
    | BPrec a => off (- inject_Z (Z.of_nat a))%Q
    | BFol a => off (inject_Z (Z.of_nat a))
    | BUnbPrec => false
    end.

  Definition indexed {A} (l : list A) : list (Z * A) := combine (map Z.of_nat (seq 0 (length l))) l.

  (* the frame of the row at position i of lin: rows of its partition, in window order *)
  Definition s_frame (i : nat) : option (list row) :=
    let r := nth i lin [] in
    let P := filter (s_inpart r) lin in
    let pos := Z.of_nat (length (filter (s_inpart r) (firstn i lin))) in
    let f := resolve w in
    match f_start f, f_end f with
    | BUnbFol, _ | _, BUnbPrec => None
    | bs, be =>
        match f_units f with
        | URows => Some (map snd (filter (fun kr => rows_in f pos (fst kr)) (indexed P)))
        | URange =>
            if (is_offset bs || is_offset be) && negb s_offset_ok then None
            else Some (filter (fun r' => range_start_in bs r r' && range_end_in be r r') P)
        end
    end.

  Definition s_sum (distinct : bool) (f : aggfn) (vals : list value) (nrows : nat) : value :=
    if distinct then
      match f with
      | ACount => agg_apply ACountDistinct vals nrows
      | ACountStar => agg_apply ACountStar vals nrows
      | _ => agg_apply f (distinct_values (non_null vals)) nrows
      end
    else agg_apply f vals nrows.

  Definition s_value (i : nat) : option value :=
    let r := nth i lin [] in
    let P := filter (s_inpart r) lin in
    let np := length P in
    let pos := length (filter (s_inpart r) (firstn i lin)) in
    let ignore_nulls := match w_mod w with MIgnoreNulls => true | _ => false end in
    let vis (l : list row) := if ignore_nulls then filter (fun x => negb (is_null (s_arg x))) l else l in
    let rank := Z.of_nat (length (filter (fun r' => is_lt (s_oc r' r)) P)) + 1 in
    match w_func w with
    | WRowNumber => Some (VInt (Z.of_nat pos + 1))
    | WRank => Some (VInt rank)
    | WDenseRank => Some (VInt (Z.of_nat (length (dedup_oc (filter (fun r' => is_lt (s_oc r' r)) P))) + 1))
    | WPercentRank => Some (VDbl (if (np <=? 1)%nat then 0%Q else qdiv (rank - 1) (Z.of_nat np - 1)))
    | WCumeDist => Some (VDbl (qdiv (Z.of_nat (length (filter (fun r' => negb (is_gt (s_oc r' r))) P))) (Z.of_nat np)))
    | WNtile k => if k <=? 0 then None else Some (VInt (nth pos (ntile_list np (Z.to_nat k)) 0))
    | WLag off | WLead off =>
        match w_arg w with
        | None => None
        | Some _ =>
            if off <? 0 then None
            else
              let o := Z.to_nat off in
              let dflt := match w_default w with Some d => eval Sm r d | None => VNull end in
              let before := vis (firstn pos P) in       (* rows of the partition before r, nearest last *)
              let after := vis (skipn (S pos) P) in
              Some (if (o =? 0)%nat then s_arg r
                    else match w_func w with
                         | WLead _ => match nth_error after (o - 1) with Some x => s_arg x | None => dflt end
                         | _ => match nth_error (rev before) (o - 1) with Some x => s_arg x | None => dflt end
                         end)
        end
    | WFirst | WLast | WNth _ =>
        match w_arg w with
        | None => None
        | Some _ =>
            let bad := match w_func w with WNth k => k <=? 0 | _ => false end in
            if bad then None
            else match s_frame i with
                 | None => None
                 | Some Fr =>
                     let F' := vis Fr in
                     Some match w_func w with
                          | WFirst => match F' with x :: _ => s_arg x | [] => VNull end
                          | WLast => match rev F' with x :: _ => s_arg x | [] => VNull end
                          | WNth k => match nth_error F' (Z.to_nat k - 1) with Some x => s_arg x | None => VNull end
                          | _ => VNull
                          end
                 end
        end
    | WAgg f =>
        match f with
        | ACountDistinct => None
        | _ =>
            match s_frame i, (match f with ACountStar => true | _ => match w_arg w with Some _ => true | None => false end end) with
            | Some Fr, true =>
                let F' := match w_mod w with MFilter p => filter (fun x => keeps (eval Sm x p)) Fr | _ => Fr end in
                Some (s_sum (match w_mod w with MDistinct => true | _ => false end) f (map s_arg F') (length F'))
            | _, _ => None
            end
        end
    end.

  Definition wspec : option (list value) := opt_all (map s_value (seq 0 (length lin))).
End Spec.

(* ======================= recorded deviation classes (decided by the input's shape) ======================= *)
Section Known.
  Variable w : wexpr.
  Variable tbl : list row.
  Let uses_frame : bool := match w_func w with WFirst | WLast | WNth _ | WAgg _ => true | _ => false end.

  (* a call modifier is present: IGNORE NULLS, FILTER (WHERE ..), DISTINCT.  Formerly the recorded class
     `ignored-modifier` (parsed and dropped); now such statements are refused, and the class is closed. *)
  Definition has_modifier : bool := match w_mod w with MNone => false | _ => true end.

  (* RANGE frame with an offset bound on one side and UNBOUNDED on the side where the NULL keys sort: for a row
     with a non-NULL key whose offset bound is met by no non-NULL key of the partition, the frame is the NULL rows;
     the engine's scan returns an empty frame. *)
  Definition known_range_null_edge : bool :=
    let f := resolve w in
    uses_frame && match f_units f with URange => true | _ => false end && s_offset_ok w &&
    existsb (fun r =>
      match s_key w r with
      | None => false
      | Some _ =>
          let P := filter (s_inpart w r) tbl in
          let nonnull := filter (fun r' => match s_key w r' with Some _ => true | None => false end) P in
          let has_null := existsb (fun r' => match s_key w r' with None => true | _ => false end) P in
          has_null &&
          ((match f_start f with BUnbPrec => true | _ => false end && is_offset (f_end f) && s_nulls_first w
            && negb (existsb (fun r' => range_end_in w (f_end f) r r') nonnull))
           || (match f_end f with BUnbFol => true | _ => false end && is_offset (f_start f) && negb (s_nulls_first w)
               && negb (existsb (fun r' => range_start_in w (f_start f) r r') nonnull)))
      end) tbl.

  (* RANGE offsets are computed on the order key cast to f64: an Int64 key beyond 2^53 (or whose bound is) is rounded *)
  Definition bound_k (b : bound) : Z := match b with BPrec k | BFol k => Z.of_nat k | _ => 0 end.
  Definition known_f64_range_key : bool :=
    let f := resolve w in
    uses_frame && match f_units f with URange => true | _ => false end && s_offset_ok w
    && (is_offset (f_start f) || is_offset (f_end f))
    && existsb (fun r => match map (fun k => eval sql_sem r (k_expr k)) (w_order w) with
                         | [VInt z] => 2 ^ 53 <? Z.abs z + Z.max (bound_k (f_start f)) (bound_k (f_end f))
                         | _ => false
                         end) tbl.

  (* SUM/AVG over an integer column runs on f64 prefix sums over the whole sorted input: exact only while
     the sum of magnitudes stays within 2^53 *)
  Definition abs_total : Z :=
    fold_left (fun a r => a + Z.abs (zval (s_arg w r))) tbl 0.
  Definition known_f64_prefix : bool :=
    match w_func w with
    | WAgg ASum | WAgg AAvg => forallb (fun r => is_null (s_arg w r) || is_int (s_arg w r)) tbl && (2 ^ 53 <? abs_total)
    | _ => false
    end.
End Known.

(* ======================= well-formedness of a sorted input (precondition of the theorems) ======================= *)
(* What sorting by (partition keys, order keys) gives, stated on the list itself so that it can be evaluated:
   the engine's not-distinct tests are equivalences with contiguous classes, they coincide with the SQL
   partition membership / peer relation, rows of one partition are in window order. *)
Definition all3 (n : nat) (f : nat -> nat -> nat -> bool) : bool :=
  forallb (fun i => forallb (fun j => forallb (f i j) (seq 0 n)) (seq 0 n)) (seq 0 n).

Definition cmp_eqb (a b : comparison) : bool :=
  match a, b with Eq, Eq | Lt, Lt | Gt, Gt => true | _, _ => false end.
Definition class_ok {A} (same : A -> A -> bool) (d : A) (l : list A) : bool :=
  let a i := nth i l d in
  all3 (length l) (fun i j k =>
    same (a i) (a i)
    && implb (same (a i) (a j)) (same (a j) (a i))
    && implb (same (a i) (a j) && same (a j) (a k)) (same (a i) (a k))
    && implb ((i <? j)%nat && (j <? k)%nat && same (a i) (a k)) (same (a i) (a j))).

Definition wf_sorted (w : wexpr) (lin : list row) : bool :=
  let a i := nth i lin [] in
  class_ok (m_psame w) [] lin && class_ok (m_qsame w) [] lin &&
  all3 (length lin) (fun i j _ =>
    Bool.eqb (m_psame w (a i) (a j)) (s_inpart w (a i) (a j))
    && Bool.eqb (m_qsame w (a i) (a j)) (s_inpart w (a i) (a j) && is_eq (s_oc w (a j) (a i)))
    && implb ((i <? j)%nat && s_inpart w (a i) (a j)) (negb (is_gt (s_oc w (a i) (a j))))
    && cmp_eqb (s_oc w (a j) (a i)) (CompOpp (s_oc w (a i) (a j)))).


(* ======================= what the check evaluates ======================= *)
(* all linearisations of the table consistent with (partition keys ASC NULLS FIRST, ORDER BY keys) *)
Fixpoint inserts {A} (x : A) (l : list A) : list (list A) :=
  match l with [] => [[x]] | y :: t => (x :: l) :: map (cons y) (inserts x t) end.
Fixpoint perms {A} (l : list A) : list (list A) :=
  match l with [] => [[]] | x :: t => flat_map (inserts x) (perms t) end.
Fixpoint groups_by {A} (same : A -> A -> bool) (l : list A) : list (list A) :=
  match l with
  | [] => []
  | x :: t => match groups_by same t with
              | (y :: g) :: gs => if same x y then (x :: y :: g) :: gs else [x] :: (y :: g) :: gs
              | _ => [[x]]
              end
  end.

Definition full_cmp (w : wexpr) (a b : row) : comparison :=
  let kv r := map (eval sql_sem r) (w_part w) ++ map (fun k => eval sql_sem r (k_expr k)) (w_order w) in
  keys_cmp (map (fun _ => (false, true)) (w_part w) ++ map (fun k => (k_desc k, k_nulls_first k)) (w_order w)) (kv a) (kv b).

(* tie order cannot influence these (the spec does not mention positions): one linearisation suffices *)
Definition tie_free (w : wexpr) : bool :=
  match w_func w with
  | WRank | WDenseRank | WPercentRank | WCumeDist => true
  | WAgg _ =>     (* a frame made of whole peer groups, aggregated by a commutative fold *)
      let f := resolve w in
      match f_units f, f_start f, f_end f with
      | URange, _, _ => true
      | URows, BUnbPrec, BUnbFol => true
      | _, _, _ => false
      end
  | _ => false
  end.

Definition lins (w : wexpr) (tbl : list row) : list (list row) :=
  let s := isort (fun a b => negb (is_gt (full_cmp w a b))) tbl in
  if tie_free w then [s]
  else fold_right (fun g acc => flat_map (fun pg => map (app pg) acc) (perms g)) [[]]
                  (groups_by (fun a b => is_eq (full_cmp w a b)) s).

(* doubles that went through one f64 division are compared up to one part in 2^52 *)
Definition v_close (a b : value) : bool :=
  match a, b with
  | VDbl x, VDbl y => Qle_bool (Qabs (x - y)) (Qabs y * (1 # 4503599627370496))
  | _, _ => value_eqb a b
  end.
Fixpoint col_close (a b : list value) : bool :=
  match a, b with
  | [], [] => true
  | x :: a', y :: b' => v_close x y && col_close a' b'
  | _, _ => false
  end.

(* engine output: (id, value) per row; the id is column 0 of the table *)
Definition row_id (r : row) : Z := match r with VInt z :: _ => z | _ => -1 end.
Definition lookup_id (out : list (Z * value)) (r : row) : value :=
  match find (fun p => fst p =? row_id r) out with Some p => snd p | None => VErr end.

Definition b2z (b : bool) : Z := if b then 1 else 0.
(* [impl = model under some linearisation; impl = SQL value under some linearisation; class bits; #linearisations; wf] *)
Definition wcheck (w : wexpr) (tbl : list row) (out : list (Z * value)) : list Z :=
  let cands := lins w tbl in
  let got lin := map (lookup_id out) lin in
  [ b2z (existsb (fun lin => match wmodel w lin with Some m => col_close (got lin) m | None => false end) cands);
    b2z (existsb (fun lin => match wspec w lin with Some s => col_close (got lin) s | None => false end) cands);
    b2z (known_range_null_edge w tbl);
    b2z (known_f64_prefix w tbl);
    b2z (known_f64_range_key w tbl);
    Z.of_nat (length cands);
    b2z (forallb (wf_sorted w) cands) ].
