(* C26 — generic lemmas (parts 1-4 of the development described in Proofs.v). *)
From QV Require Import C26.Model.
Open Scope nat_scope.

(* ---------- lists: a predicate true exactly on an index interval ---------- *)
Definition slice {A} (l : list A) (a b : nat) : list A := firstn (b - a) (skipn a l).

Lemma filter_none {A} (f : A -> bool) l : (forall x, In x l -> f x = false) -> filter f l = [].
Proof.
  induction l as [|x t IH]; intros H; [reflexivity|]. cbn [filter].
  rewrite (H x) by now left. apply IH. intros; apply H; now right.
Qed.

Lemma filter_interval {A} (f : A -> bool) (d : A) : forall l a b,
  a <= b -> b <= length l ->
  (forall j, j < length l -> (f (nth j l d) = true <-> a <= j < b)) ->
  filter f l = slice l a b.
Proof.
  induction l as [|x t IH]; intros a b Hab Hb H.
  - cbn in Hb. unfold slice. now rewrite skipn_nil, firstn_nil.
  - cbn [length] in *. destruct a as [|a].
    + destruct b as [|b].
      * unfold slice. cbn [Nat.sub firstn]. apply filter_none. intros y Hy.
        destruct (In_nth _ _ d Hy) as [j [Hj Ej]]. rewrite <- Ej.
        destruct (f (nth j (x :: t) d)) eqn:E; [|reflexivity]. apply H in E; [lia|exact Hj].
      * cbn [filter]. assert (f x = true) as ->. { apply (H 0); lia. }
        unfold slice. cbn [Nat.sub skipn firstn]. f_equal.
        rewrite (IH 0 b) by (try lia; intros j Hj; specialize (H (S j)); cbn [nth] in H; rewrite H by lia; lia).
        unfold slice. now rewrite Nat.sub_0_r.
    + destruct b as [|b]; [lia|]. cbn [filter].
      assert (f x = false) as ->. { destruct (f x) eqn:E; [|reflexivity]. apply (H 0) in E; lia. }
      unfold slice. cbn [Nat.sub skipn].
      rewrite (IH a b) by (try lia; intros j Hj; specialize (H (S j)); cbn [nth] in H; rewrite H by lia; lia).
      reflexivity.
Qed.

Lemma slice_length {A} (l : list A) a b : a <= b -> b <= length l -> length (slice l a b) = b - a.
Proof. intros. unfold slice. rewrite firstn_length, skipn_length. lia. Qed.

Lemma nth_firstn_lt {A} (l : list A) d : forall m k, k < m -> nth k (firstn m l) d = nth k l d.
Proof.
  induction l as [|x t IH]; intros m k H; [now rewrite firstn_nil|].
  destruct m; [lia|]. destruct k; cbn; [reflexivity|]. apply IH. lia.
Qed.
Lemma nth_skipn_add {A} (l : list A) d : forall a k, nth k (skipn a l) d = nth (a + k) l d.
Proof.
  induction l as [|x t IH]; intros a k; [rewrite skipn_nil; now destruct k, a|].
  destruct a; [reflexivity|]. cbn. apply IH.
Qed.
Lemma slice_nth {A} (l : list A) a b k d : k < b - a -> nth k (slice l a b) d = nth (a + k) l d.
Proof. intros Hk. unfold slice. rewrite nth_firstn_lt by exact Hk. apply nth_skipn_add. Qed.

(* count of the rows satisfying f = length of the interval *)
Lemma count_interval {A} (f : A -> bool) (d : A) l a b :
  a <= b -> b <= length l ->
  (forall j, j < length l -> (f (nth j l d) = true <-> a <= j < b)) ->
  length (filter f l) = b - a.
Proof. intros Hab Hb H. rewrite (filter_interval f d l a b Hab Hb H). now apply slice_length. Qed.

(* ---------- 1. arrow's partition kernel ---------- *)
Section RangesFacts.
  Context {A : Type} (same : A -> A -> bool) (d : A).

  (* length of the first run of adjacent `same` rows *)
  Fixpoint run_len (l : list A) : nat :=
    match l with
    | [] => 0
    | x :: t => match t with [] => 1 | y :: _ => if same x y then S (run_len t) else 1 end
    end.

  Lemma run_len_cons2 x y t : run_len (x :: y :: t) = if same x y then S (run_len (y :: t)) else 1.
  Proof. reflexivity. Qed.
  Lemma ranges_aux_cons2 x y t start i :
    ranges_aux same (x :: y :: t) start i =
    if same x y then ranges_aux same (y :: t) start (S i) else (start, S i) :: ranges_aux same (y :: t) (S i) (S i).
  Proof. reflexivity. Qed.

  Lemma run_len_bounds l : l <> [] -> 1 <= run_len l <= length l.
  Proof.
    induction l as [|x t IH]; intros H; [congruence|].
    destruct t as [|y t']; [cbn; lia|].
    rewrite run_len_cons2. destruct (same x y); [|cbn [length]; lia].
    assert (y :: t' <> []) as H1 by congruence. specialize (IH H1).
    change (length (x :: y :: t')) with (S (length (y :: t'))). lia.
  Qed.

  Lemma run_len_chain : forall l k, S k < run_len l -> same (nth k l d) (nth (S k) l d) = true.
  Proof.
    induction l as [|x t IH]; intros k H; [cbn in H; lia|].
    destruct t as [|y t']; [cbn in H; lia|].
    rewrite run_len_cons2 in H. destruct (same x y) eqn:E; [|lia].
    destruct k; [exact E|]. change (same (nth k (y :: t') d) (nth (S k) (y :: t') d) = true). apply IH. lia.
  Qed.

  Lemma run_len_break : forall l, l <> [] -> run_len l < length l ->
    same (nth (run_len l - 1) l d) (nth (run_len l) l d) = false.
  Proof.
    induction l as [|x t IH]; intros Hne H; [congruence|].
    destruct t as [|y t']; [cbn in H; lia|].
    rewrite run_len_cons2 in *. destruct (same x y) eqn:E; [|exact E].
    assert (y :: t' <> []) as H1 by congruence.
    pose proof (run_len_bounds (y :: t') H1) as B.
    change (length (x :: y :: t')) with (S (length (y :: t'))) in H.
    specialize (IH H1 ltac:(lia)).
    replace (S (run_len (y :: t')) - 1) with (S (run_len (y :: t') - 1)) by lia.
    exact IH.
  Qed.

  Lemma ranges_aux_run : forall l start i, l <> [] ->
    ranges_aux same l start i =
    (start, i + run_len l) :: ranges_aux same (skipn (run_len l) l) (i + run_len l) (i + run_len l).
  Proof.
    induction l as [|x t IH]; intros start i H; [congruence|].
    destruct t as [|y t'].
    - cbn. now rewrite Nat.add_1_r.
    - rewrite ranges_aux_cons2, run_len_cons2. destruct (same x y).
      + rewrite IH by congruence. change (skipn (S (run_len (y :: t'))) (x :: y :: t')) with (skipn (run_len (y :: t')) (y :: t')).
        now rewrite Nat.add_succ_r.
      + change (skipn 1 (x :: y :: t')) with (y :: t'). now rewrite Nat.add_1_r.
  Qed.

  (* where index j falls, and what holds at the borders of its range *)
  Definition range_ok (l : list A) (b j : nat) (r : nat * nat) : Prop :=
    let s := fst r in let e := snd r in
    b <= s /\ s <= j /\ j < e /\ e <= b + length l /\
    (forall k, s <= k -> S k < e -> same (nth (k - b) l d) (nth (S k - b) l d) = true) /\
    (e < b + length l -> same (nth (e - 1 - b) l d) (nth (e - b) l d) = false) /\
    (b < s -> same (nth (s - 1 - b) l d) (nth (s - b) l d) = false).

  Lemma range_of_cons r rest j :
    range_of (r :: rest) j = if in_range r j then r else range_of rest j.
  Proof. unfold range_of. cbn [range_idx]. destruct (in_range r j); reflexivity. Qed.

  Lemma range_of_from : forall n l b j, length l <= n -> b <= j < b + length l ->
    range_ok l b j (range_of (ranges_aux same l b b) j).
  Proof.
    induction n as [|n IH]; intros l b j Hn Hj; [lia|].
    assert (l <> []) as Hne by (destruct l; [cbn in Hj; lia|congruence]).
    rewrite ranges_aux_run by exact Hne. rewrite range_of_cons.
    pose proof (run_len_bounds l Hne) as B. set (r := run_len l) in *.
    unfold in_range. cbn [fst snd].
    destruct (Nat.leb_spec b j); [|lia]. cbn [andb].
    destruct (Nat.ltb_spec j (b + r)).
    - unfold range_ok. cbn [fst snd]. repeat split; try lia.
      + intros k Hk1 Hk2. replace (S k - b) with (S (k - b)) by lia. apply run_len_chain. fold r. lia.
      + intros He. replace (b + r - 1 - b) with (r - 1) by lia. replace (b + r - b) with r by lia.
        apply run_len_break; [exact Hne|fold r; lia].
    - assert (length (skipn r l) = length l - r) as HL by apply skipn_length.
      specialize (IH (skipn r l) (b + r) j ltac:(lia) ltac:(lia)).
      set (rg := range_of _ j) in *. unfold range_ok in *. cbn zeta in *.
      destruct IH as (I1 & I2 & I3 & I4 & I5 & I6 & I7).
      assert (forall k, b + r <= k -> nth (k - (b + r)) (skipn r l) d = nth (k - b) l d) as NS.
      { intros k Hk. rewrite nth_skipn_add. f_equal. lia. }
      repeat split; try lia.
      + intros k Hk1 Hk2. rewrite <- !NS by lia. apply I5; lia.
      + intros He. rewrite <- !NS by lia. apply I6. lia.
      + intros _. destruct (Nat.eq_dec (fst rg) (b + r)) as [E|E].
        * rewrite E. replace (b + r - 1 - b) with (r - 1) by lia. replace (b + r - b) with r by lia.
          apply run_len_break; [exact Hne|fold r; lia].
        * rewrite <- !NS by lia. apply I7. lia.
  Qed.

  (* on a list whose classes are contiguous, the range of i is the class of row i *)
  Variable l : list A.
  Let n := length l.
  Let at_ (i : nat) := nth i l d.
  Hypothesis Hrefl : forall i, i < n -> same (at_ i) (at_ i) = true.
  Hypothesis Hsym : forall i j, i < n -> j < n -> same (at_ i) (at_ j) = true -> same (at_ j) (at_ i) = true.
  Hypothesis Htrans : forall i j k, i < n -> j < n -> k < n ->
    same (at_ i) (at_ j) = true -> same (at_ j) (at_ k) = true -> same (at_ i) (at_ k) = true.
  Hypothesis Hcontig : forall i j k, i < j -> j < k -> k < n -> same (at_ i) (at_ k) = true -> same (at_ i) (at_ j) = true.

  Theorem ranges_class i : i < n ->
    let r := range_of (ranges same l) i in
    fst r <= i < snd r /\ snd r <= n /\
    forall j, j < n -> (fst r <= j < snd r <-> same (at_ i) (at_ j) = true).
  Proof.
    intros Hi. cbn zeta. unfold ranges.
    pose proof (range_of_from n l 0 i (le_n _) ltac:(fold n; lia)) as R.
    set (r := range_of _ i) in *. unfold range_ok in R. cbn zeta in R. fold n in R.
    destruct R as (_ & R2 & R3 & R4 & R5 & R6 & R7).
    set (s := fst r) in *. set (e := snd r) in *.
    assert (forall k, k <= e - 1 - s -> same (at_ s) (at_ (s + k)) = true) as Chain.
    { induction k as [|k IHk]; intros Hk.
      - rewrite Nat.add_0_r. apply Hrefl. lia.
      - apply (Htrans s (s + k) (s + S k)); try lia.
        + apply IHk. lia.
        + specialize (R5 (s + k) ltac:(lia) ltac:(lia)).
          rewrite Nat.sub_0_r in R5. replace (S (s + k) - 0) with (s + S k) in R5 by lia. exact R5. }
    assert (forall j, s <= j < e -> same (at_ s) (at_ j) = true) as InS.
    { intros j Hj. replace j with (s + (j - s)) by lia. apply Chain. lia. }
    repeat split; try lia.
    - intros Hj. apply (Htrans i s j); try lia.
      + apply Hsym; try lia. apply InS. lia.
      + apply InS. lia.
    - (* outside the range: a border pair would be equivalent *)
      destruct (Nat.lt_ge_cases j s) as [Hlt|Hge]; [|lia].
      exfalso. assert (0 < s) as Hs by lia. specialize (R7 Hs).
      rewrite Nat.sub_0_r in R7. rewrite Nat.sub_0_r in R7. fold (at_ (s - 1)) (at_ s) in R7.
      assert (same (at_ j) (at_ i) = true) as Hji by (apply Hsym; try lia; exact H0).
      assert (same (at_ j) (at_ s) = true) as Hjs.
      { destruct (Nat.eq_dec s i) as [E|E]; [rewrite E; exact Hji|]. apply (Hcontig j s i); try lia. exact Hji. }
      assert (same (at_ j) (at_ (s - 1)) = true) as Hjp.
      { destruct (Nat.eq_dec j (s - 1)) as [E|E]; [rewrite E; apply Hrefl; lia|]. apply (Hcontig j (s - 1) i); try lia. exact Hji. }
      assert (same (at_ (s - 1)) (at_ s) = true) as X.
      { apply (Htrans (s - 1) j s); try lia; [apply Hsym; try lia; exact Hjp | exact Hjs]. }
      congruence.
    - destruct (Nat.lt_ge_cases j e) as [Hlt|Hge]; [lia|].
      exfalso. specialize (R6 ltac:(lia)). rewrite !Nat.sub_0_r in R6. fold (at_ (e - 1)) (at_ e) in R6.
      assert (same (at_ i) (at_ e) = true) as Hie.
      { destruct (Nat.eq_dec e j) as [E|E]; [rewrite E; exact H0|]. apply (Hcontig i e j); try lia. exact H0. }
      assert (same (at_ i) (at_ (e - 1)) = true) as Hip.
      { destruct (Nat.eq_dec i (e - 1)) as [E|E]; [rewrite E; apply Hrefl; lia|]. apply (Hcontig i (e - 1) j); try lia. exact H0. }
      assert (same (at_ (e - 1)) (at_ e) = true) as X.
      { apply (Htrans (e - 1) i e); try lia; [apply Hsym; try lia; exact Hip | exact Hie]. }
      congruence.
  Qed.
End RangesFacts.

(* ---------- 2. index formulas on a sorted range decomposition ---------- *)
Section OnPartition.
  Context {A : Type} (d : A).
  Variable l : list A.
  Let n := length l.
  Let at_ (i : nat) := nth i l d.
  Variable inpart : A -> A -> bool.      (* r' is in the partition of r *)
  Variable oc : A -> A -> comparison.    (* window ordering of r' against r *)
  Variables i ps pe qs qe : nat.
  Hypothesis Hi : i < n.
  Hypothesis Hpart : ps <= i < pe /\ pe <= n /\ forall j, j < n -> (ps <= j < pe <-> inpart (at_ i) (at_ j) = true).
  Hypothesis Hpeer : qs <= i < qe /\ qe <= n /\
    forall j, j < n -> (qs <= j < qe <-> inpart (at_ i) (at_ j) = true /\ oc (at_ j) (at_ i) = Eq).
  Hypothesis Hsorted : forall j k, ps <= j -> j < k -> k < pe -> oc (at_ j) (at_ k) <> Gt.
  Hypothesis Hanti : forall j k, j < n -> k < n -> oc (at_ k) (at_ j) = CompOpp (oc (at_ j) (at_ k)).

  Lemma peers_inside : ps <= qs /\ qe <= pe.
  Proof.
    destruct Hpart as (P1 & P2 & P3). destruct Hpeer as (Q1 & Q2 & Q3). split.
    - assert (qs <= qs < qe) as H by lia. apply Q3 in H; [|lia]. destruct H as [H _]. apply P3 in H; [lia|lia].
    - assert (qs <= qe - 1 < qe) as H by lia. apply Q3 in H; [|lia]. destruct H as [H _]. apply P3 in H; lia.
  Qed.

  Lemma before_peers j : ps <= j < qs -> oc (at_ j) (at_ i) = Lt.
  Proof.
    intros Hj. destruct Hpart as (P1 & P2 & P3). destruct Hpeer as (Q1 & Q2 & Q3).
    pose proof (Hsorted j i ltac:(lia) ltac:(lia) ltac:(lia)) as S.
    destruct (oc (at_ j) (at_ i)) eqn:E; [|reflexivity|congruence].
    assert (qs <= j < qe); [|lia]. apply Q3; [lia|]. split; [apply P3; lia|exact E].
  Qed.
  Lemma in_peers j : qs <= j < qe -> oc (at_ j) (at_ i) = Eq.
  Proof. intros Hj. destruct Hpeer as (Q1 & Q2 & Q3). apply Q3; lia. Qed.
  Lemma after_peers j : qe <= j < pe -> oc (at_ j) (at_ i) = Gt.
  Proof.
    intros Hj. destruct Hpart as (P1 & P2 & P3). destruct Hpeer as (Q1 & Q2 & Q3).
    pose proof (Hsorted i j ltac:(lia) ltac:(lia) ltac:(lia)) as S.
    rewrite (Hanti i j) by lia.
    destruct (oc (at_ i) (at_ j)) eqn:E; [|reflexivity|congruence].
    exfalso. assert (qs <= j < qe); [|lia]. apply Q3; [lia|]. split; [apply P3; lia|].
    rewrite (Hanti i j) by lia. now rewrite E.
  Qed.

  (* the partition, as the SQL definition collects it, is the slice [ps,pe) *)
  Theorem partition_is_slice : filter (inpart (at_ i)) l = slice l ps pe.
  Proof.
    destruct Hpart as (P1 & P2 & P3).
    apply (filter_interval _ d); [lia|exact P2|]. intros j Hj. symmetry. apply P3. exact Hj.
  Qed.

  (* position inside the partition *)
  Theorem position_is_offset : length (filter (inpart (at_ i)) (firstn i l)) = i - ps.
  Proof.
    destruct Hpart as (P1 & P2 & P3).
    assert (length (firstn i l) = i) as HL by (rewrite firstn_length; fold n; lia).
    apply (count_interval _ d); [lia|lia|]. rewrite HL. intros j Hj.
    rewrite nth_firstn_lt by exact Hj. fold (at_ j). rewrite <- P3 by lia. lia.
  Qed.

  (* a predicate on the order position, counted over the partition *)
  Lemma count_in_partition (f : A -> bool) c : ps <= c <= pe ->
    (forall j, ps <= j < pe -> (f (at_ j) = true <-> j < c)) ->
    length (filter f (filter (inpart (at_ i)) l)) = c - ps.
  Proof.
    intros Hc Hf. destruct Hpart as (P1 & P2 & P3).
    rewrite partition_is_slice.
    assert (length (slice l ps pe) = pe - ps) as HL by (apply slice_length; lia).
    rewrite (count_interval f d (slice l ps pe) 0 (c - ps)); [lia|lia|lia|].
    rewrite HL. intros j Hj. rewrite slice_nth by exact Hj. fold (at_ (ps + j)).
    rewrite Hf by lia. lia.
  Qed.

  Theorem rank_is_count :
    (Z.of_nat (length (filter (fun r' => is_lt (oc r' (at_ i))) (filter (inpart (at_ i)) l))) + 1)%Z = rank_ix ps qs.
  Proof.
    pose proof peers_inside as [I1 I2]. destruct Hpeer as (Q1 & _).
    rewrite (count_in_partition _ qs); [reflexivity|lia|].
    intros j Hj. split.
    - intros H. destruct (Nat.lt_ge_cases j qs) as [|G]; [assumption|]. exfalso.
      destruct (Nat.lt_ge_cases j qe); [rewrite in_peers in H by lia|rewrite after_peers in H by lia]; discriminate.
    - intros H. now rewrite before_peers by lia.
  Qed.

  Theorem cume_is_count :
    length (filter (fun r' => negb (is_gt (oc r' (at_ i)))) (filter (inpart (at_ i)) l)) = qe - ps.
  Proof.
    pose proof peers_inside as [I1 I2]. destruct Hpeer as (Q1 & _).
    apply count_in_partition; [lia|].
    intros j Hj. split.
    - intros H. destruct (Nat.lt_ge_cases j qe) as [|G]; [assumption|]. exfalso.
      rewrite after_peers in H by lia. discriminate.
    - intros H. destruct (Nat.lt_ge_cases j qs); [now rewrite before_peers by lia|now rewrite in_peers by lia].
  Qed.

  Theorem partition_size : length (filter (inpart (at_ i)) l) = pe - ps.
  Proof. rewrite partition_is_slice. destruct Hpart as (P1 & P2 & P3). apply slice_length; lia. Qed.
  (* ----- frames ----- *)
  Lemma slice_slice a b c e : a <= b -> b <= n -> c <= e -> e <= b - a -> slice (slice l a b) c e = slice l (a + c) (a + e).
  Proof.
    intros H1 H2 H3 H4.
    assert (length (slice l a b) = b - a) as HL by (apply slice_length; assumption).
    apply (nth_ext _ _ d d).
    - rewrite !slice_length; fold n; lia.
    - rewrite slice_length by lia. intros k Hk. rewrite !slice_nth by lia. f_equal. lia.
  Qed.

  Lemma indexed_length (p : list A) : length (indexed p) = length p.
  Proof. unfold indexed. rewrite combine_length, map_length, seq_length. lia. Qed.
  Lemma indexed_nth (p : list A) k : k < length p -> nth k (indexed p) (0%Z, d) = (Z.of_nat k, nth k p d).
  Proof.
    intros Hk. unfold indexed. rewrite combine_nth by (now rewrite map_length, seq_length).
    f_equal. change 0%Z with (Z.of_nat 0). rewrite map_nth. now rewrite seq_nth.
  Qed.

  (* an index predicate that holds exactly on [a,b) selects that slice *)
  Lemma filter_indexed_interval (p : list A) (g : Z -> bool) a b :
    a <= b -> b <= length p ->
    (forall k, k < length p -> (g (Z.of_nat k) = true <-> a <= k < b)) ->
    map snd (filter (fun kr => g (fst kr)) (indexed p)) = slice p a b.
  Proof.
    intros H1 H2 H3.
    rewrite (filter_interval _ (0%Z, d) (indexed p) a b); [|exact H1|now rewrite indexed_length|].
    - apply (nth_ext _ _ d d).
      + rewrite map_length, !slice_length; rewrite ?indexed_length; lia.
      + rewrite map_length, slice_length by (rewrite ?indexed_length; lia). intros k Hk.
        change d with (snd (0%Z, d)) at 1. rewrite map_nth. rewrite !slice_nth by lia.
        rewrite indexed_nth by lia. reflexivity.
    - rewrite indexed_length. intros j Hj. rewrite indexed_nth by exact Hj. cbn [fst]. now apply H3.
  Qed.

  (* ROWS frames: the clamped index range of frame_range is the set of rows whose position lies between the
     two offsets (empty ranges included) *)
  Theorem rows_frame_is_slice (f : frame) :
    f_start f <> BUnbFol -> f_end f <> BUnbPrec ->
    let fr := clamp_frame ps pe (rows_start (f_start f) ps pe i) (rows_end (f_end f) ps pe i) in
    map snd (filter (fun kr => rows_in f (Z.of_nat (i - ps)) (fst kr)) (indexed (slice l ps pe))) = slice l (fst fr) (snd fr)
    /\ ps <= fst fr /\ fst fr <= snd fr /\ snd fr <= pe.
  Proof.
    intros Hs He. cbn zeta. destruct Hpart as (P1 & P2 & _).
    set (fr := clamp_frame _ _ _ _).
    assert (ps <= fst fr /\ fst fr <= snd fr /\ snd fr <= pe) as B.
    { unfold fr, clamp_frame. cbn [fst snd]. destruct (f_start f), (f_end f); cbn [rows_start rows_end]; lia. }
    split; [|exact B].
    assert (length (slice l ps pe) = pe - ps) as HL by (apply slice_length; lia).
    rewrite (filter_indexed_interval _ _ (fst fr - ps) (snd fr - ps)); [| lia | lia |].
    - rewrite slice_slice by lia. f_equal; lia.
    - rewrite HL. intros k Hk. unfold rows_in, fr, clamp_frame. cbn [fst snd].
      rewrite andb_true_iff.
      destruct (f_start f), (f_end f); try congruence; cbn [rows_start rows_end];
        rewrite ?Z.leb_le; split; intros; try split; try lia.
  Qed.

  (* RANGE frames bounded by UNBOUNDED / CURRENT ROW: whole peer groups *)
  Theorem range_frame_is_slice (bs be : bound) :
    (bs = BUnbPrec \/ bs = BCur) -> (be = BUnbFol \/ be = BCur) ->
    let s := match bs with BCur => qs | _ => ps end in
    let e := match be with BCur => qe | _ => pe end in
    filter (fun r' => match bs with BCur => negb (is_lt (oc r' (at_ i))) | _ => true end
                      && match be with BCur => negb (is_gt (oc r' (at_ i))) | _ => true end) (slice l ps pe)
    = slice l s e /\ clamp_frame ps pe s e = (s, e).
  Proof.
    intros Hs He. cbn zeta. pose proof peers_inside as [I1 I2].
    destruct Hpart as (P1 & P2 & _). destruct Hpeer as (Q1 & _).
    set (s := match bs with BCur => qs | _ => ps end). set (e := match be with BCur => qe | _ => pe end).
    assert (ps <= s /\ s <= e /\ e <= pe) as B by (unfold s, e; destruct Hs as [-> | ->], He as [-> | ->]; lia).
    split; [|unfold clamp_frame; f_equal; lia].
    assert (length (slice l ps pe) = pe - ps) as HL by (apply slice_length; lia).
    rewrite (filter_interval _ d (slice l ps pe) (s - ps) (e - ps)); [| lia | lia |].
    - rewrite slice_slice by lia. f_equal; lia.
    - rewrite HL. intros k Hk. rewrite slice_nth by exact Hk. fold (at_ (ps + k)).
      rewrite andb_true_iff. unfold s, e.
      destruct (Nat.lt_ge_cases (ps + k) qs) as [C1|C1];
        [rewrite before_peers by lia
        |destruct (Nat.lt_ge_cases (ps + k) qe) as [C2|C2]; [rewrite in_peers by lia|rewrite after_peers by lia]];
        destruct Hs as [-> | ->], He as [-> | ->]; cbn [is_lt is_gt negb]; split; intros; try split; try lia;
        try reflexivity; try (destruct H; discriminate).
  Qed.
End OnPartition.

(* ---------- 3. prefix arrays ---------- *)
Open Scope Z_scope.

Lemma firstn_split {A} (l : list A) : forall s e, (s <= e)%nat -> firstn e l = firstn s l ++ slice l s e.
Proof.
  induction l as [|x t IH]; intros s e H.
  - unfold slice. now rewrite skipn_nil, !firstn_nil.
  - destruct s as [|s].
    + unfold slice. cbn [firstn skipn app]. now rewrite Nat.sub_0_r.
    + destruct e as [|e]; [lia|]. cbn [firstn app]. f_equal. rewrite (IH s e) by lia. reflexivity.
Qed.

Lemma scan_add_nth : forall xs acc k, (k <= length xs)%nat -> nth k (scan Z.add acc xs) 0 = acc + zsum (firstn k xs).
Proof.
  induction xs as [|x t IH]; intros acc k H.
  - destruct k; [cbn; lia|cbn in H; lia].
  - destruct k as [|k]; [cbn; lia|].
    change (scan Z.add acc (x :: t)) with (acc :: scan Z.add (acc + x) t). cbn [nth firstn].
    rewrite IH by (cbn in H; lia). rewrite zsum_cons. lia.
Qed.

(* O(1) frame aggregate: difference of two prefix entries = fold over the frame *)
Theorem prefix_diff_is_frame_sum xs s e : (s <= e)%nat -> (e <= length xs)%nat ->
  nth e (scan Z.add 0 xs) 0 - nth s (scan Z.add 0 xs) 0 = zsum (slice xs s e).
Proof.
  intros H1 H2. rewrite !scan_add_nth by lia. rewrite (firstn_split xs s e H1), zsum_app. lia.
Qed.

(* the 53-bit rounding is invisible while magnitudes stay within 2^53 *)
Lemma rnd53_id z : Z.abs z <= 2 ^ 53 -> rnd53 z = z.
Proof.
  intros H. unfold rnd53. destruct (Z.ltb_spec (Z.abs z) (2 ^ 53)) as [|G]; [reflexivity|].
  assert (Z.abs z = 2 ^ 53) as E by lia.
  destruct (Z.abs_eq_or_opp z) as [A|A]; rewrite A in E.
  - subst z. reflexivity.
  - assert (z = - 2 ^ 53) as -> by lia. reflexivity.
Qed.

Definition abs_sum (xs : list Z) : Z := zsum (map Z.abs xs).

Lemma scan_fadd_exact : forall xs acc, Z.abs acc + abs_sum xs <= 2 ^ 53 ->
  scan fadd acc (map rnd53 xs) = scan Z.add acc xs.
Proof.
  induction xs as [|x t IH]; intros acc H; [reflexivity|].
  unfold abs_sum in H. cbn [map] in H. rewrite zsum_cons in H. fold (abs_sum t) in H.
  assert (0 <= abs_sum t) as Hp by (apply zsum_nonneg; intros y Hy; apply in_map_iff in Hy as [u [<- _]]; lia).
  cbn [map]. change (scan fadd acc (rnd53 x :: map rnd53 t)) with (acc :: scan fadd (fadd acc (rnd53 x)) (map rnd53 t)).
  change (scan Z.add acc (x :: t)) with (acc :: scan Z.add (acc + x) t). f_equal.
  rewrite (rnd53_id x) by lia. unfold fadd. rewrite rnd53_id by lia. apply IH. lia.
Qed.

Lemma zsum_abs_bound xs : Z.abs (zsum xs) <= abs_sum xs.
Proof. induction xs as [|x t IH]; [cbn; lia|]. unfold abs_sum in *. cbn [map]. rewrite !zsum_cons. lia. Qed.

Lemma abs_sum_slice xs s e : abs_sum (slice xs s e) <= abs_sum xs.
Proof.
  unfold slice, abs_sum. rewrite <- (firstn_skipn s xs) at 2. rewrite map_app, zsum_app.
  rewrite <- (firstn_skipn (e - s) (skipn s xs)) at 2. rewrite map_app, zsum_app.
  assert (forall l, 0 <= zsum (map Z.abs l)) as P
    by (intros l; apply zsum_nonneg; intros y Hy; apply in_map_iff in Hy as [u [<- _]]; lia).
  pose proof (P (firstn s xs)). pose proof (P (skipn (e - s) (skipn s xs))). lia.
Qed.

(* SUM over an integer column through the f64 prefix array is the exact frame sum while the magnitudes of the
   whole sorted input add up to at most 2^53 *)
Theorem f64_prefix_sum_exact xs s e : (s <= e)%nat -> (e <= length xs)%nat -> abs_sum xs <= 2 ^ 53 ->
  let P := scan fadd 0 (map rnd53 xs) in
  rnd53 (nth e P 0 - nth s P 0) = zsum (slice xs s e).
Proof.
  intros H1 H2 H3. cbn zeta. rewrite scan_fadd_exact by (cbn; lia).
  rewrite prefix_diff_is_frame_sum by assumption. apply rnd53_id.
  pose proof (zsum_abs_bound (slice xs s e)). pose proof (abs_sum_slice xs s e). lia.
Qed.

(* ... and not beyond: 2^53, 1, 1 — the frame holding the two 1s sums to 0 *)
Theorem f64_prefix_sum_refuted :
  let xs := [2 ^ 53; 1; 1] in
  let P := scan fadd 0 (map rnd53 xs) in
  rnd53 (nth 3%nat P 0 - nth 1%nat P 0) = 0 /\ zsum (slice xs 1 3) = 2 /\ abs_sum xs = 2 ^ 53 + 2.
Proof. vm_compute. repeat split. Qed.

(* COUNT: the prefix of non-NULL indicators *)
Lemma zsum_indicator (vs : list value) :
  zsum (map (fun v => if is_null v then 0 else 1) vs) = Z.of_nat (length (non_null vs)).
Proof.
  induction vs as [|v t IH]; [reflexivity|]. cbn [map]. rewrite zsum_cons, IH. unfold non_null. cbn [filter].
  destruct (is_null v); cbn [negb length]; lia.
Qed.

Lemma In_slice {A} (x : A) l s e : In x (slice l s e) -> In x l.
Proof.
  unfold slice. intros H.
  assert (In x (skipn s l)) as H1 by (rewrite <- (firstn_skipn (e - s) (skipn s l)); apply in_or_app; now left).
  rewrite <- (firstn_skipn s l). apply in_or_app. now right.
Qed.

Lemma slice_map {A B} (f : A -> B) l s e : slice (map f l) s e = map f (slice l s e).
Proof. unfold slice. now rewrite skipn_map, firstn_map. Qed.

Theorem count_prefix_is_frame_count (vs : list value) s e : (s <= e)%nat -> (e <= length vs)%nat ->
  let P := scan Z.add 0 (map (fun v => if is_null v then 0 else 1) vs) in
  VInt (nth e P 0 - nth s P 0) = agg_apply ACount (slice vs s e) (e - s).
Proof.
  intros H1 H2. cbn zeta. rewrite prefix_diff_is_frame_sum by (rewrite ?map_length; assumption).
  rewrite slice_map, zsum_indicator. reflexivity.
Qed.

Theorem countstar_prefix_is_frame_size (vs : list value) s e : (s <= e)%nat -> (e <= length vs)%nat ->
  let P := scan Z.add 0 (map (fun _ => 1) vs) in
  VInt (nth e P 0 - nth s P 0) = agg_apply ACountStar (slice vs s e) (e - s).
Proof.
  intros H1 H2. cbn zeta. rewrite prefix_diff_is_frame_sum by (rewrite ?map_length; assumption).
  rewrite slice_map. cbn [agg_apply]. f_equal.
  assert (forall l : list value, zsum (map (fun _ => 1) l) = Z.of_nat (length l)) as C
    by (induction l as [|x t IH]; [reflexivity|cbn [map length]; rewrite zsum_cons, IH; lia]).
  rewrite C, slice_length by assumption. reflexivity.
Qed.

(* SUM over an integer column: prefix sums (f64) and the non-NULL counter give agg_apply ASum on the frame *)
Lemma sum_values_ints (vs : list value) : forallb (fun v => is_null v || is_int v) vs = true ->
  sum_values (non_null vs) = match non_null vs with [] => VNull | _ => VInt (zsum (map zval vs)) end.
Proof.
  intros H. unfold sum_values.
  assert (forallb (fun v => match v with VInt _ => true | _ => false end) (non_null vs) = true) as HI.
  { apply forallb_forall. intros v Hv. unfold non_null in Hv. apply filter_In in Hv as [Hv Hn].
    rewrite forallb_forall in H. specialize (H v Hv). destruct v; cbn in *; congruence. }
  rewrite HI.
  assert (forall a, fold_left (fun a v => match v with VInt z => a + z | _ => a end) (non_null vs) a = a + zsum (map zval vs)) as F.
  { clear HI. induction vs as [|v t IH]; intros a; [cbn; lia|].
    cbn [forallb] in H. apply andb_true_iff in H as [Hv Ht]. specialize (IH Ht).
    unfold non_null in *. cbn [filter map]. rewrite zsum_cons.
    destruct v; cbn in Hv; try discriminate; cbn [is_null negb fold_left zval]; rewrite IH; lia. }
  rewrite F. destruct (non_null vs); [reflexivity|f_equal; lia].
Qed.

Theorem sum_prefix_is_frame_sum (vs : list value) s e : (s <= e)%nat -> (e <= length vs)%nat ->
  forallb (fun v => is_null v || is_int v) vs = true ->
  abs_sum (map zval vs) <= 2 ^ 53 ->
  let P := scan fadd 0 (map (fun v => rnd53 (zval v)) vs) in
  let C := scan Z.add 0 (map (fun v => if is_null v then 0 else 1) vs) in
  (if nth e C 0 - nth s C 0 <=? 0 then VNull else VInt (rnd53 (nth e P 0 - nth s P 0)))
  = agg_apply ASum (slice vs s e) (e - s).
Proof.
  intros H1 H2 HI HB. cbn zeta.
  rewrite prefix_diff_is_frame_sum by (rewrite ?map_length; assumption).
  rewrite slice_map, zsum_indicator.
  rewrite <- (map_map zval rnd53). rewrite f64_prefix_sum_exact by (rewrite ?map_length; assumption).
  cbn [agg_apply]. rewrite sum_values_ints.
  - rewrite slice_map. destruct (non_null (slice vs s e)); cbn [length]; [reflexivity|].
    destruct (Z.leb_spec (Z.of_nat (S (length l))) 0); [lia|reflexivity].
  - apply forallb_forall. intros v Hv. rewrite forallb_forall in HI. apply HI.
    apply (In_slice _ _ _ _ Hv).
Qed.

(* ---------- 4. the engine's sorted input: a decidable well-formedness condition ---------- *)
(* What sorting by (partition keys, order keys) gives, stated on the list itself so that it can be evaluated:
   the engine's not-distinct tests are equivalences with contiguous classes, they coincide with the SQL
   partition membership / peer relation, rows of one partition are in window order. *)
Lemma all3_spec n f : all3 n f = true -> forall i j k, (i < n)%nat -> (j < n)%nat -> (k < n)%nat -> f i j k = true.
Proof.
  unfold all3. intros H i j k Hi Hj Hk.
  rewrite forallb_forall in H. specialize (H i ltac:(apply in_seq; lia)).
  rewrite forallb_forall in H. specialize (H j ltac:(apply in_seq; lia)).
  rewrite forallb_forall in H. apply H. apply in_seq; lia.
Qed.

Lemma cmp_eqb_eq a b : cmp_eqb a b = true -> a = b.
Proof. destruct a, b; cbn; congruence. Qed.

Lemma class_ok_props {A} (same : A -> A -> bool) d l : class_ok same d l = true ->
  let n := length l in let a i := nth i l d in
  (forall i, (i < n)%nat -> same (a i) (a i) = true) /\
  (forall i j, (i < n)%nat -> (j < n)%nat -> same (a i) (a j) = true -> same (a j) (a i) = true) /\
  (forall i j k, (i < n)%nat -> (j < n)%nat -> (k < n)%nat -> same (a i) (a j) = true -> same (a j) (a k) = true -> same (a i) (a k) = true) /\
  (forall i j k, (i < j)%nat -> (j < k)%nat -> (k < n)%nat -> same (a i) (a k) = true -> same (a i) (a j) = true).
Proof.
  intros H. unfold class_ok in H. pose proof (all3_spec _ _ H) as K. cbv beta in K. cbn zeta.
  repeat split.
  - intros a Ha. specialize (K a a a Ha Ha Ha). repeat (apply andb_true_iff in K as [K ?]). exact K.
  - intros a b Ha Hb Hs. specialize (K a b a Ha Hb Ha). repeat (apply andb_true_iff in K as [K ?]).
    rewrite Hs in *. cbn in *. assumption.
  - intros a b c Ha Hb Hc H1 H2. specialize (K a b c Ha Hb Hc). repeat (apply andb_true_iff in K as [K ?]).
    rewrite H1, H2 in *. cbn in *. assumption.
  - intros a b c Hab Hbc Hc H1. specialize (K a b c ltac:(lia) ltac:(lia) Hc). repeat (apply andb_true_iff in K as [K ?]).
    rewrite H1 in *. destruct (Nat.ltb_spec a b); [|lia]. destruct (Nat.ltb_spec b c); [|lia]. cbn in *. assumption.
Qed.

Lemma class_ok_ranges {A} (same : A -> A -> bool) d l i : class_ok same d l = true -> (i < length l)%nat ->
  let r := range_of (ranges same l) i in
  (fst r <= i < snd r)%nat /\ (snd r <= length l)%nat /\
  forall j, (j < length l)%nat -> ((fst r <= j < snd r)%nat <-> same (nth i l d) (nth j l d) = true).
Proof.
  intros H Hi. destruct (class_ok_props same d l H) as (P1 & P2 & P3 & P4).
  apply ranges_class; assumption.
Qed.

Lemma range_of_single n i : (i < n)%nat -> range_of [(0, n)%nat] i = (0, n)%nat.
Proof.
  intros H. unfold range_of, range_idx, in_range. cbn [fst snd].
  destruct (Nat.ltb_spec i n); [|lia]. reflexivity.
Qed.

Section Sorted.
  Variable w : wexpr.
  Variable lin : list row.
  Hypothesis WF : wf_sorted w lin = true.
  Let n := length lin.
  Let at_ (i : nat) : row := nth i lin [].

  Lemma wf_pairs i j : (i < n)%nat -> (j < n)%nat ->
    m_psame w (at_ i) (at_ j) = s_inpart w (at_ i) (at_ j) /\
    m_qsame w (at_ i) (at_ j) = (s_inpart w (at_ i) (at_ j) && is_eq (s_oc w (at_ j) (at_ i))) /\
    ((i < j)%nat -> s_inpart w (at_ i) (at_ j) = true -> s_oc w (at_ i) (at_ j) <> Gt) /\
    s_oc w (at_ j) (at_ i) = CompOpp (s_oc w (at_ i) (at_ j)).
  Proof.
    intros Hi Hj. unfold wf_sorted in WF. apply andb_true_iff in WF as [_ K].
    pose proof (all3_spec _ _ K i j i Hi Hj Hi) as P. cbv beta in P.
    repeat (apply andb_true_iff in P as [P ?]). fold (at_ i) (at_ j) in *.
    repeat split.
    - now apply eqb_prop.
    - now apply eqb_prop.
    - intros Hij Hin. rewrite Hin in *. destruct (Nat.ltb_spec i j); [|lia]. cbn in *.
      destruct (s_oc w (at_ i) (at_ j)); cbn in *; congruence.
    - now apply cmp_eqb_eq.
  Qed.

  Lemma wf_part i : (i < n)%nat ->
    let r := range_of (m_parts w lin) i in
    (fst r <= i < snd r)%nat /\ (snd r <= n)%nat /\
    forall j, (j < n)%nat -> ((fst r <= j < snd r)%nat <-> s_inpart w (at_ i) (at_ j) = true).
  Proof.
    intros Hi. cbn zeta. unfold m_parts. destruct (w_part w) as [|e es] eqn:E.
    - fold n. rewrite range_of_single by exact Hi. cbn [fst snd]. repeat split; try lia.
      + intros _. unfold s_inpart. rewrite E. reflexivity.
    - assert (class_ok (m_psame w) [] lin = true) as C.
      { unfold wf_sorted in WF. apply andb_true_iff in WF as [W _]. now apply andb_true_iff in W as [W _]. }
      pose proof (class_ok_ranges _ _ _ i C Hi) as (R1 & R2 & R3). fold n in R2, R3.
      repeat split; try lia.
      + intros Hj. apply R3 in Hj; [|exact H]. fold (at_ i) (at_ j) in Hj.
        now rewrite (proj1 (wf_pairs i j Hi H)) in Hj.
      + apply R3; [exact H|]. fold (at_ i) (at_ j). rewrite (proj1 (wf_pairs i j Hi H)). exact H0.
      + apply R3; [exact H|]. fold (at_ i) (at_ j). rewrite (proj1 (wf_pairs i j Hi H)). exact H0.
  Qed.

  Lemma wf_peer i : (i < n)%nat ->
    let r := range_of (m_peers w lin) i in
    (fst r <= i < snd r)%nat /\ (snd r <= n)%nat /\
    forall j, (j < n)%nat -> ((fst r <= j < snd r)%nat <-> s_inpart w (at_ i) (at_ j) = true /\ s_oc w (at_ j) (at_ i) = Eq).
  Proof.
    intros Hi. cbn zeta.
    assert (forall j, (j < n)%nat -> (m_qsame w (at_ i) (at_ j) = true <-> s_inpart w (at_ i) (at_ j) = true /\ s_oc w (at_ j) (at_ i) = Eq)) as Q.
    { intros j Hj. destruct (wf_pairs i j Hi Hj) as (_ & -> & _). rewrite andb_true_iff.
      destruct (s_oc w (at_ j) (at_ i)); cbn; intuition congruence. }
    unfold m_peers. destruct (w_part w) as [|e es] eqn:E; [destruct (w_order w) as [|k ks] eqn:E2|].
    - fold n. rewrite range_of_single by exact Hi. cbn [fst snd]. repeat split; try lia.
      + unfold s_inpart. rewrite E. reflexivity.
      + unfold s_oc. rewrite E2. reflexivity.
    - assert (class_ok (m_qsame w) [] lin = true) as C.
      { unfold wf_sorted in WF. apply andb_true_iff in WF as [W _]. now apply andb_true_iff in W as [_ W]. }
      pose proof (class_ok_ranges _ _ _ i C Hi) as (R1 & R2 & R3). fold n in R2, R3.
      split; [exact R1|]. split; [exact R2|]. intros j Hj. rewrite (R3 j Hj). apply Q. exact Hj.
    - assert (class_ok (m_qsame w) [] lin = true) as C.
      { unfold wf_sorted in WF. apply andb_true_iff in WF as [W _]. now apply andb_true_iff in W as [_ W]. }
      pose proof (class_ok_ranges _ _ _ i C Hi) as (R1 & R2 & R3). fold n in R2, R3.
      split; [exact R1|]. split; [exact R2|]. intros j Hj. rewrite (R3 j Hj). apply Q. exact Hj.
  Qed.

  Lemma wf_sorted_in_part i j k : (i < n)%nat -> (fst (range_of (m_parts w lin) i) <= j)%nat -> (j < k)%nat ->
    (k < snd (range_of (m_parts w lin) i))%nat -> s_oc w (at_ j) (at_ k) <> Gt.
  Proof.
    intros Hi Hj Hjk Hk. destruct (wf_part i Hi) as (P1 & P2 & P3).
    assert (s_inpart w (at_ i) (at_ j) = true) as Ij by (apply P3; lia).
    assert (s_inpart w (at_ i) (at_ k) = true) as Ik by (apply P3; lia).
    (* j and k are in the partition of i, hence of each other: through the engine's equivalence *)
    assert (s_inpart w (at_ j) (at_ k) = true) as Ijk.
    { destruct (wf_part j ltac:(lia)) as (J1 & J2 & J3).
      destruct (w_part w) as [|e es] eqn:E; [unfold s_inpart; rewrite E; reflexivity|].
      assert (class_ok (m_psame w) [] lin = true) as C.
      { unfold wf_sorted in WF. apply andb_true_iff in WF as [W _]. now apply andb_true_iff in W as [W _]. }
      destruct (class_ok_props _ _ _ C) as (_ & Sy & Tr & _). fold n in Sy, Tr.
      rewrite <- (proj1 (wf_pairs j k ltac:(lia) ltac:(lia))).
      rewrite <- (proj1 (wf_pairs i j Hi ltac:(lia))) in Ij. rewrite <- (proj1 (wf_pairs i k Hi ltac:(lia))) in Ik.
      apply (Tr j i k); try lia; [|exact Ik]. apply Sy; try lia. exact Ij. }
    exact (proj1 (proj2 (proj2 (wf_pairs j k ltac:(lia) ltac:(lia)))) Hjk Ijk).
  Qed.

  Lemma wf_anti j k : (j < n)%nat -> (k < n)%nat -> s_oc w (at_ k) (at_ j) = CompOpp (s_oc w (at_ j) (at_ k)).
  Proof. intros Hj Hk. exact (proj2 (proj2 (proj2 (wf_pairs j k Hj Hk)))). Qed.
End Sorted.

