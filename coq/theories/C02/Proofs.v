(* C02: the engine's NULL-strict interpreter agrees with SQL three-valued logic on every
   expression and row outside the recorded class `dominated`; witnesses inside the class. *)
From QV Require Import Sql.Expr Sql.ExprInd.

(* ---------- sanity laws of the reference semantics ---------- *)
Lemma and3_comm a b : and3 a b = and3 b a. Proof. destruct a, b; reflexivity. Qed.
Lemma or3_comm a b : or3 a b = or3 b a. Proof. destruct a, b; reflexivity. Qed.
Lemma and3_assoc a b c : and3 a (and3 b c) = and3 (and3 a b) c. Proof. destruct a, b, c; reflexivity. Qed.
Lemma or3_assoc a b c : or3 a (or3 b c) = or3 (or3 a b) c. Proof. destruct a, b, c; reflexivity. Qed.
Lemma de_morgan_and a b : not3 (and3 a b) = or3 (not3 a) (not3 b). Proof. destruct a, b; reflexivity. Qed.
Lemma de_morgan_or a b : not3 (or3 a b) = and3 (not3 a) (not3 b). Proof. destruct a, b; reflexivity. Qed.
Lemma null_or_true : or3 U T = T. Proof. reflexivity. Qed.
Lemma not_null_and_false : not3 (and3 U F) = T. Proof. reflexivity. Qed.

(* ---------- strict kernels agree with Kleene unless a NULL meets a dominating value ---------- *)
Lemma and_agree x y : dom_pair F x y = false -> lift2 and_strict x y = lift2 and3 x y.
Proof.
  unfold dom_pair, lift2. destruct (tv_of x) as [[| |]|], (tv_of y) as [[| |]|]; cbn; intros H;
    try reflexivity; discriminate.
Qed.
Lemma or_agree x y : dom_pair T x y = false -> lift2 or_strict x y = lift2 or3 x y.
Proof.
  unfold dom_pair, lift2. destruct (tv_of x) as [[| |]|], (tv_of y) as [[| |]|]; cbn; intros H;
    try reflexivity; discriminate.
Qed.

(* ---------- IN lists ---------- *)
Definition fold_or (f : tv -> tv -> tv) (acc : value) (vs : list value) : value :=
  fold_left (fun a v => lift2 f a v) vs acc.

Lemma fold_in_map (S : sem) (r : row) va l acc :
  fold_left (fun a x => lift2 (s_or S) a (compare_op CEq va (eval S r x))) l acc
  = fold_or (s_or S) acc (map (fun x => compare_op CEq va (eval S r x)) l).
Proof. revert acc; induction l as [|x l IH]; intros acc; cbn [fold_left map fold_or]; [reflexivity|]. unfold fold_or in IH. apply IH. Qed.

Definition nonU (v : value) : Prop := match tv_of v with Some U => False | _ => True end.
Definition nonT (v : value) : Prop := match tv_of v with Some T => False | _ => True end.

Lemma fold_or_no_null vs : forall acc, nonU acc -> Forall nonU vs ->
  fold_or or_strict acc vs = fold_or or3 acc vs /\ nonU (fold_or or3 acc vs).
Proof.
  induction vs as [|v vs IH]; intros acc Ha Hv; cbn; [split; auto|].
  inversion Hv as [|? ? Hv1 Hv2]; subst.
  assert (lift2 or_strict acc v = lift2 or3 acc v /\ nonU (lift2 or3 acc v)) as [E N].
  { unfold nonU, lift2 in *. destruct (tv_of acc) as [[| |]|], (tv_of v) as [[| |]|]; cbn in *; try tauto. }
  unfold fold_or in *. cbn. rewrite E. now apply IH.
Qed.

Lemma fold_or_no_true vs : forall acc, nonT acc -> Forall nonT vs ->
  fold_or or_strict acc vs = fold_or or3 acc vs /\ nonT (fold_or or3 acc vs).
Proof.
  induction vs as [|v vs IH]; intros acc Ha Hv; cbn; [split; auto|].
  inversion Hv as [|? ? Hv1 Hv2]; subst.
  assert (lift2 or_strict acc v = lift2 or3 acc v /\ nonT (lift2 or3 acc v)) as [E N].
  { unfold nonT, lift2 in *. destruct (tv_of acc) as [[| |]|], (tv_of v) as [[| |]|]; cbn in *; try tauto. }
  unfold fold_or in *. cbn. rewrite E. now apply IH.
Qed.

Lemma compare_op_tv op a b : compare_op op a b = VErr \/ compare_op op a b = VNull \/ exists c, compare_op op a b = VBool c.
Proof.
  unfold compare_op. destruct a, b; auto; try (destruct (cmp_values _ _); eauto).
Qed.

Lemma existsb_false_Forall {A} (f : A -> bool) l : existsb f l = false -> Forall (fun x => f x = false) l.
Proof.
  induction l as [|x l IH]; cbn; intros H; constructor; apply orb_false_iff in H as [H1 H2]; auto.
Qed.

Lemma existsb_map {A B} (f : B -> bool) (g : A -> B) l : existsb f (map g l) = existsb (fun x => f (g x)) l.
Proof. induction l as [|x l IH]; cbn; [reflexivity|]. now rewrite IH. Qed.

Lemma in_agree (vs : list value) :
  (forall v, In v vs -> exists op a b, v = compare_op op a b) ->
  existsb is_null vs && existsb keeps vs = false ->
  fold_or or_strict (VBool false) vs = fold_or or3 (VBool false) vs.
Proof.
  intros Hshape H. apply andb_false_iff in H as [H|H]; apply existsb_false_Forall in H.
  - apply fold_or_no_null; [exact I|]. rewrite Forall_forall in *. intros v Hv.
    specialize (H v Hv). destruct (Hshape v Hv) as (op & a & b & ->).
    unfold nonU. destruct (compare_op_tv op a b) as [E|[E|[c E]]]; rewrite E in *; cbn in *; try discriminate; auto.
    destruct c; exact I.
  - apply fold_or_no_true; [exact I|]. rewrite Forall_forall in *. intros v Hv.
    specialize (H v Hv). destruct (Hshape v Hv) as (op & a & b & ->).
    unfold nonT. destruct (compare_op_tv op a b) as [E|[E|[c E]]]; rewrite E in *; cbn in *; auto.
    destruct c; [discriminate | exact I].
Qed.

(* ---------- the main theorem ---------- *)
Section Agree.
  Variable r : row.
  (* LIKE: the engine's matchers equal the definitional matcher (discharged in Props/C02.v from
     Sql.LikeProofs) *)
  Hypothesis like_lit_ok : forall s p, like_eng s p = like_spec p s.
  Hypothesis like_dyn_ok : forall s p, like_match s p = like_spec p s.

  Lemma like_op_agree neg (p : expr) v w :
    like_op (match p with ELit _ => s_like_lit eng_sem | _ => s_like_dyn eng_sem end) neg v w
    = like_op (match p with ELit _ => s_like_lit sql_sem | _ => s_like_dyn sql_sem end) neg v w.
  Proof.
    unfold like_op. destruct v, w; try reflexivity.
    destruct p; cbn [s_like_lit s_like_dyn eng_sem sql_sem]; now rewrite ?like_lit_ok, ?like_dyn_ok.
  Qed.

  Theorem eng_agrees_outside_dominated : forall e,
    dominated r e = false -> eval eng_sem r e = eval sql_sem r e.
  Proof.
    induction e using expr_ind2; cbn [dominated eval]; intros D;
      repeat match goal with H : _ || _ = false |- _ => apply orb_false_iff in H as [? ?] end.
    - reflexivity.
    - reflexivity.
    - now rewrite IHe1, IHe2.
    - rewrite IHe1, IHe2 by assumption. cbn [s_and eng_sem sql_sem]. now apply and_agree.
    - rewrite IHe1, IHe2 by assumption. cbn [s_or eng_sem sql_sem]. now apply or_agree.
    - now rewrite IHe.
    - now rewrite IHe.
    - now rewrite IHe.
    - (* IN *)
      rewrite IHe by assumption. rewrite !fold_in_map. cbn [s_or eng_sem sql_sem].
      assert (map (fun x => compare_op CEq (eval sql_sem r e) (eval eng_sem r x)) l
              = map (fun x => compare_op CEq (eval sql_sem r e) (eval sql_sem r x)) l) as EM.
      { apply map_ext_in. intros x Hx. f_equal. rewrite Forall_forall in H. apply H; auto.
        match goal with Hd : existsb (dominated r) l = false |- _ =>
          apply existsb_false_Forall in Hd; rewrite Forall_forall in Hd; now apply Hd end. }
      rewrite EM. f_equal. apply in_agree.
      + intros v Hv. apply in_map_iff in Hv as (x & <- & _). eauto.
      + rewrite !existsb_map. assumption.
    - (* BETWEEN *)
      rewrite IHe1, IHe2, IHe3 by assumption. cbn [s_and eng_sem sql_sem]. f_equal. now apply and_agree.
    - (* LIKE *)
      rewrite IHe1, IHe2 by assumption. apply like_op_agree.
    - now rewrite IHe1, IHe2.
    - now rewrite IHe.
    - (* CASE *)
      match goal with Hd : existsb _ whens = false |- _ => apply existsb_false_Forall in Hd; rename Hd into Hw end.
      assert (match els with Some e' => eval eng_sem r e' | None => VNull end
              = match els with Some e' => eval sql_sem r e' | None => VNull end) as EE.
      { destruct els; auto. }
      induction whens as [|[c t] ws IHw]; [exact EE|].
      inversion H as [|? ? [Hc Ht] Hrest]; subst. inversion Hw as [|? ? Hd Hw']; subst.
      cbn [fst snd] in *. apply orb_false_iff in Hd as [Hdc Hdt].
      rewrite (Hc Hdc), (Ht Hdt). destruct (eval sql_sem r c) as [| | | |[|]| |]; auto.
    - (* COALESCE *)
      apply existsb_false_Forall in D.
      induction l as [|x xs IHx]; [reflexivity|].
      inversion H as [|? ? Hx Hxs]; subst. inversion D as [|? ? Dx Dxs]; subst.
      rewrite (Hx Dx). destruct (eval sql_sem r x); auto.
  Qed.

  Corollary keep_agrees_outside_dominated e :
    dominated r e = false -> keeps (eval eng_sem r e) = keeps (eval sql_sem r e).
  Proof. intros H. now rewrite eng_agrees_outside_dominated. Qed.
End Agree.

(* ---------- inside the class the engine model really deviates (the recorded finding) ---------- *)
Definition row1 : row := [VNull; VInt 1].

(* a = 1 OR b = 1 on (NULL, 1): SQL keeps the row, the strict kernel yields NULL *)
Lemma strict_or_refuted :
  let e := EOr (ECmp CEq (ECol 0) (ELit (VInt 1))) (ECmp CEq (ECol 1) (ELit (VInt 1))) in
  dominated row1 e = true /\ keeps (eval sql_sem row1 e) = true /\ keeps (eval eng_sem row1 e) = false.
Proof. vm_compute. auto. Qed.

(* NOT (a = 5 AND b = 7) on (NULL, 1): b = 7 is FALSE, so SQL gives TRUE; strict gives NULL *)
Lemma strict_not_and_refuted :
  let e := ENot (EAnd (ECmp CEq (ECol 0) (ELit (VInt 5))) (ECmp CEq (ECol 1) (ELit (VInt 7)))) in
  dominated row1 e = true /\ keeps (eval sql_sem row1 e) = true /\ keeps (eval eng_sem row1 e) = false.
Proof. vm_compute. auto. Qed.

(* b IN (1, NULL) on b = 1: SQL TRUE, strict fold NULL *)
Lemma in_list_null_refuted :
  let e := EIn (ECol 1) [ELit (VInt 1); ELit VNull] false in
  dominated row1 e = true /\ keeps (eval sql_sem row1 e) = true /\ keeps (eval eng_sem row1 e) = false.
Proof. vm_compute. auto. Qed.

(* non-vacuity: a non-trivial predicate with NULLs outside the class, kept by both *)
Example agree_nontrivial :
  let e := EAnd (EOr (EIsNull (ECol 0)) (ECmp CLt (ECol 1) (ELit (VInt 3))))
                (EBetween (ECol 1) (ELit (VInt 0)) (ELit (VInt 5)) false) in
  dominated row1 e = false /\ keeps (eval eng_sem row1 e) = true.
Proof. vm_compute. auto. Qed.

(* ---------- why conjunctive WHERE clauses never showed the defect ----------
   For the KEEP decision (value = TRUE) a strict AND and a Kleene AND coincide. *)
Lemma and_keep_same x y : keeps (lift2 and_strict x y) = keeps (lift2 and3 x y).
Proof. unfold lift2. destruct (tv_of x) as [[| |]|], (tv_of y) as [[| |]|]; reflexivity. Qed.
