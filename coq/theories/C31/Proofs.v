(* C31 — proofs: resolution, schema equality, and well-formedness preservation of the modelled rewrites. *)
From QV Require Import C31.Model.
Open Scope Z_scope.

Lemma opt_eqb_refl a : opt_eqb a a = true.
Proof. destruct a; cbn; [apply Z.eqb_refl | reflexivity]. Qed.
Lemma field_eqb_refl f : field_eqb f f = true.
Proof. unfold field_eqb. now rewrite opt_eqb_refl, !Z.eqb_refl. Qed.
Lemma schema_eq_refl s : schema_eq s s = true.
Proof. induction s as [|f t IH]; [reflexivity|]. cbn. now rewrite field_eqb_refl. Qed.

Lemma find_idx_some {A} (p : A -> bool) l : (exists i, find_idx p l = Some i) <-> existsb p l = true.
Proof.
  induction l as [|x t IH]; cbn.
  - split; [intros [i H]; discriminate | discriminate].
  - destruct (p x); cbn; [split; eauto|]. rewrite <- IH. split; intros [i H].
    + destruct (find_idx p t); [eauto | discriminate].
    + rewrite H. eauto.
Qed.
Lemma find_idx_none {A} (p : A -> bool) l : find_idx p l = None <-> existsb p l = false.
Proof.
  destruct (find_idx p l) eqn:E.
  - split; [discriminate|]. intros H. assert (existsb p l = true) by (apply find_idx_some; eauto). congruence.
  - split; [|reflexivity]. intros _. destruct (existsb p l) eqn:E2; [|reflexivity].
    apply find_idx_some in E2 as [i Hi]. congruence.
Qed.

(* a reference resolves when the plan runs iff SOME field carries its bare name (qualifiers only choose which one) *)
Theorem resolves_iff s c : resolves s c = existsb (fun f => f_name f =? r_name c) s.
Proof.
  unfold resolves, resolve.
  destruct (existsb (fun f => f_name f =? r_name c) s) eqn:E.
  - apply find_idx_some in E as [i Hi].
    destruct (match r_rel c with Some q => _ | None => None end); [reflexivity|].
    destruct (find_idx (fun f => opt_eqb (f_rel f) None && (f_name f =? r_name c)) s); [reflexivity|]. now rewrite Hi.
  - assert (forall g, existsb (fun f => g f && (f_name f =? r_name c)) s = false) as HN.
    { intros g. clear -E. induction s as [|f t IH]; [reflexivity|]. cbn in *. apply orb_false_iff in E as [E1 E2].
      rewrite E1, andb_false_r. now apply IH. }
    apply find_idx_none in E. rewrite E.
    rewrite (proj2 (find_idx_none _ _) (HN (fun f => opt_eqb (f_rel f) None))).
    destruct (r_rel c) as [q|]; [|reflexivity].
    now rewrite (proj2 (find_idx_none _ _) (HN (fun f => opt_eqb (f_rel f) (Some q)))).
Qed.

(* ---------- the two resolution predicates ---------- *)
Lemma ref_matches_name f c : ref_matches f c = true -> f_name f = r_name c.
Proof. unfold ref_matches. intros H. apply andb_true_iff in H as [H _]. now apply Z.eqb_eq. Qed.

(* what the preservation proofs need of a resolution predicate *)
Record res_ok (res : schema -> colref -> bool) : Prop := {
  (* a field that carries the reference's name and a compatible qualifier resolves it *)
  res_match : forall s c f, In f s -> ref_matches f c = true -> res s c = true;
  (* dropping fields that do not carry the reference's name does not matter *)
  res_filter : forall s c (keep : field -> bool),
      (forall f, In f s -> f_name f = r_name c -> keep f = true) -> res s c = true -> res (filter keep s) c = true
}.

Lemma resolves_ok : res_ok resolves.
Proof.
  split.
  - intros s c f Hf Hm. rewrite resolves_iff. apply existsb_exists. exists f. split; [exact Hf|].
    apply Z.eqb_eq. now apply ref_matches_name.
  - intros s c keep Hk. rewrite !resolves_iff, !existsb_exists. intros (f & Hf & Hn).
    exists f. split; [|exact Hn]. apply filter_In. split; [exact Hf|]. apply Hk; auto. now apply Z.eqb_eq.
Qed.
Lemma resolves_q_ok : res_ok resolves_q.
Proof.
  split.
  - intros s c f Hf Hm. unfold resolves_q. apply existsb_exists. eauto.
  - intros s c keep Hk. unfold resolves_q. rewrite !existsb_exists. intros (f & Hf & Hm).
    exists f. split; [|exact Hm]. apply filter_In. split; [exact Hf|]. apply Hk; auto. now apply ref_matches_name.
Qed.

(* qualifier-respecting resolution is stronger than run-time resolution *)
Lemma resolves_q_resolves s c : resolves_q s c = true -> resolves s c = true.
Proof.
  unfold resolves_q. rewrite resolves_iff, !existsb_exists. intros (f & Hf & Hm). exists f. split; [exact Hf|].
  apply Z.eqb_eq. now apply ref_matches_name.
Qed.

Lemma ref_matches_self f : ref_matches f (mkRef (f_rel f) (f_name f)) = true.
Proof.
  unfold ref_matches. cbn. rewrite Z.eqb_refl. destruct (f_rel f); cbn; [now rewrite Z.eqb_refl | reflexivity].
Qed.
Lemma column_in_schema_match s c : column_in_schema s c = true -> exists f, In f s /\ ref_matches f c = true.
Proof.
  unfold column_in_schema, ref_matches. destruct (r_rel c) as [q|]; rewrite existsb_exists; intros (f & Hf & H); exists f; split; auto.
  - apply andb_true_iff in H as [H1 H2]. now rewrite H2, H1.
  - now rewrite H.
Qed.

Lemma others_length {A} k (l : list A) : (k < length l)%nat -> length (others k l) = (length l - 1)%nat.
Proof.
  unfold others. intros Hk.
  assert (forall s (l : list A), length (filter (fun ix : nat * A => negb (Nat.eqb (fst ix) k)) (combine (seq s (length l)) l))
                               = if (s <=? k)%nat && (k <? s + length l)%nat then (length l - 1)%nat else length l) as G.
  { clear. intros s l. revert s. induction l as [|x t IH]; intros s; cbn [length seq combine filter].
    - destruct ((s <=? k)%nat && (k <? s + 0)%nat) eqn:E; [|reflexivity].
      apply andb_true_iff in E as [E1 E2]. apply Nat.leb_le in E1. apply Nat.ltb_lt in E2. lia.
    - cbn [fst]. destruct (Nat.eqb s k) eqn:E; cbn [negb length]; rewrite IH.
      + apply Nat.eqb_eq in E. subst s.
        replace ((S k <=? k)%nat) with false by (symmetry; apply Nat.leb_gt; lia). cbn [andb].
        rewrite Nat.leb_refl. replace (k <? k + S (length t))%nat with true by (symmetry; apply Nat.ltb_lt; lia). cbn. lia.
      + apply Nat.eqb_neq in E.
        destruct ((S s <=? k)%nat && (k <? S s + length t)%nat) eqn:E2.
        * apply andb_true_iff in E2 as [E3 E4]. apply Nat.leb_le in E3. apply Nat.ltb_lt in E4.
          replace ((s <=? k)%nat) with true by (symmetry; apply Nat.leb_le; lia).
          replace (k <? s + S (length t))%nat with true by (symmetry; apply Nat.ltb_lt; lia). cbn. lia.
        * replace ((s <=? k)%nat && (k <? s + S (length t))%nat) with false; [reflexivity|].
          symmetry. apply andb_false_iff. apply andb_false_iff in E2 as [E2|E2].
          -- apply Nat.leb_gt in E2. left. apply Nat.leb_gt. lia.
          -- apply Nat.ltb_ge in E2. right. apply Nat.ltb_ge. lia. }
  rewrite G. replace ((0 <=? k)%nat && (k <? 0 + length l)%nat) with true; [reflexivity|].
  symmetry. apply andb_true_iff. split; [apply Nat.leb_le; lia | apply Nat.ltb_lt; lia].
Qed.
Lemma others_in {A} k (l : list A) i x : In (i, x) (combine (seq 0 (length l)) l) -> i <> k -> In (i, x) (others k l).
Proof. intros H Hn. unfold others. apply filter_In. split; [exact H|]. cbn. now apply negb_true_iff, Nat.eqb_neq. Qed.
Lemma others_sub {A} k (l : list A) ix : In ix (others k l) -> In (snd ix) l.
Proof. unfold others. intros H. apply filter_In in H as [H _]. destruct ix. now apply in_combine_r in H. Qed.

Lemma schema_eq_trans a b c : schema_eq a b = true -> schema_eq b c = true -> schema_eq a c = true.
Proof.
  unfold schema_eq. revert b c. induction a as [|x a IH]; intros [|y b] [|z c]; cbn; try congruence.
  intros H1 H2. apply andb_true_iff in H1 as [H1 H1']. apply andb_true_iff in H2 as [H2 H2'].
  apply andb_true_iff. split; [|eauto].
  unfold field_eqb in *. repeat match goal with Hx : _ && _ = true |- _ => apply andb_true_iff in Hx as [Hx ?] end.
  repeat match goal with Hx : (_ =? _) = true |- _ => apply Z.eqb_eq in Hx end.
  assert (opt_eqb (f_rel x) (f_rel z) = true) as ->.
  { destruct (f_rel x), (f_rel y), (f_rel z); cbn in *; try congruence.
    repeat match goal with Hx : (_ =? _) = true |- _ => apply Z.eqb_eq in Hx end. subst. apply Z.eqb_refl. }
  cbn. apply andb_true_iff. split; apply Z.eqb_eq; congruence.
Qed.

Section Preservation.
  Variable res : schema -> colref -> bool.
  Hypothesis R : res_ok res.
  Local Notation ok := (ok_refs_gen res).
  Local Notation wf := (wf_plan_gen res).

  Lemma ok_refs_app s o a b : ok s o (a ++ b) = ok s o a && ok s o b.
  Proof. unfold ok_refs_gen. apply forallb_app. Qed.
  Lemma ok_refs_split s o n l : ok s o l = true -> ok s o (firstn n l) = true /\ ok s o (skipn n l) = true.
  Proof. intros H. rewrite <- (firstn_skipn n l) in H. rewrite ok_refs_app in H. now apply andb_true_iff in H. Qed.

  (* the statement proved for every modelled rewrite: a well-formed plan stays well-formed and keeps its output schema *)
  Definition preserves_wf (Rw : plan -> plan) : Prop :=
    forall outer p, wf outer p = true ->
      wf outer (Rw p) = true /\ schema_eq (schema_of (Rw p)) (schema_of p) = true.

  Ltac same_plan := split; [assumption | apply schema_eq_refl].
  Ltac splits := repeat match goal with Hx : _ && _ = true |- _ => apply andb_true_iff in Hx as [Hx ?] end.

  (* conjunction split *)
  Theorem conj_split_preserves_wf n : preserves_wf (conj_split n).
  Proof.
    intros outer p H. destruct p; try same_plan.
    cbn [conj_split wf_plan_gen schema_of] in *. apply andb_true_iff in H as [Hc Hp].
    destruct (ok_refs_split _ _ n _ Hp) as [H1 H2]. rewrite Hc, H1, H2.
    split; [reflexivity | apply schema_eq_refl].
  Qed.

  (* filter pushdown through Inner / Cross / Left joins to the left input *)
  Theorem push_filter_left_preserves_wf : preserves_wf push_filter_left.
  Proof.
    intros outer p H. destruct p as [| c pred | | | | | | | | | | |]; try same_plan.
    destruct c as [| | | jt l r onl onr jf sch | | | | | | | | |]; try same_plan.
    cbn [push_filter_left].
    destruct jt; try same_plan;
    (destruct (forallb (column_in_schema (schema_of l)) pred && negb (existsb (column_in_schema (schema_of r)) pred)) eqn:G;
     [|same_plan]);
    (apply andb_true_iff in G as [G _];
     cbn [wf_plan_gen schema_of] in *; splits;
     split; [|apply schema_eq_refl];
     repeat (apply andb_true_iff; split); try assumption;
     unfold ok_refs_gen; apply forallb_forall; intros c Hc; rewrite forallb_forall in G;
     destruct (column_in_schema_match _ _ (G c Hc)) as (f & Hf & Hm);
     rewrite (res_match res R _ _ f Hf Hm); reflexivity).
  Qed.

  (* projection pruning into the scan *)
  Lemma ok_refs_filter_used ssch outer used l :
    (forall c, In c l -> In c used) -> ok ssch outer l = true ->
    ok (filter (fun f => existsb (fun c' => f_name f =? r_name c') used) ssch) outer l = true.
  Proof.
    intros Hs H. unfold ok_refs_gen in *. rewrite forallb_forall in *. intros c Hc. specialize (H c Hc).
    apply orb_true_iff in H as [H|H]; [|now rewrite H, orb_true_r].
    rewrite (res_filter res R ssch c _); [reflexivity | | exact H].
    intros f Hf Hn. apply existsb_exists. exists c. split; [now apply Hs | now apply Z.eqb_eq].
  Qed.
  Theorem prune_scan_preserves_wf : preserves_wf prune_scan.
  Proof.
    intros outer p H. destruct p as [| | c exprs sch | | | | | | | | | |]; try same_plan.
    destruct c as [ssch filt | | | | | | | | | | | |]; try same_plan.
    cbn [prune_scan wf_plan_gen schema_of] in *. splits.
    split; [|apply schema_eq_refl]. repeat (apply andb_true_iff; split); try assumption.
    - apply ok_refs_filter_used; [|assumption]. intros c Hc. apply in_or_app. now right.
    - apply forallb_forall. intros e He. apply ok_refs_filter_used.
      + intros c Hc. apply in_or_app. left. apply in_concat. eauto.
      + match goal with Hx : forallb _ exprs = true |- _ => rewrite forallb_forall in Hx; now apply Hx end.
  Qed.

  (* packed join keys *)
  Theorem pack_join_keys_preserves_wf : preserves_wf pack_join_keys.
  Proof.
    intros outer p H. destruct p as [| | | jt l r onl onr jf sch | | | | | | | | |]; try same_plan.
    destruct jt; try same_plan.
    destruct onl as [|l1 [|l2 [|]]]; try same_plan. destruct onr as [|r1 [|r2 [|]]]; try same_plan.
    cbn [pack_join_keys wf_plan_gen schema_of forallb length] in *. splits.
    split; [|apply schema_eq_refl]. rewrite !ok_refs_app.
    repeat (apply andb_true_iff; split); try assumption; reflexivity.
  Qed.

  (* packed group keys *)
  Theorem pack_group_keys_preserves_wf pk ty64 : preserves_wf (pack_group_keys pk ty64).
  Proof.
    intros outer p H. destruct p as [| | | | c g aggs sch | | | | | | | |]; try same_plan.
    destruct g as [|ga [|gb [|]]]; try same_plan. destruct sch as [|fa [|fb rest]]; try same_plan.
    cbn [pack_group_keys wf_plan_gen schema_of forallb length] in *. splits.
    split; [|apply schema_eq_refl]. rewrite ok_refs_app.
    assert (res (mkField None pk ty64 :: rest) (mkRef None pk) = true) as Hpk.
    { apply (res_match res R _ _ (mkField None pk ty64)); [now left|]. unfold ref_matches. cbn. now rewrite Z.eqb_refl. }
    repeat (apply andb_true_iff; split); try assumption; try reflexivity.
    - unfold ok_refs_gen. cbn [forallb]. now rewrite Hpk.
    - unfold ok_refs_gen. cbn [forallb]. now rewrite Hpk.
    - apply forallb_forall. intros e He. apply in_map_iff in He as (f & <- & Hf). unfold ok_refs_gen. cbn [forallb].
      rewrite (res_match res R _ _ f); [reflexivity | now right | apply ref_matches_self].
    - rewrite map_length. apply Nat.eqb_refl.
  Qed.

  (* group-key reduction *)
  Theorem group_key_reduce_preserves_wf fd k : preserves_wf (group_key_reduce fd k).
  Proof.
    intros outer p H. destruct p as [| | | | c group aggs sch | | | | | | | |]; try same_plan.
    cbn [group_key_reduce].
    destruct (nth_error group k) as [gk|] eqn:EG; [|same_plan]. destruct (nth_error sch k) as [fk|] eqn:EF; [|same_plan].
    destruct ((2 <=? length group)%nat && (length group <=? length sch)%nat
              && match gk with [ck] => ref_matches fk ck | _ => false end) eqn:G; [|same_plan].
    apply andb_true_iff in G as [G Gk]. apply andb_true_iff in G as [G2 Gn].
    apply Nat.leb_le in G2. apply Nat.leb_le in Gn.
    destruct gk as [|ck [|]]; try discriminate.
    cbn [wf_plan_gen schema_of] in *. splits.
    match goal with Hx : Nat.eqb _ (length sch) = true |- _ => apply Nat.eqb_eq in Hx; rename Hx into Har end.
    rename H into Hc.
    match goal with Hx : forallb _ group = true |- _ => rename Hx into Hg end.
    match goal with Hx : forallb _ aggs = true |- _ => rename Hx into Ha end.
    assert (k < length group)%nat as Hk by (apply nth_error_Some; congruence).
    assert (In [ck] group) as Hgk by (eapply nth_error_In; eauto).
    set (n := length group) in *.
    assert (length (firstn n sch) = n) as Lf by (apply firstn_length_le; lia).
    assert (length (skipn n sch) = length aggs) as Ls by (rewrite skipn_length; lia).
    split; [|apply schema_eq_refl].
    repeat (apply andb_true_iff; split).
    - exact Hc.
    - rewrite forallb_forall in Hg. specialize (Hg _ Hgk). unfold ok_refs_gen in *. cbn [forallb] in *.
      now rewrite andb_true_r in Hg.
    - reflexivity.
    - reflexivity.
    - rewrite forallb_app. apply andb_true_iff. split; [exact Ha|].
      apply forallb_forall. intros e He. apply in_map_iff in He as (ix & <- & Hix).
      rewrite forallb_forall in Hg. apply Hg. now apply others_sub in Hix.
    - apply Nat.eqb_eq. cbn [length]. rewrite !app_length, !map_length, Ls.
      rewrite !others_length by (rewrite ?Lf; assumption). rewrite Lf. reflexivity.
    - (* the restoring projection resolves against the reduced aggregate's schema *)
      rewrite forallb_app. apply andb_true_iff. split; apply forallb_forall; intros e He.
      + apply in_map_iff in He as ([i f] & <- & Hif). cbn [fst snd].
        destruct (Nat.eqb i k) eqn:E.
        * unfold ok_refs_gen. cbn [forallb]. rewrite (res_match res R _ ck fk); [reflexivity | now left | exact Gk].
        * apply Nat.eqb_neq in E. unfold ok_refs_gen. cbn [forallb].
          rewrite (res_match res R _ (mkRef None (fd i)) (mkField None (fd i) (f_type f))); [reflexivity | |].
          -- right. apply in_or_app. right. apply in_map_iff. exists (i, f). split; [reflexivity|].
             apply others_in; [|exact E]. now rewrite Lf.
          -- unfold ref_matches. cbn. now rewrite Z.eqb_refl.
      + apply in_map_iff in He as (f & <- & Hf). unfold ok_refs_gen. cbn [forallb].
        rewrite (res_match res R _ _ f); [reflexivity | | apply ref_matches_self]. right. apply in_or_app. now left.
    - apply Nat.eqb_eq. rewrite app_length, !map_length, combine_length, seq_length, Lf, Ls. lia.
  Qed.

  (* whatever sequence of the modelled rewrites is applied (the fixpoint driver of C03 applies them in some order, some
   number of times), the plan stays well-formed and keeps its output column names and types *)
Theorem rule_sequence_preserves_wf (rules : list (plan -> plan)) :
  (forall Rw, In Rw rules -> preserves_wf Rw) -> preserves_wf (fun p => fold_left (fun acc Rw => Rw acc) rules p).
Proof.
  induction rules as [|Rw t IH]; intros HR outer p H; cbn [fold_left].
  - split; [exact H | apply schema_eq_refl].
  - destruct (HR Rw (or_introl eq_refl) outer p H) as [H1 H2].
    destruct (IH (fun R' HR' => HR R' (or_intror HR')) outer (Rw p) H1) as [H3 H4].
    split; [exact H3 | eapply schema_eq_trans; eauto].
Qed.

End Preservation.

Example rewrites_example :
  let t := [mkField (Some 1) 10 100; mkField (Some 1) 11 100; mkField (Some 1) 12 100] in
  let agg := PAgg (PScan t []) [[mkRef (Some 1) 10]; [mkRef (Some 1) 11]] [[mkRef None 12]]
                  [mkField None 10 100; mkField None 11 100; mkField None 20 100] in
  wf_plan [] agg = true /\
  wf_plan [] (group_key_reduce (fun i => 900 + Z.of_nat i) 0 agg) = true /\
  group_key_reduce (fun i => 900 + Z.of_nat i) 0 agg <> agg /\
  wf_plan [] (pack_group_keys 800 100 agg) = true /\ pack_group_keys 800 100 agg <> agg.
Proof. cbv zeta. repeat split; try (vm_compute; reflexivity); vm_compute; discriminate. Qed.

(* the plan a wrong-side semi-join pushdown produces: Semi(ua, uc) keyed on ub.id over the left schema [ua.id, ua.ref_id, ua.x].
   It runs (rule 3 of find_column_index picks ua.id) but the reference denotes another relation's column:
   well-formed for run-time resolution, NOT for qualifier-respecting resolution. (ids: ua=1 ub=2 uc=3; id=10 ref_id=11 x=12 cid=13) *)
Definition wrong_side_semi : plan :=
  PJoin JK_Semi (PScan [mkField (Some 1) 10 100; mkField (Some 1) 11 100; mkField (Some 1) 12 100] [])
                (PScan [mkField (Some 3) 13 100; mkField (Some 3) 10 100] [])
        [[mkRef (Some 2) 10]] [[mkRef (Some 3) 13]] []
        [mkField (Some 1) 10 100; mkField (Some 1) 11 100; mkField (Some 1) 12 100].
Theorem wrong_side_semi_refuted :
  wf_plan [] wrong_side_semi = true /\ wf_plan_q [] wrong_side_semi = false /\
  resolve (schema_of (PScan [mkField (Some 1) 10 100; mkField (Some 1) 11 100; mkField (Some 1) 12 100] [])) (mkRef (Some 2) 10) = Some 0%nat /\
  resolves_strict [mkField (Some 1) 10 100; mkField (Some 1) 11 100; mkField (Some 1) 12 100] (mkRef (Some 2) 10) = false.
Proof. repeat split; vm_compute; reflexivity. Qed.
