(* C31 — every optimizer rule returns a well-formed plan: the model.
   A plan type mirroring LogicalPlan's node kinds at the level well-formedness needs: per node the output schema
   (qualifier, name, type) and, for every expression, the column references it contains. Identifiers and types are
   interned to integers by the check (equal strings <-> equal integers).
   anchors: src/planner/logical_plan.rs (LogicalPlan, schema(), children()), src/planner/schema.rs (PlanSchema,
            resolve_column), src/physical/operators/filter.rs (find_column_index: how a reference is resolved when
            the plan runs), src/optimizer/rules/*.rs (the modelled rewrites). *)
From QV Require Export Base.Util.
Open Scope Z_scope.

Record colref := mkRef { r_rel : option Z; r_name : Z }.
Record field := mkField { f_rel : option Z; f_name : Z; f_type : Z }.
Definition schema := list field.

Definition opt_eqb (a b : option Z) : bool :=
  match a, b with Some x, Some y => x =? y | None, None => true | _, _ => false end.
Definition field_eqb (a b : field) : bool :=
  opt_eqb (f_rel a) (f_rel b) && (f_name a =? f_name b) && (f_type a =? f_type b).
(* "keeps the output column names and types" *)
Definition schema_eq (a b : schema) : bool := list_eqb field_eqb a b.
(* names and types only (the qualifier is reported separately) *)
Definition schema_eq_unqualified (a b : schema) : bool :=
  list_eqb (fun x y => (f_name x =? f_name y) && (f_type x =? f_type y)) a b.

Fixpoint find_idx {A} (p : A -> bool) (l : list A) : option nat :=
  match l with
  | [] => None
  | x :: t => if p x then Some 0%nat else match find_idx p t with Some i => Some (S i) | None => None end
  end.

(* filter.rs find_column_index over the Arrow schema (field name = "rel.name" or "name"):
   1. the qualified name, 2. the bare name as a whole field name, 3. the first field named like it under any qualifier *)
Definition resolve (s : schema) (c : colref) : option nat :=
  match (match r_rel c with
         | Some q => find_idx (fun f => opt_eqb (f_rel f) (Some q) && (f_name f =? r_name c)) s
         | None => None end) with
  | Some i => Some i
  | None =>
      match find_idx (fun f => opt_eqb (f_rel f) None && (f_name f =? r_name c)) s with
      | Some i => Some i
      | None => find_idx (fun f => f_name f =? r_name c) s
      end
  end.
Definition resolves (s : schema) (c : colref) : bool := match resolve s c with Some _ => true | None => false end.

(* schema.rs PlanSchema::resolve_column (plan-time): exact qualified match, or a bare name that is unique *)
Definition resolves_strict (s : schema) (c : colref) : bool :=
  match r_rel c with
  | Some q => existsb (fun f => opt_eqb (f_rel f) (Some q) && (f_name f =? r_name c)) s
  | None => Nat.eqb (length (filter (fun f => f_name f =? r_name c) s)) 1
  end.

(* qualifier-respecting resolution: a QUALIFIED reference q.n may only denote a field (Some q, n) or an unqualified field
   (None, n) — never a field carrying another qualifier (which rule 3 of find_column_index would silently pick: the column
   of ANOTHER relation that happens to have the same name). Bare references resolve as at run time. *)
Definition ref_matches (f : field) (c : colref) : bool :=
  (f_name f =? r_name c)
  && match r_rel c with
     | Some q => opt_eqb (f_rel f) (Some q) || opt_eqb (f_rel f) None
     | None => true
     end.
Definition resolves_q (s : schema) (c : colref) : bool := existsb (fun f => ref_matches f c) s.

Inductive jkind := JK_Inner | JK_Left | JK_Right | JK_Full | JK_Semi | JK_Anti | JK_Cross | JK_Single | JK_Mark.

Inductive plan :=
| PScan (sch : schema) (filt : list colref)
| PFilter (c : plan) (pred : list colref)
| PProject (c : plan) (exprs : list (list colref)) (sch : schema)
| PJoin (jt : jkind) (l r : plan) (onl onr : list (list colref)) (jfilter : list colref) (sch : schema)
| PAgg (c : plan) (group aggs : list (list colref)) (sch : schema)
| PSort (c : plan) (keys : list colref)
| PLimit (c : plan)
| PDistinct (c : plan)
| PAlias (c : plan) (sch : schema)
| PUnion (cs : list plan) (sch : schema)
| PLeaf (sch : schema)                                         (* Values, EmptyRelation, DelimGet *)
| POther (cs : list plan) (refs : list colref) (sch : schema)  (* Window, VectorSearch *)
| PSub (p : plan) (subs : list plan).          (* node p together with the subquery plans inside its expressions *)

Fixpoint schema_of (p : plan) : schema :=
  match p with
  | PScan sch _ | PProject _ _ sch | PJoin _ _ _ _ _ _ sch | PAgg _ _ _ sch | PAlias _ sch | PUnion _ sch | PLeaf sch
  | POther _ _ sch => sch
  | PFilter c _ | PSort c _ | PLimit c | PDistinct c => schema_of c
  | PSub p _ => schema_of p
  end.

Definition children (p : plan) : list plan :=
  match p with
  | PScan _ _ | PLeaf _ => []
  | PFilter c _ | PProject c _ _ | PAgg c _ _ _ | PSort c _ | PLimit c | PDistinct c | PAlias c _ => [c]
  | PJoin _ l r _ _ _ _ => [l; r]
  | PUnion cs _ | POther cs _ _ => cs
  | PSub p _ => [p]
  end.

(* the columns an expression of node p can see *)
Definition input_schema (p : plan) : schema :=
  match p with
  | PScan sch _ => sch
  | PSub q _ => flat_map schema_of (children q)
  | _ => flat_map schema_of (children p)
  end.

(* well-formedness, parameterised by the resolution predicate `res` *)
Definition ok_refs_gen (res : schema -> colref -> bool) (scope outer : schema) (refs : list colref) : bool :=
  forallb (fun c => res scope c || res outer c) refs.

(* every column reference resolves against the child schema(s) (or, inside a subquery, the enclosing scopes);
   expression lists and declared schemas have matching arity *)
Fixpoint wf_plan_gen (res : schema -> colref -> bool) (outer : schema) (p : plan) : bool :=
  let ok := ok_refs_gen res in
  match p with
  | PScan sch filt => ok sch outer filt
  | PFilter c pred => wf_plan_gen res outer c && ok (schema_of c) outer pred
  | PProject c exprs sch =>
      wf_plan_gen res outer c && forallb (ok (schema_of c) outer) exprs && Nat.eqb (length exprs) (length sch)
  | PJoin jt l r onl onr jf sch =>
      wf_plan_gen res outer l && wf_plan_gen res outer r
      && forallb (ok (schema_of l) outer) onl && forallb (ok (schema_of r) outer) onr
      && ok (schema_of l ++ schema_of r) outer jf && Nat.eqb (length onl) (length onr)
  | PAgg c g a sch =>
      wf_plan_gen res outer c && forallb (ok (schema_of c) outer) g && forallb (ok (schema_of c) outer) a
      && Nat.eqb (length g + length a) (length sch)
  | PSort c keys => wf_plan_gen res outer c && ok (schema_of c) outer keys
  | PLimit c | PDistinct c => wf_plan_gen res outer c
  | PAlias c sch => wf_plan_gen res outer c
  | PUnion cs sch => forallb (wf_plan_gen res outer) cs
  | PLeaf _ => true
  | POther cs refs sch => forallb (wf_plan_gen res outer) cs && ok (flat_map schema_of cs) outer refs
  | PSub q subs => wf_plan_gen res outer q && forallb (wf_plan_gen res (input_schema q ++ outer)) subs
  end.

(* run-time resolvability (what makes the plan executable) and qualifier-respecting resolvability (what makes every
   reference denote a column of the relation it names) *)
Definition ok_refs := ok_refs_gen resolves.
Definition wf_plan := wf_plan_gen resolves.
Definition wf_plan_q := wf_plan_gen resolves_q.

(* declared schemas agree in arity with what the children declare (SubqueryAlias, Union, Join): a coverage metric, not
   part of the verdict — ProjectionPushdown leaves SubqueryAlias schemas wider than their pruned input *)
Fixpoint consistent_plan (p : plan) : bool :=
  match p with
  | PScan _ _ | PLeaf _ => true
  | PFilter c _ | PSort c _ | PLimit c | PDistinct c | PProject c _ _ | PAgg c _ _ _ => consistent_plan c
  | PJoin jt l r _ _ _ sch =>
      consistent_plan l && consistent_plan r
      && match jt with
         | JK_Semi | JK_Anti => Nat.eqb (length sch) (length (schema_of l))
         | JK_Mark | JK_Single => true
         | _ => Nat.eqb (length sch) (length (schema_of l) + length (schema_of r))
         end
  | PAlias c sch => consistent_plan c && Nat.eqb (length sch) (length (schema_of c))
  | PUnion cs sch => forallb consistent_plan cs && forallb (fun c => Nat.eqb (length (schema_of c)) (length sch)) cs
  | POther cs _ _ => forallb consistent_plan cs
  | PSub q subs => consistent_plan q && forallb consistent_plan subs
  end.

(* how many references resolve only through the lenient run-time rule (coverage metric, not a verdict) *)
Definition lenient_only (s : schema) (refs : list colref) : nat :=
  length (filter (fun c => resolves s c && negb (resolves_strict s c)) refs).

(* ================= the modelled rewrites (applied at the root of a plan) ================= *)
(* conjunction split: Filter(a AND b) => Filter(a) over Filter(b) *)
Definition conj_split (n : nat) (p : plan) : plan :=
  match p with
  | PFilter c pred => PFilter (PFilter c (skipn n pred)) (firstn n pred)
  | _ => p
  end.

(* predicate_pushdown.rs column_in_schema: qualified references match qualifier and name, bare ones the name *)
Definition column_in_schema (s : schema) (c : colref) : bool :=
  match r_rel c with
  | Some q => existsb (fun f => opt_eqb (f_rel f) (Some q) && (f_name f =? r_name c)) s
  | None => existsb (fun f => f_name f =? r_name c) s
  end.

(* filter pushdown through a join, to the left input (Inner / Cross / Left joins) *)
Definition push_filter_left (p : plan) : plan :=
  match p with
  | PFilter (PJoin jt l r onl onr jf sch) pred =>
      match jt with
      | JK_Inner | JK_Cross | JK_Left =>
          if forallb (column_in_schema (schema_of l)) pred
             && negb (existsb (column_in_schema (schema_of r)) pred)
          then PJoin jt (PFilter l pred) r onl onr jf sch
          else p
      | _ => p
      end
  | _ => p
  end.

(* projection pruning into the scan: keep the scan fields some expression (or the scan filter) names *)
Definition prune_scan (p : plan) : plan :=
  match p with
  | PProject (PScan ssch filt) exprs sch =>
      let used := concat exprs ++ filt in
      PProject (PScan (filter (fun f => existsb (fun c => f_name f =? r_name c) used) ssch) filt) exprs sch
  | _ => p
  end.

(* packed join keys: two key pairs become one pair of packed expressions (same column references) *)
Definition pack_join_keys (p : plan) : plan :=
  match p with
  | PJoin JK_Inner l r [l1; l2] [r1; r2] jf sch => PJoin JK_Inner l r [l1 ++ l2] [r1 ++ r2] jf sch
  | _ => p
  end.

(* packed group keys: Aggregate[a, b] => Project[unpack(__pk) AS a, unpack(__pk) AS b, aggs...] (Aggregate[pack(a,b) AS __pk]) *)
Definition pack_group_keys (pk ty64 : Z) (p : plan) : plan :=
  match p with
  | PAgg c [ga; gb] aggs (fa :: fb :: rest) =>
      PProject (PAgg c [ga ++ gb] aggs (mkField None pk ty64 :: rest))
               ([mkRef None pk] :: [mkRef None pk] :: map (fun f => [mkRef (f_rel f) (f_name f)]) rest)
               (fa :: fb :: rest)
  | _ => p
  end.

(* group-key reduction: Aggregate[g_0..g_{n-1}] => Project (Aggregate[g_k], aggs ++ ANY_VALUE(g_i) AS __fd_i)
   fd i = the interned name "__fd_i". The key column's output field is found by name (`find(|f| f.name == c.name)`); the
   binder gives that field the column's own qualifier (or none), which `ref_matches` records. *)
Definition others {A} (k : nat) (l : list A) : list (nat * A) :=
  filter (fun ix => negb (Nat.eqb (fst ix) k)) (combine (seq 0 (length l)) l).
Definition group_key_reduce (fd : nat -> Z) (k : nat) (p : plan) : plan :=
  match p with
  | PAgg c group aggs sch =>
      let n := length group in
      match nth_error group k, nth_error sch k with
      | Some gk, Some fk =>
          if (2 <=? n)%nat && (n <=? length sch)%nat
             && match gk with [ck] => ref_matches fk ck | _ => false end
          then
            let inner_sch := fk :: skipn n sch
                             ++ map (fun ix => mkField None (fd (fst ix)) (f_type (snd ix))) (others k (firstn n sch)) in
            let inner := PAgg c [gk] (aggs ++ map snd (others k group)) inner_sch in
            let exprs :=
              map (fun ix => if Nat.eqb (fst ix) k then gk else [mkRef None (fd (fst ix))])
                  (combine (seq 0 n) (firstn n sch))
              ++ map (fun f => [mkRef (f_rel f) (f_name f)]) (skipn n sch) in
            PProject inner exprs sch
          else p
      | _, _ => p
      end
  | _ => p
  end.
