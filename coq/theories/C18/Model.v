(* C18 model: ParquetTable::compute_statistics (the footer fold behind TableProvider::statistics()),
   transcribed.  anchors: src/storage/parquet.rs compute_statistics (ColAcc, chunk loop, minmax_unknown,
   ndv_est), src/physical/operators/scan.rs TableStatistics / ColumnStatistics,
   src/optimizer/rules/group_key_reduction.rs is_unique_key (the one consumer modelled here).

   Two folds live here: `statistics` transcribes the code as REPAIRED by 2a8aa09 (a chunk that may hold
   values but gives no min/max makes the column report no bounds) and f8ca7af (ndv range through abs_diff +
   saturating_add); `statistics_before_fix` is the fold as it was, kept for the regression theorems.

   A table is files x row groups x column chunks.  A chunk carries what the footer says about it
   (optional statistics = optional null count, optional integer min/max) AND, for the specification
   only, the values it really holds (the fold never looks at them). *)
From QV Require Export Base.Util.

Definition two63 : Z := 2 ^ 63.
Definition two64 : Z := 2 ^ 64.

Record cstats := mkCS {
  cs_nulls  : option Z;          (* stats.null_count_opt() *)
  cs_minmax : option (Z * Z)     (* Int64/Int32 statistics with BOTH min_opt and max_opt present *)
}.

Record chunk := mkChunk {
  ch_col   : Z;                  (* identity of the lowercased dotted column path (HashMap key) *)
  ch_isint : bool;               (* statistics variant Int64 / Int32: the only ones read *)
  ch_rows  : Z;                  (* rg.num_rows() of the row group the chunk belongs to *)
  ch_stats : option cstats;      (* col_chunk.statistics() *)
  ch_vals  : list (option Z)     (* ground truth, specification only *)
}.

Record rowgroup := mkRG { rg_rows : Z; rg_chunks : list chunk }.
Definition file := list rowgroup.
Definition table := list file.

(* struct ColAcc *)
Record colacc := mkAcc {
  a_min : option Z; a_max : option Z; a_nulls : option Z; a_has_int : bool; a_unknown : bool (* minmax_unknown *)
}.
(* cols.entry(name).or_insert(ColAcc { None, None, Some(0), false, false }) *)
Definition acc0 : colacc := mkAcc None None (Some 0) false false.

Definition omerge (f : Z -> Z -> Z) (o : option Z) (x : Z) : Z :=
  match o with Some m => f m x | None => x end.
Definition oeqb (a b : option Z) : bool :=
  match a, b with Some x, Some y => x =? y | None, None => true | _, _ => false end.

Definition step_nulls (s : cstats) (a : colacc) : option Z :=
  match cs_nulls s with
  | Some n => match a_nulls a with Some t => Some (t + n) | None => None end
  | None => None
  end.

(* body of `for col_chunk in rg.columns()`, repaired code *)
Definition chunk_step (c : chunk) (a : colacc) : colacc :=
  match ch_stats c with
  | None =>
      (* no statistics: null_count unknown, and (if the row group has rows) min/max unknown; continue *)
      mkAcc (a_min a) (a_max a) None (a_has_int a) (a_unknown a || (0 <? ch_rows c))
  | Some s =>
      match (if ch_isint c then cs_minmax s else None) with
      | Some (lo, hi) =>
          mkAcc (Some (omerge Z.min (a_min a) lo)) (Some (omerge Z.max (a_max a) hi)) (step_nulls s a) true (a_unknown a)
      | None =>
          (* else if matches!(stats, Int64 | Int32) && stats.null_count_opt() != Some(rg.num_rows() as u64) *)
          mkAcc (a_min a) (a_max a) (step_nulls s a) (a_has_int a)
                (a_unknown a || (ch_isint c && negb (oeqb (cs_nulls s) (Some (ch_rows c)))))
      end
  end.

(* the same body before 2a8aa09: a chunk without min/max was simply skipped for min/max *)
Definition chunk_step_before_fix (c : chunk) (a : colacc) : colacc :=
  match ch_stats c with
  | None => mkAcc (a_min a) (a_max a) None (a_has_int a) (a_unknown a)
  | Some s =>
      match (if ch_isint c then cs_minmax s else None) with
      | Some (lo, hi) =>
          mkAcc (Some (omerge Z.min (a_min a) lo)) (Some (omerge Z.max (a_max a) hi)) (step_nulls s a) true (a_unknown a)
      | None => mkAcc (a_min a) (a_max a) (step_nulls s a) (a_has_int a) (a_unknown a)
      end
  end.

(* HashMap<String, ColAcc> as an association list (iteration order is not observable) *)
Fixpoint acc_upd (k : Z) (f : colacc -> colacc) (m : list (Z * colacc)) : list (Z * colacc) :=
  match m with
  | [] => [(k, f acc0)]
  | (k', a) :: r => if k =? k' then (k', f a) :: r else (k', a) :: acc_upd k f r
  end.

Fixpoint acc_get (k : Z) (m : list (Z * colacc)) : option colacc :=
  match m with
  | [] => None
  | (k', a) :: r => if k =? k' then Some a else acc_get k r
  end.

Definition fstate := (Z * list (Z * colacc))%type.   (* total_rows, cols *)

Section Fold.
  Variable stepf : chunk -> colacc -> colacc.
  Definition accs_step (m : list (Z * colacc)) (c : chunk) : list (Z * colacc) :=
    acc_upd (ch_col c) (stepf c) m.
  Definition rg_step (st : fstate) (rg : rowgroup) : fstate :=
    (fst st + rg_rows rg, fold_left accs_step (rg_chunks rg) (snd st)).
  Definition file_step (st : fstate) (f : file) : fstate := fold_left rg_step f st.
  Definition fold_table (t : table) : fstate := fold_left file_step t (0, []).
End Fold.

(* ---- ndv_est ---- *)
(* repaired: Some(non_null.min(max.abs_diff(min).saturating_add(1))) in u64 *)
Definition ndv_range (lo hi : Z) : Z := Z.min (Z.abs (hi - lo) + 1) (two64 - 1).

(* before f8ca7af: (max - min) as u64 + 1 with the machine arithmetic explicit *)
Inductive arith := Checked | Wrapping.   (* overflow-checks on (dev/test profile) / off (release) *)
Definition wrap_i64 (z : Z) : Z := (z + two63) mod two64 - two63.
(* None = the arithmetic panics ("attempt to subtract/add with overflow") *)
Definition ndv_range_before_fix (m : arith) (lo hi : Z) : option Z :=
  let d := hi - lo in                             (* i64 - i64 *)
  match m with
  | Checked =>
      if (d <? two63) && (- two63 <=? d) then
        let u := d mod two64 in                   (* as u64 *)
        if u + 1 <? two64 then Some (u + 1) else None
      else None
  | Wrapping => Some ((wrap_i64 d mod two64 + 1) mod two64)
  end.

Record colstats := mkCol { c_min : option Z; c_max : option Z; c_nulls : option Z; c_ndv : option Z }.

Definition dict_ndv (dict : Z -> option Z) (k : Z) : option Z :=
  match dict k with Some n => if 0 <? n then Some n else None | None => None end.
Definition non_null_of (total : Z) (a : colacc) : Z :=
  match a_nulls a with Some n => Z.max 0 (total - n) | None => total end.

(* one element of `cols.into_iter().map(...)`, repaired code.  `dict` = the dictionary-page probe
   (external: parquet page reader), only consulted for columns without integer statistics. *)
Definition finish_col (dict : Z -> option Z) (total : Z) (ka : Z * colacc) : Z * colstats :=
  let (k, a0) := ka in
  (* if acc.minmax_unknown { min = None; max = None; has_int_stats = false } *)
  let a := if a_unknown a0 then mkAcc None None (a_nulls a0) false true else a0 in
  let ndv :=
    if a_has_int a then
      match a_min a, a_max a with
      | Some lo, Some hi => if lo <=? hi then Some (Z.min (non_null_of total a) (ndv_range lo hi)) else None
      | _, _ => None
      end
    else dict_ndv dict k in
  (k, mkCol (a_min a) (a_max a) (a_nulls a) ndv).

Inductive outcome := Stats (rows : Z) (cols : list (Z * colstats)) | Panic.

Definition statistics (dict : Z -> option Z) (t : table) : outcome :=
  let st := fold_table chunk_step t in
  Stats (fst st) (map (finish_col dict (fst st)) (snd st)).

(* ---- the fold as it was before the two repairs ---- *)
Definition finish_col_before_fix (m : arith) (dict : Z -> option Z) (total : Z) (ka : Z * colacc)
  : option (Z * colstats) :=     (* None = panic *)
  let (k, a) := ka in
  if a_has_int a then
    match a_min a, a_max a with
    | Some lo, Some hi =>
        if lo <=? hi then
          match ndv_range_before_fix m lo hi with
          | Some r => Some (k, mkCol (a_min a) (a_max a) (a_nulls a) (Some (Z.min (non_null_of total a) r)))
          | None => None
          end
        else Some (k, mkCol (a_min a) (a_max a) (a_nulls a) None)
    | _, _ => Some (k, mkCol (a_min a) (a_max a) (a_nulls a) None)
    end
  else Some (k, mkCol (a_min a) (a_max a) (a_nulls a) (dict_ndv dict k)).

Fixpoint traverse {A B} (f : A -> option B) (l : list A) : option (list B) :=
  match l with
  | [] => Some []
  | x :: r => match f x, traverse f r with Some y, Some ys => Some (y :: ys) | _, _ => None end
  end.

Definition statistics_before_fix (m : arith) (dict : Z -> option Z) (t : table) : outcome :=
  let st := fold_table chunk_step_before_fix t in
  match traverse (finish_col_before_fix m dict (fst st)) (snd st) with
  | Some cols => Stats (fst st) cols
  | None => Panic
  end.

(* ------------------------------------------------------------------ *)
(* Ground truth and the executable specification (any implementation). *)

Definition is_none {A} (o : option A) : bool := match o with None => true | Some _ => false end.
Fixpoint nonnull (l : list (option Z)) : list Z :=
  match l with [] => [] | Some v :: r => v :: nonnull r | None :: r => nonnull r end.
Definition count_nulls (l : list (option Z)) : Z := Z.of_nat (length (filter is_none l)).

Definition all_chunks (t : table) : list chunk := flat_map (flat_map rg_chunks) t.
Definition col_chunks (k : Z) (cs : list chunk) : list chunk := filter (fun c => ch_col c =? k) cs.
Definition vals_of (cs : list chunk) : list (option Z) := flat_map ch_vals cs.
Definition int_vals_of (cs : list chunk) : list Z :=
  flat_map (fun c => if ch_isint c then nonnull (ch_vals c) else []) cs.

Definition true_rows (t : table) : Z := zsum (map (fun f => zsum (map rg_rows f)) t).
Definition col_vals (t : table) (k : Z) : list (option Z) := vals_of (col_chunks k (all_chunks t)).
Definition col_ints (t : table) (k : Z) : list Z := int_vals_of (col_chunks k (all_chunks t)).

Definition col_ok (t : table) (kc : Z * colstats) : bool :=
  let (k, c) := kc in
  (match c_nulls c with Some n => n =? count_nulls (col_vals t k) | None => true end)
  && (match c_min c with Some lo => forallb (fun v => lo <=? v) (col_ints t k) | None => true end)
  && (match c_max c with Some hi => forallb (fun v => v <=? hi) (col_ints t k) | None => true end).

(* row count exact; null count exact when present; every integer value within reported min/max;
   a crash is not a report *)
Definition stats_ok (t : table) (o : outcome) : bool :=
  match o with
  | Panic => false
  | Stats r cols => (r =? true_rows t) && forallb (col_ok t) cols
  end.

(* ---- the parquet writer's contract: per-chunk footer statistics are facts about that chunk
        (nothing is assumed about WHEN min/max are written: the repaired code does not rely on it) ---- *)
Definition chunk_wf (c : chunk) : bool :=
  (Z.of_nat (length (ch_vals c)) =? ch_rows c)
  && match ch_stats c with
     | None => true
     | Some s =>
         (match cs_nulls s with Some n => n =? count_nulls (ch_vals c) | None => true end)
         && (if ch_isint c then
               match cs_minmax s with
               | Some (lo, hi) => forallb (fun v => (lo <=? v) && (v <=? hi)) (nonnull (ch_vals c))
               | None => true
               end
             else true)
     end.
Definition rg_wf (rg : rowgroup) : bool :=
  (0 <=? rg_rows rg) && forallb (fun c => (ch_rows c =? rg_rows rg) && chunk_wf c) (rg_chunks rg).
Definition table_wf (t : table) : bool := forallb (forallb rg_wf) t.

(* ---- classes of the code BEFORE the repairs (used by the regression theorems only) ---- *)
Definition statsless (c : chunk) : bool := ch_isint c && is_none (ch_stats c).
Definition has_minmax (c : chunk) : bool :=
  ch_isint c && match ch_stats c with Some s => negb (is_none (cs_minmax s)) | None => false end.
Definition known_statsless_mix_col (t : table) (k : Z) : bool :=
  existsb statsless (col_chunks k (all_chunks t)) && existsb has_minmax (col_chunks k (all_chunks t)).
Definition cols_of (t : table) : list Z := map ch_col (all_chunks t).
Definition known_statsless_mix (t : table) : bool := existsb (known_statsless_mix_col t) (cols_of t).

(* ---- the consumer that turns the estimate into a decision (group_key_reduction.rs is_unique_key,
        same test in eager_aggregation.rs): null_count == Some(0) && ndv_est >= row_count ---- *)
Definition is_unique_key (rows : Z) (c : colstats) : bool :=
  match c_nulls c, c_ndv c with
  | Some 0, Some ndv => rows <=? ndv
  | _, _ => false
  end.

Fixpoint has_dup (l : list Z) : bool :=
  match l with [] => false | x :: r => existsb (Z.eqb x) r || has_dup r end.

(* class ndv-decides-uniqueness: some column passes the uniqueness test although it holds duplicates *)
Definition known_false_unique (dict : Z -> option Z) (t : table) : bool :=
  match statistics dict t with
  | Stats r cols => existsb (fun kc => is_unique_key r (snd kc) && has_dup (col_ints t (fst kc))) cols
  | Panic => false
  end.

(* ---- comparison of an implementation output with the model output (maps compared as sets) ---- *)
Definition colstats_eqb (a b : colstats) : bool :=
  oeqb (c_min a) (c_min b) && oeqb (c_max a) (c_max b) && oeqb (c_nulls a) (c_nulls b) && oeqb (c_ndv a) (c_ndv b).
Fixpoint out_get (k : Z) (l : list (Z * colstats)) : option colstats :=
  match l with [] => None | (k', c) :: r => if k =? k' then Some c else out_get k r end.
Definition cols_sub (a b : list (Z * colstats)) : bool :=
  forallb (fun kc => match out_get (fst kc) b with Some c => colstats_eqb (snd kc) c | None => false end) a.
Definition outcome_eqb (a b : outcome) : bool :=
  match a, b with
  | Panic, Panic => true
  | Stats r1 c1, Stats r2 c2 => (r1 =? r2) && (Nat.eqb (length c1) (length c2)) && cols_sub c1 c2 && cols_sub c2 c1
  | _, _ => false
  end.
