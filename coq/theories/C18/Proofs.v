From QV Require Import Base.Util C18.Model.

(* ---------- the nested fold is a flat fold over all chunks, rows are summed independently ---------- *)
Definition getd (k : Z) (m : list (Z * colacc)) : colacc :=
  match acc_get k m with Some a => a | None => acc0 end.

Lemma acc_get_upd_same k f m : acc_get k (acc_upd k f m) = Some (f (getd k m)).
Proof.
  unfold getd. induction m as [|[k' a] r IH]; cbn [acc_upd acc_get].
  - now rewrite Z.eqb_refl.
  - destruct (k =? k') eqn:E; cbn [acc_get]; rewrite E; [reflexivity | exact IH].
Qed.

Lemma acc_get_upd_other k k' f m : k <> k' -> acc_get k (acc_upd k' f m) = acc_get k m.
Proof.
  intros Hne. induction m as [|[k2 a] r IH]; cbn [acc_upd acc_get].
  - destruct (Z.eqb_spec k k'); [contradiction | reflexivity].
  - destruct (Z.eqb_spec k' k2) as [->|N]; cbn [acc_get].
    + destruct (Z.eqb_spec k k2); [contradiction | reflexivity].
    + destruct (k =? k2); [reflexivity | exact IH].
Qed.

Lemma acc_upd_keys k f m x : In x (map fst (acc_upd k f m)) -> x = k \/ In x (map fst m).
Proof.
  induction m as [|[k' a] r IH]; cbn [acc_upd map fst In].
  - intros [<-|[]]. now left.
  - destruct (Z.eqb_spec k k') as [->|N]; cbn [map fst In]; intros [H|H]; auto.
    destruct (IH H); auto.
Qed.

Lemma acc_upd_nodup k f m : NoDup (map fst m) -> NoDup (map fst (acc_upd k f m)).
Proof.
  induction m as [|[k' a] r IH]; cbn [acc_upd map fst]; intros H.
  - constructor; [intros []|constructor].
  - inversion H as [|? ? Hn Hr]; subst.
    destruct (Z.eqb_spec k k') as [->|N]; cbn [map fst]; constructor; auto.
    intros Hin. destruct (acc_upd_keys _ _ _ _ Hin) as [->|]; [congruence | contradiction].
Qed.

Lemma In_acc_get k a m : NoDup (map fst m) -> In (k, a) m -> acc_get k m = Some a.
Proof.
  induction m as [|[k' a'] r IH]; cbn [map fst In acc_get]; intros Hn Hin; [destruct Hin|].
  inversion Hn as [|? ? Hni Hr]; subst.
  destruct Hin as [E|Hin].
  - inversion E; subst. now rewrite Z.eqb_refl.
  - destruct (Z.eqb_spec k k') as [->|N]; [|now apply IH].
    exfalso. apply Hni. change k' with (fst (k', a)). now apply in_map.
Qed.

Section FoldLemmas.
  Variable stepf : chunk -> colacc -> colacc.

  Lemma fold_rg_fst f : forall st, fst (fold_left (rg_step stepf) f st) = fst st + zsum (map rg_rows f).
  Proof.
    induction f as [|rg f IH]; intros st; cbn [fold_left map]; [cbn; lia|].
    rewrite IH, zsum_cons. cbn [rg_step fst]. lia.
  Qed.

  Lemma fold_rg_snd f : forall st,
    snd (fold_left (rg_step stepf) f st) = fold_left (accs_step stepf) (flat_map rg_chunks f) (snd st).
  Proof.
    induction f as [|rg f IH]; intros st; cbn [fold_left flat_map]; [reflexivity|].
    rewrite IH, fold_left_app. reflexivity.
  Qed.

  Lemma fold_files_fst t : forall st,
    fst (fold_left (file_step stepf) t st) = fst st + zsum (map (fun f => zsum (map rg_rows f)) t).
  Proof.
    induction t as [|f t IH]; intros st; cbn [fold_left map]; [cbn; lia|].
    rewrite IH, zsum_cons. unfold file_step. rewrite fold_rg_fst. lia.
  Qed.

  Lemma fold_files_snd t : forall st,
    snd (fold_left (file_step stepf) t st) = fold_left (accs_step stepf) (flat_map (flat_map rg_chunks) t) (snd st).
  Proof.
    induction t as [|f t IH]; intros st; cbn [fold_left flat_map]; [reflexivity|].
    rewrite IH, fold_left_app. unfold file_step. rewrite fold_rg_snd. reflexivity.
  Qed.

  Lemma fold_table_rows t : fst (fold_table stepf t) = true_rows t.
  Proof. unfold fold_table, true_rows. rewrite fold_files_fst. cbn [fst]. lia. Qed.

  Lemma fold_table_accs t : snd (fold_table stepf t) = fold_left (accs_step stepf) (all_chunks t) [].
  Proof. unfold fold_table, all_chunks. now rewrite fold_files_snd. Qed.

  Definition cfold (cs : list chunk) (a : colacc) : colacc := fold_left (fun a c => stepf c a) cs a.

  Lemma getd_fold k cs : forall m,
    getd k (fold_left (accs_step stepf) cs m) = cfold (col_chunks k cs) (getd k m).
  Proof.
    induction cs as [|c cs IH]; intros m; [reflexivity|].
    cbn [fold_left]. rewrite IH. unfold col_chunks. cbn [filter]. fold (col_chunks k cs). unfold accs_step.
    destruct (Z.eqb_spec (ch_col c) k) as [E|N].
    - subst k. cbn [cfold fold_left]. f_equal. unfold getd. now rewrite acc_get_upd_same.
    - f_equal. unfold getd. now rewrite acc_get_upd_other by congruence.
  Qed.

  Lemma fold_accs_nodup cs : forall m, NoDup (map fst m) -> NoDup (map fst (fold_left (accs_step stepf) cs m)).
  Proof.
    induction cs as [|c cs IH]; intros m H; cbn [fold_left]; auto.
    apply IH. now apply acc_upd_nodup.
  Qed.

  (* every accumulator of the fold is the per-column fold of that column's chunks *)
  Lemma table_acc_is_cfold t k a :
    In (k, a) (snd (fold_table stepf t)) -> a = cfold (col_chunks k (all_chunks t)) acc0.
  Proof.
    rewrite fold_table_accs. intros Hin.
    assert (NoDup (map fst (fold_left (accs_step stepf) (all_chunks t) []))) as Hn
      by (apply fold_accs_nodup; constructor).
    pose proof (In_acc_get _ _ _ Hn Hin) as Hg.
    pose proof (getd_fold k (all_chunks t) []) as Hf. unfold getd at 1 in Hf. rewrite Hg in Hf.
    exact Hf.
  Qed.
End FoldLemmas.

(* ---------- what one chunk does to each field (repaired code) ---------- *)
Definition eff_minmax (c : chunk) : option (Z * Z) :=
  match ch_stats c with Some s => if ch_isint c then cs_minmax s else None | None => None end.

(* the chunk may hold integer values that no min/max covers *)
Definition chunk_flag (c : chunk) : bool :=
  match ch_stats c with
  | None => 0 <? ch_rows c
  | Some s => match (if ch_isint c then cs_minmax s else None) with
              | Some _ => false
              | None => ch_isint c && negb (oeqb (cs_nulls s) (Some (ch_rows c)))
              end
  end.

Lemma chunk_step_unknown c a : a_unknown (chunk_step c a) = a_unknown a || chunk_flag c.
Proof.
  unfold chunk_step, chunk_flag. destruct (ch_stats c) as [s|]; [|reflexivity].
  destruct (if ch_isint c then cs_minmax s else None) as [[lo hi]|]; cbn; [now rewrite orb_false_r | reflexivity].
Qed.

Lemma chunk_step_nulls c a :
  a_nulls (chunk_step c a) = match ch_stats c with None => None | Some s => step_nulls s a end.
Proof.
  unfold chunk_step. destruct (ch_stats c) as [s|]; [|reflexivity].
  destruct (if ch_isint c then cs_minmax s else None) as [[lo hi]|]; reflexivity.
Qed.

Lemma chunk_step_min c a :
  a_min (chunk_step c a) =
  match eff_minmax c with Some (lo, _) => Some (omerge Z.min (a_min a) lo) | None => a_min a end.
Proof.
  unfold chunk_step, eff_minmax. destruct (ch_stats c) as [s|]; [|reflexivity].
  destruct (if ch_isint c then cs_minmax s else None) as [[lo hi]|]; reflexivity.
Qed.

Lemma chunk_step_max c a :
  a_max (chunk_step c a) =
  match eff_minmax c with Some (_, hi) => Some (omerge Z.max (a_max a) hi) | None => a_max a end.
Proof.
  unfold chunk_step, eff_minmax. destruct (ch_stats c) as [s|]; [|reflexivity].
  destruct (if ch_isint c then cs_minmax s else None) as [[lo hi]|]; reflexivity.
Qed.

(* ---------- facts a well-formed chunk gives ---------- *)
Definition cwf (c : chunk) : Prop := chunk_wf c = true.

Lemma count_nulls_app a b : count_nulls (a ++ b) = count_nulls a + count_nulls b.
Proof. unfold count_nulls. rewrite filter_app, app_length. lia. Qed.

Lemma count_nulls_le l : count_nulls l <= Z.of_nat (length l).
Proof.
  unfold count_nulls. induction l as [|x r IH]; cbn [filter length]; [lia|].
  destruct (is_none x); cbn [length]; lia.
Qed.

Lemma all_null l : count_nulls l = Z.of_nat (length l) -> nonnull l = [].
Proof.
  induction l as [|x r IH]; [reflexivity|]. pose proof (count_nulls_le r) as Hle.
  unfold count_nulls in *. cbn [filter length nonnull]. destruct x as [v|]; cbn [is_none length]; intros H.
  - lia.
  - apply IH. lia.
Qed.

Lemma cwf_len c : cwf c -> Z.of_nat (length (ch_vals c)) = ch_rows c.
Proof. unfold cwf, chunk_wf. intros H. apply andb_true_iff in H as [H _]. now apply Z.eqb_eq in H. Qed.

Lemma cwf_nulls c s n : cwf c -> ch_stats c = Some s -> cs_nulls s = Some n -> n = count_nulls (ch_vals c).
Proof.
  unfold cwf, chunk_wf. intros H Hs Hn. rewrite Hs, Hn in H.
  apply andb_true_iff in H as [_ H]. apply andb_true_iff in H as [H _]. now apply Z.eqb_eq in H.
Qed.

Lemma cwf_minmax c lo hi v :
  cwf c -> eff_minmax c = Some (lo, hi) -> In v (nonnull (ch_vals c)) -> lo <= v <= hi.
Proof.
  unfold cwf, chunk_wf, eff_minmax. intros H He Hv.
  destruct (ch_stats c) as [s|]; [|discriminate].
  destruct (ch_isint c); [|discriminate]. rewrite He in H.
  apply andb_true_iff in H as [_ H]. apply andb_true_iff in H as [_ H].
  rewrite forallb_forall in H. specialize (H v Hv). apply andb_true_iff in H as [A B].
  apply Z.leb_le in A. apply Z.leb_le in B. lia.
Qed.

Lemma table_wf_chunks t : table_wf t = true -> Forall cwf (all_chunks t).
Proof.
  intros H. apply Forall_forall. intros c Hc. unfold all_chunks in Hc.
  apply in_flat_map in Hc as (f & Hf & Hc). apply in_flat_map in Hc as (rg & Hrg & Hc).
  unfold table_wf in H. rewrite forallb_forall in H. specialize (H f Hf).
  rewrite forallb_forall in H. specialize (H rg Hrg). unfold rg_wf in H.
  apply andb_true_iff in H as [_ H]. rewrite forallb_forall in H. specialize (H c Hc).
  apply andb_true_iff in H as [_ H]. exact H.
Qed.

Lemma Forall_col_chunks P k cs : Forall P cs -> Forall P (col_chunks k cs).
Proof.
  rewrite !Forall_forall. intros H c Hc. apply filter_In in Hc as [Hc _]. now apply H.
Qed.

(* a chunk that does not raise minmax_unknown has all its integer values inside its own min/max *)
Lemma chunk_ints_bounds c v :
  cwf c -> chunk_flag c = false -> In v (if ch_isint c then nonnull (ch_vals c) else []) ->
  exists lo hi, eff_minmax c = Some (lo, hi) /\ lo <= v <= hi.
Proof.
  intros Hc Hf Hv. destruct (ch_isint c) eqn:Hi; [|destruct Hv].
  pose proof (cwf_len c Hc) as Hl.
  unfold chunk_flag in Hf. destruct (ch_stats c) as [s|] eqn:Es.
  - rewrite Hi in Hf. destruct (cs_minmax s) as [[lo hi]|] eqn:Em.
    + exists lo, hi. assert (eff_minmax c = Some (lo, hi)) as E by (unfold eff_minmax; now rewrite Es, Hi).
      split; [exact E|]. eapply cwf_minmax; eauto.
    + exfalso. cbn [andb] in Hf. apply negb_false_iff in Hf.
      destruct (cs_nulls s) as [n0|] eqn:En; [|discriminate]. cbn [oeqb] in Hf. apply Z.eqb_eq in Hf. subst n0.
      pose proof (cwf_nulls c s _ Hc Es En) as E.
      rewrite (all_null (ch_vals c)) in Hv by lia. destruct Hv.
  - exfalso. apply Z.ltb_ge in Hf. destruct (ch_vals c) as [|x r]; [destruct Hv | cbn [length] in Hl; lia].
Qed.

(* ---------- per-column invariants of the repaired fold ---------- *)
Notation cf := (cfold chunk_step).

Lemma unknown_fold cs : forall a, a_unknown (cf cs a) = false ->
  a_unknown a = false /\ forall c, In c cs -> chunk_flag c = false.
Proof.
  induction cs as [|c cs IH]; intros a H; [split; [exact H | intros c []]|].
  change (cf (c :: cs) a) with (cf cs (chunk_step c a)) in H.
  destruct (IH _ H) as [H1 H2]. rewrite chunk_step_unknown in H1. apply orb_false_iff in H1 as [A B].
  split; [exact A|]. intros c' [<-|Hin]; [exact B | now apply H2].
Qed.

Lemma nulls_fold cs : forall a n, Forall cwf cs -> a_nulls (cf cs a) = Some n ->
  exists n0, a_nulls a = Some n0 /\ n = n0 + count_nulls (vals_of cs).
Proof.
  induction cs as [|c cs IH]; intros a n Hwf H.
  - exists n. split; [exact H|]. cbn. lia.
  - inversion Hwf as [|? ? Hc Hcs]; subst. change (cf (c :: cs) a) with (cf cs (chunk_step c a)) in H.
    destruct (IH _ _ Hcs H) as (n1 & H1 & E). rewrite chunk_step_nulls in H1.
    destruct (ch_stats c) as [s|] eqn:Es; [|discriminate]. unfold step_nulls in H1.
    destruct (cs_nulls s) as [x|] eqn:Ex; [|discriminate].
    destruct (a_nulls a) as [t0|]; [|discriminate]. inversion H1; subst n1.
    exists t0. split; [reflexivity|].
    unfold vals_of. cbn [flat_map]. rewrite count_nulls_app. fold (vals_of cs).
    rewrite <- (cwf_nulls c s x Hc Es Ex). lia.
Qed.

Lemma int_vals_cons c cs :
  int_vals_of (c :: cs) = (if ch_isint c then nonnull (ch_vals c) else []) ++ int_vals_of cs.
Proof. reflexivity. Qed.

Lemma min_fold cs : forall a lo, Forall cwf cs -> (forall c, In c cs -> chunk_flag c = false) ->
  a_min (cf cs a) = Some lo ->
  (forall v, In v (int_vals_of cs) -> lo <= v) /\ (forall m0, a_min a = Some m0 -> lo <= m0).
Proof.
  induction cs as [|c cs IH]; intros a lo Hwf Hns H.
  - split; [intros v []|]. cbn in H. intros m0 E. rewrite E in H. inversion H. lia.
  - inversion Hwf as [|? ? Hc Hcs]; subst. change (cf (c :: cs) a) with (cf cs (chunk_step c a)) in H.
    destruct (IH _ _ Hcs (fun c' Hc' => Hns c' (or_intror Hc')) H) as [Hv Hm].
    rewrite chunk_step_min in Hm. split.
    + intros v Hin. rewrite int_vals_cons in Hin. apply in_app_or in Hin as [Hin|Hin]; [|now apply Hv].
      destruct (chunk_ints_bounds c v Hc (Hns c (or_introl eq_refl)) Hin) as (l & h & He & B).
      rewrite He in Hm. specialize (Hm _ eq_refl). unfold omerge in Hm. destruct (a_min a); lia.
    + intros m0 E. destruct (eff_minmax c) as [[l h]|].
      * specialize (Hm _ eq_refl). rewrite E in Hm. cbn [omerge] in Hm. lia.
      * now apply Hm.
Qed.

Lemma max_fold cs : forall a hi, Forall cwf cs -> (forall c, In c cs -> chunk_flag c = false) ->
  a_max (cf cs a) = Some hi ->
  (forall v, In v (int_vals_of cs) -> v <= hi) /\ (forall m0, a_max a = Some m0 -> m0 <= hi).
Proof.
  induction cs as [|c cs IH]; intros a hi Hwf Hns H.
  - split; [intros v []|]. cbn in H. intros m0 E. rewrite E in H. inversion H. lia.
  - inversion Hwf as [|? ? Hc Hcs]; subst. change (cf (c :: cs) a) with (cf cs (chunk_step c a)) in H.
    destruct (IH _ _ Hcs (fun c' Hc' => Hns c' (or_intror Hc')) H) as [Hv Hm].
    rewrite chunk_step_max in Hm. split.
    + intros v Hin. rewrite int_vals_cons in Hin. apply in_app_or in Hin as [Hin|Hin]; [|now apply Hv].
      destruct (chunk_ints_bounds c v Hc (Hns c (or_introl eq_refl)) Hin) as (l & h & He & B).
      rewrite He in Hm. specialize (Hm _ eq_refl). unfold omerge in Hm. destruct (a_max a); lia.
    + intros m0 E. destruct (eff_minmax c) as [[l h]|].
      * specialize (Hm _ eq_refl). rewrite E in Hm. cbn [omerge] in Hm. lia.
      * now apply Hm.
Qed.

(* ---------- from the output back to the accumulators ---------- *)
Lemma finish_col_fields d total k' a k c :
  finish_col d total (k', a) = (k, c) ->
  k' = k /\ c_nulls c = a_nulls a /\
  (forall lo, c_min c = Some lo -> a_unknown a = false /\ a_min a = Some lo) /\
  (forall hi, c_max c = Some hi -> a_unknown a = false /\ a_max a = Some hi).
Proof.
  unfold finish_col. destruct (a_unknown a) eqn:U; intros H; inversion H; subst; cbn.
  - repeat split; auto; discriminate.
  - repeat split; auto.
Qed.

Lemma output_col d t r cols k c :
  statistics d t = Stats r cols -> In (k, c) cols ->
  r = true_rows t /\
  let a := cf (col_chunks k (all_chunks t)) acc0 in
  c_nulls c = a_nulls a /\
  (forall lo, c_min c = Some lo -> a_unknown a = false /\ a_min a = Some lo) /\
  (forall hi, c_max c = Some hi -> a_unknown a = false /\ a_max a = Some hi).
Proof.
  unfold statistics. intros H Hin. inversion H; subst. split; [apply fold_table_rows|].
  apply in_map_iff in Hin as ([k' a] & Hf & Ha).
  apply finish_col_fields in Hf as (-> & A & B & C).
  apply table_acc_is_cfold in Ha. subst a. cbv zeta. auto.
Qed.

(* ---------- the theorems ---------- *)
Theorem statistics_total d t : exists r cols, statistics d t = Stats r cols.
Proof. unfold statistics. eauto. Qed.

Theorem row_count_exact d t r cols : statistics d t = Stats r cols -> r = true_rows t.
Proof. unfold statistics. intros H; inversion H. apply fold_table_rows. Qed.

(* ... and that number is the number of values of every column stored once per row group *)
Definition col_once (k : Z) (rg : rowgroup) : bool :=
  match col_chunks k (rg_chunks rg) with [c] => true | _ => false end.

Lemma count_vals_rg k rg : rg_wf rg = true -> col_once k rg = true ->
  Z.of_nat (length (vals_of (col_chunks k (rg_chunks rg)))) = rg_rows rg.
Proof.
  intros Hw Ho. unfold col_once in Ho.
  destruct (col_chunks k (rg_chunks rg)) as [|c [|c' r]] eqn:E; try discriminate.
  assert (In c (rg_chunks rg)) as Hc.
  { assert (In c (col_chunks k (rg_chunks rg))) as H by (rewrite E; now left). now apply filter_In in H. }
  unfold rg_wf in Hw. apply andb_true_iff in Hw as [_ Hw]. rewrite forallb_forall in Hw.
  specialize (Hw c Hc). apply andb_true_iff in Hw as [Hr Hw]. apply Z.eqb_eq in Hr.
  cbn [vals_of flat_map]. rewrite app_nil_r, (cwf_len c Hw). exact Hr.
Qed.

Lemma col_chunks_app k a b : col_chunks k (a ++ b) = col_chunks k a ++ col_chunks k b.
Proof. apply filter_app. Qed.
Lemma vals_of_app a b : vals_of (a ++ b) = vals_of a ++ vals_of b.
Proof. unfold vals_of. now rewrite flat_map_app. Qed.

Theorem row_count_is_data_rows t k :
  table_wf t = true -> forallb (forallb (col_once k)) t = true ->
  Z.of_nat (length (col_vals t k)) = true_rows t.
Proof.
  unfold col_vals, all_chunks, true_rows, table_wf.
  induction t as [|f t IH]; intros Hw Ho; [reflexivity|].
  cbn [forallb] in Hw, Ho. apply andb_true_iff in Hw as [Hwf Hwt]. apply andb_true_iff in Ho as [Hof Hot].
  cbn [flat_map map]. rewrite col_chunks_app, vals_of_app, app_length, Nat2Z.inj_add, zsum_cons, (IH Hwt Hot).
  f_equal. clear IH Hwt Hot.
  induction f as [|rg f IHf]; [reflexivity|].
  cbn [forallb] in Hwf, Hof. apply andb_true_iff in Hwf as [Hw1 Hw2]. apply andb_true_iff in Hof as [Ho1 Ho2].
  cbn [flat_map map]. rewrite col_chunks_app, vals_of_app, app_length, Nat2Z.inj_add, zsum_cons, (IHf Hw2 Ho2).
  now rewrite (count_vals_rg k rg Hw1 Ho1).
Qed.

Theorem null_count_exact_when_some d t r cols k c n :
  table_wf t = true -> statistics d t = Stats r cols -> In (k, c) cols ->
  c_nulls c = Some n -> n = count_nulls (col_vals t k).
Proof.
  intros Hw Hs Hin Hn. destruct (output_col _ _ _ _ _ _ Hs Hin) as (_ & C & _). cbv zeta in C.
  rewrite C in Hn.
  destruct (nulls_fold _ _ _ (Forall_col_chunks _ k _ (table_wf_chunks t Hw)) Hn) as (n0 & E0 & E).
  cbn in E0. inversion E0; subst n0. unfold col_vals. lia.
Qed.

(* reported integer min/max bound every integer value of the column: no exclusion any more *)
Theorem minmax_bounds d t r cols k c :
  table_wf t = true -> statistics d t = Stats r cols -> In (k, c) cols ->
  (forall lo, c_min c = Some lo -> forall v, In v (col_ints t k) -> lo <= v) /\
  (forall hi, c_max c = Some hi -> forall v, In v (col_ints t k) -> v <= hi).
Proof.
  intros Hw Hs Hin. destruct (output_col _ _ _ _ _ _ Hs Hin) as (_ & _ & A & B). cbv zeta in A, B.
  pose proof (Forall_col_chunks _ k _ (table_wf_chunks t Hw)) as Hf.
  split.
  - intros lo Hlo v Hv. destruct (A lo Hlo) as [U E]. destruct (unknown_fold _ _ U) as [_ Hns].
    destruct (min_fold _ _ _ Hf Hns E) as [Hb _]. now apply Hb.
  - intros hi Hhi v Hv. destruct (B hi Hhi) as [U E]. destruct (unknown_fold _ _ U) as [_ Hns].
    destruct (max_fold _ _ _ Hf Hns E) as [Hb _]. now apply Hb.
Qed.

(* ndv_est range term: exact (saturating only at the full i64 range), never zero, never a panic *)
Theorem ndv_range_exact lo hi :
  - two63 <= lo -> lo <= hi -> hi < two63 ->
  ndv_range lo hi = Z.min (hi - lo + 1) (two64 - 1) /\ 1 <= ndv_range lo hi <= two64 - 1.
Proof.
  intros H1 H2 H3. unfold ndv_range.
  assert (two63 = 9223372036854775808) as E3 by reflexivity.
  assert (two64 = 18446744073709551616) as E4 by reflexivity. lia.
Qed.

(* the repaired fold meets the executable specification on EVERY well-formed table *)
Theorem model_meets_spec d t : table_wf t = true -> stats_ok t (statistics d t) = true.
Proof.
  intros Hw. destruct (statistics_total d t) as (r & cols & Hs). rewrite Hs. cbn [stats_ok].
  apply andb_true_iff. split; [apply Z.eqb_eq; eapply row_count_exact; eauto|].
  apply forallb_forall. intros [k c] Hin. unfold col_ok.
  pose proof (minmax_bounds d t _ cols k c Hw Hs Hin) as [Hmin Hmax].
  rewrite !andb_true_iff. repeat split.
  - destruct (c_nulls c) as [n|] eqn:En; [|reflexivity]. apply Z.eqb_eq.
    eapply null_count_exact_when_some; eauto.
  - destruct (c_min c) as [lo|]; [|reflexivity]. apply forallb_forall. intros v Hv. apply Z.leb_le. eauto.
  - destruct (c_max c) as [hi|]; [|reflexivity]. apply forallb_forall. intros v Hv. apply Z.leb_le. eauto.
Qed.

(* ---------- regression: the two defects of the fold before the repairs, and the same inputs after ---------- *)
Definition nodict : Z -> option Z := fun _ => None.

(* file 1 (statistics on) holds 1, file 2 (statistics off) holds 100 *)
Definition t_statsless : table :=
  [ [mkRG 1 [mkChunk 0 true 1 (Some (mkCS (Some 0) (Some (1, 1)))) [Some 1]]];
    [mkRG 1 [mkChunk 0 true 1 None [Some 100]]] ].

Theorem chunk_without_stats_refuted_before_fix :
  table_wf t_statsless = true /\ known_statsless_mix t_statsless = true /\
  (forall m, exists r c, statistics_before_fix m nodict t_statsless = Stats r [(0, c)] /\ c_nulls c = None /\
     exists hi v, c_max c = Some hi /\ In v (col_ints t_statsless 0) /\ hi < v) /\
  statistics nodict t_statsless = Stats 2 [(0, mkCol None None None None)].
Proof.
  repeat split; try (vm_compute; reflexivity).
  intros m. exists 2, (mkCol (Some 1) (Some 1) None (Some 1)). split; [destruct m; vm_compute; reflexivity|].
  split; [reflexivity|]. exists 1, 100. split; [reflexivity|]. split; [vm_compute; tauto | lia].
Qed.

(* a column spanning more than 2^63, and the full i64 range *)
Definition t_wide : table :=
  [ [mkRG 2 [mkChunk 0 true 2 (Some (mkCS (Some 0) (Some (-1, two63 - 1)))) [Some (-1); Some (two63 - 1)]]] ].
Definition t_full : table :=
  [ [mkRG 2 [mkChunk 0 true 2 (Some (mkCS (Some 0) (Some (- two63, two63 - 1)))) [Some (- two63); Some (two63 - 1)]]] ].

Theorem ndv_overflow_refuted_before_fix :
  table_wf t_wide = true /\ table_wf t_full = true /\
  statistics_before_fix Checked nodict t_wide = Panic /\
  statistics_before_fix Wrapping nodict t_full
    = Stats 2 [(0, mkCol (Some (- two63)) (Some (two63 - 1)) (Some 0) (Some 0))] /\
  statistics nodict t_wide = Stats 2 [(0, mkCol (Some (-1)) (Some (two63 - 1)) (Some 0) (Some 2))] /\
  statistics nodict t_full = Stats 2 [(0, mkCol (Some (- two63)) (Some (two63 - 1)) (Some 0) (Some 2))].
Proof. repeat split; vm_compute; reflexivity. Qed.

(* ---------- still false: the estimate cannot carry a decision ---------- *)
(* "null_count == Some(0) && ndv_est >= row_count" does not make a key unique: ndv_est is an upper bound *)
Definition t_dup : table :=
  [ [mkRG 3 [mkChunk 0 true 3 (Some (mkCS (Some 0) (Some (1, 3)))) [Some 1; Some 1; Some 3]]] ].

Theorem unique_key_inference_refuted :
  exists t r c, table_wf t = true /\ statistics nodict t = Stats r [(0, c)] /\
    is_unique_key r c = true /\ ~ NoDup (col_ints t 0).
Proof.
  exists t_dup, 3, (mkCol (Some 1) (Some 3) (Some 0) (Some 3)).
  repeat split; try (vm_compute; reflexivity).
  vm_compute. intros H. inversion H as [|? ? Hn _]. apply Hn. now left.
Qed.

Lemma has_dup_not_nodup l : has_dup l = true -> ~ NoDup l.
Proof.
  induction l as [|x r IH]; cbn [has_dup]; [discriminate|]. intros H N. inversion N as [|? ? Hn Hr]; subst.
  apply orb_true_iff in H as [H|H].
  - apply existsb_exists in H as (y & Hy & E). apply Z.eqb_eq in E. subst. contradiction.
  - now apply IH.
Qed.

(* non-vacuity: NULLs, an all-NULL chunk without min/max (does not poison), a statistics-less string column,
   and a second column whose statistics-less chunk does poison the bounds *)
Definition t_example : table :=
  [ [mkRG 2 [mkChunk 0 true 2 (Some (mkCS (Some 1) (Some (5, 5)))) [Some 5; None];
             mkChunk 1 false 2 None [Some 0; Some 0];
             mkChunk 2 true 2 (Some (mkCS (Some 0) (Some (3, 4)))) [Some 3; Some 4]];
     mkRG 1 [mkChunk 0 true 1 (Some (mkCS (Some 1) None)) [None];
             mkChunk 1 false 1 None [None];
             mkChunk 2 true 1 None [Some 77]]];
    [mkRG 2 [mkChunk 0 true 2 (Some (mkCS (Some 0) (Some (-7, 9)))) [Some 9; Some (-7)];
             mkChunk 1 false 2 (Some (mkCS (Some 0) None)) [Some 0; Some 0];
             mkChunk 2 true 2 (Some (mkCS (Some 0) (Some (1, 2)))) [Some 1; Some 2]]] ].

Example model_meets_spec_nontrivial :
  table_wf t_example = true /\
  statistics nodict t_example =
    Stats 5 [(0, mkCol (Some (-7)) (Some 9) (Some 2) (Some 3)); (1, mkCol None None None None);
             (2, mkCol None None None None)].
Proof. split; vm_compute; reflexivity. Qed.
