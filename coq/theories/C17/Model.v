(* C17 model: storage::iceberg::open_table and what it calls, transcribed over an abstract table
   directory; the history-level abstract spec; the replay that builds the concrete directory.
   anchors: src/storage/iceberg.rs: open_table, latest_metadata_file, data_files_of, resolve_uri;
            src/storage/parquet.rs: ParquetTable::try_from_files (existence check only);
            src/execution/context.rs: register_iceberg (= open_table + register provider). *)
From Coq Require Import String Ascii.
From Coq Require DecimalString DecimalNat Decimal.
From QV Require Export Base.Util.   (* after String: List's length/concat/rev win *)

Definition bytes := list Z.
(* Coq string literal -> bytes (used for constants and by the check's rendering) *)
Definition bs (s : string) : bytes := map (fun a => Z.of_N (N_of_ascii a)) (list_ascii_of_string s).
Definition bytes_eqb : bytes -> bytes -> bool := list_eqb Z.eqb.
Definition cmp_le (c : comparison) : bool := match c with Gt => false | _ => true end.

Inductive err := EStorage | ENotImpl | EIo.
Inductive res (A : Type) := Ok (a : A) | Err (e : err).
Arguments Ok {A} a. Arguments Err {A} e.

(* ------------------------------------------------------------------ *)
(* byte-string helpers (str::strip_prefix, contains, ends_with, trim...) *)
Fixpoint strip_prefix (p s : bytes) : option bytes :=
  match p with
  | [] => Some s
  | x :: p' => match s with y :: s' => if x =? y then strip_prefix p' s' else None | [] => None end
  end.
Definition starts_with (p s : bytes) : bool := match strip_prefix p s with Some _ => true | None => false end.
Fixpoint contains (p s : bytes) : bool :=
  starts_with p s || match s with [] => false | _ :: s' => contains p s' end.
Definition ends_with (p s : bytes) : bool := starts_with (rev p) (rev s).
Definition slash : Z := 47.
(* rest.trim_start_matches("//") : strips the two-byte pattern repeatedly *)
Fixpoint trim_dslash (s : bytes) : bytes :=
  match s with
  | a :: t => match t with
              | b :: r => if (a =? slash) && (b =? slash) then trim_dslash r else s
              | [] => s
              end
  | [] => s
  end.
(* char::is_whitespace restricted to ASCII (version-hint.text is assumed ASCII) *)
Definition is_ws (c : Z) : bool := (c =? 32) || ((9 <=? c) && (c <=? 13)).
Fixpoint trim_start (s : bytes) : bytes := match s with c :: r => if is_ws c then trim_start r else s | [] => [] end.
Definition trim (s : bytes) : bytes := rev (trim_start (rev (trim_start s))).
(* trim_start_matches('v') *)
Fixpoint trim_v (s : bytes) : bytes := match s with c :: r => if c =? 118 then trim_v r else s | [] => [] end.
Definition lower (c : Z) : Z := if (65 <=? c) && (c <=? 90) then c + 32 else c.
Definition eq_ignore_case (a b : bytes) : bool := bytes_eqb (map lower a) (map lower b).

(* ------------------------------------------------------------------ *)
(* std::path: components, Ord, PartialEq, join.  Domain: absolute paths without `..` and
   without symlinks; the leading RootDir component is common to all and left implicit. *)
Fixpoint split_slash (s : bytes) : list bytes :=
  match s with
  | [] => [[]]
  | c :: r => if c =? slash then [] :: split_slash r
              else match split_slash r with h :: t => (c :: h) :: t | [] => [[c]] end
  end.
Definition comp_keep (c : bytes) : bool := negb (bytes_eqb c [] || bytes_eqb c [46]).
Definition components (p : bytes) : list bytes := filter comp_keep (split_slash p).
Fixpoint comps_cmp (a b : list bytes) : comparison :=
  match a, b with
  | [], [] => Eq
  | [], _ => Lt
  | _, [] => Gt
  | x :: a', y :: b' => cmp_then (bytes_cmp x y) (comps_cmp a' b')
  end.
Definition path_cmp (a b : bytes) : comparison := comps_cmp (components a) (components b).
Definition path_le (a b : bytes) : bool := cmp_le (path_cmp a b).
Definition path_eqb (a b : bytes) : bool := match path_cmp a b with Eq => true | _ => false end.
Definition is_abs (p : bytes) : bool := match p with c :: _ => c =? slash | [] => false end.
(* PathBuf::join / push *)
Definition path_join (dir p : bytes) : bytes :=
  if is_abs p then p
  else match rev dir with
       | [] => p
       | c :: _ => if c =? slash then dir ++ p else dir ++ slash :: p
       end.

(* fn resolve_uri(uri, table_dir) *)
Definition resolve_uri (uri dir : bytes) : res bytes :=
  match strip_prefix (bs "file:") uri with
  | Some rest => let p := trim_dslash rest in Ok (if is_abs p then p else slash :: p)
  | None => if contains (bs "://") uri then Err ENotImpl
            else if is_abs uri then Ok uri else Ok (path_join dir uri)
  end.

(* Vec::dedup: drop an element equal to the last KEPT one *)
Section Dedup.
  Context {A : Type} (eqb : A -> A -> bool).
  Fixpoint dedup_go (prev : A) (l : list A) : list A :=
    match l with [] => [] | y :: t => if eqb prev y then dedup_go prev t else y :: dedup_go y t end.
  Definition dedup (l : list A) : list A := match l with [] => [] | x :: t => x :: dedup_go x t end.
End Dedup.

(* ------------------------------------------------------------------ *)
(* the table directory *)
Record entry := mkEntry {
  e_status : Z;            (* 0 EXISTING, 1 ADDED, 2 DELETED (i32) *)
  e_content : option Z;    (* data_file.content; None = field absent (v1 manifests) -> unwrap_or(0) *)
  e_format : bytes;        (* data_file.file_format *)
  e_path : bytes           (* data_file.file_path, a URI *)
}.
Record snapshot := mkSnap { s_id : Z; s_ts : Z; s_ml : bytes }.
Record metadata := mkMd { md_fv : Z; md_lu : Z; md_cur : option Z; md_snaps : list snapshot }.
Record table := mkTable {
  t_dir : bytes;                                (* directory as passed to open_table *)
  t_hint : option bytes;                        (* metadata/version-hint.text content *)
  t_meta : list (bytes * option metadata);      (* metadata/<name> -> parsed body (None: not JSON) *)
  t_lists : list (bytes * list bytes);          (* manifest-list file (absolute path) -> manifest_path URIs *)
  t_mans : list (bytes * list entry);           (* manifest file (absolute path) -> entries *)
  t_data : list (bytes * list Z)                (* existing Parquet data file (absolute path) -> its ids *)
}.
(* the file system resolves a path by its components *)
Definition fs_lookup {A} (p : bytes) (store : list (bytes * A)) : option A :=
  match find (fun kv => path_eqb p (fst kv)) store with Some kv => Some (snd kv) | None => None end.

(* fn latest_metadata_file *)
Definition md_suffix : bytes := bs ".metadata.json".
Definition hint_candidate (h : bytes) : bytes := bs "v" ++ trim_v (trim h) ++ md_suffix.
Definition name_lookup {A} (n : bytes) (l : list (bytes * A)) : option (bytes * A) :=
  find (fun kv => bytes_eqb n (fst kv)) l.
(* the tuple comparison (meta.last_updated_ms, path) > (t, p) *)
Definition key_gt (a b : Z * bytes) : bool :=
  match fst a ?= fst b with Gt => true | Lt => false
  | Eq => match bytes_cmp (snd a) (snd b) with Gt => true | _ => false end end.
Fixpoint scan_meta (files : list (bytes * option metadata)) (best : option (Z * bytes)) : res (option (Z * bytes)) :=
  match files with
  | [] => Ok best
  | (name, body) :: r =>
      if negb (ends_with md_suffix name) then scan_meta r best
      else match body with
           | None => Err EStorage
           | Some md =>
               let key := (md_lu md, name) in
               scan_meta r (match best with
                            | None => Some key
                            | Some b => if key_gt key b then Some key else best
                            end)
           end
  end.
Definition latest_metadata (t : table) : res bytes :=
  match t_hint t with
  | Some h => let c := hint_candidate h in
              match name_lookup c (t_meta t) with Some _ => Ok c | None => Err EStorage end
  | None => match scan_meta (t_meta t) None with
            | Err e => Err e
            | Ok None => Err EStorage
            | Ok (Some (_, p)) => Ok p
            end
  end.

(* fn data_files_of: per manifest entry *)
Definition content_or0 (e : entry) : Z := match e_content e with Some c => c | None => 0 end.
Fixpoint entries_files (dir : bytes) (es : list entry) : res (list bytes) :=
  match es with
  | [] => Ok []
  | e :: r =>
      if e_status e =? 2 then entries_files dir r
      else if negb (content_or0 e =? 0) then Err ENotImpl
      else if negb (eq_ignore_case (e_format e) (bs "parquet")) then Err ENotImpl
      else match resolve_uri (e_path e) dir with
           | Err x => Err x
           | Ok p => match entries_files dir r with Err x => Err x | Ok l => Ok (p :: l) end
           end
  end.
Fixpoint manifests_files (t : table) (ms : list bytes) : res (list bytes) :=
  match ms with
  | [] => Ok []
  | uri :: r =>
      match resolve_uri uri (t_dir t) with
      | Err x => Err x
      | Ok mp =>
          match fs_lookup mp (t_mans t) with
          | None => Err EStorage
          | Some es =>
              match entries_files (t_dir t) es with
              | Err x => Err x
              | Ok l1 => match manifests_files t r with Err x => Err x | Ok l2 => Ok (l1 ++ l2) end
              end
          end
      end
  end.
Definition canon_files (l : list bytes) : list bytes := dedup path_eqb (isort path_le l).
Definition data_files_of (t : table) (ml : bytes) : res (list bytes) :=
  match fs_lookup ml (t_lists t) with
  | None => Err EStorage
  | Some ms => match manifests_files t ms with Err x => Err x | Ok l => Ok (canon_files l) end
  end.

Definition find_snap (id : Z) (l : list snapshot) : option snapshot := find (fun s => s_id s =? id) l.
Definition file_exists (t : table) (p : bytes) : bool :=
  match fs_lookup p (t_data t) with Some _ => true | None => false end.

Record opened := mkOpened { o_md : bytes; o_sid : Z; o_files : list bytes }.

(* pub fn open_table(dir, snapshot_id) followed by ParquetTable::try_from_files *)
Definition open_table (t : table) (q : option Z) : res opened :=
  match latest_metadata t with
  | Err e => Err e
  | Ok name =>
    match name_lookup name (t_meta t) with
    | None | Some (_, None) => Err EStorage
    | Some (_, Some md) =>
      if negb ((md_fv md =? 1) || (md_fv md =? 2)) then Err EStorage else
      let snaps := isort (fun a b => s_ts a <=? s_ts b) (md_snaps md) in
      let chosen := match q with
                    | Some id => find_snap id snaps
                    | None => match md_cur md with Some c => find_snap c snaps | None => None end
                    end in
      match chosen with
      | None => Err EStorage
      | Some s =>
        match resolve_uri (s_ml s) (t_dir t) with
        | Err e => Err e
        | Ok ml =>
          match data_files_of t ml with
          | Err e => Err e
          | Ok files =>
            match files with
            | [] => Err EStorage
            | _ => if forallb (file_exists t) files then Ok (mkOpened name (s_id s) files) else Err EIo
            end
          end
        end
      end
    end
  end.

(* rows a scan of the opened ParquetTable yields (as a multiset: sorted) *)
Definition zsort : list Z -> list Z := isort Z.leb.
Definition rows_of (t : table) (files : list bytes) : list Z :=
  concat (map (fun f => match fs_lookup f (t_data t) with Some r => r | None => [] end) files).

(* ------------------------------------------------------------------ *)
(* what the harness observed *)
Inductive impl_out :=
| IOk (md : bytes) (sid : Z) (files : list bytes) (rows : list Z)   (* rows sorted *)
| IErr (class : Z).                                                   (* 0 Storage 1 NotImplemented 2 Io 3 other *)
Definition err_class (e : err) : Z := match e with EStorage => 0 | ENotImpl => 1 | EIo => 2 end.
Definition out_eqb (t : table) (i : impl_out) (m : res opened) : bool :=
  match i, m with
  | IOk md sid files rows, Ok o =>
      bytes_eqb md (o_md o) && (sid =? o_sid o) && list_eqb bytes_eqb files (o_files o)
      && list_eqb Z.eqb rows (zsort (rows_of t (o_files o)))
  | IErr c, Err e => c =? err_class e
  | _, _ => false
  end.

(* the model's answer in the shape of an observation *)
Definition impl_of (t : table) (r : res opened) : impl_out :=
  match r with
  | Ok o => IOk (o_md o) (o_sid o) (o_files o) (zsort (rows_of t (o_files o)))
  | Err e => IErr (err_class e)
  end.

(* ------------------------------------------------------------------ *)
(* Declarative spec on an arbitrary directory (order-free, existential): which snapshot is meant,
   which entries are live, when the reader must refuse. *)
Definition mem_path (p : bytes) (l : list bytes) : bool := existsb (path_eqb p) l.
Definition mem_bytes (p : bytes) (l : list bytes) : bool := existsb (bytes_eqb p) l.
Definition is_remote (uri : bytes) : bool :=
  match strip_prefix (bs "file:") uri with Some _ => false | None => contains (bs "://") uri end.
Definition live_entry (e : entry) : bool := negb (e_status e =? 2).
Definition bad_entry (e : entry) : bool :=
  live_entry e && (negb (content_or0 e =? 0) || negb (eq_ignore_case (e_format e) (bs "parquet")) || is_remote (e_path e)).
Definition ok_path (dir : bytes) (uri : bytes) : bytes := match resolve_uri uri dir with Ok p => p | Err _ => [] end.
(* the current metadata: the hinted one, else one that no other beats on (last-updated-ms, name) *)
Definition md_files (t : table) := filter (fun kv => ends_with md_suffix (fst kv)) (t_meta t).
Definition spec_current (t : table) : option (bytes * option metadata) :=
  match t_hint t with
  | Some h => name_lookup (hint_candidate h) (t_meta t)
  | None =>
      find (fun kv => match snd kv with
                           | None => false
                           | Some md => forallb (fun kv' => match snd kv' with
                                                            | None => true
                                                            | Some md' => negb (key_gt (md_lu md', fst kv') (md_lu md, fst kv))
                                                            end) (md_files t)
                           end) (md_files t)
  end.
Record spec_view := mkView { v_md : bytes; v_sid : Z; v_live : list bytes; v_refuse : bool }.
Definition spec_view_of (t : table) (q : option Z) : option spec_view :=
  match spec_current t with
  | Some (name, Some md) =>
      if negb ((md_fv md =? 1) || (md_fv md =? 2)) then None else
      let want := match q with Some i => Some i | None => md_cur md end in
      match want with
      | None => None
      | Some id =>
          (* earliest timestamp among the listed snapshots carrying that id *)
          match find_snap id (isort (fun a b => s_ts a <=? s_ts b) (md_snaps md)) with
          | None => None
          | Some s =>
              if is_remote (s_ml s) then Some (mkView name id [] true) else
              match fs_lookup (ok_path (t_dir t) (s_ml s)) (t_lists t) with
              | None => Some (mkView name id [] true)
              | Some ms =>
                  let mans := map (fun u => if is_remote u then None else fs_lookup (ok_path (t_dir t) u) (t_mans t)) ms in
                  let es := concat (map (fun o => match o with Some l => l | None => [] end) mans) in
                  let live := map (fun e => ok_path (t_dir t) (e_path e)) (filter live_entry es) in
                  Some (mkView name id live
                          (existsb (fun o => match o with None => true | Some _ => false end) mans
                           || existsb bad_entry es
                           || match live with [] => true | _ => false end
                           || negb (forallb (file_exists t) live)))
              end
          end
      end
  | _ => None
  end.
Fixpoint nodup_paths (l : list bytes) : bool :=
  match l with [] => true | x :: r => negb (mem_path x r) && nodup_paths r end.
Definition same_file_set (a b : list bytes) : bool :=
  forallb (fun f => mem_path f b) a && forallb (fun f => mem_path f a) b && nodup_paths a.
Definition is_err (i : impl_out) : bool := match i with IErr _ => true | _ => false end.
(* without a hint every *.metadata.json is a candidate; an unreadable one MAY be refused or ignored *)
Definition free_refusal (t : table) : bool :=
  match t_hint t with
  | Some _ => false
  | None => existsb (fun kv => match snd kv with None => true | Some _ => false end) (md_files t)
  end.
(* refused when the property says so; otherwise exactly the live files, each once, and their rows *)
Definition spec_ok (t : table) (q : option Z) (i : impl_out) : bool :=
  (free_refusal t && is_err i) ||
  match spec_view_of t q, i with
  | None, IErr _ => true
  | None, IOk _ _ _ _ => false
  | Some v, IErr _ => v_refuse v
  | Some v, IOk md sid files rows =>
      negb (v_refuse v) && bytes_eqb md (v_md v) && (sid =? v_sid v)
      && same_file_set files (v_live v)
      && list_eqb Z.eqb rows (zsort (rows_of t files))
  end.

(* ------------------------------------------------------------------ *)
(* Histories, the abstract (set-level) semantics, and the replay that writes the directory. *)
Inductive form := FFile3 | FFile1 | FAbs | FRel.        (* file:///p  file:/p  /p  relative *)
Inductive op :=
| Append (dt : Z) (f : form) (names : list bytes)        (* new snapshot: one manifest of ADDED entries *)
| Remove (dt : Z) (f : form) (names : list bytes)        (* new snapshot: touched manifests rewritten EXISTING/DELETED *)
| RewriteManifests (dt : Z) (f : form)                   (* new snapshot: one manifest, all live entries EXISTING *)
| RewriteMeta (dt : Z)                                   (* new metadata file, nothing else changes *)
| SetCurrent (dt : Z) (sid : Z)                          (* rollback: new metadata file, current := sid if listed *)
| Expire (dt : Z) (sid : Z).                             (* new metadata file without snapshot sid (not the current) *)
Definition history := list op.

(* ---- abstract semantics: snapshots are sets of data-file names ---- *)
Record astate := mkA { a_snaps : list (Z * list bytes); a_cur : option Z; a_next : nat }.
Definition a_init : astate := mkA [] None 1.
Definition a_lookup (id : Z) (l : list (Z * list bytes)) : option (list bytes) :=
  match find (fun kv => fst kv =? id) l with Some kv => Some (snd kv) | None => None end.
Definition a_alive (a : astate) : list bytes :=
  match a_cur a with Some c => match a_lookup c (a_snaps a) with Some l => l | None => [] end | None => [] end.
Definition a_commit (a : astate) (l : list bytes) : astate :=
  mkA (a_snaps a ++ [(Z.of_nat (a_next a), l)]) (Some (Z.of_nat (a_next a))) (S (a_next a)).
Definition a_step (a : astate) (o : op) : astate :=
  match o with
  | Append _ _ names => a_commit a (a_alive a ++ names)
  | Remove _ _ names => a_commit a (filter (fun n => negb (mem_bytes n names)) (a_alive a))
  | RewriteManifests _ _ => a_commit a (a_alive a)
  | RewriteMeta _ => a
  | SetCurrent _ sid => match a_lookup sid (a_snaps a) with Some _ => mkA (a_snaps a) (Some sid) (a_next a) | None => a end
  | Expire _ sid =>
      if match a_cur a with Some c => c =? sid | None => false end then a
      else mkA (filter (fun kv => negb (fst kv =? sid)) (a_snaps a)) (a_cur a) (a_next a)
  end.
Definition abstract (h : history) : astate := fold_left a_step h a_init.
(* live h sid: the set of files of listed snapshot sid *)
Definition live (h : history) (sid : Z) : option (list bytes) := a_lookup sid (a_snaps (abstract h)).
Definition current (h : history) : option Z := a_cur (abstract h).
(* a set of names as the sorted duplicate-free list *)
Definition bytes_le (a b : bytes) : bool := cmp_le (bytes_cmp a b).
Definition usort (l : list bytes) : list bytes := dedup bytes_eqb (isort bytes_le l).

(* ---- the writer: logical state, then rendering to a directory ---- *)
Record lman := mkLman { lm_id : nat; lm_form : form; lm_entries : list (Z * bytes) }.   (* (status, name) *)
Record lsnap := mkLsnap { ls_id : nat; ls_ts : Z; ls_form : form; ls_mans : list nat }.
Record lmeta := mkLmeta { lv : nat; l_lu : Z; l_cur : option nat; l_snaps : list lsnap }.
Record lstate := mkL {
  st_metas : list lmeta;      (* every metadata file written, newest first *)
  st_snaps : list lsnap;      (* every snapshot (manifest list) ever written, newest first *)
  st_mans : list lman;        (* every manifest ever written, newest first *)
  st_files : list bytes;      (* every data file ever written *)
  st_clock : Z; st_next_sid : nat; st_next_man : nat
}.
Definition l_init : lstate := mkL [mkLmeta 1 0 None []] [] [] [] 0 1 0.
Definition dmeta : lmeta := mkLmeta 0 0 None [].
Definition cur_meta (s : lstate) : lmeta := hd dmeta (st_metas s).
Definition find_lsnap (id : nat) (l : list lsnap) : option lsnap := find (fun x => Nat.eqb (ls_id x) id) l.
Definition find_lman (id : nat) (l : list lman) : option lman := find (fun x => Nat.eqb (lm_id x) id) l.
Definition cur_mans (s : lstate) : list nat :=
  match l_cur (cur_meta s) with
  | Some c => match find_lsnap c (l_snaps (cur_meta s)) with Some x => ls_mans x | None => [] end
  | None => []
  end.
Definition live_of_entries (es : list (Z * bytes)) : list bytes :=
  map snd (filter (fun e => negb (fst e =? 2)) es).
Definition man_live (s : list lman) (id : nat) : list bytes :=
  match find_lman id s with Some m => live_of_entries (lm_entries m) | None => [] end.
Definition live_names (s : list lman) (ids : list nat) : list bytes := concat (map (man_live s) ids).

Definition push_meta (s : lstate) (dt : Z) (cur : option nat) (snaps : list lsnap) : lstate :=
  mkL (mkLmeta (S (lv (cur_meta s))) (st_clock s + dt) cur snaps :: st_metas s)
      (st_snaps s) (st_mans s) (st_files s) (st_clock s + dt) (st_next_sid s) (st_next_man s).
Definition commit (s : lstate) (dt : Z) (f : form) (mans : list nat) (newmans : list lman) (files : list bytes) : lstate :=
  let snap := mkLsnap (st_next_sid s) (st_clock s + dt) f mans in
  mkL (mkLmeta (S (lv (cur_meta s))) (st_clock s + dt) (Some (st_next_sid s)) (l_snaps (cur_meta s) ++ [snap]) :: st_metas s)
      (snap :: st_snaps s) (newmans ++ st_mans s) (files ++ st_files s)
      (st_clock s + dt) (S (st_next_sid s)) (st_next_man s + length newmans).
Definition touches (names : list bytes) (es : list (Z * bytes)) : bool :=
  existsb (fun n => mem_bytes n names) (live_of_entries es).
Definition rewrite_entries (names : list bytes) (es : list (Z * bytes)) : list (Z * bytes) :=
  map (fun e => (if mem_bytes (snd e) names then 2 else 0, snd e)) (filter (fun e => negb (fst e =? 2)) es).
Fixpoint rewrite_mans (all : list lman) (names : list bytes) (f : form) (next : nat) (ids : list nat)
  : list nat * list lman :=
  match ids with
  | [] => ([], [])
  | i :: r =>
      match find_lman i all with
      | Some m =>
          if touches names (lm_entries m) then
            let '(ids', new) := rewrite_mans all names f (S next) r in
            (next :: ids', new ++ [mkLman next f (rewrite_entries names (lm_entries m))])
          else let '(ids', new) := rewrite_mans all names f next r in (i :: ids', new)
      | None => let '(ids', new) := rewrite_mans all names f next r in (i :: ids', new)
      end
  end.
Definition l_step (s : lstate) (o : op) : lstate :=
  match o with
  | Append dt f names =>
      commit s dt f (cur_mans s ++ [st_next_man s]) [mkLman (st_next_man s) f (map (fun n => (1, n)) names)] names
  | Remove dt f names =>
      let '(ids, new) := rewrite_mans (st_mans s) names f (st_next_man s) (cur_mans s) in
      commit s dt f ids new []
  | RewriteManifests dt f =>
      commit s dt f [st_next_man s]
             [mkLman (st_next_man s) f (map (fun n => (0, n)) (live_names (st_mans s) (cur_mans s)))] []
  | RewriteMeta dt => push_meta s dt (l_cur (cur_meta s)) (l_snaps (cur_meta s))
  | SetCurrent dt sid =>
      push_meta s dt
        (if existsb (fun x => Z.of_nat (ls_id x) =? sid) (l_snaps (cur_meta s)) then Some (Z.to_nat sid) else l_cur (cur_meta s))
        (l_snaps (cur_meta s))
  | Expire dt sid =>
      push_meta s dt (l_cur (cur_meta s))
        (if match l_cur (cur_meta s) with Some c => Z.of_nat c =? sid | None => false end then l_snaps (cur_meta s)
         else filter (fun x => negb (Z.of_nat (ls_id x) =? sid)) (l_snaps (cur_meta s)))
  end.
Definition replay (h : history) : lstate := fold_left l_step h l_init.

(* ---- rendering: file names and URIs the writer uses ---- *)
Definition decb (n : nat) : bytes := bs (DecimalString.NilEmpty.string_of_uint (Nat.to_uint n)).
Definition md_name (n : nat) : bytes := bs "v" ++ decb n ++ md_suffix.
Definition list_rel (k : nat) : bytes := bs "metadata/snap-" ++ decb k ++ bs ".avro".
Definition man_rel (k : nat) : bytes := bs "metadata/m" ++ decb k ++ bs ".avro".
Definition data_rel (n : bytes) : bytes := bs "data/" ++ n.
Definition absp (dir rel : bytes) : bytes := dir ++ slash :: rel.
Definition uri_of (f : form) (dir rel : bytes) : bytes :=
  match f with
  | FFile3 => bs "file://" ++ absp dir rel
  | FFile1 => bs "file:" ++ absp dir rel
  | FAbs => absp dir rel
  | FRel => rel
  end.
(* ids stored in a data file: recognisable from its name *)
Definition name_hash (n : bytes) : Z := fold_left (fun a c => (a * 31 + c) mod 1000003) n 7.
Definition name_rows (n : bytes) : list Z :=
  let h := name_hash n * 4 in if Z.even (Z.of_nat (length n)) then [h; h + 1] else [h].

Definition render_snap (dir : bytes) (x : lsnap) : snapshot :=
  mkSnap (Z.of_nat (ls_id x)) (ls_ts x) (uri_of (ls_form x) dir (list_rel (ls_id x))).
Definition render_meta (dir : bytes) (m : lmeta) : bytes * option metadata :=
  (md_name (lv m), Some (mkMd 2 (l_lu m) (option_map Z.of_nat (l_cur m)) (map (render_snap dir) (l_snaps m)))).
Definition render_list (dir : bytes) (x : lsnap) : bytes * list bytes :=
  (absp dir (list_rel (ls_id x)), map (fun i => uri_of (ls_form x) dir (man_rel i)) (ls_mans x)).
Definition render_entry (f : form) (dir : bytes) (e : Z * bytes) : entry :=
  mkEntry (fst e) (Some 0) (bs "PARQUET") (uri_of f dir (data_rel (snd e))).
Definition render_man (dir : bytes) (m : lman) : bytes * list entry :=
  (absp dir (man_rel (lm_id m)), map (render_entry (lm_form m) dir) (lm_entries m)).
Definition render (dir : bytes) (use_hint : bool) (s : lstate) : table :=
  mkTable dir
          (if use_hint then Some (decb (lv (cur_meta s))) else None)
          (map (render_meta dir) (st_metas s))
          (map (render_list dir) (st_snaps s))
          (map (render_man dir) (st_mans s))
          (map (fun n => (absp dir (data_rel n), name_rows n)) (st_files s)).
Definition replay_table (dir : bytes) (use_hint : bool) (h : history) : table := render dir use_hint (replay h).

(* ---- what the property demands of a read of a replayed history ---- *)
Inductive spec_res := SRefuse | SFiles (sid : Z) (names : list bytes).
Definition spec_open (a : astate) (q : option Z) : spec_res :=
  match (match q with Some i => Some i | None => a_cur a end) with
  | None => SRefuse
  | Some id => match a_lookup id (a_snaps a) with
               | None => SRefuse
               | Some l => match l with [] => SRefuse | _ => SFiles id (usort l) end
               end
  end.
Definition spec_ok_hist (dir : bytes) (h : history) (q : option Z) (i : impl_out) : bool :=
  match spec_open (abstract h) q, i with
  | SRefuse, IErr _ => true
  | SFiles sid names, IOk md s files rows =>
      (s =? sid) && same_file_set files (map (fun n => absp dir (data_rel n)) names)
      && list_eqb Z.eqb rows (zsort (concat (map name_rows names)))
  | _, _ => false
  end.

(* ---- well-formed histories / directories (hypotheses of the theorems, checked on every generated case) ---- *)
Definition no_byte (c : Z) (s : bytes) : bool := forallb (fun x => negb (x =? c)) s.
Definition good_name (n : bytes) : bool :=
  no_byte slash n && no_byte 58 n && negb (bytes_eqb n []) && negb (bytes_eqb n [46]).
Definition good_dir (d : bytes) : bool :=
  match d with
  | a :: b :: _ => (a =? slash) && negb (b =? slash) && no_byte 58 d
                   && match rev d with c :: _ => negb (c =? slash) | [] => false end
  | _ => false
  end.
Definition op_names_ok (o : op) : bool :=
  match o with Append _ _ names => forallb good_name names | _ => true end.
Definition op_dt (o : op) : Z :=
  match o with Append dt _ _ | Remove dt _ _ | RewriteManifests dt _ | RewriteMeta dt | SetCurrent dt _ | Expire dt _ => dt end.
Definition wf_history (h : history) : bool := forallb op_names_ok h.
Definition strict_clock (h : history) : bool := forallb (fun o => 0 <? op_dt o) h.

(* ---- structural equality of directories (the check's generator must build exactly replay_table) ---- *)
Definition opt_eqb {A} (eqb : A -> A -> bool) (a b : option A) : bool :=
  match a, b with Some x, Some y => eqb x y | None, None => true | _, _ => false end.
Definition entry_eqb (a b : entry) : bool :=
  (e_status a =? e_status b) && opt_eqb Z.eqb (e_content a) (e_content b)
  && bytes_eqb (e_format a) (e_format b) && bytes_eqb (e_path a) (e_path b).
Definition snap_eqb (a b : snapshot) : bool := (s_id a =? s_id b) && (s_ts a =? s_ts b) && bytes_eqb (s_ml a) (s_ml b).
Definition md_eqb (a b : metadata) : bool :=
  (md_fv a =? md_fv b) && (md_lu a =? md_lu b) && opt_eqb Z.eqb (md_cur a) (md_cur b)
  && list_eqb snap_eqb (md_snaps a) (md_snaps b).
Definition kv_eqb {A} (eqb : A -> A -> bool) (a b : bytes * A) : bool := bytes_eqb (fst a) (fst b) && eqb (snd a) (snd b).
Definition table_eqb (a b : table) : bool :=
  bytes_eqb (t_dir a) (t_dir b) && opt_eqb bytes_eqb (t_hint a) (t_hint b)
  && list_eqb (kv_eqb (opt_eqb md_eqb)) (t_meta a) (t_meta b)
  && list_eqb (kv_eqb (list_eqb bytes_eqb)) (t_lists a) (t_lists b)
  && list_eqb (kv_eqb (list_eqb entry_eqb)) (t_mans a) (t_mans b)
  && list_eqb (kv_eqb (list_eqb Z.eqb)) (t_data a) (t_data b).
