(* C17 proofs.
   Part 1  byte strings, decimal names, resolve_uri on the four accepted URI forms
   Part 2  std::path components / ordering on the paths the writer produces
   Part 3  sort + dedup: transport along an order embedding; usort is a set
   Part 4  directory-level soundness of the reader on ANY directory (refusals)
   Part 5  the reader on a rendered logical state = the logical reader        (no induction on histories)
   Part 6  the logical state of a replayed history vs the abstract semantics  (induction over unbounded histories)
   Part 7  main theorems, refutation witness *)
From Coq Require Import String Ascii.
From QV Require Import Base.Util C17.Model.
Local Open Scope Z_scope.

(* ================================================================== *)
(* Part 1 *)
Lemma bs_app a b : bs (a ++ b)%string = bs a ++ bs b.
Proof.
  unfold bs. induction a as [|c a IH]; cbn [append list_ascii_of_string map app]; [reflexivity|].
  f_equal. exact IH.
Qed.

Lemma Zeqb_refl_true x : (x =? x) = true. Proof. apply Z.eqb_refl. Qed.

Lemma bytes_eqb_spec a b : bytes_eqb a b = true <-> a = b.
Proof. unfold bytes_eqb. apply list_eqb_spec. intros; apply Z.eqb_eq. Qed.
Lemma bytes_eqb_refl a : bytes_eqb a a = true.
Proof. now apply bytes_eqb_spec. Qed.
Lemma bytes_eqb_false a b : a <> b -> bytes_eqb a b = false.
Proof. intros H. destruct (bytes_eqb a b) eqn:E; [apply bytes_eqb_spec in E; congruence | reflexivity]. Qed.

Lemma strip_prefix_app p s : strip_prefix p (p ++ s) = Some s.
Proof. induction p as [|x p IH]; cbn; [reflexivity|]. now rewrite Z.eqb_refl. Qed.
Lemma strip_prefix_some p s r : strip_prefix p s = Some r -> s = p ++ r.
Proof.
  revert s; induction p as [|x p IH]; intros s H; cbn in H.
  - now inversion H.
  - destruct s as [|y s]; [discriminate|]. destruct (Z.eqb_spec x y); [|discriminate].
    subst. cbn. f_equal. now apply IH.
Qed.
Lemma starts_with_app p s : starts_with p (p ++ s) = true.
Proof. unfold starts_with. now rewrite strip_prefix_app. Qed.
Lemma ends_with_app p x : ends_with p (x ++ p) = true.
Proof. unfold ends_with. rewrite rev_app_distr. apply starts_with_app. Qed.

Lemma no_byte_spec c s : no_byte c s = true <-> ~ In c s.
Proof.
  unfold no_byte. rewrite forallb_forall. split.
  - intros H Hin. specialize (H _ Hin). rewrite Z.eqb_refl in H. discriminate.
  - intros H x Hx. destruct (Z.eqb_spec x c); [subst; contradiction | reflexivity].
Qed.
Lemma no_byte_app c a b : no_byte c (a ++ b) = no_byte c a && no_byte c b.
Proof. unfold no_byte. apply forallb_app. Qed.

(* a string without ':' neither starts with "file:" nor contains "://" *)
Lemma strip_file_none s : no_byte 58 s = true -> strip_prefix (bs "file:") s = None.
Proof.
  intros H. destruct (strip_prefix (bs "file:") s) eqn:E; [|reflexivity].
  apply strip_prefix_some in E. subst. apply no_byte_spec in H. exfalso. apply H.
  vm_compute. auto 10.
Qed.
Lemma contains_scheme_false s : no_byte 58 s = true -> contains (bs "://") s = false.
Proof.
  induction s as [|c s IH]; intros H.
  - reflexivity.
  - cbn [contains]. cbn [no_byte forallb] in H. apply andb_true_iff in H as [Hc Hs].
    rewrite (IH Hs), orb_false_r. unfold starts_with.
    change (bs "://") with [58; 47; 47]. cbn [strip_prefix].
    destruct (Z.eqb_spec 58 c); [subst; discriminate | reflexivity].
Qed.

(* ---- decimal names ---- *)
Definition is_digit (c : Z) : Prop := 48 <= c <= 57.
Lemma decb_digits n : Forall is_digit (decb n).
Proof.
  unfold decb. generalize (Nat.to_uint n). intros d.
  induction d; cbn; constructor; try assumption; unfold is_digit; cbn; lia.
Qed.
Lemma bs_inj a b : bs a = bs b -> a = b.
Proof.
  unfold bs. revert b; induction a as [|c a IH]; intros [|d b] H; cbn in H; try discriminate; [reflexivity|].
  inversion H as [[H1 H2]]. apply N2Z.inj in H1.
  assert (c = d) by (rewrite <- (ascii_N_embedding c), <- (ascii_N_embedding d); now f_equal).
  subst. f_equal. now apply IH.
Qed.
Lemma decb_inj a b : decb a = decb b -> a = b.
Proof.
  unfold decb. intros H. apply bs_inj in H.
  assert (Nat.to_uint a = Nat.to_uint b).
  { pose proof (DecimalString.NilEmpty.usu (Nat.to_uint a)) as Ha.
    pose proof (DecimalString.NilEmpty.usu (Nat.to_uint b)) as Hb. rewrite H in Ha. congruence. }
  rewrite <- (DecimalNat.Unsigned.of_to a), <- (DecimalNat.Unsigned.of_to b). now f_equal.
Qed.
Lemma digits_no_byte c s : Forall is_digit s -> ~ (48 <= c <= 57) -> no_byte c s = true.
Proof.
  intros H Hc. apply no_byte_spec. intros Hin. rewrite Forall_forall in H. apply H in Hin. unfold is_digit in Hin. lia.
Qed.
Lemma decb_nonempty n : decb n <> [].
Proof.
  unfold decb. destruct (Nat.to_uint n) eqn:E; cbn; try discriminate.
  exfalso. pose proof (DecimalNat.Unsigned.of_to n) as H. rewrite E in H. cbn in H.
  (* Nat.to_uint never yields Nil *)
  clear H. unfold Nat.to_uint in E. destruct n; cbn in E; [discriminate|].
  revert E. generalize (Decimal.D0 Decimal.Nil). induction n; intros u E; cbn in E.
  - destruct u; discriminate.
  - apply (IHn _ E).
Qed.

(* trim / trim_start_matches('v') leave a digit string alone *)
Lemma trim_start_digit s : match s with c :: _ => is_ws c = false | [] => True end -> trim_start s = s.
Proof. destruct s as [|c s]; cbn; [reflexivity|]. intros ->. reflexivity. Qed.
Lemma digit_not_ws c : is_digit c -> is_ws c = false.
Proof. unfold is_digit, is_ws. intros H. destruct (Z.eqb_spec c 32); [lia|]. cbn. destruct (Z.leb_spec 9 c), (Z.leb_spec c 13); cbn; try reflexivity; lia. Qed.
Lemma trim_digits s : Forall is_digit s -> trim s = s.
Proof.
  intros H. unfold trim.
  assert (H1 : trim_start s = s).
  { apply trim_start_digit. destruct s; [exact I|]. inversion H; subst. now apply digit_not_ws. }
  rewrite H1.
  assert (H2 : trim_start (rev s) = rev s).
  { apply trim_start_digit. destruct (rev s) as [|c r] eqn:E; [exact I|].
    apply digit_not_ws. rewrite Forall_forall in H. apply H. apply in_rev. rewrite E. now left. }
  rewrite H2. apply rev_involutive.
Qed.
Lemma trim_v_digits s : Forall is_digit s -> trim_v s = s.
Proof.
  intros H. destruct s as [|c s]; cbn; [reflexivity|]. inversion H; subst.
  destruct (Z.eqb_spec c 118); [unfold is_digit in *; lia | reflexivity].
Qed.
Lemma hint_candidate_decb n : hint_candidate (decb n) = md_name n.
Proof. unfold hint_candidate, md_name. now rewrite trim_digits, trim_v_digits by apply decb_digits. Qed.

(* ---- well-formed relative names ---- *)
Definition good_rel (rel : bytes) : Prop := no_byte 58 rel = true /\ is_abs rel = false.

Lemma good_dir_inv d : good_dir d = true ->
  exists b r, d = slash :: b :: r /\ b <> slash /\ no_byte 58 d = true /\
              exists c r', rev d = c :: r' /\ c <> slash.
Proof.
  unfold good_dir. destruct d as [|a [|b r]]; try discriminate. intros H.
  repeat (apply andb_true_iff in H as [H ?]).
  apply Z.eqb_eq in H. subst a. exists b, r. split; [reflexivity|].
  split. { intros ->. unfold slash in *. rewrite Z.eqb_refl in *. discriminate. }
  split; [assumption|].
  destruct (rev (slash :: b :: r)) as [|c r'] eqn:E; [discriminate|].
  exists c, r'. split; [reflexivity|]. intros ->. rewrite Z.eqb_refl in *. discriminate.
Qed.

Lemma trim_dslash_abs b r : b <> slash -> trim_dslash (slash :: b :: r) = slash :: b :: r.
Proof. intros H. cbn [trim_dslash]. destruct (Z.eqb_spec b slash); [contradiction|]. now rewrite andb_false_r. Qed.

(* the four accepted URI forms all resolve to the same absolute path *)
Lemma resolve_uri_forms f dir rel : good_dir dir = true -> good_rel rel ->
  resolve_uri (uri_of f dir rel) dir = Ok (absp dir rel).
Proof.
  intros Hd [Hr1 Hr2]. destruct (good_dir_inv _ Hd) as (b & r & -> & Hb & Hc & c & r' & Hrev & Hcs).
  assert (Habs : absp (slash :: b :: r) rel = slash :: b :: (r ++ slash :: rel)) by reflexivity.
  assert (Hnc : no_byte 58 (absp (slash :: b :: r) rel) = true).
  { unfold absp. rewrite no_byte_app, Hc. cbn [no_byte forallb andb]. exact Hr1. }
  unfold resolve_uri. destruct f; cbn [uri_of].
  - change (bs "file://") with (bs "file:" ++ [slash; slash]). rewrite <- app_assoc, strip_prefix_app.
    rewrite Habs. cbn [app]. cbn [trim_dslash]. rewrite Z.eqb_refl. cbn [andb].
    rewrite trim_dslash_abs by assumption. cbn [is_abs]. now rewrite Z.eqb_refl.
  - rewrite strip_prefix_app. rewrite Habs. rewrite trim_dslash_abs by assumption. cbn [is_abs]. now rewrite Z.eqb_refl.
  - rewrite strip_file_none by assumption. rewrite contains_scheme_false by assumption.
    rewrite Habs. cbn [is_abs]. now rewrite Z.eqb_refl.
  - rewrite strip_file_none by assumption. rewrite contains_scheme_false by assumption. rewrite Hr2.
    unfold path_join. rewrite Hr2, Hrev. destruct (Z.eqb_spec c slash); [contradiction|]. reflexivity.
Qed.

(* remote URIs are refused *)
Lemma resolve_uri_remote uri dir : is_remote uri = true -> resolve_uri uri dir = Err ENotImpl.
Proof.
  unfold is_remote, resolve_uri. destruct (strip_prefix (bs "file:") uri); [discriminate|]. now intros ->.
Qed.
Lemma resolve_uri_ok_not_remote uri dir p : resolve_uri uri dir = Ok p -> is_remote uri = false.
Proof.
  unfold is_remote, resolve_uri. destruct (strip_prefix (bs "file:") uri); [reflexivity|].
  destruct (contains (bs "://") uri); [discriminate | reflexivity].
Qed.
