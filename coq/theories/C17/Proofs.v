(* C17 proofs.
   Part 1  byte strings, decimal names, resolve_uri on the four accepted URI forms
   Part 2  std::path components / ordering on the paths the writer produces
   Part 3  sort + dedup: transport along an order embedding; usort is a set
   Part 4  directory-level soundness of the reader on ANY directory (refusals)
   Part 5  the reader on a rendered logical state = the logical reader        (no induction on histories)
   Part 6  the logical state of a replayed history vs the abstract semantics  (induction over unbounded histories)
   Part 7  main theorems, refutation witness *)
From Coq Require Import String Ascii Sorted.
From QV Require Import Base.Util C17.Model.
Local Open Scope Z_scope.

(* ================================================================== *)
(* Part 1 *)
Lemma bs_app a b : bs (a ++ b)%string = bs a ++ bs b.
Proof.
  unfold bs. induction a as [|c a IH]; cbn [append list_ascii_of_string map app]; [reflexivity|].
  f_equal. exact IH.
Qed.

Lemma Zeqb_refl_true x : (x =? x) = true. Proof. apply Z.eqb_refl. Qed.

Lemma bytes_eqb_spec a b : bytes_eqb a b = true <-> a = b.
Proof. unfold bytes_eqb. apply list_eqb_spec. intros; apply Z.eqb_eq. Qed.
Lemma bytes_eqb_refl a : bytes_eqb a a = true.
Proof. now apply bytes_eqb_spec. Qed.
Lemma bytes_eqb_false a b : a <> b -> bytes_eqb a b = false.
Proof. intros H. destruct (bytes_eqb a b) eqn:E; [apply bytes_eqb_spec in E; congruence | reflexivity]. Qed.

Lemma strip_prefix_app p s : strip_prefix p (p ++ s) = Some s.
Proof. induction p as [|x p IH]; cbn; [reflexivity|]. now rewrite Z.eqb_refl. Qed.
Lemma strip_prefix_some p s r : strip_prefix p s = Some r -> s = p ++ r.
Proof.
  revert s; induction p as [|x p IH]; intros s H; cbn in H.
  - now inversion H.
  - destruct s as [|y s]; [discriminate|]. destruct (Z.eqb_spec x y); [|discriminate].
    subst. cbn. f_equal. now apply IH.
Qed.
Lemma starts_with_app p s : starts_with p (p ++ s) = true.
Proof. unfold starts_with. now rewrite strip_prefix_app. Qed.
Lemma ends_with_app p x : ends_with p (x ++ p) = true.
Proof. unfold ends_with. rewrite rev_app_distr. apply starts_with_app. Qed.

Lemma no_byte_spec c s : no_byte c s = true <-> ~ In c s.
Proof.
  unfold no_byte. rewrite forallb_forall. split.
  - intros H Hin. specialize (H _ Hin). rewrite Z.eqb_refl in H. discriminate.
  - intros H x Hx. destruct (Z.eqb_spec x c); [subst; contradiction | reflexivity].
Qed.
Lemma no_byte_app c a b : no_byte c (a ++ b) = no_byte c a && no_byte c b.
Proof. unfold no_byte. apply forallb_app. Qed.

(* a string without ':' neither starts with "file:" nor contains "://" *)
Lemma strip_file_none s : no_byte 58 s = true -> strip_prefix (bs "file:") s = None.
Proof.
  intros H. destruct (strip_prefix (bs "file:") s) eqn:E; [|reflexivity].
  apply strip_prefix_some in E. subst. apply no_byte_spec in H. exfalso. apply H.
  vm_compute. auto 10.
Qed.
Lemma contains_scheme_false s : no_byte 58 s = true -> contains (bs "://") s = false.
Proof.
  induction s as [|c s IH]; intros H.
  - reflexivity.
  - cbn [contains]. cbn [no_byte forallb] in H. apply andb_true_iff in H as [Hc Hs].
    rewrite (IH Hs), orb_false_r. unfold starts_with.
    change (bs "://") with [58; 47; 47]. cbn [strip_prefix].
    destruct (Z.eqb_spec 58 c); [subst; discriminate | reflexivity].
Qed.

(* ---- decimal names ---- *)
Definition is_digit (c : Z) : Prop := 48 <= c <= 57.
Lemma decb_digits n : Forall is_digit (decb n).
Proof.
  unfold decb. generalize (Nat.to_uint n). intros d.
  induction d; cbn; constructor; try assumption; unfold is_digit; cbn; lia.
Qed.
Lemma bs_inj a b : bs a = bs b -> a = b.
Proof.
  unfold bs. revert b; induction a as [|c a IH]; intros [|d b] H; cbn in H; try discriminate; [reflexivity|].
  inversion H as [[H1 H2]]. apply N2Z.inj in H1.
  assert (c = d) by (rewrite <- (ascii_N_embedding c), <- (ascii_N_embedding d); now f_equal).
  subst. f_equal. now apply IH.
Qed.
Lemma decb_inj a b : decb a = decb b -> a = b.
Proof.
  unfold decb. intros H. apply bs_inj in H.
  assert (Nat.to_uint a = Nat.to_uint b).
  { pose proof (DecimalString.NilEmpty.usu (Nat.to_uint a)) as Ha.
    pose proof (DecimalString.NilEmpty.usu (Nat.to_uint b)) as Hb. rewrite H in Ha. congruence. }
  rewrite <- (DecimalNat.Unsigned.of_to a), <- (DecimalNat.Unsigned.of_to b). now f_equal.
Qed.
Lemma digits_no_byte c s : Forall is_digit s -> ~ (48 <= c <= 57) -> no_byte c s = true.
Proof.
  intros H Hc. apply no_byte_spec. intros Hin. rewrite Forall_forall in H. apply H in Hin. unfold is_digit in Hin. lia.
Qed.
(* trim / trim_start_matches('v') leave a digit string alone *)
Lemma trim_start_digit s : match s with c :: _ => is_ws c = false | [] => True end -> trim_start s = s.
Proof. destruct s as [|c s]; cbn; [reflexivity|]. intros ->. reflexivity. Qed.
Lemma digit_not_ws c : is_digit c -> is_ws c = false.
Proof. unfold is_digit, is_ws. intros H. destruct (Z.eqb_spec c 32); [lia|]. cbn. destruct (Z.leb_spec 9 c), (Z.leb_spec c 13); cbn; try reflexivity; lia. Qed.
Lemma trim_digits s : Forall is_digit s -> trim s = s.
Proof.
  intros H. unfold trim.
  assert (H1 : trim_start s = s).
  { apply trim_start_digit. destruct s; [exact I|]. inversion H; subst. now apply digit_not_ws. }
  rewrite H1.
  assert (H2 : trim_start (rev s) = rev s).
  { apply trim_start_digit. destruct (rev s) as [|c r] eqn:E; [exact I|].
    apply digit_not_ws. rewrite Forall_forall in H. apply H. apply in_rev. rewrite E. now left. }
  rewrite H2. apply rev_involutive.
Qed.
Lemma trim_v_digits s : Forall is_digit s -> trim_v s = s.
Proof.
  intros H. destruct s as [|c s]; cbn; [reflexivity|]. inversion H; subst.
  destruct (Z.eqb_spec c 118); [unfold is_digit in *; lia | reflexivity].
Qed.
Lemma hint_candidate_decb n : hint_candidate (decb n) = md_name n.
Proof. unfold hint_candidate, md_name. now rewrite trim_digits, trim_v_digits by apply decb_digits. Qed.

(* ---- well-formed relative names ---- *)
Definition good_rel (rel : bytes) : Prop := no_byte 58 rel = true /\ is_abs rel = false.

Lemma good_dir_inv d : good_dir d = true ->
  exists b r, d = slash :: b :: r /\ b <> slash /\ no_byte 58 d = true /\
              exists c r', rev d = c :: r' /\ c <> slash.
Proof.
  unfold good_dir. destruct d as [|a [|b r]]; try discriminate. intros H.
  repeat (apply andb_true_iff in H as [H ?]).
  apply Z.eqb_eq in H. subst a. exists b, r. split; [reflexivity|].
  split. { intros ->. unfold slash in *. rewrite Z.eqb_refl in *. discriminate. }
  split; [assumption|].
  destruct (rev (slash :: b :: r)) as [|c r'] eqn:E; [discriminate|].
  exists c, r'. split; [reflexivity|]. intros ->. rewrite Z.eqb_refl in *. discriminate.
Qed.

Lemma trim_dslash_abs b r : b <> slash -> trim_dslash (slash :: b :: r) = slash :: b :: r.
Proof. intros H. cbn [trim_dslash]. destruct (Z.eqb_spec b slash); [contradiction|]. now rewrite andb_false_r. Qed.

Lemma trim_dslash_2 s : trim_dslash (slash :: slash :: s) = trim_dslash s.
Proof. reflexivity. Qed.

(* the four accepted URI forms all resolve to the same absolute path *)
Lemma resolve_uri_forms f dir rel : good_dir dir = true -> good_rel rel ->
  resolve_uri (uri_of f dir rel) dir = Ok (absp dir rel).
Proof.
  intros Hd [Hr1 Hr2]. destruct (good_dir_inv _ Hd) as (b & r & -> & Hb & Hc & c & r' & Hrev & Hcs).
  assert (Habs : absp (slash :: b :: r) rel = slash :: b :: (r ++ slash :: rel)) by reflexivity.
  assert (Hnc : no_byte 58 (absp (slash :: b :: r) rel) = true).
  { unfold absp. rewrite no_byte_app, Hc. cbn [no_byte forallb andb]. exact Hr1. }
  unfold resolve_uri. destruct f; cbn [uri_of].
  - change (bs "file://") with (bs "file:" ++ [slash; slash]). rewrite <- app_assoc, strip_prefix_app.
    rewrite Habs. cbn [app]. rewrite trim_dslash_2.
    rewrite trim_dslash_abs by assumption. cbn [is_abs]. now rewrite Z.eqb_refl.
  - rewrite strip_prefix_app. rewrite Habs. rewrite trim_dslash_abs by assumption. cbn [is_abs]. now rewrite Z.eqb_refl.
  - rewrite strip_file_none by assumption. rewrite contains_scheme_false by assumption.
    rewrite Habs. cbn [is_abs]. now rewrite Z.eqb_refl.
  - rewrite strip_file_none by assumption. rewrite contains_scheme_false by assumption. rewrite Hr2.
    unfold path_join. rewrite Hr2, Hrev. destruct (Z.eqb_spec c slash); [contradiction|]. reflexivity.
Qed.

(* remote URIs are refused *)
Lemma resolve_uri_remote uri dir : is_remote uri = true -> resolve_uri uri dir = Err ENotImpl.
Proof.
  unfold is_remote, resolve_uri. destruct (strip_prefix (bs "file:") uri); [discriminate|]. now intros ->.
Qed.
Lemma resolve_uri_ok_not_remote uri dir p : resolve_uri uri dir = Ok p -> is_remote uri = false.
Proof.
  unfold is_remote, resolve_uri. destruct (strip_prefix (bs "file:") uri); [reflexivity|].
  destruct (contains (bs "://") uri); [discriminate | reflexivity].
Qed.

(* ================================================================== *)
(* Part 2: components and ordering *)
Lemma split_slash_nonempty s : split_slash s <> [].
Proof. destruct s as [|c s]; cbn; [discriminate|]. destruct (c =? slash); [discriminate|]. destruct (split_slash s); discriminate. Qed.
Lemma split_slash_app a b : split_slash (a ++ slash :: b) = split_slash a ++ split_slash b.
Proof.
  induction a as [|c a IH]; cbn [app split_slash].
  - now rewrite Z.eqb_refl.
  - destruct (c =? slash); [now rewrite IH|]. rewrite IH.
    destruct (split_slash a) eqn:E; [now apply split_slash_nonempty in E|]. reflexivity.
Qed.
Lemma split_slash_noslash n : no_byte slash n = true -> split_slash n = [n].
Proof.
  induction n as [|c n IH]; intros H; [reflexivity|]. cbn [no_byte forallb] in H. apply andb_true_iff in H as [Hc Hn].
  cbn [split_slash]. apply negb_true_iff in Hc. rewrite Hc, (IH Hn). reflexivity.
Qed.
Lemma components_app a b : components (a ++ slash :: b) = components a ++ components b.
Proof. unfold components. now rewrite split_slash_app, filter_app. Qed.
Lemma good_name_inv n : good_name n = true ->
  no_byte slash n = true /\ no_byte 58 n = true /\ n <> [] /\ n <> [46].
Proof.
  unfold good_name. intros H. repeat (apply andb_true_iff in H as [H ?]).
  repeat split; try assumption; intros ->; discriminate.
Qed.
Lemma components_name n : good_name n = true -> components n = [n].
Proof.
  intros H. destruct (good_name_inv _ H) as (H1 & _ & H3 & H4).
  unfold components. rewrite split_slash_noslash by assumption. cbn [filter]. unfold comp_keep.
  now rewrite (bytes_eqb_false _ _ H3), (bytes_eqb_false _ _ H4).
Qed.

(* dir/<d1>/<name> *)
Definition in_dir (dir d1 n : bytes) : bytes := absp dir (d1 ++ slash :: n).
Lemma components_in_dir dir d1 n : good_name d1 = true -> good_name n = true ->
  components (in_dir dir d1 n) = components dir ++ [d1; n].
Proof.
  intros H1 H2. unfold in_dir, absp. rewrite !components_app, (components_name _ H1), (components_name _ H2). reflexivity.
Qed.
Lemma bytes_cmp_refl a : bytes_cmp a a = Eq. Proof. now apply bytes_cmp_eq. Qed.
Lemma comps_cmp_prefix p a b : comps_cmp (p ++ a) (p ++ b) = comps_cmp a b.
Proof. induction p as [|x p IH]; cbn [app comps_cmp]; [reflexivity|]. now rewrite bytes_cmp_refl. Qed.
Lemma path_cmp_in_dir dir d1 n1 n2 : good_name d1 = true -> good_name n1 = true -> good_name n2 = true ->
  path_cmp (in_dir dir d1 n1) (in_dir dir d1 n2) = bytes_cmp n1 n2.
Proof.
  intros. unfold path_cmp. rewrite !components_in_dir by assumption.
  change [d1; n1] with ([d1] ++ [n1]). change [d1; n2] with ([d1] ++ [n2]).
  rewrite !app_assoc, comps_cmp_prefix. cbn. destruct (bytes_cmp n1 n2); reflexivity.
Qed.
Lemma path_eqb_in_dir dir d1 n1 n2 : good_name d1 = true -> good_name n1 = true -> good_name n2 = true ->
  path_eqb (in_dir dir d1 n1) (in_dir dir d1 n2) = bytes_eqb n1 n2.
Proof.
  intros. unfold path_eqb. rewrite path_cmp_in_dir by assumption.
  destruct (bytes_cmp n1 n2) eqn:E.
  - apply bytes_cmp_eq in E. subst. now rewrite bytes_eqb_refl.
  - symmetry. apply bytes_eqb_false. intros ->. rewrite bytes_cmp_refl in E. discriminate.
  - symmetry. apply bytes_eqb_false. intros ->. rewrite bytes_cmp_refl in E. discriminate.
Qed.
Lemma path_le_in_dir dir d1 n1 n2 : good_name d1 = true -> good_name n1 = true -> good_name n2 = true ->
  path_le (in_dir dir d1 n1) (in_dir dir d1 n2) = bytes_le n1 n2.
Proof. intros. unfold path_le, bytes_le. now rewrite path_cmp_in_dir. Qed.

(* path equality is equality of component lists, hence an equivalence *)
Lemma comps_cmp_eq a b : comps_cmp a b = Eq <-> a = b.
Proof.
  revert b; induction a as [|x a IH]; intros [|y b]; cbn; split; intros H; try congruence; auto.
  - destruct (bytes_cmp x y) eqn:E; cbn in H; try discriminate. apply bytes_cmp_eq in E. apply IH in H. congruence.
  - inversion H; subst. rewrite bytes_cmp_refl. cbn. now apply IH.
Qed.
Lemma path_eqb_spec a b : path_eqb a b = true <-> components a = components b.
Proof.
  unfold path_eqb, path_cmp. destruct (comps_cmp (components a) (components b)) eqn:E.
  - apply comps_cmp_eq in E. tauto.
  - split; [discriminate|]. intros H. rewrite H in E. rewrite (proj2 (comps_cmp_eq _ _) eq_refl) in E. discriminate.
  - split; [discriminate|]. intros H. rewrite H in E. rewrite (proj2 (comps_cmp_eq _ _) eq_refl) in E. discriminate.
Qed.
Lemma path_eqb_refl a : path_eqb a a = true. Proof. now apply path_eqb_spec. Qed.
Lemma path_eqb_sym a b : path_eqb a b = path_eqb b a.
Proof.
  destruct (path_eqb a b) eqn:E1, (path_eqb b a) eqn:E2; try reflexivity.
  - apply path_eqb_spec in E1. symmetry in E1. apply path_eqb_spec in E1. congruence.
  - apply path_eqb_spec in E2. symmetry in E2. apply path_eqb_spec in E2. congruence.
Qed.
Lemma path_eqb_trans a b c : path_eqb a b = true -> path_eqb b c = true -> path_eqb a c = true.
Proof. rewrite !path_eqb_spec. congruence. Qed.

(* the writer's file names *)
Definition list_file (k : nat) : bytes := bs "snap-" ++ decb k ++ bs ".avro".
Definition man_file (k : nat) : bytes := bs "m" ++ decb k ++ bs ".avro".
Definition d_meta : bytes := bs "metadata".
Definition d_data : bytes := bs "data".
Lemma list_rel_eq k : list_rel k = d_meta ++ slash :: list_file k. Proof. reflexivity. Qed.
Lemma man_rel_eq k : man_rel k = d_meta ++ slash :: man_file k. Proof. reflexivity. Qed.
Lemma data_rel_eq n : data_rel n = d_data ++ slash :: n. Proof. reflexivity. Qed.
Lemma good_d_meta : good_name d_meta = true. Proof. reflexivity. Qed.
Lemma good_d_data : good_name d_data = true. Proof. reflexivity. Qed.
Lemma good_list_file k : good_name (list_file k) = true.
Proof.
  unfold good_name, list_file. rewrite !no_byte_app.
  rewrite !(digits_no_byte _ _ (decb_digits k)) by (unfold slash; lia). reflexivity.
Qed.
Lemma good_man_file k : good_name (man_file k) = true.
Proof.
  unfold good_name, man_file. rewrite !no_byte_app.
  rewrite !(digits_no_byte _ _ (decb_digits k)) by (unfold slash; lia). reflexivity.
Qed.
Lemma list_file_inj a b : list_file a = list_file b -> a = b.
Proof. unfold list_file. intros H. apply app_inv_head in H. apply app_inv_tail in H. now apply decb_inj. Qed.
Lemma man_file_inj a b : man_file a = man_file b -> a = b.
Proof. unfold man_file. intros H. apply app_inv_head in H. apply app_inv_tail in H. now apply decb_inj. Qed.
Lemma md_name_inj a b : md_name a = md_name b -> a = b.
Proof. unfold md_name. intros H. apply app_inv_head in H. apply app_inv_tail in H. now apply decb_inj. Qed.

Lemma good_rel_in d1 n : good_name d1 = true -> good_name n = true -> good_rel (d1 ++ slash :: n).
Proof.
  intros H1 H2. destruct (good_name_inv _ H1) as (A1 & A2 & A3 & _). destruct (good_name_inv _ H2) as (_ & B2 & _).
  split.
  - rewrite no_byte_app, A2. cbn [no_byte forallb andb]. exact B2.
  - destruct d1 as [|c d1]; [congruence|]. cbn [app is_abs]. cbn [no_byte forallb] in A1.
    apply andb_true_iff in A1 as [A1 _]. now apply negb_true_iff in A1.
Qed.

(* ================================================================== *)
(* Part 3: sort + dedup *)
Section SortTransport.
  Context {A B : Type} (f : A -> B) (le1 : A -> A -> bool) (le2 : B -> B -> bool).
  Lemma insert_map x s : (forall b, In b s -> le2 (f x) (f b) = le1 x b) ->
    insert le2 (f x) (map f s) = map f (insert le1 x s).
  Proof.
    induction s as [|h t IH]; intros H; cbn [map insert]; [reflexivity|].
    rewrite (H h (or_introl eq_refl)). destruct (le1 x h); [reflexivity|].
    cbn [map]. f_equal. apply IH. intros b Hb. apply H. now right.
  Qed.
  Lemma isort_map l : (forall a b, In a l -> In b l -> le2 (f a) (f b) = le1 a b) ->
    isort le2 (map f l) = map f (isort le1 l).
  Proof.
    induction l as [|x l IH]; intros H; [reflexivity|].
    cbn [map isort fold_right]. fold (isort le2 (map f l)). fold (isort le1 l).
    rewrite IH by (intros; apply H; now right).
    apply insert_map. intros b Hb. apply H; [now left|]. right.
    eapply Permutation_in; [apply isort_perm | exact Hb].
  Qed.
End SortTransport.
Section DedupTransport.
  Context {A B : Type} (f : A -> B) (e1 : A -> A -> bool) (e2 : B -> B -> bool).
  Lemma dedup_go_map p l : (forall a b, In a (p :: l) -> In b (p :: l) -> e2 (f a) (f b) = e1 a b) ->
    dedup_go e2 (f p) (map f l) = map f (dedup_go e1 p l).
  Proof.
    revert p; induction l as [|y t IH]; intros p H; [reflexivity|]. cbn [map dedup_go].
    rewrite (H p y) by (cbn; auto). destruct (e1 p y).
    - apply IH. intros a b Ha Hb. apply H; cbn in *; tauto.
    - cbn [map]. f_equal. apply IH. intros a b Ha Hb. apply H; cbn in *; tauto.
  Qed.
  Lemma dedup_map l : (forall a b, In a l -> In b l -> e2 (f a) (f b) = e1 a b) ->
    dedup e2 (map f l) = map f (dedup e1 l).
  Proof. destruct l as [|x l]; intros H; [reflexivity|]. cbn [map dedup]. f_equal. now apply dedup_go_map. Qed.
End DedupTransport.

Section DedupIn.
  Context {A : Type} (eqb : A -> A -> bool).
  Lemma dedup_go_subset p l x : In x (dedup_go eqb p l) -> In x l.
  Proof.
    revert p; induction l as [|y t IH]; intros p H; [contradiction|]. cbn [dedup_go] in H.
    destruct (eqb p y); [right; eapply IH; eauto|]. destruct H as [->|H]; [now left | right; eapply IH; eauto].
  Qed.
  Lemma dedup_subset l x : In x (dedup eqb l) -> In x l.
  Proof. destruct l as [|y t]; [auto|]. cbn [dedup]. intros [->|H]; [now left | right; eapply dedup_go_subset; eauto]. Qed.
  (* every dropped element is eqb to a kept one *)
  Lemma dedup_go_cover p l x : In x l -> eqb p x = true \/ exists z, In z (dedup_go eqb p l) /\ (z = x \/ eqb z x = true).
  Proof.
    revert p; induction l as [|y t IH]; intros p H; [contradiction|]. cbn [dedup_go].
    destruct H as [->|H].
    - destruct (eqb p x) eqn:E; [now left|]. right. exists x. split; [now left | now left].
    - destruct (eqb p y) eqn:E.
      + apply IH, H.
      + right. destruct (IH y H) as [H1|(z & Hz & Hz')].
        * exists y. split; [now left | now right].
        * exists z. split; [now right | exact Hz'].
  Qed.
  Lemma dedup_cover l x : In x l -> exists z, In z (dedup eqb l) /\ (z = x \/ eqb z x = true).
  Proof.
    destruct l as [|y t]; [contradiction|]. intros [->|H]; cbn [dedup].
    - exists x. split; [now left | now left].
    - destruct (dedup_go_cover y t x H) as [H1|(z & Hz & Hz')].
      + exists y. split; [now left | now right].
      + exists z. split; [now right | exact Hz'].
  Qed.
  Lemma dedup_nil l : dedup eqb l = [] -> l = [].
  Proof. destruct l; [auto | discriminate]. Qed.
End DedupIn.

Lemma isort_in {A} (le : A -> A -> bool) l x : In x (isort le l) <-> In x l.
Proof. split; apply Permutation_in; [apply isort_perm | apply Permutation_sym, isort_perm]. Qed.
Lemma isort_nil {A} (le : A -> A -> bool) l : isort le l = [] -> l = [].
Proof. intros H. apply length_zero_iff_nil. rewrite <- (isort_length le), H. reflexivity. Qed.

Lemma usort_in l x : In x (usort l) <-> In x l.
Proof.
  unfold usort. split.
  - intros H. apply dedup_subset in H. now apply isort_in in H.
  - intros H. apply (isort_in bytes_le) in H. destruct (dedup_cover bytes_eqb _ _ H) as (z & Hz & [->|Hz']); [exact Hz|].
    apply bytes_eqb_spec in Hz'. now subst.
Qed.
Lemma usort_nil l : usort l = [] -> l = [].
Proof. unfold usort. intros H. apply dedup_nil in H. now apply isort_nil in H. Qed.

(* bytes_cmp is a total order *)
Lemma bytes_cmp_antisym a b : bytes_cmp b a = CompOpp (bytes_cmp a b).
Proof.
  revert b; induction a as [|x a IH]; intros [|y b]; cbn; try reflexivity.
  rewrite (Z.compare_antisym x y). destruct (x ?= y); cbn; auto.
Qed.
Lemma bytes_lt_trans a b c : bytes_cmp a b = Lt -> bytes_cmp b c = Lt -> bytes_cmp a c = Lt.
Proof.
  revert b c; induction a as [|x a IH]; intros [|y b] [|z c]; cbn; try congruence.
  destruct (Z.compare_spec x y), (Z.compare_spec y z); try discriminate; intros H1 H2; subst.
  - rewrite Z.compare_refl. eapply IH; eauto.
  - now apply Z.compare_lt_iff in H0 as ->.
  - now apply Z.compare_lt_iff in H as ->.
  - assert (x < z) as Hxz by lia. now apply Z.compare_lt_iff in Hxz as ->.
Qed.
Definition blt (a b : bytes) : Prop := bytes_cmp a b = Lt.
Lemma bytes_le_cases a b : bytes_le a b = true <-> (a = b \/ blt a b).
Proof.
  unfold bytes_le, blt, cmp_le. destruct (bytes_cmp a b) eqn:E.
  - apply bytes_cmp_eq in E. tauto.
  - tauto.
  - split; [discriminate|]. intros [->|H]; [rewrite bytes_cmp_refl in E|]; discriminate.
Qed.
Lemma bytes_le_total a b : bytes_le a b = false -> blt b a.
Proof.
  unfold bytes_le, blt, cmp_le. rewrite (bytes_cmp_antisym a b). destruct (bytes_cmp a b); cbn; congruence.
Qed.
Lemma insert_sorted x l : StronglySorted (fun a b => bytes_le a b = true) l ->
  StronglySorted (fun a b => bytes_le a b = true) (insert bytes_le x l).
Proof.
  induction 1 as [|h t Hs IH Hall]; cbn [insert].
  - constructor; constructor.
  - destruct (bytes_le x h) eqn:E.
    + constructor; [constructor; assumption|]. constructor; [exact E|].
      rewrite Forall_forall in *. intros y Hy. specialize (Hall y Hy).
      apply bytes_le_cases in E. apply bytes_le_cases in Hall. apply bytes_le_cases.
      destruct E as [->|E], Hall as [->|Hall]; auto. right. eapply bytes_lt_trans; eauto.
    + constructor; [exact IH|]. apply bytes_le_total in E.
      rewrite Forall_forall in *. intros y Hy.
      apply (Permutation_in _ (insert_perm bytes_le x t)) in Hy. destruct Hy as [<-|Hy].
      * apply bytes_le_cases. now right.
      * now apply Hall.
Qed.
Lemma isort_sorted l : StronglySorted (fun a b => bytes_le a b = true) (isort bytes_le l).
Proof. induction l as [|x l IH]; [constructor|]. cbn [isort fold_right]. apply insert_sorted, IH. Qed.
Lemma dedup_go_strict p l : StronglySorted (fun a b => bytes_le a b = true) (p :: l) ->
  StronglySorted blt (dedup_go bytes_eqb p l) /\ Forall (blt p) (dedup_go bytes_eqb p l).
Proof.
  revert p; induction l as [|y t IH]; intros p H; cbn [dedup_go]; [split; constructor|].
  inversion H as [|? ? Hs Hall]; subst. inversion Hall as [|? ? Hpy Hpt]; subst.
  destruct (bytes_eqb p y) eqn:E.
  - apply bytes_eqb_spec in E. subst y. apply IH. exact Hs.
  - assert (Hlt : blt p y).
    { apply bytes_le_cases in Hpy as [->|Hpy]; [rewrite bytes_eqb_refl in E; discriminate | exact Hpy]. }
    destruct (IH y Hs) as [H1 H2]. split.
    + constructor; assumption.
    + constructor; [exact Hlt|]. rewrite Forall_forall in *. intros z Hz. eapply bytes_lt_trans; [exact Hlt | now apply H2].
Qed.
Lemma usort_strict l : StronglySorted blt (usort l).
Proof.
  unfold usort. pose proof (isort_sorted l) as H. destruct (isort bytes_le l) as [|x t]; cbn [dedup]; [constructor|].
  destruct (dedup_go_strict x t H). now constructor.
Qed.
Lemma usort_nodup l : NoDup (usort l).
Proof.
  pose proof (usort_strict l) as H. induction H as [|x t Hs IH Hall]; constructor; [|exact IH].
  intros Hin. rewrite Forall_forall in Hall. specialize (Hall x Hin). unfold blt in Hall. rewrite bytes_cmp_refl in Hall. discriminate.
Qed.

(* ================================================================== *)
(* Part 4: what an Ok read of ANY directory implies (hence the refusals) *)
Definition entry_ok (dir : bytes) (fs : list bytes) (e : entry) : Prop :=
  live_entry e = true ->
  content_or0 e = 0 /\ eq_ignore_case (e_format e) (bs "parquet") = true /\ is_remote (e_path e) = false /\
  exists p, resolve_uri (e_path e) dir = Ok p /\ In p fs.

Lemma entries_files_ok dir es l : entries_files dir es = Ok l ->
  (forall e, In e es -> entry_ok dir l e) /\
  (forall p, In p l -> exists e, In e es /\ live_entry e = true /\ resolve_uri (e_path e) dir = Ok p).
Proof.
  revert l; induction es as [|e r IH]; intros l H; cbn [entries_files] in H.
  - inversion H; subst. split; intros ? [].
  - destruct (e_status e =? 2) eqn:Est.
    + destruct (IH _ H) as [A B]. split.
      * intros e' [<-|Hin]; [|now apply A]. unfold entry_ok, live_entry. rewrite Est. discriminate.
      * intros p Hp. destruct (B p Hp) as (e' & ? & ? & ?). exists e'. cbn; auto.
    + destruct (content_or0 e =? 0) eqn:Ec; cbn [negb] in H; [|discriminate].
      destruct (eq_ignore_case (e_format e) (bs "parquet")) eqn:Ef; cbn [negb] in H; [|discriminate].
      destruct (resolve_uri (e_path e) dir) as [p|] eqn:Er; [|discriminate].
      destruct (entries_files dir r) as [l'|] eqn:El; [|discriminate]. inversion H; subst. clear H.
      destruct (IH _ eq_refl) as [A B]. split.
      * intros e' [<-|Hin].
        -- intros _. split; [now apply Z.eqb_eq|]. split; [exact Ef|].
           split; [eapply resolve_uri_ok_not_remote; eauto|]. exists p. split; [exact Er | now left].
        -- intros Hl. destruct (A e' Hin Hl) as (? & ? & ? & p' & ? & ?). repeat split; auto. exists p'. split; [auto | now right].
      * intros p' [<-|Hp].
        -- exists e. split; [now left|]. split; [unfold live_entry; now rewrite Est | exact Er].
        -- destruct (B p' Hp) as (e' & ? & ? & ?). exists e'. cbn; auto.
Qed.

Definition manifest_ok (t : table) (fs : list bytes) (u : bytes) : Prop :=
  exists mp es, resolve_uri u (t_dir t) = Ok mp /\ fs_lookup mp (t_mans t) = Some es /\
                forall e, In e es -> entry_ok (t_dir t) fs e.
Definition file_from (t : table) (ms : list bytes) (p : bytes) : Prop :=
  exists u mp es e, In u ms /\ resolve_uri u (t_dir t) = Ok mp /\ fs_lookup mp (t_mans t) = Some es /\
                    In e es /\ live_entry e = true /\ resolve_uri (e_path e) (t_dir t) = Ok p.

Lemma entry_ok_mono dir l l' e : (forall p, In p l -> In p l') -> entry_ok dir l e -> entry_ok dir l' e.
Proof. intros Hs H Hl. destruct (H Hl) as (? & ? & ? & p & ? & ?). repeat split; auto. exists p; auto. Qed.

Lemma manifests_files_ok t ms l : manifests_files t ms = Ok l ->
  (forall u, In u ms -> manifest_ok t l u) /\ (forall p, In p l -> file_from t ms p).
Proof.
  revert l; induction ms as [|u r IH]; intros l H; cbn [manifests_files] in H.
  - inversion H; subst. split; intros ? [].
  - destruct (resolve_uri u (t_dir t)) as [mp|] eqn:Er; [|discriminate].
    destruct (fs_lookup mp (t_mans t)) as [es|] eqn:El; [|discriminate].
    destruct (entries_files (t_dir t) es) as [l1|] eqn:E1; [|discriminate].
    destruct (manifests_files t r) as [l2|] eqn:E2; [|discriminate]. inversion H; subst. clear H.
    destruct (entries_files_ok _ _ _ E1) as [A1 B1]. destruct (IH _ eq_refl) as [A2 B2]. split.
    + intros u' [<-|Hin].
      * exists mp, es. split; [exact Er|]. split; [exact El|]. intros e He. eapply entry_ok_mono; [|apply A1, He]. intros; apply in_or_app; auto.
      * destruct (A2 u' Hin) as (mp' & es' & ? & ? & Hall). exists mp', es'. split; [assumption|]. split; [assumption|].
        intros e He. eapply entry_ok_mono; [|apply Hall, He]. intros; apply in_or_app; auto.
    + intros p Hp. apply in_app_or in Hp as [Hp|Hp].
      * destruct (B1 p Hp) as (e & ? & ? & ?). exists u, mp, es, e. cbn; auto 10.
      * destruct (B2 p Hp) as (u' & mp' & es' & e & ? & ? & ? & ? & ? & ?). exists u', mp', es', e. cbn; auto 10.
Qed.

(* sort + dedup keep every path up to path equality, and add nothing *)
Lemma canon_files_subset l p : In p (canon_files l) -> In p l.
Proof. unfold canon_files. intros H. apply dedup_subset in H. now apply isort_in in H. Qed.
Lemma canon_files_cover l p : In p l -> mem_path p (canon_files l) = true.
Proof.
  intros H. apply (isort_in path_le) in H. destruct (dedup_cover path_eqb _ _ H) as (z & Hz & Hz').
  unfold mem_path. apply existsb_exists. exists z. split; [exact Hz|].
  destruct Hz' as [->|Hz']; [apply path_eqb_refl | now rewrite path_eqb_sym].
Qed.

Definition entry_ok' (dir : bytes) (fs : list bytes) (e : entry) : Prop :=
  live_entry e = true ->
  content_or0 e = 0 /\ eq_ignore_case (e_format e) (bs "parquet") = true /\ is_remote (e_path e) = false /\
  exists p, resolve_uri (e_path e) dir = Ok p /\ mem_path p fs = true.

(* data_files_of returns exactly the live data files of the manifests the list names *)
Theorem data_files_exact t ml fs : data_files_of t ml = Ok fs ->
  exists ms, fs_lookup ml (t_lists t) = Some ms /\
    (forall u, In u ms -> exists mp es, resolve_uri u (t_dir t) = Ok mp /\ fs_lookup mp (t_mans t) = Some es /\
                                         forall e, In e es -> entry_ok' (t_dir t) fs e) /\
    (forall p, In p fs -> file_from t ms p).
Proof.
  unfold data_files_of. destruct (fs_lookup ml (t_lists t)) as [ms|]; [|discriminate].
  destruct (manifests_files t ms) as [l|] eqn:E; [|discriminate]. intros H; inversion H; subst; clear H.
  destruct (manifests_files_ok _ _ _ E) as [A B]. exists ms. split; [reflexivity|]. split.
  - intros u Hu. destruct (A u Hu) as (mp & es & ? & ? & Hall). exists mp, es. split; [assumption|]. split; [assumption|].
    intros e He Hl. destruct (Hall e He Hl) as (? & ? & ? & p & ? & ?). repeat split; auto.
    exists p. split; [auto | now apply canon_files_cover].
  - intros p Hp. apply B. now apply canon_files_subset.
Qed.

Lemma find_snap_in id l s : find_snap id l = Some s -> In s l /\ s_id s = id.
Proof. unfold find_snap. intros H. apply find_some in H as [? H]. now apply Z.eqb_eq in H. Qed.

Theorem open_inv t q o : open_table t q = Ok o ->
  exists n' md s ml,
    latest_metadata t = Ok (o_md o) /\ name_lookup (o_md o) (t_meta t) = Some (n', Some md) /\
    (md_fv md = 1 \/ md_fv md = 2) /\ In s (md_snaps md) /\ s_id s = o_sid o /\
    match q with Some id => o_sid o = id | None => md_cur md = Some (o_sid o) end /\
    resolve_uri (s_ml s) (t_dir t) = Ok ml /\ data_files_of t ml = Ok (o_files o) /\
    o_files o <> [] /\ forallb (file_exists t) (o_files o) = true.
Proof.
  unfold open_table. destruct (latest_metadata t) as [name|]; [|discriminate].
  destruct (name_lookup name (t_meta t)) as [[n' [md|]]|] eqn:En; try discriminate.
  destruct ((md_fv md =? 1) || (md_fv md =? 2)) eqn:Efv; cbn [negb]; [|discriminate].
  set (snaps := isort (fun a b => s_ts a <=? s_ts b) (md_snaps md)).
  set (chosen := match q with Some id => find_snap id snaps | None => match md_cur md with Some c => find_snap c snaps | None => None end end).
  destruct chosen as [s|] eqn:Ech; [|discriminate].
  destruct (resolve_uri (s_ml s) (t_dir t)) as [ml|] eqn:Er; [|discriminate].
  destruct (data_files_of t ml) as [files|] eqn:Ed; [|discriminate].
  destruct files as [|f0 fr] eqn:Ef; [discriminate|].
  destruct (forallb (file_exists t) (f0 :: fr)) eqn:Eex; [|discriminate].
  intros H; inversion H; subst o; clear H. cbn [o_md o_sid o_files].
  exists n', md, s, ml.
  assert (Hs : In s (md_snaps md) /\ match q with Some id => s_id s = id | None => md_cur md = Some (s_id s) end).
  { subst chosen. destruct q as [id|].
    - apply find_snap_in in Ech as [Hin ?]. split; [|assumption]. now apply (isort_in _ (md_snaps md)) in Hin.
    - destruct (md_cur md) as [c|]; [|discriminate]. apply find_snap_in in Ech as [Hin ?]. subst c.
      split; [|reflexivity]. now apply (isort_in _ (md_snaps md)) in Hin. }
  destruct Hs as [Hs1 Hs2]. repeat split; auto.
  - apply orb_true_iff in Efv as [E|E]; apply Z.eqb_eq in E; auto.
  - discriminate.
Qed.

(* refusals, in direct form *)
Theorem refuse_unknown_snapshot t id name n' md :
  latest_metadata t = Ok name -> name_lookup name (t_meta t) = Some (n', Some md) ->
  (forall s, In s (md_snaps md) -> s_id s <> id) -> open_table t (Some id) = Err EStorage.
Proof.
  intros H1 H2 H3. unfold open_table. rewrite H1, H2.
  destruct (negb ((md_fv md =? 1) || (md_fv md =? 2))); [reflexivity|].
  destruct (find_snap id (isort (fun a b => s_ts a <=? s_ts b) (md_snaps md))) as [s|] eqn:E; [|reflexivity].
  apply find_snap_in in E as [Hin ?]. apply (isort_in _ (md_snaps md)) in Hin. exfalso. eapply H3; eauto.
Qed.
Theorem refuse_no_current t name n' md :
  latest_metadata t = Ok name -> name_lookup name (t_meta t) = Some (n', Some md) ->
  md_cur md = None -> open_table t None = Err EStorage.
Proof.
  intros H1 H2 H3. unfold open_table. rewrite H1, H2, H3. destruct (negb _); reflexivity.
Qed.
Theorem refuse_bad_entry t ml ms u mp es e :
  fs_lookup ml (t_lists t) = Some ms -> In u ms -> resolve_uri u (t_dir t) = Ok mp ->
  fs_lookup mp (t_mans t) = Some es -> In e es -> live_entry e = true ->
  (content_or0 e <> 0 \/ eq_ignore_case (e_format e) (bs "parquet") = false \/ is_remote (e_path e) = true) ->
  exists x, data_files_of t ml = Err x.
Proof.
  intros Hl Hu Hr Hm He Hlive Hbad. destruct (data_files_of t ml) as [fs|x] eqn:E; [|now exists x].
  exfalso. destruct (data_files_exact _ _ _ E) as (ms' & Hl' & A & _). rewrite Hl in Hl'. inversion Hl'; subst ms'.
  destruct (A u Hu) as (mp' & es' & Hr' & Hm' & Hall). rewrite Hr in Hr'. inversion Hr'; subst mp'.
  rewrite Hm in Hm'. inversion Hm'; subst es'. destruct (Hall e He Hlive) as (H1 & H2 & H3 & _).
  destruct Hbad as [Hb|[Hb|Hb]]; congruence.
Qed.
Theorem refuse_remote_manifest t ml ms u :
  fs_lookup ml (t_lists t) = Some ms -> In u ms -> is_remote u = true -> exists x, data_files_of t ml = Err x.
Proof.
  intros Hl Hu Hr. destruct (data_files_of t ml) as [fs|x] eqn:E; [|now exists x].
  exfalso. destruct (data_files_exact _ _ _ E) as (ms' & Hl' & A & _). rewrite Hl in Hl'. inversion Hl'; subst ms'.
  destruct (A u Hu) as (mp' & es' & Hr' & _). rewrite (resolve_uri_remote _ _ Hr) in Hr'. discriminate.
Qed.
Theorem open_nonempty t q o : open_table t q = Ok o -> o_files o <> [].
Proof. intros H. destruct (open_inv _ _ _ H) as (? & ? & ? & ? & H'). tauto. Qed.


(* ================================================================== *)
(* Part 5: the reader on a rendered logical state *)
Definition absd (dir n : bytes) : bytes := absp dir (data_rel n).

Record WF (s : lstate) : Prop := {
  wf_metas : exists m rest, st_metas s = m :: rest;
  wf_listed_nodup : NoDup (map ls_id (l_snaps (cur_meta s)));
  wf_listed_in : forall x, In x (l_snaps (cur_meta s)) -> In x (st_snaps s);
  wf_snaps_nodup : NoDup (map ls_id (st_snaps s));
  wf_mans_nodup : NoDup (map lm_id (st_mans s));
  wf_mans_exist : forall x, In x (st_snaps s) -> forall i, In i (ls_mans x) -> exists m, In m (st_mans s) /\ lm_id m = i;
  wf_names : forall m, In m (st_mans s) -> forall e, In e (lm_entries m) -> good_name (snd e) = true /\ In (snd e) (st_files s)
}.
(* how the current metadata file is found: by the hint, or because it is strictly the newest *)
Definition meta_disc (hint : bool) (s : lstate) : Prop :=
  hint = true \/ forall m, In m (tl (st_metas s)) -> l_lu m < l_lu (cur_meta s).

Definition l_open (s : lstate) (q : option Z) : option (nat * list bytes) :=
  let m := cur_meta s in
  match (match q with Some i => Some i | None => option_map Z.of_nat (l_cur m) end) with
  | None => None
  | Some id => match find (fun x => Z.of_nat (ls_id x) =? id) (l_snaps m) with
               | None => None
               | Some x => Some (ls_id x, live_names (st_mans s) (ls_mans x))
               end
  end.

Lemma md_name_suffix n : ends_with md_suffix (md_name n) = true.
Proof. unfold md_name. rewrite app_assoc. apply ends_with_app. Qed.

Lemma scan_meta_older dir rest T nm : (forall m, In m rest -> l_lu m < T) ->
  scan_meta (map (render_meta dir) rest) (Some (T, nm)) = Ok (Some (T, nm)).
Proof.
  induction rest as [|m rest IH]; intros H; [reflexivity|]. cbn [map render_meta scan_meta].
  rewrite md_name_suffix. cbn [negb md_lu]. unfold key_gt. cbn [fst snd].
  assert (l_lu m < T) as Hlt by (apply H; now left). apply Z.compare_lt_iff in Hlt. rewrite Hlt.
  apply IH. intros; apply H; now right.
Qed.

Lemma latest_metadata_render dir hint s : WF s -> meta_disc hint s ->
  latest_metadata (render dir hint s) = Ok (md_name (lv (cur_meta s))).
Proof.
  intros W D. destruct (wf_metas _ W) as (m & rest & Hm). unfold latest_metadata, render, cur_meta. rewrite Hm.
  cbn [t_hint t_meta hd map]. destruct hint.
  - rewrite hint_candidate_decb. unfold name_lookup. cbn [find render_meta fst]. now rewrite bytes_eqb_refl.
  - destruct D as [D|D]; [discriminate|]. unfold cur_meta in D. rewrite Hm in D. cbn [tl hd] in D.
    cbn [scan_meta render_meta]. rewrite md_name_suffix. cbn [negb md_lu]. now rewrite scan_meta_older.
Qed.

Lemma find_map {A B} (f : A -> B) (P : B -> bool) l : find P (map f l) = option_map f (find (fun x => P (f x)) l).
Proof. induction l as [|x l IH]; [reflexivity|]. cbn. destruct (P (f x)); [reflexivity | exact IH]. Qed.
Lemma find_unique_perm {A} (P : A -> bool) l l' :
  (forall x y, In x l -> In y l -> P x = true -> P y = true -> x = y) -> Permutation l l' -> find P l = find P l'.
Proof.
  intros U Hp. destruct (find P l) as [x|] eqn:E.
  - apply find_some in E as [Hin HP]. destruct (find P l') as [y|] eqn:E'.
    + apply find_some in E' as [Hin' HP']. f_equal. apply U; auto. eapply Permutation_in; [apply Permutation_sym, Hp | exact Hin'].
    + exfalso. eapply find_none in E'; [|eapply Permutation_in; [exact Hp | exact Hin]]. congruence.
  - destruct (find P l') as [y|] eqn:E'; [|reflexivity]. apply find_some in E' as [Hin' HP'].
    eapply find_none in E; [|eapply Permutation_in; [apply Permutation_sym, Hp | exact Hin']]. congruence.
Qed.
Lemma nodup_map_inj {A B} (f : A -> B) l x y : NoDup (map f l) -> In x l -> In y l -> f x = f y -> x = y.
Proof.
  induction l as [|a l IH]; intros Hn Hx Hy He; [contradiction|]. cbn in Hn. inversion Hn as [|? ? Hnotin Hn']; subst.
  destruct Hx as [->|Hx], Hy as [->|Hy]; auto.
  - exfalso. apply Hnotin. rewrite He. now apply in_map.
  - exfalso. apply Hnotin. rewrite <- He. now apply in_map.
Qed.

Lemma chosen_render dir L id : NoDup (map ls_id L) ->
  find_snap id (isort (fun a b => s_ts a <=? s_ts b) (map (render_snap dir) L))
  = option_map (render_snap dir) (find (fun x => Z.of_nat (ls_id x) =? id) L).
Proof.
  intros Hn. unfold find_snap.
  rewrite (find_unique_perm _ _ (map (render_snap dir) L)).
  - now rewrite find_map.
  - intros x y Hx Hy Px Py. apply (Permutation_in _ (isort_perm _ _)) in Hx. apply (Permutation_in _ (isort_perm _ _)) in Hy.
    apply in_map_iff in Hx as (x0 & <- & Hx0). apply in_map_iff in Hy as (y0 & <- & Hy0).
    cbn [render_snap s_id] in Px, Py. apply Z.eqb_eq in Px, Py. f_equal.
    apply (nodup_map_inj ls_id L); auto. apply Nat2Z.inj. congruence.
  - apply isort_perm.
Qed.

(* lookup of dir/<d1>/<file k> in a rendered store of items with distinct ids *)
Lemma lookup_store {X V} (items : list X) (id : X -> nat) (file : nat -> bytes) (val : X -> V) dir d1 x :
  (forall k, good_name (file k) = true) -> (forall a b, file a = file b -> a = b) -> good_name d1 = true ->
  NoDup (map id items) -> In x items ->
  fs_lookup (in_dir dir d1 (file (id x))) (map (fun y => (in_dir dir d1 (file (id y)), val y)) items) = Some (val x).
Proof.
  intros Hg Hinj Hd. unfold fs_lookup. induction items as [|y items IH]; intros Hn Hin; [contradiction|].
  cbn [map find fst]. rewrite path_eqb_in_dir by auto. cbn in Hn. inversion Hn as [|? ? Hnotin Hn']; subst.
  destruct Hin as [->|Hin].
  - now rewrite bytes_eqb_refl.
  - rewrite bytes_eqb_false; [now apply IH|]. intros He. apply Hinj in He. apply Hnotin. rewrite <- He. now apply in_map.
Qed.

Lemma find_lman_in mans m : NoDup (map lm_id mans) -> In m mans -> find_lman (lm_id m) mans = Some m.
Proof.
  intros Hn Hin. unfold find_lman. destruct (find (fun x => Nat.eqb (lm_id x) (lm_id m)) mans) as [m'|] eqn:E.
  - apply find_some in E as [Hin' He]. apply Nat.eqb_eq in He. f_equal. eapply nodup_map_inj; eauto.
  - eapply find_none in E; [|exact Hin]. rewrite Nat.eqb_refl in E. discriminate.
Qed.
Lemma find_lman_some i mans m : find_lman i mans = Some m -> In m mans /\ lm_id m = i.
Proof. unfold find_lman. intros H. apply find_some in H as [? H]. now apply Nat.eqb_eq in H. Qed.

Lemma parquet_ok : eq_ignore_case (bs "PARQUET") (bs "parquet") = true. Proof. reflexivity. Qed.

Lemma live_of_entries_cons st n es :
  live_of_entries ((st, n) :: es) = if st =? 2 then live_of_entries es else n :: live_of_entries es.
Proof. unfold live_of_entries. cbn [filter fst]. destruct (st =? 2); reflexivity. Qed.

Lemma entries_files_render f dir es : good_dir dir = true ->
  (forall e, In e es -> good_name (snd e) = true) ->
  entries_files dir (map (render_entry f dir) es) = Ok (map (absd dir) (live_of_entries es)).
Proof.
  intros Hd. induction es as [|[st n] es IH]; intros Hg; [reflexivity|].
  rewrite live_of_entries_cons. cbn [map entries_files]. unfold render_entry at 1 2 3 4.
  cbn [e_status e_content e_format e_path fst snd content_or0].
  destruct (st =? 2) eqn:Est.
  - apply IH. intros; apply Hg; now right.
  - rewrite parquet_ok. cbn [Z.eqb negb]. change (e_path (render_entry f dir (st, n))) with (uri_of f dir (data_rel n)).
    rewrite data_rel_eq, resolve_uri_forms; [|exact Hd|apply good_rel_in; [apply good_d_data | apply (Hg (st, n)); now left]].
    rewrite IH by (intros; apply Hg; now right). reflexivity.
Qed.

Lemma manifests_files_render dir hint s f ids : good_dir dir = true -> WF s ->
  (forall i, In i ids -> exists m, In m (st_mans s) /\ lm_id m = i) ->
  manifests_files (render dir hint s) (map (fun i => uri_of f dir (man_rel i)) ids)
  = Ok (map (absd dir) (live_names (st_mans s) ids)).
Proof.
  intros Hd W. induction ids as [|i ids IH]; intros Hex; [reflexivity|].
  cbn [map manifests_files]. cbn [render t_dir t_mans].
  destruct (Hex i (or_introl eq_refl)) as (m & Hm & Hi).
  rewrite man_rel_eq, resolve_uri_forms; [|exact Hd|apply good_rel_in; [apply good_d_meta | apply good_man_file]].
  change (absp dir (d_meta ++ slash :: man_file i)) with (in_dir dir d_meta (man_file i)).
  assert (Hl : fs_lookup (in_dir dir d_meta (man_file i)) (map (render_man dir) (st_mans s))
               = Some (map (render_entry (lm_form m) dir) (lm_entries m))).
  { subst i. unfold render_man.
    apply (lookup_store (st_mans s) lm_id man_file (fun y => map (render_entry (lm_form y) dir) (lm_entries y)));
      auto using good_man_file, man_file_inj, good_d_meta, (wf_mans_nodup _ W). }
  rewrite Hl, entries_files_render; [|exact Hd|intros e He; apply (wf_names _ W m Hm e He)].
  cbn [render t_dir t_mans] in IH. rewrite IH by (intros; apply Hex; now right).
  unfold live_names. cbn [map concat]. rewrite map_app. do 2 f_equal.
  unfold man_live. subst i. now rewrite (find_lman_in _ _ (wf_mans_nodup _ W) Hm).
Qed.

Lemma canon_files_render dir L : (forall n, In n L -> good_name n = true) ->
  canon_files (map (absd dir) L) = map (absd dir) (usort L).
Proof.
  intros Hg. unfold canon_files, usort.
  change (absd dir) with (fun n => in_dir dir d_data n).
  rewrite (isort_map _ bytes_le path_le).
  - apply dedup_map. intros a b Ha Hb. apply isort_in in Ha, Hb. apply path_eqb_in_dir; auto using good_d_data.
  - intros a b Ha Hb. apply path_le_in_dir; auto using good_d_data.
Qed.

Lemma live_names_in mans ids n : In n (live_names mans ids) ->
  exists i m e, In i ids /\ In m mans /\ lm_id m = i /\ In e (lm_entries m) /\ snd e = n.
Proof.
  unfold live_names. intros H. apply in_concat in H as (l & Hl & Hn). apply in_map_iff in Hl as (i & <- & Hi).
  unfold man_live in Hn. destruct (find_lman i mans) as [m|] eqn:E; [|contradiction].
  apply find_lman_some in E as [Hm Hid]. unfold live_of_entries in Hn. apply in_map_iff in Hn as (e & He & Hf).
  apply filter_In in Hf as [Hf _]. exists i, m, e. auto.
Qed.

Lemma file_exists_render dir hint s n : In n (st_files s) -> file_exists (render dir hint s) (absd dir n) = true.
Proof.
  intros Hin. unfold file_exists, fs_lookup. cbn [render t_data].
  destruct (find (fun kv => path_eqb (absd dir n) (fst kv)) (map (fun n0 => (absp dir (data_rel n0), name_rows n0)) (st_files s))) eqn:E; [reflexivity|].
  eapply find_none in E; [|apply in_map; exact Hin]. cbn [fst] in E. unfold absd in E. rewrite path_eqb_refl in E. discriminate.
Qed.

Theorem open_render dir hint s q : good_dir dir = true -> WF s -> meta_disc hint s ->
  open_table (render dir hint s) q =
  match l_open s q with
  | None => Err EStorage
  | Some (k, L) => match L with
                   | [] => Err EStorage
                   | _ => Ok (mkOpened (md_name (lv (cur_meta s))) (Z.of_nat k) (map (absd dir) (usort L)))
                   end
  end.
Proof.
  intros Hd W D. unfold open_table. rewrite (latest_metadata_render dir hint s W D).
  destruct (wf_metas _ W) as (m & rest & Hm).
  assert (Hcm : cur_meta s = m) by (unfold cur_meta; now rewrite Hm). rewrite Hcm.
  assert (Hlk : name_lookup (md_name (lv m)) (t_meta (render dir hint s)) = Some (render_meta dir m)).
  { cbn [render t_meta]. rewrite Hm. cbn [map]. unfold name_lookup. cbn [find render_meta fst]. now rewrite bytes_eqb_refl. }
  rewrite Hlk. cbn [render_meta md_fv md_snaps md_cur]. cbn [Z.eqb orb negb Pos.eqb].
  unfold l_open. rewrite Hcm.
  assert (Hn : NoDup (map ls_id (l_snaps m))) by (rewrite <- Hcm; apply (wf_listed_nodup _ W)).
  set (want := match q with Some i => Some i | None => option_map Z.of_nat (l_cur m) end).
  assert (Hch : match q with
                | Some id => find_snap id (isort (fun a b => s_ts a <=? s_ts b) (map (render_snap dir) (l_snaps m)))
                | None => match option_map Z.of_nat (l_cur m) with
                          | Some c => find_snap c (isort (fun a b => s_ts a <=? s_ts b) (map (render_snap dir) (l_snaps m)))
                          | None => None end
                end = match want with
                      | None => None
                      | Some id => option_map (render_snap dir) (find (fun x => Z.of_nat (ls_id x) =? id) (l_snaps m))
                      end).
  { subst want. destruct q as [id|]; [now apply chosen_render|]. destruct (option_map Z.of_nat (l_cur m)); [now apply chosen_render | reflexivity]. }
  rewrite Hch. destruct want as [id|]; [|reflexivity].
  destruct (find (fun x => Z.of_nat (ls_id x) =? id) (l_snaps m)) as [x|] eqn:Ef; [|reflexivity].
  cbn [option_map render_snap s_ml s_id].
  apply find_some in Ef as [Hxin _].
  assert (Hxs : In x (st_snaps s)) by (apply (wf_listed_in _ W); now rewrite Hcm).
  cbn [render t_dir]. rewrite list_rel_eq, resolve_uri_forms; [|exact Hd|apply good_rel_in; [apply good_d_meta | apply good_list_file]].
  change (absp dir (d_meta ++ slash :: list_file (ls_id x))) with (in_dir dir d_meta (list_file (ls_id x))).
  unfold data_files_of.
  assert (Hl : fs_lookup (in_dir dir d_meta (list_file (ls_id x))) (t_lists (render dir hint s))
               = Some (map (fun i => uri_of (ls_form x) dir (man_rel i)) (ls_mans x))).
  { cbn [render t_lists]. unfold render_list.
    apply (lookup_store (st_snaps s) ls_id list_file (fun y => map (fun i => uri_of (ls_form y) dir (man_rel i)) (ls_mans y)));
      auto using good_list_file, list_file_inj, good_d_meta, (wf_snaps_nodup _ W). }
  rewrite Hl. rewrite (manifests_files_render dir hint s (ls_form x) (ls_mans x) Hd W (wf_mans_exist _ W x Hxs)).
  set (L := live_names (st_mans s) (ls_mans x)).
  assert (HL : forall n, In n L -> good_name n = true /\ In n (st_files s)).
  { intros n Hn'. apply live_names_in in Hn' as (i & m' & e & _ & Hm' & _ & He & <-). apply (wf_names _ W m' Hm' e He). }
  rewrite canon_files_render by (intros n Hn'; apply HL, Hn').
  destruct L as [|a L'] eqn:EL.
  - reflexivity.
  - assert (Hex : forallb (file_exists (render dir hint s)) (map (absd dir) (usort (a :: L'))) = true).
    { apply forallb_forall. intros p Hp. apply in_map_iff in Hp as (n & <- & Hn'). apply (proj1 (usort_in _ _)) in Hn'.
      apply file_exists_render. apply HL, Hn'. }
    remember (map (absd dir) (usort (a :: L'))) as fs eqn:Efs. destruct fs as [|f0 fr].
    { symmetry in Efs. apply map_eq_nil in Efs. apply usort_nil in Efs. discriminate. }
    rewrite Hex. reflexivity.
Qed.

(* ================================================================== *)
(* Part 6: replayed histories vs the abstract semantics *)
Definition snap_view (mans : list lman) (x : lsnap) : Z * list bytes :=
  (Z.of_nat (ls_id x), live_names mans (ls_mans x)).

Record INV (s : lstate) (a : astate) : Prop := {
  iv_wf : WF s;
  iv_sid_lt : forall x, In x (st_snaps s) -> (ls_id x < st_next_sid s)%nat;
  iv_man_lt : forall m, In m (st_mans s) -> (lm_id m < st_next_man s)%nat;
  iv_next : a_next a = st_next_sid s;
  iv_cur : a_cur a = option_map Z.of_nat (l_cur (cur_meta s));
  iv_snaps : a_snaps a = map (snap_view (st_mans s)) (l_snaps (cur_meta s));
  iv_lv : lv (cur_meta s) = length (st_metas s);
  iv_files_good : forall n, In n (st_files s) -> good_name n = true
}.

Lemma find_ext' {A} (P Q : A -> bool) l : (forall x, P x = Q x) -> find P l = find Q l.
Proof. intros H. induction l as [|x l IH]; [reflexivity|]. cbn. rewrite H, IH. reflexivity. Qed.
Lemma find_lman_app_fresh i new old : (forall m, In m new -> lm_id m <> i) -> find_lman i (new ++ old) = find_lman i old.
Proof.
  unfold find_lman. induction new as [|a new IH]; cbn [app find]; intros H; [reflexivity|].
  destruct (Nat.eqb_spec (lm_id a) i) as [E|E]; [exfalso; eapply H; [now left | exact E]|].
  apply IH. intros; apply H; now right.
Qed.
Lemma find_lman_skip i A m' B : lm_id m' <> i -> find_lman i (A ++ m' :: B) = find_lman i (A ++ B).
Proof.
  intros Hne. unfold find_lman. induction A as [|a A IH]; cbn [app find].
  - destruct (Nat.eqb_spec (lm_id m') i); [contradiction | reflexivity].
  - destruct (Nat.eqb (lm_id a) i); [reflexivity | exact IH].
Qed.
Lemma live_names_ext m1 m2 ids : (forall i, In i ids -> find_lman i m1 = find_lman i m2) -> live_names m1 ids = live_names m2 ids.
Proof. unfold live_names. intros H. f_equal. apply map_ext_in. intros i Hi. unfold man_live. now rewrite H. Qed.
Lemma live_names_fresh new old ids : (forall i, In i ids -> forall m, In m new -> lm_id m <> i) ->
  live_names (new ++ old) ids = live_names old ids.
Proof. intros H. apply live_names_ext. intros i Hi. apply find_lman_app_fresh. intros m Hm. now apply H. Qed.
Lemma live_names_cons mans i ids : live_names mans (i :: ids) = man_live mans i ++ live_names mans ids.
Proof. reflexivity. Qed.
Lemma live_names_app mans a b : live_names mans (a ++ b) = live_names mans a ++ live_names mans b.
Proof. unfold live_names. now rewrite map_app, concat_app. Qed.

Lemma live_of_entries_map_live c names : c <> 2 -> live_of_entries (map (fun n => (c, n)) names) = names.
Proof.
  intros Hc. unfold live_of_entries. induction names as [|n names IH]; [reflexivity|]. cbn [map filter fst].
  destruct (Z.eqb_spec c 2); [contradiction|]. cbn [negb map snd]. f_equal. exact IH.
Qed.
Lemma live_of_rewrite names es :
  live_of_entries (rewrite_entries names es) = filter (fun n => negb (mem_bytes n names)) (live_of_entries es).
Proof.
  unfold rewrite_entries. induction es as [|[st n] es IH]; [reflexivity|].
  rewrite live_of_entries_cons. cbn [filter fst]. destruct (st =? 2); cbn [negb]; [exact IH|].
  cbn [map snd fst]. rewrite live_of_entries_cons. cbn [filter]. destruct (mem_bytes n names); cbn [negb Z.eqb]; [exact IH|].
  f_equal. exact IH.
Qed.
Lemma untouched_filter names es : touches names es = false ->
  filter (fun n => negb (mem_bytes n names)) (live_of_entries es) = live_of_entries es.
Proof.
  unfold touches. intros H. induction (live_of_entries es) as [|n l IH]; [reflexivity|]. cbn [existsb] in H.
  apply orb_false_iff in H as [H1 H2]. cbn [filter]. rewrite H1. cbn [negb]. f_equal. now apply IH.
Qed.
Lemma NoDup_snoc {A} (l : list A) x : NoDup l -> ~ In x l -> NoDup (l ++ [x]).
Proof.
  intros H1 H2. eapply Permutation_NoDup; [apply Permutation_cons_append|]. now constructor.
Qed.
Lemma NoDup_app_intro {A} (a b : list A) : NoDup a -> NoDup b -> (forall x, In x a -> ~ In x b) -> NoDup (a ++ b).
Proof.
  induction a as [|x a IH]; intros Ha Hb Hd; [exact Hb|]. inversion Ha as [|? ? Hn Ha']; subst. cbn [app]. constructor.
  - intros Hin. apply in_app_or in Hin as [Hin|Hin]; [contradiction | apply (Hd x); [now left | exact Hin]].
  - apply IH; auto. intros y Hy. apply Hd. now right.
Qed.
Lemma NoDup_map_filter {A B} (f : A -> B) p l : NoDup (map f l) -> NoDup (map f (filter p l)).
Proof.
  induction l as [|x l IH]; intros H; [constructor|]. cbn in H. inversion H as [|? ? Hn H']; subst. cbn [filter].
  destruct (p x); [|now apply IH]. cbn [map]. constructor; [|now apply IH].
  intros Hin. apply Hn. apply in_map_iff in Hin as (y & <- & Hy). apply filter_In in Hy as [Hy _]. now apply in_map.
Qed.

Lemma rewrite_mans_spec all names f : NoDup (map lm_id all) ->
  forall ids next ids' new,
  (forall i, In i ids -> exists m, In m all /\ lm_id m = i) ->
  (forall m, In m all -> (lm_id m < next)%nat) ->
  rewrite_mans all names f next ids = (ids', new) ->
  (forall m, In m new -> (next <= lm_id m < next + length new)%nat) /\
  NoDup (map lm_id new) /\
  (forall i, In i ids' -> exists m, In m (new ++ all) /\ lm_id m = i) /\
  (forall m, In m new -> forall e, In e (lm_entries m) -> exists m0 e0, In m0 all /\ In e0 (lm_entries m0) /\ snd e0 = snd e) /\
  live_names (new ++ all) ids' = filter (fun n => negb (mem_bytes n names)) (live_names all ids).
Proof.
  intros Hnd. induction ids as [|i r IH]; intros next ids' new Hex Hlt H; cbn [rewrite_mans] in H.
  - inversion H; subst. split; [intros ? []|]. split; [constructor|]. split; [intros ? []|]. split; [intros ? []|]. reflexivity.
  - destruct (Hex i (or_introl eq_refl)) as (m & Hm & Hi).
    assert (Hf : find_lman i all = Some m) by (subst i; now apply find_lman_in). rewrite Hf in H.
    assert (Hex' : forall j, In j r -> exists m, In m all /\ lm_id m = j) by (intros; apply Hex; now right).
    destruct (touches names (lm_entries m)) eqn:Et.
    + destruct (rewrite_mans all names f (S next) r) as [ids2 new2] eqn:E. inversion H; subst ids' new; clear H.
      destruct (IH (S next) ids2 new2 Hex' (fun m0 H0 => Nat.lt_lt_succ_r _ _ (Hlt m0 H0)) E) as (C1 & C2 & C3 & C4 & C5).
      set (m' := mkLman next f (rewrite_entries names (lm_entries m))).
      assert (Hfresh2 : forall m0, In m0 new2 -> lm_id m0 <> next) by (intros m0 H0; specialize (C1 m0 H0); lia).
      split; [|split; [|split; [|split]]].
      * intros m0 H0. rewrite app_length. cbn [length]. apply in_app_or in H0 as [H0|[<-|[]]]; [specialize (C1 m0 H0); lia | cbn; lia].
      * rewrite map_app. cbn [map]. apply NoDup_snoc; [exact C2|]. intros Hin. apply in_map_iff in Hin as (m0 & Hid & H0).
        now apply (Hfresh2 m0 H0).
      * intros j [<-|Hj].
        -- exists m'. split; [apply in_or_app; left; apply in_or_app; right; now left | reflexivity].
        -- destruct (C3 j Hj) as (m0 & H0 & Hid). exists m0. split; [|exact Hid].
           apply in_app_or in H0 as [H0|H0]; apply in_or_app; [left; apply in_or_app; now left | now right].
      * intros m0 H0 e He. apply in_app_or in H0 as [H0|[<-|[]]]; [now apply (C4 m0 H0 e He)|].
        cbn [lm_entries m'] in He. unfold rewrite_entries in He. apply in_map_iff in He as (e0 & <- & He0).
        apply filter_In in He0 as [He0 _]. exists m, e0. auto.
      * rewrite !live_names_cons, filter_app. f_equal.
        -- unfold man_live at 1. rewrite <- app_assoc. rewrite find_lman_app_fresh by exact Hfresh2.
           cbn [app]. unfold find_lman. cbn [find lm_id m']. rewrite Nat.eqb_refl. cbn [lm_entries].
           subst m'. cbn [lm_entries]. rewrite live_of_rewrite. unfold man_live. now rewrite Hf.
        -- rewrite <- C5. apply live_names_ext. intros j Hj. rewrite <- app_assoc. cbn [app].
           apply find_lman_skip. cbn [lm_id m']. destruct (C3 j Hj) as (m0 & H0 & <-).
           apply in_app_or in H0 as [H0|H0]; [specialize (C1 m0 H0); lia | specialize (Hlt m0 H0); lia].
    + destruct (rewrite_mans all names f next r) as [ids2 new2] eqn:E. inversion H; subst ids' new; clear H.
      destruct (IH next ids2 new2 Hex' Hlt E) as (C1 & C2 & C3 & C4 & C5).
      split; [exact C1|]. split; [exact C2|]. split; [|split; [exact C4|]].
      * intros j [<-|Hj]; [exists m; split; [apply in_or_app; now right | exact Hi] | now apply C3].
      * rewrite !live_names_cons, filter_app. f_equal; [|exact C5].
        unfold man_live. rewrite find_lman_app_fresh.
        -- rewrite Hf. symmetry. now apply untouched_filter.
        -- intros m0 H0. specialize (C1 m0 H0). specialize (Hlt m Hm). lia.
Qed.

(* every step writes exactly one new metadata file *)
Lemma l_step_metas s o : exists m', st_metas (l_step s o) = m' :: st_metas s /\ lv m' = S (lv (cur_meta s)) /\
  l_lu m' = st_clock s + op_dt o /\ st_clock (l_step s o) = st_clock s + op_dt o.
Proof.
  destruct o; cbn [l_step op_dt]; try (eexists; cbn; repeat split; reflexivity).
  destruct (rewrite_mans (st_mans s) names f (st_next_man s) (cur_mans s)) as [ids new]. eexists; cbn; repeat split; reflexivity.
Qed.

Lemma cur_mans_in s a : INV s a -> forall i, In i (cur_mans s) -> exists m, In m (st_mans s) /\ lm_id m = i.
Proof.
  intros I i Hi. unfold cur_mans in Hi. destruct (l_cur (cur_meta s)) as [c|]; [|contradiction].
  destruct (find_lsnap c (l_snaps (cur_meta s))) as [x|] eqn:E; [|contradiction].
  apply find_some in E as [Hx _]. apply (wf_mans_exist _ (iv_wf _ _ I) x); [|exact Hi]. now apply (wf_listed_in _ (iv_wf _ _ I)).
Qed.

Lemma a_lookup_view mans L id :
  a_lookup id (map (snap_view mans) L) = option_map (fun x => live_names mans (ls_mans x)) (find (fun x => Z.of_nat (ls_id x) =? id) L).
Proof.
  unfold a_lookup. rewrite find_map. cbn [snap_view fst]. destruct (find _ L); reflexivity.
Qed.
Lemma alive_eq s a : INV s a -> a_alive a = live_names (st_mans s) (cur_mans s).
Proof.
  intros I. unfold a_alive, cur_mans. rewrite (iv_cur _ _ I), (iv_snaps _ _ I).
  destruct (l_cur (cur_meta s)) as [c|]; cbn [option_map]; [|reflexivity].
  rewrite a_lookup_view. unfold find_lsnap.
  rewrite (find_ext' (fun x => Z.of_nat (ls_id x) =? Z.of_nat c) (fun x => Nat.eqb (ls_id x) c)).
  - destruct (find _ (l_snaps (cur_meta s))); reflexivity.
  - intros x. destruct (Nat.eqb_spec (ls_id x) c) as [->|Hne]; [apply Z.eqb_refl|]. apply Z.eqb_neq. lia.
Qed.

Lemma commit_INV s a dt f mans newmans files Lnew :
  INV s a ->
  (forall m, In m newmans -> (st_next_man s <= lm_id m < st_next_man s + length newmans)%nat) ->
  NoDup (map lm_id newmans) ->
  (forall i, In i mans -> exists m, In m (newmans ++ st_mans s) /\ lm_id m = i) ->
  (forall m, In m newmans -> forall e, In e (lm_entries m) -> good_name (snd e) = true /\ In (snd e) (files ++ st_files s)) ->
  (forall n, In n files -> good_name n = true) ->
  live_names (newmans ++ st_mans s) mans = Lnew ->
  INV (commit s dt f mans newmans files) (a_commit a Lnew).
Proof.
  intros I Hrange Hnd Hex Hnames Hfg Hlive. pose proof (iv_wf _ _ I) as W.
  assert (Hfresh : forall x, In x (st_snaps s) -> forall i, In i (ls_mans x) -> forall m, In m newmans -> lm_id m <> i).
  { intros x Hx i Hi m Hm He. destruct (wf_mans_exist _ W x Hx i Hi) as (m0 & H0 & Hid).
    pose proof (iv_man_lt _ _ I m0 H0). specialize (Hrange m Hm). lia. }
  set (snap := mkLsnap (st_next_sid s) (st_clock s + dt) f mans).
  assert (Hsid : ~ In (st_next_sid s) (map ls_id (st_snaps s))).
  { intros Hin. apply in_map_iff in Hin as (x & He & Hx). pose proof (iv_sid_lt _ _ I x Hx). lia. }
  constructor; unfold commit; cbn [st_metas st_snaps st_mans st_files st_next_sid st_next_man cur_meta hd l_snaps l_cur lv a_commit a_next a_cur a_snaps].
  - constructor; cbn [st_metas st_snaps st_mans st_files cur_meta hd l_snaps].
    + eexists; eexists; reflexivity.
    + rewrite map_app. cbn [map ls_id]. apply NoDup_snoc; [apply (wf_listed_nodup _ W)|].
      intros Hin. apply Hsid. apply in_map_iff in Hin as (x & He & Hx). apply in_map_iff. exists x. split; [exact He|]. now apply (wf_listed_in _ W).
    + intros x Hx. apply in_app_or in Hx as [Hx|[<-|[]]]; [right; now apply (wf_listed_in _ W) | now left].
    + cbn [map ls_id]. constructor; [exact Hsid | apply (wf_snaps_nodup _ W)].
    + rewrite map_app. apply NoDup_app_intro; [exact Hnd | apply (wf_mans_nodup _ W)|].
      intros i Hi Hi'. apply in_map_iff in Hi as (m1 & <- & H1). apply in_map_iff in Hi' as (m0 & He & H0).
      pose proof (iv_man_lt _ _ I m0 H0). specialize (Hrange m1 H1). lia.
    + intros x [<-|Hx] i Hi.
      * now apply Hex.
      * destruct (wf_mans_exist _ W x Hx i Hi) as (m0 & H0 & Hid). exists m0. split; [apply in_or_app; now right | exact Hid].
    + intros m Hm e He. apply in_app_or in Hm as [Hm|Hm]; [now apply Hnames with m|].
      destruct (wf_names _ W m Hm e He) as [? ?]. split; [assumption | apply in_or_app; now right].
  - intros x [<-|Hx]; [cbn; lia|]. pose proof (iv_sid_lt _ _ I x Hx). lia.
  - intros m Hm. apply in_app_or in Hm as [Hm|Hm]; [specialize (Hrange m Hm); lia | pose proof (iv_man_lt _ _ I m Hm); lia].
  - now rewrite (iv_next _ _ I).
  - now rewrite (iv_next _ _ I).
  - rewrite map_app, (iv_snaps _ _ I). cbn [map]. f_equal.
    + apply map_ext_in. intros x Hx. unfold snap_view. f_equal. symmetry. apply live_names_fresh.
      intros i Hi m Hm. apply (Hfresh x); auto. now apply (wf_listed_in _ W).
    + unfold snap_view. cbn [ls_id ls_mans snap]. now rewrite (iv_next _ _ I), Hlive.
  - cbn [length]. now rewrite (iv_lv _ _ I).
  - intros n Hn. apply in_app_or in Hn as [Hn|Hn]; [now apply Hfg | now apply (iv_files_good _ _ I)].
Qed.

Lemma push_INV s a dt cur snaps a' :
  INV s a -> (forall x, In x snaps -> In x (l_snaps (cur_meta s))) -> NoDup (map ls_id snaps) ->
  a_next a' = a_next a -> a_cur a' = option_map Z.of_nat cur -> a_snaps a' = map (snap_view (st_mans s)) snaps ->
  INV (push_meta s dt cur snaps) a'.
Proof.
  intros I Hsub Hnd Hn Hc Hs. pose proof (iv_wf _ _ I) as W.
  constructor; unfold push_meta; cbn [st_metas st_snaps st_mans st_files st_next_sid st_next_man cur_meta hd l_snaps l_cur lv].
  - constructor; cbn [st_metas st_snaps st_mans st_files cur_meta hd l_snaps].
    + eexists; eexists; reflexivity.
    + exact Hnd.
    + intros x Hx. apply (wf_listed_in _ W). now apply Hsub.
    + apply (wf_snaps_nodup _ W).
    + apply (wf_mans_nodup _ W).
    + apply (wf_mans_exist _ W).
    + apply (wf_names _ W).
  - apply (iv_sid_lt _ _ I).
  - apply (iv_man_lt _ _ I).
  - rewrite Hn. apply (iv_next _ _ I).
  - exact Hc.
  - exact Hs.
  - cbn [length]. now rewrite (iv_lv _ _ I).
  - apply (iv_files_good _ _ I).
Qed.

Lemma init_INV : INV l_init a_init.
Proof.
  constructor.
  - constructor; cbn.
    + eexists; eexists; reflexivity.
    + constructor.
    + intros ? [].
    + constructor.
    + constructor.
    + intros ? [].
    + intros ? [].
  - intros ? [].
  - intros ? [].
  - reflexivity.
  - reflexivity.
  - reflexivity.
  - reflexivity.
  - intros ? [].
Qed.

Lemma step_INV s a o : INV s a -> op_names_ok o = true -> INV (l_step s o) (a_step a o).
Proof.
  intros I Hok. pose proof (iv_wf _ _ I) as W. destruct o as [dt f names|dt f names|dt f|dt|dt sid|dt sid]; cbn [l_step a_step].
  - (* Append *)
    apply commit_INV; auto.
    + intros m [<-|[]]. cbn. lia.
    + cbn. constructor; [intros []|constructor].
    + intros i Hi. apply in_app_or in Hi as [Hi|[<-|[]]].
      * destruct (cur_mans_in _ _ I i Hi) as (m & Hm & Hid). exists m. split; [now right | exact Hid].
      * eexists. split; [now left | reflexivity].
    + intros m [<-|[]] e He. cbn [lm_entries] in He. apply in_map_iff in He as (n & <- & Hn). cbn [snd].
      cbn [op_names_ok] in Hok. rewrite forallb_forall in Hok. split; [now apply Hok | apply in_or_app; now left].
    + cbn [op_names_ok] in Hok. rewrite forallb_forall in Hok. exact Hok.
    + rewrite live_names_app, (alive_eq _ _ I). f_equal.
      * change (mkLman (st_next_man s) f (map (fun n => (1, n)) names) :: st_mans s) with ([mkLman (st_next_man s) f (map (fun n => (1, n)) names)] ++ st_mans s).
        apply live_names_fresh. intros i Hi m [<-|[]]. cbn [lm_id]. destruct (cur_mans_in _ _ I i Hi) as (m0 & H0 & <-).
        pose proof (iv_man_lt _ _ I m0 H0). lia.
      * unfold live_names. cbn [map concat]. rewrite app_nil_r. unfold man_live, find_lman. cbn [app find lm_id]. rewrite Nat.eqb_refl.
        cbn [lm_entries]. apply live_of_entries_map_live. discriminate.
  - (* Remove *)
    destruct (rewrite_mans (st_mans s) names f (st_next_man s) (cur_mans s)) as [ids new] eqn:E.
    destruct (rewrite_mans_spec _ names f (wf_mans_nodup _ W) _ _ _ _ (cur_mans_in _ _ I) (iv_man_lt _ _ I) E) as (C1 & C2 & C3 & C4 & C5).
    apply commit_INV; auto.
    + intros m Hm e He. destruct (C4 m Hm e He) as (m0 & e0 & H0 & He0 & <-). cbn [app]. apply (wf_names _ W m0 H0 e0 He0).
    + now rewrite C5, (alive_eq _ _ I).
  - (* RewriteManifests *)
    apply commit_INV; auto.
    + intros m [<-|[]]. cbn. lia.
    + cbn. constructor; [intros []|constructor].
    + intros i [<-|[]]. eexists. split; [now left | reflexivity].
    + intros m [<-|[]] e He. cbn [lm_entries] in He. apply in_map_iff in He as (n & <- & Hn). cbn [snd app].
      apply live_names_in in Hn as (i & m0 & e0 & _ & H0 & _ & He0 & <-). apply (wf_names _ W m0 H0 e0 He0).
    + unfold live_names at 1. cbn [map concat]. rewrite app_nil_r. unfold man_live, find_lman. cbn [app find lm_id]. rewrite Nat.eqb_refl.
      cbn [lm_entries]. rewrite live_of_entries_map_live by discriminate. symmetry. apply (alive_eq _ _ I).
  - (* RewriteMeta *)
    apply push_INV with (a := a); auto using (wf_listed_nodup _ W), (iv_cur _ _ I), (iv_snaps _ _ I).
  - (* SetCurrent *)
    rewrite (iv_snaps _ _ I), a_lookup_view.
    destruct (find (fun x => Z.of_nat (ls_id x) =? sid) (l_snaps (cur_meta s))) as [x|] eqn:Ef; cbn [option_map].
    + assert (Hex : existsb (fun x => Z.of_nat (ls_id x) =? sid) (l_snaps (cur_meta s)) = true).
      { apply find_some in Ef as [Hx Hp]. apply existsb_exists. eauto. }
      rewrite Hex. apply push_INV with (a := a); [exact I | auto | apply (wf_listed_nodup _ W) | reflexivity | | reflexivity].
      cbn [a_cur option_map]. apply find_some in Ef as [_ Hp]. apply Z.eqb_eq in Hp. f_equal. rewrite <- Hp. now rewrite Nat2Z.id.
    + assert (Hex : existsb (fun x => Z.of_nat (ls_id x) =? sid) (l_snaps (cur_meta s)) = false).
      { destruct (existsb _ _) eqn:Ex; [|reflexivity]. apply existsb_exists in Ex as (x & Hx & Hp). pose proof (find_none _ _ Ef x Hx) as Hf. cbn beta in Hf. congruence. }
      rewrite Hex. apply push_INV with (a := a); auto using (wf_listed_nodup _ W), (iv_cur _ _ I), (iv_snaps _ _ I).
  - (* Expire *)
    assert (Hfilt : map (snap_view (st_mans s)) (filter (fun x => negb (Z.of_nat (ls_id x) =? sid)) (l_snaps (cur_meta s)))
                    = filter (fun kv => negb (fst kv =? sid)) (a_snaps a)).
    { rewrite (iv_snaps _ _ I). clear. induction (l_snaps (cur_meta s)) as [|x l IH]; [reflexivity|].
      cbn [map filter snap_view fst]. destruct (Z.of_nat (ls_id x) =? sid); cbn [negb map]; [exact IH | now rewrite IH]. }
    rewrite (iv_cur _ _ I). destruct (l_cur (cur_meta s)) as [c|] eqn:Ec; cbn [option_map].
    + destruct (Z.of_nat c =? sid) eqn:Ecs.
      * apply push_INV with (a := a); [exact I | auto | apply (wf_listed_nodup _ W) | reflexivity | | exact (iv_snaps _ _ I)].
        now rewrite (iv_cur _ _ I), Ec.
      * apply push_INV with (a := a); [exact I | intros x Hx; now apply filter_In in Hx as [Hx _]
                                      | apply NoDup_map_filter, (wf_listed_nodup _ W) | reflexivity | | symmetry; exact Hfilt].
        cbn [a_cur]. first [reflexivity | now rewrite (iv_cur _ _ I), Ec].
    + apply push_INV with (a := a); [exact I | intros x Hx; now apply filter_In in Hx as [Hx _]
                                    | apply NoDup_map_filter, (wf_listed_nodup _ W) | reflexivity | | symmetry; exact Hfilt].
      cbn [a_cur]. first [reflexivity | now rewrite (iv_cur _ _ I), Ec].
Qed.

Lemma fold_INV h : forall s a, INV s a -> wf_history h = true -> INV (fold_left l_step h s) (fold_left a_step h a).
Proof.
  induction h as [|o h IH]; intros s a I Hw; [exact I|]. cbn [fold_left]. cbn [wf_history forallb] in Hw.
  apply andb_true_iff in Hw as [Ho Hh]. apply IH; [now apply step_INV | exact Hh].
Qed.
Lemma replay_INV h : wf_history h = true -> INV (replay h) (abstract h).
Proof. intros H. apply fold_INV; [apply init_INV | exact H]. Qed.

(* ================================================================== *)
(* Part 7: main theorems *)
Record CLK (s : lstate) : Prop := {
  ck_le : forall m, In m (st_metas s) -> l_lu m <= st_clock s;
  ck_hd : l_lu (cur_meta s) = st_clock s;
  ck_tl : forall m, In m (tl (st_metas s)) -> l_lu m < l_lu (cur_meta s)
}.
Lemma step_CLK s o : CLK s -> 0 < op_dt o -> CLK (l_step s o).
Proof.
  intros C Hdt. destruct (l_step_metas s o) as (m' & Hm & _ & Hlu & Hck).
  constructor; unfold cur_meta; rewrite Hm, ?Hck; cbn [hd tl].
  - intros m [<-|Hin]; [lia|]. pose proof (ck_le _ C m Hin). lia.
  - exact Hlu.
  - intros m Hin. pose proof (ck_le _ C m Hin). rewrite Hlu. lia.
Qed.
Lemma fold_CLK h : forall s, CLK s -> strict_clock h = true -> CLK (fold_left l_step h s).
Proof.
  induction h as [|o h IH]; intros s C Hs; [exact C|]. cbn [fold_left]. cbn [strict_clock forallb] in Hs.
  apply andb_true_iff in Hs as [Ho Hh]. apply IH; [|exact Hh]. apply step_CLK; [exact C | now apply Z.ltb_lt].
Qed.
Lemma init_CLK : CLK l_init.
Proof. constructor; cbn; [intros m [<-|[]]; cbn; lia | reflexivity | intros ? []]. Qed.

Lemma fold_metas_length h : forall s, length (st_metas (fold_left l_step h s)) = (length (st_metas s) + length h)%nat.
Proof.
  induction h as [|o h IH]; intros s; cbn [fold_left length]; [lia|]. rewrite IH.
  destruct (l_step_metas s o) as (m' & Hm & _). rewrite Hm. cbn [length]. lia.
Qed.

Lemma spec_open_l_open s a q : INV s a ->
  spec_open a q = match l_open s q with
                  | None => SRefuse
                  | Some (k, L) => match L with [] => SRefuse | _ => SFiles (Z.of_nat k) (usort L) end
                  end.
Proof.
  intros I. unfold spec_open, l_open. rewrite (iv_cur _ _ I), (iv_snaps _ _ I).
  destruct (match q with Some i => Some i | None => option_map Z.of_nat (l_cur (cur_meta s)) end) as [id|]; [|reflexivity].
  rewrite a_lookup_view. destruct (find (fun x => Z.of_nat (ls_id x) =? id) (l_snaps (cur_meta s))) as [x|] eqn:E; [|reflexivity].
  cbn [option_map]. apply find_some in E as [_ E]. apply Z.eqb_eq in E. now rewrite E.
Qed.

(* THE theorem: reading a replayed history (current, or at any snapshot id) returns exactly the
   sorted duplicate-free live set the abstract semantics assigns, and is refused otherwise *)
Theorem snapshot_files_exact dir hint h q :
  good_dir dir = true -> wf_history h = true -> (hint = true \/ strict_clock h = true) ->
  open_table (replay_table dir hint h) q =
  match spec_open (abstract h) q with
  | SRefuse => Err EStorage
  | SFiles sid names => Ok (mkOpened (md_name (S (length h))) sid (map (fun n => absp dir (data_rel n)) names))
  end.
Proof.
  intros Hd Hw Hc. pose proof (replay_INV h Hw) as I. unfold replay_table.
  rewrite (open_render dir hint (replay h) q Hd (iv_wf _ _ I)).
  - rewrite (spec_open_l_open _ _ q I). rewrite (iv_lv _ _ I). unfold replay at 2. rewrite fold_metas_length. cbn [l_init st_metas length plus].
    destruct (l_open (replay h) q) as [[k L]|]; [|reflexivity]. destruct L; reflexivity.
  - destruct Hc as [->|Hs]; [now left|]. right. apply (ck_tl _ (fold_CLK h l_init init_CLK Hs)).
Qed.

(* unfoldings of spec_open, for reading the statement *)
Lemma spec_open_listed h sid L : live h sid = Some L -> L <> [] -> spec_open (abstract h) (Some sid) = SFiles sid (usort L).
Proof. unfold live, spec_open. intros -> H. destruct L; [congruence | reflexivity]. Qed.
Lemma spec_open_unknown h sid : live h sid = None -> spec_open (abstract h) (Some sid) = SRefuse.
Proof. unfold live, spec_open. now intros ->. Qed.
Lemma spec_open_empty h sid : live h sid = Some [] -> spec_open (abstract h) (Some sid) = SRefuse.
Proof. unfold live, spec_open. now intros ->. Qed.
Lemma spec_open_current h : spec_open (abstract h) None = match current h with Some c => spec_open (abstract h) (Some c) | None => SRefuse end.
Proof. unfold spec_open, current. destruct (a_cur (abstract h)); reflexivity. Qed.

(* the model's output on a replayed history passes the executable spec the check applies to the engine *)
Lemma list_eqb_refl_Z l : list_eqb Z.eqb l l = true.
Proof. apply list_eqb_spec; [intros; apply Z.eqb_eq | reflexivity]. Qed.

Lemma rows_of_render dir hint s names : 
  (forall n, In n (st_files s) -> good_name n = true) -> (forall n, In n names -> In n (st_files s)) ->
  rows_of (render dir hint s) (map (absd dir) names) = concat (map name_rows names).
Proof.
  intros Hg Hin. unfold rows_of. rewrite map_map. f_equal. apply map_ext_in. intros n Hn.
  unfold fs_lookup. cbn [render t_data].
  specialize (Hin n Hn). assert (Hgn : good_name n = true) by now apply Hg.
  induction (st_files s) as [|n0 l IH]; [contradiction|]. cbn [map find fst].
  change (absp dir (data_rel n0)) with (in_dir dir d_data n0). change (absd dir n) with (in_dir dir d_data n).
  rewrite path_eqb_in_dir; auto using good_d_data; [|apply Hg; now left].
  destruct (bytes_eqb n n0) eqn:E.
  - apply bytes_eqb_spec in E. now subst.
  - destruct Hin as [->|Hin]; [rewrite bytes_eqb_refl in E; discriminate|]. apply IH; auto. intros; apply Hg; now right.
Qed.

Lemma same_file_set_render dir names : NoDup names -> (forall n, In n names -> good_name n = true) ->
  same_file_set (map (absd dir) names) (map (absd dir) names) = true.
Proof.
  intros Hnd Hg. unfold same_file_set.
  assert (Hmem : forallb (fun f => mem_path f (map (absd dir) names)) (map (absd dir) names) = true).
  { apply forallb_forall. intros p Hp. unfold mem_path. apply existsb_exists. exists p. split; [exact Hp | apply path_eqb_refl]. }
  rewrite Hmem. cbn [andb]. clear Hmem.
  induction names as [|n l IH]; [reflexivity|]. cbn [map nodup_paths]. inversion Hnd as [|? ? Hn Hnd']; subst.
  rewrite IH; [|exact Hnd'|intros; apply Hg; now right]. rewrite andb_true_r. apply negb_true_iff.
  destruct (mem_path (absd dir n) (map (absd dir) l)) eqn:E; [|reflexivity].
  unfold mem_path in E. apply existsb_exists in E as (p & Hp & He). apply in_map_iff in Hp as (n0 & <- & Hn0).
  change (absd dir n) with (in_dir dir d_data n) in He. change (absd dir n0) with (in_dir dir d_data n0) in He.
  rewrite path_eqb_in_dir in He; auto using good_d_data; [|apply Hg; now left|apply Hg; now right].
  apply bytes_eqb_spec in He. subst. contradiction.
Qed.

Theorem model_meets_spec dir hint h q :
  good_dir dir = true -> wf_history h = true -> (hint = true \/ strict_clock h = true) ->
  spec_ok_hist dir h q (impl_of (replay_table dir hint h) (open_table (replay_table dir hint h) q)) = true.
Proof.
  intros Hd Hw Hc. rewrite (snapshot_files_exact dir hint h q Hd Hw Hc). unfold spec_ok_hist.
  pose proof (replay_INV h Hw) as I.
  destruct (spec_open (abstract h) q) as [|sid names] eqn:Es; [reflexivity|].
  cbn [impl_of o_md o_sid o_files]. rewrite Z.eqb_refl. cbn [andb].
  (* names = usort L for a listed snapshot's live set L *)
  rewrite (spec_open_l_open _ _ q I) in Es.
  destruct (l_open (replay h) q) as [[k L]|] eqn:El; [|discriminate]. destruct L as [|a L'] eqn:EL; [discriminate|].
  inversion Es; subst sid names. clear Es.
  assert (HL : forall n, In n (usort (a :: L')) -> good_name n = true /\ In n (st_files (replay h))).
  { intros n Hn. apply (proj1 (usort_in _ _)) in Hn. unfold l_open in El.
    destruct (match q with Some i => Some i | None => option_map Z.of_nat (l_cur (cur_meta (replay h))) end); [|discriminate].
    destruct (find _ (l_snaps (cur_meta (replay h)))) as [x|]; [|discriminate]. inversion El as [[Hk HLx]].
    rewrite <- HLx in Hn. apply live_names_in in Hn as (i & m & e & _ & Hm & _ & He & <-).
    apply (wf_names _ (iv_wf _ _ I) m Hm e He). }
  change (fun n => absp dir (data_rel n)) with (absd dir).
  rewrite same_file_set_render; [|apply usort_nodup|intros n Hn; apply HL, Hn]. cbn [andb].
  unfold replay_table. rewrite rows_of_render; [apply list_eqb_refl_Z|apply (iv_files_good _ _ I)|intros n Hn; apply HL, Hn].
Qed.

(* ---- refutation: without version-hint, two commits in the same millisecond are ordered by FILE NAME,
        and "v10.metadata.json" < "v9.metadata.json": the reader serves the stale v9 ---- *)
Definition tie_history : history :=
  Append 5 FFile3 [bs "f1.parquet"] :: repeat (RewriteMeta 1) 7 ++ [Append 0 FFile3 [bs "f2.parquet"]].
Definition tdir0 : bytes := bs "/t".
Theorem equal_timestamp_tie_refuted :
  exists dir h, good_dir dir = true /\ wf_history h = true /\ forallb (fun o => 0 <=? op_dt o) h = true /\
    spec_open (abstract h) None = SFiles 2 [bs "f1.parquet"; bs "f2.parquet"] /\
    open_table (replay_table dir false h) None
      = Ok (mkOpened (bs "v9.metadata.json") 1 [absp dir (data_rel (bs "f1.parquet"))]).
Proof. exists tdir0, tie_history. vm_compute. repeat split; reflexivity. Qed.

(* satisfiability of the hypotheses: a concrete non-trivial history, both discovery modes *)
Definition ex_history : history :=
  [Append 5 FFile3 [bs "f1.parquet"; bs "f2.parquet"]; Remove 5 FRel [bs "f1.parquet"];
   Append 5 FFile1 [bs "f1.parquet"; bs "a.parquet"]; RewriteManifests 1 FAbs; Expire 1 1; SetCurrent 2 2].
Example ex_hyps : good_dir tdir0 = true /\ wf_history ex_history = true /\ strict_clock ex_history = true.
Proof. vm_compute. auto. Qed.
Example ex_reads :
  map (fun q => match open_table (replay_table tdir0 false ex_history) q with Ok o => Some (o_sid o, List.length (o_files o)) | Err _ => None end)
      [None; Some 1; Some 2; Some 3; Some 4; Some 9]
  = [Some (2, 1%nat); None; Some (2, 1%nat); Some (3, 3%nat); Some (4, 3%nat); None].
Proof. vm_compute. reflexivity. Qed.

(* corollaries in the property's own words *)
Section Corollaries.
  Variables (dir : bytes) (hint : bool) (h : history).
  Hypothesis Hd : good_dir dir = true.
  Hypothesis Hw : wf_history h = true.
  Hypothesis Hc : hint = true \/ strict_clock h = true.
  Let T := replay_table dir hint h.

  Lemma listed_snapshot_read sid L : live h sid = Some L -> L <> [] ->
    open_table T (Some sid) = Ok (mkOpened (md_name (S (length h))) sid (map (fun n => absp dir (data_rel n)) (usort L))).
  Proof. intros H1 H2. unfold T. rewrite snapshot_files_exact by assumption. now rewrite (spec_open_listed h sid L H1 H2). Qed.
  Lemma current_snapshot_read :
    open_table T None = match current h with Some c => open_table T (Some c) | None => Err EStorage end.
  Proof.
    unfold T. rewrite !snapshot_files_exact by assumption. rewrite spec_open_current.
    destruct (current h) as [c|]; [|reflexivity]. now rewrite snapshot_files_exact by assumption.
  Qed.
  Lemma unknown_snapshot_refused sid : live h sid = None -> open_table T (Some sid) = Err EStorage.
  Proof. intros H1. unfold T. rewrite snapshot_files_exact by assumption. now rewrite (spec_open_unknown h sid H1). Qed.
  Lemma empty_snapshot_refused sid : live h sid = Some [] -> open_table T (Some sid) = Err EStorage.
  Proof. intros H1. unfold T. rewrite snapshot_files_exact by assumption. now rewrite (spec_open_empty h sid H1). Qed.
End Corollaries.

(* ================================================================== *)
(* The order in which read_dir lists metadata/ is immaterial: latest_metadata picks the maximum of a strict
   total order on (last-updated-ms, file name), or fails on an unreadable *.metadata.json wherever it is listed. *)
Definition is_bad (kv : bytes * option metadata) : bool :=
  ends_with md_suffix (fst kv) && match snd kv with None => true | Some _ => false end.
Fixpoint keys (l : list (bytes * option metadata)) : list (Z * bytes) :=
  match l with
  | [] => []
  | (name, body) :: r =>
      if ends_with md_suffix name then match body with Some md => (md_lu md, name) :: keys r | None => keys r end
      else keys r
  end.
Definition pick (b : option (Z * bytes)) (k : Z * bytes) : option (Z * bytes) :=
  match b with None => Some k | Some b' => if key_gt k b' then Some k else b end.

Lemma scan_meta_ok l : forall best, existsb is_bad l = false -> scan_meta l best = Ok (fold_left pick (keys l) best).
Proof.
  induction l as [|[name body] r IH]; intros best H; [reflexivity|]. cbn [existsb] in H. apply orb_false_iff in H as [H1 H2].
  unfold is_bad in H1. cbn [fst snd] in H1. cbn [scan_meta keys].
  destruct (ends_with md_suffix name); cbn [negb andb] in *; [|now apply IH].
  destruct body as [md|]; [|discriminate]. cbn [fold_left]. rewrite IH by exact H2. reflexivity.
Qed.
Lemma scan_meta_bad l : forall best, existsb is_bad l = true -> scan_meta l best = Err EStorage.
Proof.
  induction l as [|[name body] r IH]; intros best H; [discriminate|]. cbn [existsb] in H. cbn [scan_meta].
  unfold is_bad in H. cbn [fst snd] in H.
  destruct (ends_with md_suffix name); cbn [negb andb orb] in *; [|now apply IH].
  destruct body as [md|]; [|reflexivity]. cbn [orb] in H. now apply IH.
Qed.

Lemma key_gt_spec a b : key_gt a b = true <-> (fst b < fst a \/ (fst a = fst b /\ bytes_cmp (snd b) (snd a) = Lt)).
Proof.
  unfold key_gt. destruct (Z.compare_spec (fst a) (fst b)) as [E|E|E].
  - rewrite (bytes_cmp_antisym (snd b) (snd a)). destruct (bytes_cmp (snd b) (snd a)); cbn; split; intros H; try discriminate; auto;
      destruct H as [H|[_ H]]; try lia; discriminate.
  - split; [discriminate|]. intros [H|[H _]]; lia.
  - split; auto.
Qed.
Lemma key_gt_trans a b c : key_gt a b = true -> key_gt b c = true -> key_gt a c = true.
Proof.
  rewrite !key_gt_spec. intros [H1|[H1 H1']] [H2|[H2 H2']]; try (left; lia).
  right. split; [congruence|]. eapply bytes_lt_trans; eauto.
Qed.
Lemma key_trichotomy a b : key_gt a b = false -> key_gt b a = false -> a = b.
Proof.
  intros H1 H2. destruct a as [t1 n1], b as [t2 n2].
  assert (N1 : ~ (t2 < t1 \/ (t1 = t2 /\ bytes_cmp n2 n1 = Lt))) by (intros H; apply (key_gt_spec (t1, n1) (t2, n2)) in H; congruence).
  assert (N2 : ~ (t1 < t2 \/ (t2 = t1 /\ bytes_cmp n1 n2 = Lt))) by (intros H; apply (key_gt_spec (t2, n2) (t1, n1)) in H; congruence).
  assert (t1 = t2) by lia. subst. f_equal.
  destruct (bytes_cmp n1 n2) eqn:E.
  - now apply bytes_cmp_eq.
  - exfalso. apply N2. auto.
  - exfalso. apply N1. right. split; [reflexivity|]. rewrite (bytes_cmp_antisym n1 n2), E. reflexivity.
Qed.
Lemma key_neg_trans k b m : key_gt k b = false -> key_gt b m = false -> key_gt k m = false.
Proof.
  intros H1 H2. destruct (key_gt k m) eqn:E; [|reflexivity]. exfalso.
  destruct (key_gt m b) eqn:E2.
  - rewrite (key_gt_trans _ _ _ E E2) in H1. discriminate.
  - assert (b = m) by (apply key_trichotomy; assumption). subst. congruence.
Qed.

Lemma fold_pick_max ks : forall b m, fold_left pick ks (Some b) = Some m ->
  (m = b \/ In m ks) /\ (forall k, k = b \/ In k ks -> key_gt k m = false).
Proof.
  induction ks as [|k ks IH]; intros b m H; cbn [fold_left pick] in H.
  - inversion H; subst. split; [now left|]. intros k [->|[]]. unfold key_gt. rewrite Z.compare_refl, bytes_cmp_refl. reflexivity.
  - destruct (key_gt k b) eqn:E.
    + destruct (IH _ _ H) as [A B]. split; [destruct A as [->|A]; right; [now left | now right]|].
      intros k' [->|[->|Hk]]; [|apply B; now left|apply B; now right].
      destruct (key_gt b m) eqn:E2; [|reflexivity]. pose proof (B k (or_introl eq_refl)) as Bk. rewrite (key_gt_trans _ _ _ E E2) in Bk. discriminate Bk.
    + destruct (IH _ _ H) as [A B]. split; [destruct A as [->|A]; [now left | right; now right]|].
      intros k' [->|[->|Hk]]; [apply B; now left | |apply B; now right].
      eapply key_neg_trans; [exact E | apply B; now left].
Qed.
Lemma fold_pick_some ks b : exists m, fold_left pick ks (Some b) = Some m.
Proof. revert b; induction ks as [|k ks IH]; intros b; cbn [fold_left pick]; [eauto|]. destruct (key_gt k b); apply IH. Qed.

Lemma fold_pick_perm ks1 ks2 : Permutation ks1 ks2 -> fold_left pick ks1 None = fold_left pick ks2 None.
Proof.
  intros Hp. destruct ks1 as [|k1 r1], ks2 as [|k2 r2]; try reflexivity.
  - apply Permutation_nil in Hp. discriminate.
  - apply Permutation_sym, Permutation_nil in Hp. discriminate.
  - cbn [fold_left pick]. destruct (fold_pick_some r1 k1) as (m1 & E1). destruct (fold_pick_some r2 k2) as (m2 & E2).
    rewrite E1, E2. f_equal. destruct (fold_pick_max _ _ _ E1) as [A1 B1]. destruct (fold_pick_max _ _ _ E2) as [A2 B2].
    assert (I1 : In m1 (k2 :: r2)) by (eapply Permutation_in; [exact Hp|]; destruct A1 as [->|A1]; [now left | now right]).
    assert (I2 : In m2 (k1 :: r1)) by (eapply Permutation_in; [apply Permutation_sym, Hp|]; destruct A2 as [->|A2]; [now left | now right]).
    apply key_trichotomy.
    + apply B2. destruct I1 as [<-|I1]; auto.
    + apply B1. destruct I2 as [<-|I2]; auto.
Qed.

Lemma keys_perm l l' : Permutation l l' -> Permutation (keys l) (keys l').
Proof.
  induction 1 as [|[n b] l l' Hp IH|[n1 b1] [n2 b2] l|l1 l2 l3 H1 IH1 H2 IH2]; cbn [keys].
  - constructor.
  - destruct (ends_with md_suffix n); [|exact IH]. destruct b; [now constructor | exact IH].
  - destruct (ends_with md_suffix n1), (ends_with md_suffix n2), b1, b2; try reflexivity. apply perm_swap.
  - eapply Permutation_trans; eauto.
Qed.
Lemma existsb_perm {A} (p : A -> bool) l l' : Permutation l l' -> existsb p l = existsb p l'.
Proof.
  intros Hp. destruct (existsb p l) eqn:E1, (existsb p l') eqn:E2; try reflexivity.
  - apply existsb_exists in E1 as (x & Hx & Px). assert (existsb p l' = true) by (apply existsb_exists; exists x; split; [eapply Permutation_in; eauto | exact Px]). congruence.
  - apply existsb_exists in E2 as (x & Hx & Px). assert (existsb p l = true) by (apply existsb_exists; exists x; split; [eapply Permutation_in; [apply Permutation_sym|]; eauto | exact Px]). congruence.
Qed.

Theorem latest_metadata_listing_order t l' : Permutation (t_meta t) l' ->
  latest_metadata t = latest_metadata (mkTable (t_dir t) (t_hint t) l' (t_lists t) (t_mans t) (t_data t)).
Proof.
  intros Hp. unfold latest_metadata. cbn [t_hint t_meta]. destruct (t_hint t) as [hn|].
  - unfold name_lookup.
    destruct (find (fun kv => bytes_eqb (hint_candidate hn) (fst kv)) (t_meta t)) as [x|] eqn:E1;
    destruct (find (fun kv => bytes_eqb (hint_candidate hn) (fst kv)) l') as [y|] eqn:E2; try reflexivity; exfalso.
    + apply find_some in E1 as [Hin Hx]. pose proof (find_none _ _ E2 x (Permutation_in _ Hp Hin)) as Hf. cbn beta in Hf. congruence.
    + apply find_some in E2 as [Hin Hy]. pose proof (find_none _ _ E1 y (Permutation_in _ (Permutation_sym Hp) Hin)) as Hf. cbn beta in Hf. congruence.
  - destruct (existsb is_bad (t_meta t)) eqn:Eb.
    + rewrite scan_meta_bad by exact Eb. rewrite scan_meta_bad; [reflexivity|]. now rewrite <- (existsb_perm _ _ _ Hp).
    + rewrite scan_meta_ok by exact Eb. rewrite scan_meta_ok by (now rewrite <- (existsb_perm _ _ _ Hp)).
      now rewrite (fold_pick_perm _ _ (keys_perm _ _ Hp)).
Qed.
