(* C14 model: the guard of distributed::coordinator::execute_fragment + shard_context, as a decision
   function of (request digest, shard_index, shard_count, the worker's own split set).
   anchors: src/distributed/coordinator.rs: execute_fragment (splits_of -> digest compare -> assign_lpt ->
            shard_context: assignment.per_node.get(shard_index)), splits.rs: SplitSet::digest *)
From QV Require Export Base.Util C12.Model C11.Model.

(* FragmentRequest minus sql/table: splits_digest : u64, shard_index, shard_count : usize *)
Record request := mkReq { r_digest : Z; r_index : Z; r_count : Z }.

Inductive verdict := Run | RefuseDigest | RefuseRange.
Definition verdict_code (v : verdict) : Z := match v with Run => 0 | RefuseDigest => 1 | RefuseRange => 2 end.

(* let set = splits_of(base, table, req.shard_count)?; if set.digest() != req.splits_digest { Err }
   let assignment = assign_lpt(&set, req.shard_count);
   shard_context: assignment.per_node.get(shard_index).ok_or_else(|| Err("out of range"))? *)
Definition guard (req : request) (w : splitset) : verdict :=
  if negb (digest w =? r_digest req) then RefuseDigest
  else if r_index req <? Z.of_nat (length (a_per_node (assign (ss_splits w) (Z.to_nat (r_count req)))))
       then Run else RefuseRange.

(* the worker enumerates ITS copy of the table for the request's shard_count *)
Definition worker_set (c : consts) (table : list Z) (worker_files : list file) (req : request) : splitset :=
  enumerate_c c table worker_files (r_count req).

Definition execute_fragment_guard (c : consts) (table : list Z) (worker_files : list file) (req : request) : verdict :=
  guard req (worker_set c table worker_files req).

(* the request an initiator holding init_files sends for shard idx of count *)
Definition initiator_request (c : consts) (table : list Z) (init_files : list file) (idx count : Z) : request :=
  mkReq (digest (enumerate_c c table init_files count)) idx count.

(* fast evaluation variant (digest_fast = digest by C11_digest_fast_eq; per_node length computed directly) *)
Definition guard_fast (req : request) (w : splitset) : verdict :=
  if negb (digest_fast w =? r_digest req) then RefuseDigest
  else if r_index req <? Z.max (r_count req) 1 then Run else RefuseRange.

(* two byte strings of the same length that differ in exactly one position *)
Definition single_byte_diff (x y : list Z) : Prop :=
  exists pre b1 b2 suf, x = pre ++ b1 :: suf /\ y = pre ++ b2 :: suf /\ b1 <> b2.

(* the canonical content of a split: everything the digest sees *)
Definition split_core (s : split) : list Z * Z * Z * Z * Z := (s_file s, s_rg s, s_off s, s_rows s, s_bytes s).

(* ---------- executable specification ---------- *)
(* what C14 demands of ANY implementation's accept/refuse decision: the fragment runs exactly when the
   worker's copy has the same canonical split set as the initiator's and the shard index exists *)
Definition same_data (c : consts) (table : list Z) (init_files worker_files : list file) (count : Z) : bool :=
  ss_eqb (enumerate_c c table init_files count) (enumerate_c c table worker_files count).

Definition spec_ok (c : consts) (table : list Z) (init_files worker_files : list file) (idx count : Z)
                   (accepted : bool) : bool :=
  Bool.eqb accepted (same_data c table init_files worker_files count && (idx <? Z.max count 1)).
