From QV Require Import Base.Util C12.Model C11.Model C11.Proofs C14.Model.

(* ---------- the range check: assign_lpt builds max(shard_count, 1) nodes ---------- *)
Lemma place_per_node_len splits st idx :
  length (per_node (place splits st idx)) = length (per_node st).
Proof. unfold place. cbn [per_node]. apply upd_length. Qed.

Lemma fold_place_len splits order : forall st,
  length (per_node (fold_left (place splits) order st)) = length (per_node st).
Proof.
  induction order as [|i t IH]; intros st; cbn [fold_left]; [reflexivity|].
  now rewrite IH, place_per_node_len.
Qed.

Lemma assign_per_node_len splits nodes0 :
  length (a_per_node (assign splits nodes0)) = Nat.max nodes0 1.
Proof.
  unfold assign. cbn [a_per_node]. rewrite map_length. unfold greedy.
  rewrite fold_place_len. unfold init. cbn [per_node]. apply repeat_length.
Qed.

Lemma node_count_Z count : Z.of_nat (Nat.max (Z.to_nat count) 1) = Z.max count 1.
Proof. lia. Qed.

(* ---------- the guard ---------- *)
(* a fragment runs iff the worker computes the request's digest from its own copy and the shard
   index exists in a max(shard_count,1)-way assignment *)
Theorem fragment_guard req w :
  guard req w = Run <-> digest w = r_digest req /\ r_index req < Z.max (r_count req) 1.
Proof.
  unfold guard. rewrite assign_per_node_len, node_count_Z.
  destruct (Z.eqb_spec (digest w) (r_digest req)) as [E|N]; cbn [negb].
  - destruct (Z.ltb_spec (r_index req) (Z.max (r_count req) 1)); split; try tauto; try discriminate.
    intros [_ H']. lia.
  - split; [discriminate | tauto].
Qed.

Theorem guard_refuses_digest req w : guard req w = RefuseDigest <-> digest w <> r_digest req.
Proof.
  unfold guard. destruct (Z.eqb_spec (digest w) (r_digest req)) as [E|N]; cbn [negb].
  - destruct (_ <? _); split; try discriminate; tauto.
  - tauto.
Qed.

Theorem guard_refuses_range req w :
  guard req w = RefuseRange <-> digest w = r_digest req /\ Z.max (r_count req) 1 <= r_index req.
Proof.
  unfold guard. rewrite assign_per_node_len, node_count_Z.
  destruct (Z.eqb_spec (digest w) (r_digest req)) as [E|N]; cbn [negb].
  - destruct (Z.ltb_spec (r_index req) (Z.max (r_count req) 1)); split; try tauto; try discriminate.
    intros [_ H']. lia.
  - split; [discriminate | tauto].
Qed.

Theorem guard_fast_eq req w : guard_fast req w = guard req w.
Proof.
  unfold guard_fast, guard. now rewrite digest_fast_eq, assign_per_node_len, node_count_Z.
Qed.

(* ---------- same data is accepted ---------- *)
(* a worker holding the same files (same names, same footers; any listing order, any directory) runs
   every shard index of the assignment *)
Theorem same_data_accepted c table init_files worker_files idx count :
  NoDup (map fst init_files) -> Permutation init_files worker_files -> idx < Z.max count 1 ->
  execute_fragment_guard c table worker_files (initiator_request c table init_files idx count) = Run.
Proof.
  intros ND P Hi. unfold execute_fragment_guard, worker_set, initiator_request. cbn [r_count].
  apply fragment_guard. cbn [r_digest r_index r_count]. split; [|exact Hi].
  now rewrite (perm_invariant c table init_files worker_files count ND P).
Qed.

(* ---------- divergence is refused ---------- *)
(* PARTIAL (honest): if the canonical encodings of the initiator's and the worker's split sets have the
   same length and differ in exactly one byte (e.g. a row count 10 vs 11, one letter of a file name, one
   byte of a size), the fragment is refused whatever the shard index *)
Theorem single_byte_divergence_refused req w init :
  r_digest req = digest init ->
  single_byte_diff (encoding init) (encoding w) ->
  Forall is_byte (encoding init) -> Forall is_byte (encoding w) ->
  guard req w = RefuseDigest.
Proof.
  intros Hd (pre & b1 & b2 & suf & Ei & Ew & Ne) Bi Bw. apply guard_refuses_digest. rewrite Hd.
  rewrite Ei in Bi. rewrite Ew in Bw.
  apply Forall_app in Bi. destruct Bi as [_ Bi]. inversion Bi as [|? ? B1 Bs]; subst.
  apply Forall_app in Bw. destruct Bw as [_ Bw]. inversion Bw as [|? ? B2 _]; subst.
  intros E. symmetry in E. revert E. eapply digest_sensitive_partial; eauto.
Qed.

(* ---------- the encoding determines the split set when name lengths agree ---------- *)
Fixpoint decode (l : list Z) : Z := match l with [] => 0 | b :: t => b + 256 * decode t end.

Lemma decode_le_bytes n : forall x, decode (le_bytes n x) = x mod 256 ^ Z.of_nat n.
Proof.
  induction n as [|k IH]; intros x.
  - cbn. now rewrite Z.mod_1_r.
  - cbn [le_bytes decode]. rewrite IH, Nat2Z.inj_succ, Z.pow_succ_r by lia.
    rewrite Z.rem_mul_r by lia. reflexivity.
Qed.

Lemma le8_inj x y : le8 x = le8 y -> x mod W64 = y mod W64.
Proof.
  intros E. apply (f_equal decode) in E. unfold le8 in E. rewrite !decode_le_bytes in E.
  change (256 ^ Z.of_nat 8) with W64 in E. now rewrite !Z.mod_mod in E by (unfold W64; lia).
Qed.

Lemma le_bytes_length n : forall x, length (le_bytes n x) = n.
Proof. induction n as [|k IH]; intros x; cbn [le_bytes length]; auto. Qed.

Lemma app_inj_length {A} (a a' b b' : list A) : length a = length a' -> a ++ b = a' ++ b' -> a = a' /\ b = b'.
Proof.
  revert a'. induction a as [|x a IH]; intros [|y a'] L E; cbn in *; try discriminate; auto.
  inversion E; subst. destruct (IH a') as [-> ->]; auto.
Qed.

Definition u64_val (x : Z) : Prop := 0 <= x < W64.
Definition i64_val (x : Z) : Prop := - W63 <= x < W63.
(* fields as the Rust types hold them: row_group usize, row_offset/num_rows i64, bytes u64 *)
Definition split_in_range (s : split) : Prop :=
  u64_val (s_rg s) /\ i64_val (s_off s) /\ i64_val (s_rows s) /\ u64_val (s_bytes s).

Lemma mod_eq_u64 x y : u64_val x -> u64_val y -> x mod W64 = y mod W64 -> x = y.
Proof. unfold u64_val. intros Hx Hy E. rewrite !Z.mod_small in E; auto. Qed.

Lemma mod_eq_i64 x y : i64_val x -> i64_val y -> x mod W64 = y mod W64 -> x = y.
Proof.
  unfold i64_val, W63. intros Hx Hy E.
  pose proof (Z.div_mod x W64). pose proof (Z.div_mod y W64).
  pose proof (Z.mod_pos_bound x W64). pose proof (Z.mod_pos_bound y W64). unfold W64 in *. lia.
Qed.

Lemma split_enc_inj s1 s2 : split_in_range s1 -> split_in_range s2 ->
  length (s_file s1) = length (s_file s2) -> forall r1 r2,
  split_enc s1 ++ r1 = split_enc s2 ++ r2 -> split_core s1 = split_core s2 /\ r1 = r2.
Proof.
  intros (A1 & B1 & C1 & D1) (A2 & B2 & C2 & D2) L r1 r2 E. unfold split_enc in E.
  rewrite <- !app_assoc in E.
  apply app_inj_length in E; [|exact L]. destruct E as [Ef E].
  apply app_inj_length in E; [|unfold le8; now rewrite !le_bytes_length]. destruct E as [Eg E].
  apply app_inj_length in E; [|unfold le8; now rewrite !le_bytes_length]. destruct E as [Eo E].
  apply app_inj_length in E; [|unfold le8; now rewrite !le_bytes_length]. destruct E as [Er E].
  apply app_inj_length in E; [|unfold le8; now rewrite !le_bytes_length]. destruct E as [Eb E].
  split; [|exact E]. unfold split_core.
  apply le8_inj in Eg, Eo, Er, Eb.
  rewrite Ef, (mod_eq_u64 _ _ A1 A2 Eg), (mod_eq_i64 _ _ B1 B2 Eo), (mod_eq_i64 _ _ C1 C2 Er), (mod_eq_u64 _ _ D1 D2 Eb).
  reflexivity.
Qed.

(* equal table, equally many splits, pairwise equal file-name lengths: the canonical byte string
   determines every field the digest is meant to protect (no ambiguity in the framing) *)
Theorem encoding_injective_fixed_names a b :
  ss_table a = ss_table b ->
  Forall split_in_range (ss_splits a) -> Forall split_in_range (ss_splits b) ->
  Forall2 (fun s1 s2 => length (s_file s1) = length (s_file s2)) (ss_splits a) (ss_splits b) ->
  encoding a = encoding b -> map split_core (ss_splits a) = map split_core (ss_splits b).
Proof.
  intros Et Ra Rb F2 E. unfold encoding in E. rewrite Et in E. apply app_inv_head in E.
  revert Ra Rb E. induction F2 as [|s1 s2 l1 l2 L F2 IH]; intros Ra Rb E; [reflexivity|].
  inversion Ra; inversion Rb; subst. cbn [flat_map] in E.
  apply split_enc_inj in E; auto. destruct E as [Ec E]. cbn [map]. rewrite Ec. f_equal. now apply IH.
Qed.

(* PARTIAL, and it cannot be more: FNV-1a 64 maps more than 2^64 split sets to 2^64 values, so "any
   difference is refused" is false for some pair of copies. What IS proved about an accepted fragment:
   the worker computed exactly the request's digest; its encoding is not a single-byte variant of the
   initiator's; and if the two encodings are equal (with matching name lengths) the split sets agree in
   every digested field. A multi-byte difference whose digests collide would be accepted. *)
Theorem collision_freedom_partial req w init :
  r_digest req = digest init -> guard req w = Run ->
  Forall is_byte (encoding init) -> Forall is_byte (encoding w) ->
  digest w = digest init
  /\ ~ single_byte_diff (encoding init) (encoding w)
  /\ (ss_table init = ss_table w ->
      Forall split_in_range (ss_splits init) -> Forall split_in_range (ss_splits w) ->
      Forall2 (fun s1 s2 => length (s_file s1) = length (s_file s2)) (ss_splits init) (ss_splits w) ->
      encoding init = encoding w -> map split_core (ss_splits init) = map split_core (ss_splits w)).
Proof.
  intros Hd Hr Bi Bw. apply fragment_guard in Hr. destruct Hr as [Ed _]. split; [congruence|]. split.
  - intros S. pose proof (single_byte_divergence_refused req w init Hd S Bi Bw) as R.
    apply guard_refuses_digest in R. congruence.
  - apply encoding_injective_fixed_names.
Qed.

(* ---------- concrete instances (non-vacuity) ---------- *)
Definition ex_init : list file := [([97], [(10, 100)])].
Definition ex_worker_rows : list file := [([97], [(11, 100)])].      (* one more row *)
Definition ex_worker_name : list file := [([98], [(10, 100)])].      (* a -> b *)

Example ex_same_accepted :
  execute_fragment_guard engine_consts [116] ex_init (initiator_request engine_consts [116] ex_init 0 0) = Run.
Proof. apply same_data_accepted; [repeat constructor; intros [] | reflexivity | lia]. Qed.

Example ex_row_count_refused :
  execute_fragment_guard engine_consts [116] ex_worker_rows (initiator_request engine_consts [116] ex_init 0 1) = RefuseDigest.
Proof.
  apply (single_byte_divergence_refused _ _ (enumerate_c engine_consts [116] ex_init 1)); [reflexivity| | |].
  - exists ([116; 97] ++ le8 0 ++ le8 0), 10, 11, (le_bytes 7 0 ++ le8 100). repeat split; [vm_compute; reflexivity .. | lia].
  - apply encoding_bytes; [repeat constructor; unfold is_byte; lia|].
    intros s Hs. vm_compute in Hs. destruct Hs as [<-|[]]. repeat constructor; unfold is_byte; cbn; lia.
  - apply encoding_bytes; [repeat constructor; unfold is_byte; lia|].
    intros s Hs. vm_compute in Hs. destruct Hs as [<-|[]]. repeat constructor; unfold is_byte; cbn; lia.
Qed.

Example ex_name_refused :
  execute_fragment_guard engine_consts [116] ex_worker_name (initiator_request engine_consts [116] ex_init 0 1) = RefuseDigest.
Proof. apply guard_refuses_digest. vm_compute. discriminate. Qed.

Example ex_out_of_range :
  execute_fragment_guard engine_consts [116] ex_init (initiator_request engine_consts [116] ex_init 2 2) = RefuseRange
  /\ execute_fragment_guard engine_consts [116] ex_init (initiator_request engine_consts [116] ex_init 1 0) = RefuseRange.
Proof. split; apply guard_refuses_range; cbn [r_digest r_count r_index initiator_request]; split; try reflexivity; lia. Qed.
