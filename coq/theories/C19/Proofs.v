From QV Require Import Base.Util C19.Model.

Lemma keq_eq a b : keq a b = true <-> a = b.
Proof. apply (list_eqb_spec Z.eqb Z.eqb_eq). Qed.

Definition same_data (v1 v2 : version) : Prop :=
  v_content v1 = v_content v2 /\ v_layout v1 = v_layout v2 /\ v_dict v1 = v_dict v2.

(* ---------- freshness for all histories, whatever the keys are ---------- *)
Section Fresh.
  Variable fkey skey : version -> list Z.
  Variable vs : list version.        (* every version ever written at the path *)
  Hypothesis fkey_inj : forall v1 v2, In v1 vs -> In v2 vs -> fkey v1 = fkey v2 -> same_data v1 v2.
  Hypothesis skey_inj : forall v1 v2, In v1 vs -> In v2 vs -> skey v1 = skey v2 -> same_data v1 v2.

  Definition pInv (p : pcache) : Prop :=
    forall e, p_footer p = Some e -> exists v, In v vs /\ e = fresh_entry fkey v.
  Definition sInv (side : option sidecar) : Prop :=
    forall sc, side = Some sc -> exists v, In v vs /\ sc = fresh_side skey v.
  Definition Inv (st : state) : Prop :=
    In (st_file st) vs /\ sInv (st_side st) /\ pInv (st_proc st) /\ st_poison st = false.

  Lemma pInv_p0 : pInv p0.
  Proof. intros e H. discriminate. Qed.

  Lemma pInv_fresh f d : In f vs -> pInv (mkP (Some (fresh_entry fkey f)) d).
  Proof. intros Hf e H. cbn in H. inversion H; subst. eauto. Qed.

  Lemma footer_step_ok f p : In f vs -> pInv p ->
    fe_content (fst (footer_step fkey f p)) = v_content f /\
    fe_layout (fst (footer_step fkey f p)) = v_layout f /\
    pInv (snd (footer_step fkey f p)).
  Proof.
    intros Hf Hp. unfold footer_step. destruct (p_footer p) as [e|] eqn:E.
    - destruct (keq (fe_key e) (fkey f)) eqn:K; cbn [fst snd].
      + destruct (Hp e E) as (v & Hv & ->). cbn [fresh_entry fe_key] in K. apply keq_eq in K.
        destruct (fkey_inj v f Hv Hf K) as (A & B & _). cbn. auto.
      + cbn. repeat split; auto. now apply pInv_fresh.
    - cbn. repeat split; auto. now apply pInv_fresh.
  Qed.

  Definition used_ok (f : version) (used : option sidecar) : Prop :=
    forall sc, used = Some sc -> s_content sc = v_content f /\ s_layout sc = v_layout f.

  Lemma ensure_ok m f side p : In f vs -> sInv side -> pInv p ->
    match ensure fkey skey m f side p with
    | (used, side', p', undef) => undef = false /\ sInv side' /\ pInv p' /\ used_ok f used
    end.
  Proof.
    intros Hf Hs Hp.
    assert (forall sc, side = Some sc -> stamp_fresh skey f sc = true ->
                       s_content sc = v_content f /\ s_layout sc = v_layout f) as Hfresh.
    { intros sc E K. destruct (Hs sc E) as (v & Hv & ->). unfold stamp_fresh in K. cbn in K.
      apply keq_eq in K. destruct (skey_inj v f Hv Hf K) as (A & B & _). cbn. auto. }
    assert (match build fkey skey f side p with
            | (used, side', p', undef) => undef = false /\ sInv side' /\ pInv p' /\ used_ok f used end) as Hbuild.
    { unfold build. destruct (footer_step_ok f p Hf Hp) as (_ & L & P).
      destruct (footer_step fkey f p) as [e p'] eqn:E. cbn [fst snd] in L, P.
      rewrite L, Z.eqb_refl. split; [reflexivity|]. split; [|split; [exact P|]].
      - intros sc H. inversion H; subst. eauto.
      - intros sc H. inversion H; subst. split; reflexivity. }
    assert (used_ok f None) as Hnone by (intros sc' H; discriminate).
    unfold ensure. destruct m.
    - split; [reflexivity|]. split; [exact Hs|]. split; [exact Hp | exact Hnone].
    - destruct side as [sc|].
      + destruct (stamp_fresh skey f sc) eqn:K.
        * split; [reflexivity|]. split; [exact Hs|]. split; [exact Hp|].
          intros sc' H. inversion H; subst. now apply Hfresh.
        * split; [reflexivity|]. split; [exact Hs|]. split; [exact Hp | exact Hnone].
      + split; [reflexivity|]. split; [exact Hs|]. split; [exact Hp | exact Hnone].
    - destruct side as [sc|]; [|exact Hbuild].
      destruct (stamp_fresh skey f sc) eqn:K; [|exact Hbuild].
      split; [reflexivity|]. split; [exact Hs|]. split; [exact Hp|].
      intros sc' H. inversion H; subst. now apply Hfresh.
  Qed.

  Lemma do_query_ok m q f side p : In f vs -> sInv side -> pInv p ->
    match do_query fkey skey m q f side p false with
    | (a, side', p', po) =>
        a = [q_true (v_content f) q; q_true (v_content f) q] /\ sInv side' /\ pInv p' /\ po = false
    end.
  Proof.
    intros Hf Hs Hp. unfold do_query.
    pose proof (ensure_ok m f side p Hf Hs Hp) as He.
    destruct (ensure fkey skey m f side p) as [[[used side'] p1] undef].
    destruct He as (-> & Hs' & Hp1 & Hu).
    destruct (footer_step_ok f p1 Hf Hp1) as (C & L & P2).
    destruct (footer_step fkey f p1) as [e p2]. cbn [fst snd] in C, L, P2.
    assert ((match used with Some sc => (s_content sc, s_layout sc) | None => (v_content f, v_layout f) end)
            = (v_content f, v_layout f)) as ->.
    { destruct used as [sc|]; [|reflexivity]. destruct (Hu sc eq_refl) as [-> ->]. reflexivity. }
    cbn [fst snd orb]. rewrite L, C, Z.eqb_refl. cbn [negb orb]. unfold q_true. auto.
  Qed.

  Lemma step_ok st o : Inv st -> (forall v, o = Write v -> In v vs) ->
    (match fst (step fkey skey st o) with OAns allowed truth => allowed = [truth; truth] | _ => True end)
    /\ Inv (snd (step fkey skey st o)).
  Proof.
    intros (Hf & Hs & Hp & Hpo) Hw. destruct st as [f side p po]. cbn in Hf, Hs, Hp, Hpo. subst po.
    destruct o as [v|m q|m q|]; cbn [step st_file st_side st_proc st_poison].
    - split; [exact I|]. cbn [fst snd]. unfold Inv. cbn [st_file st_side st_proc st_poison].
      split; [now apply Hw|]. split; [exact Hs|]. split; [exact Hp | reflexivity].
    - pose proof (do_query_ok m q f side p Hf Hs Hp) as H.
      destruct (do_query fkey skey m q f side p false) as [[[a side'] p'] po'].
      destruct H as (-> & Hs' & Hp' & ->). cbn [fst snd]. split; [reflexivity|]. repeat split; auto.
    - pose proof (do_query_ok m q f side p0 Hf Hs pInv_p0) as H.
      destruct (do_query fkey skey m q f side p0 false) as [[[a side'] p'] po'].
      destruct H as (-> & Hs' & Hp' & ->). cbn [fst snd]. split; [reflexivity|]. repeat split; auto.
    - cbn [fst snd]. split; [exact I|]. repeat split; auto.
  Qed.

  Lemma run_ok ops : forall st, Inv st -> (forall v, In (Write v) ops -> In v vs) ->
    forall o, In o (run fkey skey st ops) ->
    match o with OAns allowed truth => allowed = [truth; truth] | _ => True end.
  Proof.
    induction ops as [|x r IH]; intros st HI Hw o Ho; cbn [run] in Ho; [destruct Ho|].
    destruct (step_ok st x HI) as [A B].
    { intros v E. apply Hw. left. now subst. }
    destruct (step fkey skey st x) as [y st'] eqn:E. cbn [fst snd] in A, B.
    destruct Ho as [<-|Ho]; [exact A|].
    apply (IH st' B); auto. intros v Hv. apply Hw. now right.
  Qed.

  Theorem fresh_if_key_changes v0 ops :
    In v0 vs -> (forall v, In (Write v) ops -> In v vs) ->
    forall o, In o (run fkey skey (init v0) ops) ->
    match o with OAns allowed truth => allowed = [truth; truth] | _ => True end.
  Proof.
    intros H0 Hw. apply run_ok; auto. repeat split; auto; [intros sc H; discriminate | apply pInv_p0].
  Qed.
End Fresh.

(* the same statement with the keys of the code spelled out *)
Corollary fresh_if_mtime_and_stamp_change vs v0 ops :
  (forall v1 v2, In v1 vs -> In v2 vs -> v_secs v1 = v_secs v2 -> v_nanos v1 = v_nanos v2 -> same_data v1 v2) ->
  (forall v1 v2, In v1 vs -> In v2 vs -> v_len v1 = v_len v2 -> v_secs v1 = v_secs v2 -> same_data v1 v2) ->
  In v0 vs -> (forall v, In (Write v) ops -> In v vs) ->
  forall o, In o (run code_fkey code_skey (init v0) ops) -> obs_fresh o = true \/ exists b t u, o = ODict b t u.
Proof.
  intros H1 H2 H0 Hw o Ho.
  assert (match o with OAns allowed truth => allowed = [truth; truth] | _ => True end) as H.
  { apply (fresh_if_key_changes code_fkey code_skey vs) with (v0 := v0) (ops := ops); auto.
    - intros v1 v2 A B E. unfold code_fkey in E. inversion E. now apply H1.
    - intros v1 v2 A B E. unfold code_skey in E. inversion E. now apply H2. }
  destruct o as [|allowed truth|b t u]; [now left | | right; eauto].
  left. subst allowed. cbn. destruct truth; cbn; rewrite ?Z.eqb_refl; reflexivity.
Qed.

(* ---------- refutations: histories the property names ---------- *)
Definition T0 : Z := 1700000000.
Definition w1 : version := mkV 1 0 576 T0 0 true.
(* same mtime (preserved), same length, other data *)
Definition w2_same_mtime : version := mkV 2 0 576 T0 0 true.
(* same mtime, other layout (more row groups) *)
Definition w2_same_mtime_layout : version := mkV 2 1 732 T0 0 true.
(* same second, other nanoseconds, same length *)
Definition w2_same_second : version := mkV 2 0 576 T0 500000000 true.
(* later, other length, string column no longer dictionary-encoded *)
Definition w2_plain : version := mkV 2 2 928 (T0 + 100) 0 false.

Definition any_stale (l : list obs) : bool := existsb (fun o => negb (obs_fresh o)) l.
Definition surely_stale (o : obs) : bool :=
  match o with OAns allowed truth => forallb (fun a => negb (ans_eqb a truth)) allowed | _ => false end.

(* footer cache, sidecars off: after a rewrite that keeps the mtime the cached footer is served;
   its statistics decide `a >= 2M` (NoRows although every row qualifies); with another layout the read is undefined *)
Theorem stale_same_mtime_refuted :
  run code_fkey code_skey (init w1) [Query Off 2; Write w2_same_mtime; Query Off 2]
    = [OAns [NoRows; NoRows] NoRows; OWrite; OAns [All 2; NoRows] (All 2)] /\
  run code_fkey code_skey (init w1) [Query Off 0; Write w2_same_mtime_layout; Query Off 0]
    = [OAns [All 1; All 1] (All 1); OWrite; OAns [Undef] (All 2)].
Proof. split; vm_compute; reflexivity. Qed.

(* sidecar: a rewrite within the same second and with the same length keeps the stamp: the old data are served,
   in Build mode and (sidecar built by another process) in Auto mode; every allowed answer is wrong *)
Theorem stale_same_second_same_len_refuted :
  run code_fkey code_skey (init w1) [Query Build 0; Write w2_same_second; Query Build 0]
    = [OAns [All 1; All 1] (All 1); OWrite; OAns [All 1; All 1] (All 2)] /\
  run code_fkey code_skey (init w1) [Child Build 0; Write w2_same_second; Query Auto 0]
    = [OAns [All 1; All 1] (All 1); OWrite; OAns [All 1; All 1] (All 2)] /\
  surely_stale (OAns [All 1; All 1] (All 2)) = true.
Proof. repeat split; vm_compute; reflexivity. Qed.

(* the per-directory dictionary-column cache survives a rebuild of the sidecar *)
Theorem dict_cols_never_invalidated_refuted :
  run code_fkey code_skey (init w1) [Query Build 0; DictCols; Write w2_plain; Query Build 0; DictCols]
    = [OAns [All 1; All 1] (All 1); ODict true true false; OWrite; OAns [All 2; All 2] (All 2); ODict true false false].
Proof. vm_compute. reflexivity. Qed.

(* the proposed repair (footer key += length, stamp += nanoseconds) removes the same-second witness and the
   other-layout witness, but no (mtime, length) key can be complete: the preserved-mtime same-length rewrite stays stale *)
Theorem fixed_keys_partial :
  any_stale (run fixed_fkey fixed_skey (init w1) [Query Build 0; Write w2_same_second; Query Build 0]) = false /\
  any_stale (run fixed_fkey fixed_skey (init w1) [Query Off 0; Write w2_same_mtime_layout; Query Off 0]) = false /\
  any_stale (run fixed_fkey fixed_skey (init w1) [Query Build 0; Write w2_same_mtime; Query Build 0]) = true.
Proof. repeat split; vm_compute; reflexivity. Qed.

(* non-vacuity of the freshness theorem: a history of three versions with pairwise distinct keys *)
Example fresh_history_nontrivial :
  let vs := [w1; w2_plain; mkV 3 0 576 (T0 + 100) 7 true] in
  map obs_fresh (run code_fkey code_skey (init w1)
     [Query Build 1; Write w2_plain; Query Build 2; Child Auto 3; Write (mkV 3 0 576 (T0 + 100) 7 true); Query Build 3; Query Off 4])
  = [true; true; true; true; true; true; true].
Proof. vm_compute. reflexivity. Qed.
