(* C19 model: one Parquet path that is written, rewritten and queried, seen through the two caches
   as the code keys them.
   anchors: src/storage/metadata_cache.rs cached_metadata (CACHE: path -> (mtime, footer), hit iff
            stored mtime == current mtime), src/storage/ipc_cache.rs stamp_value ("v2:<len>:<mtime secs>"),
            is_fresh, ensure_sidecar (Off / Auto / Build), build_sidecar (row-group inventory from
            cached_metadata), sidecar_dict_cols (per-directory cache, never invalidated).

   The keys are parameters (`fkey` for the footer cache, `skey` for the sidecar stamp) so that the
   freshness theorem is about whatever the key is; `code_fkey`/`code_skey` are what the code uses. *)
From QV Require Export Base.Util.

(* a version of the file: what a writer put at the path *)
Record version := mkV {
  v_content : Z;      (* identity of the data (rows a = content*M + i) *)
  v_layout  : Z;      (* identity of the physical layout (row count, row-group size): offsets in the footer *)
  v_len     : Z;      (* st_size *)
  v_secs    : Z;      (* st_mtime seconds *)
  v_nanos   : Z;      (* st_mtime nanoseconds *)
  v_dict    : bool    (* the string column is dictionary-encoded (=> stored as Dictionary in the sidecar) *)
}.

Record fentry := mkFE { fe_key : list Z; fe_content : Z; fe_layout : Z }.            (* cached footer *)
Record sidecar := mkS { s_key : list Z; s_content : Z; s_layout : Z; s_dict : bool }. (* <path>.qeipc *)
Record pcache := mkP { p_footer : option fentry; p_dict : option bool }.              (* process-global *)
Definition p0 : pcache := mkP None None.

Record state := mkSt {
  st_file   : version;
  st_side   : option sidecar;    (* on disk, shared by all processes *)
  st_proc   : pcache;            (* the querying process *)
  st_poison : bool               (* a sidecar build ran with a footer of another layout: the sidecar's contents are
                                    unknown AND the build may have panicked inside BUILD_LOCK (observed: "index out of
                                    bounds" in build_sidecar), which poisons that process-global mutex: `lock().ok()?`
                                    then makes every later ensure_sidecar of the process decline to build.  Nothing is
                                    predicted for the rest of such a history (every answer Undef, class 1). *)
}.
(* A history is the life of ONE long-lived engine process from its start (`init`: empty process caches, usable
   lock) plus fresh child processes; the harness runs every history in a process of its own accordingly. *)

Inductive mode := Off | Auto | Build.      (* QE_IPC_CACHE = 0 / unset / 1 *)

(* the answer to `SELECT COUNT( * ), min(a), max(a) FROM t WHERE a >= q*M`, abstractly *)
Inductive ans := All (content : Z) | NoRows | Undef.
Definition ans_eqb (a b : ans) : bool :=
  match a, b with
  | All x, All y => x =? y
  | NoRows, NoRows => true
  | Undef, Undef => true
  | _, _ => false
  end.

Definition keq : list Z -> list Z -> bool := list_eqb Z.eqb.

(* the keys the code uses *)
Definition code_fkey (v : version) : list Z := [v_secs v; v_nanos v].       (* SystemTime equality *)
Definition code_skey (v : version) : list Z := [v_len v; v_secs v].         (* "v2:{len}:{as_secs}" *)
(* the keys after the proposed repair (footer: mtime+len; stamp: len+secs+nanos) *)
Definition fixed_fkey (v : version) : list Z := [v_secs v; v_nanos v; v_len v].
Definition fixed_skey (v : version) : list Z := [v_len v; v_secs v; v_nanos v].

Section Keyed.
  Variable fkey skey : version -> list Z.

  Definition fresh_entry (f : version) : fentry := mkFE (fkey f) (v_content f) (v_layout f).
  Definition fresh_side (f : version) : sidecar := mkS (skey f) (v_content f) (v_layout f) (v_dict f).

  (* cached_metadata: hit iff the stored key equals the current one, else parse and overwrite *)
  Definition footer_step (f : version) (p : pcache) : fentry * pcache :=
    match p_footer p with
    | Some e => if keq (fe_key e) (fkey f) then (e, p) else (fresh_entry f, mkP (Some (fresh_entry f)) (p_dict p))
    | None => (fresh_entry f, mkP (Some (fresh_entry f)) (p_dict p))
    end.

  (* is_fresh: `.complete` holds the current stamp *)
  Definition stamp_fresh (f : version) (sc : sidecar) : bool := keq (s_key sc) (skey f).

  (* build_sidecar: row groups enumerated from cached_metadata, bytes read from the current file *)
  Definition build (f : version) (side : option sidecar) (p : pcache)
    : option sidecar * option sidecar * pcache * bool :=
    let (e, p') := footer_step f p in
    if fe_layout e =? v_layout f
    then (Some (fresh_side f), Some (fresh_side f), p', false)
    else (None, side, p', true).        (* stale footer of another layout: fails or writes garbage *)

  (* ensure_sidecar: (sidecar used, sidecar on disk afterwards, process cache, undefined?) *)
  Definition ensure (m : mode) (f : version) (side : option sidecar) (p : pcache)
    : option sidecar * option sidecar * pcache * bool :=
    match m with
    | Off => (None, side, p, false)
    | Auto =>
        match side with
        | Some sc => if stamp_fresh f sc then (Some sc, side, p, false) else (None, side, p, false)
        | None => (None, side, p, false)
        end
    | Build =>
        match side with
        | Some sc => if stamp_fresh f sc then (Some sc, side, p, false) else build f side p
        | None => build f side p
        end
    end.

  Definition q_true (d q : Z) : ans := if q <=? d then All d else NoRows.

  (* one query.  Data come from the sidecar used (else from the file); row groups are enumerated,
     pruned and have their filter dropped according to the footer handed out by the cache.  The two
     allowed answers: predicate evaluated on the data / decided by the footer's min-max statistics
     (which path applies depends on operator choice, left free). *)
  Definition do_query (m : mode) (q : Z) (f : version) (side : option sidecar) (p : pcache) (poison : bool)
    : list ans * option sidecar * pcache * bool :=
    let '(used, side', p1, undef) := ensure m f side p in
    let (e, p2) := footer_step f p1 in
    let d := match used with Some sc => (s_content sc, s_layout sc) | None => (v_content f, v_layout f) end in
    let bad := poison || undef || negb (fe_layout e =? snd d) || negb (snd d =? v_layout f) in
    (if bad then [Undef]
     else [q_true (fst d) q; if q <=? fe_content e then All (fst d) else NoRows],
     side', p2, poison || undef).

  Inductive op :=
  | Write (v : version)
  | Query (m : mode) (q : Z)     (* in the long-lived process *)
  | Child (m : mode) (q : Z)     (* in a fresh process: empty process caches, same disk *)
  | DictCols.                    (* sidecar_dict_cols(dir) in the long-lived process *)

  Inductive obs :=
  | OWrite
  | OAns (allowed : list ans) (truth : ans)
  | ODict (reported truth : bool) (undef : bool).   (* undef: the sidecar on disk is the product of an undefined build *)

  Definition side_dict (side : option sidecar) : bool :=
    match side with Some sc => s_dict sc | None => false end.

  Definition step (st : state) (o : op) : obs * state :=
    match o with
    | Write v => (OWrite, mkSt v (st_side st) (st_proc st) (st_poison st))
    | Query m q =>
        let '(a, side, p, po) := do_query m q (st_file st) (st_side st) (st_proc st) (st_poison st) in
        (OAns a (q_true (v_content (st_file st)) q), mkSt (st_file st) side p po)
    | Child m q =>
        let '(a, side, _, po) := do_query m q (st_file st) (st_side st) p0 (st_poison st) in
        (OAns a (q_true (v_content (st_file st)) q), mkSt (st_file st) side (st_proc st) po)
    | DictCols =>
        let b := match p_dict (st_proc st) with Some b => b | None => side_dict (st_side st) end in
        (ODict b (side_dict (st_side st)) (st_poison st),
         mkSt (st_file st) (st_side st) (mkP (p_footer (st_proc st)) (Some b)) (st_poison st))
    end.

  Fixpoint run (st : state) (ops : list op) : list obs :=
    match ops with
    | [] => []
    | o :: r => let (x, st') := step st o in x :: run st' r
    end.

  Definition init (v0 : version) : state := mkSt v0 None p0 false.

  (* ---- known classes, decided on the state a query starts from ---- *)
  (* footer-same-key: the cached footer's key equals the file's although it describes other data *)
  Definition known_footer (st : state) : bool :=
    match p_footer (st_proc st) with
    | Some e => keq (fe_key e) (fkey (st_file st))
                && negb ((fe_content e =? v_content (st_file st)) && (fe_layout e =? v_layout (st_file st)))
    | None => false
    end.
  (* sidecar-same-stamp: the sidecar's stamp equals the file's although it was built from other data *)
  Definition known_side (st : state) : bool :=
    match st_side st with
    | Some sc => stamp_fresh (st_file st) sc
                 && negb ((s_content sc =? v_content (st_file st)) && (s_layout sc =? v_layout (st_file st)))
    | None => false
    end.
  (* dict-cols-stale: the per-directory dictionary-column cache disagrees with the sidecar on disk *)
  Definition known_dict (st : state) : bool :=
    match p_dict (st_proc st) with Some b => negb (Bool.eqb b (side_dict (st_side st))) | None => false end.

  (* class code of each step: 0 none, 1 footer-same-key (or its aftermath), 2 sidecar-same-stamp, 3 dict-cols-stale *)
  Definition class_of (st : state) (o : op) : Z :=
    match o with
    | Write _ => 0
    | Query m _ =>
        if st_poison st || known_footer st then 1
        else if match m with Off => false | _ => known_side st end then 2 else 0
    | Child m _ =>
        if st_poison st then 1 else if match m with Off => false | _ => known_side st end then 2 else 0
    | DictCols => if st_poison st then 1 else if known_dict st then 3 else 0
    end.

  Fixpoint classes (st : state) (ops : list op) : list Z :=
    match ops with
    | [] => []
    | o :: r => class_of st o :: classes (snd (step st o)) r
    end.
End Keyed.

(* ---- specification of one observation: every answer the implementation gives is the fresh one ---- *)
Definition obs_fresh (o : obs) : bool :=
  match o with
  | OWrite => true
  | OAns allowed truth => forallb (fun a => ans_eqb a truth) allowed
  | ODict b t u => negb u && Bool.eqb b t
  end.

(* an implementation answer is explained by the model / satisfies the property *)
Definition ans_allowed (x : ans) (o : obs) : bool :=
  match o with
  | OAns allowed _ => existsb (fun a => match a with Undef => true | _ => ans_eqb a x end) allowed
  | _ => false
  end.
Definition ans_ok (x : ans) (o : obs) : bool :=
  match o with OAns _ truth => ans_eqb x truth | _ => false end.
