From QV Require Import Bytes.ByteStr C41.Model.

(* ---------- list helpers ---------- *)
Lemma firstn_app_exact {A} (l r : list A) : firstn (length l) (l ++ r) = l.
Proof. induction l as [|x l IH]; cbn; [now destruct r|now rewrite IH]. Qed.
Lemma skipn_app_plus {A} (l r : list A) k : skipn (length l + k) (l ++ r) = skipn k r.
Proof. induction l as [|x l IH]; cbn; auto. Qed.
Lemma skipn_app_exact {A} (l r : list A) : skipn (length l) (l ++ r) = r.
Proof. rewrite <- (Nat.add_0_r (length l)). now rewrite skipn_app_plus. Qed.
Lemma zlen_app (a b : list Z) : zlen (a ++ b) = zlen a + zlen b.
Proof. unfold zlen. rewrite app_length. lia. Qed.
Lemma zlen_nonneg (a : list Z) : 0 <= zlen a.
Proof. unfold zlen. lia. Qed.
Lemma strip_plus_ne x r : x <> 43 -> strip_plus (x :: r) = x :: r.
Proof.
  intros H. unfold strip_plus. destruct x as [|p|p]; auto.
  repeat (destruct p as [p|p|]; auto); congruence.
Qed.
Lemma result_eqb_refl r : result_eqb r r = true.
Proof. destruct r; auto. cbn. apply list_eqb_spec; auto. intros; apply Z.eqb_eq. Qed.

(* the model is the walker in its own configuration *)
Lemma dechunk_is_walk f : forall b out, dechunk_fuel f b out = walk model_cfg f b out.
Proof.
  induction f as [|f IH]; intros b out; cbn [dechunk_fuel walk]; auto.
  destruct (find_sub CRLF b) as [le|]; auto. cbn [c_size model_cfg].
  destruct (size_line (firstn le b)) as [size|]; auto.
  destruct (size =? 0); auto. cbn [c_over c_term model_cfg andb]. destruct (USIZE <=? size + 2); auto.
  destruct (zlen (skipn (le + 2) b) <? size + 2); auto.
Qed.

(* ---------- finding the end of a size line ---------- *)
Lemma find_crlf_line line rest : lacks 13 line = true ->
  find_sub CRLF (line ++ 13 :: 10 :: rest) = Some (length line).
Proof.
  induction line as [|x line IH]; cbn [lacks forallb app length]; intros H.
  - reflexivity.
  - apply andb_true_iff in H as [Hx Hl]. apply negb_true_iff in Hx.
    cbn [find_sub CRLF is_prefix]. rewrite (Z.eqb_sym 13 x), Hx. cbn [andb].
    fold CRLF. rewrite (IH Hl). reflexivity.
Qed.

(* ---------- one chunk, any configuration ---------- *)
Lemma walk_step c f line data rest out n :
  lacks 13 line = true -> c_size c line = Some n -> n = zlen data -> 0 < n -> n + 2 < USIZE ->
  walk c (S f) (line ++ CRLF ++ data ++ CRLF ++ rest) out = walk c f rest (out ++ data).
Proof.
  intros Hl Hs Hn Hpos Hb.
  change (line ++ CRLF ++ data ++ CRLF ++ rest) with (line ++ 13 :: 10 :: data ++ 13 :: 10 :: rest). cbn [walk].
  rewrite find_crlf_line by assumption. rewrite firstn_app_exact, Hs.
  change (line ++ 13 :: 10 :: data ++ 13 :: 10 :: rest) with (line ++ [13; 10] ++ data ++ 13 :: 10 :: rest).
  rewrite skipn_app_plus. cbn [skipn app].
  replace (n =? 0) with false by (symmetry; apply Z.eqb_neq; lia).
  replace (USIZE <=? n + 2) with false by (symmetry; apply Z.leb_gt; lia).
  assert (Hlen : zlen (data ++ 13 :: 10 :: rest) = n + 2 + zlen rest).
  { rewrite zlen_app. unfold zlen at 2. cbn [length]. fold (zlen rest). unfold zlen in *. lia. }
  replace (zlen (data ++ 13 :: 10 :: rest) <? n + 2) with false
    by (symmetry; apply Z.ltb_ge; pose proof (zlen_nonneg rest); lia).
  assert (Tn : Z.to_nat n = length data) by (subst n; unfold zlen; apply Nat2Z.id).
  assert (Tn2 : Z.to_nat (n + 2) = (length data + 2)%nat) by (subst n; unfold zlen; lia).
  rewrite Tn, Tn2, firstn_app_exact, skipn_app_exact.
  change (data ++ 13 :: 10 :: rest) with (data ++ [13; 10] ++ rest).
  rewrite skipn_app_plus. cbn [skipn app firstn].
  replace (list_eqb Z.eqb [13; 10] CRLF) with true by reflexivity.
  cbn [negb]. rewrite andb_false_r. reflexivity.
Qed.

Lemma walk_last c f line trailer out :
  lacks 13 line = true -> c_size c line = Some 0 ->
  walk c (S f) (line ++ CRLF ++ trailer) out = Ok out.
Proof.
  intros Hl Hs. change (line ++ CRLF ++ trailer) with (line ++ 13 :: 10 :: trailer). cbn [walk].
  rewrite find_crlf_line by assumption. now rewrite firstn_app_exact, Hs.
Qed.

Definition line_of (ch : chunk) : list Z := hex (zlen (ch_data ch)) ++ ch_ext ch.

Lemma in_range_usize n : 0 <= n -> n + 2 < USIZE -> 0 <= n < 2 ^ 64.
Proof. unfold USIZE. change (2 ^ 64) with 18446744073709551616. lia. Qed.

Lemma hex_lacks c n : 0 <= n < 2 ^ 64 -> (c < 48 \/ c = 59 \/ 102 < c) -> lacks c (hex n) = true.
Proof.
  intros Hn Hc. destruct (hex_spec n Hn) as (_ & _ & F). unfold lacks. apply forallb_forall.
  rewrite Forall_forall in F. intros x Hx. apply F in Hx. apply negb_true_iff, Z.eqb_neq. lia.
Qed.
Lemma lacks_app c a b : lacks c (a ++ b) = lacks c a && lacks c b.
Proof. apply forallb_app. Qed.

Lemma chunk_ok_props ch : chunk_ok ch = true ->
  0 < zlen (ch_data ch) /\ zlen (ch_data ch) + 2 < USIZE /\ ext_ok (ch_ext ch) = true /\ lacks 13 (line_of ch) = true.
Proof.
  unfold chunk_ok. intros H. apply andb_true_iff in H as [H He]. apply andb_true_iff in H as [Hn Hb].
  apply Z.ltb_lt in Hb.
  assert (0 < zlen (ch_data ch)).
  { destruct (ch_data ch); [discriminate|]. unfold zlen. cbn [length]. lia. }
  repeat split; auto. unfold line_of. rewrite lacks_app. apply andb_true_iff; split.
  - apply hex_lacks; [apply in_range_usize; lia|lia].
  - unfold ext_ok in He. now apply andb_true_iff in He as [He _].
Qed.

Lemma encode_cons ch chunks le tr :
  encode (ch :: chunks) le tr = line_of ch ++ CRLF ++ ch_data ch ++ CRLF ++ encode chunks le tr.
Proof. unfold encode, enc_chunk, line_of. cbn [map concat]. now rewrite <- !app_assoc. Qed.

Lemma walk_encode c chunks last_ext trailer :
  (forall ch, In ch chunks -> chunk_ok ch = true /\ c_size c (line_of ch) = Some (zlen (ch_data ch))) ->
  lacks 13 last_ext = true -> c_size c (48 :: last_ext) = Some 0 ->
  forall f out, (length chunks < f)%nat -> walk c f (encode chunks last_ext trailer) out = Ok (out ++ body_of chunks).
Proof.
  intros Hch Hle H0. induction chunks as [|ch chunks IH]; intros f out Hf; (destruct f as [|f]; [cbn in Hf; lia|]).
  - unfold encode, body_of. cbn [map concat app]. rewrite app_nil_r.
    change (48 :: last_ext ++ CRLF ++ trailer) with ((48 :: last_ext) ++ CRLF ++ trailer).
    apply walk_last; auto.
  - destruct (Hch ch (or_introl eq_refl)) as (Hok & Hs).
    destruct (chunk_ok_props ch Hok) as (Hpos & Hb & _ & Hl).
    rewrite encode_cons. rewrite (walk_step c f (line_of ch) (ch_data ch) _ out (zlen (ch_data ch))); auto.
    rewrite IH.
    + unfold body_of. cbn [map concat]. now rewrite app_assoc.
    + intros ch' Hin. apply Hch. now right.
    + cbn [length] in Hf. lia.
Qed.

Lemma encode_length chunks le tr : (length chunks < S (length (encode chunks le tr)))%nat.
Proof.
  induction chunks as [|ch chunks IH]; [cbn; lia|]. rewrite encode_cons. rewrite !app_length. cbn [length CRLF]. lia.
Qed.

(* ---------- size lines of the encoder, per configuration ---------- *)
Lemma hex_chars_plain n : 0 <= n < 2 ^ 64 ->
  ascii (hex n) = true /\ no_ws (hex n) = true /\ strip_plus (hex n) = hex n /\ is_nil (hex n) = false.
Proof.
  intros Hn. destruct (hex_spec n Hn) as (_ & NE & F). rewrite Forall_forall in F. repeat split.
  - unfold ascii. apply forallb_forall. intros x Hx. apply F in Hx.
    apply andb_true_iff; split; [apply Z.leb_le|apply Z.ltb_lt]; lia.
  - unfold no_ws. apply forallb_forall. intros x Hx. apply F in Hx. apply negb_true_iff. unfold is_ws.
    repeat (apply orb_false_iff; split); try (apply Z.eqb_neq; lia); apply andb_false_iff;
      (left; apply Z.leb_gt; lia) || (right; apply Z.leb_gt; lia).
  - destruct (hex n) as [|x r]; [congruence|]. apply strip_plus_ne. specialize (F x (or_introl eq_refl)). lia.
  - destruct (hex n); [congruence|reflexivity].
Qed.

Lemma size_line_hex n : 0 <= n < 2 ^ 64 -> size_line (hex n) = Some n.
Proof.
  intros Hn. destruct (hex_chars_plain n Hn) as (A & W & P & NN). destruct (hex_spec n Hn) as (V & _ & _).
  unfold size_line. rewrite from_utf8_ascii by assumption. rewrite trim_nonws by assumption.
  unfold parse_hex. rewrite P, NN, V.
  replace (n <? USIZE) with true; auto. symmetry. apply Z.ltb_lt. unfold USIZE. change (2 ^ 64) with 18446744073709551616 in Hn. lia.
Qed.

Lemma before_semi_ext core ext : lacks 59 core = true -> ext_ok ext = true -> before_semi (core ++ ext) = core.
Proof.
  intros Hc He. unfold before_semi. destruct ext as [|e ext'].
  - rewrite app_nil_r. now rewrite split_once_none.
  - unfold ext_ok in He. apply andb_true_iff in He as [_ He]. apply Z.eqb_eq in He. subst e.
    now rewrite split_once_app.
Qed.

Lemma strict_size_line_hex n ext : 0 <= n < 2 ^ 64 -> ext_ok ext = true ->
  strict_size_line (hex n ++ ext) = Some n.
Proof.
  intros Hn He. destruct (hex_chars_plain n Hn) as (_ & _ & _ & NN). destruct (hex_spec n Hn) as (V & _ & _).
  unfold strict_size_line. rewrite before_semi_ext; auto; [|apply hex_lacks; auto; lia].
  rewrite NN, V. replace (n <? USIZE) with true; auto. symmetry. apply Z.ltb_lt. unfold USIZE.
  change (2 ^ 64) with 18446744073709551616 in Hn. lia.
Qed.

(* ---------- the encode theorems ---------- *)
Theorem dechunk_encode_no_ext : forall chunks trailer,
  forallb chunk_ok chunks = true -> no_ext chunks [] = true ->
  dechunk (encode chunks [] trailer) = Ok (body_of chunks).
Proof.
  intros chunks trailer Hok Hne. unfold dechunk. rewrite dechunk_is_walk.
  rewrite (walk_encode model_cfg); auto using encode_length.
  intros ch Hin. rewrite forallb_forall in Hok. specialize (Hok ch Hin). split; auto.
  unfold no_ext in Hne. rewrite andb_true_r in Hne. rewrite forallb_forall in Hne. specialize (Hne ch Hin).
  destruct (chunk_ok_props ch Hok) as (Hpos & Hb & _ & _).
  unfold line_of. destruct (ch_ext ch); [|discriminate]. rewrite app_nil_r.
  cbn [c_size model_cfg]. apply size_line_hex. apply in_range_usize; lia.
Qed.

(* the specification's must-accept side covers every chunking, extensions included *)
Theorem strict_encode : forall chunks last_ext trailer,
  forallb chunk_ok chunks = true -> ext_ok last_ext = true ->
  ref_strict (encode chunks last_ext trailer) = Ok (body_of chunks).
Proof.
  intros chunks last_ext trailer Hok Hle. unfold ref_strict.
  rewrite (walk_encode strict_cfg); auto using encode_length.
  - intros ch Hin. rewrite forallb_forall in Hok. specialize (Hok ch Hin). split; auto.
    destruct (chunk_ok_props ch Hok) as (Hpos & Hb & He & _).
    cbn [c_size strict_cfg]. apply strict_size_line_hex; auto. apply in_range_usize; lia.
  - unfold ext_ok in Hle. now apply andb_true_iff in Hle as [Hle _].
  - cbn [c_size strict_cfg]. change (48 :: last_ext) with (hex 0 ++ last_ext).
    apply strict_size_line_hex; auto. change (2 ^ 64) with 18446744073709551616. lia.
Qed.

(* hence the executable spec accepts exactly the body, for every chunking with or without extensions *)
Theorem spec_demands_body : forall chunks last_ext trailer out,
  forallb chunk_ok chunks = true -> ext_ok last_ext = true ->
  spec_ok (encode chunks last_ext trailer) out = true -> out = Ok (body_of chunks).
Proof.
  intros chunks le tr out Hok Hle. unfold spec_ok. rewrite strict_encode by assumption.
  destruct out as [b| | |]; cbn [result_eqb]; try discriminate.
  intros H. f_equal. apply (list_eqb_spec Z.eqb); auto. intros; apply Z.eqb_eq.
Qed.

(* ---------- refutations on the faithful model ---------- *)
(* "5;x=1\r\nhello\r\n0\r\n\r\n" and the minimal "1;\r\nA\r\n0\r\n\r\n" *)
Theorem extension_refuted :
  exists chunks, forallb chunk_ok chunks = true /\
    dechunk (encode chunks [] CRLF) = Reject /\
    ref_strict (encode chunks [] CRLF) = Ok (body_of chunks) /\
    spec_ok (encode chunks [] CRLF) (dechunk (encode chunks [] CRLF)) = false /\
    known_ext (encode chunks [] CRLF) = true.
Proof. exists [mkChunk [65] [59]]. vm_compute. repeat split; reflexivity. Qed.
Example extension_refuted_typical :
  let input := encode [mkChunk [104;101;108;108;111] [59;120;61;49]] [] CRLF in
  dechunk input = Reject /\ ref_strict input = Ok [104;101;108;108;111] /\ known_ext input = true.
Proof. vm_compute. repeat split; reflexivity. Qed.

(* "fffffffffffffffe\r\n": size + 2 = 2^64 *)
Theorem huge_size_panics :
  exists input, input = hex (USIZE - 2) ++ CRLF /\ dechunk input = Panic /\
    spec_ok input (dechunk input) = false /\ known_huge input = true.
Proof. eexists. split; [reflexivity|]. vm_compute. repeat split; reflexivity. Qed.
Example huge_size_panics_max :
  dechunk (hex (USIZE - 1) ++ CRLF ++ [120]) = Panic /\ dechunk (hex (USIZE - 3) ++ CRLF) = Reject.
Proof. vm_compute. split; reflexivity. Qed.

(* observation (left free by the spec): the two bytes after chunk data are skipped unchecked *)
Example unchecked_terminator : dechunk [49;13;10;97;88;89;48;13;10] = Ok [97]    (* "1\r\naXY0\r\n" *)
  /\ ref_strict [49;13;10;97;88;89;48;13;10] = Reject.
Proof. vm_compute. split; reflexivity. Qed.

(* ---------- totality: the loop terminates; outside the two classes the model meets the spec ---------- *)
Lemma walk_fuel_enough c : c_over c <> OutOfFuel -> forall f b out, (length b < f)%nat -> walk c f b out <> OutOfFuel.
Proof.
  intros Hc. induction f as [|f IH]; intros b out Hf; [lia|]. cbn [walk].
  destruct (find_sub CRLF b) as [le|] eqn:F; [|discriminate].
  destruct (c_size c (firstn le b)) as [size|]; [|discriminate].
  destruct (size =? 0); [discriminate|]. destruct (USIZE <=? size + 2); [assumption|].
  destruct (zlen (skipn (le + 2) b) <? size + 2); [discriminate|].
  destruct (c_term c && _); [discriminate|].
  apply IH. apply find_sub_bound in F. cbn [length CRLF] in F. rewrite !skipn_length. lia.
Qed.
Theorem dechunk_terminates : forall b, dechunk b <> OutOfFuel.
Proof. intros b. unfold dechunk. rewrite dechunk_is_walk. apply walk_fuel_enough; [discriminate|lia]. Qed.

Lemma walk_no_panic c : c_over c = Reject -> forall f b out, walk c f b out <> Panic.
Proof.
  intros Hc. induction f as [|f IH]; intros b out; cbn [walk]; [discriminate|].
  destruct (find_sub CRLF b) as [le|]; [|discriminate].
  destruct (c_size c (firstn le b)) as [size|]; [|discriminate].
  destruct (size =? 0); [discriminate|]. destruct (USIZE <=? size + 2); [rewrite Hc; discriminate|].
  destruct (zlen (skipn (le + 2) b) <? size + 2); [discriminate|].
  destruct (c_term c && _); [discriminate|]. apply IH.
Qed.

Lemma ext_size_line_no_semi line : lacks 59 line = true -> ext_size_line line = size_line line.
Proof. intros H. unfold ext_size_line, before_semi. now rewrite split_once_none. Qed.

Lemma agree_when_clean : forall f b out, scan_fuel f b = (false, false) ->
  walk model_cfg f b out = walk lenient_cfg f b out.
Proof.
  induction f as [|f IH]; intros b out; cbn [scan_fuel walk]; auto.
  destruct (find_sub CRLF b) as [le|]; auto. cbn [c_size model_cfg lenient_cfg].
  destruct (lacks 59 (firstn le b)) eqn:L; cbn [negb].
  - rewrite (ext_size_line_no_semi _ L). destruct (size_line (firstn le b)) as [size|]; auto.
    destruct (size =? 0); auto. destruct (USIZE <=? size + 2); [discriminate|].
    destruct (zlen (skipn (le + 2) b) <? size + 2); auto. cbn [c_term andb].
    destruct (scan_fuel f (skipn (Z.to_nat (size + 2)) (skipn (le + 2) b))) as [e2 h2] eqn:E.
    cbn [orb]. intros H. inversion H; subst. now apply IH.
  - destruct (ext_size_line (firstn le b)) as [size|]; [|discriminate].
    destruct (size =? 0); [discriminate|]. destruct (USIZE <=? size + 2); [discriminate|].
    destruct (zlen (skipn (le + 2) b) <? size + 2); [discriminate|].
    destruct (scan_fuel f _) as [e2 h2]. cbn [orb]. discriminate.
Qed.

Lemma hex_val_plain acc l v : hex_val acc l = Some v -> Forall (fun c => 48 <= c <= 102) l.
Proof.
  revert acc; induction l as [|x l IH]; intros acc; cbn [hex_val]; [constructor|].
  destruct (hex_digit x) as [d|] eqn:D; [|discriminate]. intros H. constructor; [|eapply IH; eauto].
  unfold hex_digit, is_digit in D.
  destruct ((48 <=? x) && (x <=? 57)) eqn:A; [apply andb_true_iff in A as [A1 A2]; apply Z.leb_le in A1, A2; lia|].
  destruct ((97 <=? x) && (x <=? 102)) eqn:B; [apply andb_true_iff in B as [B1 B2]; apply Z.leb_le in B1, B2; lia|].
  destruct ((65 <=? x) && (x <=? 70)) eqn:C; [apply andb_true_iff in C as [C1 C2]; apply Z.leb_le in C1, C2; lia|discriminate].
Qed.

Lemma strict_sub_line line n : strict_size_line line = Some n -> ext_size_line line = Some n.
Proof.
  unfold strict_size_line, ext_size_line. set (core := before_semi line).
  destruct (is_nil core) eqn:NN; [discriminate|].
  destruct (hex_val 0 core) as [v|] eqn:V; [|discriminate].
  destruct (v <? USIZE) eqn:B; [|discriminate]. intros H; inversion H; subst v.
  pose proof (hex_val_plain _ _ _ V) as F. rewrite Forall_forall in F.
  unfold size_line. rewrite from_utf8_ascii.
  2:{ unfold ascii. apply forallb_forall. intros x Hx. apply F in Hx.
      apply andb_true_iff; split; [apply Z.leb_le|apply Z.ltb_lt]; lia. }
  rewrite trim_nonws.
  2:{ unfold no_ws. apply forallb_forall. intros x Hx. apply F in Hx. apply negb_true_iff. unfold is_ws.
      repeat (apply orb_false_iff; split); try (apply Z.eqb_neq; lia); apply andb_false_iff;
        (left; apply Z.leb_gt; lia) || (right; apply Z.leb_gt; lia). }
  unfold parse_hex. destruct core as [|x r]; [discriminate|].
  rewrite strip_plus_ne by (specialize (F x (or_introl eq_refl)); lia).
  cbn [is_nil]. now rewrite V, B.
Qed.

Lemma strict_sub_lenient : forall f b out body, walk strict_cfg f b out = Ok body -> walk lenient_cfg f b out = Ok body.
Proof.
  induction f as [|f IH]; intros b out body; cbn [walk]; [discriminate|].
  destruct (find_sub CRLF b) as [le|]; [|discriminate]. cbn [c_size strict_cfg lenient_cfg].
  destruct (strict_size_line (firstn le b)) as [size|] eqn:S; [|discriminate].
  rewrite (strict_sub_line _ _ S). destruct (size =? 0); auto.
  destruct (USIZE <=? size + 2); [discriminate|].
  destruct (zlen (skipn (le + 2) b) <? size + 2); [discriminate|].
  cbn [c_term andb]. destruct (negb _); [discriminate|]. apply IH.
Qed.

(* every input outside the two known classes: the decoder's answer is the one the spec demands *)
Theorem dechunk_meets_spec_unless_known : forall input,
  known_ext input = false -> known_huge input = false -> spec_ok input (dechunk input) = true.
Proof.
  intros input He Hh. unfold known_ext, known_huge in *.
  assert (Hs : scan_fuel (S (length input)) input = (false, false)).
  { destruct (scan_fuel (S (length input)) input) as [e h]. cbn in He, Hh. now subst. }
  assert (E : dechunk input = ref_lenient input).
  { unfold dechunk, ref_lenient. rewrite dechunk_is_walk. now apply agree_when_clean. }
  rewrite E. unfold spec_ok.
  pose proof (walk_no_panic lenient_cfg eq_refl (S (length input)) input []) as NP.
  pose proof (walk_fuel_enough lenient_cfg ltac:(discriminate) (S (length input)) input [] ltac:(lia)) as NF.
  fold (ref_lenient input) in NP, NF.
  destruct (ref_strict input) as [sb| | |] eqn:S.
  - unfold ref_strict in S. apply strict_sub_lenient in S. fold (ref_lenient input) in S. rewrite S.
    apply result_eqb_refl.
  - destruct (ref_lenient input) as [lb| | |]; try congruence; cbn [result_eqb orb]; auto.
    apply (list_eqb_spec Z.eqb); auto. intros; apply Z.eqb_eq.
  - destruct (ref_lenient input) as [lb| | |]; try congruence; cbn [result_eqb orb]; auto.
    apply (list_eqb_spec Z.eqb); auto. intros; apply Z.eqb_eq.
  - destruct (ref_lenient input) as [lb| | |]; try congruence; cbn [result_eqb orb]; auto.
    apply (list_eqb_spec Z.eqb); auto. intros; apply Z.eqb_eq.
Qed.

(* ---------- a size line containing ';' is never accepted by the engine ---------- *)
Lemma is_cont_ge b : is_cont b = true -> 128 <= b.
Proof. unfold is_cont. rewrite andb_true_iff, !Z.leb_le. lia. Qed.
Lemma second3_ge b0 b1 : second3_ok b0 b1 = true -> 128 <= b0 /\ 128 <= b1.
Proof. unfold second3_ok, is_cont. rewrite !orb_true_iff, !andb_true_iff, !Z.leb_le, !Z.eqb_eq. lia. Qed.
Lemma second4_ge b0 b1 : second4_ok b0 b1 = true -> 128 <= b0 /\ 128 <= b1.
Proof. unfold second4_ok, is_cont. rewrite !orb_true_iff, !andb_true_iff, !Z.leb_le, !Z.eqb_eq. lia. Qed.

Lemma utf8_step_ok l cp n : utf8_step l = (Some cp, n) ->
  (exists r, l = cp :: r /\ n = 1%nat /\ cp < 128) \/
  ((n <= length l)%nat /\ Forall (fun b => 128 <= b) (firstn n l)).
Proof.
  unfold utf8_step. destruct l as [|b0 r]; [discriminate|].
  destruct (Z.ltb_spec b0 128) as [L|L].
  - intros H; inversion H; subst. left; eauto.
  - destruct ((194 <=? b0) && (b0 <=? 223)).
    { destruct r as [|b1 r]; [discriminate|]. destruct (is_cont b1) eqn:C1; [|discriminate].
      intros H; inversion H; subst. right. cbn [length firstn]. split; [lia|].
      repeat constructor; auto using is_cont_ge. }
    destruct ((224 <=? b0) && (b0 <=? 239)).
    { destruct r as [|b1 r]; [discriminate|]. destruct (second3_ok b0 b1) eqn:C1; [|discriminate].
      destruct r as [|b2 r]; [discriminate|]. destruct (is_cont b2) eqn:C2; [|discriminate].
      intros H; inversion H; subst. right. cbn [length firstn]. split; [lia|].
      apply second3_ge in C1. repeat constructor; auto using is_cont_ge; lia. }
    destruct ((240 <=? b0) && (b0 <=? 244)); [|discriminate].
    destruct r as [|b1 r]; [discriminate|]. destruct (second4_ok b0 b1) eqn:C1; [|discriminate].
    destruct r as [|b2 r]; [discriminate|]. destruct (is_cont b2) eqn:C2; [|discriminate].
    destruct r as [|b3 r]; [discriminate|]. destruct (is_cont b3) eqn:C3; [|discriminate].
    intros H; inversion H; subst. right. cbn [length firstn]. split; [lia|].
    apply second4_ge in C1. repeat constructor; auto using is_cont_ge; lia.
Qed.

(* a successfully decoded string still contains every ASCII byte of the input *)
Lemma utf8_keeps_ascii c : 0 <= c < 128 -> forall f l s, (length l <= f)%nat ->
  all_some (utf8_chunks f l) = Some s -> In c l -> In c s.
Proof.
  intros Hc. induction f as [|f IH]; intros l s Hf; destruct l as [|b0 r]; cbn [utf8_chunks];
    try (intros _ []; fail); [cbn in Hf; lia|].
  destruct (utf8_step (b0 :: r)) as [o n] eqn:St. cbn [all_some]. destruct o as [cp|]; [|discriminate].
  destruct (all_some (utf8_chunks f (skipn n (b0 :: r)))) as [s'|] eqn:A; [|discriminate].
  intros H Hin; inversion H; subst s.
  destruct (utf8_step_ok _ _ _ St) as [(r' & E & -> & Hlt)|(Hl & F)].
  - inversion E; subst. destruct Hin as [->|Hin]; [now left|]. right. cbn [skipn] in A.
    apply (IH r'); auto. cbn in Hf; lia.
  - right. apply (IH (skipn n (b0 :: r))); auto.
    + rewrite skipn_length. cbn [length] in *. destruct n; [|lia].
      (* n = 0 is impossible: utf8_step always consumes *)
      exfalso. unfold utf8_step in St. destruct (b0 <? 128); [inversion St|].
      repeat match type of St with
             | (if ?c then _ else _) = _ => destruct c
             | match ?r with _ => _ end = _ => destruct r
             end; inversion St.
    + rewrite <- (firstn_skipn n (b0 :: r)) in Hin. apply in_app_or in Hin as [Hin|Hin]; auto.
      rewrite Forall_forall in F. apply F in Hin. lia.
Qed.

Lemma hex_val_bad c l : In c l -> hex_digit c = None -> forall acc, hex_val acc l = None.
Proof.
  intros Hin Hc. induction l as [|x l IH]; [destruct Hin|]. intros acc. cbn [hex_val].
  destruct Hin as [->|Hin]; [now rewrite Hc|]. destruct (hex_digit x); auto.
Qed.
Lemma lacks_false_in c l : lacks c l = false -> In c l.
Proof.
  unfold lacks. induction l as [|x l IH]; [discriminate|]. cbn [forallb]. intros H.
  apply andb_false_iff in H as [H|H]; [|right; auto]. apply negb_false_iff, Z.eqb_eq in H. now left.
Qed.
Lemma size_line_semi line : In 59 line -> size_line line = None.
Proof.
  intros Hin. unfold size_line. destruct (from_utf8 line) as [s|] eqn:U; auto.
  unfold from_utf8 in U. apply (utf8_keeps_ascii 59 ltac:(lia)) in U; auto.
  apply (trim_preserves_in 59 s eq_refl) in U.
  unfold parse_hex. destruct (trim s) as [|x t]; [destruct U|].
  assert (H59 : In 59 (strip_plus (x :: t))).
  { destruct (Z.eq_dec x 43) as [->|Ne]; [|now rewrite strip_plus_ne].
    cbn [strip_plus]. destruct U as [U|U]; [discriminate|assumption]. }
  destruct (is_nil (strip_plus (x :: t))); auto. now rewrite (hex_val_bad 59).
Qed.

(* so whenever an encoding carries an extension on a well-formed chunk, the engine rejects it *)
Theorem extension_always_rejected : forall pre ch post last_ext trailer,
  forallb chunk_ok pre = true -> forallb (fun c => is_nil (ch_ext c)) pre = true ->
  chunk_ok ch = true -> ch_ext ch <> [] ->
  dechunk (encode (pre ++ ch :: post) last_ext trailer) = Reject.
Proof.
  intros pre ch post le tr Hok Hne Hch Hext. unfold dechunk. rewrite dechunk_is_walk.
  generalize (@nil Z) as out.
  assert (Hf : (length pre < S (length (encode (pre ++ ch :: post) le tr)))%nat).
  { pose proof (encode_length (pre ++ ch :: post) le tr) as L. rewrite app_length in L. lia. }
  revert Hf. generalize (S (length (encode (pre ++ ch :: post) le tr))) as f.
  induction pre as [|p pre IH]; intros f Hf out; (destruct f as [|f]; [cbn in Hf; lia|]).
  - cbn [app]. rewrite encode_cons.
    destruct (chunk_ok_props ch Hch) as (_ & _ & He & Hl).
    set (rest := ch_data ch ++ CRLF ++ encode post le tr).
    change (line_of ch ++ CRLF ++ rest) with (line_of ch ++ 13 :: 10 :: rest). cbn [walk].
    rewrite find_crlf_line by assumption. rewrite firstn_app_exact.
    cbn [c_size model_cfg]. rewrite size_line_semi; auto.
    unfold line_of. apply in_or_app. right. unfold ext_ok in He. apply andb_true_iff in He as [_ He].
    destruct (ch_ext ch) as [|e t]; [congruence|]. apply Z.eqb_eq in He. subst e. now left.
  - cbn [forallb] in Hok, Hne. apply andb_true_iff in Hok as [Hp Hok]. apply andb_true_iff in Hne as [Hpe Hne].
    destruct (chunk_ok_props p Hp) as (Hpos & Hb & _ & Hl).
    cbn [app]. rewrite encode_cons.
    rewrite (walk_step model_cfg f (line_of p) (ch_data p) _ out (zlen (ch_data p))); auto.
    + apply IH; auto. cbn [length] in Hf. lia.
    + unfold line_of. destruct (ch_ext p); [|discriminate]. rewrite app_nil_r.
      cbn [c_size model_cfg]. apply size_line_hex. apply in_range_usize; lia.
Qed.

(* no panic unless a size line reached by the walk declares a size within 2 of 2^64 *)
Theorem dechunk_total : forall input, known_huge input = false -> dechunk input <> Panic.
Proof.
  intros input. unfold dechunk, known_huge. rewrite dechunk_is_walk.
  generalize (@nil Z) as out. generalize (S (length input)) as f. revert input.
  intros b f. revert b. induction f as [|f IH]; intros b out; cbn [scan_fuel walk]; [discriminate|].
  destruct (find_sub CRLF b) as [le|]; [|discriminate]. cbn [c_size model_cfg].
  destruct (size_line (firstn le b)) as [size|] eqn:S; [|discriminate].
  assert (L : lacks 59 (firstn le b) = true).
  { destruct (lacks 59 (firstn le b)) eqn:L; auto. apply lacks_false_in, size_line_semi in L. congruence. }
  rewrite (ext_size_line_no_semi _ L), S.
  destruct (size =? 0); [discriminate|]. destruct (USIZE <=? size + 2); [cbn; discriminate|].
  destruct (zlen (skipn (le + 2) b) <? size + 2); [discriminate|]. cbn [c_term andb].
  destruct (scan_fuel f _) as [e2 h2] eqn:Sc. cbn [snd]. intros Hh. apply IH. now rewrite Sc.
Qed.

(* the correspondence check may compare the engine against any of the four variants; the first is the model *)
Lemma variant_current b : variant false false b = dechunk b.
Proof. unfold variant, dechunk. now rewrite dechunk_is_walk. Qed.
Lemma variant_fixed b : variant true true b = ref_lenient b.
Proof. reflexivity. Qed.

(* satisfiable, non-trivial instance of the main theorem *)
Example ex_two_chunks :
  dechunk (encode [mkChunk [104;101;108;108;111] []; mkChunk [32;119;111;114;108;100] []] [] CRLF)
  = Ok [104;101;108;108;111;32;119;111;114;108;100].
Proof. vm_compute. reflexivity. Qed.
