(* C41 model: metastore::gravitino::dechunk, transcribed byte for byte.
   anchors: src/metastore/gravitino.rs: dechunk (and http_get, which calls it on the bytes after the header).
   Bytes are `list Z` (0..255). `std::str::from_utf8(..).ok()?` is the strict UTF-8 decoder of
   Bytes/ByteStr.v, `.trim()` strips Unicode White_Space, `usize::from_str_radix(_,16)` accepts one leading '+',
   rejects "" and values >= 2^64. `size + 2` on usize: the harness is a debug build (overflow checks on), so
   overflow is the third outcome `Panic` (in release it wraps and the following `&b[..size]` panics instead). *)
From QV Require Export Bytes.ByteStr.

Definition USIZE : Z := 18446744073709551616.   (* 2^64 *)
Definition CRLF : list Z := [13; 10].

Inductive result := Ok (body : list Z) | Reject | Panic | OutOfFuel.

(* usize::from_str_radix(std::str::from_utf8(&b[..line_end]).ok()?.trim(), 16).ok()? *)
Definition size_line (line : list Z) : option Z :=
  match from_utf8 line with
  | None => None
  | Some s => parse_hex (Some USIZE) (trim s)
  end.

(* loop { ... }  — fuel only makes the recursion structural; `dechunk_terminates` shows it is never exhausted *)
Fixpoint dechunk_fuel (fuel : nat) (b out : list Z) : result :=
  match fuel with
  | O => OutOfFuel
  | S f =>
    match find_sub CRLF b with                               (* b.windows(2).position(|w| w == b"\r\n")? *)
    | None => Reject
    | Some le =>
      match size_line (firstn le b) with
      | None => Reject
      | Some size =>
        let b1 := skipn (le + 2) b in                          (* b = &b[line_end + 2..] *)
        if size =? 0 then Ok out
        else if USIZE <=? size + 2 then Panic                  (* size + 2 overflows usize *)
        else if zlen b1 <? size + 2 then Reject                (* b.len() < size + 2 *)
        else dechunk_fuel f (skipn (Z.to_nat (size + 2)) b1)   (* b = &b[size + 2..] *)
                          (out ++ firstn (Z.to_nat size) b1)    (* out.extend_from_slice(&b[..size]) *)
      end
    end
  end.
Definition dechunk (b : list Z) : result := dechunk_fuel (S (length b)) b [].

(* ------------------------------------------------------------------ *)
(* Specification side.                                                  *)

(* one walker, three configurations: how a size line is read, what happens when size+2 does not fit,
   whether the two bytes after the chunk data must be CRLF *)
Record cfg := mkCfg { c_size : list Z -> option Z; c_over : result; c_term : bool }.

Fixpoint walk (c : cfg) (fuel : nat) (b out : list Z) : result :=
  match fuel with
  | O => OutOfFuel
  | S f =>
    match find_sub CRLF b with
    | None => Reject
    | Some le =>
      match c_size c (firstn le b) with
      | None => Reject
      | Some size =>
        let b1 := skipn (le + 2) b in
        if size =? 0 then Ok out
        else if USIZE <=? size + 2 then c_over c
        else if zlen b1 <? size + 2 then Reject
        else if c_term c && negb (list_eqb Z.eqb (firstn 2 (skipn (Z.to_nat size) b1)) CRLF) then Reject
        else walk c f (skipn (Z.to_nat (size + 2)) b1) (out ++ firstn (Z.to_nat size) b1)
      end
    end
  end.

Definition model_cfg : cfg := mkCfg size_line Panic false.

(* the size line up to the first ';' (chunk extensions, RFC 9112 §7.1.1) *)
Definition before_semi (line : list Z) : list Z :=
  match split_once 59 line with Some (a, _) => a | None => line end.

(* strict: chunk-size = 1*HEXDIG exactly, optional ";ext" *)
Definition strict_size_line (line : list Z) : option Z :=
  let core := before_semi line in
  if is_nil core then None
  else match hex_val 0 core with
       | Some v => if v <? USIZE then Some v else None
       | None => None
       end.
(* lenient: what the engine tolerates around the number (whitespace, one '+'), plus extensions *)
Definition ext_size_line (line : list Z) : option Z := size_line (before_semi line).

Definition strict_cfg : cfg := mkCfg strict_size_line Reject true.
Definition lenient_cfg : cfg := mkCfg ext_size_line Reject false.
(* the engine's decoder with extensions understood and a checked `size + 2`: the candidate fix *)
Definition ref_strict (b : list Z) : result := walk strict_cfg (S (length b)) b [].
Definition ref_lenient (b : list Z) : result := walk lenient_cfg (S (length b)) b [].

(* the four decoders the engine can correspond to: the current one (false,false), and the ones obtained by
   understanding chunk extensions and/or checking `size + 2`; (true,true) = ref_lenient *)
Definition variant (ext checked : bool) (b : list Z) : result :=
  walk (mkCfg (if ext then ext_size_line else size_line) (if checked then Reject else Panic) false) (S (length b)) b [].

Definition result_eqb (a b : result) : bool :=
  match a, b with
  | Ok x, Ok y => list_eqb Z.eqb x y
  | Reject, Reject | Panic, Panic | OutOfFuel, OutOfFuel => true
  | _, _ => false
  end.

(* What C41 demands of ANY decoder's output on ANY byte string:
   - never a panic;
   - a strictly well-formed chunked body (RFC grammar, extensions allowed; whatever follows the last-chunk line
     is left free) decodes to its body;
   - framing that even the lenient reading cannot decode (no CRLF, non-hex size, size larger than what follows,
     truncated before the last chunk) is rejected;
   - in between (sloppy but decodable: whitespace or '+' around the size, chunk data not followed by CRLF)
     the decoder may reject or decode, but if it decodes it must produce that body. *)
Definition spec_ok (input : list Z) (out : result) : bool :=
  match out with
  | Panic | OutOfFuel => false
  | _ =>
    match ref_strict input with
    | Ok body => result_eqb out (Ok body)
    | _ => match ref_lenient input with
           | Ok body => result_eqb out Reject || result_eqb out (Ok body)
           | _ => result_eqb out Reject
           end
    end
  end.

(* ---- known-finding classes, decided by the shape of the input alone (lenient walk) ---- *)
(* fst: some size line reached by the walk carries a ';' (chunk extension);
   snd: some size line reached by the walk declares a size s with s + 2 >= 2^64 *)
Fixpoint scan_fuel (fuel : nat) (b : list Z) : bool * bool :=
  match fuel with
  | O => (false, false)
  | S f =>
    match find_sub CRLF b with
    | None => (false, false)
    | Some le =>
      let line := firstn le b in
      let e := negb (lacks 59 line) in
      match ext_size_line line with
      | None => (e, false)
      | Some size =>
        let b1 := skipn (le + 2) b in
        if size =? 0 then (e, false)
        else if USIZE <=? size + 2 then (e, true)
        else if zlen b1 <? size + 2 then (e, false)
        else let '(e2, h2) := scan_fuel f (skipn (Z.to_nat (size + 2)) b1) in (e || e2, h2)
      end
    end
  end.
Definition known_ext (b : list Z) : bool := fst (scan_fuel (S (length b)) b).
Definition known_huge (b : list Z) : bool := snd (scan_fuel (S (length b)) b).

(* ---- the encoder: any body, any chunking, optional extensions ---- *)
Record chunk := mkChunk { ch_data : list Z; ch_ext : list Z }.    (* ext = [] or ";..." without CR *)
Definition enc_chunk (c : chunk) : list Z :=
  hex (zlen (ch_data c)) ++ ch_ext c ++ CRLF ++ ch_data c ++ CRLF.
(* last-chunk "0" [ext] CRLF, then the trailer section and final CRLF (anything at all: left free) *)
Definition encode (chunks : list chunk) (last_ext trailer : list Z) : list Z :=
  concat (map enc_chunk chunks) ++ [48] ++ last_ext ++ CRLF ++ trailer.
Definition body_of (chunks : list chunk) : list Z := concat (map ch_data chunks).
Definition ext_ok (e : list Z) : bool := lacks 13 e && match e with [] => true | c :: _ => c =? 59 end.
Definition chunk_ok (c : chunk) : bool :=
  negb (is_nil (ch_data c)) && (zlen (ch_data c) + 2 <? USIZE) && ext_ok (ch_ext c).
Definition no_ext (chunks : list chunk) (last_ext : list Z) : bool :=
  forallb (fun c => is_nil (ch_ext c)) chunks && is_nil last_ext.
