(* C30 model: the schema (column types) a query reports, over Sql/Query.v's `query`.
   anchors: src/planner/logical_expr.rs (Expr::data_type, coerce_numeric_types, promote_sum_type),
            src/physical/planner.rs: plan_schema_to_arrow, src/execution/context.rs: QueryResult.schema = physical.schema().
   Typing rules, transcribed from the planner:
     comparison / AND / OR / NOT / IS NULL / IN / BETWEEN / LIKE -> bool
     arithmetic = coerce_numeric_types: two operands of ONE numeric type keep it (arm added by the fix: commit
                 4f06458; before it Int32 op Int32 was planned Int64 while the kernels returned Int32 — the
                 parameter `same_arm` keeps the old typing expressible so the regression witness stays a theorem);
                 otherwise Float64 if a float is involved, else Int64 if Int64/Int32 is involved, else Int32 (Int16
                 with Int8)
     unary minus: operand type;  COALESCE: type of the first argument
     CASE (since fix: b37af60, the fold of evaluate_case): branch types are combined from the last branch; when THEN and
                 the accumulated type differ the result is Float64 if either is Float64, otherwise THEN's type
     COUNT -> Int64, SUM -> Int64 / Float64 (promote_sum_type), AVG -> Float64, MIN / MAX -> input type
     joins concatenate (outer joins keep types); INTERSECT / EXCEPT take the left side's types;
     UNION / UNION ALL (since fix: f5f2dbc, common_union_type in the binder): per column the wider integer, Float64 when a
                 float meets another numeric type, otherwise the left side's type (non-numeric pairs are typed by the model
                 only when both sides flow into it; the rest is compared reported-vs-returned)
   Covered: every operator of `query` except VALUES; every expression of `expr` except a bare NULL literal
   (Arrow type Null). COALESCE arguments must be of one class (all integers, all floats, or one type).
   CASE branches: evaluate_case casts every branch to the folded type with arrow's cast kernel. The model types a CASE
   when every branch type tx `flows` into the folded type t: tx and t of one class, or (mx = true) tx an integer and t a
   float — the evaluator's Int -> Float64 cast, under which a VInt is accepted at a float type (has_ty true). The other
   casts arrow performs (float -> integer when an integer THEN meets a Float32, number <-> string, bool <-> number,
   date <-> integer) change the value's kind; such CASEs are outside the value model and are compared
   reported-vs-returned only. mx = false is the strict value typing (one-class CASE only).
   Scalar functions (CAST, date_trunc, ...) are not in `expr`: their typing is compared differentially only. *)
From QV Require Export Sql.Query.

Inductive ty := TI64 | TI32 | TI16 | TI8 | TF64 | TF32 | TStr | TBool | TDate.

Definition ty_eqb (a b : ty) : bool :=
  match a, b with
  | TI64, TI64 | TI32, TI32 | TI16, TI16 | TI8, TI8 | TF64, TF64 | TF32, TF32
  | TStr, TStr | TBool, TBool | TDate, TDate => true
  | _, _ => false
  end.
Definition is_int (t : ty) : bool := match t with TI64 | TI32 | TI16 | TI8 => true | _ => false end.
Definition is_flt (t : ty) : bool := match t with TF64 | TF32 => true | _ => false end.
Definition is_num (t : ty) : bool := is_int t || is_flt t.
Definition same_class (a b : ty) : bool := (is_int a && is_int b) || (is_flt a && is_flt b) || ty_eqb a b.
Definition comparable (a b : ty) : bool := (is_num a && is_num b) || ty_eqb a b.

(* run-time typing of a value; NULL inhabits every type, VErr none; the integer types share VInt, the floats VDbl *)
Definition has_ty (mx : bool) (v : value) (t : ty) : bool :=
  match v, t with
  | VNull, _ => true
  | VInt _, (TI64 | TI32 | TI16 | TI8) => true
  | VInt _, (TF64 | TF32) => mx          (* an integer the evaluator casts to the float column type *)
  | VDbl _, (TF64 | TF32) => true
  | VStr _, TStr => true
  | VBool _, TBool => true
  | VDate _, TDate => true
  | _, _ => false
  end.
Fixpoint row_has_types (mx : bool) (r : row) (env : list ty) : bool :=
  match r, env with
  | [], [] => true
  | v :: r', t :: env' => has_ty mx v t && row_has_types mx r' env'
  | _, _ => false
  end.

Definition lit_ty (v : value) : option ty :=
  match v with
  | VInt _ => Some TI64 | VDbl _ => Some TF64 | VStr _ => Some TStr | VBool _ => Some TBool
  | VDate _ => Some TDate | VNull | VErr => None
  end.

Fixpoint map_opt {A B} (f : A -> option B) (l : list A) : option (list B) :=
  match l with
  | [] => Some []
  | x :: r => match f x, map_opt f r with Some y, Some r' => Some (y :: r') | _, _ => None end
  end.

(* evaluate_case / Expr::Case data_type: fold of the branch types (THENs in order, then ELSE) from the last one *)
Definition case_fold (tys : list ty) : option ty :=
  fold_right (fun t acc => match acc with
                           | None => Some t
                           | Some a => if ty_eqb t a then Some a
                                       else if ty_eqb t TF64 || ty_eqb a TF64 then Some TF64 else Some t
                           end) None tys.

Section Typing.
  (* true = the planner after 4f06458 (first arm of coerce_numeric_types); false = before it *)
  Variable same_arm : bool.
  (* true = CASE may mix integer and float branches (values up to the evaluator's Int -> Float cast) *)
  Variable mx : bool.
  Definition flows (a b : ty) : bool := same_class a b || (mx && is_int a && is_flt b).

  (* coerce_numeric_types, arm by arm (Decimal128 and the unsigned types are outside `ty`) *)
  Definition coerce_numeric (a b : ty) : ty :=
    if same_arm && ty_eqb a b then a
    else if is_flt a || is_flt b then TF64
    else if ty_eqb a TI64 || ty_eqb b TI64 then TI64
    else if ty_eqb a TI32 || ty_eqb b TI32 then TI64
    else if ty_eqb a TI16 || ty_eqb b TI16 then TI32
    else TI16.
  Definition arith_ty (a b : ty) : option ty :=
    if is_num a && is_num b then Some (coerce_numeric a b) else None.

  Section Expr.
    Variable env : list ty.
    Fixpoint tyof (e : expr) : option ty :=
      match e with
      | ECol i => nth_error env i
      | ELit v => lit_ty v
      | ECmp _ a b =>
          match tyof a, tyof b with
          | Some ta, Some tb => if comparable ta tb then Some TBool else None
          | _, _ => None
          end
      | EAnd a b | EOr a b =>
          match tyof a, tyof b with Some TBool, Some TBool => Some TBool | _, _ => None end
      | ENot a => match tyof a with Some TBool => Some TBool | _ => None end
      | EIsNull a | EIsNotNull a => match tyof a with Some _ => Some TBool | None => None end
      | EIn a l _ =>
          match tyof a with
          | Some ta =>
              if forallb (fun x => match tyof x with Some tx => comparable ta tx | None => false end) l
              then Some TBool else None
          | None => None
          end
      | EBetween a lo hi _ =>
          match tyof a, tyof lo, tyof hi with
          | Some ta, Some tl, Some th => if comparable ta tl && comparable ta th then Some TBool else None
          | _, _, _ => None
          end
      | ELike a p _ => match tyof a, tyof p with Some TStr, Some TStr => Some TBool | _, _ => None end
      | EArith _ a b => match tyof a, tyof b with Some ta, Some tb => arith_ty ta tb | _, _ => None end
      | ENeg a => match tyof a with Some t => if is_num t then Some t else None | None => None end
      | ECase whens els =>
          let bts := map (fun cx => let '(_, x) := cx in tyof x) whens
                     ++ match els with Some e' => [tyof e'] | None => [] end in
          match map_opt (fun o => o) bts with
          | Some tys =>
              match case_fold tys with
              | Some t =>
                  if forallb (fun cx => let '(c, _) := cx in match tyof c with Some TBool => true | _ => false end) whens
                     && forallb (fun tx => flows tx t) tys
                  then Some t else None
              | None => None
              end
          | None => None
          end
      | ECoalesce l =>
          match l with
          | [] => None
          | x0 :: _ =>
              match tyof x0 with
              | Some t =>
                  if forallb (fun x => match tyof x with Some tx => same_class t tx | None => false end) l
                  then Some t else None
              | None => None
              end
          end
      end.
  End Expr.

  (* common_union_type (src/planner/binder.rs) *)
  Definition num_rank (t : ty) : nat :=
    match t with TI8 => 1 | TI16 => 2 | TI32 => 3 | TI64 => 4 | TF32 => 5 | TF64 => 6 | _ => 0 end.
  Definition union_ty (a b : ty) : ty :=
    if ty_eqb a b then a
    else match num_rank a, num_rank b with
         | O, _ | _, O => a
         | la, lb => if Nat.leb la 4 && Nat.leb lb 4 then (if Nat.leb lb la then a else b) else TF64
         end.

  Definition agg_ty (f : aggfn) (t : ty) : option ty :=
    match f with
    | ACountStar | ACount | ACountDistinct => Some TI64
    | ASum => if is_int t then Some TI64 else if is_flt t then Some TF64 else None
    | AAvg => if is_num t then Some TF64 else None
    | AMin | AMax => Some t
    end.

  Fixpoint all2 {A} (f : A -> A -> bool) (a b : list A) : bool :=
    match a, b with
    | [], [] => true
    | x :: a', y :: b' => f x y && all2 f a' b'
    | _, _ => false
    end.

  Section Query.
    Variable dbs : list (list ty).       (* the registered tables' column types *)
    Fixpoint schema_g (q : query) : option (list ty) :=
      match q with
      | QTable n w => match nth_error dbs n with
                      | Some env => if Nat.eqb (length env) w then Some env else None
                      | None => None end
      | QValues _ _ => None
      | QFilter q p =>
          match schema_g q with
          | Some env => match tyof env p with Some TBool => Some env | _ => None end
          | None => None end
      | QProject q es => match schema_g q with Some env => map_opt (tyof env) es | None => None end
      | QJoin jt l r on =>
          match schema_g l, schema_g r with
          | Some el, Some er =>
              match tyof (el ++ er) on with
              | Some TBool => Some (match jt with JSemi | JAnti => el | _ => el ++ er end)
              | _ => None end
          | _, _ => None end
      | QAgg q keys aggs =>
          match schema_g q with
          | Some env =>
              match map_opt (tyof env) keys,
                    map_opt (fun fa => match tyof env (snd fa) with Some t => agg_ty (fst fa) t | None => None end) aggs with
              | Some kt, Some at_ => Some (kt ++ at_)
              | _, _ => None end
          | None => None end
      | QDistinct q => schema_g q
      | QSetOp op _ l r =>
          match schema_g l, schema_g r with
          | Some el, Some er =>
              match op with
              | SUnion =>
                  if Nat.eqb (length el) (length er) then
                    let env := map (fun ab => union_ty (fst ab) (snd ab)) (combine el er) in
                    if all2 flows el env && all2 flows er env then Some env else None
                  else None
              | _ => if all2 same_class el er then Some el else None
              end
          | _, _ => None end
      | QSort q keys =>
          match schema_g q with
          | Some env => match map_opt (fun k => tyof env (k_expr k)) keys with Some _ => Some env | None => None end
          | None => None end
      | QLimit q _ _ => schema_g q
      end.
  End Query.
End Typing.

(* what the engine reports (and, since 4f06458, what its kernels return) *)
Definition schema_of := schema_g true true.
(* the same typing with the strict value discipline: CASE branches of one class only *)
Definition schema_strict := schema_g true false.
(* the planner's typing before 4f06458, kept for the regression witness *)
Definition schema_before_4f06458 := schema_g false true.

Definition db_conforms (mx : bool) (db : list rel) (dbs : list (list ty)) : Prop :=
  forall n env, nth_error dbs n = Some env -> forall r, In r (nth n db []) -> row_has_types mx r env = true.
Definition well_typed (dbs : list (list ty)) (db : list rel) (q : query) : Prop :=
  db_conforms true db dbs /\ exists env, schema_of dbs q = Some env.

(* The class union-all-mixed-types is closed for every shape this AST can express (columns are positional, so an
   input never repeats an output name); what is left of it — a UNION ALL input that repeats an output column
   name is not cast by the binder — is a property of the SQL text and is classified in checks/C30.py. *)

(* encoding of types for the check: 0 i64, 1 i32, 2 f64, 3 str, 4 bool, 5 date, 6 i16, 7 i8, 8 f32 *)
Definition ty_code (t : ty) : Z :=
  match t with TI64 => 0 | TI32 => 1 | TF64 => 2 | TStr => 3 | TBool => 4 | TDate => 5 | TI16 => 6 | TI8 => 7 | TF32 => 8 end.
Definition schema_codes (o : option (list ty)) : list Z :=
  match o with Some l => map ty_code l | None => [-1] end.
