(* C30 model: the schema (column types) a query reports, over Sql/Query.v's `query`.
   anchors: src/planner (Expr::data_type / plan schemas), src/physical/planner.rs: plan_schema_to_arrow,
            src/execution/context.rs: QueryResult.schema = physical.schema().
   Typing rules are the engine's as observed on the reported schema:
     comparison / AND / OR / NOT / IS NULL / IN / BETWEEN / LIKE -> bool
     arithmetic: Float64 if either side is Float64, else Int64 (Int32 op Int32 is REPORTED as Int64; the
                 kernel RETURNS Int32: parameter r32 below, class i32-arith)
     unary minus: operand type;  CASE: type of the first THEN;  COALESCE: type of the first argument
     COUNT -> Int64, SUM -> Int64 / Float64, AVG -> Float64, MIN / MAX -> input type
     joins concatenate (outer joins keep types), set operations take the left side's types.
   Covered: every operator of `query` except VALUES; every expression of `expr` except a bare NULL literal
   (Arrow type Null). CASE / COALESCE branches must be of one class (all integers or one type). *)
From QV Require Export Sql.Query.

Inductive ty := TI64 | TI32 | TF64 | TStr | TBool | TDate.

Definition ty_eqb (a b : ty) : bool :=
  match a, b with
  | TI64, TI64 | TI32, TI32 | TF64, TF64 | TStr, TStr | TBool, TBool | TDate, TDate => true
  | _, _ => false
  end.
Definition is_int (t : ty) : bool := match t with TI64 | TI32 => true | _ => false end.
Definition is_num (t : ty) : bool := match t with TI64 | TI32 | TF64 => true | _ => false end.
Definition same_class (a b : ty) : bool := (is_int a && is_int b) || ty_eqb a b.
Definition comparable (a b : ty) : bool := (is_num a && is_num b) || ty_eqb a b.

(* run-time typing of a value; NULL inhabits every type, VErr none; Int32 and Int64 share VInt *)
Definition has_ty (v : value) (t : ty) : bool :=
  match v, t with
  | VNull, _ => true
  | VInt _, (TI64 | TI32) => true
  | VDbl _, TF64 => true
  | VStr _, TStr => true
  | VBool _, TBool => true
  | VDate _, TDate => true
  | _, _ => false
  end.
Fixpoint row_has_types (r : row) (env : list ty) : bool :=
  match r, env with
  | [], [] => true
  | v :: r', t :: env' => has_ty v t && row_has_types r' env'
  | _, _ => false
  end.

Definition lit_ty (v : value) : option ty :=
  match v with
  | VInt _ => Some TI64 | VDbl _ => Some TF64 | VStr _ => Some TStr | VBool _ => Some TBool
  | VDate _ => Some TDate | VNull | VErr => None
  end.

Fixpoint map_opt {A B} (f : A -> option B) (l : list A) : option (list B) :=
  match l with
  | [] => Some []
  | x :: r => match f x, map_opt f r with Some y, Some r' => Some (y :: r') | _, _ => None end
  end.

Section Typing.
  (* the type given to Int32 op Int32: TI64 = what the plan reports, TI32 = what the kernel returns *)
  Variable r32 : ty.

  Definition arith_ty (a b : ty) : option ty :=
    if is_num a && is_num b then
      Some (if ty_eqb a TF64 || ty_eqb b TF64 then TF64
            else if ty_eqb a TI32 && ty_eqb b TI32 then r32 else TI64)
    else None.

  Section Expr.
    Variable env : list ty.
    Fixpoint tyof (e : expr) : option ty :=
      match e with
      | ECol i => nth_error env i
      | ELit v => lit_ty v
      | ECmp _ a b =>
          match tyof a, tyof b with
          | Some ta, Some tb => if comparable ta tb then Some TBool else None
          | _, _ => None
          end
      | EAnd a b | EOr a b =>
          match tyof a, tyof b with Some TBool, Some TBool => Some TBool | _, _ => None end
      | ENot a => match tyof a with Some TBool => Some TBool | _ => None end
      | EIsNull a | EIsNotNull a => match tyof a with Some _ => Some TBool | None => None end
      | EIn a l _ =>
          match tyof a with
          | Some ta =>
              if forallb (fun x => match tyof x with Some tx => comparable ta tx | None => false end) l
              then Some TBool else None
          | None => None
          end
      | EBetween a lo hi _ =>
          match tyof a, tyof lo, tyof hi with
          | Some ta, Some tl, Some th => if comparable ta tl && comparable ta th then Some TBool else None
          | _, _, _ => None
          end
      | ELike a p _ => match tyof a, tyof p with Some TStr, Some TStr => Some TBool | _, _ => None end
      | EArith _ a b => match tyof a, tyof b with Some ta, Some tb => arith_ty ta tb | _, _ => None end
      | ENeg a => match tyof a with Some t => if is_num t then Some t else None | None => None end
      | ECase whens els =>
          match whens with
          | [] => None
          | (_, t0) :: _ =>
              match tyof t0 with
              | Some t =>
                  if forallb (fun cx => let '(c, x) := cx in
                                match tyof c, tyof x with
                                | Some TBool, Some tx => same_class t tx
                                | _, _ => false
                                end) whens
                     && match els with
                        | Some e' => match tyof e' with Some te => same_class t te | None => false end
                        | None => true
                        end
                  then Some t else None
              | None => None
              end
          end
      | ECoalesce l =>
          match l with
          | [] => None
          | x0 :: _ =>
              match tyof x0 with
              | Some t =>
                  if forallb (fun x => match tyof x with Some tx => same_class t tx | None => false end) l
                  then Some t else None
              | None => None
              end
          end
      end.
  End Expr.

  Definition agg_ty (f : aggfn) (t : ty) : option ty :=
    match f with
    | ACountStar | ACount | ACountDistinct => Some TI64
    | ASum => if is_int t then Some TI64 else if ty_eqb t TF64 then Some TF64 else None
    | AAvg => if is_num t then Some TF64 else None
    | AMin | AMax => Some t
    end.

  Fixpoint all2 {A} (f : A -> A -> bool) (a b : list A) : bool :=
    match a, b with
    | [], [] => true
    | x :: a', y :: b' => f x y && all2 f a' b'
    | _, _ => false
    end.

  Section Query.
    Variable dbs : list (list ty).       (* the registered tables' column types *)
    Fixpoint schema_g (q : query) : option (list ty) :=
      match q with
      | QTable n w => match nth_error dbs n with
                      | Some env => if Nat.eqb (length env) w then Some env else None
                      | None => None end
      | QValues _ _ => None
      | QFilter q p =>
          match schema_g q with
          | Some env => match tyof env p with Some TBool => Some env | _ => None end
          | None => None end
      | QProject q es => match schema_g q with Some env => map_opt (tyof env) es | None => None end
      | QJoin jt l r on =>
          match schema_g l, schema_g r with
          | Some el, Some er =>
              match tyof (el ++ er) on with
              | Some TBool => Some (match jt with JSemi | JAnti => el | _ => el ++ er end)
              | _ => None end
          | _, _ => None end
      | QAgg q keys aggs =>
          match schema_g q with
          | Some env =>
              match map_opt (tyof env) keys,
                    map_opt (fun fa => match tyof env (snd fa) with Some t => agg_ty (fst fa) t | None => None end) aggs with
              | Some kt, Some at_ => Some (kt ++ at_)
              | _, _ => None end
          | None => None end
      | QDistinct q => schema_g q
      | QSetOp _ _ l r =>
          match schema_g l, schema_g r with
          | Some el, Some er => if all2 same_class el er then Some el else None
          | _, _ => None end
      | QSort q keys =>
          match schema_g q with
          | Some env => match map_opt (fun k => tyof env (k_expr k)) keys with Some _ => Some env | None => None end
          | None => None end
      | QLimit q _ _ => schema_g q
      end.
  End Query.
End Typing.

(* what the engine REPORTS, and what its kernels RETURN *)
Definition schema_of := schema_g TI64.
Definition returned_schema_of := schema_g TI32.

Definition db_conforms (db : list rel) (dbs : list (list ty)) : Prop :=
  forall n env, nth_error dbs n = Some env -> forall r, In r (nth n db []) -> row_has_types r env = true.
Definition well_typed (dbs : list (list ty)) (db : list rel) (q : query) : Prop :=
  db_conforms db dbs /\ exists env, schema_of dbs q = Some env.

(* recorded class i32-arith, decided by the statement's shape: somewhere in the statement an arithmetic
   node has two Int32 operands (under the kernels' typing), so its Int32 result is reported as Int64.
   Operators that re-encode their input (grouping, DISTINCT, semi-join set operations) may cast it back;
   the class is the shape, not the outcome. *)
Section I32Arith.
  Variable env : list ty.
  Fixpoint i32_arith_e (e : expr) : bool :=
    match e with
    | ECol _ | ELit _ => false
    | EArith _ a b =>
        (match tyof TI32 env a, tyof TI32 env b with Some TI32, Some TI32 => true | _, _ => false end)
        || i32_arith_e a || i32_arith_e b
    | ECmp _ a b | EAnd a b | EOr a b | ELike a b _ => i32_arith_e a || i32_arith_e b
    | ENot a | EIsNull a | EIsNotNull a | ENeg a => i32_arith_e a
    | EIn a l _ => i32_arith_e a || existsb i32_arith_e l
    | EBetween a lo hi _ => i32_arith_e a || i32_arith_e lo || i32_arith_e hi
    | ECase whens els =>
        existsb (fun cx => let '(c, x) := cx in i32_arith_e c || i32_arith_e x) whens
        || match els with Some e' => i32_arith_e e' | None => false end
    | ECoalesce l => existsb i32_arith_e l
    end.
End I32Arith.

Fixpoint known_i32_arith (dbs : list (list ty)) (q : query) : bool :=
  let env_of q' := match returned_schema_of dbs q' with Some e => e | None => [] end in
  match q with
  | QTable _ _ => false
  | QValues _ rows => existsb (existsb (i32_arith_e [])) rows
  | QFilter q' p => known_i32_arith dbs q' || i32_arith_e (env_of q') p
  | QProject q' es => known_i32_arith dbs q' || existsb (i32_arith_e (env_of q')) es
  | QJoin _ l r on => known_i32_arith dbs l || known_i32_arith dbs r || i32_arith_e (env_of l ++ env_of r) on
  | QAgg q' keys aggs =>
      known_i32_arith dbs q' || existsb (i32_arith_e (env_of q')) keys
      || existsb (fun fa => i32_arith_e (env_of q') (snd fa)) aggs
  | QDistinct q' | QLimit q' _ _ => known_i32_arith dbs q'
  | QSetOp _ _ l r => known_i32_arith dbs l || known_i32_arith dbs r
  | QSort q' keys => known_i32_arith dbs q' || existsb (fun k => i32_arith_e (env_of q') (k_expr k)) keys
  end.

(* encoding of types for the check: 0 i64, 1 i32, 2 f64, 3 str, 4 bool, 5 date *)
Definition ty_code (t : ty) : Z :=
  match t with TI64 => 0 | TI32 => 1 | TF64 => 2 | TStr => 3 | TBool => 4 | TDate => 5 end.
Definition ty_of_code (z : Z) : ty :=
  if z =? 0 then TI64 else if z =? 1 then TI32 else if z =? 2 then TF64 else if z =? 3 then TStr
  else if z =? 4 then TBool else TDate.
Definition schema_codes (o : option (list ty)) : list Z :=
  match o with Some l => map ty_code l | None => [-1] end.
