(* C30 proofs: type preservation — every row a query returns conforms to the schema the model reports. *)
From QV Require Import Sql.ExprInd C30.Model.

Section All.
  Variable mx : bool.

(* ---------- values ---------- *)
Lemma has_ty_null t : has_ty mx VNull t = true.
Proof. reflexivity. Qed.

Lemma same_class_has_ty v a b : same_class a b = true -> has_ty mx v b = true -> has_ty mx v a = true.
Proof. generalize mx; intros [|]; destruct v, a, b; cbn; congruence. Qed.

Lemma has_ty_not_err v t : has_ty mx v t = true -> v <> VErr.
Proof. generalize mx; intros [|]; destruct v, t; cbn; congruence. Qed.

Lemma row_nth r : forall env i t,
  row_has_types mx r env = true -> nth_error env i = Some t -> has_ty mx (nth i r VErr) t = true.
Proof.
  induction r as [|v r IH]; intros [|t0 env] i t H N; cbn in H; try discriminate.
  - destruct i; discriminate.
  - apply andb_true_iff in H. destruct H as [Hv Hr].
    destruct i; cbn in N |- *; [inversion N; subst; exact Hv|eapply IH; eassumption].
Qed.

Lemma row_has_types_length r : forall env, row_has_types mx r env = true -> length r = length env.
Proof.
  induction r as [|v r IH]; intros [|t env] H; cbn in H; try discriminate; [reflexivity|].
  apply andb_true_iff in H. cbn. f_equal. apply IH. tauto.
Qed.

Lemma row_has_types_app a : forall ea b eb,
  row_has_types mx a ea = true -> row_has_types mx b eb = true -> row_has_types mx (a ++ b) (ea ++ eb) = true.
Proof.
  induction a as [|v a IH]; intros [|t ea] b eb Ha Hb; cbn in Ha; try discriminate; [exact Hb|].
  apply andb_true_iff in Ha. cbn. apply andb_true_iff. split; [tauto|apply IH; tauto].
Qed.

Lemma row_nulls env : row_has_types mx (nulls (length env)) env = true.
Proof. induction env; cbn; [reflexivity|exact IHenv]. Qed.

Lemma compare_op_typed op a b ta tb :
  has_ty mx a ta = true -> has_ty mx b tb = true -> comparable ta tb = true ->
  has_ty mx (compare_op op a b) TBool = true.
Proof. generalize mx; intros [|]; destruct a, b, ta, tb; cbn; try discriminate; reflexivity. Qed.

Lemma bool_cases v : has_ty mx v TBool = true -> v = VNull \/ exists b, v = VBool b.
Proof. destruct v; cbn; try discriminate; eauto. Qed.

Lemma lift2_typed f a b : has_ty mx a TBool = true -> has_ty mx b TBool = true -> has_ty mx (lift2 f a b) TBool = true.
Proof.
  intros Ha Hb. destruct (bool_cases a Ha) as [->|[x ->]], (bool_cases b Hb) as [->|[y ->]];
    unfold lift2; cbn; destruct (f _ _); reflexivity.
Qed.
Lemma lift1_typed f a : has_ty mx a TBool = true -> has_ty mx (lift1 f a) TBool = true.
Proof. intros Ha. destruct (bool_cases a Ha) as [->|[x ->]]; unfold lift1; cbn; destruct (f _); reflexivity. Qed.
Lemma negate_if_typed n a : has_ty mx a TBool = true -> has_ty mx (negate_if n a) TBool = true.
Proof. destruct n; cbn [negate_if]; [apply lift1_typed|auto]. Qed.

Lemma like_op_typed f n a p : has_ty mx a TStr = true -> has_ty mx p TStr = true -> has_ty mx (like_op f n a p) TBool = true.
Proof. generalize mx; intros [|]; destruct a, p; cbn; try discriminate; reflexivity. Qed.

Lemma arith_op_typed sa op a b ta tb t :
  has_ty mx a ta = true -> has_ty mx b tb = true -> arith_ty sa ta tb = Some t ->
  has_ty mx (arith_op op a b) t = true.
Proof.
  unfold arith_ty, coerce_numeric.
  generalize mx; intros [|]; destruct sa; destruct a, b, ta, tb; cbn; try discriminate; intros _ _ H; inversion H; subst; reflexivity.
Qed.

Lemma neg_op_typed a t : has_ty mx a t = true -> is_num t = true -> has_ty mx (neg_op a) t = true.
Proof. generalize mx; intros [|]; destruct a, t; cbn; try discriminate; reflexivity. Qed.

Lemma flows_has_ty v a b : flows mx a b = true -> has_ty mx v a = true -> has_ty mx v b = true.
Proof. unfold flows. generalize mx; intros [|]; destruct v, a, b; cbn; congruence. Qed.

Lemma map_opt_id_in {A} (l : list (option A)) : forall tys o,
  map_opt (fun o => o) l = Some tys -> In o l -> exists x, o = Some x /\ In x tys.
Proof.
  induction l as [|y l IH]; intros tys o H Hin; cbn in H; [destruct Hin|].
  destruct y as [y|]; [|discriminate]. destruct (map_opt (fun o => o) l) as [r|] eqn:E; [|discriminate].
  inversion H; subst. destruct Hin as [<-|Hin]; [exists y; split; [reflexivity|left; reflexivity]|].
  destruct (IH r o eq_refl Hin) as (x & Ex & Ix). exists x. split; [exact Ex|right; exact Ix].
Qed.

(* ---------- expressions ---------- *)
Section ExprSound.
  Variable sa : bool.
  Variable S : sem.
  Variable env : list ty.
  Variable r : row.
  Hypothesis Hrow : row_has_types mx r env = true.

  Notation tyof := (tyof sa mx env).
  Notation ev := (eval S r).

  Ltac dt H x := destruct (tyof x) as [[]|] eqn:?; try discriminate H.

  Theorem tyof_sound : forall e t, tyof e = Some t -> has_ty mx (ev e) t = true.
  Proof.
    induction e using expr_ind2; intros t Ht; cbn [Model.tyof] in Ht; cbn [eval].
    - eapply row_nth; eassumption.
    - destruct v; cbn in Ht; inversion Ht; reflexivity.
    - destruct (tyof e1) as [ta|] eqn:Ea; [|discriminate]. destruct (tyof e2) as [tb|] eqn:Eb; [|discriminate].
      destruct (comparable ta tb) eqn:C; inversion Ht; subst.
      eapply compare_op_typed; eauto.
    - destruct (tyof e1) as [[]|] eqn:Ea; try discriminate. destruct (tyof e2) as [[]|] eqn:Eb; try discriminate.
      inversion Ht; subst. apply lift2_typed; auto.
    - destruct (tyof e1) as [[]|] eqn:Ea; try discriminate. destruct (tyof e2) as [[]|] eqn:Eb; try discriminate.
      inversion Ht; subst. apply lift2_typed; auto.
    - destruct (tyof e) as [[]|] eqn:Ea; try discriminate. inversion Ht; subst. apply lift1_typed; auto.
    - destruct (tyof e) as [ta|] eqn:Ea; [|discriminate]. inversion Ht; subst.
      specialize (IHe _ eq_refl). destruct (ev e); cbn in *; try discriminate; reflexivity.
    - destruct (tyof e) as [ta|] eqn:Ea; [|discriminate]. inversion Ht; subst.
      specialize (IHe _ eq_refl). destruct (ev e); cbn in *; try discriminate; reflexivity.
    - (* IN *)
      destruct (tyof e) as [ta|] eqn:Ea; [|discriminate].
      match type of Ht with (if ?c then _ else _) = _ => destruct c eqn:All; inversion Ht; subst end.
      rewrite forallb_forall in All. rewrite Forall_forall in H.
      apply negate_if_typed.
      assert (G : forall xs acc, (forall x, In x xs -> In x l) -> has_ty mx acc TBool = true ->
                has_ty mx (fold_left (fun acc x => lift2 (s_or S) acc (compare_op CEq (ev e) (ev x))) xs acc) TBool = true).
      { induction xs as [|x xs IHl]; intros acc Hsub Hacc; cbn [fold_left]; [exact Hacc|].
        apply IHl; [intros; apply Hsub; right; assumption|].
        apply lift2_typed; [exact Hacc|].
        assert (Hx : In x l) by (apply Hsub; left; reflexivity).
        specialize (All x Hx). destruct (tyof x) as [tx|] eqn:Ex; [|discriminate].
        eapply compare_op_typed; [apply IHe; reflexivity|apply (H x Hx); exact Ex|exact All]. }
      apply G; [auto|reflexivity].
    - destruct (tyof e1) as [ta|] eqn:Ea; [|discriminate]. destruct (tyof e2) as [tl|] eqn:El; [|discriminate].
      destruct (tyof e3) as [th|] eqn:Eh; [|discriminate].
      destruct (comparable ta tl && comparable ta th) eqn:C; inversion Ht; subst.
      apply andb_true_iff in C. destruct C.
      apply negate_if_typed. apply lift2_typed; eapply compare_op_typed; eauto.
    - destruct (tyof e1) as [[]|] eqn:Ea; try discriminate. destruct (tyof e2) as [[]|] eqn:Eb; try discriminate.
      inversion Ht; subst. apply like_op_typed; auto.
    - destruct (tyof e1) as [ta|] eqn:Ea; [|discriminate]. destruct (tyof e2) as [tb|] eqn:Eb; [|discriminate].
      eapply arith_op_typed; eauto.
    - destruct (tyof e) as [ta|] eqn:Ea; [|discriminate]. destruct (is_num ta) eqn:N; inversion Ht; subst.
      apply neg_op_typed; auto.
    - (* CASE *)
      match type of Ht with match map_opt _ ?b with _ => _ end = _ => set (bts := b) in * end.
      destruct (map_opt (fun o => o) bts) as [tys|] eqn:Hm; [|discriminate].
      destruct (case_fold tys) as [tt|] eqn:Hf; [|discriminate].
      match type of Ht with (if ?c then _ else _) = _ => destruct c eqn:All; inversion Ht; subst end.
      apply andb_true_iff in All. destruct All as [Conds Fl].
      rewrite forallb_forall in Conds, Fl. rewrite Forall_forall in H.
      assert (Br : forall x, In (tyof x) bts -> (forall t', tyof x = Some t' -> has_ty mx (ev x) t' = true) ->
                   has_ty mx (ev x) t = true).
      { intros x Hin Px. destruct (map_opt_id_in _ _ _ Hm Hin) as (tx & Ex & Itx).
        eapply flows_has_ty; [apply Fl; exact Itx|apply Px; exact Ex]. }
      assert (G : forall ws, (forall cx, In cx ws -> In cx whens) ->
        has_ty mx ((fix go (ws : list (expr * expr)) : value :=
           match ws with
           | [] => match els with Some e' => ev e' | None => VNull end
           | (c, t) :: ws' =>
               match ev c with
               | VBool true => ev t
               | VBool false | VNull => go ws'
               | _ => VErr
               end
           end) ws) t = true).
      { induction ws as [|[c x] ws IHw]; intros Hsub.
        - destruct els as [e'|]; [|reflexivity]. cbn in H0.
          apply Br; [unfold bts; apply in_or_app; right; left; reflexivity|exact H0].
        - assert (Hcx : In (c, x) whens) by (apply Hsub; left; reflexivity).
          pose proof (Conds _ Hcx) as A. pose proof (H _ Hcx) as [Pc Px]. cbn [fst snd] in *.
          destruct (tyof c) as [[]|] eqn:Ec; try discriminate.
          specialize (Pc _ eq_refl).
          destruct (bool_cases _ Pc) as [->|[[] ->]].
          + apply IHw. intros; apply Hsub; right; assumption.
          + apply Br; [|exact Px]. unfold bts. apply in_or_app. left.
            apply in_map_iff. exists (c, x). split; [reflexivity|exact Hcx].
          + apply IHw. intros; apply Hsub; right; assumption. }
      apply G. auto.
    - (* COALESCE *)
      assert (Ht' : forallb (fun x => match tyof x with Some tx => same_class t tx | None => false end) l = true).
      { destruct l as [|x0 xs0]; [discriminate|]. destruct (tyof x0) as [tt|]; [|discriminate].
        match type of Ht with (if ?c then _ else _) = _ => destruct c eqn:C; inversion Ht; subst; exact C end. }
      clear Ht. rewrite forallb_forall in Ht'. rewrite Forall_forall in H.
      assert (G : forall xs, (forall x, In x xs -> In x l) ->
        has_ty mx ((fix go (xs : list expr) : value :=
           match xs with
           | [] => VNull
           | x :: xs' => match ev x with VNull => go xs' | v => v end
           end) xs) t = true).
      { induction xs as [|x xs IHl]; intros Hsub; [reflexivity|].
        assert (Hx : In x l) by (apply Hsub; left; reflexivity).
        pose proof (Ht' _ Hx) as A. destruct (tyof x) as [tx|] eqn:Ex; [|discriminate].
        assert (Hv : has_ty mx (ev x) t = true) by (eapply same_class_has_ty; [exact A|apply (H x Hx); exact Ex]).
        destruct (ev x) eqn:Ev; try exact Hv. apply IHl. intros; apply Hsub; right; assumption. }
      apply G. auto.
  Qed.
End ExprSound.

(* ---------- lists ---------- *)
Lemma map_opt_length {A B} (f : A -> option B) l : forall l', map_opt f l = Some l' -> length l' = length l.
Proof.
  induction l as [|x l IH]; intros l' H; cbn in H; [inversion H; reflexivity|].
  destruct (f x); [|discriminate]. destruct (map_opt f l); [|discriminate]. inversion H; subst. cbn. f_equal. apply IH. reflexivity.
Qed.

Lemma map_opt_row {A} (f : A -> option ty) (g : A -> value) l : forall ts,
  map_opt f l = Some ts -> (forall x t, In x l -> f x = Some t -> has_ty mx (g x) t = true) ->
  row_has_types mx (map g l) ts = true.
Proof.
  induction l as [|x l IH]; intros ts H G; cbn in H; [inversion H; reflexivity|].
  destruct (f x) as [t|] eqn:Ex; [|discriminate]. destruct (map_opt f l) as [ts'|]; [|discriminate].
  inversion H; subst. cbn. apply andb_true_iff. split; [apply G; [left; reflexivity|exact Ex]|].
  apply IH; [reflexivity|]. intros; apply G; [right; assumption|assumption].
Qed.

Lemma all2_class_row r : forall e1 e2,
  all2 same_class e1 e2 = true -> row_has_types mx r e2 = true -> row_has_types mx r e1 = true.
Proof.
  induction r as [|v r IH]; intros [|t1 e1] [|t2 e2] A H; cbn in *; try discriminate; [reflexivity|].
  apply andb_true_iff in A. apply andb_true_iff in H. apply andb_true_iff.
  split; [eapply same_class_has_ty; [apply A|apply H]|eapply IH; [apply A|apply H]].
Qed.

Lemma all2_flows_row r : forall e1 env,
  all2 (flows mx) e1 env = true -> row_has_types mx r e1 = true -> row_has_types mx r env = true.
Proof.
  induction r as [|v r IH]; intros [|t1 e1] [|t2 e2] A H; cbn in *; try discriminate; [reflexivity|].
  apply andb_true_iff in A. apply andb_true_iff in H. apply andb_true_iff.
  split; [eapply flows_has_ty; [apply A|apply H]|eapply IH; [apply A|apply H]].
Qed.

Lemma in_distinct_by eq x l : In x (distinct_by eq l) -> In x l.
Proof.
  induction l as [|y l IH]; cbn; [tauto|]. intros [->|H]; [left; reflexivity|].
  right. apply IH. apply filter_In in H. tauto.
Qed.
Lemma in_distinct_values x l : In x (distinct_values l) -> In x l.
Proof.
  induction l as [|y l IH]; cbn; [tauto|]. intros [->|H]; [left; reflexivity|].
  right. apply IH. apply filter_In in H. tauto.
Qed.
Lemma in_intersect_all x l : forall r, In x (intersect_all l r) -> In x l.
Proof.
  induction l as [|y l IH]; intros r; cbn; [tauto|].
  destruct (remove_one row_same y r); cbn; [intros [->|H]; [auto|right; eapply IH; exact H]|intros H; right; eapply IH; exact H].
Qed.
Lemma in_except_all x l : forall r, In x (except_all l r) -> In x l.
Proof.
  induction l as [|y l IH]; intros r; cbn; [tauto|].
  destruct (remove_one row_same y r); cbn; [intros H; right; eapply IH; exact H|intros [->|H]; [auto|right; eapply IH; exact H]].
Qed.
Lemma in_firstn {A} (x : A) n l : In x (firstn n l) -> In x l.
Proof. intros H. rewrite <- (firstn_skipn n l). apply in_or_app. left; exact H. Qed.
Lemma in_skipn {A} (x : A) n l : In x (skipn n l) -> In x l.
Proof. intros H. rewrite <- (firstn_skipn n l). apply in_or_app. right; exact H. Qed.

(* ---------- aggregates ---------- *)
Lemma non_null_typed t args :
  Forall (fun v => has_ty mx v t = true) args ->
  Forall (fun v => has_ty mx v t = true /\ v <> VNull) (non_null args).
Proof.
  intros H. unfold non_null. rewrite Forall_forall in *. intros v Hv. apply filter_In in Hv.
  destruct Hv as [Hi Hn]. split; [apply H; exact Hi|]. destruct v; cbn in Hn; congruence.
Qed.

Lemma fold_q_some vs : forall q0,
  Forall (fun v => exists q, to_q v = Some q) vs ->
  exists q, fold_left (fun a v => match a, to_q v with Some x, Some y => Some (x + y)%Q | _, _ => None end) vs (Some q0) = Some q.
Proof.
  induction vs as [|v vs IH]; intros q0 H; cbn; [eauto|].
  inversion H as [|? ? [q Hq] Hr]; subst. rewrite Hq. apply IH. exact Hr.
Qed.

Lemma num_to_q t v : is_num t = true -> has_ty mx v t = true -> v <> VNull -> exists q, to_q v = Some q.
Proof. generalize mx; intros [|]; destruct v, t; cbn; try discriminate; try congruence; eauto. Qed.

Lemma cmp_values_some t x a : has_ty mx x t = true -> has_ty mx a t = true -> x <> VNull -> a <> VNull ->
  exists c, cmp_values x a = Some c.
Proof. generalize mx; intros [|]; destruct x, a, t; cbn; try discriminate; try congruence; eauto. Qed.

Lemma best_value_typed want t vs :
  Forall (fun v => has_ty mx v t = true /\ v <> VNull) vs -> has_ty mx (best_value want vs) t = true.
Proof.
  destruct vs as [|v vs]; [reflexivity|]. intros H. inversion H as [|? ? [Hv Nv] Hr]; subst. cbn [best_value].
  clear H. revert v Hv Nv. induction vs as [|x vs IH]; intros a Ha Na; cbn [fold_left]; [exact Ha|].
  inversion Hr as [|? ? [Hx Nx] Hr']; subst.
  destruct (cmp_values_some t x a Hx Ha Nx Na) as [c ->].
  destruct (match c, want with Lt, Lt | Gt, Gt => true | _, _ => false end); apply IH; assumption.
Qed.

Lemma agg_apply_typed f t t' args n :
  Forall (fun v => has_ty mx v t = true) args -> agg_ty f t = Some t' -> has_ty mx (agg_apply f args n) t' = true.
Proof.
  intros H A. pose proof (non_null_typed t args H) as NN. unfold agg_apply.
  destruct f; cbn in A.
  - inversion A; reflexivity.
  - inversion A; reflexivity.
  - (* SUM *)
    unfold sum_values. destruct (non_null args) as [|v vs] eqn:E; [reflexivity|].
    set (nn := v :: vs) in *.
    destruct (forallb (fun v => match v with VInt _ => true | _ => false end) nn) eqn:AllInt.
    + (* an all-integer column: the sum is an integer, accepted at Int64 and (cast) at Float64 *)
      destruct (is_int t) eqn:I; [inversion A; reflexivity|].
      destruct (is_flt t) eqn:Fq; inversion A; subst.
      unfold nn in NN. inversion NN as [|? ? [Hx Nx] _]; subst.
      unfold nn in AllInt. cbn in AllInt. destruct v; try discriminate.
      revert Hx. generalize mx. intros [|]; destruct t; cbn in *; try discriminate; reflexivity.
    + assert (Fl : is_int t = false).
      { destruct (is_int t) eqn:I; [|reflexivity]. exfalso.
        assert (T : forallb (fun v => match v with VInt _ => true | _ => false end) nn = true).
        { apply forallb_forall. intros x Hx. rewrite Forall_forall in NN. destruct (NN x Hx) as [Hx' Nx].
          revert Hx' Nx. generalize mx. intros [|]; destruct x, t; cbn; try discriminate; congruence. }
        congruence. }
      rewrite Fl in A. destruct (is_flt t) eqn:Fq; inversion A; subst.
      destruct (fold_q_some nn 0%Q) as [q ->]; [|reflexivity].
      eapply Forall_impl; [|exact NN]. intros x [Hx Nx].
      apply (num_to_q t); [unfold is_num; rewrite Fq; apply orb_true_r|exact Hx|exact Nx].
  - (* AVG *)
    destruct (is_num t) eqn:N; inversion A; subst.
    unfold avg_values. destruct (non_null args) as [|v vs] eqn:E; [reflexivity|].
    set (nn := v :: vs) in *.
    destruct (fold_q_some nn 0%Q) as [q ->]; [|reflexivity].
    eapply Forall_impl; [|exact NN]. intros x [Hx Nx]. apply (num_to_q t); [exact N|exact Hx|exact Nx].
  - inversion A; subst. apply best_value_typed; exact NN.
  - inversion A; subst. apply best_value_typed; exact NN.
  - inversion A; reflexivity.
Qed.

(* ---------- queries ---------- *)
Section QuerySound.
  Variable sa : bool.
  Variable dbs : list (list ty).
  Variable db : list rel.
  Hypothesis Hdb : db_conforms mx db dbs.

  Notation schema := (schema_g sa mx dbs).
  Notation qev := (qeval sql_qsem db).

  Lemma schema_width : forall q env, schema q = Some env -> length env = width q.
  Proof.
    induction q; intros env H; cbn [schema_g] in H; cbn [width].
    - destruct (nth_error dbs n) as [e|]; [|discriminate]. destruct (Nat.eqb (length e) w) eqn:E; inversion H; subst.
      apply Nat.eqb_eq; exact E.
    - discriminate.
    - destruct (schema q) as [e|]; [|discriminate]. destruct (tyof sa mx e p) as [[]|]; inversion H; subst. apply IHq; reflexivity.
    - destruct (schema q) as [e|]; [|discriminate]. eapply map_opt_length; exact H.
    - destruct (schema q1) as [el|]; [|discriminate]. destruct (schema q2) as [er|]; [|discriminate].
      destruct (tyof sa mx (el ++ er) on) as [[]|]; try discriminate. inversion H; subst.
      destruct jt; try (rewrite app_length, (IHq1 _ eq_refl), (IHq2 _ eq_refl); reflexivity); apply IHq1; reflexivity.
    - destruct (schema q) as [e|]; [|discriminate].
      destruct (map_opt (tyof sa mx e) keys) as [kt|] eqn:K; [|discriminate].
      destruct (map_opt _ aggs) as [at_|] eqn:A; [|discriminate]. inversion H; subst.
      rewrite app_length, (map_opt_length _ _ _ K), (map_opt_length _ _ _ A). reflexivity.
    - apply IHq; exact H.
    - destruct (schema q1) as [el|]; [|discriminate]. destruct (schema q2) as [er|]; [|discriminate].
      destruct op.
      + destruct (Nat.eqb (length el) (length er)) eqn:L; [|discriminate]. apply Nat.eqb_eq in L.
        match type of H with (if ?c then _ else _) = _ => destruct c; inversion H; subst end.
        rewrite map_length, combine_length, <- L, Nat.min_id. apply IHq1; reflexivity.
      + destruct (all2 same_class el er); inversion H; subst. apply IHq1; reflexivity.
      + destruct (all2 same_class el er); inversion H; subst. apply IHq1; reflexivity.
    - destruct (schema q) as [e|]; [|discriminate]. destruct (map_opt _ keys); inversion H; subst. apply IHq; reflexivity.
    - apply IHq; exact H.
  Qed.

  Theorem rows_conform_g : forall q env, schema q = Some env ->
    forall r, In r (qev q) -> row_has_types mx r env = true.
  Proof.
    induction q; intros env H r Hin; cbn [schema_g] in H; cbn [qeval] in Hin.
    - (* table *)
      destruct (nth_error dbs n) as [e|] eqn:E; [|discriminate]. destruct (Nat.eqb (length e) w); inversion H; subst.
      eapply Hdb; eassumption.
    - discriminate.
    - (* filter *)
      destruct (schema q) as [e|]; [|discriminate]. destruct (tyof sa mx e p) as [[]|]; inversion H; subst.
      apply filter_In in Hin. apply IHq; tauto.
    - (* project *)
      destruct (schema q) as [e|] eqn:E; [|discriminate].
      apply in_map_iff in Hin. destruct Hin as (r0 & <- & Hr0).
      eapply map_opt_row; [exact H|]. intros x t _ Hx.
      eapply tyof_sound; eauto.
    - (* join *)
      destruct (schema q1) as [el|] eqn:E1; [|discriminate]. destruct (schema q2) as [er|] eqn:E2; [|discriminate].
      destruct (tyof sa mx (el ++ er) on) as [[]|]; try discriminate. inversion H; subst. clear H.
      pose proof (schema_width _ _ E1) as W1. pose proof (schema_width _ _ E2) as W2.
      assert (PL : forall a, In a (qev q1) -> row_has_types mx a el = true) by (intros; eapply IHq1; eauto).
      assert (PR : forall b, In b (qev q2) -> row_has_types mx b er = true) by (intros; eapply IHq2; eauto).
      assert (NL : row_has_types mx (nulls (width q1)) el = true) by (rewrite <- W1; apply row_nulls).
      assert (NR : row_has_types mx (nulls (width q2)) er = true) by (rewrite <- W2; apply row_nulls).
      unfold join_rows, join_gen in Hin.
      assert (Pair : forall a b, In a (qev q1) -> In b (qev q2) -> row_has_types mx (a ++ b) (el ++ er) = true)
        by (intros; apply row_has_types_app; auto).
      assert (LeftPart : forall ok x, In x (flat_map (fun l => match filter (ok l) (qev q2) with
                            | [] => [l ++ nulls (width q2)] | ms => map (fun r => l ++ r) ms end) (qev q1)) ->
                          row_has_types mx x (el ++ er) = true).
      { intros ok x Hx. apply in_flat_map in Hx. destruct Hx as (a & Ha & Hx).
        destruct (filter (ok a) (qev q2)) as [|m ms] eqn:F.
        - destruct Hx as [<-|[]]. apply row_has_types_app; auto.
        - rewrite <- F in Hx. apply in_map_iff in Hx. destruct Hx as (b & <- & Hb). apply filter_In in Hb. apply Pair; tauto. }
      destruct jt.
      + apply in_flat_map in Hin. destruct Hin as (a & Ha & Hx). apply in_map_iff in Hx.
        destruct Hx as (b & <- & Hb). apply filter_In in Hb. apply Pair; tauto.
      + eapply LeftPart; exact Hin.
      + apply in_flat_map in Hin. destruct Hin as (b & Hb & Hx).
        match type of Hx with In _ (match ?f with _ => _ end) => destruct f as [|m ms] eqn:F end.
        * destruct Hx as [<-|[]]. apply row_has_types_app; auto.
        * rewrite <- F in Hx. apply in_map_iff in Hx. destruct Hx as (a & <- & Ha). apply filter_In in Ha. apply Pair; tauto.
      + apply in_app_or in Hin. destruct Hin as [Hin|Hin]; [eapply LeftPart; exact Hin|].
        apply in_map_iff in Hin. destruct Hin as (b & <- & Hb). apply filter_In in Hb. apply row_has_types_app; [auto|apply PR; tauto].
      + apply filter_In in Hin. apply PL; tauto.
      + apply filter_In in Hin. apply PL; tauto.
      + apply in_flat_map in Hin. destruct Hin as (a & Ha & Hx). apply in_map_iff in Hx.
        destruct Hx as (b & <- & Hb). apply Pair; auto.
    - (* aggregate *)
      destruct (schema q) as [e|] eqn:E; [|discriminate].
      destruct (map_opt (tyof sa mx e) keys) as [kt|] eqn:K; [|discriminate].
      destruct (map_opt _ aggs) as [at_|] eqn:A; [|discriminate]. inversion H; subst. clear H.
      assert (PQ : forall a, In a (qev q) -> row_has_types mx a e = true) by (intros; eapply IHq; eauto).
      assert (Aggs : forall members, (forall m, In m members -> In m (qev q)) ->
                row_has_types mx (map (fun fa => agg_apply (fst fa)
                   (map (fun r => eval (q_esem sql_qsem) r (snd fa)) members) (length members)) aggs) at_ = true).
      { intros members Hm. eapply map_opt_row; [exact A|]. intros [f x] t _ Hx. cbn [fst snd] in *.
        destruct (tyof sa mx e x) as [tx|] eqn:Ex; [|discriminate].
        eapply agg_apply_typed; [|exact Hx].
        apply Forall_forall. intros v Hv. apply in_map_iff in Hv. destruct Hv as (m & <- & Hm').
        eapply tyof_sound; eauto. }
      unfold group_rows in Hin.
      destruct keys as [|k0 ks].
      + destruct Hin as [<-|[]]. cbn in K. inversion K; subst. cbn [app]. apply Aggs. auto.
      + apply in_map_iff in Hin. destruct Hin as (kv & <- & Hkv).
        apply in_distinct_by in Hkv. apply in_map_iff in Hkv. destruct Hkv as (r0 & <- & Hr0).
        apply row_has_types_app.
        * eapply map_opt_row; [exact K|]. intros x t _ Hx. eapply tyof_sound; eauto.
        * apply Aggs. intros m Hm. apply filter_In in Hm. tauto.
    - (* distinct *)
      apply in_distinct_by in Hin. eapply IHq; eauto.
    - (* set operations *)
      destruct (schema q1) as [el|] eqn:E1; [|discriminate]. destruct (schema q2) as [er|] eqn:E2; [|discriminate].
      assert (PL0 : forall a, In a (qev q1) -> row_has_types mx a el = true) by (intros; eapply IHq1; eauto).
      assert (PR0 : forall b, In b (qev q2) -> row_has_types mx b er = true) by (intros; eapply IHq2; eauto).
      assert (PLR : (forall a, In a (qev q1) -> row_has_types mx a env = true) /\
                    (forall b, In b (qev q2) -> row_has_types mx b env = true)).
      { destruct op.
        - destruct (Nat.eqb (length el) (length er)); [|discriminate].
          match type of H with (if ?c then _ else _) = _ => destruct c eqn:C; inversion H; subst end.
          apply andb_true_iff in C. destruct C as [CL CR].
          split; intros x Hx; [eapply all2_flows_row; [exact CL|auto]|eapply all2_flows_row; [exact CR|auto]].
        - destruct (all2 same_class el er) eqn:C; inversion H; subst.
          split; intros x Hx; [auto|eapply all2_class_row; [exact C|auto]].
        - destruct (all2 same_class el er) eqn:C; inversion H; subst.
          split; intros x Hx; [auto|eapply all2_class_row; [exact C|auto]]. }
      destruct PLR as [PL PR]. clear H.
      cbn [q_setop sql_qsem] in Hin. unfold sql_setop in Hin.
      destruct op, all.
      + apply in_app_or in Hin. destruct Hin; auto.
      + apply in_distinct_by in Hin. apply in_app_or in Hin. destruct Hin; auto.
      + apply in_intersect_all in Hin. auto.
      + apply in_distinct_by in Hin. apply filter_In in Hin. apply PL; tauto.
      + apply in_except_all in Hin. auto.
      + apply in_distinct_by in Hin. apply filter_In in Hin. apply PL; tauto.
    - (* sort *)
      destruct (schema q) as [e|] eqn:E; [|discriminate]. destruct (map_opt _ keys); inversion H; subst.
      unfold sort_rows in Hin. eapply Permutation_in in Hin; [|apply isort_perm]. eapply IHq; eauto.
    - (* limit *)
      destruct fetch; [apply in_firstn in Hin|]; apply in_skipn in Hin; eapply IHq; eauto.
  Qed.
End QuerySound.
End All.

(* the pinned statement: rows of a well-typed query conform to the reported schema (a VInt is accepted at a
   float type: the evaluator's Int -> Float64 cast in CASE) *)
Theorem rows_conform : forall dbs db q env,
  db_conforms true db dbs -> schema_of dbs q = Some env ->
  forall r, In r (qeval sql_qsem db q) -> row_has_types true r env = true.
Proof. intros dbs db q env Hdb H. apply (rows_conform_g true true dbs db Hdb q env H). Qed.

(* strict value typing, for statements whose CASEs keep to one class *)
Theorem rows_conform_strict : forall dbs db q env,
  db_conforms false db dbs -> schema_strict dbs q = Some env ->
  forall r, In r (qeval sql_qsem db q) -> row_has_types false r env = true.
Proof. intros dbs db q env Hdb H. apply (rows_conform_g false true dbs db Hdb q env H). Qed.

Theorem schema_width_reported : forall dbs q env, schema_of dbs q = Some env -> length env = width q.
Proof. intros dbs q env. apply schema_width. Qed.

(* regression witness of the class i32-arith (closed by the fix: commit 4f06458) *)
Example i32_arith_regression :
  let q := QProject (QTable 0 1) [EArith AAdd (ECol 0) (ECol 0)] in
  schema_of [[TI32]] q = Some [TI32] /\ schema_before_4f06458 [[TI32]] q = Some [TI64].
Proof. split; reflexivity. Qed.

(* regression witness of the class case-float64-widening (closed by the fix: commit b37af60):
   CASE WHEN c0 > 0 THEN c0 ELSE 1.5 END over Int64 is planned Float64 (its first THEN is Int64); a Float32 THEN
   with a Float64 branch likewise; integer widths keep the THEN's type; the strict discipline rejects the mix *)
Example case_fold_regression :
  let c := ECmp CGt (ECol 0) (ELit (VInt 0)) in
  let q e := QProject (QTable 0 2) [e] in
  schema_of [[TI64; TF32]] (q (ECase [(c, ECol 0)] (Some (ELit (VDbl (3 # 2)))))) = Some [TF64]
  /\ schema_of [[TI64; TF32]] (q (ECase [(c, ECol 1)] (Some (ELit (VDbl (3 # 2)))))) = Some [TF64]
  /\ schema_of [[TI64; TF32]] (q (ECase [(c, ELit (VDbl (3 # 2)))] (Some (ECol 0)))) = Some [TF64]
  /\ schema_of [[TI32; TI64]] (q (ECase [(c, ECol 0)] (Some (ECol 1)))) = Some [TI32]
  /\ schema_strict [[TI64; TF32]] (q (ECase [(c, ECol 0)] (Some (ELit (VDbl (3 # 2)))))) = None
  /\ case_fold [TI64; TF64] = Some TF64 /\ case_fold [TI32; TF32; TF64] = Some TF64 /\ case_fold [TI32; TF32] = Some TI32.
Proof. repeat split. Qed.

(* coerce_numeric_types on every pair of the modelled numeric types, as the planner computes it now *)
Example coerce_table :
  map (fun a => map (coerce_numeric true a) [TI8; TI16; TI32; TI64; TF32; TF64]) [TI8; TI16; TI32; TI64; TF32; TF64]
  = [[TI8;  TI32; TI64; TI64; TF64; TF64];
     [TI32; TI16; TI64; TI64; TF64; TF64];
     [TI64; TI64; TI32; TI64; TF64; TF64];
     [TI64; TI64; TI64; TI64; TF64; TF64];
     [TF64; TF64; TF64; TF64; TF32; TF64];
     [TF64; TF64; TF64; TF64; TF64; TF64]].
Proof. reflexivity. Qed.

(* regression witness of the class union-all-mixed-types for numeric pairs (closed by the fix: commit f5f2dbc):
   Int32 UNION ALL Int64 is planned Int64 in both orders, an integer with a float Float64, Float32 with itself
   Float32; common_union_type on every numeric pair *)
Example union_regression :
  let u a b := QSetOp SUnion true (QProject (QTable 0 3) [ECol a]) (QProject (QTable 0 3) [ECol b]) in
  schema_of [[TI64; TI32; TF32]] (u 1%nat 0%nat) = Some [TI64] /\ schema_of [[TI64; TI32; TF32]] (u 0%nat 1%nat) = Some [TI64]
  /\ schema_of [[TI64; TI32; TF32]] (u 1%nat 2%nat) = Some [TF64] /\ schema_of [[TI64; TI32; TF32]] (u 2%nat 2%nat) = Some [TF32]
  /\ schema_strict [[TI64; TI32; TF32]] (u 1%nat 2%nat) = None
  /\ map (fun a => map (union_ty a) [TI8; TI16; TI32; TI64; TF32; TF64]) [TI8; TI16; TI32; TI64; TF32; TF64]
     = [[TI8;  TI16; TI32; TI64; TF64; TF64];
        [TI16; TI16; TI32; TI64; TF64; TF64];
        [TI32; TI32; TI32; TI64; TF64; TF64];
        [TI64; TI64; TI64; TI64; TF64; TF64];
        [TF64; TF64; TF64; TF64; TF32; TF64];
        [TF64; TF64; TF64; TF64; TF64; TF64]].
Proof. repeat split. Qed.

(* satisfiable hypotheses: a well-typed query with a mixed CASE over a conforming database, and its rows *)
Example well_typed_example :
  let dbs := [[TI64; TStr]] in
  let db := [[[VInt 1; VStr [97]]; [VNull; VNull]; [VInt (-2); VStr [98]]]] in
  let e := ECase [(ECmp CGt (ECol 0) (ELit (VInt 0)), ECol 0)] (Some (ELit (VDbl (3 # 2)))) in
  let q := QAgg (QProject (QTable 0 2) [e; ECol 1]) [ECol 1] [(ASum, ECol 0); (ACountStar, ELit (VInt 1))] in
  well_typed dbs db q /\ schema_of dbs q = Some [TStr; TF64; TI64]
  /\ forallb (fun r => row_has_types true r [TStr; TF64; TI64]) (qeval sql_qsem db q) = true.
Proof.
  cbn. split; [split|split; reflexivity].
  - intros n env Hn r Hr. destruct n as [|[|n]]; cbn in Hn; inversion Hn; subst.
    cbn in Hr. destruct Hr as [<-|[<-|[<-|[]]]]; reflexivity.
  - eexists; reflexivity.
Qed.
