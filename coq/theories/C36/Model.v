(* C36 model: scalar functions of src/physical/operators/filter.rs::evaluate_scalar_func, transcribed
   function by function (quirks kept), the documented (Trino) value of each as an executable spec,
   and the decidable classes `k_*` of argument shapes on which the engine is known to deviate.

   Strings are lists of Unicode scalar values (what Rust's `chars()` yields); the byte length of a
   string is recovered through `utf8_len`.  Byte strings (varbinary, and the url functions which
   work on bytes) are lists of 0..255.  SQL NULL is `None`.

   m_f : the engine as coded        s_f : option res, documented value (None = not specified)
   k_f : Z, 0 = no known deviation, otherwise the id of a known class (table at the end)       *)
From QV Require Export Base.Util.
From QV Require Import Bytes.ByteStr.

Definition str := list Z.
Inductive res := RNull | RInt (z : Z) | RStr (s : str) | RBool (b : bool) | RErr.

Definition res_eqb (a b : res) : bool :=
  match a, b with
  | RNull, RNull => true
  | RInt x, RInt y => x =? y
  | RStr x, RStr y => list_eqb Z.eqb x y
  | RBool x, RBool y => Bool.eqb x y
  | RErr, RErr => true
  | _, _ => false
  end.
Definition spec_ok (s : option res) (r : res) : bool :=
  match s with None => true | Some x => res_eqb x r end.
Definition b2z (b : bool) : Z := if b then 1 else 0.
(* one correspondence case: [impl == model; impl meets spec; known class id] *)
Definition chk (m : res) (s : option res) (k : Z) (impl : res) : list Z :=
  [b2z (res_eqb impl m); b2z (spec_ok s impl); k].

(* ---------- shared helpers ---------- *)
Definition two64 : Z := 18446744073709551616.
Definition two63 : Z := 9223372036854775808.
Definition two32 : Z := 4294967296.
Definition is_i64 (n : Z) : bool := (- two63 <=? n) && (n <? two63).
Definition as_usize (n : Z) : Z := n mod two64.            (* `x as usize` on an i64 *)
Definition to_u64 (n : Z) : Z := n mod two64.              (* `x as u64` *)
Definition to_i64 (u : Z) : Z := let w := u mod two64 in if w <? two63 then w else w - two64.
Definition gi (o : option Z) : Z := match o with Some v => v | None => 0 end.
   (* get_int_value reads the value slot and ignores validity: a NULL integer reads as 0 *)
Definition gs (o : option str) : str := match o with Some s => s | None => [] end.
   (* StringArray::value on a NULL slot is "" *)
Definition is_none {A} (o : option A) : bool := match o with None => true | _ => false end.
Definition zlen (l : str) : Z := Z.of_nat (length l).
(* chars().take(n) / chars().skip(n) with n: usize (guarded so that huge n never becomes a nat) *)
Definition takez (n : Z) (l : str) : str := if zlen l <=? n then l else firstn (Z.to_nat n) l.
Definition skipz (n : Z) (l : str) : str := if zlen l <=? n then [] else skipn (Z.to_nat n) l.
Definition utf8_len (c : Z) : Z := if c <? 128 then 1 else if c <? 2048 then 2 else if c <? 65536 then 3 else 4.
Definition blen (s : str) : Z := zsum (map utf8_len s).   (* str::len(): bytes *)
Definition is_ascii (s : str) : bool := forallb (fun c => c <? 128) s.
Definition sat_sub (a b : Z) : Z := if a <=? b then 0 else a - b.
Definition str_eqb (a b : str) : bool := list_eqb Z.eqb a b.
Definition ostr_eqb (a b : option str) : bool :=
  match a, b with Some x, Some y => str_eqb x y | None, None => true | _, _ => false end.
Definition nonneg_chars (s : str) : bool := forallb (fun c => 0 <=? c) s.

(* ---------- known classes ---------- *)
(* ids 1 (length-bytes), 6 (strpos-bytes), 17 (soundex-vowel), 18 (translate-drop), 20 (hex-lowercase),
   28 (shift-ge64), 29 (shift-wrap32), 31 (dow-sunday) were repaired in the engine (fix: commits 3767e33
   1657caf 584cd34 e4bd2bb e21b72e 08c65d9 0d7bffe) and no longer exist; 36 is what is left of the shifts *)
Definition K_SUBSTR_NULL := 2.    Definition K_SUBSTR_START := 3.
Definition K_SUBSTR_NEGLEN := 4.  Definition K_CONCAT_NULL := 5.
Definition K_PAD_NULL := 7.       Definition K_PAD_EMPTY := 8.      Definition K_PAD_ROW0 := 9.
Definition K_SPLIT_NULL := 10.    Definition K_SPLIT_OOR := 11.     Definition K_SPLIT_NONPOS := 12.
Definition K_SPLIT_EMPTYDELIM := 13. Definition K_CHR_INVALID := 14. Definition K_COUNT_NULL := 15.
Definition K_HAMMING_LEN := 16.
Definition K_LUHN_NONDIGIT := 19. Definition K_DECODE_INVALID := 21.
Definition K_URLENC_CHARS := 22.  Definition K_URLDEC_PLUS := 23.   Definition K_URLDEC_INVALID := 24.
Definition K_TOBASE_RADIX := 25.  Definition K_TOBASE_NEG := 26.    Definition K_BASE_ROW0 := 27.
Definition K_BITCOUNT_BITS := 30.
Definition K_DATEDIFF_PARTIAL := 32. Definition K_DATEADD_NULL := 33.
Definition K_DATE_UNIT := 34.     Definition K_GREATEST_NULL := 35. Definition K_SHIFT_NEGATIVE := 36.

(* ================= strings ================= *)

(* LENGTH: s.chars().count() — code points, as documented (was str::len() before fix 3767e33) *)
Definition m_length (s : option str) : res := match s with None => RNull | Some l => RInt (zlen l) end.
Definition s_length (s : option str) : option res := Some (match s with None => RNull | Some l => RInt (zlen l) end).

(* SUBSTRING(s, start [, len]).  cp = the "constant start/len" kernel path is eligible
   (literal arguments or a one-row batch); ln = None: two-argument form, Some None: NULL length *)
Definition m_substr (cp : bool) (s : option str) (st : option Z) (ln : option (option Z)) : res :=
  let start := gi st in
  let const_ok := cp && (1 <=? start) && match ln with None => true | Some l => 0 <=? gi l end in
  if const_ok then
    match s with
    | None => RNull
    | Some l => RStr (match ln with
                      | None => skipz (start - 1) l
                      | Some l' => takez (gi l') (skipz (start - 1) l)
                      end)
    end
  else
    let l1 := skipz (sat_sub (as_usize start) 1) (gs s) in
    RStr (match ln with None => l1 | Some l' => takez (as_usize (gi l')) l1 end).

Definition trino_substr (l : str) (start : Z) (len : option Z) : str :=
  let n := zlen l in
  let off := if start =? 0 then None else if 0 <? start then Some (start - 1)
             else if n + start <? 0 then None else Some (n + start) in
  match off with
  | None => []
  | Some o => let r := skipz o l in
              match len with None => r | Some k => if k <=? 0 then [] else takez k r end
  end.
Definition s_substr (s : option str) (st : option Z) (ln : option (option Z)) : option res :=
  Some (match s, st, ln with
        | Some l, Some start, None => RStr (trino_substr l start None)
        | Some l, Some start, Some (Some k) => RStr (trino_substr l start (Some k))
        | _, _, _ => RNull
        end).
Definition k_substr (cp : bool) (s : option str) (st : option Z) (ln : option (option Z)) : Z :=
  let lnull := match ln with Some None => true | _ => false end in
  let lneg := match ln with Some (Some k) => k <? 0 | _ => false end in
  if is_none st || lnull then K_SUBSTR_NULL
  else if gi st <=? 0 then K_SUBSTR_START
  else if lneg then K_SUBSTR_NEGLEN
  else if is_none s && negb cp then K_SUBSTR_NULL
  else 0.

(* REPLACE: str::replace — leftmost non-overlapping; "" matches at every char boundary *)
Fixpoint replace_go (fuel : nat) (from to s : str) : str :=
  match fuel with
  | O => s
  | S f => match s with
           | [] => []
           | c :: r => if is_prefix from s then to ++ replace_go f from to (skipn (length from) s)
                       else c :: replace_go f from to r
           end
  end.
Definition replace_str (s from to : str) : str :=
  match from with
  | [] => to ++ flat_map (fun c => c :: to) s
  | _ => replace_go (S (length s)) from to s
  end.
Definition m_replace (s f t : option str) : res :=
  match s, f, t with Some s', Some f', Some t' => RStr (replace_str s' f' t') | _, _, _ => RNull end.
Definition s_replace (s f t : option str) : option res := Some (m_replace s f t).

(* CONCAT: NULL arguments are skipped; Trino: NULL if any argument is NULL *)
Definition m_concat (args : list (option str)) : res := RStr (concat (map gs args)).
Definition s_concat (args : list (option str)) : option res :=
  Some (if existsb is_none args then RNull else RStr (concat (map gs args))).
Definition k_concat (args : list (option str)) : Z := if existsb is_none args then K_CONCAT_NULL else 0.

Fixpoint join (sep : str) (ps : list str) : str :=
  match ps with
  | [] => []
  | p :: r => match r with [] => p | _ => p ++ sep ++ join sep r end
  end.
Fixpoint somes {A} (l : list (option A)) : list A :=
  match l with [] => [] | Some x :: r => x :: somes r | None :: r => somes r end.
Definition m_concat_ws (sep : option str) (args : list (option str)) : res :=
  match sep with None => RNull | Some sp => RStr (join sp (somes args)) end.
Definition s_concat_ws (sep : option str) (args : list (option str)) : option res := Some (m_concat_ws sep args).

(* POSITION / STRPOS: s[..pos].chars().count() + 1 for the byte offset pos of str::find (fix 1657caf):
   the code point index, as documented *)
Definition find_str (sub s : str) : option nat := match sub with [] => Some 0%nat | _ => find_sub sub s end.
Definition m_strpos (s sub : option str) : res :=
  match s, sub with
  | Some l, Some p => RInt (match find_str p l with Some i => zlen (firstn i l) + 1 | None => 0 end)
  | _, _ => RNull
  end.
Definition s_strpos (s sub : option str) : option res :=
  Some (match s, sub with
        | Some l, Some p => RInt (match find_str p l with Some i => Z.of_nat i + 1 | None => 0 end)
        | _, _ => RNull
        end).

Definition m_reverse (s : option str) : res := match s with None => RNull | Some l => RStr (rev l) end.
Definition s_reverse (s : option str) : option res := Some (m_reverse s).

(* LPAD / RPAD: the pad string is read from ROW 0 of the batch (pad0), a NULL/empty pad pads nothing,
   a negative size becomes a huge usize and the fill allocation panics (capacity overflow) *)
Fixpoint cyc (k : nat) (cur pad : str) : str :=
  match k with
  | O => []
  | S k' => match cur with
            | c :: r => c :: cyc k' r pad
            | [] => match pad with c :: r => c :: cyc k' r pad | [] => [] end
            end
  end.
Definition fill (k : Z) (pad : str) : str := cyc (Z.to_nat k) pad pad.
Definition m_pad (left : bool) (s : option str) (n : option Z) (pad0 : option str) : res :=
  match s with
  | None => RNull
  | Some l =>
      let target := as_usize (gi n) in
      let cur := zlen l in
      if target <=? cur then RStr (takez target l)
      else match gs pad0 with
           | [] => RStr l
           | p => if two63 - 1 <? target - cur then RErr
                  else if left then RStr (fill (target - cur) p ++ l) else RStr (l ++ fill (target - cur) p)
           end
  end.
Definition s_pad (left : bool) (s : option str) (n : option Z) (pad : option str) : option res :=
  Some (match s, n, pad with
        | Some l, Some k, Some p =>
            if (k <? 0) || match p with [] => true | _ => false end then RErr
            else if k <=? zlen l then RStr (takez k l)
            else if left then RStr (fill (k - zlen l) p ++ l) else RStr (l ++ fill (k - zlen l) p)
        | _, _, _ => RNull
        end).
Definition k_pad (s : option str) (n : option Z) (pad pad0 : option str) : Z :=
  if is_none s then 0
  else if is_none n || is_none pad then K_PAD_NULL
  else if negb (ostr_eqb pad pad0) then K_PAD_ROW0
  else match gs pad with [] => K_PAD_EMPTY | _ => 0 end.

(* SPLIT_PART: str::split; "" delimiter yields "", each char, "" *)
Fixpoint split_go (fuel : nat) (d s cur : str) : list str :=
  match fuel with
  | O => [rev cur ++ s]
  | S f => match s with
           | [] => [rev cur]
           | c :: r => if is_prefix d s then rev cur :: split_go f d (skipn (length d) s) []
                       else split_go f d r (c :: cur)
           end
  end.
Definition rust_split (s d : str) : list str :=
  match d with
  | [] => [] :: map (fun c => [c]) s ++ [[]]
  | _ => split_go (S (length s)) d s []
  end.
Definition m_split_part (s d : option str) (idx : option Z) : res :=
  match s, d with
  | Some l, Some dl =>
      let i := as_usize (gi idx) in
      let parts := rust_split l dl in
      if (0 <? i) && (i <=? Z.of_nat (length parts)) then RStr (nth (Z.to_nat (i - 1)) parts []) else RStr []
  | _, _ => RNull
  end.
Definition s_split_part (s d : option str) (idx : option Z) : option res :=
  Some (match s, d, idx with
        | Some l, Some dl, Some i =>
            if i <=? 0 then RErr
            else let parts := match dl with [] => map (fun c => [c]) l | _ => rust_split l dl end in
                 if i <=? Z.of_nat (length parts) then RStr (nth (Z.to_nat (i - 1)) parts []) else RNull
        | _, _, _ => RNull
        end).
Definition k_split_part (s d : option str) (idx : option Z) : Z :=
  if is_none s || is_none d then 0
  else match idx with
       | None => K_SPLIT_NULL
       | Some i => if i <=? 0 then K_SPLIT_NONPOS
                   else match gs d with
                        | [] => K_SPLIT_EMPTYDELIM
                        | _ => if Z.of_nat (length (rust_split (gs s) (gs d))) <? i then K_SPLIT_OOR else 0
                        end
       end.

Definition m_starts_with (s p : option str) : res :=
  match s, p with Some l, Some q => RBool (is_prefix q l) | _, _ => RNull end.
Definition m_ends_with (s p : option str) : res :=
  match s, p with Some l, Some q => RBool (is_prefix (rev q) (rev l)) | _, _ => RNull end.
Definition s_starts_with (s p : option str) : option res := Some (m_starts_with s p).
Definition s_ends_with (s p : option str) : option res := Some (m_ends_with s p).

(* CHR: char::from_u32(v as u32) — wraps mod 2^32, invalid => NULL; Trino: error *)
Definition is_scalar (v : Z) : bool := ((0 <=? v) && (v <? 55296)) || ((57344 <=? v) && (v <? 1114112)).
Definition m_chr (n : option Z) : res :=
  match n with None => RNull | Some v => let w := v mod two32 in if is_scalar w then RStr [w] else RNull end.
Definition s_chr (n : option Z) : option res :=
  Some (match n with None => RNull | Some v => if is_scalar v then RStr [v] else RErr end).
Definition k_chr (n : option Z) : Z := match n with Some v => if is_scalar v then 0 else K_CHR_INVALID | None => 0 end.

Definition m_ascii (s : option str) : res :=
  match s with None => RNull | Some [] => RInt 0 | Some (c :: _) => RInt c end.
Definition s_ascii (s : option str) : option res := Some (m_ascii s).
Definition m_codepoint (s : option str) : res :=
  match s with None => RNull | Some [] => RNull | Some (c :: _) => RInt c end.
Definition s_codepoint (s : option str) : option res :=
  match s with None => Some RNull | Some [c] => Some (RInt c) | _ => None end.  (* Trino: varchar(1) only *)

(* LEFT / RIGHT / REPEAT (not Trino functions; spec = the list-level definition for n >= 0) *)
Definition m_left (s : option str) (n : option Z) : res :=
  match s with None => RNull | Some l => RStr (takez (as_usize (gi n)) l) end.
Definition m_right (s : option str) (n : option Z) : res :=
  match s with None => RNull | Some l => RStr (skipz (sat_sub (zlen l) (as_usize (gi n))) l) end.
Fixpoint rep (k : nat) (l : str) : str := match k with O => [] | S k' => l ++ rep k' l end.
Definition m_repeat (s : option str) (n : option Z) : res :=
  match s with None => RNull | Some l => RStr (rep (Z.to_nat (Z.max (gi n) 0)) l) end.
Definition s_left (s : option str) (n : option Z) : option res :=
  match s, n with
  | Some l, Some k => if k <? 0 then None else Some (RStr (firstn (Z.to_nat (Z.min k (zlen l))) l))
  | _, _ => Some RNull
  end.
Definition s_right (s : option str) (n : option Z) : option res :=
  match s, n with
  | Some l, Some k => if k <? 0 then None else Some (RStr (skipn (length l - Z.to_nat (Z.min k (zlen l))) l))
  | _, _ => Some RNull
  end.
Definition s_repeat (s : option str) (n : option Z) : option res :=
  match s, n with
  | Some l, Some k => if k <? 0 then None else Some (RStr (rep (Z.to_nat k) l))
  | _, _ => Some RNull
  end.
Definition k_count (s : option str) (n : option Z) : Z := if negb (is_none s) && is_none n then K_COUNT_NULL else 0.

(* HAMMING_DISTANCE: compares BYTE lengths, unequal => NULL (Trino: error), zip truncates *)
Fixpoint diffcount (a b : str) : Z :=
  match a, b with
  | x :: a', y :: b' => (if x =? y then 0 else 1) + diffcount a' b'
  | _, _ => 0
  end.
Definition m_hamming (a b : option str) : res :=
  match a, b with
  | Some x, Some y => if blen x =? blen y then RInt (diffcount x y) else RNull
  | _, _ => RNull
  end.
Definition s_hamming (a b : option str) : option res :=
  Some (match a, b with
        | Some x, Some y => if zlen x =? zlen y then RInt (diffcount x y) else RErr
        | _, _ => RNull
        end).
Definition k_hamming (a b : option str) : Z :=
  match a, b with
  | Some x, Some y => if (zlen x =? zlen y) && (blen x =? blen y) then 0 else K_HAMMING_LEN
  | _, _ => 0
  end.

(* LEVENSHTEIN_DISTANCE.  Spec: the recursive definition on the LAST characters (Wagner-Fischer
   recurrence); lists are given reversed, so `lev (rev a) (rev b)` is the distance of a and b. *)
Fixpoint lev (a : str) : str -> Z :=
  match a with
  | [] => fun b => zlen b
  | x :: a' =>
      fix lev_b (b : str) : Z :=
        match b with
        | [] => zlen (x :: a')
        | y :: b' => Z.min (Z.min (lev a' (y :: b') + 1) (lev_b b' + 1)) (lev a' b' + (if x =? y then 0 else 1))
        end
  end.
Definition lev_spec (a b : str) : Z := lev (rev a) (rev b).

(* the engine: two rows, prev/curr swapped after each row; curr is fully overwritten before it is read *)
Fixpoint lev_row (x : Z) (b : str) (prev : list Z) (left : Z) : list Z :=
  match b, prev with
  | y :: b', pd :: ((pu :: _) as prev') =>
      let v := Z.min (Z.min (pu + 1) (left + 1)) (pd + (if x =? y then 0 else 1)) in
      v :: lev_row x b' prev' v
  | _, _ => []
  end.
Definition lev_next (i x : Z) (b : str) (prev : list Z) : list Z := i :: lev_row x b prev i.
Fixpoint lev_loop (a b : str) (i : Z) (prev : list Z) : list Z :=
  match a with [] => prev | x :: a' => lev_loop a' b (i + 1) (lev_next i x b prev) end.
Fixpoint iota (k : nat) (from : Z) : list Z := match k with O => [] | S k' => from :: iota k' (from + 1) end.
Definition lev_model (a b : str) : Z :=
  match a, b with
  | [], _ => zlen b
  | _, [] => zlen a
  | _, _ => last (lev_loop a b 1 (iota (S (length b)) 0)) 0
  end.
Definition m_levenshtein (a b : option str) : res :=
  match a, b with Some x, Some y => RInt (lev_model x y) | _, _ => RNull end.
Definition s_levenshtein (a b : option str) : option res :=
  Some (match a, b with Some x, Some y => RInt (lev_spec x y) | _, _ => RNull end).

(* SOUNDEX (ASCII input).  Engine (after fix 584cd34): prev_code is updated by every character except
   H and W.  Spec: American Soundex as in commons-codec US_ENGLISH (used by Trino): H and W are
   transparent, every other letter resets the previous code. *)
Definition to_upper (c : Z) : Z := if (97 <=? c) && (c <=? 122) then c - 32 else c.
Definition is_letter (c : Z) : bool := ((65 <=? c) && (c <=? 90)) || ((97 <=? c) && (c <=? 122)).
Definition sx_code (c : Z) : Z :=
  if (c =? 66) || (c =? 70) || (c =? 80) || (c =? 86) then 1
  else if (c =? 67) || (c =? 71) || (c =? 74) || (c =? 75) || (c =? 81) || (c =? 83) || (c =? 88) || (c =? 90) then 2
  else if (c =? 68) || (c =? 84) then 3
  else if c =? 76 then 4
  else if (c =? 77) || (c =? 78) then 5
  else if c =? 82 then 6
  else 0.
Definition pad4 (out : str) : str := out ++ repeat 48 (4 - length out).
Fixpoint sx_eng (prev : Z) (out rest : str) : str :=
  match rest with
  | [] => out
  | c :: r =>
      let code := sx_code c in
      let out' := if negb (code =? 0) && negb (code =? prev) then out ++ [48 + code] else out in
      if negb (code =? 0) && negb (code =? prev) && (4 <=? zlen out') then out'
      else sx_eng (if (c =? 72) || (c =? 87) then prev else code) out' r
  end.
Definition soundex_eng (s : str) : str :=
  match map to_upper s with
  | [] => []
  | c :: r => pad4 (sx_eng (sx_code c) [c] r)
  end.
Fixpoint sx_std (last : Z) (rest : str) : str :=
  match rest with
  | [] => []
  | c :: r =>
      if (c =? 72) || (c =? 87) then sx_std last r
      else let code := sx_code c in
           (if negb (code =? 0) && negb (code =? last) then [48 + code] else []) ++ sx_std code r
  end.
Definition soundex_std (s : str) : str :=
  match map to_upper s with
  | [] => []
  | c :: r => pad4 (c :: firstn 3 (sx_std (sx_code c) r))
  end.
Definition m_soundex (s : option str) : res := match s with None => RNull | Some l => RStr (soundex_eng l) end.
Definition s_soundex (s : option str) : option res :=
  match s with
  | None => Some RNull
  | Some l => if forallb is_letter l then Some (RStr (soundex_std l)) else None
  end.

(* TRANSLATE: a source character whose match in `from` has no counterpart in `to` is omitted
   (filter_map, fix e4bd2bb), as documented; tr_eng is the pre-fix behaviour, kept for the regression theorem *)
Fixpoint index_of (c : Z) (l : str) (i : nat) : option nat :=
  match l with [] => None | x :: r => if x =? c then Some i else index_of c r (S i) end.
Definition tr_eng (from to : str) (c : Z) : str :=
  match index_of c from 0 with
  | Some p => match nth_error to p with Some t => [t] | None => [c] end
  | None => [c]
  end.
Definition tr_std (from to : str) (c : Z) : str :=
  match index_of c from 0 with
  | Some p => match nth_error to p with Some t => [t] | None => [] end
  | None => [c]
  end.
Definition m_translate (s f t : option str) : res :=
  match s, f, t with Some l, Some fr, Some tl => RStr (flat_map (tr_std fr tl) l) | _, _, _ => RNull end.
Definition s_translate (s f t : option str) : option res :=
  Some (match s, f, t with Some l, Some fr, Some tl => RStr (flat_map (tr_std fr tl) l) | _, _, _ => RNull end).

(* LUHN_CHECK: non-digits are filtered out (Trino: error); "" => false *)
Definition luhn_digits (s : str) : list Z := map (fun c => c - 48) (filter is_digit s).
Fixpoint luhn_loop (i : Z) (ds : list Z) (sum : Z) : Z :=     (* ds already reversed *)
  match ds with
  | [] => sum
  | d :: r => luhn_loop (i + 1) r
               (if i mod 2 =? 1 then (let dd := d * 2 in sum + (if 9 <? dd then dd - 9 else dd)) else sum + d)
  end.
Definition luhn_eng (s : str) : bool :=
  match luhn_digits s with
  | [] => false
  | ds => (luhn_loop 0 (rev ds) 0) mod 10 =? 0
  end.
(* spec: from the right, every second digit doubled and its decimal digits added *)
Fixpoint luhn_sum (dbl : bool) (ds : list Z) : Z :=            (* ds from the right *)
  match ds with
  | [] => 0
  | d :: r => (if dbl then (d * 2) / 10 + (d * 2) mod 10 else d) + luhn_sum (negb dbl) r
  end.
Definition luhn_std (ds : list Z) : bool := (luhn_sum false (rev ds)) mod 10 =? 0.
Definition m_luhn (s : option str) : res := match s with None => RNull | Some l => RBool (luhn_eng l) end.
Definition s_luhn (s : option str) : option res :=
  match s with
  | None => Some RNull
  | Some [] => None
  | Some l => Some (if forallb is_digit l then RBool (luhn_std (map (fun c => c - 48) l)) else RErr)
  end.
Definition k_luhn (s : option str) : Z := if forallb is_digit (gs s) then 0 else K_LUHN_NONDIGIT.

(* ================= codecs (crate-delegated: the definitions below are the RFC 4648 / URL specs;
   the engine is tied to them by correspondence only) ================= *)

(* base16 *)
Definition hex_up (d : Z) : Z := if d <? 10 then 48 + d else 55 + d.
Definition enc_hex (up : bool) (b : list Z) : str :=
  flat_map (fun x => if up then [hex_up (x / 16); hex_up (x mod 16)] else [hex_char (x / 16); hex_char (x mod 16)]) b.
Fixpoint dec_hex (s : str) : option (list Z) :=
  match s with
  | [] => Some []
  | h :: l :: r => match hex_digit h, hex_digit l, dec_hex r with
                   | Some a, Some b, Some t => Some (a * 16 + b :: t)
                   | _, _, _ => None
                   end
  | _ => None
  end.
Definition m_to_hex (b : option (list Z)) : res := match b with None => RNull | Some l => RStr (enc_hex true l) end.
   (* hex::encode_upper since fix e21b72e *)
Definition s_to_hex (b : option (list Z)) : option res :=
  Some (match b with None => RNull | Some l => RStr (enc_hex true l) end).
Definition m_from_hex (s : option str) : res :=
  match s with None => RNull | Some l => match dec_hex l with Some b => RStr b | None => RNull end end.
Definition s_from_hex (s : option str) : option res :=
  Some (match s with None => RNull | Some l => match dec_hex l with Some b => RStr b | None => RErr end end).
Definition k_from_hex (s : option str) : Z :=
  match s with Some l => match dec_hex l with None => K_DECODE_INVALID | _ => 0 end | None => 0 end.
(* TO_HEX(bigint): format!("{:x}") — two's complement; no Trino counterpart *)
Definition m_to_hex_int (v : option Z) : res := match v with None => RNull | Some x => RStr (hex (to_u64 x)) end.

(* base64 (standard alphabet, '=' padding) *)
Definition b64_char (i : Z) : Z :=
  if i <? 26 then 65 + i else if i <? 52 then 71 + i else if i <? 62 then i - 4 else if i =? 62 then 43 else 47.
Definition b64_idx (c : Z) : option Z :=
  if (65 <=? c) && (c <=? 90) then Some (c - 65)
  else if (97 <=? c) && (c <=? 122) then Some (c - 71)
  else if (48 <=? c) && (c <=? 57) then Some (c + 4)
  else if c =? 43 then Some 62 else if c =? 47 then Some 63 else None.
Fixpoint enc_b64 (b : list Z) : str :=
  match b with
  | [] => []
  | [x] => [b64_char (x / 4); b64_char ((x mod 4) * 16); 61; 61]
  | [x; y] => [b64_char (x / 4); b64_char ((x mod 4) * 16 + y / 16); b64_char ((y mod 16) * 4); 61]
  | x :: y :: z :: r =>
      b64_char (x / 4) :: b64_char ((x mod 4) * 16 + y / 16) :: b64_char ((y mod 16) * 4 + z / 64)
      :: b64_char (z mod 64) :: enc_b64 r
  end.
(* strict decoder: canonical padding, zero trailing bits *)
Fixpoint dec_b64 (s : str) : option (list Z) :=
  match s with
  | [] => Some []
  | c0 :: c1 :: c2 :: c3 :: r =>
      match b64_idx c0, b64_idx c1 with
      | Some i0, Some i1 =>
          if (c2 =? 61) && (c3 =? 61) then
            match r with [] => if i1 mod 16 =? 0 then Some [i0 * 4 + i1 / 16] else None | _ => None end
          else match b64_idx c2 with
               | Some i2 =>
                   if c3 =? 61 then
                     match r with
                     | [] => if i2 mod 4 =? 0 then Some [i0 * 4 + i1 / 16; (i1 mod 16) * 16 + i2 / 4] else None
                     | _ => None
                     end
                   else match b64_idx c3, dec_b64 r with
                        | Some i3, Some t =>
                            Some (i0 * 4 + i1 / 16 :: (i1 mod 16) * 16 + i2 / 4 :: (i2 mod 4) * 64 + i3 :: t)
                        | _, _ => None
                        end
               | None => None
               end
      | _, _ => None
      end
  | _ => None
  end.
Definition m_to_base64 (b : option (list Z)) : res := match b with None => RNull | Some l => RStr (enc_b64 l) end.
Definition s_to_base64 (b : option (list Z)) : option res := Some (m_to_base64 b).
Definition m_from_base64 (s : option str) : res :=
  match s with None => RNull | Some l => match dec_b64 l with Some b => RStr b | None => RNull end end.
Definition s_from_base64 (s : option str) : option res :=   (* non-canonical input: not specified here *)
  match s with None => Some RNull | Some l => match dec_b64 l with Some b => Some (RStr b) | None => None end end.

(* base32 (RFC 4648 alphabet A-Z2-7, '=' padding) *)
Definition b32_char (i : Z) : Z := if i <? 26 then 65 + i else 24 + i.
Definition b32_idx (c : Z) : option Z :=
  if (65 <=? c) && (c <=? 90) then Some (c - 65) else if (50 <=? c) && (c <=? 55) then Some (c - 24) else None.
Definition b32_group (a b c d e : Z) : list Z :=
  [a / 8; (a mod 8) * 4 + b / 64; (b / 2) mod 32; (b mod 2) * 16 + c / 16; (c mod 16) * 2 + d / 128;
   (d / 4) mod 32; (d mod 4) * 8 + e / 32; e mod 32].
Definition b32_tail (k : nat) (a b c d : Z) : str :=
  map b32_char (firstn k (b32_group a b c d 0)) ++ repeat 61 (8 - k).
Fixpoint enc_b32 (l : list Z) : str :=
  match l with
  | [] => []
  | [a] => b32_tail 2 a 0 0 0
  | [a; b] => b32_tail 4 a b 0 0
  | [a; b; c] => b32_tail 5 a b c 0
  | [a; b; c; d] => b32_tail 7 a b c d
  | a :: b :: c :: d :: e :: r => map b32_char (b32_group a b c d e) ++ enc_b32 r
  end.
Definition b32_bytes (i : list Z) : list Z :=
  match i with
  | [i0; i1; i2; i3; i4; i5; i6; i7] =>
      [i0 * 8 + i1 / 4; (i1 mod 4) * 64 + i2 * 2 + i3 / 16; (i3 mod 16) * 16 + i4 / 2;
       (i4 mod 2) * 128 + i5 * 4 + i6 / 8; (i6 mod 8) * 32 + i7]
  | _ => []
  end.
Fixpoint all_some_z (l : list (option Z)) : option (list Z) :=
  match l with
  | [] => Some []
  | Some c :: r => match all_some_z r with Some cs => Some (c :: cs) | None => None end
  | None :: _ => None
  end.
Fixpoint dec_b32 (fuel : nat) (s : str) : option (list Z) :=
  match fuel with
  | O => None
  | S f =>
    match s with
    | [] => Some []
    | _ =>
      let g := firstn 8 s in
      let r := skipn 8 s in
      if negb (Nat.eqb (length g) 8) then None
      else
        let npad := length (filter (fun c => c =? 61) g) in
        let data := firstn (8 - npad) g in
        (* padding only at the end of the last group, and only 6/4/3/1 pad characters *)
        if negb (list_eqb Z.eqb (skipn (8 - npad) g) (repeat 61 npad)) then None
        else match all_some_z (map b32_idx data) with
             | None => None
             | Some idx =>
                 let bytes := b32_bytes (idx ++ repeat 0 npad) in
                 match npad with
                 | O => match dec_b32 f r with Some t => Some (bytes ++ t) | None => None end
                 | _ =>
                     let nb := match npad with 6 => 1 | 4 => 2 | 3 => 3 | 1 => 4 | _ => 0 end%nat in
                     match r with
                     | [] => if Nat.eqb nb 0 then None
                             else if list_eqb Z.eqb (enc_b32 (firstn nb bytes)) g   (* canonical: zero trailing bits *)
                                  then Some (firstn nb bytes) else None
                     | _ => None
                     end
                 end
             end
    end
  end.
Definition m_to_base32 (b : option (list Z)) : res := match b with None => RNull | Some l => RStr (enc_b32 l) end.
Definition s_to_base32 (b : option (list Z)) : option res := Some (m_to_base32 b).
Definition m_from_base32 (s : option str) : res :=
  match s with None => RNull | Some l => match dec_b32 (S (length l)) l with Some b => RStr b | None => RNull end end.
Definition s_from_base32 (s : option str) : option res :=
  match s with None => Some RNull | Some l => match dec_b32 (S (length l)) l with Some b => Some (RStr b) | None => None end end.

(* URL_ENCODE / URL_DECODE over UTF-8 bytes.
   engine: percent_encoding NON_ALPHANUMERIC / percent_decode + from_utf8_lossy
   Trino : keeps A-Za-z0-9 and -_.*, space => '+'; decoder maps '+' => space, malformed % => error *)
Definition is_alnum (c : Z) : bool :=
  ((48 <=? c) && (c <=? 57)) || ((65 <=? c) && (c <=? 90)) || ((97 <=? c) && (c <=? 122)).
Definition pct (x : Z) : list Z := [37; hex_up (x / 16); hex_up (x mod 16)].
Definition urlenc_eng (b : list Z) : list Z := flat_map (fun x => if is_alnum x then [x] else pct x) b.
Definition trino_keep (x : Z) : bool := is_alnum x || (x =? 45) || (x =? 95) || (x =? 46) || (x =? 42).
Definition urlenc_std (b : list Z) : list Z :=
  flat_map (fun x => if trino_keep x then [x] else if x =? 32 then [43] else pct x) b.
Fixpoint pctdec (plus : bool) (fuel : nat) (s : list Z) : list Z :=
  match fuel with
  | O => []
  | S f => match s with
           | [] => []
           | c :: r =>
               if c =? 37 then
                 match r with
                 | h :: l :: r' => match hex_digit h, hex_digit l with
                                   | Some a, Some b => a * 16 + b :: pctdec plus f r'
                                   | _, _ => c :: pctdec plus f r
                                   end
                 | _ => c :: pctdec plus f r
                 end
               else (if plus && (c =? 43) then 32 else c) :: pctdec plus f r
           end
  end.
Fixpoint pct_malformed (s : list Z) : bool :=
  match s with
  | [] => false
  | c :: r => (if c =? 37 then match r with
                              | h :: l :: _ => negb (match hex_digit h, hex_digit l with Some _, Some _ => true | _, _ => false end)
                              | _ => true
                              end else false) || pct_malformed r
  end.
Definition utf8_enc1 (c : Z) : list Z :=
  if c <? 128 then [c]
  else if c <? 2048 then [192 + c / 64; 128 + c mod 64]
  else if c <? 65536 then [224 + c / 4096; 128 + (c / 64) mod 64; 128 + c mod 64]
  else [240 + c / 262144; 128 + (c / 4096) mod 64; 128 + (c / 64) mod 64; 128 + c mod 64].
Definition utf8_enc (s : str) : list Z := flat_map utf8_enc1 s.
Definition urldec_eng (b : list Z) : str := from_utf8_lossy (pctdec false (S (length b)) b).  (* code points *)
Definition m_url_encode (b : option (list Z)) : res := match b with None => RNull | Some l => RStr (urlenc_eng l) end.
Definition s_url_encode (b : option (list Z)) : option res :=
  Some (match b with None => RNull | Some l => RStr (urlenc_std l) end).
Definition k_url_encode (b : option (list Z)) : Z :=
  if existsb (fun x => (x =? 32) || (x =? 45) || (x =? 95) || (x =? 46) || (x =? 42)) (match b with Some l => l | None => [] end)
  then K_URLENC_CHARS else 0.
(* url_decode result as code points (the harness returns a string) *)
Definition m_url_decode (b : option (list Z)) : res := match b with None => RNull | Some l => RStr (urldec_eng l) end.
Definition s_url_decode (b : option (list Z)) : option res :=
  match b with
  | None => Some RNull
  | Some l => if pct_malformed l then Some RErr
              else match from_utf8 (pctdec true (S (length l)) l) with
                   | Some cps => Some (RStr cps)
                   | None => None          (* invalid UTF-8 after decoding: replacement policy not pinned *)
                   end
  end.
Definition k_url_decode (b : option (list Z)) : Z :=
  match b with
  | None => 0
  | Some l => if pct_malformed l then K_URLDEC_INVALID else if existsb (fun x => x =? 43) l then K_URLDEC_PLUS else 0
  end.

(* TO_BASE / FROM_BASE.  radix is read from ROW 0 (r0); to_base supports only 2, 8, 16 (as unsigned
   two's complement) and prints decimal for every other radix; from_base panics outside 2..36 *)
Definition digit_char (d : Z) : Z := if d <? 10 then 48 + d else 87 + d.
Fixpoint digits_fuel (f : nat) (r n : Z) : str :=
  match f with
  | O => []
  | S f' => if n <? r then [digit_char n] else digits_fuel f' r (n / r) ++ [digit_char (n mod r)]
  end.
Definition digits (r n : Z) : str := digits_fuel 64 r n.     (* exact for 0 <= n < 2^64, r >= 2 *)
Definition signed_digits (r v : Z) : str := if v <? 0 then 45 :: digits r (- v) else digits r v.
Definition m_to_base (v : option Z) (r0 : option Z) : res :=
  match v with
  | None => RNull
  | Some x => let r := (gi r0) mod two32 in
              RStr (if (r =? 2) || (r =? 8) || (r =? 16) then digits r (to_u64 x) else signed_digits 10 x)
  end.
Definition radix_ok (r : Z) : bool := (2 <=? r) && (r <=? 36).
Definition s_to_base (v r : option Z) : option res :=
  Some (match v, r with
        | Some x, Some rr => if radix_ok rr then RStr (signed_digits rr x) else RErr
        | _, _ => RNull
        end).
Definition k_to_base (v r r0 : option Z) : Z :=
  match v, r with
  | Some x, Some rr =>
      if negb (gi r0 =? rr) then K_BASE_ROW0
      else if negb ((rr =? 2) || (rr =? 8) || (rr =? 16) || (rr =? 10)) then K_TOBASE_RADIX
      else if (x <? 0) && negb (rr =? 10) then K_TOBASE_NEG else 0
  | Some _, None => K_TOBASE_RADIX
  | _, _ => 0
  end.
Definition digit_val (c : Z) : option Z :=
  if (48 <=? c) && (c <=? 57) then Some (c - 48)
  else if (97 <=? c) && (c <=? 122) then Some (c - 87)
  else if (65 <=? c) && (c <=? 90) then Some (c - 55) else None.
Fixpoint parse_digits (r acc : Z) (s : str) : option Z :=
  match s with
  | [] => Some acc
  | c :: t => match digit_val c with
              | Some d => if d <? r then parse_digits r (acc * r + d) t else None
              | None => None
              end
  end.
(* i64::from_str_radix: optional sign, at least one digit, overflow => Err *)
Definition parse_i64 (r : Z) (s : str) : option Z :=
  let '(neg, ds) := match s with 45 :: t => (true, t) | 43 :: t => (false, t) | _ => (false, s) end in
  match ds with
  | [] => None
  | _ => match parse_digits r 0 ds with
         | Some v => let w := if neg then - v else v in if is_i64 w then Some w else None
         | None => None
         end
  end.
Definition m_from_base (s : option str) (r0 : option Z) : res :=
  match s with
  | None => RNull
  | Some l => let r := (gi r0) mod two32 in
              if radix_ok r then match parse_i64 r l with Some v => RInt v | None => RNull end else RErr
  end.
Definition s_from_base (s : option str) (r : option Z) : option res :=
  Some (match s, r with
        | Some l, Some rr => if radix_ok rr then match parse_i64 rr l with Some v => RInt v | None => RErr end else RErr
        | _, _ => RNull
        end).
Definition k_from_base (s : option str) (r r0 : option Z) : Z :=
  match s, r with
  | Some l, Some rr =>
      if negb (gi r0 =? rr) then K_BASE_ROW0
      else if radix_ok rr then match parse_i64 rr l with None => K_DECODE_INVALID | _ => 0 end
      else if radix_ok (rr mod two32) then K_TOBASE_RADIX else 0
  | Some _, None => K_BASE_ROW0
  | _, _ => 0
  end.

(* ================= bitwise, on 64-bit two's complement words ================= *)
Definition bw (f : Z -> Z -> Z) (x y : option Z) : res :=
  match x, y with Some a, Some b => RInt (to_i64 (f (to_u64 a) (to_u64 b))) | _, _ => RNull end.
Definition m_bitwise_and := bw Z.land.
Definition m_bitwise_or := bw Z.lor.
Definition m_bitwise_xor := bw Z.lxor.
Definition m_bitwise_not (x : option Z) : res :=
  match x with Some a => RInt (to_i64 (two64 - 1 - to_u64 a)) | None => RNull end.
Definition s_bitwise_and (x y : option Z) : option res := Some (m_bitwise_and x y).
Definition s_bitwise_or (x y : option Z) : option res := Some (m_bitwise_or x y).
Definition s_bitwise_xor (x y : option Z) : option res := Some (m_bitwise_xor x y).
Definition s_bitwise_not (x : option Z) : option res := Some (m_bitwise_not x).

Fixpoint popcount_fuel (f : nat) (u : Z) : Z :=
  match f with O => 0 | S f' => u mod 2 + popcount_fuel f' (u / 2) end.
Definition popcount64 (u : Z) : Z := popcount_fuel 64 u.
(* BIT_COUNT(x, bits): the second argument is never read *)
Definition m_bit_count (x bits : option Z) : res :=
  match x with Some a => RInt (popcount64 (to_u64 a)) | None => RNull end.
Definition s_bit_count (x bits : option Z) : option res :=
  Some (match x, bits with
        | Some a, Some b =>
            if (2 <=? b) && (b <=? 64) && (- 2 ^ (b - 1) <=? a) && (a <? 2 ^ (b - 1))
            then RInt (popcount64 (a mod 2 ^ b)) else RErr
        | _, _ => RNull
        end).
Definition k_bit_count (x bits : option Z) : Z :=
  match x, bits with
  | Some a, Some b =>
      if (2 <=? b) && (b <=? 64) && (- 2 ^ (b - 1) <=? a) && (a <? 2 ^ (b - 1)) && ((0 <=? a) || (b =? 64))
      then 0 else K_BITCOUNT_BITS
  | Some _, None => K_BITCOUNT_BITS
  | _, _ => 0
  end.

(* shifts (after fix 08c65d9): `if (0..64).contains(&s) { x << (s as u32) } else { 0 }` (arithmetic right
   shift: -1 for a negative x).  Trino: the same for s >= 64, an error for a negative s. *)
Definition shift_in_range (kind a k : Z) : Z :=
  if kind =? 0 then to_i64 (to_u64 a * 2 ^ k) else if kind =? 1 then to_i64 (to_u64 a / 2 ^ k) else a / 2 ^ k.
Definition shift_saturated (kind a : Z) : Z := if kind =? 2 then (if a <? 0 then -1 else 0) else 0.
Definition m_shift (kind : Z) (x s : option Z) : res :=   (* 0 left, 1 right logical, 2 right arithmetic *)
  match x, s with
  | Some a, Some sv => RInt (if (0 <=? sv) && (sv <? 64) then shift_in_range kind a sv else shift_saturated kind a)
  | _, _ => RNull
  end.
Definition s_shift (kind : Z) (x s : option Z) : option res :=
  Some (match x, s with
        | Some a, Some sv =>
            if sv <? 0 then RErr
            else if 64 <=? sv then RInt (shift_saturated kind a)
            else RInt (shift_in_range kind a sv)
        | _, _ => RNull
        end).
Definition k_shift (x s : option Z) : Z :=
  match x, s with Some _, Some sv => if sv <? 0 then K_SHIFT_NEGATIVE else 0 | _, _ => 0 end.

(* ================= dates: days since 1970-01-01, proleptic Gregorian =================
   The engine delegates to chrono::NaiveDate; the functions below are the specification
   (Hinnant's civil_from_days / days_from_civil), tied to the engine by correspondence. *)
Definition civil_from_days (z0 : Z) : Z * Z * Z :=
  let z := z0 + 719468 in
  let era := z / 146097 in
  let doe := z mod 146097 in
  let yoe := (doe - doe / 1460 + doe / 36524 - doe / 146096) / 365 in
  let doy := doe - (365 * yoe + yoe / 4 - yoe / 100) in
  let mp := (5 * doy + 2) / 153 in
  let d := doy - (153 * mp + 2) / 5 + 1 in
  let m := if mp <? 10 then mp + 3 else mp - 9 in
  (yoe + era * 400 + (if m <=? 2 then 1 else 0), m, d).
Definition days_from_civil (y0 m d : Z) : Z :=
  let y := if m <=? 2 then y0 - 1 else y0 in
  let era := y / 400 in
  let yoe := y mod 400 in
  let doy := (153 * (if 2 <? m then m - 3 else m + 9) + 2) / 5 + d - 1 in
  let doe := yoe * 365 + yoe / 4 - yoe / 100 + doy in
  era * 146097 + doe - 719468.
Definition is_leap (y : Z) : bool := ((y mod 4 =? 0) && negb (y mod 100 =? 0)) || (y mod 400 =? 0).
Definition dim (y m : Z) : Z :=
  if m =? 2 then (if is_leap y then 29 else 28)
  else if (m =? 4) || (m =? 6) || (m =? 9) || (m =? 11) then 30 else 31.
Definition valid_ymd (y m d : Z) : bool := (1 <=? m) && (m <=? 12) && (1 <=? d) && (d <=? dim y m).
Definition d_year (z : Z) : Z := let '(y, _, _) := civil_from_days z in y.
Definition d_month (z : Z) : Z := let '(_, m, _) := civil_from_days z in m.
Definition d_day (z : Z) : Z := let '(_, _, d) := civil_from_days z in d.
Definition d_quarter (z : Z) : Z := (d_month z - 1) / 3 + 1.
Definition d_doy (z : Z) : Z := z - days_from_civil (d_year z) 1 1 + 1.
Definition d_dow_iso (z : Z) : Z := (z + 3) mod 7 + 1.        (* Monday = 1 .. Sunday = 7 *)
Definition d_dow_sun (z : Z) : Z := (z + 4) mod 7 + 1.        (* Sunday = 1 .. Saturday = 7: the pre-fix numbering *)
Definition pweek (y : Z) : Z := (y + y / 4 - y / 100 + y / 400) mod 7.
Definition weeks_in_year (y : Z) : Z := if (pweek y =? 4) || (pweek (y - 1) =? 3) then 53 else 52.
Definition d_week (z : Z) : Z :=
  let w := (d_doy z - d_dow_iso z + 10) / 7 in
  if w <? 1 then weeks_in_year (d_year z - 1)
  else if weeks_in_year (d_year z) <? w then 1 else w.
Definition add_months (z k : Z) : Z :=
  let '(y, m, d) := civil_from_days z in
  let t := y * 12 + (m - 1) + k in
  let y' := t / 12 in
  let m' := t mod 12 + 1 in
  days_from_civil y' m' (Z.min d (dim y' m')).
Definition d_last_day (z : Z) : Z := let '(y, m, _) := civil_from_days z in days_from_civil y m (dim y m).
(* supported date range: 0001-01-01 .. 9999-12-31 *)
Definition date_ok (z : Z) : bool := (-719162 <=? z) && (z <=? 2932896).

Definition dfun (f : Z -> Z) (d : option Z) : res := match d with Some z => RInt (f z) | None => RNull end.
Definition sdfun (f : Z -> Z) (d : option Z) : option res :=
  match d with Some z => if date_ok z then Some (RInt (f z)) else None | None => Some RNull end.
Definition m_day_of_week := dfun d_dow_iso.       (* num_days_from_monday() + 1 since fix 0d7bffe *)
Definition s_day_of_week := sdfun d_dow_iso.

(* units: 0 day, 1 week, 2 month, 3 quarter, 4 year, 5 anything else *)
Definition trunc_days (u z : Z) : option Z :=
  let '(y, m, _) := civil_from_days z in
  if u =? 0 then Some z
  else if u =? 1 then Some (z - (d_dow_iso z - 1))
  else if u =? 2 then Some (days_from_civil y m 1)
  else if u =? 3 then Some (days_from_civil y (((m - 1) / 3) * 3 + 1) 1)
  else if u =? 4 then Some (days_from_civil y 1 1)
  else None.
Definition m_date_trunc (u : option Z) (d : option Z) : res :=
  match u, d with
  | Some uu, Some z => match trunc_days uu z with Some r => RInt r | None => RNull end
  | _, _ => RNull
  end.
Definition s_date_trunc (u : option Z) (d : option Z) : option res :=
  match u, d with
  | Some uu, Some z => if date_ok z then Some (match trunc_days uu z with Some r => RInt r | None => RErr end) else None
  | _, _ => Some RNull
  end.
Definition k_date_trunc (u d : option Z) : Z :=
  match u, d with Some uu, Some _ => if (uu <? 0) || (4 <? uu) then K_DATE_UNIT else 0 | _, _ => 0 end.

(* DATE_ADD(unit, value, date): a NULL value reads as 0; 'quarter' and unknown units => NULL *)
Definition add_unit (u v z : Z) : option Z :=
  if u =? 0 then Some (z + v) else if u =? 1 then Some (z + 7 * v)
  else if u =? 2 then Some (add_months z v) else if u =? 4 then Some (add_months z (12 * v)) else None.
Definition m_date_add (u : option Z) (v : option Z) (d : option Z) : res :=
  match u, d with
  | Some uu, Some z => match add_unit uu (gi v) z with Some r => RInt r | None => RNull end
  | _, _ => RNull
  end.
Definition s_date_add (u : option Z) (v : option Z) (d : option Z) : option res :=
  match u, v, d with
  | Some uu, Some vv, Some z =>
      let r := if uu =? 3 then Some (add_months z (3 * vv)) else add_unit uu vv z in
      match r with
      | Some x => if date_ok z && date_ok x && (Z.abs vv <? 1000000) then Some (RInt x) else None
      | None => Some RErr
      end
  | _, _, _ => Some RNull
  end.
Definition k_date_add (u v d : option Z) : Z :=
  match u, d with
  | Some uu, Some _ => if is_none v then K_DATEADD_NULL
                       else if (uu =? 3) || (uu <? 0) || (4 <? uu) then K_DATE_UNIT else 0
  | _, _ => 0
  end.

(* DATE_DIFF(unit, d1, d2): month/year differences ignore the day (and month) of the dates;
   Trino counts complete units *)
Definition month_index (z : Z) : Z := let '(y, m, _) := civil_from_days z in y * 12 + m.
Definition m_date_diff (u : option Z) (d1 d2 : option Z) : res :=
  match u, d1, d2 with
  | Some uu, Some a, Some b =>
      if uu =? 0 then RInt (b - a)
      else if uu =? 1 then RInt (Z.quot (b - a) 7)
      else if uu =? 2 then RInt (month_index b - month_index a)
      else if uu =? 4 then RInt (d_year b - d_year a)
      else RNull
  | _, _, _ => RNull
  end.
(* whole months from a to b, a <= b: the largest k with add_months a k <= b *)
Definition months_fwd (a b : Z) : Z :=
  let k := month_index b - month_index a in if add_months a k <=? b then k else k - 1.
Definition months_between (a b : Z) : Z := if a <=? b then months_fwd a b else - months_fwd b a.
Definition s_date_diff (u : option Z) (d1 d2 : option Z) : option res :=
  match u, d1, d2 with
  | Some uu, Some a, Some b =>
      if negb (date_ok a && date_ok b) then None
      else Some (if uu =? 0 then RInt (b - a)
                 else if uu =? 1 then RInt (Z.quot (b - a) 7)
                 else if uu =? 2 then RInt (months_between a b)
                 else if uu =? 3 then RInt (Z.quot (months_between a b) 3)
                 else if uu =? 4 then RInt (Z.quot (months_between a b) 12)
                 else RErr)
  | _, _, _ => Some RNull
  end.
(* shape: the later date's day-of-month (for years: month and day) is earlier than the earlier date's *)
Definition md_lt (a b : Z) : bool :=     (* (month, day) of a < (month, day) of b *)
  (d_month a <? d_month b) || ((d_month a =? d_month b) && (d_day a <? d_day b)).
Definition k_date_diff (u d1 d2 : option Z) : Z :=
  match u, d1, d2 with
  | Some uu, Some a, Some b =>
      let lo := Z.min a b in let hi := Z.max a b in
      if (uu =? 3) || (uu <? 0) || (4 <? uu) then K_DATE_UNIT
      else if (uu =? 2) && (d_day hi <? d_day lo) then K_DATEDIFF_PARTIAL
      else if (uu =? 4) && md_lt hi lo then K_DATEDIFF_PARTIAL
      else 0
  | _, _, _ => 0
  end.

(* ================= conditional ================= *)
Definition m_nullif (a b : option Z) : res :=
  match a with
  | None => RNull
  | Some x => match b with Some y => if x =? y then RNull else RInt x | None => RInt x end
  end.
Definition s_nullif (a b : option Z) : option res := Some (m_nullif a b).
Definition ores (o : option Z) : res := match o with Some x => RInt x | None => RNull end.
Definition m_if (c : option bool) (a b : option Z) : res := match c with Some true => ores a | _ => ores b end.
Definition s_if (c : option bool) (a b : option Z) : option res := Some (m_if c a b).
Definition m_coalesce (args : list (option Z)) : res := match somes args with x :: _ => RInt x | [] => RNull end.
Definition s_coalesce (args : list (option Z)) : option res := Some (m_coalesce args).
(* GREATEST / LEAST: result = zip(result > x, result, x): a NULL comparison picks x *)
Definition pick (gt : bool) (cur x : option Z) : option Z :=
  match cur, x with
  | Some c, Some v => if (if gt then v <? c else c <? v) then Some c else Some v
  | _, _ => x
  end.
Definition m_extreme (gt : bool) (args : list (option Z)) : res :=
  match args with [] => RErr | a :: r => ores (fold_left (pick gt) r a) end.
Definition s_extreme (gt : bool) (args : list (option Z)) : option res :=
  match args with
  | [] => None
  | a :: r => Some (if existsb is_none args then RNull
                    else RInt (fold_left (fun c v => if gt then Z.max c v else Z.min c v) (map gi r) (gi a)))
  end.
Definition k_extreme (args : list (option Z)) : Z := if existsb is_none args then K_GREATEST_NULL else 0.

(* ================= vocabulary of the theorem statements ================= *)
Fixpoint lists_upto (alpha : list Z) (n : nat) : list (list Z) :=
  match n with
  | O => [[]]
  | S n' => [] :: flat_map (fun l => map (fun x => x :: l) alpha) (lists_upto alpha n')
  end.
Definition is_byte (x : Z) : Prop := 0 <= x < 256.
Definition bytes (l : list Z) : Prop := Forall is_byte l.
Definition res_bits (r : res) (P : Z -> Prop) : Prop := match r with RInt v => P v | _ => False end.

(* ================= every known class is inhabited: minimal witnesses =================
   witness K m s k: the argument shape is classified K and the engine model's value is not the documented one *)
Definition witness (K : Z) (m : res) (s : option res) (k : Z) : bool := (k =? K) && negb (spec_ok s m).
Definition dev_witnesses : list bool := [
  (* substr(NULL string column, 1) = '' ; substr('abc', NULL) = 'abc' *)
  witness K_SUBSTR_NULL (m_substr false None (Some 1) None) (s_substr None (Some 1) None) (k_substr false None (Some 1) None);
  witness K_SUBSTR_NULL (m_substr true (Some [97;98;99]) None None) (s_substr (Some [97;98;99]) None None) (k_substr true (Some [97;98;99]) None None);
  (* substr('abc', 0) = 'abc', documented ''; substr('abc', -1) = '', documented 'c' *)
  witness K_SUBSTR_START (m_substr true (Some [97;98;99]) (Some 0) None) (s_substr (Some [97;98;99]) (Some 0) None) (k_substr true (Some [97;98;99]) (Some 0) None);
  witness K_SUBSTR_START (m_substr true (Some [97;98;99]) (Some (-1)) None) (s_substr (Some [97;98;99]) (Some (-1)) None) (k_substr true (Some [97;98;99]) (Some (-1)) None);
  (* substr('abc', 1, -1) = 'abc', documented '' *)
  witness K_SUBSTR_NEGLEN (m_substr true (Some [97;98;99]) (Some 1) (Some (Some (-1)))) (s_substr (Some [97;98;99]) (Some 1) (Some (Some (-1)))) (k_substr true (Some [97;98;99]) (Some 1) (Some (Some (-1))));
  (* concat('a', NULL) = 'a', documented NULL *)
  witness K_CONCAT_NULL (m_concat [Some [97]; None]) (s_concat [Some [97]; None]) (k_concat [Some [97]; None]);
  (* lpad('a', NULL, 'x') = '', documented NULL *)
  witness K_PAD_NULL (m_pad true (Some [97]) None (Some [120])) (s_pad true (Some [97]) None (Some [120])) (k_pad (Some [97]) None (Some [120]) (Some [120]));
  (* lpad('a', 3, '') = 'a', documented error *)
  witness K_PAD_EMPTY (m_pad true (Some [97]) (Some 3) (Some [])) (s_pad true (Some [97]) (Some 3) (Some [])) (k_pad (Some [97]) (Some 3) (Some []) (Some []));
  (* lpad(s, 2, p) on a row with p = 'y' when row 0 has p = 'x': 'xa', documented 'ya' *)
  witness K_PAD_ROW0 (m_pad true (Some [97]) (Some 2) (Some [120])) (s_pad true (Some [97]) (Some 2) (Some [121])) (k_pad (Some [97]) (Some 2) (Some [121]) (Some [120]));
  (* split_part('a', ',', NULL) = '', documented NULL *)
  witness K_SPLIT_NULL (m_split_part (Some [97]) (Some [44]) None) (s_split_part (Some [97]) (Some [44]) None) (k_split_part (Some [97]) (Some [44]) None);
  (* split_part('a', ',', 2) = '', documented NULL *)
  witness K_SPLIT_OOR (m_split_part (Some [97]) (Some [44]) (Some 2)) (s_split_part (Some [97]) (Some [44]) (Some 2)) (k_split_part (Some [97]) (Some [44]) (Some 2));
  (* split_part('a', ',', 0) = '', documented error *)
  witness K_SPLIT_NONPOS (m_split_part (Some [97]) (Some [44]) (Some 0)) (s_split_part (Some [97]) (Some [44]) (Some 0)) (k_split_part (Some [97]) (Some [44]) (Some 0));
  (* split_part('ab', '', 1) = '', documented 'a' *)
  witness K_SPLIT_EMPTYDELIM (m_split_part (Some [97;98]) (Some []) (Some 1)) (s_split_part (Some [97;98]) (Some []) (Some 1)) (k_split_part (Some [97;98]) (Some []) (Some 1));
  (* chr(-1) = NULL, documented error; chr(4294967361) = 'A' *)
  witness K_CHR_INVALID (m_chr (Some (-1))) (s_chr (Some (-1))) (k_chr (Some (-1)));
  witness K_CHR_INVALID (m_chr (Some 4294967361)) (s_chr (Some 4294967361)) (k_chr (Some 4294967361));
  (* left('a', NULL) = '', documented NULL *)
  witness K_COUNT_NULL (m_left (Some [97]) None) (s_left (Some [97]) None) (k_count (Some [97]) None);
  (* hamming_distance('a', 'ab') = NULL, documented error; hamming_distance('é', 'a') = NULL, documented 1 *)
  witness K_HAMMING_LEN (m_hamming (Some [97]) (Some [97;98])) (s_hamming (Some [97]) (Some [97;98])) (k_hamming (Some [97]) (Some [97;98]));
  witness K_HAMMING_LEN (m_hamming (Some [233]) (Some [97])) (s_hamming (Some [233]) (Some [97])) (k_hamming (Some [233]) (Some [97]));
  (* luhn_check('0a') = true, documented error *)
  witness K_LUHN_NONDIGIT (m_luhn (Some [48;97])) (s_luhn (Some [48;97])) (k_luhn (Some [48;97]));
  (* from_hex('z') = NULL, documented error; from_base('', 10) = NULL, documented error *)
  witness K_DECODE_INVALID (m_from_hex (Some [122])) (s_from_hex (Some [122])) (k_from_hex (Some [122]));
  witness K_DECODE_INVALID (m_from_base (Some []) (Some 10)) (s_from_base (Some []) (Some 10)) (k_from_base (Some []) (Some 10) (Some 10));
  (* url_encode(' ') = '%20', documented '+'; url_encode('.') = '%2E', documented '.' *)
  witness K_URLENC_CHARS (m_url_encode (Some [32])) (s_url_encode (Some [32])) (k_url_encode (Some [32]));
  witness K_URLENC_CHARS (m_url_encode (Some [46])) (s_url_encode (Some [46])) (k_url_encode (Some [46]));
  (* url_decode('+') = '+', documented ' ' *)
  witness K_URLDEC_PLUS (m_url_decode (Some [43])) (s_url_decode (Some [43])) (k_url_decode (Some [43]));
  (* url_decode('%') = '%', documented error *)
  witness K_URLDEC_INVALID (m_url_decode (Some [37])) (s_url_decode (Some [37])) (k_url_decode (Some [37]));
  (* to_base(3, 3) = '3', documented '10' *)
  witness K_TOBASE_RADIX (m_to_base (Some 3) (Some 3)) (s_to_base (Some 3) (Some 3)) (k_to_base (Some 3) (Some 3) (Some 3));
  (* to_base(-1, 16) = 'ffffffffffffffff', documented '-1' *)
  witness K_TOBASE_NEG (m_to_base (Some (-1)) (Some 16)) (s_to_base (Some (-1)) (Some 16)) (k_to_base (Some (-1)) (Some 16) (Some 16));
  (* to_base(255, r) on a row with r = 16 when row 0 has r = 2: '11111111', documented 'ff' *)
  witness K_BASE_ROW0 (m_to_base (Some 255) (Some 2)) (s_to_base (Some 255) (Some 16)) (k_to_base (Some 255) (Some 16) (Some 2));
  (* bitwise_left_shift(1, -1) = 0 and bitwise_right_shift_arithmetic(-8, -1) = -1, documented error (negative shift) *)
  witness K_SHIFT_NEGATIVE (m_shift 0 (Some 1) (Some (-1))) (s_shift 0 (Some 1) (Some (-1))) (k_shift (Some 1) (Some (-1)));
  witness K_SHIFT_NEGATIVE (m_shift 2 (Some (-8)) (Some (-1))) (s_shift 2 (Some (-8)) (Some (-1))) (k_shift (Some (-8)) (Some (-1)));
  (* bit_count(-1, 8) = 64, documented 8 *)
  witness K_BITCOUNT_BITS (m_bit_count (Some (-1)) (Some 8)) (s_bit_count (Some (-1)) (Some 8)) (k_bit_count (Some (-1)) (Some 8));
  (* date_diff('month', DATE '2024-01-31', DATE '2024-02-01') = 1, documented 0 *)
  witness K_DATEDIFF_PARTIAL (m_date_diff (Some 2) (Some 19753) (Some 19754)) (s_date_diff (Some 2) (Some 19753) (Some 19754)) (k_date_diff (Some 2) (Some 19753) (Some 19754));
  (* date_diff('year', DATE '2023-12-31', DATE '2024-01-01') = 1, documented 0 *)
  witness K_DATEDIFF_PARTIAL (m_date_diff (Some 4) (Some 19722) (Some 19723)) (s_date_diff (Some 4) (Some 19722) (Some 19723)) (k_date_diff (Some 4) (Some 19722) (Some 19723));
  (* date_add('day', NULL, DATE '1970-01-01') = 1970-01-01, documented NULL *)
  witness K_DATEADD_NULL (m_date_add (Some 0) None (Some 0)) (s_date_add (Some 0) None (Some 0)) (k_date_add (Some 0) None (Some 0));
  (* date_add('quarter', 1, DATE '1970-01-01') = NULL, documented 1970-04-01; date_trunc('fortnight', d) = NULL, documented error *)
  witness K_DATE_UNIT (m_date_add (Some 3) (Some 1) (Some 0)) (s_date_add (Some 3) (Some 1) (Some 0)) (k_date_add (Some 3) (Some 1) (Some 0));
  witness K_DATE_UNIT (m_date_trunc (Some 5) (Some 0)) (s_date_trunc (Some 5) (Some 0)) (k_date_trunc (Some 5) (Some 0));
  (* greatest(NULL, 1) = 1, documented NULL *)
  witness K_GREATEST_NULL (m_extreme true [None; Some 1]) (s_extreme true [None; Some 1]) (k_extreme [None; Some 1])
].

(* ================= regressions: the witnesses of the eight repaired classes =================
   fixed m s k: the arguments are in no known class and the model's value is the documented one *)
Definition fixed (m : res) (s : option res) (k : Z) : bool := (k =? 0) && spec_ok s m && match s with Some _ => true | None => false end.
Definition fixed_regressions : list bool := [
  (* 3767e33: length('é') = 1 *)
  fixed (m_length (Some [233])) (s_length (Some [233])) 0 && res_eqb (m_length (Some [233])) (RInt 1);
  (* 1657caf: strpos('éa', 'a') = 2 *)
  fixed (m_strpos (Some [233;97]) (Some [97])) (s_strpos (Some [233;97]) (Some [97])) 0 && res_eqb (m_strpos (Some [233;97]) (Some [97])) (RInt 2);
  (* 584cd34: soundex('Bab') = 'B100', soundex('Tymczak') = 'T522' *)
  fixed (m_soundex (Some [66;97;98])) (s_soundex (Some [66;97;98])) 0 && res_eqb (m_soundex (Some [66;97;98])) (RStr [66;49;48;48]);
  fixed (m_soundex (Some [84;121;109;99;122;97;107])) (s_soundex (Some [84;121;109;99;122;97;107])) 0
    && res_eqb (m_soundex (Some [84;121;109;99;122;97;107])) (RStr [84;53;50;50]);
  (* e4bd2bb: translate('ab', 'ab', 'x') = 'x' *)
  fixed (m_translate (Some [97;98]) (Some [97;98]) (Some [120])) (s_translate (Some [97;98]) (Some [97;98]) (Some [120])) 0
    && res_eqb (m_translate (Some [97;98]) (Some [97;98]) (Some [120])) (RStr [120]);
  (* e21b72e: to_hex(x'ff') = 'FF' *)
  fixed (m_to_hex (Some [255])) (s_to_hex (Some [255])) 0 && res_eqb (m_to_hex (Some [255])) (RStr [70;70]);
  (* 08c65d9: bitwise_left_shift(1, 64) = 0, bitwise_right_shift(-1, 64) = 0, bitwise_right_shift_arithmetic(-8, 64) = -1,
     bitwise_left_shift(1, 4294967297) = 0 (no wrap modulo 2^32) *)
  fixed (m_shift 0 (Some 1) (Some 64)) (s_shift 0 (Some 1) (Some 64)) (k_shift (Some 1) (Some 64)) && res_eqb (m_shift 0 (Some 1) (Some 64)) (RInt 0);
  fixed (m_shift 1 (Some (-1)) (Some 64)) (s_shift 1 (Some (-1)) (Some 64)) (k_shift (Some (-1)) (Some 64)) && res_eqb (m_shift 1 (Some (-1)) (Some 64)) (RInt 0);
  fixed (m_shift 2 (Some (-8)) (Some 64)) (s_shift 2 (Some (-8)) (Some 64)) (k_shift (Some (-8)) (Some 64)) && res_eqb (m_shift 2 (Some (-8)) (Some 64)) (RInt (-1));
  fixed (m_shift 0 (Some 1) (Some 4294967297)) (s_shift 0 (Some 1) (Some 4294967297)) (k_shift (Some 1) (Some 4294967297))
    && res_eqb (m_shift 0 (Some 1) (Some 4294967297)) (RInt 0);
  (* 0d7bffe: day_of_week(DATE '1970-01-01') = 4 (Thursday), day_of_week(DATE '2024-01-07') = 7 (Sunday) *)
  fixed (m_day_of_week (Some 0)) (s_day_of_week (Some 0)) 0 && res_eqb (m_day_of_week (Some 0)) (RInt 4);
  fixed (m_day_of_week (Some 19729)) (s_day_of_week (Some 19729)) 0 && res_eqb (m_day_of_week (Some 19729)) (RInt 7)
].
