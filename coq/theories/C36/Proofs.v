(* C36 proofs.  Per function: the engine model agrees with the documented value outside the known
   classes (k_f = 0), the known classes are inhabited (deviations_witnessed), and for the functions
   whose algorithm differs from their definition (Levenshtein DP, Luhn loop, Soundex loop) the
   model equals the definition for all inputs.  Codecs: decode (encode x) = x.  Dates: civil <-> day
   number round trips for all integers (one 400-year era checked exhaustively by vm_compute, lifted
   by periodicity). *)
From QV Require Import Base.Util Bytes.ByteStr C36.Model.
Local Open Scope Z_scope.


(* ---------- Levenshtein ---------- *)
Lemma lev_nil_r a : lev a [] = zlen a.
Proof. destruct a; reflexivity. Qed.
Lemma lev_cons x a y b :
  lev (x :: a) (y :: b) = Z.min (Z.min (lev a (y :: b) + 1) (lev (x :: a) b + 1)) (lev a b + (if x =? y then 0 else 1)).
Proof. reflexivity. Qed.

Fixpoint rowvals (p q rest : str) : list Z :=
  match rest with [] => [] | y :: r => lev p (y :: q) :: rowvals p (y :: q) r end.
Definition row (p b : str) : list Z := lev p [] :: rowvals p [] b.

Lemma lev_row_spec x p : forall rest q,
  lev_row x rest (lev p q :: rowvals p q rest) (lev (x :: p) q) = rowvals (x :: p) q rest.
Proof.
  induction rest as [|y r IH]; intro q; [reflexivity|].
  cbn [rowvals lev_row]. rewrite <- (lev_cons x p y q). f_equal. apply IH.
Qed.

Lemma zlen_cons (x : Z) l : zlen (x :: l) = zlen l + 1.
Proof. unfold zlen. cbn [length]. lia. Qed.

Lemma lev_next_row x p b : lev_next (zlen p + 1) x b (row p b) = row (x :: p) b.
Proof.
  unfold lev_next, row. rewrite (lev_nil_r (x :: p)), zlen_cons. f_equal.
  rewrite <- (zlen_cons x p), <- (lev_nil_r (x :: p)). apply lev_row_spec.
Qed.

Lemma lev_loop_row b : forall a p, lev_loop a b (zlen p + 1) (row p b) = row (rev a ++ p) b.
Proof.
  induction a as [|x a IH]; intro p; [reflexivity|].
  cbn [lev_loop rev]. rewrite lev_next_row, <- (zlen_cons x p), IH, <- app_assoc. reflexivity.
Qed.

Lemma rowvals_nil : forall rest q, rowvals [] q rest = iota (length rest) (zlen q + 1).
Proof.
  induction rest as [|y r IH]; intro q; [reflexivity|].
  cbn [rowvals length iota lev]. rewrite IH. rewrite !zlen_cons. reflexivity.
Qed.

Lemma last_row p : forall rest q, last (lev p q :: rowvals p q rest) 0 = lev p (rev rest ++ q).
Proof.
  induction rest as [|y r IH]; intro q; [reflexivity|].
  cbn [rowvals rev]. rewrite <- app_assoc. cbn [app]. rewrite <- IH. reflexivity.
Qed.

Lemma zlen_rev (l : str) : zlen (rev l) = zlen l.
Proof. unfold zlen. now rewrite rev_length. Qed.

Theorem lev_model_spec a b : lev_model a b = lev_spec a b.
Proof.
  unfold lev_model, lev_spec.
  destruct a as [|x a].
  { cbn [rev lev]. now rewrite zlen_rev. }
  destruct b as [|y b].
  { change (rev []) with (@nil Z). now rewrite lev_nil_r, zlen_rev. }
  change 1 with (zlen [] + 1).
  replace (iota (S (length (y :: b))) 0) with (row [] (y :: b)).
  2:{ unfold row. rewrite rowvals_nil. reflexivity. }
  rewrite lev_loop_row. unfold row. rewrite last_row. now rewrite !app_nil_r.
Qed.

(* the spec recurrence, stated on the strings themselves (last characters) *)
Lemma lev_spec_nil_l b : lev_spec [] b = zlen b.
Proof. unfold lev_spec. cbn [rev lev]. apply zlen_rev. Qed.
Lemma lev_spec_nil_r a : lev_spec a [] = zlen a.
Proof. unfold lev_spec. change (rev []) with (@nil Z). now rewrite lev_nil_r, zlen_rev. Qed.
Lemma lev_spec_snoc a x b y :
  lev_spec (a ++ [x]) (b ++ [y]) =
  Z.min (Z.min (lev_spec a (b ++ [y]) + 1) (lev_spec (a ++ [x]) b + 1)) (lev_spec a b + (if x =? y then 0 else 1)).
Proof. unfold lev_spec. rewrite !rev_unit. apply lev_cons. Qed.

(* ---------- Luhn ---------- *)
Lemma luhn_double d : 0 <= d <= 9 -> (if 9 <? d * 2 then d * 2 - 9 else d * 2) = (d * 2) / 10 + (d * 2) mod 10.
Proof.
  intro H. assert (d = 0 \/ d = 1 \/ d = 2 \/ d = 3 \/ d = 4 \/ d = 5 \/ d = 6 \/ d = 7 \/ d = 8 \/ d = 9) as C by lia.
  repeat (destruct C as [C|C]; [subst d; reflexivity|]). subst d; reflexivity.
Qed.
Lemma parity_step i : ((i + 1) mod 2 =? 1) = negb (i mod 2 =? 1).
Proof.
  pose proof (Z.mod_pos_bound i 2 ltac:(lia)) as B.
  replace ((i + 1) mod 2) with (if i mod 2 =? 1 then 0 else 1).
  2:{ destruct (Z.eqb_spec (i mod 2) 1) as [E|E]; symmetry.
      - rewrite Zplus_mod, E. reflexivity.
      - rewrite Zplus_mod. replace (i mod 2) with 0 by lia. reflexivity. }
  destruct (i mod 2 =? 1); reflexivity.
Qed.
Lemma luhn_loop_sum : forall ds i sum, Forall (fun d => 0 <= d <= 9) ds ->
  luhn_loop i ds sum = sum + luhn_sum (i mod 2 =? 1) ds.
Proof.
  induction ds as [|d r IH]; intros i sum F; cbn [luhn_loop luhn_sum]; [lia|].
  inversion F as [|? ? Hd Fr]; subst. rewrite IH by assumption. rewrite parity_step.
  destruct (i mod 2 =? 1).
  - cbv zeta. rewrite luhn_double by assumption. lia.
  - lia.
Qed.
Lemma filter_all {A} (f : A -> bool) l : forallb f l = true -> filter f l = l.
Proof.
  induction l as [|x l IH]; cbn [forallb filter]; [reflexivity|].
  intro H. apply andb_true_iff in H as [Hx Hl]. rewrite Hx, IH by assumption. reflexivity.
Qed.
Theorem luhn_eng_std l : l <> [] -> forallb is_digit l = true ->
  luhn_eng l = luhn_std (map (fun c => c - 48) l).
Proof.
  intros Hne Hd. unfold luhn_eng, luhn_digits, luhn_std. rewrite filter_all by assumption.
  destruct l as [|c l]; [congruence|].
  remember (map (fun c0 => c0 - 48) (c :: l)) as ds eqn:E.
  assert (Forall (fun d => 0 <= d <= 9) ds) as F.
  { subst ds. apply Forall_forall. intros d Hin. apply in_map_iff in Hin as [c0 [<- Hc]].
    rewrite forallb_forall in Hd. specialize (Hd _ Hc). unfold is_digit in Hd. lia. }
  destruct ds as [|d ds']; [discriminate|].
  rewrite luhn_loop_sum by (apply Forall_rev; assumption). reflexivity.
Qed.
Theorem luhn_agrees s : k_luhn s = 0 -> spec_ok (s_luhn s) (m_luhn s) = true.
Proof.
  destruct s as [l|]; [|reflexivity]. unfold k_luhn, gs. intro K.
  destruct (forallb is_digit l) eqn:D; [|discriminate].
  destruct l as [|c l]; [reflexivity|]. unfold s_luhn, m_luhn. rewrite D.
  rewrite luhn_eng_std by (congruence || assumption). cbn [spec_ok res_eqb]. apply eqb_reflx.
Qed.


Lemma res_eqb_refl r : res_eqb r r = true.
Proof.
  destruct r; cbn [res_eqb]; try reflexivity.
  - apply Z.eqb_refl.
  - apply (proj2 (list_eqb_spec Z.eqb Z.eqb_eq s s)). reflexivity.
  - destruct b; reflexivity.
Qed.
Lemma spec_ok_refl r : spec_ok (Some r) r = true.
Proof. apply res_eqb_refl. Qed.
Lemma spec_ok_eq a b : a = b -> spec_ok (Some a) b = true.
Proof. intros ->. apply res_eqb_refl. Qed.

Lemma as_usize_small n : 0 <= n < two63 -> as_usize n = n.
Proof. intro H. unfold as_usize, two64. unfold two63 in H. apply Z.mod_small. lia. Qed.
Lemma zlen_nonneg l : 0 <= zlen l.
Proof. unfold zlen. lia. Qed.
Lemma takez_0 l : takez 0 l = [].
Proof.
  unfold takez. destruct (Z.leb_spec (zlen l) 0) as [H|H]; [|reflexivity].
  destruct l; [reflexivity|]. unfold zlen in H. cbn [length] in H. lia.
Qed.

(* ---------- length / strpos ---------- *)
(* LENGTH counts code points (fix 3767e33): equal to the documented value for EVERY string *)
Theorem length_agrees s : spec_ok (s_length s) (m_length s) = true.
Proof. destruct s; apply spec_ok_refl. Qed.
(* STRPOS / POSITION return the code point position (fix 1657caf), for every haystack *)
Theorem strpos_agrees s sub : spec_ok (s_strpos s sub) (m_strpos s sub) = true.
Proof.
  destruct s as [l|]; [|reflexivity]. destruct sub as [p|]; [|reflexivity].
  apply spec_ok_eq. unfold m_strpos. destruct (find_str p l) as [i|] eqn:F; [|reflexivity]. f_equal.
  unfold zlen. rewrite firstn_length.
  assert (i <= length l)%nat.
  { unfold find_str in F. destruct p as [|c p]; [injection F as <-; lia|]. apply find_sub_bound in F. lia. }
  lia.
Qed.

(* ---------- substr ---------- *)
Theorem substr_agrees cp s st ln :
  is_i64 (gi st) = true -> is_i64 (match ln with Some l => gi l | None => 0 end) = true ->
  k_substr cp s st ln = 0 -> spec_ok (s_substr s st ln) (m_substr cp s st ln) = true.
Proof.
  unfold k_substr, is_i64. intros Hs Hl K.
  destruct st as [start|]; cbn [is_none orb gi] in *; [|discriminate].
  destruct (Z.leb_spec start 0) as [|Hpos]; [destruct ln as [[?|]|]; discriminate|].
  assert (as_usize start = start) as Us by (apply as_usize_small; lia).
  assert (sat_sub start 1 = start - 1) as Ss by (unfold sat_sub; destruct (Z.leb_spec start 1); lia).
  apply spec_ok_eq. unfold m_substr, trino_substr. cbn [gi].
  replace (1 <=? start) with true by lia. replace (start =? 0) with false by lia. replace (0 <? start) with true by lia.
  destruct ln as [[k|]|]; cbn [gi] in *; try discriminate.
  - destruct (Z.ltb_spec k 0) as [|Hk]; [discriminate|].
    replace (0 <=? k) with true by lia. rewrite andb_true_r.
    assert (as_usize k = k) as Uk by (apply as_usize_small; lia).
    destruct cp; cbn [andb negb] in *.
    + destruct s as [l|]; [|reflexivity]. f_equal.
      destruct (Z.leb_spec k 0); [replace k with 0 by lia; symmetry; apply takez_0|reflexivity].
    + destruct s as [l|]; cbn [is_none gs] in *; [|discriminate]. rewrite Us, Ss, Uk. f_equal.
      destruct (Z.leb_spec k 0); [replace k with 0 by lia; symmetry; apply takez_0|reflexivity].
  - rewrite andb_true_r. destruct cp; cbn [andb negb] in *.
    + destruct s as [l|]; reflexivity.
    + destruct s as [l|]; cbn [is_none gs] in *; [|discriminate]. now rewrite Us, Ss.
Qed.

(* ---------- lpad / rpad ---------- *)
Lemma str_eqb_eq a b : str_eqb a b = true -> a = b.
Proof. apply (proj1 (list_eqb_spec Z.eqb Z.eqb_eq a b)). Qed.
Theorem pad_agrees left s n pad pad0 :
  - 2 ^ 62 <= gi n <= 2 ^ 62 -> zlen (gs s) < 2 ^ 62 ->
  k_pad s n pad pad0 = 0 -> spec_ok (s_pad left s n pad) (m_pad left s n pad0) = true.
Proof.
  unfold k_pad. intros Hn Hl K. destruct s as [l|]; cbn [is_none gs] in *; [|reflexivity].
  destruct n as [k|]; cbn [is_none orb gi] in *; [|discriminate].
  destruct pad as [p|]; cbn [is_none] in *; [|discriminate].
  destruct (ostr_eqb (Some p) pad0) eqn:E; cbn [negb] in K; [|discriminate].
  destruct pad0 as [p0|]; cbn [ostr_eqb] in E; [|discriminate]. apply str_eqb_eq in E. subst p0.
  cbn [gs] in K. destruct p as [|c p]; [discriminate|].
  apply spec_ok_eq. unfold m_pad. cbn [gi gs orb].
  pose proof (zlen_nonneg l) as Hz.
  destruct (Z.ltb_spec k 0) as [Hneg|Hpos]; cbn [orb].
  - assert (as_usize k = k + two64) as U.
    { unfold as_usize. symmetry. apply (Z.mod_unique_pos k two64 (-1)); unfold two64; lia. }
    rewrite U. replace (k + two64 <=? zlen l) with false by (unfold two64; lia).
    replace (two63 - 1 <? k + two64 - zlen l) with true by (unfold two63, two64; lia). reflexivity.
  - rewrite as_usize_small by (unfold two63; lia).
    destruct (Z.leb_spec k (zlen l)); [reflexivity|].
    replace (two63 - 1 <? k - zlen l) with false by (unfold two63; lia). reflexivity.
Qed.

(* ---------- split_part ---------- *)
Theorem split_part_agrees s d idx : is_i64 (gi idx) = true ->
  k_split_part s d idx = 0 -> spec_ok (s_split_part s d idx) (m_split_part s d idx) = true.
Proof.
  unfold k_split_part, is_i64. intros Hi K. destruct s as [l|]; cbn [is_none orb gs] in *; [|reflexivity].
  destruct d as [dl|]; cbn [is_none gs] in *; [|reflexivity].
  destruct idx as [i|]; cbn [gi] in *; [|discriminate].
  destruct (Z.leb_spec i 0) as [|Hpos]; [discriminate|].
  destruct dl as [|c dl]; [discriminate|].
  destruct (Z.ltb_spec (Z.of_nat (length (rust_split l (c :: dl)))) i) as [|Hle]; [discriminate|].
  apply spec_ok_eq. unfold m_split_part, s_split_part. cbv beta iota zeta. cbn [gi].
  rewrite as_usize_small by (unfold two63 in *; lia). unfold str in *.
  replace (0 <? i) with true by lia. replace (i <=? 0) with false by lia.
  repeat match goal with |- context [i <=? ?b] => replace (i <=? b) with true by lia end. reflexivity.
Qed.

(* ---------- chr ---------- *)
Theorem chr_agrees n : k_chr n = 0 -> spec_ok (s_chr n) (m_chr n) = true.
Proof.
  unfold k_chr. destruct n as [v|]; [|reflexivity]. destruct (is_scalar v) eqn:S; [|discriminate]. intros _.
  apply spec_ok_eq. unfold m_chr. assert (v mod two32 = v) as ->.
  { unfold is_scalar in S. apply Z.mod_small. unfold two32. lia. }
  now rewrite S.
Qed.

(* ---------- left / right / repeat ---------- *)
Lemma zlen_to_nat l : Z.to_nat (zlen l) = length l.
Proof. unfold zlen. lia. Qed.
Theorem left_agrees s n : is_i64 (gi n) = true -> k_count s n = 0 -> spec_ok (s_left s n) (m_left s n) = true.
Proof.
  unfold k_count, is_i64. intros Hi K. destruct s as [l|]; cbn [is_none negb andb] in *; [|destruct n; reflexivity].
  destruct n as [k|]; cbn [is_none gi] in *; [|discriminate]. unfold s_left.
  destruct (Z.ltb_spec k 0); [reflexivity|]. apply spec_ok_eq. unfold m_left. cbn [gi].
  rewrite as_usize_small by (unfold two63 in *; lia). f_equal. unfold takez.
  destruct (Z.leb_spec (zlen l) k).
  - rewrite Z.min_r by lia. rewrite zlen_to_nat. apply firstn_all.
  - now rewrite Z.min_l by lia.
Qed.
Theorem right_agrees s n : is_i64 (gi n) = true -> k_count s n = 0 -> spec_ok (s_right s n) (m_right s n) = true.
Proof.
  unfold k_count, is_i64. intros Hi K. destruct s as [l|]; cbn [is_none negb andb] in *; [|destruct n; reflexivity].
  destruct n as [k|]; cbn [is_none gi] in *; [|discriminate]. unfold s_right.
  destruct (Z.ltb_spec k 0); [reflexivity|]. apply spec_ok_eq. unfold m_right. cbn [gi].
  rewrite as_usize_small by (unfold two63 in *; lia). f_equal. unfold skipz, sat_sub.
  pose proof (zlen_nonneg l) as Hz.
  destruct (Z.leb_spec (zlen l) k).
  - rewrite Z.min_r by lia. rewrite zlen_to_nat, Nat.sub_diag. cbn [skipn].
    destruct (Z.leb_spec (zlen l) 0); [|reflexivity].
    destruct l; [reflexivity|]. unfold zlen in *. cbn [length] in *. lia.
  - rewrite Z.min_l by lia. destruct (Z.leb_spec (zlen l) (zlen l - k)).
    + replace k with 0 by lia. cbn [Z.to_nat]. rewrite Nat.sub_0_r. apply skipn_all.
    + f_equal. unfold zlen in *. lia.
Qed.
Theorem repeat_agrees s n : k_count s n = 0 -> spec_ok (s_repeat s n) (m_repeat s n) = true.
Proof.
  unfold k_count. intros K. destruct s as [l|]; cbn [is_none negb andb] in *; [|destruct n; reflexivity].
  destruct n as [k|]; cbn [is_none gi] in *; [|discriminate]. unfold s_repeat.
  destruct (Z.ltb_spec k 0); [reflexivity|]. apply spec_ok_eq. unfold m_repeat. cbn [gi]. now rewrite Z.max_l by lia.
Qed.

(* ---------- hamming / translate / concat / greatest ---------- *)
Theorem hamming_agrees a b : k_hamming a b = 0 -> spec_ok (s_hamming a b) (m_hamming a b) = true.
Proof.
  unfold k_hamming. destruct a as [x|]; [|reflexivity]. destruct b as [y|]; [|reflexivity].
  destruct (zlen x =? zlen y) eqn:E1; cbn [andb]; [|discriminate].
  destruct (blen x =? blen y) eqn:E2; [|discriminate]. intros _. apply spec_ok_eq. unfold m_hamming. now rewrite E1, E2.
Qed.
(* TRANSLATE omits unmatched-target characters (fix e4bd2bb): equal to the documented value for all arguments;
   the pre-fix mapping tr_eng differs exactly on the characters it failed to drop *)
Theorem translate_agrees s f t : spec_ok (s_translate s f t) (m_translate s f t) = true.
Proof. apply spec_ok_refl. Qed.
Theorem translate_prefix_behaviour fr tl c :
  tr_eng fr tl c = tr_std fr tl c \/ (tr_std fr tl c = [] /\ tr_eng fr tl c = [c]).
Proof.
  unfold tr_eng, tr_std. destruct (index_of c fr 0); [|now left]. destruct (nth_error tl n); [now left|now right].
Qed.
Theorem concat_agrees args : k_concat args = 0 -> spec_ok (s_concat args) (m_concat args) = true.
Proof.
  unfold k_concat, s_concat. destruct (existsb is_none args); [discriminate|]. intros _. apply spec_ok_refl.
Qed.
Lemma fold_pick gt : forall r c, existsb is_none r = false ->
  fold_left (pick gt) r (Some c) = Some (fold_left (fun c v => if gt then Z.max c v else Z.min c v) (map gi r) c).
Proof.
  induction r as [|x r IH]; intros c E; [reflexivity|].
  cbn [existsb] in E. apply orb_false_iff in E as [Ex Er]. destruct x as [v|]; [|discriminate].
  cbn [fold_left map gi pick]. destruct gt.
  - destruct (Z.ltb_spec v c); [rewrite IH by assumption; now rewrite Z.max_l by lia|rewrite IH by assumption; now rewrite Z.max_r by lia].
  - destruct (Z.ltb_spec c v); [rewrite IH by assumption; now rewrite Z.min_l by lia|rewrite IH by assumption; now rewrite Z.min_r by lia].
Qed.
Theorem extreme_agrees gt args : k_extreme args = 0 -> spec_ok (s_extreme gt args) (m_extreme gt args) = true.
Proof.
  unfold k_extreme, s_extreme. destruct args as [|a r]; [reflexivity|].
  destruct (existsb is_none (a :: r)) eqn:E; [discriminate|]. intros _. apply spec_ok_eq.
  cbn [existsb] in E. apply orb_false_iff in E as [Ea Er]. destruct a as [c|]; [|discriminate].
  unfold m_extreme. rewrite fold_pick by assumption. reflexivity.
Qed.

(* ---------- soundex ---------- *)
Fixpoint sx_emit (prev : Z) (rest : str) : str :=
  match rest with
  | [] => []
  | c :: r => let code := sx_code c in
              (if negb (code =? 0) && negb (code =? prev) then [48 + code] else [])
              ++ sx_emit (if (c =? 72) || (c =? 87) then prev else code) r
  end.
Lemma sx_eng_emit : forall rest prev out, (length out < 4)%nat ->
  sx_eng prev out rest = firstn 4 (out ++ sx_emit prev rest).
Proof.
  induction rest as [|c r IH]; intros prev out L.
  - cbn [sx_eng sx_emit]. rewrite app_nil_r. symmetry. apply firstn_all2. lia.
  - cbn [sx_eng sx_emit]. cbv zeta.
    destruct (negb (sx_code c =? 0) && negb (sx_code c =? prev)) eqn:E; cbn [andb app].
    + set (d := 48 + sx_code c) in *. set (p' := if (c =? 72) || (c =? 87) then prev else sx_code c).
      destruct (Z.leb_spec 4 (zlen (out ++ [d]))) as [H4|H4]; unfold zlen in H4; rewrite app_length in H4; cbn [length] in H4.
      * replace (out ++ d :: sx_emit p' r) with ((out ++ [d]) ++ sx_emit p' r) by (rewrite <- app_assoc; reflexivity).
        rewrite firstn_app. replace (4 - length (out ++ [d]))%nat with 0%nat by (rewrite app_length; cbn [length]; lia).
        rewrite firstn_O, app_nil_r. symmetry. apply firstn_all2. rewrite app_length. cbn [length]. lia.
      * rewrite IH by (rewrite app_length; cbn [length]; lia). rewrite <- app_assoc. reflexivity.
    + apply IH, L.
Qed.
Lemma sx_emit_std : forall rest prev, sx_emit prev rest = sx_std prev rest.
Proof.
  induction rest as [|c r IH]; intro prev; [reflexivity|].
  cbn [sx_emit sx_std]. cbv zeta. destruct ((c =? 72) || (c =? 87)) eqn:HW.
  - assert (sx_code c = 0) as C0.
    { apply orb_true_iff in HW as [H|H]; apply Z.eqb_eq in H; subst c; reflexivity. }
    rewrite C0. cbn [Z.eqb negb andb app]. apply IH.
  - now rewrite IH.
Qed.
(* the engine loop (with its early exit at four characters) IS American Soundex, for every string *)
Theorem soundex_eng_std s : soundex_eng s = soundex_std s.
Proof.
  unfold soundex_eng, soundex_std. destruct (map to_upper s) as [|c r]; [reflexivity|].
  rewrite sx_eng_emit by (cbn [length]; lia). rewrite sx_emit_std. reflexivity.
Qed.
Theorem soundex_agrees s : spec_ok (s_soundex s) (m_soundex s) = true.
Proof.
  unfold s_soundex. destruct s as [l|]; [|reflexivity].
  destruct (forallb is_letter l); [|reflexivity]. apply spec_ok_eq. unfold m_soundex. now rewrite soundex_eng_std.
Qed.

(* ---------- codecs ---------- *)
Lemma range_check (f : Z -> bool) (n : nat) :
  forallb f (map Z.of_nat (seq 0 n)) = true -> forall d, 0 <= d < Z.of_nat n -> f d = true.
Proof.
  intros H d Hd. rewrite forallb_forall in H. apply H. apply in_map_iff.
  exists (Z.to_nat d). split; [lia|apply in_seq; lia].
Qed.

(* ---------- base16 ---------- *)
Lemma hex_digit_up d : 0 <= d < 16 -> hex_digit (hex_up d) = Some d.
Proof.
  intro H. pose proof (range_check (fun d => match hex_digit (hex_up d) with Some j => j =? d | None => false end) 16
                         eq_refl d H) as R. cbv beta in R.
  destruct (hex_digit (hex_up d)) as [j|]; [|discriminate]. apply Z.eqb_eq in R. now subst.
Qed.
Theorem hex_roundtrip up b : bytes b -> dec_hex (enc_hex up b) = Some b.
Proof.
  induction 1 as [|x l Hx Hl IH]; [reflexivity|]. unfold is_byte in Hx.
  assert (0 <= x / 16 < 16) by (split; [apply Z.div_pos; lia|apply Z.div_lt_upper_bound; lia]).
  assert (0 <= x mod 16 < 16) by (apply Z.mod_pos_bound; lia).
  unfold enc_hex in *. cbn [flat_map]. destruct up; cbn [app dec_hex].
  - rewrite !hex_digit_up, IH by assumption. f_equal. f_equal. rewrite Z.mul_comm. symmetry. apply Z.div_mod. lia.
  - rewrite !hex_digit_char, IH by assumption. f_equal. f_equal. rewrite Z.mul_comm. symmetry. apply Z.div_mod. lia.
Qed.

(* TO_HEX renders uppercase (fix e21b72e): the documented value for every byte string, and from_hex inverts it *)
Theorem to_hex_agrees b : spec_ok (s_to_hex b) (m_to_hex b) = true.
Proof. apply spec_ok_refl. Qed.
Theorem from_hex_to_hex b : bytes b -> match m_to_hex (Some b) with RStr h => m_from_hex (Some h) = RStr b | _ => False end.
Proof. intro B. unfold m_to_hex, m_from_hex. now rewrite hex_roundtrip. Qed.

(* ---------- base64 ---------- *)
Lemma b64_idx_char i : 0 <= i < 64 -> b64_idx (b64_char i) = Some i /\ (b64_char i =? 61) = false.
Proof.
  intro H. pose proof (range_check (fun i => match b64_idx (b64_char i) with Some j => (j =? i) && negb (b64_char i =? 61) | None => false end)
                         64 eq_refl i H) as R. cbv beta in R.
  destruct (b64_idx (b64_char i)) as [j|]; [|discriminate]. apply andb_true_iff in R as [R1 R2].
  apply Z.eqb_eq in R1. subst. split; [reflexivity|]. now destruct (b64_char i =? 61).
Qed.
Lemma list_ind3 {A} (P : list A -> Prop) :
  P [] -> (forall a, P [a]) -> (forall a b, P [a; b]) -> (forall a b c l, P l -> P (a :: b :: c :: l)) -> forall l, P l.
Proof.
  intros H0 H1 H2 H3. fix IH 1. intros [|a [|b [|c l]]]; [exact H0|apply H1|apply H2|apply H3, IH].
Qed.
Ltac b64_range := first [ apply Z.mod_pos_bound; lia | split; [apply Z.div_pos; lia | apply Z.div_lt_upper_bound; lia] | Z.div_mod_to_equations; lia ].
Theorem b64_roundtrip b : bytes b -> dec_b64 (enc_b64 b) = Some b.
Proof.
  induction b as [|x|x y|x y z r IH] using list_ind3; intro B.
  - reflexivity.
  - inversion B as [|? ? Hx _]; subst. unfold is_byte in Hx. cbn [enc_b64 dec_b64].
    destruct (b64_idx_char (x / 4)) as [-> _]; [b64_range|].
    destruct (b64_idx_char ((x mod 4) * 16)) as [-> _]; [b64_range|].
    change (61 =? 61) with true. cbn [andb].
    replace ((x mod 4 * 16) mod 16 =? 0) with true by (symmetry; apply Z.eqb_eq; Z.div_mod_to_equations; lia).
    f_equal. f_equal. Z.div_mod_to_equations; lia.
  - inversion B as [|? ? Hx B']; subst. inversion B' as [|? ? Hy _]; subst. unfold is_byte in *. cbn [enc_b64 dec_b64].
    destruct (b64_idx_char (x / 4)) as [-> _]; [b64_range|].
    destruct (b64_idx_char ((x mod 4) * 16 + y / 16)) as [-> _]; [b64_range|].
    destruct (b64_idx_char ((y mod 16) * 4)) as [-> E2]; [b64_range|]. rewrite E2. cbn [andb].
    change (61 =? 61) with true. cbv iota.
    replace ((y mod 16 * 4) mod 4 =? 0) with true by (symmetry; apply Z.eqb_eq; Z.div_mod_to_equations; lia).
    f_equal. f_equal; [|f_equal]; Z.div_mod_to_equations; lia.
  - inversion B as [|? ? Hx B1]; subst. inversion B1 as [|? ? Hy B2]; subst. inversion B2 as [|? ? Hz B3]; subst.
    unfold is_byte in *. cbn [enc_b64 dec_b64].
    destruct (b64_idx_char (x / 4)) as [-> _]; [b64_range|].
    destruct (b64_idx_char ((x mod 4) * 16 + y / 16)) as [-> _]; [b64_range|].
    destruct (b64_idx_char ((y mod 16) * 4 + z / 64)) as [-> E2]; [b64_range|].
    destruct (b64_idx_char (z mod 64)) as [-> E3]; [b64_range|].
    rewrite E2, E3. cbn [andb]. rewrite (IH B3).
    f_equal. f_equal; [|f_equal; [|f_equal]]; Z.div_mod_to_equations; lia.
Qed.

(* ---------- base32: the regrouping arithmetic, and a bounded round trip ---------- *)
Theorem b32_group_roundtrip a b c d e : is_byte a -> is_byte b -> is_byte c -> is_byte d -> is_byte e ->
  b32_bytes (b32_group a b c d e) = [a; b; c; d; e] /\ Forall (fun i => 0 <= i < 32) (b32_group a b c d e).
Proof.
  unfold is_byte, b32_group, b32_bytes. intros. split.
  - repeat f_equal; Z.div_mod_to_equations; lia.
  - repeat constructor; Z.div_mod_to_equations; lia.
Qed.
Lemma b32_idx_char i : 0 <= i < 32 -> b32_idx (b32_char i) = Some i.
Proof.
  intro H. pose proof (range_check (fun i => match b32_idx (b32_char i) with Some j => j =? i | None => false end) 32 eq_refl i H) as R.
  cbv beta in R. destruct (b32_idx (b32_char i)) as [j|]; [|discriminate]. apply Z.eqb_eq in R. now subst.
Qed.
Definition b32_rt_ok (l : list Z) : bool :=
  match dec_b32 (S (length (enc_b32 l))) (enc_b32 l) with Some l' => list_eqb Z.eqb l' l | None => false end.
Theorem b32_roundtrip_small :
  forall l, In l (lists_upto [0; 1; 127; 128; 255; 90] 6) -> dec_b32 (S (length (enc_b32 l))) (enc_b32 l) = Some l.
Proof.
  assert (forallb b32_rt_ok (lists_upto [0; 1; 127; 128; 255; 90] 6) = true) as H by (vm_compute; reflexivity).
  intros l Hin. rewrite forallb_forall in H. specialize (H l Hin). unfold b32_rt_ok in H.
  destruct (dec_b32 _ _) as [l'|]; [|discriminate]. f_equal. apply (proj1 (list_eqb_spec Z.eqb Z.eqb_eq l' l) H).
Qed.

(* ---------- URL percent-encoding ---------- *)
Lemma alnum_not_special x : is_alnum x = true -> (x =? 37) = false /\ (x =? 43) = false.
Proof. unfold is_alnum. intro H. split; lia. Qed.
Lemma keep_not_special x : trino_keep x = true -> (x =? 37) = false /\ (x =? 43) = false.
Proof. unfold trino_keep, is_alnum. intro H. split; lia. Qed.
Lemma pct_decode_step plus f x rest : is_byte x ->
  pctdec plus (S f) (pct x ++ rest) = x :: pctdec plus f rest.
Proof.
  unfold is_byte. intro Hx. unfold pct. cbn [app pctdec]. change (37 =? 37) with true. cbv iota.
  rewrite !hex_digit_up by (first [apply Z.mod_pos_bound; lia | split; [apply Z.div_pos; lia|apply Z.div_lt_upper_bound; lia]]).
  f_equal. rewrite Z.mul_comm. symmetry. apply Z.div_mod. lia.
Qed.
Lemma pctdec_more plus : forall s f g, (length s <= f)%nat -> (length s <= g)%nat -> pctdec plus f s = pctdec plus g s.
Proof.
  intros s f. revert s. induction f as [|f IH]; intros s g Hf Hg.
  - destruct s; [|cbn [length] in Hf; lia]. destruct g; reflexivity.
  - destruct g as [|g]; [destruct s; [reflexivity|cbn [length] in Hg; lia]|].
    destruct s as [|c r]; [reflexivity|]. cbn [pctdec]. cbn [length] in Hf, Hg.
    destruct (c =? 37).
    + destruct r as [|h [|l r']]; try (f_equal; apply IH; cbn [length] in *; lia).
      destruct (hex_digit h), (hex_digit l); f_equal; apply IH; cbn [length] in *; lia.
    + f_equal. apply IH; lia.
Qed.
Lemma pctdec_lit plus f c rest : (c =? 37) = false ->
  pctdec plus (S f) (c :: rest) = (if plus && (c =? 43) then 32 else c) :: pctdec plus f rest.
Proof. intro H. cbn [pctdec]. now rewrite H. Qed.
Theorem url_roundtrip_engine b : bytes b ->
  pctdec false (S (length (urlenc_eng b))) (urlenc_eng b) = b.
Proof.
  intro B. induction B as [|x l Hx Hl IH]; [reflexivity|].
  unfold urlenc_eng in *. cbn [flat_map]. set (E := flat_map _ l) in *. destruct (is_alnum x) eqn:A.
  - change ([x] ++ E) with (x :: E).
    rewrite pctdec_lit by apply alnum_not_special, A. cbn [andb].
    rewrite (pctdec_more false E _ (S (length E))) by (cbn [length]; lia). now rewrite IH.
  - rewrite pct_decode_step by assumption.
    rewrite (pctdec_more false E _ (S (length E))) by (rewrite ?app_length; cbn [length pct]; lia). now rewrite IH.
Qed.
Theorem url_roundtrip_trino b : bytes b ->
  pctdec true (S (length (urlenc_std b))) (urlenc_std b) = b.
Proof.
  intro B. induction B as [|x l Hx Hl IH]; [reflexivity|].
  unfold urlenc_std in *. cbn [flat_map]. set (E := flat_map _ l) in *. destruct (trino_keep x) eqn:A.
  - change ([x] ++ E) with (x :: E).
    rewrite pctdec_lit by apply keep_not_special, A. destruct (keep_not_special x A) as [_ ->]. rewrite andb_false_r.
    rewrite (pctdec_more true E _ (S (length E))) by (cbn [length]; lia). now rewrite IH.
  - destruct (Z.eqb_spec x 32) as [->|N].
    + change ([43] ++ E) with (43 :: E).
      rewrite pctdec_lit by reflexivity. change (43 =? 43) with true. cbn [andb].
      rewrite (pctdec_more true E _ (S (length E))) by (cbn [length]; lia). now rewrite IH.
    + rewrite pct_decode_step by assumption.
      rewrite (pctdec_more true E _ (S (length E))) by (rewrite ?app_length; cbn [length pct]; lia). now rewrite IH.
Qed.

(* ---------- to_base / from_base ---------- *)
Lemma digit_val_char d : 0 <= d < 36 -> digit_val (digit_char d) = Some d /\ (digit_char d =? 45) = false /\ (digit_char d =? 43) = false.
Proof.
  intro H. pose proof (range_check (fun d => match digit_val (digit_char d) with Some j => (j =? d) && negb (digit_char d =? 45) && negb (digit_char d =? 43) | None => false end)
                         36 eq_refl d H) as R. cbv beta in R.
  destruct (digit_val (digit_char d)) as [j|]; [|discriminate].
  apply andb_true_iff in R as [R R3]. apply andb_true_iff in R as [R1 R2]. apply Z.eqb_eq in R1. subst.
  repeat split; [now destruct (digit_char d =? 45)|now destruct (digit_char d =? 43)].
Qed.
Lemma parse_digits_app r : forall a acc b,
  parse_digits r acc (a ++ b) = match parse_digits r acc a with Some v => parse_digits r v b | None => None end.
Proof.
  induction a as [|c a IH]; intros acc b; [reflexivity|]. cbn [app parse_digits].
  destruct (digit_val c) as [d|]; [|reflexivity]. destruct (d <? r); [apply IH|reflexivity].
Qed.
Lemma digits_fuel_S f r n :
  digits_fuel (S f) r n = if n <? r then [digit_char n] else digits_fuel f r (n / r) ++ [digit_char (n mod r)].
Proof. reflexivity. Qed.
Lemma digits_fuel_parse r : 2 <= r <= 36 -> forall f n, 0 <= n < r ^ Z.of_nat (S f) ->
  parse_digits r 0 (digits_fuel (S f) r n) = Some n.
Proof.
  intros Hr. induction f as [|f IH]; intros n Hn.
  - change (Z.of_nat 1) with 1 in Hn. rewrite Z.pow_1_r in Hn. cbn [digits_fuel].
    replace (n <? r) with true by lia. cbn [parse_digits].
    destruct (digit_val_char n) as [-> _]; [lia|]. replace (n <? r) with true by lia. f_equal; lia.
  - rewrite digits_fuel_S. destruct (Z.ltb_spec n r) as [Hlt|Hge].
    + cbn [parse_digits]. destruct (digit_val_char n) as [-> _]; [lia|]. replace (n <? r) with true by lia. f_equal; lia.
    + rewrite parse_digits_app. rewrite IH.
      2:{ split; [apply Z.div_pos; lia|]. apply Z.div_lt_upper_bound; [lia|].
          replace (Z.of_nat (S (S f))) with (Z.succ (Z.of_nat (S f))) in Hn by lia. rewrite Z.pow_succ_r in Hn by lia. lia. }
      cbn [parse_digits]. pose proof (Z.mod_pos_bound n r ltac:(lia)) as Hm.
      destruct (digit_val_char (n mod r)) as [-> _]; [lia|]. replace (n mod r <? r) with true by lia.
      f_equal. rewrite Z.mul_comm. symmetry. apply Z.div_mod. lia.
Qed.
Lemma digits_fuel_head r : 2 <= r <= 36 -> forall f n, 0 <= n ->
  exists k t, 0 <= k < 36 /\ digits_fuel (S f) r n = digit_char k :: t.
Proof.
  intros Hr. induction f as [|f IH]; intros n Hn; rewrite digits_fuel_S.
  - destruct (Z.ltb_spec n r); [exists n, []; split; [lia|reflexivity]|].
    exists (n mod r), []. pose proof (Z.mod_pos_bound n r ltac:(lia)). split; [lia|reflexivity].
  - destruct (Z.ltb_spec n r); [exists n, []; split; [lia|reflexivity]|].
    destruct (IH (n / r) ltac:(apply Z.div_pos; lia)) as [k [t [Hk E]]].
    rewrite E. exists k, (t ++ [digit_char (n mod r)]). split; [assumption|reflexivity].
Qed.
Lemma parse_unsigned r n : 2 <= r <= 36 -> 0 <= n <= two63 ->
  exists k t, digits r n = digit_char k :: t /\ 0 <= k < 36 /\ parse_digits r 0 (digits r n) = Some n.
Proof.
  intros Hr Hn. unfold digits. destruct (digits_fuel_head r Hr 63 n ltac:(lia)) as [k [t [Hk E]]].
  exists k, t. repeat split; try assumption; try lia. apply digits_fuel_parse; [assumption|].
  split; [lia|]. apply Z.le_lt_trans with two63; [lia|].
  apply Z.lt_le_trans with (2 ^ Z.of_nat 64); [reflexivity|]. apply Z.pow_le_mono_l. lia.
Qed.
Theorem base_roundtrip r v : radix_ok r = true -> is_i64 v = true -> parse_i64 r (signed_digits r v) = Some v.
Proof.
  unfold radix_ok, is_i64. intros Hr Hv. assert (2 <= r <= 36) as Hr' by lia.
  unfold signed_digits, parse_i64. destruct (Z.ltb_spec v 0) as [Hneg|Hpos].
  - destruct (parse_unsigned r (- v) Hr' ltac:(unfold two63 in *; lia)) as [k [t [E [Hk P]]]].
    rewrite P. rewrite E. unfold is_i64. replace ((- two63 <=? - - v) && (- - v <? two63)) with true by (unfold two63 in *; lia).
    f_equal. lia.
  - destruct (parse_unsigned r v Hr' ltac:(unfold two63 in *; lia)) as [k [t [E [Hk P]]]].
    destruct (digit_val_char k Hk) as [_ [N45 N43]].
    rewrite E. assert (forall c, (c =? 45) = false -> (c =? 43) = false -> forall tl,
      (match c :: tl with 45 :: t0 => (true, t0) | 43 :: t0 => (false, t0) | _ => (false, c :: tl) end) = (false, c :: tl)) as M.
    { intros c H1 H2 tl. apply Z.eqb_neq in H1, H2. destruct c as [|p|p]; try reflexivity.
      do 6 (destruct p as [p|p|]; try reflexivity); try (exfalso; apply H1; reflexivity); try (exfalso; apply H2; reflexivity). }
    rewrite (M _ N45 N43). rewrite <- E, P. unfold is_i64. replace ((- two63 <=? v) && (v <? two63)) with true by lia. reflexivity.
Qed.


(* ---------- 64-bit words ---------- *)
Lemma two64_pow : two64 = 2 ^ 64. Proof. reflexivity. Qed.
Lemma to_i64_range u : - two63 <= to_i64 u < two63.
Proof.
  unfold to_i64. pose proof (Z.mod_pos_bound u two64 ltac:(unfold two64; lia)) as B. cbv zeta.
  destruct (Z.ltb_spec (u mod two64) two63); unfold two63, two64 in *; lia.
Qed.
Lemma to_u64_to_i64 u : to_u64 (to_i64 u) = u mod two64.
Proof.
  unfold to_u64, to_i64. pose proof (Z.mod_pos_bound u two64 ltac:(unfold two64; lia)) as B. cbv zeta.
  destruct (Z.ltb_spec (u mod two64) two63).
  - apply Z.mod_mod. unfold two64. lia.
  - replace (u mod two64 - two64) with (u mod two64 + (-1) * two64) by lia.
    rewrite Z_mod_plus_full. apply Z.mod_mod. unfold two64. lia.
Qed.
Lemma to_i64_to_u64 x : - two63 <= x < two63 -> to_i64 (to_u64 x) = x.
Proof.
  intro H. unfold to_i64, to_u64. rewrite Z.mod_mod by (unfold two64; lia). cbv zeta.
  destruct (Z.ltb_spec x 0).
  - assert (x mod two64 = x + two64) as ->.
    { symmetry. apply (Z.mod_unique_pos x two64 (-1)); unfold two63, two64 in *; lia. }
    replace (x + two64 <? two63) with false by (unfold two63, two64 in *; lia). lia.
  - rewrite Z.mod_small by (unfold two63, two64 in *; lia). replace (x <? two63) with true by lia. reflexivity.
Qed.
Lemma testbit_low w n : 0 <= n < 64 -> Z.testbit (w mod two64) n = Z.testbit w n.
Proof. intro H. rewrite two64_pow. apply Z.mod_pow2_bits_low. lia. Qed.

(* the result word has, at every position 0..63, the AND / OR / XOR / NOT of the argument words' bits *)
Theorem bitwise_and_bits x y n : 0 <= n < 64 ->
  res_bits (m_bitwise_and (Some x) (Some y)) (fun r => is_i64 r = true /\
    Z.testbit (to_u64 r) n = Z.testbit (to_u64 x) n && Z.testbit (to_u64 y) n).
Proof.
  intro H. unfold m_bitwise_and, bw, res_bits. split.
  - pose proof (to_i64_range (Z.land (to_u64 x) (to_u64 y))). unfold is_i64. lia.
  - rewrite to_u64_to_i64, testbit_low by assumption. apply Z.land_spec.
Qed.
Theorem bitwise_or_bits x y n : 0 <= n < 64 ->
  res_bits (m_bitwise_or (Some x) (Some y)) (fun r => is_i64 r = true /\
    Z.testbit (to_u64 r) n = Z.testbit (to_u64 x) n || Z.testbit (to_u64 y) n).
Proof.
  intro H. unfold m_bitwise_or, bw, res_bits. split.
  - pose proof (to_i64_range (Z.lor (to_u64 x) (to_u64 y))). unfold is_i64. lia.
  - rewrite to_u64_to_i64, testbit_low by assumption. apply Z.lor_spec.
Qed.
Theorem bitwise_xor_bits x y n : 0 <= n < 64 ->
  res_bits (m_bitwise_xor (Some x) (Some y)) (fun r => is_i64 r = true /\
    Z.testbit (to_u64 r) n = xorb (Z.testbit (to_u64 x) n) (Z.testbit (to_u64 y) n)).
Proof.
  intro H. unfold m_bitwise_xor, bw, res_bits. split.
  - pose proof (to_i64_range (Z.lxor (to_u64 x) (to_u64 y))). unfold is_i64. lia.
  - rewrite to_u64_to_i64, testbit_low by assumption. apply Z.lxor_spec.
Qed.
Theorem bitwise_not_bits x n : 0 <= n < 64 ->
  res_bits (m_bitwise_not (Some x)) (fun r => is_i64 r = true /\ Z.testbit (to_u64 r) n = negb (Z.testbit (to_u64 x) n)).
Proof.
  intro H. unfold m_bitwise_not, res_bits. split.
  - pose proof (to_i64_range (two64 - 1 - to_u64 x)). unfold is_i64. lia.
  - rewrite to_u64_to_i64.
    replace (two64 - 1 - to_u64 x) with (Z.lnot (to_u64 x) + 1 * two64) by (unfold Z.lnot; lia).
    rewrite Z_mod_plus_full, testbit_low by assumption. apply Z.lnot_spec. lia.
Qed.
(* on i64 arguments bitwise NOT is -x-1 *)
Lemma to_i64_congr u v : u mod two64 = v mod two64 -> to_i64 u = to_i64 v.
Proof. unfold to_i64. now intros ->. Qed.
Lemma to_i64_small v : - two63 <= v < two63 -> to_i64 v = v.
Proof.
  intro H. rewrite <- (to_i64_to_u64 v H) at 2. apply to_i64_congr. unfold to_u64.
  symmetry. apply Z.mod_mod. unfold two64. lia.
Qed.
Theorem bitwise_not_value x : is_i64 x = true -> m_bitwise_not (Some x) = RInt (- x - 1).
Proof.
  unfold is_i64, m_bitwise_not. intro H. f_equal. rewrite <- (to_i64_small (- x - 1)) by lia.
  apply to_i64_congr. unfold to_u64.
  replace (two64 - 1 - x mod two64) with ((- x - 1) + (1 + x / two64) * two64).
  2:{ pose proof (Z.div_mod x two64 ltac:(unfold two64; lia)). lia. }
  apply Z_mod_plus_full.
Qed.

(* ---------- shifts ---------- *)
(* shifts (fix 08c65d9): the documented value for EVERY non-negative amount; only negative amounts are left
   (Trino raises an error, the engine saturates): class shift-negative *)
Theorem shift_agrees kind x s : k_shift x s = 0 -> spec_ok (s_shift kind x s) (m_shift kind x s) = true.
Proof.
  unfold k_shift. destruct x as [a|]; [|reflexivity]. destruct s as [sv|]; [|reflexivity].
  destruct (Z.ltb_spec sv 0) as [|Hpos]; [discriminate|]. intros _.
  apply spec_ok_eq. unfold m_shift, s_shift. replace (sv <? 0) with false by lia. replace (0 <=? sv) with true by lia.
  cbn [andb]. destruct (Z.leb_spec 64 sv); [replace (sv <? 64) with false by lia|replace (sv <? 64) with true by lia]; reflexivity.
Qed.
Theorem shift_nonneg_total kind a sv : 0 <= sv -> spec_ok (s_shift kind (Some a) (Some sv)) (m_shift kind (Some a) (Some sv)) = true.
Proof. intro H. apply shift_agrees. unfold k_shift. now replace (sv <? 0) with false by lia. Qed.
(* an amount >= 64 no longer panics or wraps: it yields exactly the mathematical shift of the 64-bit word *)
Theorem shift_ge64_math a sv : is_i64 a = true -> 64 <= sv ->
  m_shift 0 (Some a) (Some sv) = RInt 0 /\ (to_u64 a * 2 ^ sv) mod two64 = 0 /\
  m_shift 1 (Some a) (Some sv) = RInt 0 /\ to_u64 a / 2 ^ sv = 0 /\
  m_shift 2 (Some a) (Some sv) = RInt (Z.shiftr a sv).
Proof.
  unfold is_i64. intros Ha Hs. unfold m_shift. replace ((0 <=? sv) && (sv <? 64)) with false by lia.
  assert (two64 <= 2 ^ sv) as P by (rewrite two64_pow; apply Z.pow_le_mono_r; lia).
  assert (2 ^ sv = two64 * 2 ^ (sv - 64)) as E.
  { rewrite two64_pow, <- Z.pow_add_r by lia. f_equal. lia. }
  pose proof (Z.mod_pos_bound a two64 ltac:(unfold two64; lia)) as B.
  repeat split.
  - rewrite E. replace (to_u64 a * (two64 * 2 ^ (sv - 64))) with ((to_u64 a * 2 ^ (sv - 64)) * two64) by lia.
    apply Z_mod_mult.
  - apply Z.div_small. unfold to_u64. lia.
  - unfold shift_saturated. change (2 =? 2) with true. cbv iota. f_equal. rewrite Z.shiftr_div_pow2 by lia.
    destruct (Z.ltb_spec a 0).
    + apply (Z.div_unique a (2 ^ sv) (-1) (a + 2 ^ sv)); [left|]; unfold two63, two64 in *; lia.
    + symmetry. apply Z.div_small. unfold two63, two64 in *. lia.
Qed.
(* negative amounts are no longer wrapped modulo 2^32 *)
Theorem shift_negative_saturates kind a sv : sv < 0 ->
  m_shift kind (Some a) (Some sv) = RInt (shift_saturated kind a) /\ s_shift kind (Some a) (Some sv) = Some RErr.
Proof.
  intro H. unfold m_shift, s_shift. replace (0 <=? sv) with false by lia. replace (sv <? 0) with true by lia. now split.
Qed.
(* what the in-range results are, as words / numbers *)
Theorem shift_left_word a k : 0 <= k < 64 ->
  res_bits (m_shift 0 (Some a) (Some k)) (fun r => to_u64 r = (a * 2 ^ k) mod two64).
Proof.
  intros Hk. unfold m_shift, res_bits, shift_in_range. replace ((0 <=? k) && (k <? 64)) with true by lia.
  change (0 =? 0) with true. cbv iota. rewrite to_u64_to_i64. unfold to_u64. apply Zmult_mod_idemp_l.
Qed.
Theorem shift_right_arith_value a k : 0 <= k < 64 -> m_shift 2 (Some a) (Some k) = RInt (Z.shiftr a k).
Proof.
  intros Hk. unfold m_shift, shift_in_range. replace ((0 <=? k) && (k <? 64)) with true by lia.
  change (2 =? 0) with false. change (2 =? 1) with false. cbv iota. f_equal. symmetry. apply Z.shiftr_div_pow2. lia.
Qed.
Theorem shift_right_logical_word a k : 0 <= k < 64 ->
  res_bits (m_shift 1 (Some a) (Some k)) (fun r => to_u64 r = Z.shiftr (to_u64 a) k).
Proof.
  intros Hk. unfold m_shift, res_bits, shift_in_range. replace ((0 <=? k) && (k <? 64)) with true by lia.
  change (1 =? 0) with false. change (1 =? 1) with true. cbv iota.
  rewrite to_u64_to_i64. rewrite Z.shiftr_div_pow2 by lia. apply Z.mod_small.
  pose proof (Z.mod_pos_bound a two64 ltac:(unfold two64; lia)) as B. unfold to_u64. split.
  - apply Z.div_pos; [lia|]. apply Z.pow_pos_nonneg; lia.
  - apply Z.le_lt_trans with (a mod two64); [|lia]. apply Z.div_le_upper_bound; [apply Z.pow_pos_nonneg; lia|].
    assert (0 < 2 ^ k) by (apply Z.pow_pos_nonneg; lia). nia.
Qed.

(* ---------- bit_count ---------- *)
Theorem bit_count_agrees x bits : k_bit_count x bits = 0 -> spec_ok (s_bit_count x bits) (m_bit_count x bits) = true.
Proof.
  unfold k_bit_count. destruct x as [a|]; [|reflexivity]. destruct bits as [b|]; [|discriminate].
  destruct ((2 <=? b) && (b <=? 64) && (- 2 ^ (b - 1) <=? a) && (a <? 2 ^ (b - 1)) && ((0 <=? a) || (b =? 64))) eqn:E; [|discriminate].
  intros _. apply andb_true_iff in E as [E E5]. apply spec_ok_eq. unfold s_bit_count, m_bit_count. rewrite E. f_equal. f_equal.
  apply andb_true_iff in E as [E E4]. apply andb_true_iff in E as [E E3]. apply andb_true_iff in E as [E1 E2].
  unfold to_u64. apply orb_true_iff in E5 as [P|P].
  - assert (2 ^ (b - 1) <= 2 ^ 63) by (apply Z.pow_le_mono_r; lia).
    assert (2 ^ (b - 1) < 2 ^ b) by (apply Z.pow_lt_mono_r; lia).
    rewrite !Z.mod_small; [reflexivity| |]; rewrite ?two64_pow; lia.
  - apply Z.eqb_eq in P. subst b. reflexivity.
Qed.


(* exhaustive check of f on [lo, lo + 2^depth) by binary splitting *)
Fixpoint all_in (depth : nat) (lo : Z) (f : Z -> bool) : bool :=
  match depth with
  | O => f lo
  | S d => all_in d lo f && all_in d (lo + 2 ^ Z.of_nat d) f
  end.
Lemma all_in_spec f : forall depth lo, all_in depth lo f = true ->
  forall z, lo <= z < lo + 2 ^ Z.of_nat depth -> f z = true.
Proof.
  induction depth as [|d IH]; intros lo H z Hz.
  - cbn [all_in] in H. change (2 ^ Z.of_nat 0) with 1 in Hz. now replace z with lo by lia.
  - cbn [all_in] in H. apply andb_true_iff in H as [H1 H2].
    replace (Z.of_nat (S d)) with (Z.succ (Z.of_nat d)) in Hz by lia. rewrite Z.pow_succ_r in Hz by lia.
    destruct (Z.lt_ge_cases z (lo + 2 ^ Z.of_nat d)); [apply (IH lo H1); lia|apply (IH _ H2); lia].
Qed.

(* one 400-year era: days-of-era 0 .. 146096 *)
Definition era_ok (doe : Z) : bool :=
  (146097 <=? doe) ||
  (let '(y, m, d) := civil_from_days (doe - 719468) in
   (days_from_civil y m d =? doe - 719468) && valid_ymd y m d && (0 <=? y) && (y <=? 400)).
Lemma era_checked : forall doe, 0 <= doe < 146097 -> era_ok doe = true.
Proof.
  assert (all_in 18 0 era_ok = true) as H by (vm_compute; reflexivity).
  intros doe Hd. apply (all_in_spec era_ok 18 0 H). change (2 ^ Z.of_nat 18) with 262144. lia.
Qed.

Lemma leap_shift y e : is_leap (y + e * 400) = is_leap y.
Proof.
  unfold is_leap.
  replace ((y + e * 400) mod 4) with (y mod 4) by (replace (y + e * 400) with (y + (e * 100) * 4) by lia; now rewrite Z_mod_plus_full).
  replace ((y + e * 400) mod 100) with (y mod 100) by (replace (y + e * 400) with (y + (e * 4) * 100) by lia; now rewrite Z_mod_plus_full).
  now rewrite Z_mod_plus_full.
Qed.
Lemma valid_shift y m d e : valid_ymd (y + e * 400) m d = valid_ymd y m d.
Proof. unfold valid_ymd, dim. now rewrite leap_shift. Qed.
Lemma dfc_shift y m d e : days_from_civil (y + e * 400) m d = days_from_civil y m d + e * 146097.
Proof.
  unfold days_from_civil. cbv zeta.
  replace (if m <=? 2 then y + e * 400 - 1 else y + e * 400) with ((if m <=? 2 then y - 1 else y) + e * 400)
    by (destruct (m <=? 2); lia).
  rewrite Z_div_plus_full, Z_mod_plus_full by lia. lia.
Qed.
Lemma cfd_shift z e :
  civil_from_days (z + e * 146097) = (let '(y, m, d) := civil_from_days z in (y + e * 400, m, d)).
Proof.
  unfold civil_from_days. cbv zeta.
  replace (z + e * 146097 + 719468) with (z + 719468 + e * 146097) by lia.
  rewrite Z_div_plus_full, Z_mod_plus_full by lia. f_equal. f_equal. lia.
Qed.

Lemma civil_roundtrip_era doe e : 0 <= doe < 146097 ->
  let '(y, m, d) := civil_from_days ((doe - 719468) + e * 146097) in
  days_from_civil y m d = (doe - 719468) + e * 146097 /\ valid_ymd y m d = true.
Proof.
  intro Hd. pose proof (era_checked doe Hd) as C. unfold era_ok in C.
  replace (146097 <=? doe) with false in C by lia. cbn [orb] in C.
  rewrite cfd_shift. destruct (civil_from_days (doe - 719468)) as [[y m] d].
  apply andb_true_iff in C as [C _]. apply andb_true_iff in C as [C _]. apply andb_true_iff in C as [C1 C2]. apply Z.eqb_eq in C1.
  rewrite dfc_shift, valid_shift. split; [lia|assumption].
Qed.
Theorem civil_roundtrip z :
  let '(y, m, d) := civil_from_days z in days_from_civil y m d = z /\ valid_ymd y m d = true.
Proof.
  pose proof (civil_roundtrip_era ((z + 719468) mod 146097) ((z + 719468) / 146097)
                ltac:(apply Z.mod_pos_bound; lia)) as R.
  replace ((z + 719468) mod 146097 - 719468 + (z + 719468) / 146097 * 146097) with z in R; [exact R|].
  pose proof (Z.div_mod (z + 719468) 146097 ltac:(lia)). lia.
Qed.

(* the other direction: every valid civil date is recovered from its day number *)
Definition ymd_ok (y : Z) : bool :=
  forallb (fun m => forallb (fun d => negb (valid_ymd y m d) ||
      (let '(y', m', d') := civil_from_days (days_from_civil y m d) in (y' =? y) && (m' =? m) && (d' =? d)))
    (map Z.of_nat (seq 1 31))) (map Z.of_nat (seq 1 12)).
Lemma ymd_checked : forall y, 0 <= y < 400 -> ymd_ok y = true.
Proof.
  assert (all_in 9 0 (fun y => (400 <=? y) || ymd_ok y) = true) as H by (vm_compute; reflexivity).
  intros y Hy. pose proof (all_in_spec _ 9 0 H y) as P. change (2 ^ Z.of_nat 9) with 512 in P.
  specialize (P ltac:(lia)). cbv beta in P. replace (400 <=? y) with false in P by lia. exact P.
Qed.
Lemma civil_roundtrip_inv_era y0 e m d : 0 <= y0 < 400 -> valid_ymd (y0 + e * 400) m d = true ->
  civil_from_days (days_from_civil (y0 + e * 400) m d) = (y0 + e * 400, m, d).
Proof.
  intros Hy V. rewrite valid_shift in V. rewrite dfc_shift, cfd_shift.
  pose proof (ymd_checked y0 Hy) as C. unfold ymd_ok in C. rewrite forallb_forall in C.
  assert (1 <= m <= 12 /\ 1 <= d <= 31) as [Hm Hdd].
  { unfold valid_ymd, dim in V. destruct (m =? 2), (is_leap y0), ((m =? 4) || (m =? 6) || (m =? 9) || (m =? 11)); lia. }
  specialize (C m). rewrite forallb_forall in C.
  assert (In m (map Z.of_nat (seq 1 12))) as Im by (apply in_map_iff; exists (Z.to_nat m); split; [lia|apply in_seq; lia]).
  assert (In d (map Z.of_nat (seq 1 31))) as Id by (apply in_map_iff; exists (Z.to_nat d); split; [lia|apply in_seq; lia]).
  specialize (C Im d Id). rewrite V in C. cbn [negb orb] in C.
  destruct (civil_from_days (days_from_civil y0 m d)) as [[y' m'] d'].
  apply andb_true_iff in C as [C C3]. apply andb_true_iff in C as [C1 C2].
  apply Z.eqb_eq in C1, C2, C3. now subst.
Qed.
Theorem civil_roundtrip_inv y m d : valid_ymd y m d = true -> civil_from_days (days_from_civil y m d) = (y, m, d).
Proof.
  intro V. pose proof (civil_roundtrip_inv_era (y mod 400) (y / 400) m d ltac:(apply Z.mod_pos_bound; lia)) as R.
  replace (y mod 400 + y / 400 * 400) with y in R by (pose proof (Z.div_mod y 400 ltac:(lia)); lia).
  exact (R V).
Qed.

(* day-of-week: the engine's Sunday-based numbering never equals the ISO numbering *)
(* DAY_OF_WEEK is the ISO day of the week for EVERY date (fix 0d7bffe): Monday = 1 .. Sunday = 7, 1970-01-01 a
   Thursday, period 7; the pre-fix Sunday-based numbering d_dow_sun agreed with it on no date *)
Theorem day_of_week_agrees d : spec_ok (s_day_of_week d) (m_day_of_week d) = true.
Proof.
  unfold s_day_of_week, m_day_of_week, sdfun, dfun. destruct d as [z|]; [|reflexivity].
  destruct (date_ok z); [apply spec_ok_refl|reflexivity].
Qed.
Theorem day_of_week_iso z :
  m_day_of_week (Some z) = RInt (d_dow_iso z) /\ 1 <= d_dow_iso z <= 7 /\ d_dow_iso (z + 1) = d_dow_iso z mod 7 + 1
  /\ d_dow_iso (z + 7) = d_dow_iso z /\ d_dow_sun z <> d_dow_iso z.
Proof.
  split; [reflexivity|]. unfold d_dow_iso, d_dow_sun. repeat split; Z.div_mod_to_equations; lia.
Qed.
Theorem dow_iso_epoch : d_dow_iso 0 = 4 /\ d_dow_iso (days_from_civil 2024 1 1) = 1 /\ d_dow_iso (days_from_civil 2024 1 7) = 7.
Proof. repeat split; reflexivity. Qed.
(* add_months: the result is the requested month with the day clamped to the month's length *)
Theorem add_months_clamps z k :
  let '(y, m, d) := civil_from_days z in
  let t := y * 12 + (m - 1) + k in
  civil_from_days (add_months z k) = (t / 12, t mod 12 + 1, Z.min d (dim (t / 12) (t mod 12 + 1))).
Proof.
  pose proof (civil_roundtrip z) as R. unfold add_months.
  destruct (civil_from_days z) as [[y m] d]. destruct R as [_ V]. cbv zeta.
  apply civil_roundtrip_inv. unfold valid_ymd in *.
  pose proof (Z.mod_pos_bound (y * 12 + (m - 1) + k) 12 ltac:(lia)).
  set (y' := (y * 12 + (m - 1) + k) / 12) in *. set (m' := (y * 12 + (m - 1) + k) mod 12 + 1) in *.
  assert (28 <= dim y' m') by (unfold dim; destruct (m' =? 2), (is_leap y'), ((m' =? 4) || (m' =? 6) || (m' =? 9) || (m' =? 11)); lia).
  lia.
Qed.


Lemma dfc_day_linear y m d1 d2 : days_from_civil y m d1 - days_from_civil y m d2 = d1 - d2.
Proof. unfold days_from_civil. cbv zeta. lia. Qed.
Lemma months_fwd_exact a b : d_day a <= d_day b -> months_fwd a b = month_index b - month_index a.
Proof.
  unfold months_fwd, month_index, d_day, add_months.
  pose proof (civil_roundtrip a) as Ra. pose proof (civil_roundtrip b) as Rb.
  destruct (civil_from_days a) as [[ya ma] da]. destruct (civil_from_days b) as [[yb mb] db].
  destruct Ra as [Ea Va]. destruct Rb as [Eb Vb]. intro Hd. cbv zeta.
  assert (1 <= mb <= 12 /\ 1 <= db <= dim yb mb) as [Hm Hdb] by (unfold valid_ymd in Vb; lia).
  replace (ya * 12 + (ma - 1) + (yb * 12 + mb - (ya * 12 + ma))) with (yb * 12 + (mb - 1)) by lia.
  assert ((yb * 12 + (mb - 1)) / 12 = yb) as -> by (pose proof (Z.div_unique_pos (yb * 12 + (mb - 1)) 12 yb (mb - 1)); lia).
  assert ((yb * 12 + (mb - 1)) mod 12 + 1 = mb) as -> by (pose proof (Z.mod_unique_pos (yb * 12 + (mb - 1)) 12 yb (mb - 1)); lia).
  pose proof (dfc_day_linear yb mb (Z.min da (dim yb mb)) db) as L.
  replace (days_from_civil yb mb (Z.min da (dim yb mb)) <=? b) with true by lia. reflexivity.
Qed.
Theorem date_diff_month_agrees a b : date_ok a = true -> date_ok b = true ->
  k_date_diff (Some 2) (Some a) (Some b) = 0 ->
  spec_ok (s_date_diff (Some 2) (Some a) (Some b)) (m_date_diff (Some 2) (Some a) (Some b)) = true.
Proof.
  intros Oa Ob. unfold k_date_diff, s_date_diff, m_date_diff. rewrite Oa, Ob. cbn [andb negb].
  change (2 =? 3) with false. change (2 <? 0) with false. change (4 <? 2) with false. change (2 =? 2) with true.
  change (2 =? 0) with false. change (2 =? 1) with false. change (2 =? 4) with false. cbn [orb andb].
  destruct (Z.ltb_spec (d_day (Z.max a b)) (d_day (Z.min a b))) as [|Hd]; [discriminate|]. intros _.
  cbn [spec_ok res_eqb]. apply Z.eqb_eq. unfold months_between.
  destruct (Z.leb_spec a b).
  - rewrite Z.max_r, Z.min_l in Hd by lia. now rewrite months_fwd_exact.
  - rewrite Z.max_l, Z.min_r in Hd by lia. rewrite months_fwd_exact by assumption. lia.
Qed.

(* every known class is inhabited: Model.dev_witnesses *)
Theorem deviations_witnessed : forallb (fun b => b) dev_witnesses = true.
Proof. vm_compute. reflexivity. Qed.
(* the witnesses of the eight repaired classes now give the documented value *)
Theorem regressions_fixed : forallb (fun b => b) fixed_regressions = true.
Proof. vm_compute. reflexivity. Qed.

(* ---------- the hypotheses of the theorems above are satisfiable (non-trivial instances) ---------- *)
Example ex_lev : lev_model [107;105;116;116;101;110] [115;105;116;116;105;110;103] = 3 /\ lev_spec [233;128512] [128512] = 1.
Proof. split; reflexivity. Qed.
Example ex_luhn : k_luhn (Some [55;57;57;50;55;51;57;56;55;49;51]) = 0 /\ m_luhn (Some [55;57;57;50;55;51;57;56;55;49;51]) = RBool true.
Proof. split; reflexivity. Qed.
Example ex_soundex : forallb is_letter [82;111;98;101;114;116] = true /\ m_soundex (Some [82;111;98;101;114;116]) = RStr [82;49;54;51]
  /\ m_soundex (Some [65;115;104;99;114;97;102;116]) = RStr [65;50;54;49].
Proof. repeat split; reflexivity. Qed.
Example ex_substr : k_substr false (Some [104;233;108;108;111]) (Some 2) (Some (Some 3)) = 0
  /\ m_substr false (Some [104;233;108;108;111]) (Some 2) (Some (Some 3)) = RStr [233;108;108].
Proof. split; reflexivity. Qed.
Example ex_pad : k_pad (Some [97]) (Some 4) (Some [120;121]) (Some [120;121]) = 0
  /\ m_pad true (Some [97]) (Some 4) (Some [120;121]) = RStr [120;121;120;97]
  /\ m_pad true (Some [97]) (Some (-1)) (Some [120]) = RErr.
Proof. repeat split; reflexivity. Qed.
Example ex_split : k_split_part (Some [97;44;98]) (Some [44]) (Some 2) = 0 /\ m_split_part (Some [97;44;98]) (Some [44]) (Some 2) = RStr [98].
Proof. split; reflexivity. Qed.
Example ex_codecs : enc_b64 [104;105] = [97;71;107;61] /\ enc_b32 [104;105] = [78;66;85;81;61;61;61;61]
  /\ urlenc_std [97;32;233] = [97;43;37;69;57] /\ signed_digits 36 (-1295) = [45;122;122] /\ radix_ok 36 = true.
Proof. repeat split; reflexivity. Qed.
Example ex_bits : m_bitwise_xor (Some 12) (Some (-10)) = RInt (-6) /\ k_shift (Some 1) (Some 63) = 0
  /\ m_shift 0 (Some 1) (Some 63) = RInt (- two63) /\ m_shift 2 (Some (-8)) (Some 64) = RInt (-1) /\ k_bit_count (Some (-1)) (Some 64) = 0 /\ m_bit_count (Some (-1)) (Some 64) = RInt 64.
Proof. repeat split; reflexivity. Qed.
Example ex_dates : civil_from_days 19782 = (2024, 2, 29) /\ valid_ymd 2024 2 29 = true /\ add_months 19753 1 = 19782
  /\ k_date_diff (Some 2) (Some 19753) (Some 19813) = 0 /\ d_week 18630 = 53.
Proof. repeat split; reflexivity. Qed.
