(* C40 proofs (writer after fixes efda2f4 / 8d4c59c): the CSV writer round-trips through the
   RFC 4180 parser for EVERY well-formed table; the JSON string escaper round-trips through the
   RFC 8259 string lexer for EVERY byte string; the JSON document parses to the expected objects
   for every well-formed, typed table.  The writer as it was before the fixes is kept
   (`*_before_fix`) with the minimal witnesses of its failures as regression theorems. *)
From QV Require Import Base.Util C40.Model.
Local Open Scope Z_scope.

(* ------------------------------------------------------------------ *)
(* generalities                                                        *)
(* ------------------------------------------------------------------ *)
Definition c_pushl (v : list Z) (r : option cres) : option cres :=
  match r with Some (f, fs, rs) => Some (v ++ f, fs, rs) | None => None end.

Lemma c_pushl_cons b v r : c_pushl (b :: v) r = c_push b (c_pushl v r).
Proof. destruct r as [[[f fs] rs]|]; reflexivity. Qed.

Definition text_byte (b : Z) : bool := negb ((b =? 44) || (b =? 34) || (b =? 10) || (b =? 13)).

Lemma has_cons x b v : has x (b :: v) = (b =? x) || has x v.
Proof. unfold has. cbn [existsb]. now rewrite (Z.eqb_sym x b). Qed.

Lemma csv_plain_cons b v : csv_plain (b :: v) = text_byte b && csv_plain v.
Proof.
  unfold csv_plain, text_byte. rewrite !has_cons.
  destruct (b =? 44), (b =? 34), (b =? 10), (b =? 13), (has 44 v), (has 34 v), (has 10 v), (has 13 v); reflexivity.
Qed.

Lemma go_UQ_text b r : text_byte b = true -> csv_go UQ (b :: r) = c_push b (csv_go UQ r).
Proof.
  unfold text_byte. intros H. cbn [csv_go].
  destruct (b =? 44), (b =? 34), (b =? 10), (b =? 13); cbn in H; try discriminate; reflexivity.
Qed.

Lemma go_FS_text b r : text_byte b = true -> csv_go FS (b :: r) = c_push b (csv_go UQ r).
Proof.
  unfold text_byte. intros H. cbn [csv_go].
  destruct (b =? 44), (b =? 34), (b =? 10), (b =? 13); cbn in H; try discriminate; reflexivity.
Qed.

Lemma go_UQ_plain v rest : csv_plain v = true -> csv_go UQ (v ++ rest) = c_pushl v (csv_go UQ rest).
Proof.
  induction v as [|b v IH]; intros H.
  - cbn [app]. destruct (csv_go UQ rest) as [[[f fs] rs]|]; reflexivity.
  - rewrite csv_plain_cons in H. apply andb_true_iff in H as [Hb Hv].
    cbn [app]. rewrite go_UQ_text by exact Hb. rewrite IH by exact Hv. now rewrite c_pushl_cons.
Qed.

(* what follows a complete field: a comma continues the record, a line feed ends it *)
Definition c_after (d : Z) (rest : list Z) : option cres :=
  if d =? 44 then c_endfield (csv_go FS rest) else c_endrec (csv_records rest).

Lemma go_delim s d rest : s = FS \/ s = UQ \/ s = QQ -> d = 44 \/ d = 10 ->
  csv_go s (d :: rest) = c_after d rest.
Proof. intros [->|[->| ->]] [->| ->]; reflexivity. Qed.

Lemma go_FS_plain v d rest : csv_plain v = true -> d = 44 \/ d = 10 ->
  csv_go FS (v ++ d :: rest) = c_pushl v (c_after d rest).
Proof.
  intros H Hd. destruct v as [|b v].
  - cbn [app]. rewrite go_delim by auto. destruct (c_after d rest) as [[[f fs] rs]|]; reflexivity.
  - rewrite csv_plain_cons in H. apply andb_true_iff in H as [Hb Hv].
    cbn [app]. rewrite go_FS_text by exact Hb. rewrite go_UQ_plain by exact Hv.
    rewrite go_delim by auto. now rewrite c_pushl_cons.
Qed.

Lemma go_QD_dq v rest : csv_go QD (csv_dq v ++ 34 :: rest) = c_pushl v (csv_go QQ rest).
Proof.
  induction v as [|b v IH].
  - cbn. destruct (csv_go QQ rest) as [[[f fs] rs]|]; reflexivity.
  - unfold csv_dq in *. cbn [flat_map]. rewrite c_pushl_cons, <- IH.
    destruct (b =? 34) eqn:E.
    + apply Z.eqb_eq in E. subst b. reflexivity.
    + cbn [app csv_go]. now rewrite E.
Qed.

(* ------------------------------------------------------------------ *)
(* one field, one record, the document                                 *)
(* ------------------------------------------------------------------ *)
(* the encoded field e, followed by a delimiter, reads back as the text sh *)
Definition field_good (e sh : list Z) : Prop :=
  forall d rest, d = 44 \/ d = 10 -> csv_go FS (e ++ d :: rest) = c_pushl sh (c_after d rest).

Lemma plain_field_good v : csv_plain v = true -> field_good v v.
Proof. intros H d rest Hd. now apply go_FS_plain. Qed.

Lemma plain_not_quoted v : csv_needs_quote v = false -> csv_plain v = true.
Proof. unfold csv_plain, csv_needs_quote. now intros ->. Qed.

(* the quoting rule is right for every text: no hypothesis *)
Lemma quote_field_good v : field_good (csv_quote v) v.
Proof.
  unfold csv_quote. destruct (csv_needs_quote v) eqn:Q.
  - intros d rest Hd. cbn [app]. rewrite <- app_assoc. cbn [app].
    change (csv_go FS (34 :: csv_dq v ++ 34 :: d :: rest)) with (csv_go QD (csv_dq v ++ 34 :: d :: rest)).
    rewrite go_QD_dq. now rewrite go_delim by auto.
  - apply plain_field_good. now apply plain_not_quoted.
Qed.

Lemma cell_field_good c : field_good (csv_field c) (csv_shown c).
Proof.
  destruct c as [|s|n|txt|b|txt]; cbn [csv_field csv_shown]; try apply quote_field_good.
  now apply plain_field_good.
Qed.

Lemma fields_parse (es : list (list Z * list Z)) :
  es <> [] -> Forall (fun p => field_good (fst p) (snd p)) es ->
  forall rest,
  csv_go FS (join [44] (map fst es) ++ 10 :: rest)
  = match csv_records rest with
    | Some rs => Some (hd [] (map snd es), tl (map snd es), rs)
    | None => None
    end.
Proof.
  induction es as [|[e sh] es IH]; intros Hne HF rest; [congruence|].
  inversion HF as [|? ? Hg HF']; subst. cbn [fst snd] in Hg.
  destruct es as [|[e2 sh2] es].
  - cbn [map join fst snd hd tl]. rewrite Hg by auto.
    unfold c_after. cbn. destruct (csv_records rest) as [rs|]; cbn; [now rewrite app_nil_r|reflexivity].
  - change (join [44] (map fst ((e, sh) :: (e2, sh2) :: es)))
      with (e ++ [44] ++ join [44] (map fst ((e2, sh2) :: es))).
    rewrite <- !app_assoc. cbn [app]. rewrite Hg by auto.
    unfold c_after. cbn [Z.eqb Pos.eqb]. rewrite IH by (auto; congruence).
    destruct (csv_records rest) as [rs|]; cbn; [now rewrite app_nil_r|reflexivity].
Qed.

Lemma records_line (es : list (list Z * list Z)) :
  es <> [] -> Forall (fun p => field_good (fst p) (snd p)) es ->
  forall rest,
  csv_records ((join [44] (map fst es) ++ [10]) ++ rest)
  = match csv_records rest with Some rs => Some (map snd es :: rs) | None => None end.
Proof.
  intros Hne HF rest. rewrite <- app_assoc. cbn [app].
  assert (E : forall x, csv_records (x ++ 10 :: rest) = c_fin (csv_go FS (x ++ 10 :: rest))).
  { intros [|b x]; reflexivity. }
  rewrite E, fields_parse by assumption.
  destruct (csv_records rest) as [rs|]; [|reflexivity]. cbn [c_fin].
  destruct es as [|p es]; [congruence|]. reflexivity.
Qed.

Lemma row_record r rest :
  r <> [] ->
  csv_records (csv_line r ++ rest)
  = match csv_records rest with Some rs => Some (map csv_shown r :: rs) | None => None end.
Proof.
  intros Hne. unfold csv_line.
  pose (es := map (fun c => (csv_field c, csv_shown c)) r).
  assert (E1 : map csv_field r = map fst es) by (unfold es; rewrite map_map; reflexivity).
  assert (E2 : map csv_shown r = map snd es) by (unfold es; rewrite map_map; reflexivity).
  rewrite E1, E2. apply records_line.
  - unfold es. destruct r; [congruence|discriminate].
  - unfold es. apply Forall_forall. intros p Hp. apply in_map_iff in Hp as [c [<- Hc]].
    cbn [fst snd]. apply cell_field_good.
Qed.

Lemma header_record cols rest :
  cols <> [] ->
  csv_records (csv_header cols ++ rest)
  = match csv_records rest with Some rs => Some (cols :: rs) | None => None end.
Proof.
  intros Hne. unfold csv_header.
  pose (es := map (fun h : list Z => (csv_quote h, h)) cols).
  assert (E1 : map fst es = map csv_quote cols) by (unfold es; rewrite map_map; reflexivity).
  assert (E2 : map snd es = cols) by (unfold es; rewrite map_map; cbn; now rewrite map_id).
  assert (G : csv_records ((join [44] (map fst es) ++ [10]) ++ rest)
            = match csv_records rest with Some rs => Some (map snd es :: rs) | None => None end).
  { apply records_line.
    - unfold es. destruct cols; [congruence|discriminate].
    - unfold es. apply Forall_forall. intros p Hp. apply in_map_iff in Hp as [h [<- Hh]].
      cbn [fst snd]. apply quote_field_good. }
  now rewrite E1, E2 in G.
Qed.

Lemma rows_records rows :
  Forall (fun r => r <> []) rows ->
  csv_records (flat_map csv_line rows) = Some (map (map csv_shown) rows).
Proof.
  induction rows as [|r rows IH]; intros Hne; [reflexivity|].
  inversion Hne; subst. cbn [flat_map map]. rewrite row_record by assumption. now rewrite IH.
Qed.

Lemma wf_rows_nonempty t : table_wf t = true -> t_cols t <> [] /\ Forall (fun r => r <> []) (t_rows t).
Proof.
  unfold table_wf. intros H. apply andb_true_iff in H as [Hc Hr].
  assert (Hne : t_cols t <> []) by (destruct (t_cols t); [discriminate|congruence]).
  split; [exact Hne|]. apply Forall_forall. intros r Hin. rewrite forallb_forall in Hr.
  specialize (Hr r Hin). apply Nat.eqb_eq in Hr. intros ->. cbn in Hr.
  destruct (t_cols t); [congruence|discriminate].
Qed.

(* THE CSV THEOREM: every table with at least one column *)
Theorem csv_roundtrip t : table_wf t = true -> csv_parse (csv_doc t) = Some (csv_displayed t).
Proof.
  intros Hwf. destruct (wf_rows_nonempty t Hwf) as [Hc Hr].
  unfold csv_parse, csv_doc, csv_displayed.
  rewrite header_record by assumption. now rewrite rows_records by assumption.
Qed.

(* a cell of any type, given by ANY display text (commas, quotes, CR, LF included), reads back as
   exactly that text *)
Corollary csv_other_roundtrip h txt :
  csv_parse (csv_doc (mkTable [h] [[COther txt]])) = Some [[h]; [txt]].
Proof. apply (csv_roundtrip (mkTable [h] [[COther txt]])). reflexivity. Qed.

(* why the quoting scan must also run for non-string columns: the list cell [1, 2] written bare
   reads back as the two fields "[1" and " 2]" *)
Lemma other_unquoted_refuted :
  cell_text (COther [91; 49; 44; 32; 50; 93]) = [91; 49; 44; 32; 50; 93] /\
  csv_parse ([104; 10] ++ [91; 49; 44; 32; 50; 93] ++ [10]) = Some [[[104]]; [[91; 49]; [32; 50; 93]]] /\
  csv_doc (mkTable [[104]] [[COther [91; 49; 44; 32; 50; 93]]]) = [104; 10; 34; 91; 49; 44; 32; 50; 93; 34; 10].
Proof. vm_compute. repeat split. Qed.

(* the executable spec accepts the model's output under the same guard *)
Lemma bytes_eqb_refl a : bytes_eqb a a = true.
Proof. apply (list_eqb_spec Z.eqb); [intros; apply Z.eqb_eq|reflexivity]. Qed.
Lemma rec_eqb_refl a : rec_eqb a a = true.
Proof.
  apply (list_eqb_spec bytes_eqb); [|reflexivity].
  intros x y. apply (list_eqb_spec Z.eqb). intros; apply Z.eqb_eq.
Qed.
Lemma recs_eqb_refl a : recs_eqb a a = true.
Proof.
  apply (list_eqb_spec rec_eqb); [|reflexivity].
  intros x y. apply (list_eqb_spec bytes_eqb). intros x' y'. apply (list_eqb_spec Z.eqb). intros; apply Z.eqb_eq.
Qed.

Theorem csv_model_meets_spec t : table_wf t = true -> csv_spec_ok t (csv_doc t) = true.
Proof. intros H. unfold csv_spec_ok. rewrite csv_roundtrip by exact H. apply recs_eqb_refl. Qed.

(* integers never need the guard: i64::to_string prints only an optional minus and digits *)
Lemma dec_digits_plain fuel : forall n acc, 0 <= n ->
  Forall (fun b => b = 45 \/ 48 <= b <= 57) acc ->
  Forall (fun b => b = 45 \/ 48 <= b <= 57) (dec_digits fuel n acc).
Proof.
  induction fuel as [|f IH]; intros n acc Hn Ha; cbn [dec_digits]; [exact Ha|].
  assert (Hd : Forall (fun b => b = 45 \/ 48 <= b <= 57) ((48 + n mod 10) :: acc)).
  { constructor; [|exact Ha]. right. pose proof (Z.mod_pos_bound n 10). lia. }
  destruct (n <? 10); [exact Hd|]. apply IH; [|exact Hd]. apply Z.div_pos; lia.
Qed.

Lemma int_dec_chars n : Forall (fun b => b = 45 \/ 48 <= b <= 57) (int_dec n).
Proof.
  unfold int_dec. destruct (n <? 0) eqn:E.
  - apply Z.ltb_lt in E. constructor; [now left|]. apply dec_digits_plain; [lia|constructor].
  - apply Z.ltb_ge in E. apply dec_digits_plain; [lia|constructor].
Qed.

(* numbers are printed bare *)
Lemma int_never_quoted n : csv_field (CInt n) = int_dec n.
Proof.
  cbn [csv_field cell_text]. unfold csv_quote.
  assert (H : csv_needs_quote (int_dec n) = false).
  { unfold csv_needs_quote. pose proof (int_dec_chars n) as HF.
    induction HF as [|b l Hb HF IH]; [reflexivity|]. rewrite !has_cons.
    assert (E1 : (b =? 44) = false) by (apply Z.eqb_neq; lia).
    assert (E2 : (b =? 34) = false) by (apply Z.eqb_neq; lia).
    assert (E3 : (b =? 10) = false) by (apply Z.eqb_neq; lia).
    assert (E4 : (b =? 13) = false) by (apply Z.eqb_neq; lia).
    rewrite E1, E2, E3, E4. exact IH. }
  now rewrite H.
Qed.

(* ------------------------------------------------------------------ *)
(* regression: the writer before fix efda2f4 fails, the repaired one does not, on the minimal
   witnesses                                                           *)
(* ------------------------------------------------------------------ *)
(* a cell that is just CR: was written unquoted, CR LF read as the line break, the cell was lost *)
Definition cr_witness : table := mkTable [[104]] [[CStr [13]]].
Lemma cr_unquoted_regression :
  csv_doc_before_fix cr_witness = [104; 10; 13; 10] /\
  csv_parse (csv_doc_before_fix cr_witness) = Some [[[104]]; [[]]] /\
  csv_parse (csv_doc_before_fix cr_witness) <> Some (csv_displayed cr_witness) /\
  csv_doc cr_witness = [104; 10; 34; 13; 34; 10] /\
  csv_parse (csv_doc cr_witness) = Some (csv_displayed cr_witness).
Proof. vm_compute. repeat split; discriminate. Qed.

(* a CR in the middle of a cell: the document was not RFC 4180 at all *)
Definition cr_mid_witness : table := mkTable [[104]] [[CStr [97; 13; 98]]].
Lemma cr_mid_regression :
  csv_parse (csv_doc_before_fix cr_mid_witness) = None /\
  csv_parse (csv_doc cr_mid_witness) = Some (csv_displayed cr_mid_witness).
Proof. vm_compute. split; reflexivity. Qed.

(* a column name with a comma: one column read back as two *)
Definition header_witness : table := mkTable [[97; 44; 98]] [].
Lemma header_unquoted_regression :
  csv_parse (csv_doc_before_fix header_witness) = Some [[[97]; [98]]] /\
  csv_parse (csv_doc_before_fix header_witness) <> Some (csv_displayed header_witness) /\
  csv_parse (csv_doc header_witness) = Some (csv_displayed header_witness).
Proof. vm_compute. repeat split; discriminate. Qed.

(* a column name with a quote: was not RFC 4180 *)
Definition header_quote_witness : table := mkTable [[97; 34]] [].
Lemma header_quote_regression :
  csv_parse (csv_doc_before_fix header_quote_witness) = None /\
  csv_parse (csv_doc header_quote_witness) = Some (csv_displayed header_quote_witness).
Proof. vm_compute. split; reflexivity. Qed.

(* ------------------------------------------------------------------ *)
(* JSON strings                                                        *)
(* ------------------------------------------------------------------ *)
Definition nonneg (s : list Z) : bool := forallb (fun b => 0 <=? b) s.

Lemma bytes_ok_nonneg s : bytes_ok s = true -> nonneg s = true.
Proof.
  unfold bytes_ok, nonneg. induction s as [|b s IH]; cbn [forallb]; [reflexivity|].
  intros H. apply andb_true_iff in H as [Hb Hs]. apply andb_true_iff in Hb as [Hb _]. now rewrite Hb, IH.
Qed.

(* one escaped byte reads back as that byte: every arm of the match in json_escape *)
Lemma lex_esc_byte b l : 0 <= b ->
  json_lex_string (json_esc_byte b ++ l) = j_push [b] (json_lex_string l).
Proof.
  intros Hb. destruct (b <? 32) eqn:Hlt.
  - apply Z.ltb_lt in Hlt.
    assert (Hk : exists k : nat, b = Z.of_nat k /\ (k < 32)%nat) by (exists (Z.to_nat b); lia).
    destruct Hk as [k [-> Hk]].
    do 32 (destruct k as [|k]; [reflexivity|]). lia.
  - apply Z.ltb_ge in Hlt. unfold json_esc_byte.
    destruct (b =? 34) eqn:E34; [apply Z.eqb_eq in E34; subst b; reflexivity|].
    destruct (b =? 92) eqn:E92; [apply Z.eqb_eq in E92; subst b; reflexivity|].
    assert (N : (b =? 10) = false /\ (b =? 13) = false /\ (b =? 9) = false /\ (b =? 8) = false /\ (b =? 12) = false).
    { repeat split; apply Z.eqb_neq; lia. }
    destruct N as [N1 [N2 [N3 [N4 N5]]]]. rewrite N1, N2, N3, N4, N5.
    assert (Hl : (b <? 32) = false) by (apply Z.ltb_ge; lia). rewrite Hl.
    cbn [app json_lex_string]. now rewrite E34, E92, Hl.
Qed.

Lemma lex_escape s rest : nonneg s = true ->
  json_lex_string (json_escape s ++ 34 :: rest) = Some (s, rest).
Proof.
  induction s as [|b s IH]; intros H; [reflexivity|].
  cbn [nonneg forallb] in H. apply andb_true_iff in H as [Hb Hs]. apply Z.leb_le in Hb.
  unfold json_escape in *. cbn [flat_map]. rewrite <- app_assoc, lex_esc_byte by exact Hb.
  now rewrite (IH Hs).
Qed.

(* THE JSON STRING THEOREM: every byte string *)
Theorem json_roundtrip s : nonneg s = true -> json_unescape (json_string s) = Some s.
Proof.
  intros H. unfold json_unescape, json_string. cbn [Z.eqb Pos.eqb]. now rewrite lex_escape.
Qed.

(* regression: the escaper before fix 8d4c59c produced invalid JSON for EVERY string with a
   control character *)
Lemma json_escape_before_fix_cons b s :
  json_escape_before_fix (b :: s)
  = (if b =? 92 then [92; 92] else if b =? 34 then [92; 34] else [b]) ++ json_escape_before_fix s.
Proof.
  unfold json_escape_before_fix, replace1. cbn [flat_map]. rewrite flat_map_app.
  destruct (b =? 92) eqn:E; [reflexivity|]. cbn [flat_map]. now rewrite app_nil_r.
Qed.

Lemma lex_control_before_fix s rest : existsb (fun b => b <? 32) s = true ->
  json_lex_string (json_escape_before_fix s ++ rest) = None.
Proof.
  induction s as [|b s IH]; intros H; [discriminate|].
  cbn [existsb] in H. rewrite json_escape_before_fix_cons.
  destruct (b <? 32) eqn:Hlt.
  - apply Z.ltb_lt in Hlt.
    assert (E92 : (b =? 92) = false) by (apply Z.eqb_neq; lia).
    assert (E34 : (b =? 34) = false) by (apply Z.eqb_neq; lia).
    rewrite E92, E34. cbn [app json_lex_string]. rewrite E34, E92.
    assert (Hl : (b <? 32) = true) by (apply Z.ltb_lt; lia). now rewrite Hl.
  - cbn [orb] in H. specialize (IH H).
    destruct (b =? 92) eqn:E92; [|destruct (b =? 34) eqn:E34].
    + apply Z.eqb_eq in E92. subst b. cbn [app]. cbn [json_lex_string]. cbn [Z.eqb Pos.eqb]. now rewrite IH.
    + apply Z.eqb_eq in E34. subst b. cbn [app]. cbn [json_lex_string]. cbn [Z.eqb Pos.eqb]. now rewrite IH.
    + cbn [app]. cbn [json_lex_string]. rewrite E34, E92, Hlt, IH. reflexivity.
Qed.

Theorem json_control_regression s :
  existsb (fun b => b <? 32) s = true -> json_unescape (json_string_before_fix s) = None.
Proof.
  intros H. unfold json_unescape, json_string_before_fix. cbn [Z.eqb Pos.eqb]. now rewrite lex_control_before_fix.
Qed.

(* minimal witnesses *)
Lemma control_char_regression :
  json_string_before_fix [10] = [34; 10; 34] /\ json_unescape (json_string_before_fix [10]) = None /\
  json_string [10] = [34; 92; 110; 34] /\ json_unescape (json_string [10]) = Some [10] /\
  json_string [1] = [34; 92; 117; 48; 48; 48; 49; 34] /\ json_string [31] = [34; 92; 117; 48; 48; 49; 102; 34].
Proof. vm_compute. repeat split. Qed.

Definition json_control_witness : table := mkTable [[104]] [[CStr [9]]].
Lemma json_doc_control_regression :
  json_parse_doc (json_doc_before_fix json_control_witness) = None /\
  json_parse_doc (json_doc json_control_witness) = Some (json_expected json_control_witness).
Proof. vm_compute. split; reflexivity. Qed.

Definition json_header_witness : table := mkTable [[97; 34]] [[CInt 1]].
Lemma json_header_regression :
  json_parse_doc (json_doc_before_fix json_header_witness) = None /\
  json_parse_doc (json_doc json_header_witness) = Some (json_expected json_header_witness).
Proof. vm_compute. split; reflexivity. Qed.

(* a backslash in a name silently changed the name: a\n read back as a, LF *)
Definition json_header_bs_witness : table := mkTable [[97; 92; 110]] [[CInt 1]].
Lemma json_header_backslash_regression :
  json_parse_doc (json_doc_before_fix json_header_bs_witness) = Some [[([97; 10], JNum [49])]] /\
  json_parse_doc (json_doc json_header_bs_witness) = Some [[([97; 92; 110], JNum [49])]].
Proof. vm_compute. split; reflexivity. Qed.

Definition json_nan_witness : table := mkTable [[104]] [[CFloat [78; 97; 78]]].
Lemma json_nonfinite_regression :
  json_doc_before_fix json_nan_witness = [91; 10; 32; 32; 123; 34; 104; 34; 58; 32; 78; 97; 78; 125; 10; 93; 10] /\
  json_parse_doc (json_doc_before_fix json_nan_witness) = None /\
  json_parse_doc (json_doc json_nan_witness) = Some [[([104], JNull)]].
Proof. vm_compute. repeat split. Qed.

(* satisfiable hypotheses: a non-trivial table *)
Definition ex_table : table :=
  mkTable [[105; 100]; [110; 44; 34; 13]]
          [[CInt (-7); CStr [97; 44; 34; 98; 10; 99]]; [CNull; CStr [195; 169; 32; 13]]; [CInt 0; CStr [13; 10; 9; 0; 31]];
           [CInt 1; CFloat [45; 105; 110; 102]]; [CInt 2; CFloat [49; 46; 53]];
           [CInt 3; COther [91; 49; 44; 32; 50; 93]]; [CInt 4; COther [123; 98; 58; 32; 34; 44; 13; 10; 125]]; [CInt 5; CBool true]].
Example ex_guards : table_wf ex_table = true /\ table_typed ex_table = true /\
  csv_spec_ok ex_table (csv_doc ex_table) = true /\ json_spec_ok ex_table (json_doc ex_table) = true.
Proof. vm_compute. repeat split. Qed.

(* ------------------------------------------------------------------ *)
(* JSON numbers                                                        *)
(* ------------------------------------------------------------------ *)
Lemma span_app l d m : is_digit d = false ->
  span_digits (l ++ d :: m) = (fst (span_digits l), snd (span_digits l) ++ d :: m).
Proof.
  intros Hd. induction l as [|b l IH]; cbn [app span_digits].
  - now rewrite Hd.
  - destruct (is_digit b); [|reflexivity]. rewrite IH. destruct (span_digits l) as [ds r]. reflexivity.
Qed.

Lemma span_split l : l = fst (span_digits l) ++ snd (span_digits l).
Proof.
  induction l as [|b l IH]; cbn [span_digits]; [reflexivity|].
  destruct (is_digit b); [|reflexivity]. destruct (span_digits l) as [ds r]. cbn [fst snd app] in *. now rewrite <- IH.
Qed.

Lemma span_all l : forallb is_digit l = true -> span_digits l = (l, []).
Proof.
  induction l as [|b l IH]; cbn [forallb span_digits]; intros H; [reflexivity|].
  apply andb_true_iff in H as [Hb Hl]. now rewrite Hb, IH.
Qed.

Lemma stop_not_digit d : d = 44 \/ d = 125 -> is_digit d = false.
Proof. intros [->| ->]; reflexivity. Qed.

Lemma lex_sign_ext l d m : d = 44 \/ d = 125 ->
  lex_sign (l ++ d :: m) = (fst (lex_sign l), snd (lex_sign l) ++ d :: m).
Proof.
  intros Hd. destruct l as [|b l]; cbn [app lex_sign].
  - destruct Hd as [->| ->]; reflexivity.
  - destruct (b =? 45); reflexivity.
Qed.

Lemma lex_frac_ext l d m t r : d = 44 \/ d = 125 ->
  lex_frac l = Some (t, r) -> lex_frac (l ++ d :: m) = Some (t, r ++ d :: m).
Proof.
  intros Hd. destruct l as [|p l]; cbn [app lex_frac].
  - intros H. inversion H; subst. destruct Hd as [->| ->]; reflexivity.
  - destruct (p =? 46).
    + rewrite span_app by (now apply stop_not_digit). destruct (span_digits l) as [fd l3]. cbn [fst snd].
      destruct (nilb fd); [discriminate|]. intros H. inversion H; subst. reflexivity.
    + intros H. inversion H; subst. reflexivity.
Qed.

Lemma lex_exp_ext l d m t r : d = 44 \/ d = 125 ->
  lex_exp l = Some (t, r) -> lex_exp (l ++ d :: m) = Some (t, r ++ d :: m).
Proof.
  intros Hd. pose proof (stop_not_digit d Hd) as Hnd.
  destruct l as [|e l]; cbn [app lex_exp].
  - intros H. inversion H; subst. destruct Hd as [->| ->]; reflexivity.
  - destruct ((e =? 101) || (e =? 69)).
    + destruct l as [|s l]; cbn [app].
      * cbn. discriminate.
      * destruct ((s =? 43) || (s =? 45)).
        -- rewrite span_app by exact Hnd. destruct (span_digits l) as [ed l4]. cbn [fst snd].
           destruct (nilb ed); [discriminate|]. intros H. inversion H; subst. reflexivity.
        -- change (s :: l ++ d :: m) with ((s :: l) ++ d :: m).
           rewrite span_app by exact Hnd. destruct (span_digits (s :: l)) as [ed l4]. cbn [fst snd].
           destruct (nilb ed); [discriminate|]. intros H. inversion H; subst. reflexivity.
    + intros H. inversion H; subst. reflexivity.
Qed.

Lemma lex_number_ext x d m tok r : d = 44 \/ d = 125 ->
  json_lex_number x = Some (tok, r) -> json_lex_number (x ++ d :: m) = Some (tok, r ++ d :: m).
Proof.
  intros Hd. unfold json_lex_number. rewrite lex_sign_ext by exact Hd.
  destruct (lex_sign x) as [sg l1]. cbn [fst snd].
  rewrite span_app by (now apply stop_not_digit). destruct (span_digits l1) as [ip l2]. cbn [fst snd].
  destruct (int_part_ok ip); [|discriminate].
  destruct (lex_frac l2) as [[ft l3]|] eqn:F; [|discriminate]. rewrite (lex_frac_ext _ _ m _ _ Hd F).
  destruct (lex_exp l3) as [[et l4]|] eqn:E; [|discriminate]. rewrite (lex_exp_ext _ _ m _ _ Hd E).
  intros H. inversion H; subst. reflexivity.
Qed.

Lemma lex_frac_split l t r : lex_frac l = Some (t, r) -> l = t ++ r.
Proof.
  destruct l as [|p l]; cbn [lex_frac].
  - intros H. inversion H. reflexivity.
  - destruct (p =? 46) eqn:E.
    + pose proof (span_split l) as S. destruct (span_digits l) as [fd l3]. cbn [fst snd] in S.
      destruct (nilb fd); [discriminate|]. intros H. injection H as <- <-. apply Z.eqb_eq in E. rewrite E.
      cbn [app]. now rewrite <- S.
    + intros H. inversion H. reflexivity.
Qed.

Lemma lex_exp_split l t r : lex_exp l = Some (t, r) -> l = t ++ r.
Proof.
  destruct l as [|e l]; cbn [lex_exp].
  - intros H. inversion H. reflexivity.
  - destruct ((e =? 101) || (e =? 69)).
    + destruct l as [|s l].
      * cbn. discriminate.
      * destruct ((s =? 43) || (s =? 45)).
        -- pose proof (span_split l) as S. destruct (span_digits l) as [ed l4]. cbn [fst snd] in S.
           destruct (nilb ed); [discriminate|]. intros H. injection H as <- <-. cbn [app]. now rewrite <- S.
        -- pose proof (span_split (s :: l)) as S. destruct (span_digits (s :: l)) as [ed l4]. cbn [fst snd] in S.
           destruct (nilb ed); [discriminate|]. intros H. injection H as <- <-. cbn [app]. now rewrite <- S.
    + intros H. inversion H. reflexivity.
Qed.

Lemma lex_number_split x tok r : json_lex_number x = Some (tok, r) -> x = tok ++ r.
Proof.
  unfold json_lex_number.
  assert (S1 : x = fst (lex_sign x) ++ snd (lex_sign x)).
  { destruct x as [|b x]; cbn [lex_sign]; [reflexivity|]. destruct (b =? 45) eqn:E; [|reflexivity].
    apply Z.eqb_eq in E. now subst b. }
  destruct (lex_sign x) as [sg l1]. cbn [fst snd] in S1.
  pose proof (span_split l1) as S2. destruct (span_digits l1) as [ip l2]. cbn [fst snd] in S2.
  destruct (int_part_ok ip); [|discriminate].
  destruct (lex_frac l2) as [[ft l3]|] eqn:F; [|discriminate]. apply lex_frac_split in F.
  destruct (lex_exp l3) as [[et l4]|] eqn:E; [|discriminate]. apply lex_exp_split in E.
  intros H. injection H as <- <-. rewrite <- !app_assoc, <- E, <- F, <- S2. exact S1.
Qed.

Lemma number_head x tok r : json_lex_number x = Some (tok, r) ->
  exists b t, x = b :: t /\ (b = 45 \/ is_digit b = true).
Proof.
  unfold json_lex_number. destruct x as [|b t].
  - cbn. discriminate.
  - intros H. exists b, t. split; [reflexivity|]. cbn [lex_sign] in H.
    destruct (b =? 45) eqn:E; [left; now apply Z.eqb_eq|]. right.
    cbn [span_digits] in H. destruct (is_digit b); [reflexivity|]. cbn in H. discriminate.
Qed.

(* i64::to_string always prints a JSON number *)
Lemma dec_digits_shape fuel : forall n acc, 1 <= n < 10 ^ Z.of_nat fuel ->
  exists b ds, dec_digits fuel n acc = b :: ds ++ acc /\ 49 <= b <= 57 /\ forallb is_digit ds = true.
Proof.
  induction fuel as [|f IH]; intros n acc Hn.
  - cbn in Hn. lia.
  - rewrite Nat2Z.inj_succ, Z.pow_succ_r in Hn by lia. cbn [dec_digits].
    destruct (n <? 10) eqn:E.
    + apply Z.ltb_lt in E. exists (48 + n mod 10), []. rewrite Z.mod_small by lia. repeat split; lia.
    + apply Z.ltb_ge in E.
      destruct (IH (n / 10) ((48 + n mod 10) :: acc)) as [b [ds [E1 [Hb Hds]]]].
      { split; [apply Z.div_le_lower_bound; lia|apply Z.div_lt_upper_bound; lia]. }
      exists b, (ds ++ [48 + n mod 10]). rewrite E1, <- app_assoc. split; [reflexivity|]. split; [exact Hb|].
      assert (Hx : is_digit (48 + n mod 10) = true).
      { pose proof (Z.mod_pos_bound n 10). unfold is_digit. apply andb_true_iff. split; apply Z.leb_le; lia. }
      rewrite forallb_app, Hds. cbn [forallb]. now rewrite Hx.
Qed.

Lemma digits_number b ds : 49 <= b <= 57 -> forallb is_digit ds = true ->
  json_lex_number (b :: ds) = Some (b :: ds, []) /\ json_lex_number (45 :: b :: ds) = Some (45 :: b :: ds, []).
Proof.
  intros Hb Hds.
  assert (Hd : is_digit b = true).
  { unfold is_digit. apply andb_true_iff. split; apply Z.leb_le; lia. }
  assert (S : span_digits (b :: ds) = (b :: ds, [])) by (apply span_all; cbn [forallb]; now rewrite Hd).
  assert (E45 : (b =? 45) = false) by (apply Z.eqb_neq; lia).
  assert (E48 : (b =? 48) = false) by (apply Z.eqb_neq; lia).
  unfold json_lex_number. split.
  - cbn [lex_sign]. rewrite E45, S. cbn [int_part_ok]. rewrite E48. cbn. now rewrite !app_nil_r.
  - cbn [lex_sign]. cbn [Z.eqb Pos.eqb]. rewrite S. cbn [int_part_ok]. rewrite E48. cbn. now rewrite !app_nil_r.
Qed.

Lemma int_dec_number_ok n :
  (-9223372036854775808 <=? n) && (n <=? 9223372036854775807) = true -> json_number_ok (int_dec n) = true.
Proof.
  intros H. apply andb_true_iff in H as [H1 H2]. apply Z.leb_le in H1, H2.
  assert (P : 10 ^ Z.of_nat 20 = 100000000000000000000) by (vm_compute; reflexivity).
  unfold json_number_ok, int_dec. destruct (n <? 0) eqn:E.
  - apply Z.ltb_lt in E. destruct (dec_digits_shape 20 (- n) []) as [b [ds [E1 [Hb Hds]]]]; [rewrite P; lia|].
    rewrite E1, app_nil_r. destruct (digits_number b ds Hb Hds) as [_ ->]. reflexivity.
  - apply Z.ltb_ge in E. destruct (Z.eq_dec n 0) as [->|Hn]; [reflexivity|].
    destruct (dec_digits_shape 20 n []) as [b [ds [E1 [Hb Hds]]]]; [rewrite P; lia|].
    rewrite E1, app_nil_r. destruct (digits_number b ds Hb Hds) as [-> _]. reflexivity.
Qed.

(* ------------------------------------------------------------------ *)
(* JSON documents                                                      *)
(* ------------------------------------------------------------------ *)
Definition value_ok (c : cell) : bool :=
  match c with
  | CNull => true
  | CStr s => nonneg s
  | CInt n => json_number_ok (int_dec n)
  | CFloat txt => float_nonfinite txt || json_number_ok txt
  | CBool _ => true
  | COther txt => nonneg txt
  end.

Lemma number_value txt d rest : json_number_ok txt = true -> d = 44 \/ d = 125 ->
  j_value (txt ++ d :: rest) = Some (JNum txt, d :: rest) /\ skip_ws (txt ++ d :: rest) = txt ++ d :: rest.
Proof.
  unfold json_number_ok. destruct (json_lex_number txt) as [[tok r]|] eqn:L; [|discriminate].
  destruct r; [|discriminate]. intros _ Hd.
  pose proof (lex_number_split _ _ _ L) as E. rewrite app_nil_r in E. subst tok.
  destruct (number_head _ _ _ L) as [b [t [Ex Hb]]].
  pose proof (lex_number_ext _ d rest _ _ Hd L) as X. cbn [app] in X.
  assert (N : (b =? 34) = false /\ (b =? 110) = false /\ (b =? 116) = false /\ (b =? 102) = false /\
              (b =? 32) = false /\ (b =? 9) = false /\ (b =? 10) = false /\ (b =? 13) = false).
  { destruct Hb as [->|Hb]; [repeat split; reflexivity|].
    unfold is_digit in Hb. apply andb_true_iff in Hb as [H1 H2]. apply Z.leb_le in H1, H2.
    repeat split; apply Z.eqb_neq; lia. }
  destruct N as [N1 [N2 [N3 [N4 [N5 [N6 [N7 N8]]]]]]].
  rewrite Ex in *. cbn [app] in *. split.
  - cbn [j_value]. rewrite N1, N2, N3, N4. now rewrite X.
  - cbn [skip_ws]. now rewrite N5, N6, N7, N8.
Qed.

Lemma value_parse c d rest : value_ok c = true -> d = 44 \/ d = 125 ->
  j_value (json_value c ++ d :: rest) = Some (jval_of c, d :: rest) /\
  skip_ws (json_value c ++ d :: rest) = json_value c ++ d :: rest.
Proof.
  destruct c as [|s|n|txt|b|txt]; cbn [value_ok json_value jval_of]; intros H Hd.
  - split; reflexivity.
  - unfold json_string. cbn [app]. rewrite <- app_assoc. cbn [app]. split; [|reflexivity].
    cbn [j_value]. cbn [Z.eqb Pos.eqb]. now rewrite lex_escape.
  - now apply number_value.
  - destruct (float_nonfinite txt); [split; reflexivity|]. cbn [orb] in H. now apply number_value.
  - destruct b; split; reflexivity.
  - unfold json_string. cbn [app]. rewrite <- app_assoc. cbn [app]. split; [|reflexivity].
    cbn [j_value]. cbn [Z.eqb Pos.eqb]. now rewrite lex_escape.
Qed.

Lemma sk32 l : skip_ws (32 :: l) = skip_ws l. Proof. reflexivity. Qed.
Lemma sk10 l : skip_ws (10 :: l) = skip_ws l. Proof. reflexivity. Qed.
Lemma sk58 l : skip_ws (58 :: l) = 58 :: l. Proof. reflexivity. Qed.
Lemma sk44 l : skip_ws (44 :: l) = 44 :: l. Proof. reflexivity. Qed.
Lemma sk125 l : skip_ws (125 :: l) = 125 :: l. Proof. reflexivity. Qed.
Lemma sk34 l : skip_ws (34 :: l) = 34 :: l. Proof. reflexivity. Qed.
Lemma sk123 l : skip_ws (123 :: l) = 123 :: l. Proof. reflexivity. Qed.
Lemma sk93 l : skip_ws (93 :: l) = 93 :: l. Proof. reflexivity. Qed.
Lemma sk91 l : skip_ws (91 :: l) = 91 :: l. Proof. reflexivity. Qed.

Definition member_ok (hc : list Z * cell) : bool := nonneg (fst hc) && value_ok (snd hc).
Definition jmember_of (hc : list Z * cell) : list Z * jval := (fst hc, jval_of (snd hc)).

Lemma member_step f h c d X : nonneg h = true -> value_ok c = true -> d = 44 \/ d = 125 ->
  j_members (S f) (json_member (h, c) ++ d :: X)
  = if d =? 44 then match j_members f (skip_ws X) with
                    | Some (ms, rest) => Some ((h, jval_of c) :: ms, rest)
                    | None => None
                    end
    else Some ([(h, jval_of c)], X).
Proof.
  intros Hh Hc Hd. unfold json_member. cbn [fst snd].
  replace ((34 :: json_escape h ++ [34; 58; 32] ++ json_value c) ++ d :: X)
    with (34 :: json_escape h ++ 34 :: 58 :: 32 :: (json_value c ++ d :: X))
    by (cbn [app]; rewrite <- !app_assoc; reflexivity).
  destruct (value_parse c d X Hc Hd) as [V W].
  cbn [j_members]. cbn [Z.eqb Pos.eqb]. rewrite (lex_escape h _ Hh).
  rewrite sk58. cbn [Z.eqb Pos.eqb]. rewrite sk32, W, V.
  destruct Hd as [->| ->]; rewrite ?sk44, ?sk125; reflexivity.
Qed.

Lemma join_head sep b x t : exists y, join sep ((b :: x) :: t) = b :: y.
Proof. destruct t; cbn [join app]; eauto. Qed.

Lemma members_start ms X : ms <> [] ->
  exists y, join [44; 32] (map json_member ms) ++ X = 34 :: y.
Proof.
  destruct ms as [|m ms]; [congruence|]. intros _. cbn [map]. unfold json_member at 1.
  destruct (join_head [44; 32] 34 (json_escape (fst m) ++ [34; 58; 32] ++ json_value (snd m)) (map json_member ms)) as [y Ey].
  rewrite Ey. cbn [app]. eauto.
Qed.

Lemma members_parse : forall ms fuel rest,
  ms <> [] -> forallb member_ok ms = true -> (length ms <= fuel)%nat ->
  j_members fuel (join [44; 32] (map json_member ms) ++ 125 :: rest) = Some (map jmember_of ms, rest).
Proof.
  induction ms as [|[h c] ms IH]; intros fuel rest Hne Hok Hf; [congruence|].
  destruct fuel as [|f]; [cbn in Hf; lia|]. cbn [length] in Hf.
  cbn [forallb] in Hok. apply andb_true_iff in Hok as [Hm Hok].
  unfold member_ok in Hm. cbn [fst snd] in Hm. apply andb_true_iff in Hm as [Hh Hc].
  destruct ms as [|m2 ms].
  - cbn [map join]. rewrite member_step by auto. reflexivity.
  - change (join [44; 32] (map json_member ((h, c) :: m2 :: ms)))
      with (json_member (h, c) ++ [44; 32] ++ join [44; 32] (map json_member (m2 :: ms))).
    rewrite <- !app_assoc. cbn [app]. rewrite member_step by auto. cbn [Z.eqb Pos.eqb].
    destruct (members_start (m2 :: ms) (125 :: rest)) as [y Ey]; [congruence|].
    rewrite sk32, Ey, sk34, <- Ey.
    rewrite IH; [reflexivity|congruence|exact Hok|cbn [length] in *; lia].
Qed.

Lemma object_parse ms fuel X : ms <> [] -> forallb member_ok ms = true -> (length ms <= fuel)%nat ->
  j_object fuel (123 :: join [44; 32] (map json_member ms) ++ 125 :: X) = Some (map jmember_of ms, X).
Proof.
  intros Hne Hok Hf. cbn [j_object]. cbn [Z.eqb Pos.eqb].
  destruct (members_start ms (125 :: X) Hne) as [y Ey]. rewrite Ey, sk34. cbn [Z.eqb Pos.eqb].
  rewrite <- Ey. now apply members_parse.
Qed.

Lemma join_length_ge sep xs : Forall (fun x : list Z => (1 <= length x)%nat) xs ->
  (length xs <= length (join sep xs))%nat.
Proof.
  induction xs as [|x xs IH]; intros H; [cbn; lia|]. inversion H as [|? ? Hx Hxs]; subst.
  destruct xs as [|y xs]; [cbn [join length]; lia|].
  change (join sep (x :: y :: xs)) with (x ++ sep ++ join sep (y :: xs)).
  rewrite !app_length. specialize (IH Hxs). cbn [length] in *. lia.
Qed.

Definition row_core (cols : list (list Z)) (r : list cell) : list Z :=
  123 :: join [44; 32] (map json_member (combine cols r)) ++ [125].
Definition row_ok (cols : list (list Z)) (r : list cell) : bool :=
  forallb member_ok (combine cols r) && negb (nilb (combine cols r)).
Definition rows_tail (cols : list (list Z)) (rows : list (list cell)) : list Z :=
  match rows with
  | [] => [10; 93; 10]
  | _ => [44; 10] ++ join [44; 10] (map (json_row cols) rows) ++ [10; 93; 10]
  end.

Lemma join_tail sep x t E :
  join sep (x :: t) ++ E = x ++ match t with [] => E | _ => sep ++ join sep t ++ E end.
Proof. destruct t; cbn [join]; [reflexivity|]. now rewrite <- !app_assoc. Qed.

Lemma rows_tail_cons cols r rows :
  rows_tail cols (r :: rows) = 44 :: 10 :: 32 :: 32 :: row_core cols r ++ rows_tail cols rows.
Proof.
  unfold rows_tail. cbn [map]. rewrite join_tail. unfold json_row, row_core. cbn [app].
  rewrite <- !app_assoc. cbn [app]. destruct rows; reflexivity.
Qed.

Lemma elements_parse cols : forall rows r fuel,
  (length rows < fuel)%nat -> row_ok cols r = true -> forallb (row_ok cols) rows = true ->
  j_elements fuel (row_core cols r ++ rows_tail cols rows)
  = Some (map (fun r => map jmember_of (combine cols r)) (r :: rows), [10]).
Proof.
  induction rows as [|r2 rows IH]; intros r fuel Hf Hr Hrs;
    (destruct fuel as [|f]; [cbn in Hf; lia|]); cbn [length] in Hf;
    unfold row_ok in Hr; apply andb_true_iff in Hr as [Hm Hn];
    assert (Hne : combine cols r <> []) by (destruct (combine cols r); [discriminate|congruence]).
  - unfold row_core. cbn [app]. rewrite <- app_assoc. cbn [app j_elements].
    rewrite object_parse; [reflexivity|exact Hne|exact Hm|].
    cbn [length]. rewrite app_length.
    assert (G := join_length_ge [44; 32] (map json_member (combine cols r))).
    rewrite map_length in G. etransitivity; [apply G|lia].
    apply Forall_forall. intros x Hx. apply in_map_iff in Hx as [m [<- _]]. unfold json_member. cbn [length]. lia.
  - cbn [forallb] in Hrs. apply andb_true_iff in Hrs as [Hr2 Hrs].
    rewrite rows_tail_cons. unfold row_core at 1. cbn [app]. rewrite <- app_assoc. cbn [app j_elements].
    rewrite object_parse; [|exact Hne|exact Hm|].
    + rewrite sk44. cbn [Z.eqb Pos.eqb]. rewrite sk10, !sk32.
      unfold row_core at 1. cbn [app]. rewrite sk123.
      change (123 :: (join [44; 32] (map json_member (combine cols r2)) ++ [125]) ++ rows_tail cols rows)
        with (row_core cols r2 ++ rows_tail cols rows).
      rewrite IH; [reflexivity|lia|exact Hr2|exact Hrs].
    + cbn [length]. rewrite app_length.
      assert (G := join_length_ge [44; 32] (map json_member (combine cols r))).
      rewrite map_length in G. etransitivity; [apply G|lia].
      apply Forall_forall. intros x Hx. apply in_map_iff in Hx as [m [<- _]]. unfold json_member. cbn [length]. lia.
Qed.

Lemma combine_jmember cols r : map jmember_of (combine cols r) = combine cols (map jval_of r).
Proof.
  revert r. induction cols as [|h cols IH]; intros [|c r]; cbn [combine map]; try reflexivity.
  now rewrite IH.
Qed.

Lemma json_doc_rows cols rows :
  forallb (row_ok cols) rows = true ->
  json_parse_doc (json_doc (mkTable cols rows)) = Some (json_expected (mkTable cols rows)).
Proof.
  intros H. destruct rows as [|r rows]; [reflexivity|].
  assert (Hfuel : (length rows < S (length (json_doc (mkTable cols (r :: rows)))))%nat).
  { unfold json_doc. cbn [t_cols t_rows]. rewrite !app_length.
    assert (G := join_length_ge [44; 10] (map (json_row cols) (r :: rows))).
    rewrite map_length in G. cbn [length] in *.
    assert (GG : Forall (fun x : list Z => (1 <= length x)%nat) (map (json_row cols) (r :: rows))).
    { apply Forall_forall. intros x Hx. apply in_map_iff in Hx as [m [<- _]]. unfold json_row. cbn [app length]. lia. }
    specialize (G GG). lia. }
  unfold json_parse_doc. remember (S (length (json_doc (mkTable cols (r :: rows))))) as fuel eqn:Ef. clear Ef.
  assert (E : json_doc (mkTable cols (r :: rows)) = 91 :: 10 :: 32 :: 32 :: row_core cols r ++ rows_tail cols rows).
  { unfold json_doc. cbn [t_cols t_rows map]. rewrite join_tail. unfold json_row at 1, row_core. cbn [app].
    rewrite <- !app_assoc. cbn [app]. unfold rows_tail. destruct rows; reflexivity. }
  rewrite E, sk91. cbn [Z.eqb Pos.eqb]. rewrite sk10, !sk32.
  unfold row_core at 1. cbn [app]. rewrite sk123. cbn [Z.eqb Pos.eqb].
  change (123 :: (join [44; 32] (map json_member (combine cols r)) ++ [125]) ++ rows_tail cols rows)
    with (row_core cols r ++ rows_tail cols rows).
  cbn [forallb] in H. apply andb_true_iff in H as [Hr Hrs].
  rewrite elements_parse by assumption. cbn [skip_ws Z.eqb Pos.eqb orb nilb].
  unfold json_expected. cbn [t_cols t_rows]. f_equal. apply map_ext. intros a. apply combine_jmember.
Qed.

(* every row of a well-formed, typed table is well-formed for the parser *)
Lemma guard_rows_ok t : json_guard t = true -> forallb (row_ok (t_cols t)) (t_rows t) = true.
Proof.
  unfold json_guard. intros H. apply andb_true_iff in H as [Hwf Hty].
  unfold table_typed in Hty. apply andb_true_iff in Hty as [Hcols Hcells].
  pose proof Hwf as Hwf'. unfold table_wf in Hwf'. apply andb_true_iff in Hwf' as [Hc Hlen].
  apply forallb_forall. intros r Hr. unfold row_ok. apply andb_true_iff. split.
  - apply forallb_forall. intros [h c] Hin. unfold member_ok. cbn [fst snd]. apply andb_true_iff. split.
    + apply in_combine_l in Hin. rewrite forallb_forall in Hcols. now apply bytes_ok_nonneg, Hcols.
    + apply in_combine_r in Hin.
      rewrite forallb_forall in Hcells. specialize (Hcells r Hr).
      rewrite forallb_forall in Hcells. specialize (Hcells c Hin).
      destruct c as [|s|n|txt|b|txt]; cbn [value_ok cell_typed] in *.
      * reflexivity.
      * now apply bytes_ok_nonneg.
      * now apply int_dec_number_ok.
      * exact Hcells.
      * reflexivity.
      * now apply bytes_ok_nonneg.
  - rewrite forallb_forall in Hlen. specialize (Hlen r Hr). apply Nat.eqb_eq in Hlen.
    destruct (t_cols t) as [|h cols]; [discriminate|]. destruct r as [|c r]; [discriminate|]. reflexivity.
Qed.

(* THE JSON DOCUMENT THEOREM *)
Theorem json_doc_roundtrip t : json_guard t = true -> json_parse_doc (json_doc t) = Some (json_expected t).
Proof.
  intros H. destruct t as [cols rows]. apply json_doc_rows. exact (guard_rows_ok _ H).
Qed.

Lemma list_eqb_refl {A} (eqb : A -> A -> bool) l : (forall x, eqb x x = true) -> list_eqb eqb l l = true.
Proof. intros H. induction l as [|x l IH]; cbn [list_eqb]; [reflexivity|]. now rewrite H, IH. Qed.

Theorem json_model_meets_spec t : json_guard t = true -> json_spec_ok t (json_doc t) = true.
Proof.
  intros H. unfold json_spec_ok. rewrite json_doc_roundtrip by exact H.
  apply list_eqb_refl. intros o. unfold jobj_eqb. apply list_eqb_refl. intros [k v]. cbn [fst snd].
  rewrite bytes_eqb_refl. destruct v; cbn [jval_eqb andb]; try reflexivity; apply bytes_eqb_refl.
Qed.
