(* C40 model: cli::output::OutputFormatter CSV and JSON writers, transcribed byte for byte,
   and the executable specs (RFC 4180 record parser, RFC 8259 string/number lexers and a
   parser for arrays of flat objects).
   anchors: src/cli/output.rs: write_csv, write_json, format_csv_value, format_json_value,
            format_display_value; src/main.rs: state.formatter.print(&result.batches)
   Strings are lists of UTF-8 bytes (Z).  All decisions of the writers are taken on ASCII
   bytes (comma 44, DQUOTE 34, LF 10, backslash 92), which never occur inside a multi-byte
   UTF-8 sequence, so the byte-level transcription of str::contains(char) and
   str::replace(char, ..) is exact. *)
From QV Require Export Base.Util.

(* ------------------------------------------------------------------ *)
(* result tables                                                       *)
(* ------------------------------------------------------------------ *)
Inductive cell :=
| CNull                      (* array.is_null(row) *)
| CStr (s : list Z)          (* Utf8 value *)
| CInt (n : Z)               (* Int64 value *)
| CFloat (txt : list Z)      (* Float64 value, given by the text `f64::to_string` prints (std, trusted) *)
| CBool (b : bool)           (* Boolean value *)
| COther (txt : list Z).     (* a value of any other type (Date, Timestamp, Binary, List, FixedSizeList, Struct, Map,
                                Decimal, ...), given by the text format_display_value returns for it: the CSV and
                                JSON writers only ever look at that text *)

Record table := mkTable { t_cols : list (list Z); t_rows : list (list cell) }.

Definition nilb {A} (l : list A) : bool := match l with [] => true | _ => false end.
Definition has (x : Z) (v : list Z) : bool := existsb (Z.eqb x) v.

Fixpoint join (sep : list Z) (l : list (list Z)) : list Z :=
  match l with
  | [] => []
  | x :: t => match t with [] => x | _ => x ++ sep ++ join sep t end
  end.

(* i64::to_string *)
Fixpoint dec_digits (fuel : nat) (n : Z) (acc : list Z) : list Z :=
  match fuel with
  | O => acc
  | S f => let acc' := (48 + n mod 10) :: acc in
           if n <? 10 then acc' else dec_digits f (n / 10) acc'
  end.
Definition int_dec (n : Z) : list Z :=
  if n <? 0 then 45 :: dec_digits 20 (- n) [] else dec_digits 20 n [].

(* format_display_value *)
Definition cell_text (c : cell) : list Z :=
  match c with
  | CNull => [78; 85; 76; 76]
  | CStr s => s
  | CInt n => int_dec n
  | CFloat txt => txt
  | CBool b => if b then [116; 114; 117; 101] else [102; 97; 108; 115; 101]
  | COther txt => txt
  end.

(* ------------------------------------------------------------------ *)
(* CSV writer (after fix efda2f4)                                      *)
(* ------------------------------------------------------------------ *)
(* value.contains(COMMA) || value.contains(DQUOTE) || value.contains(LF) || value.contains(CR) *)
Definition csv_needs_quote (v : list Z) : bool := has 44 v || has 34 v || has 10 v || has 13 v.
(* value.replace(DQUOTE, DQUOTE DQUOTE) *)
Definition csv_dq (v : list Z) : list Z := flat_map (fun b => if b =? 34 then [34; 34] else [b]) v.
(* if needs quoting then DQUOTE doubled DQUOTE else as is: the same expression is written out
   twice in the source, once for cells (format_csv_value) and once for column names (write_csv) *)
Definition csv_quote (v : list Z) : list Z :=
  if csv_needs_quote v then 34 :: csv_dq v ++ [34] else v.

(* format_csv_value: NULL is the empty string; EVERY other cell, whatever its type, goes through the
   quoting scan on its display text *)
Definition csv_field (c : cell) : list Z :=
  match c with
  | CNull => []
  | _ => csv_quote (cell_text c)
  end.

(* writeln!(writer, values.join(COMMA)) *)
Definition csv_line (r : list cell) : list Z := join [44] (map csv_field r) ++ [10].
(* writeln!(writer, headers.join(COMMA)): header names follow the same quoting rule *)
Definition csv_header (cols : list (list Z)) : list Z := join [44] (map csv_quote cols) ++ [10].

(* at least one batch; rows of all batches in order *)
Definition csv_doc (t : table) : list Z := csv_header (t_cols t) ++ flat_map csv_line (t_rows t).
(* batches.is_empty() *)
Definition csv_nobatch : list Z := [].

(* what the CSV shows in each cell: NULL shows as nothing *)
Definition csv_shown (c : cell) : list Z := match c with CNull => [] | _ => cell_text c end.
Definition csv_displayed (t : table) : list (list (list Z)) :=
  t_cols t :: map (map csv_shown) (t_rows t).

(* the writer BEFORE the fix (kept for the regression theorems): CR did not trigger quoting and
   column names were written raw *)
Definition csv_needs_quote_before_fix (v : list Z) : bool := has 44 v || has 34 v || has 10 v.
Definition csv_field_before_fix (c : cell) : list Z :=
  match c with
  | CNull => []
  | _ => let v := cell_text c in
         if csv_needs_quote_before_fix v then 34 :: csv_dq v ++ [34] else v
  end.
Definition csv_line_before_fix (r : list cell) : list Z := join [44] (map csv_field_before_fix r) ++ [10].
Definition csv_header_before_fix (cols : list (list Z)) : list Z := join [44] cols ++ [10].
Definition csv_doc_before_fix (t : table) : list Z :=
  csv_header_before_fix (t_cols t) ++ flat_map csv_line_before_fix (t_rows t).

(* ------------------------------------------------------------------ *)
(* JSON writer (after fix 8d4c59c)                                     *)
(* ------------------------------------------------------------------ *)
Definition bytes_eqb := list_eqb Z.eqb.

(* format!("{:04x}"): lowercase hexadecimal digit *)
Definition hexdig (d : Z) : Z := if d <? 10 then 48 + d else 87 + d.
(* fn json_escape: one match arm per line, in source order.  It iterates over chars; every char
   >= U+0080 falls in the last arm and is pushed unchanged, i.e. its UTF-8 bytes (all >= 0x80)
   are copied, so the byte-wise map is the same function on valid UTF-8. *)
Definition json_esc_byte (b : Z) : list Z :=
  if b =? 34 then [92; 34]
  else if b =? 92 then [92; 92]
  else if b =? 10 then [92; 110]
  else if b =? 13 then [92; 114]
  else if b =? 9 then [92; 116]
  else if b =? 8 then [92; 98]
  else if b =? 12 then [92; 102]
  else if b <? 32 then [92; 117; 48; 48; hexdig (b / 16); hexdig (b mod 16)]
  else [b].
Definition json_escape (s : list Z) : list Z := flat_map json_esc_byte s.
Definition json_string (s : list Z) : list Z := 34 :: json_escape s ++ [34].

(* v.is_finite(): std prints exactly NaN, inf, -inf for the non-finite values *)
Definition float_nonfinite (txt : list Z) : bool :=
  bytes_eqb txt [78; 97; 78] || bytes_eqb txt [105; 110; 102] || bytes_eqb txt [45; 105; 110; 102].

(* format_json_value *)
Definition json_value (c : cell) : list Z :=
  match c with
  | CNull => [110; 117; 108; 108]
  | CStr s => json_string s
  | CInt n => int_dec n
  | CFloat txt => if float_nonfinite txt then [110; 117; 108; 108] else txt
  | CBool b => if b then [116; 114; 117; 101] else [102; 97; 108; 115; 101]
  | COther txt => json_string txt        (* `_ =>` arm: DQUOTE json_escape(display text) DQUOTE *)
  end.

(* write!(writer, DQUOTE {} DQUOTE COLON SPACE {}, json_escape(field_name), value) *)
Definition json_member (hc : list Z * cell) : list Z :=
  34 :: json_escape (fst hc) ++ [34; 58; 32] ++ json_value (snd hc).
(* "  {" m1 ", " m2 ... "}" *)
Definition json_row (cols : list (list Z)) (r : list cell) : list Z :=
  [32; 32; 123] ++ join [44; 32] (map json_member (combine cols r)) ++ [125].
(* "[\n" row1 ",\n" row2 ... "\n]\n" *)
Definition json_doc (t : table) : list Z :=
  [91; 10] ++ join [44; 10] (map (json_row (t_cols t)) (t_rows t)) ++ [10; 93; 10].
Definition json_nobatch : list Z := [91; 93; 10].

(* the writer BEFORE the fix (kept for the regression theorems): only backslash and DQUOTE were
   escaped (two replace passes), member names were written raw, non-finite floats bare *)
Definition replace1 (x : Z) (by_ : list Z) (v : list Z) : list Z :=
  flat_map (fun b => if b =? x then by_ else [b]) v.
Definition json_escape_before_fix (s : list Z) : list Z := replace1 34 [92; 34] (replace1 92 [92; 92] s).
Definition json_string_before_fix (s : list Z) : list Z := 34 :: json_escape_before_fix s ++ [34].
Definition json_value_before_fix (c : cell) : list Z :=
  match c with
  | CNull => [110; 117; 108; 108]
  | CStr s => json_string_before_fix s
  | CInt n => int_dec n
  | CFloat txt => txt
  | CBool b => if b then [116; 114; 117; 101] else [102; 97; 108; 115; 101]
  | COther txt => 34 :: txt ++ [34]
  end.
Definition json_member_before_fix (hc : list Z * cell) : list Z :=
  34 :: fst hc ++ [34; 58; 32] ++ json_value_before_fix (snd hc).
Definition json_row_before_fix (cols : list (list Z)) (r : list cell) : list Z :=
  [32; 32; 123] ++ join [44; 32] (map json_member_before_fix (combine cols r)) ++ [125].
Definition json_doc_before_fix (t : table) : list Z :=
  [91; 10] ++ join [44; 10] (map (json_row_before_fix (t_cols t)) (t_rows t)) ++ [10; 93; 10].

(* ------------------------------------------------------------------ *)
(* SPEC 1: RFC 4180 parser.  Records end with LF or CRLF (the last line break is optional),
   fields are separated by commas; a field that starts with DQUOTE is quoted: it runs to the
   matching DQUOTE, a doubled DQUOTE stands for one, and it may contain commas, CR and LF;
   after the closing DQUOTE only a comma, a line break or the end may follow.  A DQUOTE
   inside an unquoted field and a CR that is not followed by LF outside quotes are errors.
   (RFC 4180 TEXTDATA is read liberally as "any byte but comma, DQUOTE, CR, LF".)
   The parser is structurally recursive and builds its result on the way back:
   (rest of the current field, rest of the current record, remaining records).         *)
(* ------------------------------------------------------------------ *)
Inductive cst := FS | UQ | QD | QQ | CRS.
Definition cres := (list Z * list (list Z) * list (list (list Z)))%type.

Definition c_push (b : Z) (r : option cres) : option cres :=
  match r with Some (f, fs, rs) => Some (b :: f, fs, rs) | None => None end.
Definition c_endfield (r : option cres) : option cres :=
  match r with Some (f, fs, rs) => Some ([], f :: fs, rs) | None => None end.
Definition c_fin (r : option cres) : option (list (list (list Z))) :=
  match r with Some (f, fs, rs) => Some ((f :: fs) :: rs) | None => None end.
Definition c_endrec (r : option (list (list (list Z)))) : option cres :=
  match r with Some rs => Some ([], [], rs) | None => None end.

Fixpoint csv_go (s : cst) (l : list Z) : option cres :=
  match l with
  | [] => match s with QD => None | CRS => None | _ => Some ([], [], []) end
  | b :: r =>
    let endrec := c_endrec (match r with [] => Some [] | _ => c_fin (csv_go FS r) end) in
    match s with
    | FS | UQ =>
        if b =? 44 then c_endfield (csv_go FS r)
        else if b =? 10 then endrec
        else if b =? 13 then csv_go CRS r
        else if b =? 34 then (match s with FS => csv_go QD r | _ => None end)
        else c_push b (csv_go UQ r)
    | QD => if b =? 34 then csv_go QQ r else c_push b (csv_go QD r)
    | QQ =>
        if b =? 34 then c_push 34 (csv_go QD r)
        else if b =? 44 then c_endfield (csv_go FS r)
        else if b =? 10 then endrec
        else if b =? 13 then csv_go CRS r
        else None
    | CRS => if b =? 10 then endrec else None
    end
  end.

Definition csv_records (l : list Z) : option (list (list (list Z))) :=
  match l with [] => Some [] | _ => c_fin (csv_go FS l) end.
Definition csv_parse := csv_records.

Definition rec_eqb := list_eqb bytes_eqb.
Definition recs_eqb := list_eqb rec_eqb.

(* what C40 demands of ANY CSV output for table t *)
Definition csv_spec_ok (t : table) (out : list Z) : bool :=
  match csv_parse out with
  | Some rs => recs_eqb rs (csv_displayed t)
  | None => false
  end.

(* ------------------------------------------------------------------ *)
(* SPEC 2: RFC 8259 string and number lexers                           *)
(* ------------------------------------------------------------------ *)
Definition hexval (b : Z) : option Z :=
  if (48 <=? b) && (b <=? 57) then Some (b - 48)
  else if (65 <=? b) && (b <=? 70) then Some (b - 55)
  else if (97 <=? b) && (b <=? 102) then Some (b - 87)
  else None.
Definition hex4 (a b c d : Z) : option Z :=
  match hexval a, hexval b, hexval c, hexval d with
  | Some x, Some y, Some z, Some w => Some (((x * 16 + y) * 16 + z) * 16 + w)
  | _, _, _, _ => None
  end.
Definition utf8_enc (cp : Z) : list Z :=
  if cp <? 128 then [cp]
  else if cp <? 2048 then [192 + cp / 64; 128 + cp mod 64]
  else if cp <? 65536 then [224 + cp / 4096; 128 + (cp / 64) mod 64; 128 + cp mod 64]
  else [240 + cp / 262144; 128 + (cp / 4096) mod 64; 128 + (cp / 64) mod 64; 128 + cp mod 64].

Definition j_push (p : list Z) (r : option (list Z * list Z)) : option (list Z * list Z) :=
  match r with Some (v, rest) => Some (p ++ v, rest) | None => None end.

(* input positioned just after the opening quotation mark; returns (value, input after the
   closing quotation mark).  Unescaped bytes below 0x20 are rejected (RFC 8259 section 7). *)
Fixpoint json_lex_string (l : list Z) : option (list Z * list Z) :=
  match l with
  | [] => None
  | b :: r =>
    if b =? 34 then Some ([], r)
    else if b =? 92 then
      match r with
      | [] => None
      | e :: r1 =>
        if e =? 34 then j_push [34] (json_lex_string r1)
        else if e =? 92 then j_push [92] (json_lex_string r1)
        else if e =? 47 then j_push [47] (json_lex_string r1)
        else if e =? 98 then j_push [8] (json_lex_string r1)
        else if e =? 102 then j_push [12] (json_lex_string r1)
        else if e =? 110 then j_push [10] (json_lex_string r1)
        else if e =? 114 then j_push [13] (json_lex_string r1)
        else if e =? 116 then j_push [9] (json_lex_string r1)
        else if e =? 117 then
          match r1 with
          | h1 :: h2 :: h3 :: h4 :: r2 =>
            match hex4 h1 h2 h3 h4 with
            | None => None
            | Some cp =>
              if (55296 <=? cp) && (cp <=? 56319) then
                match r2 with
                | s1 :: s2 :: g1 :: g2 :: g3 :: g4 :: r3 =>
                  if (s1 =? 92) && (s2 =? 117) then
                    match hex4 g1 g2 g3 g4 with
                    | None => None
                    | Some lo =>
                      if (56320 <=? lo) && (lo <=? 57343)
                      then j_push (utf8_enc (65536 + (cp - 55296) * 1024 + (lo - 56320))) (json_lex_string r3)
                      else None
                    end
                  else None
                | _ => None
                end
              else if (56320 <=? cp) && (cp <=? 57343) then None
              else j_push (utf8_enc cp) (json_lex_string r2)
            end
          | _ => None
          end
        else None
      end
    else if b <? 32 then None
    else j_push [b] (json_lex_string r)
  end.

(* a complete string literal, quotation marks included *)
Definition json_unescape (l : list Z) : option (list Z) :=
  match l with
  | q :: r => if q =? 34 then match json_lex_string r with
                              | Some (v, []) => Some v
                              | _ => None
                              end
              else None
  | [] => None
  end.

Definition is_digit (b : Z) : bool := (48 <=? b) && (b <=? 57).
Fixpoint span_digits (l : list Z) : list Z * list Z :=
  match l with
  | b :: r => if is_digit b then let (d, rest) := span_digits r in (b :: d, rest) else ([], l)
  | [] => ([], [])
  end.

(* number = [ minus ] int [ frac ] [ exp ]; each stage returns (token part, rest) *)
Definition lex_sign (l : list Z) : list Z * list Z :=
  match l with
  | b :: r => if b =? 45 then ([45], r) else ([], l)
  | [] => ([], l)
  end.
Definition lex_frac (l : list Z) : option (list Z * list Z) :=
  match l with
  | p :: r => if p =? 46 then
                let (fd, l3) := span_digits r in
                if nilb fd then None else Some (46 :: fd, l3)
              else Some ([], l)
  | [] => Some ([], l)
  end.
Definition lex_exp (l : list Z) : option (list Z * list Z) :=
  match l with
  | e :: r => if (e =? 101) || (e =? 69) then
                let (es, r') := match r with
                                | s :: r'' => if (s =? 43) || (s =? 45) then ([s], r'') else ([], r)
                                | [] => ([], r)
                                end in
                let (ed, l4) := span_digits r' in
                if nilb ed then None else Some (e :: es ++ ed, l4)
              else Some ([], l)
  | [] => Some ([], l)
  end.
(* int = zero / ( digit1-9 *DIGIT ): no leading zero *)
Definition int_part_ok (ip : list Z) : bool :=
  match ip with
  | [] => false
  | d0 :: ds => negb ((d0 =? 48) && negb (nilb ds))
  end.
Definition json_lex_number (l : list Z) : option (list Z * list Z) :=
  let (sg, l1) := lex_sign l in
  let (ip, l2) := span_digits l1 in
  if int_part_ok ip then
    match lex_frac l2 with
    | None => None
    | Some (ft, l3) =>
      match lex_exp l3 with
      | None => None
      | Some (et, l4) => Some (sg ++ ip ++ ft ++ et, l4)
      end
    end
  else None.

Definition json_number_ok (txt : list Z) : bool :=
  match json_lex_number txt with Some (_, []) => true | _ => false end.

(* ------------------------------------------------------------------ *)
(* SPEC 3: RFC 8259 parser for the sublanguage "array of objects whose members are scalars"
   (everything write_json can emit); insignificant whitespace anywhere the RFC allows it. *)
(* ------------------------------------------------------------------ *)
Inductive jval := JNull | JTrue | JFalse | JNum (tok : list Z) | JStr (s : list Z).

Fixpoint skip_ws (l : list Z) : list Z :=
  match l with
  | b :: r => if (b =? 32) || (b =? 9) || (b =? 10) || (b =? 13) then skip_ws r else l
  | [] => []
  end.

Fixpoint strip_prefix (p l : list Z) : option (list Z) :=
  match p with
  | [] => Some l
  | x :: p' => match l with
               | y :: l' => if x =? y then strip_prefix p' l' else None
               | [] => None
               end
  end.

Definition j_value (l : list Z) : option (jval * list Z) :=
  match l with
  | [] => None
  | b :: r =>
    if b =? 34 then match json_lex_string r with
                    | Some (s, rest) => Some (JStr s, rest)
                    | None => None
                    end
    else if b =? 110 then option_map (fun rest => (JNull, rest)) (strip_prefix [110; 117; 108; 108] l)
    else if b =? 116 then option_map (fun rest => (JTrue, rest)) (strip_prefix [116; 114; 117; 101] l)
    else if b =? 102 then option_map (fun rest => (JFalse, rest)) (strip_prefix [102; 97; 108; 115; 101] l)
    else match json_lex_number l with
         | Some (tok, rest) => Some (JNum tok, rest)
         | None => None
         end
  end.

Definition jobj := list (list Z * jval).

(* l is positioned at the first byte of a member *)
Fixpoint j_members (fuel : nat) (l : list Z) : option (jobj * list Z) :=
  match fuel with
  | O => None
  | S f =>
    match l with
    | q :: r =>
      if q =? 34 then
        match json_lex_string r with
        | None => None
        | Some (k, r1) =>
          match skip_ws r1 with
          | c :: r2 =>
            if c =? 58 then
              match j_value (skip_ws r2) with
              | None => None
              | Some (v, r3) =>
                match skip_ws r3 with
                | d :: r4 =>
                  if d =? 44 then
                    match j_members f (skip_ws r4) with
                    | Some (ms, rest) => Some ((k, v) :: ms, rest)
                    | None => None
                    end
                  else if d =? 125 then Some ([(k, v)], r4)
                  else None
                | [] => None
                end
              end
            else None
          | [] => None
          end
        end
      else None
    | [] => None
    end
  end.

(* l is positioned at the opening brace *)
Definition j_object (fuel : nat) (l : list Z) : option (jobj * list Z) :=
  match l with
  | b :: r =>
    if b =? 123 then
      match skip_ws r with
      | c :: r' => if c =? 125 then Some ([], r') else j_members fuel (c :: r')
      | [] => None
      end
    else None
  | [] => None
  end.

(* l is positioned at the first byte of an element *)
Fixpoint j_elements (fuel : nat) (l : list Z) : option (list jobj * list Z) :=
  match fuel with
  | O => None
  | S f =>
    match j_object (S (length l)) l with
    | None => None
    | Some (o, r1) =>
      match skip_ws r1 with
      | d :: r2 =>
        if d =? 44 then
          match j_elements f (skip_ws r2) with
          | Some (os, rest) => Some (o :: os, rest)
          | None => None
          end
        else if d =? 93 then Some ([o], r2)
        else None
      | [] => None
      end
    end
  end.

Definition json_parse_doc (l : list Z) : option (list jobj) :=
  match skip_ws l with
  | b :: r =>
    if b =? 91 then
      match skip_ws r with
      | c :: r' =>
        if c =? 93 then (if nilb (skip_ws r') then Some [] else None)
        else match j_elements (S (length l)) (c :: r') with
             | Some (os, rest) => if nilb (skip_ws rest) then Some os else None
             | None => None
             end
      | [] => None
      end
    else None
  | [] => None
  end.

(* the values the JSON must denote: NULL -> null, string -> that string, number -> the number
   whose text is displayed; JSON has no NaN / Infinity, they denote null *)
Definition jval_of (c : cell) : jval :=
  match c with
  | CNull => JNull
  | CStr s => JStr s
  | CInt n => JNum (int_dec n)
  | CFloat txt => if float_nonfinite txt then JNull else JNum txt
  | CBool b => if b then JTrue else JFalse
  | COther txt => JStr txt
  end.
Definition json_expected (t : table) : list jobj :=
  map (fun r => combine (t_cols t) (map jval_of r)) (t_rows t).

Definition jval_eqb (a b : jval) : bool :=
  match a, b with
  | JNull, JNull => true
  | JTrue, JTrue => true
  | JFalse, JFalse => true
  | JNum x, JNum y => bytes_eqb x y
  | JStr x, JStr y => bytes_eqb x y
  | _, _ => false
  end.
Definition jobj_eqb : jobj -> jobj -> bool :=
  list_eqb (fun a b => bytes_eqb (fst a) (fst b) && jval_eqb (snd a) (snd b)).

Definition json_spec_ok (t : table) (out : list Z) : bool :=
  match json_parse_doc out with
  | Some os => list_eqb jobj_eqb os (json_expected t)
  | None => false
  end.

(* ------------------------------------------------------------------ *)
(* well-formedness and typing of a result table (no input is excluded) *)
(* ------------------------------------------------------------------ *)
(* at least one column, every row as wide as the header (RecordBatch invariant) *)
Definition table_wf (t : table) : bool :=
  negb (nilb (t_cols t)) && forallb (fun r => Nat.eqb (length r) (length (t_cols t))) (t_rows t).

(* no byte that RFC 4180 gives a meaning to *)
Definition csv_plain (v : list Z) : bool := negb (has 44 v || has 34 v || has 10 v || has 13 v).

(* strings are bytes; Int64 columns hold i64 values; a Float64 cell carries what std prints:
   NaN / inf / -inf or a plain decimal number *)
Definition bytes_ok (s : list Z) : bool := forallb (fun b => (0 <=? b) && (b <? 256)) s.
Definition cell_typed (c : cell) : bool :=
  match c with
  | CNull => true
  | CStr s => bytes_ok s
  | CInt n => (-9223372036854775808 <=? n) && (n <=? 9223372036854775807)
  | CFloat txt => float_nonfinite txt || json_number_ok txt
  | CBool _ => true
  | COther txt => bytes_ok txt
  end.
Definition table_typed (t : table) : bool :=
  forallb bytes_ok (t_cols t) && forallb (forallb cell_typed) (t_rows t).

Definition csv_guard (t : table) : bool := table_wf t.
Definition json_guard (t : table) : bool := table_wf t && table_typed t.
