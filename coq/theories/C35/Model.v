(* C35 model: the SQL front door of a serving node, transcribed from src/distributed/server.rs.
   anchors: DistMode::parse, ResultFormat::parse (query-string tables), NodeState::context (readiness gate),
            execute_statement (the auto/force/local decision and the run), sql (the POST /sql handler: order of
            the checks, status codes, x-qe-* headers), fragment (the POST /fragment handler's gate),
            coordinator.rs / plan.rs: plan_distributed (the "plannable" bit is its is_ok()).
   Strings are lists of bytes (Z).  The encoders called by `encode` are arrow's own writers
   (arrow::ipc::writer::StreamWriter, arrow::json::ArrayWriter, arrow::csv::Writer): external code, NOT the
   cli/output.rs writers modelled under C40; they are tied by decoding the bodies in the correspondence check. *)
(* String first, Base.Util (List) second: List.length / List.concat must shadow String's *)
From Coq Require Export String Ascii.
From QV Require Export Base.Util.

Definition bytes := list Z.
Definition B (s : string) : bytes := map (fun c => Z.of_N (N_of_ascii c)) (list_ascii_of_string s).
Arguments B _%string.
Definition beq (a b : bytes) : bool := list_eqb Z.eqb a b.
Definition mem (x : bytes) (l : list bytes) : bool := existsb (beq x) l.

(* ------------------------------------------------------------------ *)
(* query-string tables                                                 *)
(* ------------------------------------------------------------------ *)
Inductive dist_mode := Auto | Force | Off.
Inductive result_format := FArrow | FJson | FCsv.

Definition force_words : list bytes := [B "1"; B "true"; B "yes"; B "force"].
Definition off_words   : list bytes := [B "0"; B "false"; B "no"; B "local"].

(* the `match v { .. }` of DistMode::parse; None = Err("unknown distributed mode ..") *)
Definition http_mode_value (v : bytes) : option dist_mode :=
  if mem v force_words then Some Force
  else if mem v off_words then Some Off
  else if beq v (B "auto") then Some Auto
  else None.

(* the `match v { .. }` of ResultFormat::parse *)
Definition format_value (v : bytes) : option result_format :=
  if mem v [B "arrow"; B "ipc"] then Some FArrow
  else if beq v (B "json") then Some FJson
  else if beq v (B "csv") then Some FCsv
  else None.

(* str::split(sep): always at least one piece *)
Fixpoint split_on (sep : Z) (s : bytes) : list bytes :=
  match s with
  | [] => [[]]
  | c :: r =>
      if c =? sep then [] :: split_on sep r
      else match split_on sep r with
           | h :: t => (c :: h) :: t
           | [] => [[c]]
           end
  end.

(* str::split_once(sep) *)
Fixpoint split_once (sep : Z) (s : bytes) : option (bytes * bytes) :=
  match s with
  | [] => None
  | c :: r =>
      if c =? sep then Some ([], r)
      else match split_once sep r with
           | Some (k, v) => Some (c :: k, v)
           | None => None
           end
  end.

(* for pair in query.split('&') { let Some((k,v)) = pair.split_once('=') else continue; if k != key continue; return match v..}
   : the FIRST pair whose key is exactly `key` decides; pairs without '=' are skipped *)
Fixpoint find_param (key : bytes) (pairs : list bytes) : option bytes :=
  match pairs with
  | [] => None
  | p :: rest =>
      match split_once 61 p with
      | Some (k, v) => if beq k key then Some v else find_param key rest
      | None => find_param key rest
      end
  end.

(* None = Err (HTTP 400); no parameter = the default *)
Definition dist_mode_parse (q : bytes) : option dist_mode :=
  match find_param (B "distributed") (split_on 38 q) with
  | None => Some Auto
  | Some v => http_mode_value v
  end.
Definition result_format_parse (q : bytes) : option result_format :=
  match find_param (B "format") (split_on 38 q) with
  | None => Some FArrow
  | Some v => format_value v
  end.

(* ------------------------------------------------------------------ *)
(* execute_statement                                                   *)
(* ------------------------------------------------------------------ *)
Inductive load_state := Loading | LoadFailed | Loaded.
(* QueryError variants that the front doors tell apart *)
Inductive err_kind := KParse | KPlan | KBind | KType | KTableNF | KColNF | KNotImpl | KOther.
(* what a run yields: rows, an engine error, or a dead task (JoinError) *)
Inductive exec_result := RunOk | RunErr (k : err_kind) | RunTaskFailed.

Record env := mkEnv {
  e_load : load_state;      (* NodeState.context / load_error *)
  e_members_up : Z;         (* participants(state).len(): self + peers last seen Up *)
  e_plannable : bool;       (* plan_distributed(&ctx, statement).is_ok() *)
  e_local : exec_result;    (* ctx.sql(statement) *)
  e_dist : exec_result      (* execute_any_distributed(&ctx, statement, &members, &transport) *)
}.

Inductive reason := ROff | ROneMember | RUnplannable.

(* let (distribute, fallback_reason) = match mode { .. } *)
Definition decide (m : dist_mode) (e : env) : bool * option reason :=
  match m with
  | Off => (false, Some ROff)
  | Force => (true, None)
  | Auto =>
      if e_members_up e <? 2 then (false, Some ROneMember)
      else if e_plannable e then (true, None)
      else (false, Some RUnplannable)
  end.

Inductive outcome :=
| ONotReady (failed : bool)                 (* Err(ExecError::NotReady) *)
| OLocal (why : option reason)              (* Ok: distribution = None, fallback_reason = why *)
| ODistributed                              (* Ok: distribution = Some(..), fallback_reason = None *)
| OQueryErr (k : err_kind) (chose_dist : bool)  (* Err(ExecError::Query) *)
| OTaskFailed.                              (* Err(ExecError::TaskFailed) *)

Definition execute_statement (m : dist_mode) (e : env) : outcome :=
  match e_load e with
  | Loading => ONotReady false
  | LoadFailed => ONotReady true
  | Loaded =>
      let (distribute, why) := decide m e in
      match (if distribute then e_dist e else e_local e) with
      | RunOk => if distribute then ODistributed else OLocal why
      | RunErr k => OQueryErr k distribute
      | RunTaskFailed => OTaskFailed
      end
  end.

(* ------------------------------------------------------------------ *)
(* POST /sql                                                           *)
(* ------------------------------------------------------------------ *)
Definition MAX_SQL_BODY_BYTES : Z := 1024 * 1024.

Record request := mkReq {
  r_query : bytes;       (* req.uri().query().unwrap_or("") *)
  r_body_len : Z;
  r_body_utf8 : bool;    (* String::from_utf8(body).is_ok() *)
  r_body_blank : bool;   (* body.trim().is_empty() *)
  r_encodes : bool       (* encode(&result, format).is_ok() (arrow writers; false only for types a writer refuses) *)
}.

Inductive response :=
| Resp400Param                       (* unknown format / unknown distributed mode *)
| Resp503 (failed : bool)            (* "tables are still loading" / "tables failed to load: .." *)
| Resp413                            (* body over the cap *)
| Resp400Body                        (* body not UTF-8 / empty *)
| RespRows (f : result_format) (distributed : bool) (skipped : option reason)
                                     (* 200; x-qe-distributed, x-qe-distributed-skipped *)
| RespErr (status : Z) (xdist_false : bool).   (* JSON error body; x-qe-distributed: false present? *)

Definition err_status (k : err_kind) : Z := match k with KNotImpl => 501 | _ => 400 end.

Definition sql_handler (rq : request) (e : env) : response :=
  match result_format_parse (r_query rq) with
  | None => Resp400Param
  | Some f =>
  match dist_mode_parse (r_query rq) with
  | None => Resp400Param
  | Some m =>
  match e_load e with
  | Loading => Resp503 false
  | LoadFailed => Resp503 true
  | Loaded =>
      if MAX_SQL_BODY_BYTES <? r_body_len rq then Resp413
      else if negb (r_body_utf8 rq) then Resp400Body
      else if r_body_blank rq then Resp400Body
      else
        match execute_statement m e with
        | ONotReady failed => Resp503 failed
        | OLocal why => if r_encodes rq then RespRows f false why else RespErr 400 true
        | ODistributed => if r_encodes rq then RespRows f true None else RespErr 400 true
        | OQueryErr k _ => RespErr (err_status k) true
        | OTaskFailed => RespErr 500 false
        end
  end end end.

(* POST /fragment: the gate comes first, then the body cap, then the JSON shape *)
Inductive frag_response := Frag503 (failed : bool) | Frag413 | Frag400 | FragRuns.
Definition fragment_handler (e : env) (body_len : Z) (body_parses : bool) : frag_response :=
  match e_load e with
  | Loading => Frag503 false
  | LoadFailed => Frag503 true
  | Loaded =>
      if MAX_SQL_BODY_BYTES <? body_len then Frag413
      else if negb body_parses then Frag400
      else FragRuns
  end.

(* ------------------------------------------------------------------ *)
(* executable specification: what C35 demands of ANY front door        *)
(* ------------------------------------------------------------------ *)
Definition is_rows (r : response) : bool := match r with RespRows _ _ _ => true | _ => false end.
Definition is_ok_run (x : exec_result) : bool := match x with RunOk => true | _ => false end.
Definition mergeable_and_peers (e : env) : bool := (2 <=? e_members_up e) && e_plannable e.

(* the request is one that reaches the engine and whose result the chosen writer can carry *)
Definition request_valid (rq : request) : bool :=
  match result_format_parse (r_query rq) with Some _ => true | None => false end
  && (r_body_len rq <=? MAX_SQL_BODY_BYTES) && r_body_utf8 rq && negb (r_body_blank rq) && r_encodes rq.
(* the modes/states in which the property wants the LOCAL engine's answer: local mode, and auto mode unless the
   shape is exactly mergeable AND at least two members are up (members last seen Up; a peer that discovery has
   listed but no probe has reached yet does not count) *)
Definition should_be_local (m : dist_mode) (e : env) : bool :=
  match m with Off => true | Force => false | Auto => negb (mergeable_and_peers e) end.
Definition is_local_rows (o : response) : bool :=
  match o with RespRows _ false (Some _) => true | _ => false end.

(* `rows_ok` is computed by the check: the decoded body is, as a bag, exactly the engine's rows and the x-qe-rows
   header is their number.  `valid` is request_valid of the request. *)
Definition spec_ok (m : dist_mode) (e : env) (valid : bool) (o : response) (rows_ok : bool) : bool :=
  match e_load e with
  | Loaded =>
      match o with
      | RespRows _ false why =>
          (* a local answer: never under force; in auto only when the shape is not exactly mergeable or fewer
             than two members are up; always with a reason; the local run must have succeeded *)
          match m with Force => false | Auto => negb (mergeable_and_peers e) | Off => true end
          && match why with Some _ => true | None => false end
          && is_ok_run (e_local e) && rows_ok
      | RespRows _ true why =>
          (* a distributed answer: never under local; in auto only for exactly-mergeable shapes with >= 2 members;
             only when the distributed run succeeded *)
          match m with Off => false | Auto => mergeable_and_peers e | Force => true end
          && match why with None => true | Some _ => false end
          && is_ok_run (e_dist e) && rows_ok
      | _ => true
      end
      (* "... and otherwise answers locally with a reason": when the answer is the local engine's to give and the
         local engine has one, the response IS that answer - not an error from a fan-out that should not have happened *)
      && (if valid && should_be_local m e && is_ok_run (e_local e) then is_local_rows o else true)
  | _ => negb (is_rows o)          (* not loaded: never an answer *)
  end.

Definition reason_eqb (a b : option reason) : bool :=
  match a, b with
  | None, None => true
  | Some ROff, Some ROff | Some ROneMember, Some ROneMember | Some RUnplannable, Some RUnplannable => true
  | _, _ => false
  end.
Definition format_eqb (a b : result_format) : bool :=
  match a, b with FArrow, FArrow | FJson, FJson | FCsv, FCsv => true | _, _ => false end.
Definition response_eqb (a b : response) : bool :=
  match a, b with
  | Resp400Param, Resp400Param | Resp413, Resp413 | Resp400Body, Resp400Body => true
  | Resp503 x, Resp503 y => Bool.eqb x y
  | RespRows f d w, RespRows f' d' w' => format_eqb f f' && Bool.eqb d d' && reason_eqb w w'
  | RespErr s x, RespErr s' x' => (s =? s') && Bool.eqb x x'
  | _, _ => false
  end.
Definition frag_eqb (a b : frag_response) : bool :=
  match a, b with
  | Frag503 x, Frag503 y => Bool.eqb x y
  | Frag413, Frag413 | Frag400, Frag400 | FragRuns, FragRuns => true
  | _, _ => false
  end.
Definition mode_opt_eqb (a b : option dist_mode) : bool :=
  match a, b with
  | None, None | Some Auto, Some Auto | Some Force, Some Force | Some Off, Some Off => true
  | _, _ => false
  end.
Definition format_opt_eqb (a b : option result_format) : bool :=
  match a, b with
  | None, None => true
  | Some x, Some y => format_eqb x y
  | _, _ => false
  end.

(* ------------------------------------------------------------------ *)
(* result shapes that a text encoding cannot carry (arrow's writers):  *)
(* decided by the SHAPE of the engine's result and the format alone    *)
(* ------------------------------------------------------------------ *)
Record result_shape := mkShape {
  s_nonfinite : bool;     (* a Float64 cell that is NaN or +-infinity *)
  s_empty_str : bool;     (* a Utf8 cell that is the empty string *)
  s_dup_names : bool      (* two output columns with the same name *)
}.
(* arrow::json::ArrayWriter: one JSON object per row keyed by column name: a repeated name keeps one column *)
Definition known_json_dup_names (f : result_format) (s : result_shape) : bool := format_eqb f FJson && s_dup_names s.
(* arrow::json writes a non-finite double as null *)
Definition known_json_nonfinite (f : result_format) (s : result_shape) : bool :=
  format_eqb f FJson && s_nonfinite s && negb (s_dup_names s).
(* arrow::csv writes NULL and '' both as the empty field *)
Definition known_csv_empty_string (f : result_format) (s : result_shape) : bool := format_eqb f FCsv && s_empty_str s.
(* 0 = none, 1 = json-duplicate-column-names, 2 = json-non-finite-double, 3 = csv-empty-string *)
Definition known_encoding (f : result_format) (s : result_shape) : Z :=
  if known_json_dup_names f s then 1 else if known_json_nonfinite f s then 2
  else if known_csv_empty_string f s then 3 else 0.
