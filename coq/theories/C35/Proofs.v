From QV Require Import C35.Model.

(* ---------- byte-string equality ---------- *)
Lemma beq_eq a b : beq a b = true <-> a = b.
Proof. unfold beq. apply list_eqb_spec. intros x y. apply Z.eqb_eq. Qed.
Lemma beq_refl a : beq a a = true.
Proof. now apply beq_eq. Qed.
Lemma mem_In x l : mem x l = true <-> In x l.
Proof.
  unfold mem. rewrite existsb_exists. split.
  - intros (y & Hy & E). apply beq_eq in E. now subst.
  - intros H. exists x. split; [exact H | apply beq_refl].
Qed.
Lemma mem_false_not_In x l : mem x l = false <-> ~ In x l.
Proof. rewrite <- mem_In. destruct (mem x l); split; congruence. Qed.

(* ---------- DistMode::parse / ResultFormat::parse value tables ---------- *)
Theorem http_mode_value_table v :
  (http_mode_value v = Some Force <-> In v force_words) /\
  (http_mode_value v = Some Off <-> In v off_words) /\
  (http_mode_value v = Some Auto <-> v = B "auto") /\
  (http_mode_value v = None <-> ~ In v force_words /\ ~ In v off_words /\ v <> B "auto").
Proof.
  unfold http_mode_value.
  destruct (mem v force_words) eqn:F.
  - apply mem_In in F.
    assert (NO : ~ In v off_words) by (intro H; cbv in F, H; intuition congruence).
    assert (NA : v <> B "auto") by (intro H; cbv in F, H; intuition congruence).
    repeat split; intros; try congruence; try tauto.
  - apply mem_false_not_In in F. destruct (mem v off_words) eqn:O.
    + apply mem_In in O.
      assert (NA : v <> B "auto") by (intro H; cbv in O, H; intuition congruence).
      repeat split; intros; try congruence; try tauto.
    + apply mem_false_not_In in O. destruct (beq v (B "auto")) eqn:A.
      * apply beq_eq in A. repeat split; intros; try congruence; try tauto.
      * assert (NA : v <> B "auto") by (intro H; apply beq_eq in H; congruence).
        repeat split; intros; try congruence; try tauto.
Qed.

Theorem format_value_table v :
  (format_value v = Some FArrow <-> v = B "arrow" \/ v = B "ipc") /\
  (format_value v = Some FJson <-> v = B "json") /\
  (format_value v = Some FCsv <-> v = B "csv") /\
  (format_value v = None <-> v <> B "arrow" /\ v <> B "ipc" /\ v <> B "json" /\ v <> B "csv").
Proof.
  unfold format_value.
  destruct (mem v [B "arrow"; B "ipc"]) eqn:F.
  - apply mem_In in F. assert (F' : v = B "arrow" \/ v = B "ipc") by (cbn [In] in F; intuition congruence).
    assert (v <> B "json" /\ v <> B "csv") as [N1 N2]
      by (split; intro H; destruct F' as [E|E]; rewrite E in H; cbv in H; congruence).
    repeat split; intros; try congruence; try tauto.
  - apply mem_false_not_In in F.
    assert (N0 : v <> B "arrow" /\ v <> B "ipc") by (cbn [In] in F; split; intro; apply F; auto).
    destruct N0 as [Na Ni].
    destruct (beq v (B "json")) eqn:J.
    + apply beq_eq in J. assert (v <> B "csv") by (rewrite J; cbv; congruence).
      repeat split; intros; try congruence; try tauto.
    + assert (Nj : v <> B "json") by (intro H; apply beq_eq in H; congruence).
      destruct (beq v (B "csv")) eqn:C.
      * apply beq_eq in C. repeat split; intros; try congruence; try tauto.
      * assert (Nc : v <> B "csv") by (intro H; apply beq_eq in H; congruence).
        repeat split; intros; try congruence; try tauto.
Qed.

(* ---------- query-string level ---------- *)
(* the default applies exactly when no `key=..` pair exists; otherwise the FIRST such pair decides *)
Lemma find_param_none key pairs :
  find_param key pairs = None <->
  forall p k v, In p pairs -> split_once 61 p = Some (k, v) -> k <> key.
Proof.
  induction pairs as [|p rest IH]; cbn [find_param].
  - split; [intros _ p k v [] | reflexivity].
  - destruct (split_once 61 p) as [[k v]|] eqn:S.
    + destruct (beq k key) eqn:E.
      * split; [discriminate|]. intros H. exfalso. apply beq_eq in E. exact (H p k v (or_introl eq_refl) S E).
      * rewrite IH. split.
        -- intros H p' k' v' [<-|Hin] S'; [|eauto]. rewrite S in S'. inversion S'; subst.
           intro X. apply beq_eq in X. congruence.
        -- intros H p' k' v' Hin. apply H. now right.
    + rewrite IH. split.
      * intros H p' k' v' [<-|Hin] S'; [congruence | eauto].
      * intros H p' k' v' Hin. apply H. now right.
Qed.

Theorem dist_mode_default q :
  find_param (B "distributed") (split_on 38 q) = None -> dist_mode_parse q = Some Auto.
Proof. unfold dist_mode_parse. now intros ->. Qed.
Theorem result_format_default q :
  find_param (B "format") (split_on 38 q) = None -> result_format_parse q = Some FArrow.
Proof. unfold result_format_parse. now intros ->. Qed.

(* the quirks, pinned on concrete query strings (vm_compute over the transcription) *)
Definition parse_examples : list (bytes * option dist_mode * option result_format) :=
  [ (B "", Some Auto, Some FArrow);
    (B "distributed=1&distributed=0", Some Force, Some FArrow);       (* first wins *)
    (B "distributed", Some Auto, Some FArrow);                        (* no '=': skipped *)
    (B "distributed=", None, Some FArrow);                            (* empty value: rejected *)
    (B "Distributed=1", Some Auto, Some FArrow);                      (* keys are case-sensitive *)
    (B "distributed=TRUE", None, Some FArrow);                        (* values are case-sensitive *)
    (B "x=distributed=1", Some Auto, Some FArrow);                    (* split_once: key is "x" *)
    (B "distributed=1=2", None, Some FArrow);
    (B "&&distributed=no&", Some Off, Some FArrow);
    (B "distributed=off", None, Some FArrow);                         (* `off` is NOT an HTTP spelling *)
    (B "distributed=%31", None, Some FArrow);                         (* no percent-decoding *)
    (B "format=ipc", Some Auto, Some FArrow);
    (B "format=arrow&format=csv", Some Auto, Some FArrow);
    (B "format=CSV", Some Auto, None);
    (B "format=", Some Auto, None);
    (B "format", Some Auto, Some FArrow);
    (B "a=b&format=json&distributed=local", Some Off, Some FJson);
    (B "format=csv&distributed=force", Some Force, Some FCsv) ].
Theorem parse_examples_ok :
  forallb (fun x => match x with (q, m, f) =>
     mode_opt_eqb (dist_mode_parse q) m && format_opt_eqb (result_format_parse q) f end) parse_examples = true.
Proof. vm_compute. reflexivity. Qed.

(* ---------- the decision ---------- *)
Theorem auto_distributes_iff e :
  fst (decide Auto e) = true <-> 2 <= e_members_up e /\ e_plannable e = true.
Proof.
  unfold decide. destruct (Z.ltb_spec (e_members_up e) 2) as [L|G]; cbn [fst].
  - split; [discriminate | lia].
  - destruct (e_plannable e); cbn [fst].
    + split; [intros _; split; [lia | reflexivity] | reflexivity].
    + split; [discriminate | intros [_ H]; discriminate].
Qed.
Theorem force_always_distributes e : decide Force e = (true, None).
Proof. reflexivity. Qed.
Theorem off_never_distributes e : decide Off e = (false, Some ROff).
Proof. reflexivity. Qed.
(* a local decision always carries its reason, and the reason says which test failed *)
Theorem local_decision_has_reason m e :
  fst (decide m e) = false ->
  exists r, snd (decide m e) = Some r /\
    (r = ROff <-> m = Off) /\
    (r = ROneMember <-> m = Auto /\ e_members_up e < 2) /\
    (r = RUnplannable <-> m = Auto /\ 2 <= e_members_up e /\ e_plannable e = false).
Proof.
  destruct m; unfold decide.
  - destruct (Z.ltb_spec (e_members_up e) 2) as [L|G]; cbn [fst snd].
    + intros _. exists ROneMember. repeat split; intros;
        repeat match goal with H : _ /\ _ |- _ => destruct H end; try congruence; try lia.
    + destruct (e_plannable e) eqn:P; cbn [fst snd]; [discriminate|].
      intros _. exists RUnplannable. repeat split; intros;
        repeat match goal with H : _ /\ _ |- _ => destruct H end; try congruence; try lia.
  - cbn. discriminate.
  - cbn. intros _. exists ROff. repeat split; intros;
      repeat match goal with H : _ /\ _ |- _ => destruct H end; try congruence; try lia.
Qed.

(* ---------- a well-formed request on a loaded node reaches execute_statement ---------- *)
Definition body_ok (rq : request) : Prop :=
  r_body_len rq <= MAX_SQL_BODY_BYTES /\ r_body_utf8 rq = true /\ r_body_blank rq = false.

Lemma handler_reaches_exec rq e f m :
  result_format_parse (r_query rq) = Some f -> dist_mode_parse (r_query rq) = Some m ->
  e_load e = Loaded -> body_ok rq ->
  sql_handler rq e =
    match execute_statement m e with
    | ONotReady failed => Resp503 failed
    | OLocal why => if r_encodes rq then RespRows f false why else RespErr 400 true
    | ODistributed => if r_encodes rq then RespRows f true None else RespErr 400 true
    | OQueryErr k _ => RespErr (err_status k) true
    | OTaskFailed => RespErr 500 false
    end.
Proof.
  intros F M L (B1 & B2 & B3). unfold sql_handler. rewrite F, M, L, B2, B3. cbn [negb].
  destruct (Z.ltb_spec MAX_SQL_BODY_BYTES (r_body_len rq)); [lia | reflexivity].
Qed.

(* not ready => never an answer; 503 as soon as the parameters parse *)
Theorem not_ready_never_answers rq e :
  e_load e <> Loaded -> is_rows (sql_handler rq e) = false.
Proof.
  intros H. unfold sql_handler.
  destruct (result_format_parse (r_query rq)); [|reflexivity].
  destruct (dist_mode_parse (r_query rq)); [|reflexivity].
  destruct (e_load e); try reflexivity. congruence.
Qed.
Theorem not_ready_503 rq e f m :
  result_format_parse (r_query rq) = Some f -> dist_mode_parse (r_query rq) = Some m ->
  e_load e <> Loaded ->
  sql_handler rq e = Resp503 (match e_load e with LoadFailed => true | _ => false end).
Proof.
  intros F M H. unfold sql_handler. rewrite F, M. destruct (e_load e); try reflexivity. congruence.
Qed.
Theorem fragment_not_ready_503 e n p :
  e_load e <> Loaded ->
  fragment_handler e n p = Frag503 (match e_load e with LoadFailed => true | _ => false end).
Proof. intros H. unfold fragment_handler. destruct (e_load e); try reflexivity. congruence. Qed.
Theorem fragment_runs_only_when_loaded e n p :
  fragment_handler e n p = FragRuns -> e_load e = Loaded.
Proof. unfold fragment_handler. destruct (e_load e); try discriminate. reflexivity. Qed.

(* the response classes of a 200 answer, by mode *)
Theorem rows_response_inversion rq e f d w :
  sql_handler rq e = RespRows f d w ->
  e_load e = Loaded /\ result_format_parse (r_query rq) = Some f /\
  exists m, dist_mode_parse (r_query rq) = Some m /\ decide m e = (d, w) /\
            (if d then e_dist e else e_local e) = RunOk.
Proof.
  unfold sql_handler.
  destruct (result_format_parse (r_query rq)) as [f0|] eqn:F; [|discriminate].
  destruct (dist_mode_parse (r_query rq)) as [m|] eqn:M; [|discriminate].
  destruct (e_load e) eqn:L; try discriminate.
  destruct (MAX_SQL_BODY_BYTES <? r_body_len rq); [discriminate|].
  destruct (negb (r_body_utf8 rq)); [discriminate|].
  destruct (r_body_blank rq); [discriminate|].
  unfold execute_statement. rewrite L.
  destruct (decide m e) as [dd ww] eqn:D.
  destruct dd.
  - destruct (e_dist e) eqn:X; try discriminate.
    destruct (r_encodes rq); [|discriminate]. intros H; inversion H; subst.
    assert (ww = None).
    { destruct m; unfold decide in D; try congruence.
      destruct (e_members_up e <? 2); [congruence|]. destruct (e_plannable e); congruence. }
    subst. repeat split; auto. exists m. auto.
  - destruct (e_local e) eqn:X; try discriminate.
    destruct (r_encodes rq); [|discriminate]. intros H; inversion H; subst.
    repeat split; auto. exists m. auto.
Qed.

Theorem force_never_answers_locally rq e f w :
  dist_mode_parse (r_query rq) = Some Force -> sql_handler rq e <> RespRows f false w.
Proof.
  intros M H. apply rows_response_inversion in H as (_ & _ & m & M' & D & _).
  rewrite M in M'. inversion M'; subst. cbn in D. congruence.
Qed.
Theorem local_never_distributes rq e f w :
  dist_mode_parse (r_query rq) = Some Off -> sql_handler rq e <> RespRows f true w.
Proof.
  intros M H. apply rows_response_inversion in H as (_ & _ & m & M' & D & _).
  rewrite M in M'. inversion M'; subst. cbn in D. congruence.
Qed.
Theorem auto_distributed_answer_iff rq e f w :
  dist_mode_parse (r_query rq) = Some Auto -> sql_handler rq e = RespRows f true w ->
  2 <= e_members_up e /\ e_plannable e = true /\ w = None /\ e_dist e = RunOk.
Proof.
  intros M H. apply rows_response_inversion in H as (_ & _ & m & M' & D & X).
  rewrite M in M'. inversion M'; subst.
  assert (fst (decide Auto e) = true) by now rewrite D.
  apply auto_distributes_iff in H as [H1 H2]. repeat split; auto.
  unfold decide in D. destruct (e_members_up e <? 2); [congruence|]. rewrite H2 in D. congruence.
Qed.
Theorem auto_local_answer_has_reason rq e f w :
  dist_mode_parse (r_query rq) = Some Auto -> sql_handler rq e = RespRows f false w ->
  (w = Some ROneMember /\ e_members_up e < 2) \/
  (w = Some RUnplannable /\ 2 <= e_members_up e /\ e_plannable e = false).
Proof.
  intros M H. apply rows_response_inversion in H as (_ & _ & m & M' & D & _).
  rewrite M in M'. inversion M'; subst. unfold decide in D.
  destruct (Z.ltb_spec (e_members_up e) 2) as [L|G].
  - left. split; [congruence | lia].
  - destruct (e_plannable e); [congruence|]. right. repeat split; [congruence | lia].
Qed.
(* every local answer carries a reason header, whatever the mode *)
Theorem local_answer_has_reason rq e f w :
  sql_handler rq e = RespRows f false w -> w <> None.
Proof.
  intros H. apply rows_response_inversion in H as (_ & _ & m & _ & D & _).
  destruct m; unfold decide in D.
  - destruct (e_members_up e <? 2); [congruence|]. destruct (e_plannable e); congruence.
  - congruence.
  - congruence.
Qed.

(* the no-fallback rule: once distribution was chosen, a failed distributed run is an error response, whatever
   the local engine would have answered *)
Theorem no_fallback_after_failure rq e f m :
  result_format_parse (r_query rq) = Some f -> dist_mode_parse (r_query rq) = Some m ->
  e_load e = Loaded -> body_ok rq ->
  fst (decide m e) = true -> e_dist e <> RunOk ->
  is_rows (sql_handler rq e) = false /\
  (forall k, e_dist e = RunErr k -> sql_handler rq e = RespErr (err_status k) true) /\
  (e_dist e = RunTaskFailed -> sql_handler rq e = RespErr 500 false).
Proof.
  intros F M L Bd D X. rewrite (handler_reaches_exec rq e f m F M L Bd).
  unfold execute_statement. rewrite L. destruct (decide m e) as [dd ww]. cbn [fst] in D. subst dd.
  destruct (e_dist e) eqn:E; [congruence| |]; repeat split; intros; try congruence; try discriminate.
Qed.
(* ... and the answer does not depend on e_local at all once distribution is chosen *)
Theorem distributed_choice_ignores_local rq e x :
  (forall m, dist_mode_parse (r_query rq) = Some m -> fst (decide m e) = true) ->
  sql_handler rq (mkEnv (e_load e) (e_members_up e) (e_plannable e) x (e_dist e)) = sql_handler rq e.
Proof.
  intros H. unfold sql_handler.
  destruct (result_format_parse (r_query rq)); [|reflexivity].
  destruct (dist_mode_parse (r_query rq)) as [m|] eqn:M; [|reflexivity].
  cbn [e_load]. destruct (e_load e) eqn:L; try reflexivity.
  specialize (H m eq_refl).
  unfold execute_statement. cbn [e_load]. rewrite L.
  assert (D : decide m (mkEnv Loaded (e_members_up e) (e_plannable e) x (e_dist e)) = decide m e)
    by (destruct m; reflexivity).
  rewrite D. destruct (decide m e) as [dd ww]. cbn [fst] in H. subst dd. cbn [e_dist]. reflexivity.
Qed.

(* when the answer is the local engine's to give (local mode; auto without two members up or without an exactly
   mergeable shape) and the local engine has one, the response is that answer, with its reason *)
Lemma should_be_local_decide m e :
  should_be_local m e = true -> exists r, decide m e = (false, Some r).
Proof.
  destruct m; cbn [should_be_local]; unfold decide, mergeable_and_peers.
  - destruct (Z.ltb_spec (e_members_up e) 2) as [L|G].
    + intros _. now exists ROneMember.
    + destruct (Z.leb_spec 2 (e_members_up e)); [|lia]. cbn [andb].
      destruct (e_plannable e); cbn [negb]; [discriminate|]. intros _. now exists RUnplannable.
  - discriminate.
  - intros _. now exists ROff.
Qed.
Theorem local_when_not_distributable rq e m :
  dist_mode_parse (r_query rq) = Some m -> e_load e = Loaded -> request_valid rq = true ->
  should_be_local m e = true -> e_local e = RunOk ->
  exists f r, sql_handler rq e = RespRows f false (Some r).
Proof.
  intros M L V S X. unfold request_valid in V.
  destruct (result_format_parse (r_query rq)) as [f|] eqn:F; [|discriminate].
  cbn [andb] in V. repeat (apply andb_true_iff in V as [V ?]).
  assert (Bd : body_ok rq).
  { unfold body_ok. repeat split; auto; [now apply Z.leb_le | now apply negb_true_iff]. }
  rewrite (handler_reaches_exec rq e f m F M L Bd).
  destruct (should_be_local_decide m e S) as [r D].
  unfold execute_statement. rewrite L, D, X. exists f, r.
  match goal with H : r_encodes rq = true |- _ => now rewrite H end.
Qed.
(* with a peer that is listed but not Up (Unknown or Down) next to this node, auto answers locally *)
Theorem auto_one_member_answers_locally rq e :
  dist_mode_parse (r_query rq) = Some Auto -> e_load e = Loaded -> request_valid rq = true ->
  e_members_up e < 2 -> e_local e = RunOk ->
  exists f, sql_handler rq e = RespRows f false (Some ROneMember).
Proof.
  intros M L V U X.
  assert (S : should_be_local Auto e = true).
  { cbn. unfold mergeable_and_peers. destruct (Z.leb_spec 2 (e_members_up e)); [lia | reflexivity]. }
  destruct (local_when_not_distributable rq e Auto M L V S X) as (f & r & H). exists f.
  destruct (auto_local_answer_has_reason rq e f (Some r) M H) as [[E _]|[_ [G _]]]; [|lia].
  inversion E; subst. exact H.
Qed.

(* the model meets the executable specification on every input (rows_ok is about the encoders: external) *)
Theorem model_meets_spec rq e m :
  dist_mode_parse (r_query rq) = Some m -> spec_ok m e (request_valid rq) (sql_handler rq e) true = true.
Proof.
  intros M. unfold spec_ok. destruct (e_load e) eqn:L.
  - rewrite not_ready_never_answers; [reflexivity | congruence].
  - rewrite not_ready_never_answers; [reflexivity | congruence].
  - apply andb_true_iff. split.
    + destruct (sql_handler rq e) as [| | | |f d w|] eqn:R; try reflexivity.
      pose proof (rows_response_inversion rq e f d w R) as (_ & _ & m' & M' & D & X).
      rewrite M in M'. inversion M'; subst m'.
      destruct d.
      * rewrite X. cbn [is_ok_run]. unfold mergeable_and_peers.
        destruct m; unfold decide in D.
        -- destruct (Z.ltb_spec (e_members_up e) 2); [congruence|]. destruct (e_plannable e); [|congruence].
           inversion D; subst. destruct (Z.leb_spec 2 (e_members_up e)); [reflexivity | lia].
        -- inversion D; subst. reflexivity.
        -- congruence.
      * rewrite X. cbn [is_ok_run]. unfold mergeable_and_peers.
        destruct m; unfold decide in D.
        -- destruct (Z.ltb_spec (e_members_up e) 2).
           ++ inversion D; subst. destruct (Z.leb_spec 2 (e_members_up e)); [lia | reflexivity].
           ++ destruct (e_plannable e); [congruence|]. inversion D; subst. now rewrite andb_false_r.
        -- congruence.
        -- inversion D; subst. reflexivity.
    + destruct (request_valid rq) eqn:V; [|reflexivity].
      destruct (should_be_local m e) eqn:S; [|reflexivity].
      destruct (e_local e) eqn:X; try reflexivity. cbn [andb is_ok_run].
      destruct (local_when_not_distributable rq e m M L V S X) as (f & r & ->). reflexivity.
Qed.

(* non-vacuity: concrete instances of every hypothesis shape used above *)
Example ex_env_cluster : env := mkEnv Loaded 3 true RunOk (RunErr KOther).
Example ex_req : request := mkReq (B "format=json") 20 true false true.
Example ex_no_fallback : sql_handler ex_req ex_env_cluster = RespErr 400 true.
Proof. vm_compute. reflexivity. Qed.
Example ex_auto_local : sql_handler ex_req (mkEnv Loaded 1 true RunOk RunOk) = RespRows FJson false (Some ROneMember).
Proof. vm_compute. reflexivity. Qed.
Example ex_auto_dist : sql_handler ex_req (mkEnv Loaded 2 true RunOk RunOk) = RespRows FJson true None.
Proof. vm_compute. reflexivity. Qed.
Example ex_unplannable : sql_handler ex_req (mkEnv Loaded 3 false RunOk RunOk) = RespRows FJson false (Some RUnplannable).
Proof. vm_compute. reflexivity. Qed.
Example ex_not_ready : sql_handler ex_req (mkEnv LoadFailed 3 true RunOk RunOk) = Resp503 true.
Proof. vm_compute. reflexivity. Qed.
Example ex_bad_param_before_gate :
  sql_handler (mkReq (B "format=xml") 20 true false true) (mkEnv Loading 1 true RunOk RunOk) = Resp400Param.
Proof. vm_compute. reflexivity. Qed.

(* the Arrow body is in no known encoding class, and an ordinary result is in none whatever the format *)
Theorem arrow_encoding_never_known s : known_encoding FArrow s = 0.
Proof. reflexivity. Qed.
Theorem plain_result_never_known f : known_encoding f (mkShape false false false) = 0.
Proof. destruct f; reflexivity. Qed.
