(* C43 model: optimizer::rules::vector_search::try_match (the shape matcher), the lowering of a
   VectorSearch node in physical::planner (Sort+Limit fallback) and the decision taken by
   physical::operators::vector_search::VectorSearchExec.
   Names are numbers (the harness lower-cases and interns them; the Rust compares names with
   eq_ignore_ascii_case).  Expressions are abstracted to what the matcher inspects. *)
From QV Require Export Base.Util.
Local Open Scope nat_scope.

Definition name := nat.
Inductive dir := Asc | Desc.
Inductive nullord := NullsFirst | NullsLast.
Inductive func := L2Distance | CosineDistance | CosineSimilarity | DotProduct | OtherFunc.
Inductive metric := ML2 | MCosine | MDot.

(* an expression after strip_alias *)
Inductive aexpr :=
| ECol (c : name)
| EVecLit (len : nat)     (* Literal(List) accepted by query_vector_from_scalar, of this length *)
| EOther.

Record skey := mkKey {
  k_fn : option func;      (* Some f when the key (after strip_alias) is ScalarFunc f *)
  k_args : list aexpr;
  k_dir : dir;
  k_nulls : nullord }.

(* one projection expression: a bare (possibly aliased) column, or anything computed *)
Inductive pitem := PCol (out src : name) | PComp (out : name).
Definition item_out (i : pitem) : name := match i with PCol o _ => o | PComp o => o end.

Inductive plan :=
| PScan (table : name) (fields : list (name * option nat)) (filter : bool)  (* Some d = float vector of width d *)
| PProject (items : list pitem) (input : plan)
| POther (input : plan)          (* Filter / Join / Aggregate / Distinct / ...: any other node *)
| PSort (keys : list skey) (input : plan)
| PLimit (skip : nat) (fetch : option nat) (input : plan).

Fixpoint schema (p : plan) : list name :=
  match p with
  | PScan _ fields _ => map fst fields
  | PProject items _ => map item_out items
  | POther q | PSort _ q | PLimit _ _ q => schema q
  end.

Record vs_node := mkVs {
  v_input : plan; v_table : name; v_column : name; v_qlen : nat; v_k : nat; v_skip : nat;
  v_metric : metric; v_filter : bool; v_outputs : list (name * name) (* (scan column, output field) *);
  v_key : skey }.

(* metric_of *)
Definition metric_of (f : func) : option (metric * dir) :=
  match f with
  | L2Distance => Some (ML2, Asc)
  | CosineDistance => Some (MCosine, Asc)
  | CosineSimilarity => Some (MCosine, Desc)
  | DotProduct => Some (MDot, Desc)
  | OtherFunc => None
  end.

Definition dir_eqb (a b : dir) : bool := match a, b with Asc, Asc | Desc, Desc => true | _, _ => false end.
Definition metric_eqb (a b : metric) : bool :=
  match a, b with ML2, ML2 | MCosine, MCosine | MDot, MDot => true | _, _ => false end.

(* constant_vector: a non-empty literal vector *)
Definition constant_vector (e : aexpr) : option nat :=
  match e with EVecLit len => if len =? 0 then None else Some len | _ => None end.

(* one Project level: every expression a bare column, giving (out, src) pairs *)
Fixpoint level_of (items : list pitem) : option (list (name * name)) :=
  match items with
  | [] => Some []
  | PCol o s :: r => match level_of r with Some l => Some ((o, s) :: l) | None => None end
  | PComp _ :: _ => None
  end.

Fixpoint lookup {B} (k : name) (l : list (name * B)) : option B :=
  match l with
  | [] => None
  | (k', v) :: r => if k' =? k then Some v else lookup k r
  end.

(* compose: current alias -> this level's source; fails when a source is not produced below *)
Fixpoint compose (a2s : list (name * name)) (level : list (name * name)) : option (list (name * name)) :=
  match a2s with
  | [] => Some []
  | (o, s) :: r =>
      match lookup s level, compose r level with
      | Some s', Some r' => Some ((o, s') :: r')
      | _, _ => None
      end
  end.

(* the walk from the Sort's input down to the Scan; returns (table, scan column, filter, alias map) *)
Fixpoint walk (cursor : plan) (a2s : list (name * name)) (vec_col : name) (qlen : nat)
  : option (name * name * bool * list (name * name)) :=
  match cursor with
  | PProject items inp =>
      match level_of items with
      | None => None
      | Some level =>
          match compose a2s level with
          | None => None
          | Some a2s' => walk inp a2s' vec_col qlen
          end
      end
  | PScan t fields filt =>
      let scan_col := match lookup vec_col a2s with Some s => s | None => vec_col end in
      match lookup scan_col fields with
      | Some (Some d) => if d =? qlen then Some (t, scan_col, filt, a2s) else None
      | _ => None
      end
  | _ => None
  end.

(* try_match *)
Definition matches (p : plan) : option vs_node :=
  match p with
  | PLimit skip (Some fetch) (PSort [key] input) =>
      if fetch =? 0 then None else
      match k_nulls key with NullsFirst => None | NullsLast =>
      match k_fn key with None => None | Some f =>
      match metric_of f with None => None | Some (m, want) =>
      if negb (dir_eqb (k_dir key) want) then None else
      match k_args key with
      | [a0; a1] =>
          let pick := match constant_vector a1, constant_vector a0 with
                      | Some q, _ => Some (a0, q)
                      | None, Some q => Some (a1, q)
                      | None, None => None
                      end in
          match pick with
          | Some (ECol c, q) =>
              let out := schema input in
              match walk input (map (fun n => (n, n)) out) c q with
              | Some (t, scol, filt, a2s) =>
                  Some (mkVs input t scol q fetch skip m filt (map (fun os => (snd os, fst os)) a2s) key)
              | None => None
              end
          | _ => None
          end
      | _ => None
      end end end end
  | _ => None
  end.

(* rewrite: try to match at this node first, otherwise recurse (single-input operators) *)
Fixpoint find_match (p : plan) : option vs_node :=
  match matches p with
  | Some v => Some v
  | None =>
      match p with
      | PScan _ _ _ => None
      | PProject _ q | POther q | PSort _ q | PLimit _ _ q => find_match q
      end
  end.

Inductive subplan : plan -> plan -> Prop :=
| sub_refl p : subplan p p
| sub_project s items q : subplan s q -> subplan s (PProject items q)
| sub_other s q : subplan s q -> subplan s (POther q)
| sub_sort s ks q : subplan s q -> subplan s (PSort ks q)
| sub_limit s a b q : subplan s q -> subplan s (PLimit a b q).

(* ---------- the canonical shape, as a specification ---------- *)
(* the chain below the Sort: pure column projections down to a scan *)
Fixpoint chain_scan (p : plan) : option (name * list (name * option nat) * bool) :=
  match p with
  | PScan t fields filt => Some (t, fields, filt)
  | PProject items inp => match level_of items with Some _ => chain_scan inp | None => None end
  | _ => None
  end.

Definition canonical (p : plan) (v : vs_node) : Prop :=
  exists skip fetch key input f m a0 a1 c q t scol filt fields a2s,
    p = PLimit skip (Some fetch) (PSort [key] input) /\
    fetch <> 0 /\
    k_nulls key = NullsLast /\
    k_fn key = Some f /\ metric_of f = Some (m, k_dir key) /\
    k_args key = [a0; a1] /\
    ((constant_vector a1 = Some q /\ a0 = ECol c) \/
     (constant_vector a1 = None /\ constant_vector a0 = Some q /\ a1 = ECol c)) /\
    chain_scan input = Some (t, fields, filt) /\
    lookup scol fields = Some (Some q) /\
    walk input (map (fun n => (n, n)) (schema input)) c q = Some (t, scol, filt, a2s) /\
    v = mkVs input t scol q fetch skip m filt (map (fun os => (snd os, fst os)) a2s) key.

(* physical::planner: LogicalPlan::VectorSearch(node) => the fallback plan *)
Definition lower_exact (v : vs_node) : plan :=
  PLimit (v_skip v) (Some (v_k v)) (PSort [v_key v] (v_input v)).

(* order on key values under a key's direction and NULL placement *)
Definition kle (k : skey) (x y : option Z) : bool :=
  match x, y with
  | None, None => true
  | None, Some _ => match k_nulls k with NullsFirst => true | NullsLast => false end
  | Some _, None => match k_nulls k with NullsFirst => false | NullsLast => true end
  | Some a, Some b => match k_dir k with Asc => (a <=? b)%Z | Desc => (b <=? a)%Z end
  end.

(* ------------------------------------------------------------------ *)
(* abstract evaluation: the distance is an arbitrary function          *)
Section Eval.
  Variable row : Type.
  Variable scan_rows : name -> bool -> list row.          (* table contents after the scan filter *)
  Variable keyval : skey -> row -> option Z.              (* value of a sort key on a row; None = NULL *)
  Variable proj : list pitem -> row -> row.
  Variable other : list row -> list row.

  (* a <= b under (direction, nulls placement) *)
  Definition key_le1 (k : skey) (a b : row) : bool :=
    match keyval k a, keyval k b with
    | None, None => true
    | None, Some _ => match k_nulls k with NullsFirst => true | NullsLast => false end
    | Some _, None => match k_nulls k with NullsFirst => false | NullsLast => true end
    | Some x, Some y => match k_dir k with Asc => (x <=? y)%Z | Desc => (y <=? x)%Z end
    end.
  Definition key_lt1 (k : skey) (a b : row) : bool := negb (key_le1 k b a).
  Fixpoint keys_le (ks : list skey) (a b : row) : bool :=
    match ks with
    | [] => true
    | k :: r => if key_lt1 k a b then true else if key_lt1 k b a then false else keys_le r a b
    end.

  Fixpoint eval (p : plan) : list row :=
    match p with
    | PScan t _ f => scan_rows t f
    | PProject items q => map (proj items) (eval q)
    | POther q => other (eval q)
    | PSort ks q => isort (keys_le ks) (eval q)
    | PLimit skip fetch q =>
        let l := skipn skip (eval q) in
        match fetch with Some k => firstn k l | None => l end
    end.

  (* VectorSearchExec::execute: the index is consulted only in Indexed mode and only when the
     provider answers; `knn` is whatever scan_knn returned after shape_output (arbitrary rows) *)
  Inductive mode := Exact | Indexed.
  Definition exec (md : mode) (knn : option (list row)) (v : vs_node) : list row :=
    match md, knn with
    | Indexed, Some r => r
    | _, _ => eval (lower_exact v)
    end.

  (* try_index with the provider made explicit: `provider` = None when the table is not registered or has no
     resolvable projection, otherwise its scan_knn (which may itself decline with None). The first component
     records whether scan_knn was called at all. *)
  Definition try_index (md : mode) (provider : option (vs_node -> option (list row))) (v : vs_node)
    : bool * option (list row) :=
    match md, provider with
    | Indexed, Some scan_knn => (true, scan_knn v)
    | _, _ => (false, None)
    end.
  Definition exec_p (md : mode) (provider : option (vs_node -> option (list row))) (v : vs_node) : list row :=
    match snd (try_index md provider v) with
    | Some r => r
    | None => eval (lower_exact v)
    end.
End Eval.

(* ---------- comparing what the harness saw with the model ---------- *)
Definition opt_nat_eqb (a b : option nat) : bool :=
  match a, b with Some x, Some y => x =? y | None, None => true | _, _ => false end.

(* the fields of the VectorSearch node the harness reads back: (k, skip, metric, column, query length, filter) *)
Definition vs_summary (v : vs_node) := (v_k v, v_skip v, v_metric v, v_column v, v_qlen v, v_filter v).
Definition summary_eqb (a b : nat * nat * metric * name * nat * bool) : bool :=
  let '(k1, s1, m1, c1, q1, f1) := a in let '(k2, s2, m2, c2, q2, f2) := b in
  (k1 =? k2) && (s1 =? s2) && metric_eqb m1 m2 && (c1 =? c2) && (q1 =? q2) && Bool.eqb f1 f2.
Definition fired_eqb (impl : option (nat * nat * metric * name * nat * bool)) (p : plan) : bool :=
  match impl, find_match p with
  | None, None => true
  | Some s, Some v => summary_eqb s (vs_summary v)
  | _, _ => false
  end.
