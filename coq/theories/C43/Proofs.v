(* C43 proofs: the matcher fires exactly on the canonical shape; the fallback is the replaced plan;
   exact mode / no index = literal sort + limit; tie-independence of the key sequence. *)
From QV Require Import Base.Util C43.Model.
From Coq Require Import Sorting.Sorted.
Local Open Scope nat_scope.

(* ------------------------------------------------------------------ *)
(* the canonical shape                                                  *)

Lemma dir_eqb_eq a b : dir_eqb a b = true -> a = b.
Proof. destruct a, b; cbn; congruence. Qed.

Lemma walk_chain cursor : forall a2s c q t scol filt a2s',
  walk cursor a2s c q = Some (t, scol, filt, a2s') ->
  exists fields, chain_scan cursor = Some (t, fields, filt) /\ lookup scol fields = Some (Some q).
Proof.
  induction cursor as [t0 fields filt0|items inp IH|inp IH|keys inp IH|s f inp IH];
    intros a2s c q t scol filt a2s' H; cbn [walk chain_scan] in *; try discriminate.
  - destruct (lookup (match lookup c a2s with Some s => s | None => c end) fields) as [[d|]|] eqn:E; try discriminate.
    destruct (d =? q) eqn:D; [|discriminate]. apply Nat.eqb_eq in D. subst d.
    inversion H; subst. exists fields. split; [reflexivity|exact E].
  - destruct (level_of items) as [lv|]; [|discriminate].
    destruct (compose a2s lv) as [a2|]; [|discriminate].
    eapply IH; exact H.
Qed.

Theorem matches_sound p v : matches p = Some v -> canonical p v.
Proof.
  unfold matches. intros H.
  destruct p as [| | | |skip [fetch|] [| | |[|key [|k2 ks]] input|]]; try discriminate.
  destruct (fetch =? 0) eqn:F; [discriminate|]. apply Nat.eqb_neq in F.
  destruct (k_nulls key) eqn:N; [discriminate|].
  destruct (k_fn key) as [f|] eqn:Fn; [|discriminate].
  destruct (metric_of f) as [[m want]|] eqn:M; [|discriminate].
  destruct (dir_eqb (k_dir key) want) eqn:D; [|discriminate]. cbn [negb] in H.
  apply dir_eqb_eq in D. subst want.
  destruct (k_args key) as [|a0 [|a1 [|a2 r]]] eqn:A; try discriminate.
  destruct (constant_vector a1) as [q1|] eqn:C1.
  - destruct a0 as [c| |]; try discriminate.
    destruct (walk input _ c q1) as [[[[t scol] filt] a2s]|] eqn:W; [|discriminate].
    inversion H; subst v; clear H.
    destruct (walk_chain _ _ _ _ _ _ _ _ W) as (fields & CS & LK).
    exists skip, fetch, key, input, f, m, (ECol c), a1, c, q1, t, scol, filt, fields, a2s.
    repeat split; try assumption; try reflexivity. left. split; [assumption|reflexivity].
  - destruct (constant_vector a0) as [q0|] eqn:C0; [|discriminate].
    destruct a1 as [c| |]; try discriminate.
    destruct (walk input _ c q0) as [[[[t scol] filt] a2s]|] eqn:W; [|discriminate].
    inversion H; subst v; clear H.
    destruct (walk_chain _ _ _ _ _ _ _ _ W) as (fields & CS & LK).
    exists skip, fetch, key, input, f, m, a0, (ECol c), c, q0, t, scol, filt, fields, a2s.
    repeat split; try assumption; try reflexivity. right. repeat split; try assumption; reflexivity.
Qed.

Theorem matches_complete p v : canonical p v -> matches p = Some v.
Proof.
  intros (skip & fetch & key & input & f & m & a0 & a1 & c & q & t & scol & filt & fields & a2s &
          Hp & Hf & Hn & Hfn & Hm & Ha & Hlit & _ & _ & Hw & Hv).
  subst p v. unfold matches.
  destruct (fetch =? 0) eqn:F; [apply Nat.eqb_eq in F; contradiction|].
  rewrite Hn, Hfn, Hm, Ha.
  assert (D : dir_eqb (k_dir key) (k_dir key) = true) by (destruct (k_dir key); reflexivity).
  rewrite D. cbn [negb].
  destruct Hlit as [[C1 E0]|[C1 [C0 E1]]].
  - rewrite C1. subst a0. rewrite Hw. reflexivity.
  - rewrite C1, C0. subst a1. rewrite Hw. reflexivity.
Qed.

(* the rule fires somewhere in a plan only at a node of the canonical shape *)
Theorem find_match_sound p : forall v, find_match p = Some v -> exists s, subplan s p /\ matches s = Some v.
Proof.
  induction p as [t fields filt|items q IH|q IH|ks q IH|a b q IH]; intros v H; cbn [find_match] in H.
  - destruct (matches (PScan t fields filt)) eqn:E; [|discriminate]. inversion H; subst. eexists; split; [constructor|exact E].
  - destruct (matches (PProject items q)) eqn:E.
    + inversion H; subst. eexists; split; [apply sub_refl|exact E].
    + destruct (IH v H) as (s & S & M). exists s. split; [constructor; exact S|exact M].
  - destruct (matches (POther q)) eqn:E.
    + inversion H; subst. eexists; split; [apply sub_refl|exact E].
    + destruct (IH v H) as (s & S & M). exists s. split; [constructor; exact S|exact M].
  - destruct (matches (PSort ks q)) eqn:E.
    + inversion H; subst. eexists; split; [apply sub_refl|exact E].
    + destruct (IH v H) as (s & S & M). exists s. split; [constructor; exact S|exact M].
  - destruct (matches (PLimit a b q)) eqn:E.
    + inversion H; subst. eexists; split; [apply sub_refl|exact E].
    + destruct (IH v H) as (s & S & M). exists s. split; [constructor; exact S|exact M].
Qed.

(* the fallback the planner builds IS the plan the rule replaced *)
Theorem match_roundtrip_syntactic p v : matches p = Some v -> lower_exact v = p.
Proof.
  intros H. apply matches_sound in H.
  destruct H as (skip & fetch & key & input & f & m & a0 & a1 & c & q & t & scol & filt & fields & a2s &
                 Hp & _ & _ & _ & _ & _ & _ & _ & _ & _ & Hv).
  subst p v. reflexivity.
Qed.

(* ------------------------------------------------------------------ *)
(* each violated side condition declines                                *)

Ltac declined :=
  match goal with |- matches ?p = None =>
    destruct (matches p) as [v|] eqn:E; [exfalso; apply matches_sound in E;
      destruct E as (skip' & fetch' & key' & input' & f' & m' & a0' & a1' & c' & q' & t' & scol' & filt' & fields' & a2s' &
                     Hp & Hf & Hn & Hfn & Hm & Ha & Hlit & Hcs & Hlk & Hw & Hv)|reflexivity]
  end.

Lemma declined_not_limit p : (forall s f i, p <> PLimit s f i) -> matches p = None.
Proof. intros H. declined. eapply H; exact Hp. Qed.
Lemma declined_no_fetch s i : matches (PLimit s None i) = None.
Proof. reflexivity. Qed.
Lemma declined_fetch_zero s i : matches (PLimit s (Some 0) i) = None.
Proof. declined. inversion Hp; subst. contradiction. Qed.
Lemma declined_not_sort s f i : (forall ks j, i <> PSort ks j) -> matches (PLimit s f i) = None.
Proof. intros H. declined. inversion Hp; subst. eapply H; reflexivity. Qed.
Lemma declined_key_count s f ks i : length ks <> 1 -> matches (PLimit s f (PSort ks i)) = None.
Proof. intros H. declined. inversion Hp; subst. apply H. reflexivity. Qed.
Lemma declined_nulls_first s f k i : k_nulls k = NullsFirst -> matches (PLimit s f (PSort [k] i)) = None.
Proof. intros H. declined. inversion Hp; subst. congruence. Qed.
Lemma declined_not_distance s f k i :
  (k_fn k = None \/ k_fn k = Some OtherFunc) -> matches (PLimit s f (PSort [k] i)) = None.
Proof.
  intros H. declined. inversion Hp; subst.
  destruct H as [H|H]; rewrite H in Hfn; [discriminate|]. inversion Hfn; subst. discriminate.
Qed.
(* ASC for l2_distance / cosine_distance, DESC for dot_product / cosine_similarity *)
Lemma declined_direction s f k i fn :
  k_fn k = Some fn ->
  k_dir k = match fn with L2Distance | CosineDistance => Desc | _ => Asc end ->
  matches (PLimit s f (PSort [k] i)) = None.
Proof.
  intros H1 H2. declined. inversion Hp; subst. rewrite H1 in Hfn. inversion Hfn; subst f'.
  rewrite H2 in Hm. destruct fn; cbn in Hm; discriminate.
Qed.
Lemma declined_arity s f k i : length (k_args k) <> 2 -> matches (PLimit s f (PSort [k] i)) = None.
Proof. intros H. declined. inversion Hp; subst. rewrite Ha in H. apply H. reflexivity. Qed.
Lemma declined_no_literal s f k i :
  (forall a, In a (k_args k) -> constant_vector a = None) -> matches (PLimit s f (PSort [k] i)) = None.
Proof.
  intros H. declined. inversion Hp; subst. rewrite Ha in H.
  destruct Hlit as [[C _]|[_ [C _]]]; rewrite H in C; try discriminate; cbn; auto.
Qed.
Lemma declined_no_column s f k i :
  (forall a, In a (k_args k) -> forall c, a <> ECol c) -> matches (PLimit s f (PSort [k] i)) = None.
Proof.
  intros H. declined. inversion Hp; subst. rewrite Ha in H.
  destruct Hlit as [[_ C]|[_ [_ C]]]; eapply H; try exact C; cbn; auto.
Qed.
(* a computed projection, or a Filter/Join/Aggregate/... between the Sort and the Scan *)
Lemma declined_not_chain s f k i : chain_scan i = None -> matches (PLimit s f (PSort [k] i)) = None.
Proof. intros H. declined. inversion Hp; subst. congruence. Qed.
(* the scan column is not a float vector, or its width differs from the literal's length *)
Lemma declined_dimension s f k i t fields filt :
  chain_scan i = Some (t, fields, filt) ->
  (forall c q, In (EVecLit q) (k_args k) -> lookup c fields <> Some (Some q)) ->
  matches (PLimit s f (PSort [k] i)) = None.
Proof.
  intros H1 H2. declined. inversion Hp; subst. rewrite H1 in Hcs. inversion Hcs; subst.
  apply (H2 scol' q'); [|exact Hlk].
  rewrite Ha.
  destruct Hlit as [[C _]|[_ [C _]]].
  - destruct a1' as [|len|]; cbn in C; try discriminate. destruct (len =? 0); inversion C; subst. cbn; auto.
  - destruct a0' as [|len|]; cbn in C; try discriminate. destruct (len =? 0); inversion C; subst. cbn; auto.
Qed.

(* ------------------------------------------------------------------ *)
(* evaluation: exact mode is literally sort + limit                      *)

Section EvalProofs.
  Variable row : Type.
  Variable scan_rows : name -> bool -> list row.
  Variable keyval : skey -> row -> option Z.
  Variable proj : list pitem -> row -> row.
  Variable other : list row -> list row.

  Notation eval := (eval row scan_rows keyval proj other).
  Notation exec := (exec row scan_rows keyval proj other).
  Notation key_le1 := (key_le1 row keyval).
  Notation keys_le := (keys_le row keyval).

  Theorem match_roundtrip p v : matches p = Some v -> eval (lower_exact v) = eval p.
  Proof. intros H. rewrite (match_roundtrip_syntactic p v H). reflexivity. Qed.

  Theorem exact_is_sort_limit p v : matches p = Some v ->
    eval p = firstn (v_k v) (skipn (v_skip v) (isort (keys_le [v_key v]) (eval (v_input v)))).
  Proof. intros H. rewrite <- (match_roundtrip_syntactic p v H). reflexivity. Qed.

  (* default mode never looks at the index; a provider without an index always gets the exact path *)
  Theorem exact_mode_exact p v knn : matches p = Some v -> exec Exact knn v = eval p.
  Proof. intros H. cbn [Model.exec]. apply match_roundtrip; exact H. Qed.
  Theorem no_index_exact p v md : matches p = Some v -> exec md None v = eval p.
  Proof. intros H. destruct md; cbn [Model.exec]; apply match_roundtrip; exact H. Qed.

  (* exact mode never consults the provider, whatever it is capable of, and answers with the replaced plan *)
  Theorem exact_never_consults p v provider : matches p = Some v ->
    fst (try_index row Exact provider v) = false /\
    exec_p row scan_rows keyval proj other Exact provider v = eval p.
  Proof. intros H. split; [reflexivity|]. unfold exec_p. cbn. apply match_roundtrip; exact H. Qed.
  (* the provider is consulted only in Indexed mode, and a declining provider still gets the exact answer *)
  Theorem consulted_only_indexed md provider v : fst (try_index row md provider v) = true -> md = Indexed.
  Proof. destruct md, provider; cbn; congruence. Qed.
  Theorem declining_provider_exact p v md provider : matches p = Some v ->
    (forall scan_knn, provider = Some scan_knn -> scan_knn v = None) ->
    exec_p row scan_rows keyval proj other md provider v = eval p.
  Proof.
    intros H D. unfold exec_p. destruct md, provider as [f|]; cbn; try (apply match_roundtrip; exact H).
    rewrite (D f eq_refl). apply match_roundtrip; exact H.
  Qed.

  (* ---- ties: the key sequence does not depend on how the sort breaks ties ---- *)
  Lemma key_le1_kle k a b : key_le1 k a b = kle k (keyval k a) (keyval k b).
  Proof. reflexivity. Qed.
  Lemma kle_total k x y : kle k x y = true \/ kle k y x = true.
  Proof. destruct x, y; cbn; destruct (k_nulls k), (k_dir k); auto; rewrite !Z.leb_le; lia. Qed.
  Lemma kle_trans k x y z : kle k x y = true -> kle k y z = true -> kle k x z = true.
  Proof.
    destruct x, y, z; cbn; destruct (k_nulls k), (k_dir k); auto; try discriminate;
      rewrite !Z.leb_le; lia.
  Qed.
  Lemma kle_antisym k x y : kle k x y = true -> kle k y x = true -> x = y.
  Proof.
    destruct x, y; cbn; destruct (k_nulls k), (k_dir k); auto; try discriminate;
      rewrite !Z.leb_le; intros; f_equal; lia.
  Qed.

  Lemma keys_le_single k a b : keys_le [k] a b = key_le1 k a b.
  Proof.
    cbn [Model.keys_le]. unfold key_lt1. rewrite !key_le1_kle.
    destruct (kle_total k (keyval k a) (keyval k b)) as [H|H];
      destruct (kle k (keyval k a) (keyval k b)) eqn:E1, (kle k (keyval k b) (keyval k a)) eqn:E2;
      cbn; congruence.
  Qed.

  Definition ksorted (k : skey) (l : list (option Z)) : Prop := StronglySorted (fun x y => kle k x y = true) l.

  Lemma insert_sorted k x l :
    ksorted k (map (keyval k) l) -> ksorted k (map (keyval k) (insert (keys_le [k]) x l)).
  Proof.
    induction l as [|h t IH]; intros S; cbn [insert map].
    - constructor; constructor.
    - rewrite keys_le_single, key_le1_kle.
      destruct (kle k (keyval k x) (keyval k h)) eqn:E; cbn [map].
      + constructor; [exact S|]. constructor; [exact E|].
        inversion S as [|? ? _ F]; subst. eapply Forall_impl; [|exact F].
        intros y Hy. eapply kle_trans; eassumption.
      + inversion S as [|? ? S' F]; subst. constructor; [apply IH; exact S'|].
        assert (Hx : kle k (keyval k h) (keyval k x) = true)
          by (destruct (kle_total k (keyval k x) (keyval k h)); congruence).
        rewrite Forall_forall in *. intros y Hy.
        apply in_map_iff in Hy. destruct Hy as (r & <- & Hr).
        apply (Permutation_in _ (insert_perm (keys_le [k]) x t)) in Hr. destruct Hr as [<-|Hr]; [exact Hx|].
        apply F. apply in_map. exact Hr.
  Qed.

  Lemma isort_sorted k l : ksorted k (map (keyval k) (isort (keys_le [k]) l)).
  Proof.
    induction l as [|h t IH]; cbn [isort fold_right map]; [constructor|].
    apply insert_sorted. exact IH.
  Qed.

  Lemma sorted_perm_unique k l1 : forall l2,
    ksorted k l1 -> ksorted k l2 -> Permutation l1 l2 -> l1 = l2.
  Proof.
    induction l1 as [|a t IH]; intros l2 S1 S2 P.
    - apply Permutation_nil in P. subst; reflexivity.
    - destruct l2 as [|b u]; [apply Permutation_sym, Permutation_nil in P; discriminate|].
      inversion S1 as [|? ? S1' F1]; subst. inversion S2 as [|? ? S2' F2]; subst.
      rewrite Forall_forall in F1, F2.
      assert (a = b).
      { assert (Ia : In a (b :: u)) by (eapply Permutation_in; [exact P|left; reflexivity]).
        assert (Ib : In b (a :: t)) by (eapply Permutation_in; [apply Permutation_sym; exact P|left; reflexivity]).
        destruct Ia as [->|Ia]; [reflexivity|]. destruct Ib as [->|Ib]; [reflexivity|].
        apply (kle_antisym k); [apply F1; exact Ib|apply F2; exact Ia]. }
      subst b. f_equal. apply IH; try assumption. eapply Permutation_cons_inv; exact P.
  Qed.

  (* ANY full sort of the same rows followed by OFFSET/LIMIT yields the same key sequence *)
  Theorem topk_keys_unique p v l' : matches p = Some v ->
    Permutation l' (eval (v_input v)) -> ksorted (v_key v) (map (keyval (v_key v)) l') ->
    map (keyval (v_key v)) (firstn (v_k v) (skipn (v_skip v) l')) = map (keyval (v_key v)) (eval p).
  Proof.
    intros H P S. rewrite (exact_is_sort_limit p v H).
    rewrite <- !firstn_map, <- !skipn_map. f_equal. f_equal.
    apply (sorted_perm_unique (v_key v)); [exact S|apply isort_sorted|].
    apply Permutation_map. rewrite P. symmetry. apply isort_perm.
  Qed.

  (* and the returned rows are a sub-bag of the input rows *)
  Theorem topk_subbag p v : matches p = Some v ->
    exists rest, Permutation (eval p ++ rest) (eval (v_input v)).
  Proof.
    intros H. rewrite (exact_is_sort_limit p v H).
    set (L := isort (keys_le [v_key v]) (eval (v_input v))).
    exists (skipn (v_k v) (skipn (v_skip v) L) ++ firstn (v_skip v) L).
    rewrite app_assoc, firstn_skipn.
    rewrite Permutation_app_comm, firstn_skipn. apply isort_perm.
  Qed.
End EvalProofs.

(* satisfiable: the canonical cosine shape over Project(Scan) matches *)
Example canonical_example :
  let key := mkKey (Some CosineDistance) [ECol 1; EVecLit 3] Asc NullsLast in
  let p := PLimit 2 (Some 10) (PSort [key] (PProject [PCol 0 0; PCol 7 1] (PScan 5 [(0, None); (1, Some 3)] true))) in
  exists v, matches p = Some v /\ v_k v = 10 /\ v_skip v = 2 /\ v_column v = 1 /\ v_filter v = true.
Proof. cbn. eexists. split; [reflexivity|]. cbn. repeat split. Qed.
