(* C28: with every WITH name defined once (and different from the visible table names) the binder's global map
   resolves every reference like lexical scoping, and the planner's name-keyed cache returns the rows of evaluating
   each reference separately; with a re-used name both fail (witnesses). *)
From QV Require Import C28.Model.

(* ================= resolution ================= *)
Lemma nodupb_NoDup l : nodupb l = true -> NoDup l.
Proof.
  induction l as [|n l IH]; cbn; intros H; constructor; apply andb_true_iff in H as [H1 H2]; auto.
  intros Hin. apply negb_true_iff in H1.
  assert (existsb (Nat.eqb n) l = true) as E by (apply existsb_exists; exists n; split; auto; apply Nat.eqb_refl).
  congruence.
Qed.

Lemma NoDup_app_l {A} (a b : list A) : NoDup (a ++ b) -> NoDup a.
Proof. induction a as [|x a IH]; cbn; intros H; constructor; inversion H; subst; auto. intros Hx. apply H2. apply in_or_app. now left. Qed.
Lemma NoDup_app_r {A} (a b : list A) : NoDup (a ++ b) -> NoDup b.
Proof. induction a as [|x a IH]; cbn; intros H; auto. inversion H; auto. Qed.
Lemma NoDup_app_disj {A} (a b : list A) x : NoDup (a ++ b) -> In x a -> In x b -> False.
Proof.
  induction a as [|y a IH]; cbn; intros H Ha Hb; [tauto|]. inversion H; subst. destruct Ha as [->|Ha]; [|eauto].
  apply H2. apply in_or_app. now right.
Qed.

(* the binder agrees with lexical scoping: L is the lexical environment, E the binder's map, which may hold more
   (leaked) names as long as none of them is looked up *)
Lemma resolve_agree w : forall L E r,
  NoDup (defs w) -> (forall n, In n (defs w) -> lookup n L = None) ->
  (forall n b, lookup n L = Some b -> lookup n E = Some b) ->
  resolve_sql L w = Some r ->
  exists E', resolve_eng E w = Some (r, E') /\ (forall n, ~ In n (defs w) -> lookup n E' = lookup n E).
Proof.
  induction w as [n|n d IHd body IHb|q IH p|q IH es|jt l IHl r0 IHr on|q IHq e sub IHs];
    intros L E r ND HL HE HR; cbn [resolve_sql resolve_eng defs] in *.
  - destruct (lookup n L) as [b|] eqn:El; [|discriminate]. cbn in HR. injection HR as <-.
    rewrite (HE _ _ El). cbn. eauto.
  - destruct (resolve_sql L d) as [rd|] eqn:Ed; [|discriminate].
    inversion ND as [|? ? Hn ND']; subst.
    destruct (IHd L E rd (NoDup_app_l _ _ ND') ltac:(intros m Hm; apply HL; right; apply in_or_app; now left) HE Ed)
      as (E1 & R1 & F1).
    rewrite R1.
    destruct (IHb ((n, BCte rd) :: L) ((n, BCte rd) :: E1) r (NoDup_app_r _ _ ND')) as (E2 & R2 & F2); auto.
    + intros m Hm. cbn [lookup]. destruct (Nat.eqb n m) eqn:Enm.
      * apply Nat.eqb_eq in Enm. subst m. exfalso. apply Hn. apply in_or_app. now right.
      * apply HL. right. apply in_or_app. now right.
    + intros m b. cbn [lookup]. destruct (Nat.eqb n m); [auto|]. intros Hm.
      rewrite F1; [now apply HE|]. intros Hd.
      rewrite (HL m) in Hm; [discriminate|]. right. apply in_or_app. now left.
    + exists E2. split; [exact R2|]. intros m Hm. rewrite F2 by (intros Hx; apply Hm; right; apply in_or_app; now right).
      cbn [lookup]. destruct (Nat.eqb n m) eqn:Enm; [apply Nat.eqb_eq in Enm; subst; exfalso; apply Hm; now left|].
      apply F1. intros Hx. apply Hm. right. apply in_or_app. now left.
  - destruct (resolve_sql L q) as [rq0|] eqn:Eq; [|discriminate]. cbn in HR. injection HR as <-.
    destruct (IH L E rq0 ND HL HE Eq) as (E1 & R1 & F1). rewrite R1. eauto.
  - destruct (resolve_sql L q) as [rq0|] eqn:Eq; [|discriminate]. cbn in HR. injection HR as <-.
    destruct (IH L E rq0 ND HL HE Eq) as (E1 & R1 & F1). rewrite R1. eauto.
  - destruct (resolve_sql L l) as [a|] eqn:Ea; [|discriminate]. destruct (resolve_sql L r0) as [b|] eqn:Eb; [|discriminate].
    injection HR as <-.
    destruct (IHl L E a (NoDup_app_l _ _ ND) ltac:(intros m Hm; apply HL; apply in_or_app; now left) HE Ea) as (E1 & R1 & F1).
    rewrite R1.
    destruct (IHr L E1 b (NoDup_app_r _ _ ND) ltac:(intros m Hm; apply HL; apply in_or_app; now right)) as (E2 & R2 & F2); auto.
    + intros m bd Hm. rewrite F1; [now apply HE|]. intros Hd. rewrite (HL m) in Hm; [discriminate|]. apply in_or_app. now left.
    + rewrite R2. exists E2. split; [reflexivity|]. intros m Hm.
      rewrite F2 by (intros Hx; apply Hm; apply in_or_app; now right).
      apply F1. intros Hx. apply Hm. apply in_or_app. now left.
  - destruct (resolve_sql L q) as [a|] eqn:Ea; [|discriminate]. destruct (resolve_sql L sub) as [b|] eqn:Eb; [|discriminate].
    injection HR as <-.
    destruct (IHq L E a (NoDup_app_l _ _ ND) ltac:(intros m Hm; apply HL; apply in_or_app; now left) HE Ea) as (E1 & R1 & F1).
    rewrite R1.
    destruct (IHs L E1 b (NoDup_app_r _ _ ND) ltac:(intros m Hm; apply HL; apply in_or_app; now right)) as (E2 & R2 & F2); auto.
    + intros m bd Hm. rewrite F1; [now apply HE|]. intros Hd. rewrite (HL m) in Hm; [discriminate|]. apply in_or_app. now left.
    + rewrite R2. exists E2. split; [reflexivity|]. intros m Hm.
      rewrite F2 by (intros Hx; apply Hm; apply in_or_app; now right).
      apply F1. intros Hx. apply Hm. apply in_or_app. now left.
Qed.

Lemma unique_names_spec E w :
  unique_namesb E w = true -> NoDup (defs w) /\ (forall n, In n (defs w) -> lookup n E = None).
Proof.
  unfold unique_namesb. intros H. apply andb_true_iff in H as [H1 H2]. split; [now apply nodupb_NoDup|].
  intros n Hn. rewrite forallb_forall in H2. specialize (H2 n Hn). unfold unbound in H2. now destruct (lookup n E).
Qed.

Theorem cte_unique_names_sound E w r :
  unique_namesb E w = true -> resolve_sql E w = Some r -> binder_resolve true E w = Some r.
Proof.
  intros U R. destruct (unique_names_spec _ _ U) as [ND HL].
  destruct (resolve_agree w E E r ND HL ltac:(auto) R) as (E' & RE & _).
  unfold binder_resolve. now rewrite RE.
Qed.

(* ================= every name denotes one plan ================= *)
Definition coherent (r : rq) : Prop :=
  forall n b1 b2, In (n, b1) (refs r) -> In (n, b2) (refs r) -> b1 = b2.

Definition env_refs (L : env) : list (name * rq) :=
  flat_map (fun nb => match snd nb with BCte b => (fst nb, b) :: refs b | BTable _ _ => [] end) L.

Lemma lookup_env_refs n L b : lookup n L = Some (BCte b) -> incl ((n, b) :: refs b) (env_refs L).
Proof.
  induction L as [|[m bd] L IH]; cbn [lookup env_refs flat_map fst snd]; [discriminate|].
  destruct (Nat.eqb m n) eqn:E.
  - intros H. injection H as ->. apply Nat.eqb_eq in E. subst m. now apply incl_appl, incl_refl.
  - intros H. apply incl_appr. now apply IH.
Qed.

Definition updc (C : name -> option rq) (n : name) (b : rq) : name -> option rq :=
  fun m => if Nat.eqb m n then Some b else C m.

Lemma coh_resolve w : forall L r (C : name -> option rq),
  resolve_sql L w = Some r ->
  (forall n b, In (n, b) (env_refs L) -> C n = Some b) ->
  (forall n, In n (defs w) -> C n = None) -> NoDup (defs w) ->
  exists C', (forall n, ~ In n (defs w) -> C' n = C n) /\ (forall n b, C n = Some b -> C' n = Some b)
             /\ (forall n b, In (n, b) (refs r) -> C' n = Some b).
Proof.
  induction w as [n|n d IHd body IHb|q IH p|q IH es|jt l IHl r0 IHr on|q IHq e sub IHs];
    intros L r C HR HE HD ND; cbn [resolve_sql defs] in *.
  - destruct (lookup n L) as [bd|] eqn:El; [|discriminate]. cbn in HR. injection HR as <-.
    exists C. repeat split; auto. intros m b Hm. destruct bd as [i w|b0]; cbn [ref_of refs] in Hm; [destruct Hm|].
    apply HE. exact (lookup_env_refs _ _ _ El _ Hm).
  - destruct (resolve_sql L d) as [rd|] eqn:Ed; [|discriminate].
    inversion ND as [|? ? Hn ND']; subst.
    destruct (IHd L rd C Ed HE ltac:(intros m Hm; apply HD; right; apply in_or_app; now left) (NoDup_app_l _ _ ND'))
      as (C1 & F1 & M1 & R1).
    assert (C1 n = None) as C1n.
    { rewrite F1; [apply HD; now left|]. intros Hx. apply Hn. apply in_or_app. now left. }
    destruct (IHb ((n, BCte rd) :: L) r (updc C1 n rd) HR) as (C3 & F3 & M3 & R3).
    + intros m b Hm. cbn [env_refs flat_map fst snd] in Hm. unfold updc.
      destruct Hm as [Hm|Hm]; [injection Hm as <- <-; now rewrite Nat.eqb_refl|].
      apply in_app_or in Hm as [Hm|Hm].
      * pose proof (R1 _ _ Hm) as Hc. destruct (Nat.eqb m n) eqn:E; [apply Nat.eqb_eq in E; subst; congruence | exact Hc].
      * pose proof (M1 _ _ (HE _ _ Hm)) as Hc. destruct (Nat.eqb m n) eqn:E; [apply Nat.eqb_eq in E; subst; congruence | exact Hc].
    + intros m Hm. unfold updc. destruct (Nat.eqb m n) eqn:E.
      * apply Nat.eqb_eq in E. subst. exfalso. apply Hn. apply in_or_app. now right.
      * rewrite F1; [apply HD; right; apply in_or_app; now right|]. intros Hx. exact (NoDup_app_disj _ _ _ ND' Hx Hm).
    + exact (NoDup_app_r _ _ ND').
    + exists C3. repeat split.
      * intros m Hm. rewrite F3 by (intros Hx; apply Hm; right; apply in_or_app; now right). unfold updc.
        destruct (Nat.eqb m n) eqn:E; [apply Nat.eqb_eq in E; subst; exfalso; apply Hm; now left|].
        apply F1. intros Hx. apply Hm. right. apply in_or_app. now left.
      * intros m b Hm. apply M3. unfold updc. destruct (Nat.eqb m n) eqn:E.
        -- apply Nat.eqb_eq in E. subst. rewrite (HD n) in Hm; [discriminate | now left].
        -- now apply M1.
      * exact R3.
  - destruct (resolve_sql L q) as [rq0|] eqn:Eq; [|discriminate]. cbn in HR. injection HR as <-.
    exact (IH L rq0 C Eq HE HD ND).
  - destruct (resolve_sql L q) as [rq0|] eqn:Eq; [|discriminate]. cbn in HR. injection HR as <-.
    exact (IH L rq0 C Eq HE HD ND).
  - destruct (resolve_sql L l) as [a|] eqn:Ea; [|discriminate]. destruct (resolve_sql L r0) as [b|] eqn:Eb; [|discriminate].
    injection HR as <-.
    destruct (IHl L a C Ea HE ltac:(intros m Hm; apply HD; apply in_or_app; now left) (NoDup_app_l _ _ ND)) as (C1 & F1 & M1 & R1).
    destruct (IHr L b C1 Eb) as (C2 & F2 & M2 & R2).
    + intros m x Hm. apply M1. now apply HE.
    + intros m Hm. rewrite F1; [apply HD; apply in_or_app; now right|]. intros Hx. exact (NoDup_app_disj _ _ _ ND Hx Hm).
    + exact (NoDup_app_r _ _ ND).
    + exists C2. repeat split.
      * intros m Hm. rewrite F2 by (intros Hx; apply Hm; apply in_or_app; now right). apply F1. intros Hx. apply Hm. apply in_or_app. now left.
      * intros m x Hm. apply M2. now apply M1.
      * intros m x Hm. cbn [refs] in Hm. apply in_app_or in Hm as [Hm|Hm]; [apply M2; now apply R1 | now apply R2].
  - destruct (resolve_sql L q) as [a|] eqn:Ea; [|discriminate]. destruct (resolve_sql L sub) as [b|] eqn:Eb; [|discriminate].
    injection HR as <-.
    destruct (IHq L a C Ea HE ltac:(intros m Hm; apply HD; apply in_or_app; now left) (NoDup_app_l _ _ ND)) as (C1 & F1 & M1 & R1).
    destruct (IHs L b C1 Eb) as (C2 & F2 & M2 & R2).
    + intros m x Hm. apply M1. now apply HE.
    + intros m Hm. rewrite F1; [apply HD; apply in_or_app; now right|]. intros Hx. exact (NoDup_app_disj _ _ _ ND Hx Hm).
    + exact (NoDup_app_r _ _ ND).
    + exists C2. repeat split.
      * intros m Hm. rewrite F2 by (intros Hx; apply Hm; apply in_or_app; now right). apply F1. intros Hx. apply Hm. apply in_or_app. now left.
      * intros m x Hm. apply M2. now apply M1.
      * intros m x Hm. cbn [refs] in Hm. apply in_app_or in Hm as [Hm|Hm]; [apply M2; now apply R1 | now apply R2].
Qed.

(* an environment of tables only (the catalog) *)
Definition tables_only (E : env) : Prop := env_refs E = [].

Theorem unique_coherent E w r :
  tables_only E -> unique_namesb E w = true -> resolve_sql E w = Some r -> coherent r.
Proof.
  intros TE U R. destruct (unique_names_spec _ _ U) as [ND HL].
  destruct (coh_resolve w E r (fun _ => None) R) as (C & _ & _ & HC); auto.
  - intros n b Hb. rewrite TE in Hb. destruct Hb.
  - intros n b1 b2 H1 H2. pose proof (HC _ _ H1). pose proof (HC _ _ H2). congruence.
Qed.

(* ================= the cache ================= *)
Lemma rsize_pos r : (1 <= rsize r)%nat.
Proof. destruct r; cbn; lia. Qed.

Lemma refs_sub r : forall n b, In (n, b) (refs r) -> incl (refs b) (refs r) /\ (rsize b < rsize r)%nat.
Proof.
  induction r as [i w|m body IH|q IH p|q IH es|jt l IHl r0 IHr on|q IHq e sub IHs]; intros n b H; cbn [refs rsize] in *.
  - destruct H.
  - destruct H as [H|H].
    + injection H as -> ->. split; [apply incl_tl, incl_refl | lia].
    + destruct (IH _ _ H) as [I S]. split; [now apply incl_tl | lia].
  - destruct (IH _ _ H). split; [assumption | lia].
  - destruct (IH _ _ H). split; [assumption | lia].
  - apply in_app_or in H as [H|H].
    + destruct (IHl _ _ H). split; [now apply incl_appl | lia].
    + destruct (IHr _ _ H). split; [now apply incl_appr | lia].
  - apply in_app_or in H as [H|H].
    + destruct (IHq _ _ H). split; [now apply incl_appl | lia].
    + destruct (IHs _ _ H). split; [now apply incl_appr | lia].
Qed.

Lemma cands_in n r b : In b (cands n r) -> In (n, b) (refs r).
Proof.
  unfold cands. intros H. apply in_map_iff in H as ([m b'] & E & H). cbn in E. subst b'.
  apply filter_In in H as [H E]. cbn in E. apply Nat.eqb_eq in E. now subst.
Qed.

Lemma width_inline r : width (inline r) = rwidth r.
Proof.
  induction r as [i w|m body IH|q IH p|q IH es|jt l IHl r0 IHr on|q IHq e sub IHs]; cbn [inline width rwidth]; auto.
  rewrite IHl, IHr. reflexivity.
Qed.

Section MatProof.
  Variable Q : qsem.
  Variable db : list rel.
  Variable pick : name -> list rq -> option rq.
  Variable perm : option (list name).
  Variable rowwise : bool.
  Hypothesis HV : q_values_empty Q = false.
  Hypothesis Hpick : forall n l b, pick n l = Some b -> In b l.
  Variable r0 : rq.
  Hypothesis Hcoh : coherent r0.

  Local Notation im := (inline_m Q db pick perm rowwise).

  Lemma width_inline_m : forall fuel C r, width (im fuel C r) = rwidth r.
  Proof.
    induction fuel as [|f IH]; intros C r; [reflexivity|].
    destruct r as [i w|m body|q p|q es|jt l r1 on|q e sub]; cbn [inline_m width rwidth]; auto.
    - destruct (lookup_c m C); [reflexivity | apply IH].
    - now rewrite !IH.
  Qed.

  Lemma qeval_lits w rows : qeval Q db (QValues w (lits rows)) = rows.
  Proof.
    cbn [qeval]. rewrite HV. unfold lits. rewrite map_map.
    induction rows as [|r rows IH]; cbn [map]; [reflexivity|]. rewrite IH. f_equal.
    rewrite map_map. cbn [eval]. apply map_id.
  Qed.

  (* every cached relation is the separately evaluated rows of every plan bound under that name *)
  Definition sound (C : cache) : Prop :=
    forall n rows b, lookup_c n C = Some rows -> In (n, b) (refs r0) -> rows = qeval Q db (inline b).

  Lemma sound_if (b : bool) (X C : cache) : sound X -> sound C -> sound (if b then X else C).
  Proof. destruct b; auto. Qed.

  Lemma fold_sound fuel (sub : rq) :
    incl (refs sub) (refs r0) ->
    (forall C b, sound C -> incl (refs b) (refs r0) -> (rsize b < rsize sub)%nat -> qeval Q db (im fuel C b) = qeval Q db (inline b)) ->
    forall order C, sound C ->
    sound (fold_left (fun C0 n => match pick n (cands n sub) with
                                  | Some b => (n, qeval Q db (im fuel C0 b)) :: C0
                                  | None => C0
                                  end) order C).
  Proof.
    intros Hsub Hev. induction order as [|n order IH]; intros C HC; cbn [fold_left]; [exact HC|].
    apply IH. destruct (pick n (cands n sub)) as [b|] eqn:Ep; [|exact HC].
    pose proof (cands_in _ _ _ (Hpick _ _ _ Ep)) as Hb.
    destruct (refs_sub _ _ _ Hb) as [Hi Hs].
    intros m rows b' Hl Hin. cbn [lookup_c] in Hl. destruct (Nat.eqb n m) eqn:E.
    - apply Nat.eqb_eq in E. subst m. injection Hl as <-.
      rewrite (Hev C b HC (fun x Hx => Hsub _ (Hi _ Hx)) Hs).
      now rewrite (Hcoh n b b' (Hsub _ Hb) Hin).
    - exact (HC _ _ _ Hl Hin).
  Qed.

  Lemma inline_m_sound : forall fuel C r,
    sound C -> incl (refs r) (refs r0) -> (rsize r <= fuel)%nat ->
    qeval Q db (im fuel C r) = qeval Q db (inline r).
  Proof.
    induction fuel as [|f IH]; intros C r HC Hi Hs; [pose proof (rsize_pos r); lia|].
    destruct r as [i w|m body|q p|q es|jt l r1 on|q e sub]; cbn [inline_m inline rsize refs] in *.
    - reflexivity.
    - destruct (lookup_c m C) as [rows|] eqn:El.
      + rewrite qeval_lits. apply (HC m rows body El). apply Hi. now left.
      + apply IH; auto; [|lia]. intros x Hx. apply Hi. now right.
    - cbn [qeval]. rewrite IH; auto. lia.
    - cbn [qeval]. rewrite IH; auto. lia.
    - cbn [qeval]. rewrite !width_inline_m, !width_inline.
      rewrite (IH C l), (IH C r1); auto; try lia; intros x Hx; apply Hi; apply in_or_app; auto.
    - cbn [qeval]. rewrite !width_inline_m, !width_inline.
      assert (incl (refs sub) (refs r0)) as Hsub by (intros x Hx; apply Hi; apply in_or_app; auto).
      rewrite (IH C q); auto; try lia; [|intros x Hx; apply Hi; apply in_or_app; auto].
      rewrite (IH _ sub); auto; try lia.
      apply sound_if; [|exact HC].
      apply fold_sound; auto. intros C0 b H0 Hb Hlt. apply IH; auto. lia.
  Qed.

  (* materialising the shared names (any candidate, any order) returns what evaluating each reference separately returns *)
  Theorem mat_eq_inline : mat_eval Q db pick perm rowwise r0 = qeval Q db (inline r0).
  Proof.
    unfold mat_eval. apply inline_m_sound; [|apply incl_refl|lia].
    unfold build. apply fold_sound; [apply incl_refl| |intros n rows b H; discriminate H].
    intros C b HC Hb Hlt. apply inline_m_sound; auto. lia.
  Qed.
End MatProof.

Lemma pick_widest_in l b : pick_widest l = Some b -> In b l.
Proof. unfold pick_widest. intros H. apply find_some in H. tauto. Qed.

Theorem materialise_eq_inline Q db rowwise r :
  q_values_empty Q = false -> coherent r -> plan_eval true rowwise Q db r = qeval Q db (inline r).
Proof.
  intros HV Hc. unfold plan_eval. apply mat_eq_inline; auto. intros n l b. apply pick_widest_in.
Qed.

(* ================= end to end ================= *)
Theorem cte_unique_names_end_to_end global by_name rowwise db E w :
  tables_only E -> unique_namesb E w = true ->
  forall rows, cte_eval_sql db E w = Some rows ->
  cte_eval_eng global by_name rowwise sql_qsem db E w = Some rows.
Proof.
  intros TE U rows. unfold cte_eval_sql, cte_eval_eng.
  destruct (resolve_sql E w) as [r|] eqn:R; [|discriminate]. cbn [option_map]. intros H. injection H as <-.
  assert (binder_resolve global E w = Some r) as ->.
  { destruct global; [now apply cte_unique_names_sound | exact R]. }
  cbn [option_map]. f_equal. destruct by_name; [|reflexivity].
  apply materialise_eq_inline; [reflexivity|]. exact (unique_coherent E w r TE U R).
Qed.

From QV Require Import Sql.QueryProofs.

(* the engine's expression / set-operation semantics on top: equal to the reference outside the base classes *)
Theorem cte_agree global by_name rowwise db E w r :
  tables_only E -> unique_namesb E w = true -> resolve_sql E w = Some r -> known_q db (inline r) = false ->
  cte_eval_eng global by_name rowwise eng_qsem db E w = cte_eval_sql db E w.
Proof.
  intros TE U R K. unfold cte_eval_sql, cte_eval_eng. rewrite R.
  assert (binder_resolve global E w = Some r) as ->.
  { destruct global; [now apply cte_unique_names_sound | exact R]. }
  cbn [option_map]. f_equal. rewrite <- (eng_query_agrees _ _ K). destruct by_name; [|reflexivity].
  apply materialise_eq_inline; [reflexivity|]. exact (unique_coherent E w r TE U R).
Qed.

(* ================= with a re-used name both mechanisms fail ================= *)
Definition db1 : list rel := [[[VInt 1; VInt 10]; [VInt 2; VInt 20]]].
Definition E1 : env := [(0%nat, BTable 0%nat 2%nat)].
Definition only_c0 (k : Z) : wq := WFilter (WRef 0%nat) (ECmp CEq (ECol 0%nat) (ELit (VInt k))).
Definition nested_c : wq := WWith 10%nat (only_c0 2) (WRef 10%nat).

(* WITH c AS (c0 = 1) SELECT d.c0, a.c0 FROM (WITH c AS (c0 = 2) SELECT * FROM c) d JOIN c a ON TRUE:
   the nested definition overrides the outer one for the later outer reference *)
Definition w_shadow : wq :=
  WWith 10%nat (only_c0 1) (WProject (WJoin JInner nested_c (WRef 10%nat) (ELit (VBool true))) [ECol 0%nat; ECol 2%nat]).
Lemma shadowing_refuted :
  name_reuse E1 w_shadow = true /\
  cte_eval_sql db1 E1 w_shadow = Some [[VInt 2; VInt 1]] /\
  cte_eval_eng true true false eng_qsem db1 E1 w_shadow = Some [[VInt 2; VInt 2]] /\
  cte_eval_eng true false false eng_qsem db1 E1 w_shadow = Some [[VInt 2; VInt 2]] /\     (* the binder alone *)
  cte_eval_eng false false false eng_qsem db1 E1 w_shadow = Some [[VInt 2; VInt 1]].
Proof. vm_compute. repeat split. Qed.

(* ... FROM c a JOIN (WITH c AS (c0 = 2) SELECT * FROM c) d: the binder resolves both references correctly
   (the outer one is bound first), but both share one cache entry *)
Definition w_collide : wq :=
  WWith 10%nat (only_c0 1) (WProject (WJoin JInner (WRef 10%nat) nested_c (ELit (VBool true))) [ECol 0%nat; ECol 2%nat]).
Lemma same_name_materialisation_refuted :
  name_reuse E1 w_collide = true /\
  binder_resolve true E1 w_collide = resolve_sql E1 w_collide /\
  cte_eval_sql db1 E1 w_collide = Some [[VInt 1; VInt 2]] /\
  cte_eval_eng true true false eng_qsem db1 E1 w_collide = Some [[VInt 1; VInt 1]] /\
  cte_eval_eng true true true eng_qsem db1 E1 w_collide = Some [[VInt 1; VInt 1]] /\
  cte_eval_eng true false false eng_qsem db1 E1 w_collide = Some [[VInt 1; VInt 2]].      (* per-definition keys *)
Proof. vm_compute. repeat split. Qed.

(* SELECT d.c0, a.c0 FROM (WITH t0 AS (t0 WHERE c0 = 2) SELECT * FROM t0) d JOIN t0 a ON TRUE:
   a nested WITH that takes a table's name hides the table for the rest of the statement *)
Definition w_capture : wq :=
  WProject (WJoin JInner (WWith 0%nat (only_c0 2) (WRef 0%nat)) (WRef 0%nat) (ELit (VBool true))) [ECol 0%nat; ECol 2%nat].
Lemma table_name_capture_refuted :
  name_reuse E1 w_capture = true /\
  cte_eval_sql db1 E1 w_capture = Some [[VInt 2; VInt 1]; [VInt 2; VInt 2]] /\
  cte_eval_eng true true false eng_qsem db1 E1 w_capture = Some [[VInt 2; VInt 2]].
Proof. vm_compute. repeat split. Qed.

(* non-vacuity: two CTEs, the first referenced three times (inside the second, in a self-join, in an IN-subquery) *)
Definition w_ok : wq :=
  WWith 10%nat (WFilter (WRef 0%nat) (ECmp CGe (ECol 1%nat) (ELit (VInt 10))))
    (WWith 11%nat (WProject (WRef 10%nat) [ECol 1%nat; ECol 0%nat])
       (WIn (WProject (WJoin JInner (WRef 10%nat) (WRef 10%nat) (ECmp CEq (ECol 0%nat) (ECol 2%nat))) [ECol 0%nat; ECol 3%nat])
            (ECol 1%nat) (WRef 11%nat))).
Example cte_agree_nontrivial :
  unique_namesb E1 w_ok = true /\ tables_only E1 /\
  cte_eval_sql db1 E1 w_ok = Some [[VInt 1; VInt 10]; [VInt 2; VInt 20]] /\
  cte_eval_eng true true true eng_qsem db1 E1 w_ok = cte_eval_sql db1 E1 w_ok.
Proof. vm_compute. repeat split. Qed.

(* ================= the repaired engine (/repo 78a9b54) ================= *)
(* lexically scoped binder, cache per definition: every statement agrees with the reference, names re-used or not *)
Theorem cte_repaired_agree rowwise db E w r :
  resolve_sql E w = Some r -> known_q db (inline r) = false ->
  cte_eval_eng eng_binder_global eng_cache_by_name rowwise eng_qsem db E w = cte_eval_sql db E w.
Proof.
  intros R K. unfold cte_eval_eng, cte_eval_sql, eng_binder_global, eng_cache_by_name, binder_resolve, plan_eval.
  rewrite R. cbn [option_map]. now rewrite (eng_query_agrees _ _ K).
Qed.

(* regression: the three witnesses went wrong before the repair and are answered like the reference now *)
Theorem cte_name_reuse_regression :
  cte_eval_eng eng_binder_global_before_fix eng_cache_by_name_before_fix false eng_qsem db1 E1 w_shadow = Some [[VInt 2; VInt 2]] /\
  cte_eval_eng eng_binder_global_before_fix eng_cache_by_name_before_fix false eng_qsem db1 E1 w_collide = Some [[VInt 1; VInt 1]] /\
  cte_eval_eng eng_binder_global_before_fix eng_cache_by_name_before_fix false eng_qsem db1 E1 w_capture = Some [[VInt 2; VInt 2]] /\
  cte_eval_eng eng_binder_global eng_cache_by_name false eng_qsem db1 E1 w_shadow = cte_eval_sql db1 E1 w_shadow /\
  cte_eval_eng eng_binder_global eng_cache_by_name false eng_qsem db1 E1 w_collide = cte_eval_sql db1 E1 w_collide /\
  cte_eval_eng eng_binder_global eng_cache_by_name true eng_qsem db1 E1 w_capture = cte_eval_sql db1 E1 w_capture.
Proof. vm_compute. repeat split. Qed.
