(* C28: WITH names. Model of how the binder resolves table names (one binder-global map `ctes`: insert on
   bind, looked up before the catalog, never scoped) against lexical scoping (nearest enclosing definition),
   and of the physical planner's CTE cache (materialize_shared_ctes: every name referenced at least twice is
   executed once — the first candidate with the widest schema — and EVERY SubqueryAlias carrying that
   cte_name reads the cached rows). No proofs here.
   anchors: src/planner/binder.rs  Binder.ctes, bind_query (bind_ctes before the body), bind_ctes
              (`self.ctes.insert(alias, plan)`), bind_table_factor (`self.ctes.get(&table_name)` first, then the
              catalog; SubqueryAlias { cte_name: Some(name) })
            src/physical/planner.rs  materialize_shared_ctes, count_cte_refs, collect_cte_plans (plan inputs
              before subquery expressions), cte_name_key (hash of the NAME), LogicalPlan::SubqueryAlias lowering *)
From QV Require Export Sql.Query.

Definition name := nat.

(* statements with WITH clauses anywhere a query may stand *)
Inductive wq :=
| WRef (n : name)                           (* FROM n: a base table or a CTE *)
| WWith (n : name) (def body : wq)          (* WITH n AS (def) body; `WITH a AS .., b AS .. q` = WWith a .. (WWith b .. q) *)
| WFilter (q : wq) (p : expr)
| WProject (q : wq) (es : list expr)
| WJoin (jt : jointype) (l r : wq) (on : expr)
| WIn (q : wq) (e : expr) (sub : wq).       (* SELECT * FROM q WHERE e IN (SELECT first column FROM sub) *)

(* bound plans: a CTE reference keeps its name (SubqueryAlias.cte_name) next to the plan it was bound to *)
Inductive rq :=
| RTable (i w : nat)
| RRef (n : name) (body : rq)
| RFilter (q : rq) (p : expr)
| RProject (q : rq) (es : list expr)
| RJoin (jt : jointype) (l r : rq) (on : expr)
| RIn (q : rq) (e : expr) (sub : rq).

Inductive binding := BTable (i w : nat) | BCte (body : rq).
Definition env := list (name * binding).

Fixpoint lookup (n : name) (E : env) : option binding :=
  match E with
  | [] => None
  | (m, b) :: E' => if Nat.eqb m n then Some b else lookup n E'
  end.

Definition ref_of (n : name) (b : binding) : rq :=
  match b with BTable i w => RTable i w | BCte body => RRef n body end.

(* ---------- SQL: lexical scoping, the nearest enclosing definition ---------- *)
Fixpoint resolve_sql (E : env) (q : wq) : option rq :=
  match q with
  | WRef n => option_map (ref_of n) (lookup n E)
  | WWith n d body =>
      match resolve_sql E d with
      | Some rd => resolve_sql ((n, BCte rd) :: E) body
      | None => None
      end
  | WFilter q p => option_map (fun r => RFilter r p) (resolve_sql E q)
  | WProject q es => option_map (fun r => RProject r es) (resolve_sql E q)
  | WJoin jt l r on =>
      match resolve_sql E l, resolve_sql E r with
      | Some a, Some b => Some (RJoin jt a b on)
      | _, _ => None
      end
  | WIn q e sub =>
      match resolve_sql E q, resolve_sql E sub with
      | Some a, Some b => Some (RIn a e b)
      | _, _ => None
      end
  end.

(* ---------- the binder: one map for the whole statement, threaded through in binding order
   (WITH list, then FROM left to right, then WHERE) and never restored ---------- *)
Fixpoint resolve_eng (E : env) (q : wq) : option (rq * env) :=
  match q with
  | WRef n => option_map (fun b => (ref_of n b, E)) (lookup n E)
  | WWith n d body =>
      match resolve_eng E d with
      | Some (rd, E1) => resolve_eng ((n, BCte rd) :: E1) body
      | None => None
      end
  | WFilter q p =>
      match resolve_eng E q with Some (r, E1) => Some (RFilter r p, E1) | None => None end
  | WProject q es =>
      match resolve_eng E q with Some (r, E1) => Some (RProject r es, E1) | None => None end
  | WJoin jt l r on =>
      match resolve_eng E l with
      | Some (a, E1) => match resolve_eng E1 r with
                        | Some (b, E2) => Some (RJoin jt a b on, E2)
                        | None => None end
      | None => None
      end
  | WIn q e sub =>
      match resolve_eng E q with
      | Some (a, E1) => match resolve_eng E1 sub with
                        | Some (b, E2) => Some (RIn a e b, E2)
                        | None => None end
      | None => None
      end
  end.

(* `global = false`: the binder after the scoping repair (.work/fixes/c28-cte-scope.diff) *)
Definition binder_resolve (global : bool) (E : env) (q : wq) : option rq :=
  if global then option_map fst (resolve_eng E q) else resolve_sql E q.

(* ---------- evaluation ---------- *)
Fixpoint rwidth (r : rq) : nat :=
  match r with
  | RTable _ w => w
  | RRef _ b => rwidth b
  | RFilter q _ => rwidth q
  | RProject _ es => length es
  | RJoin jt l r _ => match jt with JSemi | JAnti => rwidth l | _ => rwidth l + rwidth r end
  | RIn q _ _ => rwidth q
  end.

Definition cache := list (name * rel).
Fixpoint lookup_c (n : name) (C : cache) : option rel :=
  match C with
  | [] => None
  | (m, rows) :: C' => if Nat.eqb m n then Some rows else lookup_c n C'
  end.

Definition lits (rows : rel) : list (list expr) := map (map ELit) rows.

(* evaluating each reference separately: `e IN (sub)` kept as a WHERE conjunct is the Semi join on
   e = first column (C23_decorrelate_in_semi) *)
Fixpoint inline (r : rq) : query :=
  match r with
  | RTable i w => QTable i w
  | RRef _ b => inline b
  | RFilter q p => QFilter (inline q) p
  | RProject q es => QProject (inline q) es
  | RJoin jt l r on => QJoin jt (inline l) (inline r) on
  | RIn q e sub => QJoin JSemi (inline q) (inline sub) (ECmp CEq e (ECol (rwidth q)))
  end.

Fixpoint rsize (r : rq) : nat :=
  match r with
  | RTable _ _ => 1
  | RRef _ b => S (rsize b)
  | RFilter q _ | RProject q _ => S (rsize q)
  | RJoin _ l r _ => S (rsize l + rsize r)
  | RIn q _ sub => S (rsize q + rsize sub)
  end.

(* every CTE reference with the plan it is bound to, nested ones included, in the planner's traversal order *)
Fixpoint refs (r : rq) : list (name * rq) :=
  match r with
  | RTable _ _ => []
  | RRef n b => (n, b) :: refs b
  | RFilter q _ | RProject q _ => refs q
  | RJoin _ l r _ => refs l ++ refs r
  | RIn q _ sub => refs q ++ refs sub
  end.

Definition cands (n : name) (r : rq) : list rq :=
  map snd (filter (fun nb => Nat.eqb (fst nb) n) (refs r)).

Fixpoint dedup (l : list name) : list name :=
  match l with
  | [] => []
  | n :: t => n :: filter (fun m => negb (Nat.eqb m n)) (dedup t)
  end.
(* names referenced at least twice, in first-occurrence order *)
Definition shared (r : rq) : list name :=
  filter (fun n => Nat.leb 2 (length (cands n r))) (dedup (map fst (refs r))).

(* "materialize the widest output schema, ties by traversal order" *)
Definition pick_widest (l : list rq) : option rq :=
  let m := fold_left Nat.max (map rwidth l) 0%nat in
  find (fun b => Nat.eqb (rwidth b) m) l.

Definition mem (n : name) (l : list name) : bool := existsb (Nat.eqb n) l.

Section Mat.
  Variable Q : qsem.
  Variable db : list rel.
  (* which candidate is executed for a name, and in which order the names are materialised (a HashMap
     iteration in the engine): a later name's plan already reads the earlier names from the cache *)
  Variable pick : name -> list rq -> option rq.
  Variable perm : option (list name).
  (* the bound plan executed as it is: an IN-subquery stays an expression, planned by the subquery executor
     when it runs - create_physical_plan materialises the names shared WITHIN that subquery again and
     overwrites their cache entries. After SubqueryDecorrelation the subquery is a join input of one plan. *)
  Variable rowwise : bool.

  Definition order_of (r : rq) : list name :=
    match perm with None => shared r | Some p => filter (fun n => mem n (shared r)) p end.

  (* the plan the physical planner executes under cache C: a cached name becomes the cached rows, whatever plan
     the reference was bound to. `fuel` bounds the nesting (rsize r suffices). *)
  Fixpoint inline_m (fuel : nat) (C : cache) (r : rq) {struct fuel} : query :=
    match fuel with
    | O => QValues (rwidth r) []
    | S f =>
        match r with
        | RTable i w => QTable i w
        | RRef n b => match lookup_c n C with
                      | Some rows => QValues (rwidth b) (lits rows)
                      | None => inline_m f C b
                      end
        | RFilter q p => QFilter (inline_m f C q) p
        | RProject q es => QProject (inline_m f C q) es
        | RJoin jt l r on => QJoin jt (inline_m f C l) (inline_m f C r) on
        | RIn q e sub =>
            let C' := if rowwise
                      then fold_left (fun C0 n => match pick n (cands n sub) with
                                                  | Some b => (n, qeval Q db (inline_m f C0 b)) :: C0
                                                  | None => C0
                                                  end) (order_of sub) C
                      else C in
            QJoin JSemi (inline_m f C q) (inline_m f C' sub) (ECmp CEq e (ECol (rwidth q)))
        end
    end.

  Definition build (fuel : nat) (r : rq) (C : cache) : cache :=
    fold_left (fun C0 n => match pick n (cands n r) with
                           | Some b => (n, qeval Q db (inline_m fuel C0 b)) :: C0
                           | None => C0
                           end) (order_of r) C.

  Definition mat_eval (r : rq) : rel :=
    qeval Q db (inline_m (S (rsize r)) (build (rsize r) r []) r).
End Mat.

(* the planner as it stands; `by_name = false`: every definition has its own cache key, so only references to
   the same definition share rows (the repair), which is the inline evaluation *)
Definition plan_eval (by_name rowwise : bool) (Q : qsem) (db : list rel) (r : rq) : rel :=
  if by_name then mat_eval Q db (fun _ => pick_widest) None rowwise r else qeval Q db (inline r).

(* the engine end to end: binder, then planner *)
Definition cte_eval_eng (global by_name rowwise : bool) (Q : qsem) (db : list rel) (E : env) (w : wq) : option rel :=
  option_map (plan_eval by_name rowwise Q db) (binder_resolve global E w).
Definition cte_eval_sql (db : list rel) (E : env) (w : wq) : option rel :=
  option_map (fun r => qeval sql_qsem db (inline r)) (resolve_sql E w).

(* the engine as it stands. Both defects were repaired by /repo 78a9b54 (WITH names are lexically scoped, and
   every definition has its own identity `name#n` as SubqueryAlias.cte_name, so the planner shares rows per
   definition); the `_before_fix` settings keep the old engine expressible for the regression theorems. *)
Definition eng_binder_global_before_fix : bool := true.
Definition eng_cache_by_name_before_fix : bool := true.
Definition eng_binder_global : bool := false.
Definition eng_cache_by_name : bool := false.

(* ---------- the class: a WITH name defined twice, or equal to a visible table name ---------- *)
Fixpoint defs (q : wq) : list name :=
  match q with
  | WRef _ => []
  | WWith n d body => n :: defs d ++ defs body
  | WFilter q _ | WProject q _ => defs q
  | WJoin _ l r _ => defs l ++ defs r
  | WIn q _ sub => defs q ++ defs sub
  end.

Fixpoint nodupb (l : list name) : bool :=
  match l with
  | [] => true
  | n :: t => negb (existsb (Nat.eqb n) t) && nodupb t
  end.
Definition unbound (E : env) (n : name) : bool := match lookup n E with None => true | Some _ => false end.
Definition unique_namesb (E : env) (w : wq) : bool := nodupb (defs w) && forallb (unbound E) (defs w).
Definition name_reuse (E : env) (w : wq) : bool := negb (unique_namesb E w).

(* [name-reuse; base] *)
Definition cte_known_bits (db : list rel) (E : env) (w : wq) : list bool :=
  [(eng_binder_global || eng_cache_by_name) && name_reuse E w;
   match resolve_sql E w with Some r => known_q db (inline r) | None => false end].
