From QV Require Import Base.Util C20.Model.

(* ---------- list update through nth_error ---------- *)
Lemma nth_error_upd_same {A} i (f : A -> A) l x :
  nth_error l i = Some x -> nth_error (upd i f l) i = Some (f x).
Proof.
  revert i; induction l as [|h t IH]; intros [|i] H; cbn in *; try discriminate.
  - now inversion H.
  - now apply IH.
Qed.

Lemma nth_error_upd_other {A} i j (f : A -> A) l : i <> j -> nth_error (upd i f l) j = nth_error l j.
Proof.
  revert i j; induction l as [|h t IH]; intros [|i] [|j] H; cbn; auto; try congruence.
Qed.

Lemma In_upd {A} i (f : A -> A) l y :
  In y (upd i f l) -> (exists j, j <> i /\ nth_error l j = Some y) \/ (exists x, nth_error l i = Some x /\ y = f x).
Proof.
  intros H. apply In_nth_error in H as (j & Hj).
  destruct (Nat.eq_dec i j) as [->|Ne].
  - right. destruct (nth_error l j) as [x|] eqn:E.
    + exists x. split; [reflexivity|]. rewrite (nth_error_upd_same j f l x E) in Hj. now inversion Hj.
    + exfalso. apply nth_error_None in E. assert (nth_error (upd j f l) j = None) as N
        by (apply nth_error_None; now rewrite upd_length). congruence.
  - left. exists j. split; [congruence|]. now rewrite nth_error_upd_other in Hj.
Qed.

Lemma Forall_upd {A} (Q : A -> Prop) i x l : Forall Q l -> Q x -> Forall Q (upd i (fun _ => x) l).
Proof.
  intros H Hx. revert i; induction H as [|h t Hh Ht IH]; intros [|i]; cbn; constructor; auto.
Qed.

Section Safety.
  Variable n : nat.

  Definition all_complete (d : sdir) : Prop :=
    length (d_files d) = n /\ forall j, (j < n)%nat -> nth j (d_files d) Absent = Complete.
  Definition no_partial (f : option sdir) : Prop := forall d, f = Some d -> ~ In Partial (d_files d).

  Definition locked_pc (c : pc) : bool :=
    match c with
    | TRecheck | TClean | TWrite _ _ | TMarker | TRemove | TRename | TUnlock => true
    | _ => false
    end.

  (* what the staging directory of a process looks like while its lock holder is at `c` *)
  Definition stg_ok (c : pc) (s : option sdir) : Prop :=
    match c with
    | TWrite k _ => exists d, s = Some d /\ length (d_files d) = n /\
                      forall j, (j < k)%nat -> (j < n)%nat -> nth j (d_files d) Absent = Complete
    | TMarker => exists d, s = Some d /\ all_complete d
    | TRemove | TRename => exists d, s = Some d /\ all_complete d /\ d_marker d = Some want
    | _ => True
    end.

  (* per-process invariant: only the lock holder is inside the locked region, its staging directory is as far
     as its program counter says, nobody has read a partial file *)
  Definition P (p : proc) : Prop :=
    (forall tid t, nth_error (p_threads p) tid = Some t -> locked_pc (t_pc t) = true -> p_lock p = Some tid) /\
    (forall tid t, p_lock p = Some tid -> nth_error (p_threads p) tid = Some t -> stg_ok (t_pc t) (p_staging p)) /\
    (forall t, In t (p_threads p) -> t_pc t <> TDone Truncated).

  Lemma all_complete_no_partial d : all_complete d -> ~ In Partial (d_files d).
  Proof.
    intros [L H] Hin. apply (In_nth _ _ Absent) in Hin as (j & Hj & E).
    rewrite L in Hj. rewrite (H j Hj) in E. discriminate.
  Qed.

  Lemma P_update p tid t c' lock' stg' :
    P p -> nth_error (p_threads p) tid = Some t ->
    (locked_pc c' = true -> lock' = Some tid) ->
    (forall tid2, tid2 <> tid -> p_lock p = Some tid2 -> lock' = Some tid2 /\ stg' = p_staging p) ->
    (forall tid2, lock' = Some tid2 -> tid2 = tid \/ p_lock p = Some tid2) ->
    (lock' = Some tid -> stg_ok c' stg') ->
    c' <> TDone Truncated ->
    P (mkP lock' stg' (set_pc tid c' (p_threads p))).
  Proof.
    intros (P1 & P2 & P3) Ht H3 H4 H5 H6 H7. unfold P, set_pc. cbn [p_lock p_staging p_threads].
    split; [|split].
    - intros tid2 t2 E L. destruct (Nat.eq_dec tid tid2) as [<-|Ne].
      + rewrite (nth_error_upd_same _ _ _ _ Ht) in E. inversion E; subst. cbn in L. now apply H3.
      + rewrite nth_error_upd_other in E by assumption.
        apply (H4 tid2); [congruence | now apply (P1 tid2 t2)].
    - intros tid2 t2 E1 E2. destruct (Nat.eq_dec tid tid2) as [<-|Ne].
      + rewrite (nth_error_upd_same _ _ _ _ Ht) in E2. inversion E2; subst. cbn. now apply H6.
      + rewrite nth_error_upd_other in E2 by assumption.
        destruct (H5 tid2 E1) as [->|Hold]; [congruence|].
        destruct (H4 tid2) as [_ ->]; [congruence | assumption|]. now apply (P2 tid2 t2).
    - intros t2 Hin. apply In_upd in Hin as [(j & _ & Hj)|(x & _ & ->)].
      + apply P3. now apply nth_error_In in Hj.
      + cbn. assumption.
  Qed.

  (* a step that keeps lock and staging *)
  Lemma P_go p tid t c' :
    P p -> nth_error (p_threads p) tid = Some t ->
    (locked_pc c' = true -> locked_pc (t_pc t) = true) ->
    (p_lock p = Some tid -> stg_ok c' (p_staging p)) ->
    c' <> TDone Truncated ->
    P (mkP (p_lock p) (p_staging p) (set_pc tid c' (p_threads p))).
  Proof.
    intros HP Ht H1 H2 H3. apply (P_update p tid t); auto.
    intros L. destruct HP as (P1 & _). apply (P1 tid t Ht). now apply H1.
  Qed.

  (* a step of the lock holder (it is inside the locked region) *)
  Lemma P_locked p tid t c' lock' stg' :
    P p -> nth_error (p_threads p) tid = Some t -> locked_pc (t_pc t) = true ->
    (lock' = Some tid \/ (lock' = None /\ locked_pc c' = false)) ->
    (lock' = Some tid -> stg_ok c' stg') ->
    c' <> TDone Truncated ->
    P (mkP lock' stg' (set_pc tid c' (p_threads p))).
  Proof.
    intros HP Ht L H1 H2 H3. pose proof HP as (P1 & _). pose proof (P1 tid t Ht L) as Hl.
    apply (P_update p tid t); auto.
    - intros Lc. destruct H1 as [->|[_ E]]; [reflexivity | congruence].
    - intros tid2 Ne E. congruence.
    - intros tid2 E. destruct H1 as [->|[-> _]]; [left; congruence | discriminate].
  Qed.

  Lemma holder_stg p tid t : P p -> nth_error (p_threads p) tid = Some t -> locked_pc (t_pc t) = true ->
    p_lock p = Some tid /\ stg_ok (t_pc t) (p_staging p).
  Proof. intros (P1 & P2 & _) Ht L. pose proof (P1 tid t Ht L) as E. split; [exact E|]. now apply (P2 tid t). Qed.

  Lemma no_partial_remove ch d : ~ In Partial (d_files d) -> ~ In Partial (d_files (remove_entry ch d)).
  Proof.
    intros H. destruct ch as [|j]; cbn; [exact H|].
    intros Hin. apply In_upd in Hin as [(i & _ & Hi)|(x & _ & E)]; [|cbv beta in E; discriminate].
    apply H. now apply nth_error_In in Hi.
  Qed.

  (* ---------- any number of processes: files reachable through the final path are never partial ---------- *)
  Lemma tstep_inv ch f p tid f' p' :
    tstep n ch f p tid = Some (f', p') -> no_partial f -> P p -> no_partial f' /\ P p'.
  Proof.
    unfold tstep. intros H Hf HP. destruct (nth_error (p_threads p) tid) as [t|] eqn:Ht; [|discriminate H].
    destruct (t_pc t) as [| | | |k ph| | | | |k|o] eqn:Epc.
    - (* TStart *)
      destruct (is_fresh f); [|destruct (t_build t)]; inversion H; subst; (split; [exact Hf|]);
        (apply (P_go p tid t); [exact HP | exact Ht | cbn; intros E; discriminate E | intros _; exact I | discriminate]).
    - (* TWaitLock *)
      destruct (p_lock p) eqn:El; [discriminate H|]. inversion H; subst. split; [exact Hf|].
      apply (P_update p tid t);
        [exact HP | exact Ht | intros _; reflexivity | intros tid2 _ E; rewrite El in E; discriminate E
        | intros tid2 E; left; congruence | intros _; exact I | discriminate].
    - (* TRecheck *)
      destruct (is_fresh f); inversion H; subst; (split; [exact Hf|]).
      + apply (P_locked p tid t);
          [exact HP | exact Ht | rewrite Epc; reflexivity | right; split; reflexivity | intros E; discriminate E | discriminate].
      + apply (P_go p tid t); [exact HP | exact Ht | intros _; rewrite Epc; reflexivity | intros _; exact I | discriminate].
    - (* TClean *)
      inversion H; subst. split; [exact Hf|].
      destruct (holder_stg p tid t HP Ht) as [El _]; [rewrite Epc; reflexivity|].
      apply (P_locked p tid t); [exact HP | exact Ht | rewrite Epc; reflexivity | left; exact El | | discriminate].
      intros _. cbn. eexists. split; [reflexivity|]. cbn. rewrite repeat_length. split; [reflexivity|]. intros j Hj; lia.
    - (* TWrite *)
      destruct (holder_stg p tid t HP Ht) as [El Hs]; [rewrite Epc; reflexivity|]. rewrite Epc in Hs.
      destruct Hs as (d & Ed & Ln & Hc).
      destruct ph.
      + inversion H; subst. split; [exact Hf|].
        apply (P_locked p tid t); [exact HP | exact Ht | rewrite Epc; reflexivity | left; exact El | | discriminate].
        intros _. rewrite Ed. cbn. eexists. split; [reflexivity|]. cbn. rewrite upd_length. split; [exact Ln|].
        intros j Hj Hn. destruct (Nat.eq_dec k j) as [->|Ne].
        * rewrite nth_upd_same by lia. reflexivity.
        * rewrite nth_upd_other by assumption. apply Hc; lia.
      + destruct (Nat.ltb_spec k n) as [Lt|Ge]; inversion H; subst; (split; [exact Hf|]).
        * apply (P_locked p tid t); [exact HP | exact Ht | rewrite Epc; reflexivity | left; exact El | | discriminate].
          intros _. rewrite Ed. cbn. eexists. split; [reflexivity|]. cbn. rewrite upd_length. split; [exact Ln|].
          intros j Hj Hn. rewrite nth_upd_other by lia. now apply Hc.
        * apply (P_go p tid t); [exact HP | exact Ht | intros _; rewrite Epc; reflexivity | | discriminate].
          intros _. cbn. exists d. split; [exact Ed|]. split; [exact Ln|]. intros j Hj. apply Hc; lia.
    - (* TMarker *)
      destruct (holder_stg p tid t HP Ht) as [El Hs]; [rewrite Epc; reflexivity|]. rewrite Epc in Hs.
      destruct Hs as (d & Ed & Hc). inversion H; subst. split; [exact Hf|].
      apply (P_locked p tid t); [exact HP | exact Ht | rewrite Epc; reflexivity | left; exact El | | discriminate].
      intros _. rewrite Ed. cbn. eexists. split; [reflexivity|]. cbn. split; [exact Hc | reflexivity].
    - (* TRemove *)
      destruct (holder_stg p tid t HP Ht) as [El Hs]; [rewrite Epc; reflexivity|]. rewrite Epc in Hs.
      assert (P (mkP (p_lock p) (p_staging p) (set_pc tid TRename (p_threads p)))) as Hgo
        by (apply (P_go p tid t); [exact HP | exact Ht | intros _; rewrite Epc; reflexivity | intros _; exact Hs | discriminate]).
      destruct f as [d|].
      + destruct (dir_empty d); inversion H; subst.
        * split; [intros d' E; discriminate E | exact Hgo].
        * split; [|exact HP]. intros d' E. inversion E; subst. apply no_partial_remove. now apply Hf.
      + inversion H; subst. split; [exact Hf | exact Hgo].
    - (* TRename *)
      destruct (holder_stg p tid t HP Ht) as [El Hs]; [rewrite Epc; reflexivity|]. rewrite Epc in Hs.
      destruct Hs as (d & Ed & Hc & _).
      assert (P (mkP (p_lock p) None (set_pc tid TUnlock (p_threads p)))) as Hgo
        by (apply (P_locked p tid t); [exact HP | exact Ht | rewrite Epc; reflexivity | left; exact El | intros _; exact I | discriminate]).
      destruct f as [d0|]; inversion H; subst; (split; [|exact Hgo]); [exact Hf|].
      intros d' E. rewrite Ed in E. inversion E; subst. now apply all_complete_no_partial.
    - (* TUnlock *)
      inversion H; subst. split; [exact Hf|].
      apply (P_locked p tid t);
        [exact HP | exact Ht | rewrite Epc; reflexivity | right; split; reflexivity | intros E; exact I | discriminate].
    - (* TRead *)
      assert (forall c', locked_pc c' = false -> c' <> TDone Truncated ->
                P (mkP (p_lock p) (p_staging p) (set_pc tid c' (p_threads p)))) as Hgo.
      { intros c' L N. apply (P_go p tid t); [exact HP | exact Ht | intros E; congruence | | exact N].
        intros _. destruct c'; cbn in L; try discriminate L; exact I. }
      destruct (n <=? k)%nat.
      + inversion H; subst. split; [exact Hf | apply Hgo; [reflexivity | discriminate]].
      + destruct f as [d|].
        * destruct (nth k (d_files d) Absent) eqn:En; inversion H; subst; (split; [exact Hf|]).
          -- apply Hgo; [reflexivity | discriminate].
          -- exfalso. apply (Hf d eq_refl).
             destruct (Nat.lt_ge_cases k (length (d_files d))) as [Lt|Ge].
             ++ rewrite <- En. now apply nth_In.
             ++ rewrite nth_overflow in En by assumption. discriminate En.
          -- apply Hgo; [reflexivity | discriminate].
        * inversion H; subst. split; [exact Hf | apply Hgo; [reflexivity | discriminate]].
    - discriminate H.
  Qed.

  Definition IA (g : gstate) : Prop := no_partial (g_final g) /\ Forall P (g_procs g).

  Lemma gstep_IA l g g' : gstep n l g = Some g' -> IA g -> IA g'.
  Proof.
    destruct l as [[pid tid] ch]. unfold gstep. intros H [Hf HP].
    destruct (nth_error (g_procs g) pid) as [p|] eqn:Ep; [|discriminate].
    destruct (tstep n ch (g_final g) p tid) as [[f' p']|] eqn:Et; [|discriminate]. inversion H; subst.
    assert (P p) as Hp by (rewrite Forall_forall in HP; apply HP; now apply nth_error_In in Ep).
    destruct (tstep_inv _ _ _ _ _ _ Et Hf Hp) as [A B]. split; cbn; [exact A | now apply Forall_upd].
  Qed.

  Lemma grun_IA ls : forall g g', grun n ls g = Some g' -> IA g -> IA g'.
  Proof.
    induction ls as [|l r IH]; intros g g' H HI; cbn in H; [now inversion H; subst|].
    destruct (gstep n l g) as [g1|] eqn:E; [|discriminate]. apply (IH g1 g' H). now apply (gstep_IA l g).
  Qed.

  Lemma P_init modes : P (init_proc modes).
  Proof.
    unfold P, init_proc. cbn. split; [|split].
    - intros tid t E L. apply nth_error_In in E. apply in_map_iff in E as (b & <- & _). discriminate.
    - intros tid t E. discriminate.
    - intros t Hin. apply in_map_iff in Hin as (b & <- & _). discriminate.
  Qed.

  Lemma final_wf_no_partial f : final_wf n f = true -> no_partial f.
  Proof.
    intros H d E Hin. subst f. cbn in H. apply andb_true_iff in H as [H _].
    rewrite forallb_forall in H. specialize (H Partial Hin). discriminate.
  Qed.

  Lemma IA_init f procs : final_wf n f = true -> IA (init f procs).
  Proof.
    intros H. split; [now apply final_wf_no_partial|]. cbn. apply Forall_forall.
    intros p Hin. apply in_map_iff in Hin as (m & <- & _). apply P_init.
  Qed.

  Lemma no_outcome o g :
    (forall p t, In p (g_procs g) -> In t (p_threads p) -> t_pc t <> TDone o) -> has_outcome o g = false.
  Proof.
    intros H. unfold has_outcome. destruct (existsb (outcome_eqb o) (outcomes g)) eqn:E; [|reflexivity].
    exfalso. apply existsb_exists in E as (o' & Hin & Eo). unfold outcomes in Hin.
    apply in_flat_map in Hin as (p & Hp & Hin). apply in_flat_map in Hin as (t & Ht & Hin).
    destruct (t_pc t) eqn:Epc; try (now destruct Hin). destruct Hin as [<-|[]].
    apply (H p t Hp Ht). rewrite Epc. f_equal. destruct o, o0; cbn in Eo; congruence.
  Qed.

  (* any number of processes and threads, any schedule: nobody ever reads a partially written file *)
  Theorem wrong_answer_impossible f0 procs ls g :
    final_wf n f0 = true -> grun n ls (init f0 procs) = Some g -> has_outcome Truncated g = false.
  Proof.
    intros Hw Hr. destruct (grun_IA ls _ _ Hr (IA_init f0 procs Hw)) as [_ HP].
    apply no_outcome. intros p t Hp Ht. rewrite Forall_forall in HP. destruct (HP p Hp) as (_ & _ & P3). now apply P3.
  Qed.

  (* ---------- one process: a reader that saw a fresh marker reads complete files ---------- *)
  Definition T_ok (f : option sdir) (c : pc) : Prop :=
    match c with
    | TClean | TWrite _ _ | TMarker | TRemove => is_fresh f = false
    | TRename => f = None
    | TUnlock | TRead _ => is_fresh f = true
    | TDone Error => False
    | _ => True
    end.

  Definition IB (f : option sdir) (p : proc) : Prop :=
    P p /\ no_partial f /\
    (is_fresh f = true -> exists d, f = Some d /\ all_complete d) /\
    (forall t, In t (p_threads p) -> T_ok f (t_pc t)).

  Lemma T_ok_set f p tid c' lock' stg' :
    (forall t, In t (p_threads p) -> T_ok f (t_pc t)) -> T_ok f c' ->
    forall t, In t (p_threads (mkP lock' stg' (set_pc tid c' (p_threads p)))) -> T_ok f (t_pc t).
  Proof.
    intros H Hc t Hin. cbn in Hin. unfold set_pc in Hin.
    apply In_upd in Hin as [(j & _ & Hj)|(x & _ & ->)]; [apply H; now apply nth_error_In in Hj | exact Hc].
  Qed.

  Lemma is_fresh_remove ch d : is_fresh (Some d) = false -> is_fresh (Some (remove_entry ch d)) = false.
  Proof. destruct ch; cbn; auto. Qed.

  Lemma T_ok_stale f f' c :
    T_ok f c -> is_fresh f = false -> is_fresh f' = false -> (f = None -> f' = None) -> T_ok f' c.
  Proof. destruct c as [| | | |k ph| | | | |k|[]]; cbn; intros; auto; congruence. Qed.

  Lemma T_ok_unlocked f f' c : T_ok f c -> locked_pc c = false -> is_fresh f' = true -> T_ok f' c.
  Proof. destruct c as [| | | |k ph| | | | |k|[]]; cbn; intros; auto; discriminate. Qed.

  Lemma files_complete_spec d : files_complete n d = true -> all_complete d.
  Proof.
    unfold files_complete. intros H. apply andb_true_iff in H as [L H]. apply Nat.eqb_eq in L.
    split; [exact L|]. intros j Hj. rewrite forallb_forall in H.
    assert (In (nth j (d_files d) Absent) (d_files d)) as Hin by (apply nth_In; lia).
    specialize (H _ Hin). destruct (nth j (d_files d) Absent); [discriminate | discriminate | reflexivity].
  Qed.

  Lemma tstep_IB ch f p tid f' p' : tstep n ch f p tid = Some (f', p') -> IB f p -> IB f' p'.
  Proof.
    intros H (HP & Hf & HA & HT).
    destruct (tstep_inv _ _ _ _ _ _ H Hf HP) as [Hf' HP'].
    unfold IB. split; [exact HP'|]. split; [exact Hf'|].
    unfold tstep in H. destruct (nth_error (p_threads p) tid) as [t|] eqn:Ht; [|discriminate].
    pose proof (HT t (nth_error_In _ _ Ht)) as Hme.
    destruct (t_pc t) as [| | | |k ph| | | | |k|o] eqn:Epc; cbn [T_ok] in Hme.
    - (* TStart *)
      destruct (is_fresh f) eqn:Fr; [|destruct (t_build t)]; inversion H; subst;
        (split; [intros E; first [apply HA; reflexivity | rewrite Fr in E; discriminate E]|]);
        apply T_ok_set; auto; cbn; auto.
    - destruct (p_lock p); [discriminate|]. inversion H; subst. split; [exact HA|]. apply T_ok_set; auto; try exact I.
    - destruct (is_fresh f) eqn:Fr; inversion H; subst;
        (split; [intros E; first [apply HA; reflexivity | rewrite Fr in E; discriminate E]|]);
        apply T_ok_set; auto; cbn; auto.
    - inversion H; subst. split; [exact HA|]. apply T_ok_set; auto.
    - destruct ph; [|destruct (k <? n)%nat]; inversion H; subst; (split; [exact HA|]); apply T_ok_set; auto.
    - inversion H; subst. split; [exact HA|]. apply T_ok_set; auto.
    - (* TRemove: the only steps that take entries away from final; final is not fresh here *)
      destruct f as [d|].
      + destruct (dir_empty d); inversion H; subst.
        * split; [intros E; discriminate|]. apply T_ok_set; [|reflexivity].
          intros t2 Hin. apply (T_ok_stale (Some d)); auto; intros E; discriminate E.
        * split; [intros E; rewrite (is_fresh_remove ch d Hme) in E; discriminate|].
          intros t2 Hin. apply (T_ok_stale (Some d)); auto;
            try (now apply is_fresh_remove); try (intros E; discriminate E).
      + inversion H; subst. split; [exact HA|]. apply T_ok_set; auto; reflexivity.
    - (* TRename: final is absent, the complete staging directory is installed *)
      subst f. inversion H; subst.
      destruct (holder_stg p tid t HP Ht) as [El Hs]; [now rewrite Epc|]. rewrite Epc in Hs.
      destruct Hs as (d & Ed & Hc & Hm).
      assert (is_fresh (p_staging p) = true) as Fr by (rewrite Ed; cbn; rewrite Hm; reflexivity).
      split; [intros _; exists d; split; assumption|].
      intros t2 Hin. cbn in Hin. unfold set_pc in Hin.
      apply In_upd in Hin as [(j & Ne & Hj)|(x & _ & ->)]; [|exact Fr].
      pose proof (HT t2 (nth_error_In _ _ Hj)) as Hold.
      destruct (locked_pc (t_pc t2)) eqn:L.
      * exfalso. destruct HP as (P1 & _). pose proof (P1 j t2 Hj L). congruence.
      * now apply (T_ok_unlocked None).
    - inversion H; subst. split; [exact HA|]. apply T_ok_set; auto.
    - (* TRead: final is fresh, hence complete *)
      destruct (HA Hme) as (d & -> & Ln & Hc).
      destruct (Nat.leb_spec n k) as [Ge|Lt].
      + inversion H; subst. split; [exact HA|]. apply T_ok_set; auto; try exact I.
      + rewrite (Hc k Lt) in H. inversion H; subst. split; [exact HA|]. apply T_ok_set; auto.
    - discriminate.
  Qed.

  Lemma grun_IB ls : forall f p g, grun n ls (mkG f [p]) = Some g -> IB f p ->
    exists f' p', g = mkG f' [p'] /\ IB f' p'.
  Proof.
    induction ls as [|l r IH]; intros f p g H HI; cbn in H.
    - inversion H; subst. eauto.
    - destruct l as [[pid tid] ch]. unfold gstep in H. cbn [g_procs g_final] in H.
      destruct pid as [|pid]; cbn [nth_error] in H; [|destruct pid; discriminate].
      destruct (tstep n ch f p tid) as [[f1 p1]|] eqn:Et; [|discriminate]. cbn [upd] in H.
      apply (IH f1 p1 g H). now apply (tstep_IB ch f p tid).
  Qed.

  Lemma IB_init f modes : final_wf n f = true -> IB f (init_proc modes).
  Proof.
    intros H. split; [apply P_init|]. split; [now apply final_wf_no_partial|]. split.
    - intros Fr. destruct f as [d|]; [|discriminate]. exists d. split; [reflexivity|].
      cbn [final_wf] in H. apply andb_true_iff in H as [_ H]. rewrite Fr in H. cbn in H. now apply files_complete_spec.
    - intros t Hin. cbn in Hin. apply in_map_iff in Hin as (b & <- & _). exact I.
  Qed.

  (* one process, any number of builder and reader threads, any interleaving: every query ends with complete
     sidecar files or on the Parquet path; never an error, never partial data *)
  Theorem single_process_safe f0 modes ls g :
    final_wf n f0 = true -> grun n ls (init f0 [modes]) = Some g ->
    has_outcome Error g = false /\ has_outcome Truncated g = false.
  Proof.
    intros Hw Hr. split; [|now apply (wrong_answer_impossible f0 [modes] ls)].
    destruct (grun_IB ls f0 (init_proc modes) g Hr (IB_init f0 modes Hw)) as (f' & p' & -> & (_ & _ & _ & HT)).
    apply no_outcome. cbn. intros p t [<-|[]] Ht E. specialize (HT t Ht). rewrite E in HT. exact HT.
  Qed.
End Safety.

(* ---------- several processes: the lock is not shared, a published sidecar can be taken apart under a reader ---------- *)
Definition rep (k : nat) (l : label) : list label := repeat l k.

(* process 1 decides to build before process 0 publishes; process 0 publishes and starts reading;
   process 1 finishes its own build and runs remove_dir_all(final) under process 0's reader *)
Definition sched_publish : list label := rep 3 (1, 0, 0)%nat ++ rep 11 (0, 0, 0)%nat.
Definition sched_break : list label := rep 5 (1, 0, 0)%nat ++ [(1, 0, 1)%nat; (0, 0, 0)%nat].

Theorem cross_process_partial_refuted :
  exists g1 g2,
    grun 1 sched_publish (init None [[true]; [true]]) = Some g1 /\
    is_fresh (g_final g1) = true /\
    (exists p0, nth_error (g_procs g1) 0 = Some p0 /\ nth_error (p_threads p0) 0 = Some (mkT true (TRead 0))) /\
    grun 1 sched_break g1 = Some g2 /\
    has_outcome Error g2 = true /\ has_outcome Truncated g2 = false.
Proof.
  eexists. eexists. split; [vm_compute; reflexivity|]. split; [reflexivity|].
  split; [eexists; split; reflexivity|]. split; [vm_compute; reflexivity|]. split; reflexivity.
Qed.

(* non-vacuity of the single-process theorem: three threads (two builders, one Auto reader) over a stale
   sidecar of two row groups; a full schedule ends with everybody served *)
Example single_process_run :
  exists g, grun 2 ([(0, 2, 0); (0, 1, 0)] ++ rep 10 (0, 0, 0) ++ [(0, 0, 0); (0, 0, 1); (0, 0, 2)]
                    ++ rep 6 (0, 0, 0) ++ rep 5 (0, 1, 0))%nat
              (init (Some (mkDir (Some 0) [Complete; Complete])) [[true; true; false]]) = Some g /\
    final_wf 2 (Some (mkDir (Some 0) [Complete; Complete])) = true /\
    outcomes g = [OkSidecar; OkSidecar; Fallback].
Proof. eexists. split; [vm_compute; reflexivity|]. split; reflexivity. Qed.
