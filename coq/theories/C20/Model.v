(* C20 model: the publication protocol of IPC sidecars as a small-step system over a shared filesystem.
   anchors: src/storage/ipc_cache.rs ensure_sidecar (is_fresh; BUILD_LOCK; fresh re-check), build_sidecar
            (remove_dir_all(staging); create; row-group files; `.complete`; remove_dir_all(final); rename;
            on rename failure remove_dir_all(staging)), read_row_group (open rg file by path, mmap),
            call sites (ensure_sidecar once per scan, then read_row_group per row group, errors propagate).

   One query thread = ensure_sidecar followed by reading row groups 0..n-1 from the FINAL path.
   Several processes share the filesystem; each has its own BUILD_LOCK and its own staging directory
   (`.<pid>.building`).  Every step is one filesystem call or one lock operation; a schedule is a list of
   labels (process, thread, choice).  The source Parquet file is fixed (its stamp is `want`). *)
From QV Require Export Base.Util.

Inductive fstate := Absent | Partial | Complete.     (* a row-group file: missing / being written / fully written *)
Record sdir := mkDir { d_marker : option Z; d_files : list fstate }.
Definition want : Z := 1.                              (* stamp_value(src_meta) of the (unchanging) source *)

Inductive outcome :=
| OkSidecar        (* every row group read from a complete sidecar file *)
| Fallback         (* Auto mode, no fresh sidecar: the Parquet path is used *)
| Error            (* a row-group file was missing: the query fails *)
| Truncated.       (* a partially written file was read: WRONG data *)

Inductive pc :=
| TStart                         (* ensure_sidecar: first is_fresh *)
| TWaitLock                      (* BUILD_LOCK.lock() *)
| TRecheck                       (* is_fresh again, lock held *)
| TClean                         (* remove_dir_all(staging); create_dir_all(staging) *)
| TWrite (k : nat) (ph : bool)   (* row group k: false = File::create next, true = finish writing next *)
| TMarker                        (* write staging/.complete *)
| TRemove                        (* remove_dir_all(final), one entry at a time, then rmdir *)
| TRename                        (* rename(staging, final), else remove_dir_all(staging) *)
| TUnlock                        (* guard dropped, ensure_sidecar returns Some(final) *)
| TRead (k : nat)                (* read_row_group(final, k) *)
| TDone (o : outcome).

Record thread := mkT { t_build : bool (* QE_IPC_CACHE=1 *); t_pc : pc }.
Record proc := mkP { p_lock : option nat; p_staging : option sdir; p_threads : list thread }.
Record gstate := mkG { g_final : option sdir; g_procs : list proc }.

Definition is_fresh (f : option sdir) : bool :=
  match f with
  | Some d => match d_marker d with Some s => s =? want | None => false end
  | None => false
  end.

Definition dir_empty (d : sdir) : bool :=
  match d_marker d with Some _ => false | None => forallb (fun x => match x with Absent => true | _ => false end) (d_files d) end.

(* unlink one entry: choice 0 = the marker, choice j+1 = row-group file j *)
Definition remove_entry (choice : nat) (d : sdir) : sdir :=
  match choice with
  | O => mkDir None (d_files d)
  | S j => mkDir (d_marker d) (upd j (fun _ => Absent) (d_files d))
  end.

Definition set_pc (tid : nat) (c : pc) (ts : list thread) : list thread :=
  upd tid (fun t => mkT (t_build t) c) ts.

Section Protocol.
  Variable n : nat.     (* number of row groups *)

  Definition set_file (k : nat) (x : fstate) (s : option sdir) : option sdir :=
    match s with Some d => Some (mkDir (d_marker d) (upd k (fun _ => x) (d_files d))) | None => None end.
  Definition set_marker (s : option sdir) : option sdir :=
    match s with Some d => Some (mkDir (Some want) (d_files d)) | None => None end.

  (* one step of thread `tid` of process `p` against the shared final directory `f`; None = not enabled *)
  Definition tstep (choice : nat) (f : option sdir) (p : proc) (tid : nat) : option (option sdir * proc) :=
    match nth_error (p_threads p) tid with
    | None => None
    | Some t =>
      let go c := mkP (p_lock p) (p_staging p) (set_pc tid c (p_threads p)) in
      match t_pc t with
      | TStart =>
          if is_fresh f then Some (f, go (TRead 0))
          else if t_build t then Some (f, go TWaitLock) else Some (f, go (TDone Fallback))
      | TWaitLock =>
          match p_lock p with
          | None => Some (f, mkP (Some tid) (p_staging p) (set_pc tid TRecheck (p_threads p)))
          | Some _ => None
          end
      | TRecheck =>
          if is_fresh f then Some (f, mkP None (p_staging p) (set_pc tid (TRead 0) (p_threads p)))
          else Some (f, go TClean)
      | TClean =>
          Some (f, mkP (p_lock p) (Some (mkDir None (repeat Absent n))) (set_pc tid (TWrite 0 false) (p_threads p)))
      | TWrite k false =>
          if (k <? n)%nat
          then Some (f, mkP (p_lock p) (set_file k Partial (p_staging p)) (set_pc tid (TWrite k true) (p_threads p)))
          else Some (f, go TMarker)
      | TWrite k true =>
          Some (f, mkP (p_lock p) (set_file k Complete (p_staging p)) (set_pc tid (TWrite (S k) false) (p_threads p)))
      | TMarker =>
          Some (f, mkP (p_lock p) (set_marker (p_staging p)) (set_pc tid TRemove (p_threads p)))
      | TRemove =>
          match f with
          | None => Some (None, go TRename)
          | Some d => if dir_empty d then Some (None, go TRename) else Some (Some (remove_entry choice d), p)
          end
      | TRename =>
          match f with
          | None => Some (p_staging p, mkP (p_lock p) None (set_pc tid TUnlock (p_threads p)))
          | Some _ => Some (f, mkP (p_lock p) None (set_pc tid TUnlock (p_threads p)))
          end
      | TUnlock => Some (f, mkP None (p_staging p) (set_pc tid (TRead 0) (p_threads p)))
      | TRead k =>
          if (n <=? k)%nat then Some (f, go (TDone OkSidecar))
          else match f with
               | Some d => match nth k (d_files d) Absent with
                           | Complete => Some (f, go (TRead (S k)))
                           | Partial => Some (f, go (TDone Truncated))
                           | Absent => Some (f, go (TDone Error))
                           end
               | None => Some (f, go (TDone Error))
               end
      | TDone _ => None
      end
    end.

  Definition label := (nat * nat * nat)%type.     (* process, thread, choice *)

  Definition gstep (l : label) (g : gstate) : option gstate :=
    let '(pid, tid, ch) := l in
    match nth_error (g_procs g) pid with
    | None => None
    | Some p =>
        match tstep ch (g_final g) p tid with
        | None => None
        | Some (f', p') => Some (mkG f' (upd pid (fun _ => p') (g_procs g)))
        end
    end.

  Fixpoint grun (ls : list label) (g : gstate) : option gstate :=
    match ls with
    | [] => Some g
    | l :: r => match gstep l g with Some g' => grun r g' | None => None end
    end.

  (* initial states: any final directory made of whole files (absent, a stale complete one, a fresh complete
     one), every process idle, every thread about to call ensure_sidecar in either mode *)
  Definition init_proc (modes : list bool) : proc := mkP None None (map (fun b => mkT b TStart) modes).
  Definition init (f : option sdir) (procs : list (list bool)) : gstate := mkG f (map init_proc procs).

  Definition files_complete (d : sdir) : bool :=
    Nat.eqb (length (d_files d)) n && forallb (fun x => match x with Complete => true | _ => false end) (d_files d).
  Definition final_wf (f : option sdir) : bool :=
    match f with
    | None => true
    | Some d => forallb (fun x => match x with Partial => false | _ => true end) (d_files d)
                && (negb (is_fresh f) || files_complete d)
    end.

  (* outcomes present in a state *)
  Definition outcomes (g : gstate) : list outcome :=
    flat_map (fun p => flat_map (fun t => match t_pc t with TDone o => [o] | _ => [] end) (p_threads p)) (g_procs g).
  Definition outcome_eqb (a b : outcome) : bool :=
    match a, b with
    | OkSidecar, OkSidecar | Fallback, Fallback | Error, Error | Truncated, Truncated => true
    | _, _ => false
    end.
  Definition has_outcome (o : outcome) (g : gstate) : bool := existsb (outcome_eqb o) (outcomes g).
End Protocol.

(* the outcome classes the model allows for a run with `nprocs` processes: what the correspondence check
   compares observed classes with.  WRONG (Truncated) is in neither. *)
Definition allowed_outcomes (nprocs : nat) : list outcome :=
  match nprocs with
  | O | S O => [OkSidecar; Fallback]
  | _ => [OkSidecar; Fallback; Error]
  end.
