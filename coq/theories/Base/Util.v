(* Shared utilities: stable insertion sort, list update, sums, byte-string order. *)
From Coq Require Export List ZArith Lia Bool Permutation Arith.
Export ListNotations.
Open Scope Z_scope.

(* ---------- stable insertion sort (models Rust's stable sort_by) ---------- *)
Section Sort.
  Context {A : Type} (le : A -> A -> bool).
  Fixpoint insert (x : A) (l : list A) : list A :=
    match l with
    | [] => [x]
    | h :: t => if le x h then x :: h :: t else h :: insert x t
    end.
  Definition isort (l : list A) : list A := fold_right insert [] l.

  Lemma insert_perm x l : Permutation (insert x l) (x :: l).
  Proof.
    induction l as [|h t IH]; cbn [insert]; [reflexivity|].
    destruct (le x h); [reflexivity|].
    rewrite IH. apply perm_swap.
  Qed.
  Lemma isort_perm l : Permutation (isort l) l.
  Proof.
    induction l as [|h t IH]; cbn [isort fold_right]; [reflexivity|].
    fold (isort t). rewrite insert_perm. now constructor.
  Qed.
  Lemma isort_length l : length (isort l) = length l.
  Proof. apply Permutation_length, isort_perm. Qed.
End Sort.

(* ---------- list update ---------- *)
Fixpoint upd {A} (i : nat) (f : A -> A) (l : list A) : list A :=
  match l, i with
  | [], _ => []
  | h :: t, O => f h :: t
  | h :: t, S j => h :: upd j f t
  end.

Lemma upd_length {A} i (f : A -> A) l : length (upd i f l) = length l.
Proof. revert i; induction l as [|h t IH]; intros [|i]; cbn; auto. Qed.

Lemma nth_upd_same {A} i (f : A -> A) l d : (i < length l)%nat -> nth i (upd i f l) d = f (nth i l d).
Proof.
  revert i; induction l as [|h t IH]; intros [|i] H; cbn in *; try lia; auto.
  apply IH; lia.
Qed.
Lemma nth_upd_other {A} i j (f : A -> A) l d : i <> j -> nth j (upd i f l) d = nth j l d.
Proof.
  revert i j; induction l as [|h t IH]; intros [|i] [|j] H; cbn; auto; try congruence.
Qed.

(* ---------- sums ---------- *)
Definition zsum (l : list Z) : Z := fold_right Z.add 0 l.
Lemma zsum_app a b : zsum (a ++ b) = zsum a + zsum b.
Proof. unfold zsum. induction a as [|h t IH]; cbn [fold_right app]; lia. Qed.
Lemma zsum_cons a l : zsum (a :: l) = a + zsum l.
Proof. reflexivity. Qed.
Lemma zsum_perm a b : Permutation a b -> zsum a = zsum b.
Proof. induction 1; rewrite ?zsum_cons in *; lia. Qed.
Lemma zsum_upd_add i p l : (i < length l)%nat -> zsum (upd i (fun x => x + p) l) = zsum l + p.
Proof.
  revert i; induction l as [|h t IH]; intros [|i] H; cbn [length] in H; try lia.
  - cbn [upd]. rewrite !zsum_cons. lia.
  - cbn [upd]. rewrite !zsum_cons, IH; lia.
Qed.
Lemma zsum_nonneg l : (forall x, In x l -> 0 <= x) -> 0 <= zsum l.
Proof.
  induction l as [|h t IH]; intros H; [cbn; lia|]. rewrite zsum_cons.
  assert (0 <= h) by (apply H; now left). assert (0 <= zsum t) by (apply IH; intros; apply H; now right). lia.
Qed.

(* ---------- lexicographic order on byte strings (Rust str/[u8] Ord) ---------- *)
Fixpoint bytes_cmp (a b : list Z) : comparison :=
  match a, b with
  | [], [] => Eq
  | [], _ => Lt
  | _, [] => Gt
  | x :: a', y :: b' => match x ?= y with Eq => bytes_cmp a' b' | c => c end
  end.

Lemma bytes_cmp_eq a b : bytes_cmp a b = Eq <-> a = b.
Proof.
  revert b; induction a as [|x a IH]; intros [|y b]; cbn; split; intros H; try congruence; auto.
  - destruct (Z.compare_spec x y); try discriminate. subst. f_equal. now apply IH.
  - inversion H; subst. rewrite Z.compare_refl. now apply IH.
Qed.

Definition cmp_then (c d : comparison) : comparison := match c with Eq => d | _ => c end.

Fixpoint list_eqb {A} (eqb : A -> A -> bool) (a b : list A) : bool :=
  match a, b with
  | [], [] => true
  | x :: a', y :: b' => eqb x y && list_eqb eqb a' b'
  | _, _ => false
  end.
Lemma list_eqb_spec {A} (eqb : A -> A -> bool) :
  (forall x y, eqb x y = true <-> x = y) -> forall a b, list_eqb eqb a b = true <-> a = b.
Proof.
  intros He a; induction a as [|x a IH]; intros [|y b]; cbn; split; intros H; try congruence; auto.
  - apply andb_true_iff in H as [H1 H2]. apply He in H1. apply IH in H2. congruence.
  - inversion H; subst. apply andb_true_iff; split; [now apply He | now apply IH].
Qed.
