(* C03 — proofs. Part 1: statistics predicates and the rewrites they license. *)
From QV Require Import Sql.Query Sql.ExprInd Sql.QueryProofs C02.Proofs C24.Proofs C03.Model.
Open Scope Z_scope.

(* ---------- small list facts ---------- *)
Lemma filter_all {A} (f : A -> bool) l : (forall x, In x l -> f x = true) -> filter f l = l.
Proof.
  induction l as [|h t IH]; cbn [filter]; intros H; [reflexivity|].
  rewrite (H h) by now left. f_equal. apply IH. intros; apply H; now right.
Qed.
Lemma filter_none {A} (f : A -> bool) l : (forall x, In x l -> f x = false) -> filter f l = [].
Proof.
  induction l as [|h t IH]; cbn [filter]; intros H; [reflexivity|].
  rewrite (H h) by now left. apply IH. intros; apply H; now right.
Qed.
Lemma filter_sub {A} (P Q : A -> bool) l :
  (forall x, In x l -> P x = true -> Q x = true) -> filter P l = filter P (filter Q l).
Proof.
  induction l as [|h t IH]; cbn [filter]; intros H; [reflexivity|].
  destruct (P h) eqn:EP.
  - rewrite (H h (or_introl eq_refl) EP). cbn [filter]. rewrite EP. f_equal. apply IH. intros; apply H; auto; now right.
  - destruct (Q h); cbn [filter]; rewrite ?EP; apply IH; intros; apply H; auto; now right.
Qed.

Lemma in_combine_seq {A} (l : list A) d : forall s i c,
  In (i, c) (combine (seq s (length l)) l) -> (s <= i)%nat /\ nth (i - s) l d = c.
Proof.
  induction l as [|h t IH]; cbn [length seq combine]; intros s i c H; [contradiction|].
  destruct H as [H|H].
  - inversion H; subst. rewrite Nat.sub_diag. split; [lia | reflexivity].
  - apply IH in H as [H1 H2]. split; [lia|].
    replace (i - s)%nat with (Datatypes.S (i - Datatypes.S s)) by lia. exact H2.
Qed.
Lemma map_snd_combine_seq {A} (l : list A) s : map snd (combine (seq s (length l)) l) = l.
Proof. revert s. induction l as [|h t IH]; intros s; cbn [length seq combine map snd]; [reflexivity|]. now rewrite IH. Qed.

(* ---------- the ndv estimate ---------- *)
Example ndv_est_example : ndv_est 3 (Some 0) (Some 1) (Some 5) = Some 3.
Proof. reflexivity. Qed.

(* the estimate never exceeds the number of non-NULL rows: `ndv >= row_count` can only hold as `ndv = row_count`,
   i.e. whenever a NULL-free integer column's RANGE covers the row count — uniqueness is never examined *)
Lemma ndv_est_le_rows rows nulls mn mx n :
  0 <= rows -> ndv_est rows (Some nulls) mn mx = Some n -> 0 <= nulls -> n <= rows.
Proof.
  unfold ndv_est. intros Hr H Hn. destruct mn as [lo|], mx as [hi|]; try discriminate.
  destruct (hi >=? lo); inversion H; subst. lia.
Qed.

Lemma is_unique_key_iff rows lo hi :
  0 <= rows ->
  is_unique_key rows (mkCS (Some lo) (Some hi) (Some 0) (ndv_est rows (Some 0) (Some lo) (Some hi))) = true
  <-> (lo <= hi /\ rows <= hi - lo + 1).
Proof.
  intros Hr. unfold is_unique_key, ndv_est. cbn [cs_nulls cs_ndv].
  destruct (hi >=? lo) eqn:E.
  - rewrite Z.geb_le in E. rewrite Z.geb_le. split; intros H; [split; lia | lia].
  - rewrite Z.geb_leb, Z.leb_gt in E. split; [discriminate | lia].
Qed.

(* ---------- GROUP BY k, d  =>  GROUP BY k + ANY_VALUE(d) ---------- *)
Definition gkr_witness : rel := [[VInt 1; VInt 10; VInt 100]; [VInt 1; VInt 20; VInt 200]; [VInt 5; VInt 30; VInt 300]].

Lemma unique_key_inference_refuted :
  stats_of_col (col 0 gkr_witness) = mkCS (Some 1) (Some 5) (Some 0) (Some 3) /\
  inferred_unique gkr_witness 0 = true /\
  has_dup_values (col 0 gkr_witness) = true /\
  gkr_key gkr_witness (fun _ => true) [0; 1]%nat = Some 0%nat /\
  known_ndv_unique gkr_witness (fun _ => true) [0; 1]%nat = true /\
  original_rows sql_qsem [0; 1]%nat [(ASum, ECol 2)] gkr_witness
    = [[VInt 1; VInt 10; VInt 100]; [VInt 1; VInt 20; VInt 200]; [VInt 5; VInt 30; VInt 300]] /\
  (forall pick, length (reduced_rows sql_qsem pick 0 [0; 1]%nat [(ASum, ECol 2)] gkr_witness) = 2%nat) /\
  reduced_rows sql_qsem (hd VErr) 0 [0; 1]%nat [(ASum, ECol 2)] gkr_witness
    = [[VInt 1; VInt 10; VInt 300]; [VInt 5; VInt 30; VInt 300]].
Proof. repeat split; vm_compute; reflexivity. Qed.

Lemma value_same_refl v : v <> VErr -> value_same v v = true.
Proof.
  destruct v; cbn; intros H; try reflexivity; try congruence.
  - now rewrite Z.compare_refl.
  - unfold q_cmp. now rewrite (proj1 (Qeq_alt q q) (Qeq_refl q)).
  - now rewrite (proj2 (bytes_cmp_eq s s) eq_refl).
  - destruct b; reflexivity.
  - now rewrite Z.compare_refl.
Qed.

Lemma row_same_refl r : (forall v, In v r -> v <> VErr) -> row_same r r = true.
Proof.
  induction r as [|h t IH]; intros H; [reflexivity|]. cbn [row_same].
  rewrite value_same_refl by (apply H; now left). apply IH. intros; apply H; now right.
Qed.

Lemma row_same_map_in (g g' : nat -> value) keys c :
  row_same (map g keys) (map g' keys) = true -> In c keys -> value_same (g c) (g' c) = true.
Proof.
  induction keys as [|h t IH]; cbn [map row_same]; intros H Hc; [contradiction|].
  apply andb_true_iff in H as [H1 H2]. destruct Hc as [->|Hc]; auto.
Qed.

Lemma group_rows_nonempty S ks aggs rows :
  ks <> [] ->
  group_rows S ks aggs rows
  = map (fun kvs => kvs ++ map (fun fa => agg_apply (fst fa)
                                   (map (fun r => eval (q_esem S) r (snd fa)) (filter (fun r => row_same (map (eval (q_esem S) r) ks) kvs) rows))
                                   (length (filter (fun r => row_same (map (eval (q_esem S) r) ks) kvs) rows))) aggs)
        (distinct (map (fun r => map (eval (q_esem S) r) ks) rows)).
Proof. intros H. unfold group_rows. destruct ks; [congruence | reflexivity]. Qed.

Section FD.
  Variable S : qsem.
  Variable pick : list value -> value.
  Hypothesis pick_single : forall v, pick [v] = v.
  Variable keys : list nat.
  Variable kpos : nat.
  Hypothesis kpos_ok : (kpos < length keys)%nat.
  Let kcol := nth kpos keys 0%nat.
  Let K (r : row) := nth kcol r VErr.
  Let kv (r : row) := map (fun c => nth c r VErr) keys.

  Lemma kcol_in : In kcol keys.
  Proof. apply nth_In. exact kpos_ok. Qed.

  Lemma key_of_member rows zs r :
    map K rows = map VInt zs -> In r rows -> exists z, In z zs /\ K r = VInt z.
  Proof.
    intros Hk Hr. assert (In (K r) (map VInt zs)) as H by (rewrite <- Hk; now apply in_map).
    apply in_map_iff in H as (z & Hz & Hin). eauto.
  Qed.

  Lemma members_single rows : forall zs,
    map K rows = map VInt zs -> NoDup zs ->
    forall r, In r rows -> filter (fun r' => row_same [K r'] [K r]) rows = [r].
  Proof.
    induction rows as [|x t IH]; intros zs Hk Hnd r Hr; [contradiction|].
    destruct zs as [|z zs']; [discriminate|]. cbn [map] in Hk. inversion Hk as [[Hx Ht]].
    inversion Hnd as [|? ? Hnz Hnd']; subst.
    cbn [filter]. destruct Hr as [->|Hr].
    - rewrite Hx. cbn [row_same value_same cmp_values]. rewrite Z.compare_refl. cbn [andb]. f_equal.
      apply filter_none. intros r' Hr'. destruct (key_of_member t zs' r' Ht Hr') as (z' & Hz' & ->).
      cbn [row_same value_same cmp_values]. destruct (z' ?= z) eqn:E; try reflexivity.
      apply Z.compare_eq in E. subst. contradiction.
    - destruct (key_of_member t zs' r Ht Hr) as (z' & Hz' & Hkr). rewrite Hx, Hkr.
      cbn [row_same value_same cmp_values]. destruct (z ?= z') eqn:E.
      + apply Z.compare_eq in E. subst. contradiction.
      + cbn [andb]. rewrite <- Hkr. eapply IH; eauto.
      + cbn [andb]. rewrite <- Hkr. eapply IH; eauto.
  Qed.

  Lemma kv_same_key r r' : row_same (kv r') (kv r) = true -> row_same [K r'] [K r] = true.
  Proof.
    intros H. cbn [row_same]. rewrite andb_true_r.
    exact (row_same_map_in (fun c => nth c r' VErr) (fun c => nth c r VErr) keys kcol H kcol_in).
  Qed.

  Lemma distinct_keys_id (f : row -> list value) rows : forall zs,
    map K rows = map VInt zs -> NoDup zs ->
    (forall r r', row_same (f r) (f r') = true -> row_same [K r] [K r'] = true) ->
    distinct (map f rows) = map f rows.
  Proof.
    unfold distinct.
    induction rows as [|x t IH]; intros zs Hk Hnd Hf; [reflexivity|].
    destruct zs as [|z zs']; [discriminate|]. cbn [map] in Hk. inversion Hk as [[Hx Ht]].
    inversion Hnd as [|? ? Hnz Hnd']; subst.
    cbn [map distinct_by]. f_equal. rewrite (IH zs' Ht Hnd' Hf).
    apply filter_all. intros y Hy. apply in_map_iff in Hy as (r' & <- & Hr').
    destruct (row_same (f x) (f r')) eqn:E; [|reflexivity].
    apply Hf in E. destruct (key_of_member t zs' r' Ht Hr') as (z' & Hz' & Hkr).
    rewrite Hx, Hkr in E. cbn [row_same value_same cmp_values] in E.
    destruct (z ?= z') eqn:E2; try discriminate. apply Z.compare_eq in E2. subst. contradiction.
  Qed.

  Lemma keypart r :
    map (fun ic => if Nat.eqb (fst ic) kpos then hd VErr [K r] else pick (col (snd ic) [r]))
        (combine (seq 0 (length keys)) keys) = kv r.
  Proof.
    unfold kv. rewrite <- (map_snd_combine_seq keys 0) at 3. rewrite map_map.
    apply map_ext_in. intros [i c] Hic. cbn [fst snd hd].
    destruct (in_combine_seq keys 0%nat 0%nat i c Hic) as [_ Hn]. rewrite Nat.sub_0_r in Hn.
    destruct (Nat.eqb i kpos) eqn:E.
    - apply Nat.eqb_eq in E. subst i. unfold K, kcol. now rewrite Hn.
    - unfold col. cbn [map]. apply pick_single.
  Qed.

  (* sound when the key really is unique *)
  Theorem fd_reduction_equiv aggs rows zs :
    col kcol rows = map VInt zs -> NoDup zs ->
    (forall r c, In r rows -> In c keys -> nth c r VErr <> VErr) ->
    reduced_rows S pick kpos keys aggs rows = original_rows S keys aggs rows.
  Proof.
    intros Hk Hnd Hwf. unfold col in Hk. fold K in Hk.
    unfold reduced_rows, original_rows. fold kcol.
    rewrite group_rows_nonempty by (intros E; apply map_eq_nil in E; rewrite E in kpos_ok; cbn in kpos_ok; lia).
    assert (forall r, map (eval (q_esem S) r) (map ECol keys) = kv r) as Hkv
      by (intros r; unfold kv; rewrite map_map; reflexivity).
    rewrite (map_ext _ _ Hkv).
    change (map (fun r => [nth kcol r VErr]) rows) with (map (fun r => [K r]) rows).
    rewrite (distinct_keys_id (fun r => [K r]) rows zs Hk Hnd) by auto.
    rewrite (distinct_keys_id kv rows zs Hk Hnd) by (intros r r'; apply kv_same_key).
    rewrite !map_map. apply map_ext_in. intros r Hr.
    assert (forall g : list value -> bool, (forall r0, g r0 = row_same [K r0] [K r]) -> filter g rows = [r]) as HM.
    { intros g Hg. rewrite (filter_ext g _ Hg). exact (members_single rows zs Hk Hnd r Hr). }
    assert (forall g : list value -> bool, (forall r0, g r0 = row_same (kv r0) (kv r)) -> filter g rows = [r]) as HF.
    { intros g Hg. rewrite (filter_ext g _ Hg).
      rewrite (filter_sub _ (fun r0 : list value => row_same [K r0] [K r])) by (intros x _; apply kv_same_key).
      rewrite (HM (fun r0 : list value => row_same [K r0] [K r]) (fun _ => eq_refl)). cbn [filter].
      rewrite row_same_refl; [reflexivity|].
      intros v Hv. unfold kv in Hv. apply in_map_iff in Hv as (c & <- & Hc). now apply Hwf. }
    repeat match goal with
           | |- context [filter ?F rows] =>
               let E := fresh "E" in
               assert (filter F rows = [r]) as E
                 by (first [apply HM; intros; reflexivity | apply HF; intros r0; now rewrite Hkv]);
               rewrite E; clear E
           end.
    rewrite keypart. reflexivity.
  Qed.
End FD.

Example fd_reduction_example :
  reduced_rows sql_qsem (hd VErr) 0 [0; 1]%nat [(ASum, ECol 2)]
     [[VInt 1; VInt 10; VInt 100]; [VInt 2; VInt 20; VInt 200]; [VInt 5; VInt 30; VInt 300]]
  = original_rows sql_qsem [0; 1]%nat [(ASum, ECol 2)]
     [[VInt 1; VInt 10; VInt 100]; [VInt 2; VInt 20; VInt 200]; [VInt 5; VInt 30; VInt 300]].
Proof. vm_compute. reflexivity. Qed.

(* ====================== Part 2: packed keys ====================== *)
Lemma next_pow2_spec n : 1 <= n -> n <= next_pow2 n /\ 0 < next_pow2 n /\ exists s, 0 <= s /\ next_pow2 n = 2 ^ s.
Proof.
  intros Hn. unfold next_pow2.
  assert (0 <= Z.log2_up n) as Hs by apply Z.log2_up_nonneg.
  split; [|split].
  - destruct (Z.eq_dec n 1) as [->|Hne]; [cbn; lia|]. apply Z.log2_up_spec. lia.
  - apply Z.pow_pos_nonneg; lia.
  - eauto.
Qed.

Example next_pow2_examples : map next_pow2 [1; 2; 3; 4; 5; 8; 9; 20000001] = [1; 2; 4; 4; 8; 8; 16; 33554432].
Proof. vm_compute. reflexivity. Qed.

(* injective on the domain the guard establishes: second components in [0, K) *)
Theorem pack_injective K a b a' b' :
  0 <= b < K -> 0 <= b' < K -> pack K a b = pack K a' b' -> a = a' /\ b = b'.
Proof.
  unfold pack. intros Hb Hb' H.
  assert (a = a') as -> by nia. split; [reflexivity | lia].
Qed.

Theorem pack_unpack_roundtrip K s a b :
  0 <= s -> K = 2 ^ s -> 0 <= a -> 0 <= b < K -> pack K a b <= i64_max ->
  unpack_a K (pack K a b) = a /\ unpack_b K (pack K a b) = b.
Proof.
  intros Hs -> Ha Hb Hov. unfold unpack_a, unpack_b, pack, i64_max in *.
  assert (0 < 2 ^ s) as Hp by (apply Z.pow_pos_nonneg; lia).
  assert (0 <= a * 2 ^ s + b) as Hnn by nia.
  rewrite Z.log2_pow2 by lia. split.
  - rewrite (Z.mod_small (a * 2 ^ s + b)) by lia.
    rewrite Z.shiftr_div_pow2 by lia. rewrite Z.div_add_l by lia. rewrite Z.div_small by lia.
    rewrite Z.add_0_r. unfold to_i64.
    assert (a <= a * 2 ^ s) by nia.
    rewrite Z.mod_small by lia.
    destruct (a >=? 2 ^ 63) eqn:E; [|reflexivity]. rewrite Z.geb_le in E. lia.
  - replace (2 ^ s - 1) with (Z.ones s) by (rewrite Z.ones_equiv; lia).
    rewrite Z.land_ones by lia. rewrite Z.add_comm, Z.mod_add by lia. apply Z.mod_small. lia.
Qed.

(* what the guard establishes, and that the packed value stays inside i64 (so wrapping arithmetic is exact) *)
Theorem pack_guard_sound b0 b1 b2 b3 K :
  pack_guard b0 b1 b2 b3 = Some K ->
  0 <= fst b0 /\ 0 <= fst b1 /\ 0 <= fst b2 /\ 0 <= fst b3 /\
  (0 <= Z.max (snd b2) (snd b3) -> Z.max (snd b2) (snd b3) < K /\ (exists s, 0 <= s /\ K = 2 ^ s)) /\
  Z.max (snd b0) (snd b1) * K + Z.max (snd b2) (snd b3) <= i64_max.
Proof.
  unfold pack_guard. intros H.
  destruct ((fst b0 <? 0) || (fst b1 <? 0) || (fst b2 <? 0) || (fst b3 <? 0)) eqn:E; [discriminate|].
  repeat (apply orb_false_iff in E as [E ?]).
  destruct (_ >? i64_max) eqn:E2; [discriminate|]. inversion H; subst K. clear H.
  repeat match goal with H : (_ <? _) = false |- _ => apply Z.ltb_ge in H end.
  repeat split; try assumption.
  - destruct (next_pow2_spec (Z.max (snd b2) (snd b3) + 1)) as (Hp1 & _ & _); lia.
  - destruct (next_pow2_spec (Z.max (snd b2) (snd b3) + 1)) as (_ & _ & Hp3); [lia | exact Hp3].
  - rewrite Z.gtb_ltb, Z.ltb_ge in E2. exact E2.
Qed.

Lemma pack_in_i64 b0 b1 b2 b3 K a b :
  pack_guard b0 b1 b2 b3 = Some K ->
  0 <= a <= Z.max (snd b0) (snd b1) -> 0 <= b <= Z.max (snd b2) (snd b3) ->
  0 <= pack K a b <= i64_max.
Proof.
  intros G Ha Hb. destruct (pack_guard_sound _ _ _ _ _ G) as (_ & _ & _ & _ & HK & Hov).
  destruct HK as [HK _]; [lia|]. unfold pack. nia.
Qed.

(* the ON condition on pairs keeps exactly the row pairs the ON condition on packed keys keeps, NULL keys included;
   both for the Kleene reference and for the engine's strict kernels *)
Definition and_keeps (S : sem) : Prop := forall x y, keeps (lift2 (s_and S) x y) = keeps x && keeps y.
Lemma and_keeps_sql : and_keeps sql_sem.
Proof. intros x y. destruct x as [| | | |[|]| |], y as [| | | |[|]| |]; reflexivity. Qed.
Lemma and_keeps_eng : and_keeps eng_sem.
Proof. intros x y. destruct x as [| | | |[|]| |], y as [| | | |[|]| |]; reflexivity. Qed.

Lemma packed_on_row S (HS : and_keeps S) K a b c d b0 b1 b2 b3 lr :
  pack_guard b0 b1 b2 b3 = Some K ->
  row_in_bounds a b c d b0 b1 b2 b3 lr = true ->
  keeps (eval S lr (on_packed K a b c d)) = keeps (eval S lr (on_pairs a b c d)).
Proof.
  intros G HB. destruct (pack_guard_sound _ _ _ _ _ G) as (L0 & L1 & L2 & L3 & HK & _).
  unfold row_in_bounds in HB. repeat (apply andb_true_iff in HB as [HB ?]).
  unfold on_packed, on_pairs, pack_expr. cbn [eval]. rewrite HS.
  set (va := nth a lr VErr) in *. set (vb := nth b lr VErr) in *.
  set (vc := nth c lr VErr) in *. set (vd := nth d lr VErr) in *.
  destruct va as [|za| | | | |]; try discriminate; destruct vc as [|zc| | | | |]; try discriminate;
  destruct vb as [|zb| | | | |]; try discriminate; destruct vd as [|zd| | | | |]; try discriminate;
  try reflexivity; cbn [arith_op compare_op cmp_values keeps andb is_null].
  all: try (now destruct (_ ?= _)).
  unfold in_bound in *.
  repeat match goal with H : (_ && _) = true |- _ => apply andb_true_iff in H as [? ?] end.
  repeat match goal with H : (_ <=? _) = true |- _ => apply Z.leb_le in H end.
  destruct HK as [HK _]; [lia|].
  assert (0 <= zb < K) by lia. assert (0 <= zd < K) by lia.
  destruct (za * K + zb ?= zc * K + zd) eqn:E.
  - apply Z.compare_eq in E. destruct (pack_injective K za zb zc zd) as [-> ->]; auto.
    rewrite !Z.compare_refl. reflexivity.
  - destruct (za ?= zc) eqn:E1; [|reflexivity|reflexivity]. apply Z.compare_eq in E1. subst.
    destruct (zb ?= zd) eqn:E2; try reflexivity. apply Z.compare_eq in E2. subst. rewrite Z.compare_refl in E. discriminate.
  - destruct (za ?= zc) eqn:E1; [|reflexivity|reflexivity]. apply Z.compare_eq in E1. subst.
    destruct (zb ?= zd) eqn:E2; try reflexivity. apply Z.compare_eq in E2. subst. rewrite Z.compare_refl in E. discriminate.
Qed.

(* stats_sound: every row pair the join sees respects the bounds the guard used *)
Definition bounds_hold (a b c d : nat) (b0 b1 b2 b3 : Z * Z) (L R : rel) : Prop :=
  forall l r, In l L -> In r R -> row_in_bounds a b c d b0 b1 b2 b3 (l ++ r) = true.

Theorem packed_join_equiv Q (HS : and_keeps (q_esem Q)) jt wl wr K a b c d b0 b1 b2 b3 L R :
  pack_guard b0 b1 b2 b3 = Some K ->
  bounds_hold a b c d b0 b1 b2 b3 L R ->
  join_rows Q jt wl wr (on_packed K a b c d) L R = join_rows Q jt wl wr (on_pairs a b c d) L R.
Proof.
  intros G HB. unfold join_rows. apply join_gen_ext. intros l r Hl Hr.
  eapply packed_on_row; eauto.
Qed.

Example packed_join_example :
  let L := [[VInt 1; VInt 0]; [VInt 2; VInt 3]; [VNull; VInt 3]] in
  let R := [[VInt 2; VInt 3]; [VInt 1; VInt 3]; [VNull; VInt 3]] in
  pack_guard (1, 2) (1, 2) (0, 3) (3, 3) = Some 4 /\
  (forall l r, In l L -> In r R -> row_in_bounds 0 1 2 3 (1, 2) (1, 2) (0, 3) (3, 3) (l ++ r) = true) /\
  join_rows eng_qsem JInner 2 2 (on_packed 4 0 1 2 3) L R = [[VInt 2; VInt 3; VInt 2; VInt 3]].
Proof.
  cbv zeta. split; [reflexivity|]. split; [|vm_compute; reflexivity].
  intros l r Hl Hr. cbn in Hl, Hr.
  repeat match goal with H : _ \/ _ |- _ => destruct H as [<-|H] end; try contradiction; reflexivity.
Qed.

(* bounds are looked up by BARE column name: a derived column (or a column of a table without statistics) that reuses a
   base column's name inherits bounds it does not satisfy; the guard passes and the packed join matches pairs that differ.
   Witness: t(c0,c1) = (1,0),(2,3) in Parquet; u(a,b) = (2,0),(1,3); the left input is (SELECT c0, c1 + 4 AS c1 FROM t). *)
Definition bn_cat : catalog := [[(0, (1, 2)); (1, (0, 3))]; [(2, (1, 2)); (3, (0, 3))]].   (* names: c0=0 c1=1 a=2 b=3 *)
Definition bn_left : rel := [[VInt 1; VInt 4]; [VInt 2; VInt 7]].
Definition bn_right : rel := [[VInt 2; VInt 0]; [VInt 1; VInt 3]].

Theorem bounds_by_name_refuted :
  pack_guard_by_name bn_cat 0 2 1 3 = Some 4 /\
  join_rows eng_qsem JInner 2 2 (on_pairs 0 1 2 3) bn_left bn_right = [] /\
  join_rows eng_qsem JInner 2 2 (on_packed 4 0 1 2 3) bn_left bn_right = [[VInt 1; VInt 4; VInt 2; VInt 0]] /\
  known_bounds_by_name [(1, 2); (1, 2); (0, 3); (0, 3)] [col 0 bn_left; col 0 bn_right; col 1 bn_left; col 1 bn_right] = true /\
  (* same for the group-key variant: GROUP BY c0, c1 over the derived input unpacks to keys that never occurred *)
  original_rows eng_qsem [0; 1]%nat [(ACountStar, ELit VNull)] bn_left = [[VInt 1; VInt 4; VInt 1]; [VInt 2; VInt 7; VInt 1]] /\
  packed_group_rows eng_qsem 4 0 1 [(ACountStar, ELit VNull)] bn_left = [[VInt 2; VInt 0; VInt 1]; [VInt 3; VInt 3; VInt 1]].
Proof. repeat split; vm_compute; reflexivity. Qed.

(* regression witness of the repaired partial-statistics defect. Bounds taken from PARTIAL statistics: t = (1,0),(2,3) in a file with statistics and (1,4) in a file without; u = (2,0),(1,3).
   The footer bounds of t.a1 are [0,3], K = 4, and (1,4) packs onto (2,0). *)
Theorem partial_stats_bounds_refuted :
  let a0 := [(true, [VInt 1; VInt 2]); (false, [VInt 1])] in
  let a1 := [(true, [VInt 0; VInt 3]); (false, [VInt 4])] in
  stats_of_chunks_before_fix a1 = mkCS (Some 0) (Some 3) None (Some 3) /\
  stats_of_chunks a1 = mkCS None None None None /\
  known_partial_stats a1 = true /\ known_partial_stats a0 = false /\
  pack_guard (1, 2) (1, 2) (0, 3) (0, 3) = Some 4 /\
  join_rows eng_qsem JInner 2 2 (on_pairs 0 1 2 3) [[VInt 1; VInt 0]; [VInt 2; VInt 3]; [VInt 1; VInt 4]] bn_right = [] /\
  join_rows eng_qsem JInner 2 2 (on_packed 4 0 1 2 3) [[VInt 1; VInt 0]; [VInt 2; VInt 3]; [VInt 1; VInt 4]] bn_right
    = [[VInt 1; VInt 4; VInt 2; VInt 0]].
Proof. repeat split; vm_compute; reflexivity. Qed.

(* outside the class the packed group-by is the original group-by *)
Example packed_group_example :
  let rows := [[VInt 1; VInt 0; VInt 5]; [VInt 2; VInt 3; VInt 6]; [VInt 1; VInt 0; VInt 7]] in
  packed_group_rows eng_qsem 4 0 1 [(ASum, ECol 2)] rows = original_rows eng_qsem [0; 1]%nat [(ASum, ECol 2)] rows.
Proof. vm_compute. reflexivity. Qed.

(* ====================== Part 3: algebraic lemma library for the structural rules ====================== *)
(* the nested recursions of `eval`, named *)
Definition case_go (ev : expr -> value) (dflt : value) :=
  fix go (ws : list (expr * expr)) : value :=
    match ws with
    | [] => dflt
    | (c, t) :: ws' => match ev c with VBool true => ev t | VBool false | VNull => go ws' | _ => VErr end
    end.
Definition coalesce_go (ev : expr -> value) :=
  fix go (xs : list expr) : value :=
    match xs with [] => VNull | x :: xs' => match ev x with VNull => go xs' | v => v end end.

Lemma eval_case S r whens els :
  eval S r (ECase whens els)
  = case_go (eval S r) (match els with Some e' => eval S r e' | None => VNull end) whens.
Proof. reflexivity. Qed.
Lemma eval_coalesce S r l : eval S r (ECoalesce l) = coalesce_go (eval S r) l.
Proof. reflexivity. Qed.
Lemma eval_in S r a l neg :
  eval S r (EIn a l neg)
  = negate_if neg (fold_left (fun acc x => lift2 (s_or S) acc (compare_op CEq (eval S r a) (eval S r x))) l (VBool false)).
Proof. reflexivity. Qed.

Lemma like_kind_remap {A} f p (x y : A) :
  match remap f p with ELit _ => x | _ => y end = match p with ELit _ => x | _ => y end.
Proof. destruct p; reflexivity. Qed.

(* an expression only depends on the columns it reads *)
Lemma eval_remap S f r r' e :
  (forall i, In i (cols e) -> nth (f i) r' VErr = nth i r VErr) -> eval S r' (remap f e) = eval S r e.
Proof.
  induction e using expr_ind2; intros HC; cbn [cols] in HC.
  - cbn. apply HC. now left.
  - reflexivity.
  - cbn [remap eval]. rewrite IHe1, IHe2; auto; intros; apply HC, in_or_app; auto.
  - cbn [remap eval]. rewrite IHe1, IHe2; auto; intros; apply HC, in_or_app; auto.
  - cbn [remap eval]. rewrite IHe1, IHe2; auto; intros; apply HC, in_or_app; auto.
  - cbn [remap eval]. now rewrite IHe.
  - cbn [remap eval]. now rewrite IHe.
  - cbn [remap eval]. now rewrite IHe.
  - cbn [remap]. rewrite !eval_in. rewrite IHe by (intros; apply HC, in_or_app; auto). f_equal.
    assert (forall x, In x l -> eval S r' (remap f x) = eval S r x) as HL.
    { intros x Hx. rewrite Forall_forall in H. apply H; auto. intros i Hi. apply HC, in_or_app. right.
      apply in_flat_map. eauto. }
    clear H HC. generalize (VBool false). induction l as [|x t IHl]; intros acc; [reflexivity|].
    cbn [map fold_left]. rewrite HL by now left. apply IHl. intros; apply HL; now right.
  - cbn [remap eval]. rewrite IHe1, IHe2, IHe3; auto; intros; apply HC; rewrite !in_app_iff; auto.
  - cbn [remap eval]. rewrite like_kind_remap. rewrite IHe1, IHe2; auto; intros; apply HC, in_or_app; auto.
  - cbn [remap eval]. rewrite IHe1, IHe2; auto; intros; apply HC, in_or_app; auto.
  - cbn [remap eval]. now rewrite IHe.
  - cbn [remap]. rewrite !eval_case.
    assert (match (match els with Some x => Some (remap f x) | None => None end) with
            | Some e' => eval S r' e' | None => VNull end
            = match els with Some e' => eval S r e' | None => VNull end) as HD.
    { destruct els as [x|]; [|reflexivity]. cbn in H0. apply H0. intros; apply HC, in_or_app; auto. }
    rewrite HD. clear HD H0.
    assert (forall ct, In ct whens -> eval S r' (remap f (fst ct)) = eval S r (fst ct)
                                      /\ eval S r' (remap f (snd ct)) = eval S r (snd ct)) as HW.
    { intros ct Hct. rewrite Forall_forall in H. destruct (H ct Hct) as [H1 H2].
      split; [apply H1 | apply H2]; intros i Hi; apply HC, in_or_app; left; apply in_flat_map;
        exists ct; (split; [assumption | apply in_or_app; auto]). }
    clear H HC. induction whens as [|[c t] ws IHw]; [reflexivity|].
    cbn [map case_go fst snd]. destruct (HW (c, t) (or_introl eq_refl)) as [H1 H2]. cbn [fst snd] in H1, H2. rewrite H1, H2.
    rewrite IHw by (intros; apply HW; now right). reflexivity.
  - cbn [remap]. rewrite !eval_coalesce.
    assert (forall x, In x l -> eval S r' (remap f x) = eval S r x) as HL.
    { intros x Hx. rewrite Forall_forall in H. apply H; auto. intros i Hi. apply HC. apply in_flat_map. eauto. }
    clear H HC. induction l as [|x t IHl]; [reflexivity|].
    cbn [map coalesce_go]. rewrite HL by now left. rewrite IHl by (intros; apply HL; now right). reflexivity.
Qed.

Lemma remap_id e : remap (fun i => i) e = e.
Proof.
  induction e using expr_ind2; cbn [remap]; try congruence.
  - f_equal; auto. induction H; cbn [map]; congruence.
  - f_equal.
    + induction H as [|[c t] ws [H1 H2] _ IHw]; cbn [map fst snd] in *; [reflexivity|]. now rewrite H1, H2, IHw.
    + destruct els; cbn in *; congruence.
  - f_equal. induction H; cbn [map]; congruence.
Qed.

Lemma eval_ext_cols S r r' e :
  (forall i, In i (cols e) -> nth i r' VErr = nth i r VErr) -> eval S r' e = eval S r e.
Proof. intros H. rewrite <- (remap_id e) at 1. now apply eval_remap. Qed.

(* a predicate that reads only the first n columns does not see what is appended *)
Definition reads_below (n : nat) (e : expr) : Prop := forall i, In i (cols e) -> (i < n)%nat.
Lemma eval_app_left S e l x : reads_below (length l) e -> eval S (l ++ x) e = eval S l e.
Proof. intros H. apply eval_ext_cols. intros i Hi. apply app_nth1. now apply H. Qed.
Lemma eval_app_right S e l r :
  (forall i, In i (cols e) -> (length l <= i)%nat) ->
  eval S (l ++ r) e = eval S r (remap (fun i => (i - length l)%nat) e).
Proof. intros H. symmetry. apply eval_remap. intros i Hi. rewrite app_nth2 by (now apply H). reflexivity. Qed.

(* ---- conjunction splitting: true of the Kleene AND and of the strict AND alike ---- *)
Lemma filter_andb {A} (f g : A -> bool) l : filter (fun x => f x && g x) l = filter f (filter g l).
Proof.
  induction l as [|x t IH]; [reflexivity|]. cbn [filter].
  destruct (g x); cbn [filter]; destruct (f x); cbn [andb]; now rewrite IH.
Qed.
Theorem filter_conj_split S (HS : and_keeps S) a b (rows : rel) :
  filter (fun r => keeps (eval S r (EAnd a b))) rows
  = filter (fun r => keeps (eval S r a)) (filter (fun r => keeps (eval S r b)) rows).
Proof.
  rewrite <- filter_andb. apply filter_ext. intros r. cbn [eval]. apply HS.
Qed.

(* ---- pushing a row predicate below a join, to the side whose columns it reads ---- *)
Lemma filter_flat_map {A B} (f : B -> bool) (g : A -> list B) l :
  filter f (flat_map g l) = flat_map (fun a => filter f (g a)) l.
Proof. induction l as [|h t IH]; cbn [flat_map]; [reflexivity|]. now rewrite filter_app, IH. Qed.
Lemma flat_map_filter_in {A B} (p : A -> bool) (g h : A -> list B) l :
  (forall a, In a l -> h a = if p a then g a else []) -> flat_map h l = flat_map g (filter p l).
Proof.
  induction l as [|x t IH]; intros H; [reflexivity|]. cbn [flat_map filter].
  rewrite (H x) by now left. rewrite IH by (intros; apply H; now right).
  destruct (p x); reflexivity.
Qed.
Lemma filter_map_const {A B} (f : B -> bool) (g : A -> B) l b :
  (forall a, In a l -> f (g a) = b) -> filter f (map g l) = if b then map g l else [].
Proof.
  induction l as [|x t IH]; intros H; [now destruct b|]. cbn [map filter].
  rewrite (H x) by now left. rewrite IH by (intros; apply H; now right). now destruct b.
Qed.
Lemma filter_comm {A} (f g : A -> bool) l : filter f (filter g l) = filter g (filter f l).
Proof.
  induction l as [|x t IH]; [reflexivity|]. cbn [filter].
  destruct (g x) eqn:Eg, (f x) eqn:Ef; cbn [filter]; rewrite ?Eg, ?Ef, IH; reflexivity.
Qed.

(* f reads the LEFT columns only: it commutes with every join type that preserves or filters left rows *)
Theorem push_left_sound jt wl wr ok (f : row -> bool) L R :
  (forall l x, In l L -> f (l ++ x) = f l) ->
  match jt with JInner | JLeft | JCross | JSemi | JAnti => True | _ => False end ->
  filter f (join_gen jt wl wr ok L R) = join_gen jt wl wr ok (filter f L) R.
Proof.
  intros Hf Hjt.
  destruct jt; try contradiction; cbn [join_gen].
  - (* inner *) rewrite filter_flat_map. apply flat_map_filter_in. intros l Hl.
    apply filter_map_const. intros; now apply Hf.
  - (* left *) rewrite filter_flat_map. apply flat_map_filter_in. intros l Hl.
    destruct (filter (ok l) R) as [|m ms] eqn:E.
    + cbn [filter]. rewrite Hf by assumption. now destruct (f l).
    + apply filter_map_const. intros; now apply Hf.
  - (* semi *) apply filter_comm.
  - (* anti *) apply filter_comm.
  - (* cross *) rewrite filter_flat_map. apply flat_map_filter_in. intros l Hl.
    apply filter_map_const. intros; now apply Hf.
Qed.

(* sigma_p (L join R) = (sigma_p L) join R for a predicate expression over L's columns *)
Theorem pushdown_inner_sound S jt wl wr ok p L R :
  (forall l, In l L -> length l = wl) -> reads_below wl p ->
  match jt with JInner | JLeft | JCross | JSemi | JAnti => True | _ => False end ->
  filter (fun r => keeps (eval S r p)) (join_gen jt wl wr ok L R)
  = join_gen jt wl wr ok (filter (fun r => keeps (eval S r p)) L) R.
Proof.
  intros HW Hp Hjt. apply push_left_sound; auto.
  intros l x Hl. rewrite eval_app_left; [reflexivity|]. now rewrite (HW l Hl).
Qed.

(* the right side of an INNER join *)
Theorem pushdown_inner_right_sound S wl wr ok p L R :
  (forall l, In l L -> length l = wl) -> (forall i, In i (cols p) -> (wl <= i)%nat) ->
  filter (fun r => keeps (eval S r p)) (join_gen JInner wl wr ok L R)
  = join_gen JInner wl wr ok L (filter (fun r => keeps (eval S r (remap (fun i => (i - wl)%nat) p))) R).
Proof.
  intros HW Hp. cbn [join_gen]. rewrite filter_flat_map. apply flat_map_ext_in. intros l Hl.
  set (g := fun r : row => keeps (eval S r (remap (fun i => (i - wl)%nat) p))).
  assert (forall r, keeps (eval S (l ++ r) p) = g r) as Hg.
  { intros r. unfold g. rewrite eval_app_right by (rewrite (HW l Hl); exact Hp). now rewrite (HW l Hl). }
  rewrite (filter_comm (ok l) g R).
  induction R as [|r t IH]; [reflexivity|]. cbn [filter].
  destruct (ok l r) eqn:E1; cbn [map filter]; rewrite ?Hg; destruct (g r) eqn:E2; cbn [filter map]; rewrite ?E1, ?IH; reflexivity.
Qed.

(* ... but NOT through the null-extended side of an outer join: `WHERE r.x IS NULL` above L LEFT JOIN R *)
Theorem pushdown_outer_null_side_refuted :
  let L := [[VInt 1]; [VInt 2]] in
  let R := [[VInt 1; VInt 7]] in
  let ok := fun l r : row => keeps (compare_op CEq (nth 0 l VErr) (nth 0 r VErr)) in
  let p := EIsNull (ECol 2) in
  filter (fun r => keeps (eval sql_sem r p)) (join_gen JLeft 1 2 ok L R) = [[VInt 2; VNull; VNull]] /\
  join_gen JLeft 1 2 ok L (filter (fun r => keeps (eval sql_sem r (remap (fun i => (i - 1)%nat) p))) R)
    = [[VInt 1; VNull; VNull]; [VInt 2; VNull; VNull]].
Proof. vm_compute. auto. Qed.

(* semi-join pushdown: Semi(Inner(A, B), C) on a condition over A's columns = Inner(Semi(A, C), B); same for Anti *)
Theorem semi_join_pushdown_sound (anti : bool) (wa wb wc : nat) okab (okc okc' : row -> row -> bool) A B C :
  (forall a x c, In a A -> okc (a ++ x) c = okc' a c) ->
  join_gen (if anti then JAnti else JSemi) (wa + wb)%nat wc okc (join_gen JInner wa wb okab A B) C
  = join_gen JInner wa wb okab (join_gen (if anti then JAnti else JSemi) wa wc okc' A C) B.
Proof.
  intros H. destruct anti.
  - change (join_gen JAnti (wa + wb)%nat wc okc (join_gen JInner wa wb okab A B) C)
      with (filter (fun l => negb (existsb (okc l) C)) (join_gen JInner wa wb okab A B)).
    rewrite (push_left_sound JInner wa wb okab (fun l => negb (existsb (okc l) C)) A B); [|  | exact I].
    + cbn [join_gen]. f_equal. apply filter_ext_in. intros a Ha. f_equal.
      rewrite <- (app_nil_r a) at 1. apply existsb_ext. intros c. now apply H.
    + intros l x Hl. f_equal. transitivity (existsb (okc' l) C); [|symmetry]; apply existsb_ext; intros c.
      * now apply H.
      * rewrite <- (app_nil_r l) at 1. now apply H.
  - change (join_gen JSemi (wa + wb)%nat wc okc (join_gen JInner wa wb okab A B) C)
      with (filter (fun l => existsb (okc l) C) (join_gen JInner wa wb okab A B)).
    rewrite (push_left_sound JInner wa wb okab (fun l => existsb (okc l) C) A B); [|  | exact I].
    + cbn [join_gen]. f_equal. apply filter_ext_in. intros a Ha.
      rewrite <- (app_nil_r a) at 1. apply existsb_ext. intros c. now apply H.
    + intros l x Hl. transitivity (existsb (okc' l) C); [|symmetry]; apply existsb_ext; intros c.
      * now apply H.
      * rewrite <- (app_nil_r l) at 1. now apply H.
Qed.

(* ---- projection pruning: drop the input columns no expression reads ---- *)
Lemma nth_select keep r i : In i keep -> nth (index_of i keep) (select keep r) VErr = nth i r VErr.
Proof.
  unfold select. induction keep as [|k t IH]; intros H; [contradiction|]. cbn [index_of map].
  destruct (Nat.eqb k i) eqn:E.
  - apply Nat.eqb_eq in E. now subst.
  - destruct H as [->|H]; [rewrite Nat.eqb_refl in E; discriminate|]. cbn [nth]. now apply IH.
Qed.

Theorem projection_pruning_sound keep es (rows : rel) :
  (forall e i, In e es -> In i (cols e) -> In i keep) ->
  prune_project keep es rows = map (fun r => map (eval sql_sem r) es) rows.
Proof.
  intros H. unfold prune_project. rewrite map_map. apply map_ext. intros r. rewrite map_map.
  apply map_ext_in. intros e He. apply eval_remap. intros i Hi. apply nth_select. eauto.
Qed.

(* ====================== Part 4: more witnesses of unsound rewrites found on the real engine ====================== *)
(* (b) statistics resolved by bare column name: ta is a MEMORY table (no column statistics), tb a Parquet table with the same
   column names and one row; `SELECT c2, c1, COUNT( * ) FROM ta GROUP BY c2, c1` is reduced to GROUP BY c2 because tb.c2 is
   "unique" (names: c0=0 c1=1 c2=2; tables: ta=0 tb=1) *)
Definition ct_ta : rel :=
  [[VInt 2; VInt (-1); VNull]; [VInt 7; VInt 1; VDate 365]; [VNull; VInt 1; VNull]; [VInt 2; VInt 3; VDate 1];
   [VInt 1; VInt 1; VDate 10957]; [VInt (-1); VInt 2; VDate 0]; [VInt 3; VInt (-1); VDate 365]; [VNull; VInt 1; VNull];
   [VNull; VInt (-1); VDate 0]; [VInt 7; VInt 1; VDate 365]].
Definition ct_tb : rel := [[VInt 3; VNull; VDate (-1)]].
Theorem column_table_refuted :
  column_table [[]; [0; 1; 2]] 2 = Some 1%nat /\ column_table [[]; [0; 1; 2]] 1 = Some 1%nat /\
  inferred_unique ct_tb 2 = true /\
  known_stats_by_name [[]; [0; 1; 2]] (Some 0%nat) [2; 1] = true /\
  length (original_rows sql_qsem [2; 1]%nat [(ACountStar, ELit VNull)] ct_ta) = 8%nat /\
  (forall pick, length (reduced_rows sql_qsem pick 0 [2; 1]%nat [(ACountStar, ELit VNull)] ct_ta) = 5%nat).
Proof. repeat split; vm_compute; reflexivity. Qed.

(* LEFT-join count pushdown relies on the same estimate: every L row becomes a group of its own *)
Theorem left_count_refuted :
  let db := [[[VInt 1; VInt 10]; [VInt 1; VInt 20]; [VInt 5; VInt 30]];
             [[VInt 1; VInt 7]; [VInt 1; VInt 8]; [VInt 5; VInt 9]; [VInt 2; VInt 1]]] in
  let L := QTable 0 2 in let R := QTable 1 2 in
  known_ndv_unique_count (nth 0 db []) 0 = true /\
  qeval sql_qsem db (left_count_original L R 0 0 1) = [[VInt 1; VInt 4]; [VInt 5; VInt 1]] /\
  qeval sql_qsem db (left_count_rewritten L R 0 0 1) = [[VInt 1; VInt 2]; [VInt 1; VInt 2]; [VInt 5; VInt 1]].
Proof. repeat split; vm_compute; reflexivity. Qed.
Example left_count_sound_example :
  let db := [[[VInt 1; VInt 10]; [VInt 3; VInt 20]; [VInt 5; VInt 30]];
             [[VInt 1; VInt 7]; [VInt 1; VNull]; [VInt 5; VInt 9]; [VInt 2; VInt 1]]] in
  known_ndv_unique_count (nth 0 db []) 0 = false /\
  qeval sql_qsem db (left_count_rewritten (QTable 0 2) (QTable 1 2) 0 0 1)
  = qeval sql_qsem db (left_count_original (QTable 0 2) (QTable 1 2) 0 0 1).
Proof. split; vm_compute; reflexivity. Qed.

(* regression witness of the repaired key-type defect (fix 2bbc018): with an INT32 right join key the rewritten join matched
   nothing (l.k = 7, 9 really is unique here): `SELECT l.k, COUNT(r.y) FROM l LEFT JOIN r ON l.k = r.fk GROUP BY l.k`,
   r.fk INTEGER, returned 0 for every key; the repaired rewrite (`left_count_rewritten`) gives the original's answer *)
Theorem left_count_key_type_before_fix :
  let db := [[[VInt 7; VInt 1]; [VInt 9; VInt 2]]; [[VInt 7; VInt 1]; [VInt 7; VNull]; [VInt 9; VInt 5]; [VInt 2; VInt 1]]] in
  let L := QTable 0 2 in let R := QTable 1 2 in
  known_leftcount_key_type (nth 0 db []) 0 false = true /\ known_ndv_unique_count (nth 0 db []) 0 = false /\
  qeval sql_qsem db (left_count_original L R 0 0 1) = [[VInt 7; VInt 1]; [VInt 9; VInt 1]] /\
  qeval sql_qsem db (left_count_rewritten L R 0 0 1) = [[VInt 7; VInt 1]; [VInt 9; VInt 1]] /\
  qeval sql_qsem db (left_count_before_fix_narrow_key L R 0 0 1) = [[VInt 7; VInt 0]; [VInt 9; VInt 0]].
Proof. repeat split; vm_compute; reflexivity. Qed.

(* regression witnesses of the repaired PredicatePushdown defects (fix 12a27a2).
   Before the fix a filter was pushed through Sort and Limit: sigma_p (top-k R) <> top-k (sigma_p R) *)
Theorem filter_below_limit_before_fix :
  let db := [[[VInt 1]; [VInt 2]; [VInt 6]; [VInt 7]; [VInt 8]]] in
  let q := QFilter (QLimit (QSort (QTable 0 1) [mkKey (ECol 0) false false]) 0 (Some 2%nat)) (ECmp CGt (ECol 0) (ELit (VInt 5))) in
  qeval sql_qsem db q = [] /\
  qeval sql_qsem db (push_filter_before_fix q) = [[VInt 6]; [VInt 7]] /\
  push_filter q = q.
Proof. repeat split; vm_compute; reflexivity. Qed.

(* ... and through a Project when the referenced NAME also existed in the projection's input, although the projection
   redefines it: SELECT c0, c1 FROM (SELECT c0, c1 + 4 AS c1 FROM t) WHERE c1 > 5 *)
Theorem filter_below_rename_before_fix :
  let db := [[[VInt 1; VInt 0]; [VInt 2; VInt 3]; [VInt 8; VInt 2]]] in
  let q := QFilter (QProject (QTable 0 2) [ECol 0; EArith AAdd (ECol 1) (ELit (VInt 4))]) (ECmp CGt (ECol 1) (ELit (VInt 5))) in
  qeval sql_qsem db q = [[VInt 2; VInt 7]; [VInt 8; VInt 6]] /\
  qeval sql_qsem db (push_filter_before_fix q) = [] /\
  push_filter q = q.
Proof. repeat split; vm_compute; reflexivity. Qed.
(* sound when the projection passes the column through unchanged *)
Theorem filter_through_project_sound S es p (rows : rel) :
  (forall i, In i (cols p) -> nth i es (ELit VErr) = ECol i) ->
  filter (fun r => keeps (eval S r p)) (map (fun r => map (eval S r) es) rows)
  = map (fun r => map (eval S r) es) (filter (fun r => keeps (eval S r p)) rows).
Proof.
  intros H. induction rows as [|r t IH]; [reflexivity|]. cbn [map filter].
  assert (eval S (map (eval S r) es) p = eval S r p) as E.
  { apply eval_ext_cols. intros i Hi. specialize (H i Hi).
    destruct (Nat.lt_ge_cases i (length es)) as [Hlt|Hge].
    - rewrite (nth_indep _ VErr (eval S r (ELit VErr))) by (now rewrite map_length).
      rewrite map_nth. now rewrite H.
    - rewrite nth_overflow in H by assumption. discriminate. }
  rewrite E. destruct (keeps (eval S r p)); cbn [map]; now rewrite IH.
Qed.

(* the repaired pushdown never changes the answer, under either semantics *)
Theorem push_filter_sound Q db q : qeval Q db (push_filter q) = qeval Q db q.
Proof.
  destruct q as [| |q0 p| | | | | | |]; try reflexivity.
  destruct q0 as [| | |q1 es| | | | | |]; try reflexivity.
  cbn [push_filter]. destruct (passes_through es p) eqn:E; [|reflexivity].
  cbn [qeval]. symmetry. apply filter_through_project_sound.
  intros i Hi. unfold passes_through in E. rewrite forallb_forall in E. specialize (E i Hi).
  destruct (nth i es (ELit VErr)); try discriminate. apply Nat.eqb_eq in E. now subst.
Qed.
Example push_filter_fires :
  push_filter (QFilter (QProject (QTable 0 2) [ECol 0; EArith AAdd (ECol 1) (ELit (VInt 4))]) (ECmp CGt (ECol 0) (ELit (VInt 5))))
  = QProject (QFilter (QTable 0 2) (ECmp CGt (ECol 0) (ELit (VInt 5)))) [ECol 0; EArith AAdd (ECol 1) (ELit (VInt 4))].
Proof. reflexivity. Qed.

(* ====================== Part 5: constant folding ====================== *)
Lemma tv_of_some v x : tv_of v = Some x -> v = of_tv x.
Proof. destruct v as [| | | |[|]| |]; cbn; intros H; inversion H; reflexivity. Qed.
Lemma lift2_noerr f a b : lift2 f a b <> VErr -> exists x y, a = of_tv x /\ b = of_tv y.
Proof.
  unfold lift2. destruct (tv_of a) as [x|] eqn:Ea; [|congruence]. destruct (tv_of b) as [y|] eqn:Eb; [|congruence].
  intros _. exists x, y. split; now apply tv_of_some.
Qed.
Lemma of_tv_noerr x : of_tv x <> VErr. Proof. destruct x; discriminate. Qed.
Lemma lift2_of_tv f x y : lift2 f (of_tv x) (of_tv y) = of_tv (f x y).
Proof. destruct x, y; reflexivity. Qed.
Lemma compare_noerr op a b : compare_op op a b <> VErr -> a <> VErr /\ b <> VErr.
Proof. destruct a, b; cbn; intros H; split; congruence. Qed.
Lemma arith_noerr op a b : arith_op op a b <> VErr -> a <> VErr /\ b <> VErr.
Proof. destruct a, b; cbn; intros H; split; congruence. Qed.

Lemma fold_cmp_ok op x y v : fold_cmp op x y = Some v -> compare_op op x y = v.
Proof.
  destruct x, y; cbn; intros H; try discriminate; try (inversion H; reflexivity).
  destruct op; try discriminate; inversion H; destruct b, b0; reflexivity.
Qed.
Lemma fold_arith_ok op x y v : fold_arith op x y = Some v -> arith_op op x y = v.
Proof.
  destruct x, y; cbn; intros H; try discriminate. destruct (in_i64 _); inversion H. reflexivity.
Qed.
Lemma fold_bool_and_ok x y v : fold_bool true x y = Some v -> lift2 and3 x y = v.
Proof. destruct x, y; cbn; intros H; try discriminate. inversion H. destruct b, b0; reflexivity. Qed.
Lemma fold_bool_or_ok x y v : fold_bool false x y = Some v -> lift2 or3 x y = v.
Proof. destruct x, y; cbn; intros H; try discriminate. inversion H. destruct b, b0; reflexivity. Qed.

Lemma is_true_lit_eq e : is_true_lit e = true -> e = ELit (VBool true).
Proof. destruct e; try discriminate. destruct v; try discriminate. destruct b; [reflexivity | discriminate]. Qed.
Lemma is_false_lit_eq e : is_false_lit e = true -> e = ELit (VBool false).
Proof. destruct e; try discriminate. destruct v; try discriminate. destruct b; [discriminate | reflexivity]. Qed.

(* folding is the Kleene semantics: on every row where the expression is not a type error, the folded expression has
   the same value *)
Theorem fold_preserves_kleene r e :
  eval sql_sem r e <> VErr -> eval sql_sem r (fold e) = eval sql_sem r e.
Proof.
  induction e using expr_ind2; intros NE; cbn [fold]; try reflexivity.
  - (* cmp *) cbn [eval] in NE. destruct (compare_noerr _ _ _ NE) as [Na Nb].
    specialize (IHe1 Na). specialize (IHe2 Nb).
    destruct (fold e1) eqn:F1; try (cbn [eval] in *; now rewrite IHe1, IHe2).
    destruct (fold e2) eqn:F2; try (cbn [eval] in *; now rewrite IHe1, IHe2).
    destruct (fold_cmp op v v0) eqn:FC; [|cbn [eval] in *; now rewrite IHe1, IHe2].
    cbn [eval] in *. rewrite <- IHe1, <- IHe2. symmetry. now apply fold_cmp_ok.
  - (* and *) cbn [eval] in NE. destruct (lift2_noerr _ _ _ NE) as (x & y & Ea & Eb).
    assert (eval sql_sem r (fold e1) = of_tv x) as I1 by (rewrite IHe1; [exact Ea | rewrite Ea; apply of_tv_noerr]).
    assert (eval sql_sem r (fold e2) = of_tv y) as I2 by (rewrite IHe2; [exact Eb | rewrite Eb; apply of_tv_noerr]).
    cbn [eval]. rewrite Ea, Eb. cbn [s_and sql_sem].
    destruct (match fold e1, fold e2 with ELit x0, ELit y0 => fold_bool true x0 y0 | _, _ => None end) as [v|] eqn:FB.
    { destruct (fold e1) eqn:F1; try discriminate. destruct (fold e2) eqn:F2; try discriminate.
      cbn [eval] in *. rewrite <- I1, <- I2. symmetry. now apply fold_bool_and_ok. }
    destruct (is_true_lit (fold e2)) eqn:T2.
    { apply is_true_lit_eq in T2. rewrite T2 in I2. cbn [eval] in I2. rewrite I1, <- I2. now destruct x. }
    destruct (is_true_lit (fold e1)) eqn:T1.
    { apply is_true_lit_eq in T1. rewrite T1 in I1. cbn [eval] in I1. rewrite I2, <- I1. now destruct y. }
    destruct (is_false_lit (fold e1) || is_false_lit (fold e2)) eqn:FF.
    { apply orb_true_iff in FF as [FF|FF]; apply is_false_lit_eq in FF.
      - rewrite FF in I1. cbn [eval] in *. rewrite <- I1. now destruct y.
      - rewrite FF in I2. cbn [eval] in *. rewrite <- I2. now destruct x. }
    cbn [eval]. now rewrite I1, I2.
  - (* or *) cbn [eval] in NE. destruct (lift2_noerr _ _ _ NE) as (x & y & Ea & Eb).
    assert (eval sql_sem r (fold e1) = of_tv x) as I1 by (rewrite IHe1; [exact Ea | rewrite Ea; apply of_tv_noerr]).
    assert (eval sql_sem r (fold e2) = of_tv y) as I2 by (rewrite IHe2; [exact Eb | rewrite Eb; apply of_tv_noerr]).
    cbn [eval]. rewrite Ea, Eb. cbn [s_or sql_sem].
    destruct (match fold e1, fold e2 with ELit x0, ELit y0 => fold_bool false x0 y0 | _, _ => None end) as [v|] eqn:FB.
    { destruct (fold e1) eqn:F1; try discriminate. destruct (fold e2) eqn:F2; try discriminate.
      cbn [eval] in *. rewrite <- I1, <- I2. symmetry. now apply fold_bool_or_ok. }
    destruct (is_false_lit (fold e2)) eqn:T2.
    { apply is_false_lit_eq in T2. rewrite T2 in I2. cbn [eval] in I2. rewrite I1, <- I2. now destruct x. }
    destruct (is_false_lit (fold e1)) eqn:T1.
    { apply is_false_lit_eq in T1. rewrite T1 in I1. cbn [eval] in I1. rewrite I2, <- I1. now destruct y. }
    destruct (is_true_lit (fold e1) || is_true_lit (fold e2)) eqn:FF.
    { apply orb_true_iff in FF as [FF|FF]; apply is_true_lit_eq in FF.
      - rewrite FF in I1. cbn [eval] in *. rewrite <- I1. now destruct y.
      - rewrite FF in I2. cbn [eval] in *. rewrite <- I2. now destruct x. }
    cbn [eval]. now rewrite I1, I2.
  - (* not *) cbn [eval] in *. rewrite IHe; [reflexivity|]. intros E. rewrite E in NE. now apply NE.
  - (* is null *) cbn [eval] in *. rewrite IHe; [reflexivity|]. intros E. rewrite E in NE. now apply NE.
  - (* is not null *) cbn [eval] in *. rewrite IHe; [reflexivity|]. intros E. rewrite E in NE. now apply NE.
  - (* arith *) cbn [eval] in NE. destruct (arith_noerr _ _ _ NE) as [Na Nb].
    specialize (IHe1 Na). specialize (IHe2 Nb).
    destruct (fold e1) eqn:F1; try (cbn [eval] in *; now rewrite IHe1, IHe2).
    destruct (fold e2) eqn:F2; try (cbn [eval] in *; now rewrite IHe1, IHe2).
    destruct (fold_arith op v v0) eqn:FC; [|cbn [eval] in *; now rewrite IHe1, IHe2].
    cbn [eval] in *. rewrite <- IHe1, <- IHe2. symmetry. now apply fold_arith_ok.
  - (* neg *) cbn [eval] in *. rewrite IHe; [reflexivity|]. intros E. rewrite E in NE. now apply NE.
  - (* case *) rewrite !eval_case in *.
    set (d := match els with Some e' => eval sql_sem r e' | None => VNull end) in *.
    set (d' := match (match els with Some x => Some (fold x) | None => None end) with
               | Some e' => eval sql_sem r e' | None => VNull end).
    assert (d <> VErr -> d' = d) as HD.
    { unfold d, d'. destruct els as [x|]; [|reflexivity]. cbn in H0. exact H0. }
    clearbody d d'. clear H0.
    induction whens as [|[c t] ws IHw]; cbn [map case_go fst snd] in *; [now apply HD|].
    inversion H as [|? ? [Hc Ht] Hrest]; subst. cbn [fst snd] in Hc, Ht.
    destruct (eval sql_sem r c) as [| | | |[|]| |] eqn:Ec; try (exfalso; now apply NE).
    + rewrite Hc by congruence. now apply IHw.
    + rewrite Hc by congruence. now apply Ht.
    + rewrite Hc by congruence. now apply IHw.
  - (* coalesce *) rewrite !eval_coalesce in *.
    induction l as [|x t IHl]; cbn [map coalesce_go] in *; [reflexivity|].
    inversion H as [|? ? Hx Hrest]; subst.
    destruct (eval sql_sem r x) eqn:Ex; try (rewrite Hx by congruence; reflexivity); try (exfalso; now apply NE).
    rewrite Hx by congruence. now apply IHl.
Qed.

(* ... but the interpreter's AND/OR kernels are NULL-strict (C02): `x OR TRUE` with x NULL folds to TRUE while the
   unoptimised plan computes NULL and drops the row. This is the class `dominated-null` seen from the optimizer. *)
Theorem fold_breaks_strict_refuted :
  let e := EOr (ECmp CGt (ECol 0) (ELit (VInt 10))) (ELit (VBool true)) in
  let r := [VNull] in
  fold e = ELit (VBool true) /\
  eval eng_sem r e = VNull /\ eval eng_sem r (fold e) = VBool true /\ eval sql_sem r e = VBool true /\
  dominated r e = true /\
  qeval eng_qsem [[r]] (QFilter (QTable 0 1) e) = [] /\
  qeval eng_qsem [[r]] (fold_query (QFilter (QTable 0 1) e)) = [r].
Proof. repeat split; vm_compute; reflexivity. Qed.

Corollary fold_filter_kleene p (rows : rel) :
  (forall r, In r rows -> eval sql_sem r p <> VErr) ->
  filter (fun r => keeps (eval sql_sem r (fold p))) rows = filter (fun r => keeps (eval sql_sem r p)) rows.
Proof. intros H. apply filter_ext_in. intros r Hr. now rewrite fold_preserves_kleene by auto. Qed.

(* ====================== Part 6: the fixpoint driver ====================== *)
Section DriverProofs.
  Variable plan : Type.
  Variable plan_eqb : plan -> plan -> bool.

  Lemma sweep_count rules : forall p c n, snd (sweep plan plan_eqb rules p c n) = (n + length rules)%nat.
  Proof.
    induction rules as [|r t IH]; intros p c n; cbn [sweep length snd]; [lia|].
    destruct (plan_eqb (r p) p); rewrite IH; lia.
  Qed.

  Lemma iterate_count rules : forall fuel p n,
    (snd (iterate plan plan_eqb fuel rules p n) <= n + fuel * length rules)%nat.
  Proof.
    induction fuel as [|f IH]; intros p n; cbn [iterate]; [cbn; lia|].
    pose proof (sweep_count rules p false n) as HS.
    destruct (sweep plan plan_eqb rules p false n) as [[p' ch] n'] eqn:E. cbn [snd] in HS. subst n'.
    destruct ch; [|cbn [snd]; nia].
    specialize (IH p' (n + length rules)%nat). nia.
  Qed.

  (* termination bound: at most max_iterations x |loop rules| + |final rules| rule applications *)
  Theorem driver_application_bound mi lr fr p :
    (snd (driver plan plan_eqb mi lr fr p) <= mi * length lr + length fr)%nat.
  Proof.
    unfold driver. pose proof (iterate_count lr mi p 0%nat) as H.
    destruct (iterate plan plan_eqb mi lr p 0%nat) as [p1 n1]. cbn [snd] in *. lia.
  Qed.

  Variable Inv : plan -> Prop.

  Lemma sweep_preserves rules : (forall r, In r rules -> forall p, Inv p -> Inv (r p)) ->
    forall p c n, Inv p -> Inv (fst (fst (sweep plan plan_eqb rules p c n))).
  Proof.
    induction rules as [|r t IH]; intros HR p c n Hp; cbn [sweep]; [exact Hp|].
    destruct (plan_eqb (r p) p); apply IH; auto; try (intros; apply HR; auto; now right).
    apply HR; auto. now left.
  Qed.

  Lemma iterate_preserves rules : (forall r, In r rules -> forall p, Inv p -> Inv (r p)) ->
    forall fuel p n, Inv p -> Inv (fst (iterate plan plan_eqb fuel rules p n)).
  Proof.
    intros HR. induction fuel as [|f IH]; intros p n Hp; cbn [iterate]; [exact Hp|].
    pose proof (sweep_preserves rules HR p false n Hp) as HS.
    destruct (sweep plan plan_eqb rules p false n) as [[p' ch] n']. cbn [fst] in HS.
    destruct ch; [now apply IH | exact HS].
  Qed.

  (* whatever every single rule preserves, the whole pipeline preserves *)
  Theorem driver_preserves mi lr fr p :
    (forall r, In r (lr ++ fr) -> forall q, Inv q -> Inv (r q)) -> Inv p -> Inv (fst (driver plan plan_eqb mi lr fr p)).
  Proof.
    intros HR Hp. unfold driver.
    pose proof (iterate_preserves lr (fun r Hr => HR r (in_or_app _ _ _ (or_introl Hr))) mi p 0%nat Hp) as H1.
    destruct (iterate plan plan_eqb mi lr p 0%nat) as [p1 n1]. cbn [fst] in *.
    assert (forall r, In r fr -> forall q, Inv q -> Inv (r q)) as HF
      by (intros r Hr; apply HR, in_or_app; now right).
    clear HR Hp. revert p1 H1. induction fr as [|r t IH]; intros p1 H1; cbn [fold_left]; [exact H1|].
    apply IH; [intros; apply HF; auto; now right|]. apply HF; auto. now left.
  Qed.
End DriverProofs.

(* if every rule keeps the answer, the optimised plan has the answer of the bound plan *)
Corollary driver_keeps_answer {plan A} (plan_eqb : plan -> plan -> bool) (answer : plan -> A) mi lr fr p :
  (forall r, In r (lr ++ fr) -> forall q, answer (r q) = answer q) ->
  answer (fst (driver plan plan_eqb mi lr fr p)) = answer p.
Proof.
  intros H. apply (driver_preserves plan plan_eqb (fun q => answer q = answer p)); [|reflexivity].
  intros r Hr q Hq. now rewrite H.
Qed.

Example production_application_bound :
  application_bound = 141%nat /\ length RuleNames.loop_rules = 14%nat /\ length RuleNames.final_rules = 1%nat.
Proof. vm_compute. auto. Qed.

(* ====================== Part 7: OR-derivation ====================== *)
(* P => D, hence sigma_P = sigma_{P AND D} (the rule appends D to the filter; both for Kleene and strict AND) *)
Theorem derive_or_filter_equiv S (HS : and_keeps S) P D (rows : rel) :
  (forall r, In r rows -> keeps (eval S r P) = true -> keeps (eval S r D) = true) ->
  filter (fun r => keeps (eval S r (EAnd P D))) rows = filter (fun r => keeps (eval S r P)) rows.
Proof.
  intros H. apply filter_ext_in. intros r Hr. cbn [eval]. rewrite HS.
  destruct (keeps (eval S r P)) eqn:E; [|reflexivity]. now rewrite H.
Qed.

Lemma or_tree_keeps r e :
  keeps (eval sql_sem r e) = true -> exists d, In d (flatten_or e) /\ keeps (eval sql_sem r d) = true.
Proof.
  induction e; intros H; try (eexists; split; [now left | exact H]).
  cbn [flatten_or]. cbn [eval s_or sql_sem] in H.
  destruct (eval sql_sem r e1) as [| | | |[|]| |] eqn:E1; destruct (eval sql_sem r e2) as [| | | |[|]| |] eqn:E2;
    try discriminate.
  all: try (destruct (IHe1 eq_refl) as (d & Hd & Hk); exists d; split; [apply in_or_app; now left | exact Hk]).
  all: try (destruct (IHe2 eq_refl) as (d & Hd & Hk); exists d; split; [apply in_or_app; now right | exact Hk]).
Qed.
Lemma or_tree_noerr r e : eval sql_sem r e <> VErr -> forall d, In d (flatten_or e) -> eval sql_sem r d <> VErr.
Proof.
  induction e; intros H d Hd; try (destruct Hd as [<-|[]]; exact H).
  cbn [flatten_or] in Hd. cbn [eval] in H. destruct (lift2_noerr _ _ _ H) as (x & y & Ea & Eb).
  apply in_app_or in Hd as [Hd|Hd]; [apply IHe1 | apply IHe2]; auto; rewrite ?Ea, ?Eb; apply of_tv_noerr.
Qed.
Lemma and_tree_keeps r e : keeps (eval sql_sem r e) = true -> forall p, In p (flatten_and e) -> keeps (eval sql_sem r p) = true.
Proof.
  induction e; intros H p Hp; try (destruct Hp as [<-|[]]; exact H).
  cbn [flatten_and] in Hp. cbn [eval] in H. rewrite and_keeps_sql in H. apply andb_true_iff in H as [H1 H2].
  apply in_app_or in Hp as [Hp|Hp]; auto.
Qed.
Lemma and_tree_noerr r e : eval sql_sem r e <> VErr -> forall p, In p (flatten_and e) -> eval sql_sem r p <> VErr.
Proof.
  induction e; intros H p Hp; try (destruct Hp as [<-|[]]; exact H).
  cbn [flatten_and] in Hp. cbn [eval] in H. destruct (lift2_noerr _ _ _ H) as (x & y & Ea & Eb).
  apply in_app_or in Hp as [Hp|Hp]; [apply IHe1 | apply IHe2]; auto; rewrite ?Ea, ?Eb; apply of_tv_noerr.
Qed.

(* the IN-list fold under Kleene OR *)
Definition in_fold (x : value) (vs : list value) (acc : value) : value :=
  fold_left (fun a v => lift2 or3 a (compare_op CEq x v)) vs acc.
Lemma eval_in_lits r c vs :
  eval sql_sem r (EIn (ECol c) (map ELit vs) false) = in_fold (nth c r VErr) vs (VBool false).
Proof.
  rewrite eval_in. cbn [negate_if eval s_or sql_sem]. unfold in_fold. generalize (VBool false).
  induction vs as [|v t IH]; intros acc; [reflexivity|]. cbn [map fold_left eval]. apply IH.
Qed.
Lemma in_fold_err x vs : in_fold x vs VErr = VErr.
Proof. induction vs as [|v t IH]; [reflexivity|]. cbn [in_fold fold_left]. exact IH. Qed.
Lemma in_fold_true x vs :
  (forall v, In v vs -> compare_op CEq x v <> VErr) -> in_fold x vs (VBool true) = VBool true.
Proof.
  induction vs as [|v t IH]; intros H; [reflexivity|]. cbn [in_fold fold_left].
  assert (compare_op CEq x v <> VErr) as Hv by (apply H; now left).
  destruct (compare_op_tv CEq x v) as [E|[E|[b E]]]; [contradiction| |]; rewrite E; cbn;
    apply IH; intros; apply H; now right.
Qed.
Lemma in_fold_hit x vs : forall acc,
  (acc = VBool false \/ acc = VNull \/ acc = VBool true) ->
  (forall v, In v vs -> compare_op CEq x v <> VErr) ->
  (exists v, In v vs /\ compare_op CEq x v = VBool true) ->
  in_fold x vs acc = VBool true.
Proof.
  induction vs as [|v t IH]; intros acc Hacc Hne (w & Hw & Ew); [contradiction|].
  cbn [in_fold fold_left].
  assert (compare_op CEq x v <> VErr) as Hv by (apply Hne; now left).
  assert (forall v0, In v0 t -> compare_op CEq x v0 <> VErr) as Hne' by (intros; apply Hne; now right).
  destruct Hw as [->|Hw].
  - rewrite Ew. assert (lift2 or3 acc (VBool true) = VBool true) as -> by (destruct Hacc as [->|[->| ->]]; reflexivity).
    now apply in_fold_true.
  - destruct (compare_op_tv CEq x v) as [E|[E|[b E]]]; [contradiction| |]; rewrite E;
      (apply IH; [|assumption|eauto]); destruct Hacc as [->|[->| ->]]; cbn; try destruct b; auto.
Qed.
Lemma in_fold_inv x vs : forall acc,
  in_fold x vs acc <> VErr -> acc <> VErr /\ forall v, In v vs -> compare_op CEq x v <> VErr.
Proof.
  induction vs as [|v t IH]; intros acc H; [split; [exact H | contradiction]|].
  cbn [in_fold fold_left] in H. destruct (IH _ H) as [H1 H2]. destruct (lift2_noerr _ _ _ H1) as (a & b & Ea & Eb).
  split; [rewrite Ea; apply of_tv_noerr|]. intros w [<-|Hw]; [rewrite Eb; apply of_tv_noerr | now apply H2].
Qed.
Lemma in_fold_keeps_inv x vs : forall acc,
  in_fold x vs acc = VBool true -> acc = VBool true \/ exists v, In v vs /\ compare_op CEq x v = VBool true.
Proof.
  induction vs as [|v t IH]; intros acc H; [now left|].
  cbn [in_fold fold_left] in H. destruct (IH _ H) as [E|(w & Hw & Ew)].
  - destruct (compare_op_tv CEq x v) as [E1|[E1|[[|] E1]]]; rewrite E1 in E.
    + destruct acc as [| | | |[|]| |]; discriminate.
    + destruct acc as [| | | |[|]| |]; try discriminate. now left.
    + right. exists v. split; [now left | exact E1].
    + destruct acc as [| | | |[|]| |]; try discriminate. now left.
  - right. exists w. split; [now right | exact Ew].
Qed.

Lemma all_lits_map l vs : all_lits l = Some vs -> l = map ELit vs.
Proof.
  revert vs. induction l as [|e t IH]; intros vs H.
  - cbn in H. inversion H. reflexivity.
  - unfold all_lits in H. cbn [fold_right] in H. fold (all_lits t) in H.
    destruct e; cbn [lit_of] in H; try discriminate.
    destruct (all_lits t) as [ws|]; [|discriminate]. inversion H. cbn [map]. f_equal. now apply IH.
Qed.

Lemma keeps_true v : keeps v = true -> v = VBool true.
Proof. destruct v as [| | | |[|]| |]; cbn; congruence. Qed.

(* equality is symmetric as far as `= TRUE` and `is an error` go *)
Lemma cmp_eq_sym a b : cmp_values a b = Some Eq -> cmp_values b a = Some Eq.
Proof.
  destruct a, b; cbn; intros H; try discriminate; injection H as E; f_equal.
  - apply Z.compare_eq in E. subst. apply Z.compare_refl.
  - unfold q_cmp in *. apply Qeq_alt. apply Qeq_sym. now apply Qeq_alt.
  - unfold q_cmp in *. apply Qeq_alt. apply Qeq_sym. now apply Qeq_alt.
  - unfold q_cmp in *. apply Qeq_alt. apply Qeq_sym. now apply Qeq_alt.
  - apply bytes_cmp_eq in E. subst. now apply bytes_cmp_eq.
  - destruct b, b0; try discriminate; reflexivity.
  - apply Z.compare_eq in E. subst. apply Z.compare_refl.
Qed.
Lemma cmp_none_sym a b : cmp_values a b = None -> cmp_values b a = None.
Proof. destruct a, b; cbn; congruence. Qed.
Lemma compare_eq_sym_true a b : compare_op CEq a b = VBool true -> compare_op CEq b a = VBool true.
Proof.
  destruct a, b; cbn [compare_op]; try discriminate;
  match goal with |- context [cmp_values ?x ?y] => destruct (cmp_values x y) as [c|] eqn:E end; try discriminate;
  destruct c; cbn [cmp_test]; try discriminate; intros _; now rewrite (cmp_eq_sym _ _ E).
Qed.
Lemma compare_eq_sym_noerr a b : compare_op CEq a b <> VErr -> compare_op CEq b a <> VErr.
Proof.
  destruct a, b; cbn [compare_op]; try congruence;
  match goal with |- context [cmp_values ?x ?y] => destruct (cmp_values x y) as [c|] eqn:E end; try congruence;
  match goal with |- context [cmp_values ?x ?y] => destruct (cmp_values x y) as [c'|] eqn:E' end; try congruence;
  apply cmp_none_sym in E'; congruence.
Qed.

(* a part that constrains column c: if it holds, the column equals one of its values; if it is no error, no comparison is *)
Lemma part_sound r c p :
  part_values c p <> [] ->
  (eval sql_sem r p <> VErr -> forall v, In v (part_values c p) -> compare_op CEq (nth c r VErr) v <> VErr) /\
  (keeps (eval sql_sem r p) = true -> exists v, In v (part_values c p) /\ compare_op CEq (nth c r VErr) v = VBool true).
Proof.
  destruct p; cbn [part_values]; try congruence.
  - (* comparison *) destruct op; try congruence.
    destruct p1; try congruence; destruct p2; try congruence.
    + destruct (Nat.eqb i c) eqn:E; [|congruence]. apply Nat.eqb_eq in E. subst i. intros _. cbn [eval]. split.
      * intros H v0 [<-|[]]. exact H.
      * intros H. exists v. split; [now left | now apply keeps_true].
    + destruct (Nat.eqb i c) eqn:E; [|congruence]. apply Nat.eqb_eq in E. subst i. intros _. cbn [eval]. split.
      * intros H v0 [<-|[]]. now apply compare_eq_sym_noerr.
      * intros H. exists v. split; [now left | now apply compare_eq_sym_true, keeps_true].
  - (* IN list of literals *) destruct p; try congruence. destruct neg; try congruence.
    destruct (Nat.eqb i c) eqn:E; [|congruence]. apply Nat.eqb_eq in E. subst i.
    destruct (all_lits l) as [vs|] eqn:EL; [|congruence]. intros _.
    rewrite (all_lits_map _ _ EL). rewrite eval_in_lits. split.
    + intros H. now apply in_fold_inv in H as [_ H].
    + intros H. apply keeps_true in H. apply in_fold_keeps_inv in H as [H|H]; [discriminate | exact H].
Qed.

Lemma value_eqb_compare x a b : value_eqb a b = true -> compare_op CEq x a = compare_op CEq x b.
Proof.
  destruct a, b; cbn [value_eqb]; intros H; try discriminate; try reflexivity.
  - apply Z.eqb_eq in H. now subst.
  - apply Qeq_bool_eq in H. destruct x; cbn; try reflexivity; unfold q_cmp; now rewrite H.
  - apply (proj1 (list_eqb_spec Z.eqb Z.eqb_eq s s0)) in H. now subst.
  - apply eqb_prop in H. now subst.
  - apply Z.eqb_eq in H. now subst.
Qed.
Lemma dedup_sub vs v : In v (dedup_values vs) -> In v vs.
Proof.
  induction vs as [|w t IH]; cbn [dedup_values]; intros H; [contradiction|].
  destruct H as [->|H]; [now left|]. right. apply filter_In in H as [H _]. now apply IH.
Qed.
Lemma dedup_covers vs v : In v vs -> exists w, In w (dedup_values vs) /\ value_eqb w v = true.
Proof.
  induction vs as [|u t IH]; intros H; [contradiction|]. cbn [dedup_values].
  destruct (value_eqb u v) eqn:E; [exists u; split; [now left | exact E]|].
  destruct H as [->|H].
  - exfalso. clear -E. destruct v; cbn in E; try discriminate.
    + now rewrite Z.eqb_refl in E.
    + rewrite (proj2 (Qeq_bool_iff q q) (Qeq_refl q)) in E. discriminate.
    + rewrite (proj2 (list_eqb_spec Z.eqb Z.eqb_eq s s) eq_refl) in E. discriminate.
    + destruct b; discriminate.
    + now rewrite Z.eqb_refl in E.
  - destruct (IH H) as (w & Hw & Ew). destruct (value_eqb u w) eqn:E2.
    + exists u. split; [now left|]. clear -E2 Ew E. exfalso.
      assert (forall x, compare_op CEq x u = compare_op CEq x v) as HC
        by (intros x; rewrite (value_eqb_compare x u w E2); now apply value_eqb_compare).
      (* u ~ w ~ v but u <> v: impossible, value_eqb is transitive *)
      destruct u, w; cbn in E2; try discriminate; destruct v; cbn in Ew, E; try discriminate;
        try (apply Z.eqb_eq in E2; apply Z.eqb_eq in Ew; subst; rewrite Z.eqb_refl in E; discriminate).
      * apply Qeq_bool_iff in E2. apply Qeq_bool_iff in Ew.
        rewrite (proj2 (Qeq_bool_iff q q1) (Qeq_trans _ _ _ E2 Ew)) in E. discriminate.
      * apply (proj1 (list_eqb_spec Z.eqb Z.eqb_eq _ _)) in E2. apply (proj1 (list_eqb_spec Z.eqb Z.eqb_eq _ _)) in Ew.
        subst. rewrite (proj2 (list_eqb_spec Z.eqb Z.eqb_eq s1 s1) eq_refl) in E. discriminate.
      * apply eqb_prop in E2. apply eqb_prop in Ew. subst. destruct b1; discriminate.
    + exists w. split; [|exact Ew]. right. apply filter_In. split; [exact Hw | now rewrite E2].
Qed.

(* the derived IN-list is implied by the OR it was derived from *)
Theorem derive_or_sound r c e d :
  derive_col c e = Some d -> keeps (eval sql_sem r e) = true -> keeps (eval sql_sem r d) = true.
Proof.
  unfold derive_col. intros HD HK.
  destruct ((2 <=? length (flatten_or e))%nat && forallb (fun d0 => negb (is_nil (disjunct_values c d0))) (flatten_or e)) eqn:G;
    [|discriminate].
  apply andb_true_iff in G as [_ G]. rewrite forallb_forall in G.
  destruct (length _ <=? 20)%nat; [|discriminate]. inversion HD; subst d. clear HD.
  rewrite eval_in_lits. set (x := nth c r VErr).
  assert (eval sql_sem r e <> VErr) as NE by (apply keeps_true in HK; congruence).
  assert (in_fold x (dedup_values (flat_map (disjunct_values c) (flatten_or e))) (VBool false) = VBool true) as ->; [|reflexivity].
  apply in_fold_hit; [now left| |].
  - (* no comparison is an error *)
    intros v Hv. apply dedup_sub in Hv. apply in_flat_map in Hv as (dj & Hdj & Hv).
    unfold disjunct_values in Hv. apply in_flat_map in Hv as (p & Hp & Hv).
    assert (part_values c p <> []) as Hne by (intros E; rewrite E in Hv; contradiction).
    apply (proj1 (part_sound r c p Hne)); auto.
    apply (and_tree_noerr r dj); auto. now apply (or_tree_noerr r e).
  - (* the disjunct that holds constrains the column *)
    destruct (or_tree_keeps r e HK) as (dj & Hdj & Kdj).
    specialize (G dj Hdj). unfold disjunct_values in G.
    destruct (flat_map (part_values c) (flatten_and dj)) as [|v0 vs0] eqn:EF; [discriminate|].
    assert (In v0 (flat_map (part_values c) (flatten_and dj))) as Hv0 by (rewrite EF; now left).
    apply in_flat_map in Hv0 as (p & Hp & Hv0).
    assert (part_values c p <> []) as Hne by (intros E; rewrite E in Hv0; contradiction).
    destruct (proj2 (part_sound r c p Hne) (and_tree_keeps r dj Kdj p Hp)) as (v & Hv & Ev).
    assert (In v (flat_map (disjunct_values c) (flatten_or e))) as Hin.
    { apply in_flat_map. exists dj. split; [exact Hdj|]. unfold disjunct_values. apply in_flat_map. eauto. }
    destruct (dedup_covers _ _ Hin) as (w & Hw & Ew). exists w. split; [exact Hw|].
    fold x in Ev. now rewrite (value_eqb_compare x w v Ew).
Qed.

Example derive_or_example :
  let e := EOr (EAnd (ECmp CEq (ECol 0) (ELit (VInt 1))) (ECmp CEq (ECol 1) (ELit (VInt 2))))
               (EAnd (ECmp CEq (ECol 0) (ELit (VInt 2))) (ECmp CEq (ELit (VInt 1)) (ECol 1))) in
  derive_col 0 e = Some (EIn (ECol 0) [ELit (VInt 1); ELit (VInt 2)] false) /\
  derive_col 1 e = Some (EIn (ECol 1) [ELit (VInt 2); ELit (VInt 1)] false) /\ derive_col 2 e = None.
Proof. repeat split; vm_compute; reflexivity. Qed.
