(* C03 — optimisation never changes a query's answer: the model.
   (a) the statistics predicates exactly as coded (footer statistics, ndv estimate, unique-key inference, packed-key guard),
   (b) the rewrites they license, over the relational semantics of Sql/Query.v,
   (c) the expression/plan transformations of the structural rules (constant folding, column remapping, OR-derivation),
   (d) the fixpoint driver.
   anchors: src/storage/parquet.rs (statistics), src/optimizer/rules/group_key_reduction.rs (is_unique_key, try_reduce),
            eager_aggregation.rs (try_rewrite_left_count), packed_join_keys.rs (column_bounds, try_pack),
            packed_group_keys.rs (try_pack), constant_folding.rs (fold_expr), derive_or_predicates.rs (derive_from_or),
            predicate_pushdown.rs (pushdown), src/optimizer/mod.rs (optimize_with_rules). *)
From QV Require Export Sql.Query.
Open Scope Z_scope.

(* ================= (a) footer statistics ================= *)
Record colstats := mkCS { cs_min : option Z; cs_max : option Z; cs_nulls : option Z; cs_ndv : option Z }.

(* parquet.rs statistics(): ndv_est = min(non_null, max - min + 1) for columns with integer min/max *)
Definition ndv_est (rows : Z) (nulls mn mx : option Z) : option Z :=
  let non_null := match nulls with Some n => Z.max 0 (rows - n) | None => rows end in
  match mn, mx with
  | Some lo, Some hi => if hi >=? lo then Some (Z.min non_null (hi - lo + 1)) else None
  | _, _ => None
  end.

(* what an (exact) Parquet footer records for an integer / date column holding `vs` *)
Definition int_of (v : value) : option Z := match v with VInt z | VDate z => Some z | _ => None end.
Definition ints_of (vs : list value) : list Z :=
  flat_map (fun v => match int_of v with Some z => [z] | None => [] end) vs.
Definition zmin_list (l : list Z) : option Z := match l with [] => None | x :: t => Some (fold_left Z.min t x) end.
Definition zmax_list (l : list Z) : option Z := match l with [] => None | x :: t => Some (fold_left Z.max t x) end.
Definition null_count (vs : list value) : Z := Z.of_nat (length (filter is_null vs)).

Definition stats_of_col (vs : list value) : colstats :=
  let zs := ints_of vs in
  let rows := Z.of_nat (length vs) in
  let mn := zmin_list zs in let mx := zmax_list zs in
  mkCS mn mx (Some (null_count vs)) (ndv_est rows (Some (null_count vs)) mn mx).

Definition col (c : nat) (rows : rel) : list value := map (fun r => nth c r VErr) rows.

(* group_key_reduction.rs is_unique_key / eager_aggregation.rs try_rewrite_left_count:
   cs.null_count == Some(0) && ndv_est >= row_count *)
Definition is_unique_key (row_count : Z) (cs : colstats) : bool :=
  match cs_nulls cs with
  | Some 0 => match cs_ndv cs with Some n => n >=? row_count | None => false end
  | _ => false
  end.

Definition inferred_unique (rows : rel) (c : nat) : bool :=
  is_unique_key (Z.of_nat (length rows)) (stats_of_col (col c rows)).

Fixpoint has_dup_values (vs : list value) : bool :=
  match vs with [] => false | v :: t => existsb (value_same v) t || has_dup_values t end.

(* ================= (b1) group-key reduction ================= *)
(* GROUP BY keys (plain columns) => GROUP BY key + ANY_VALUE(others), Project restoring the column order.
   ANY_VALUE returns the value of SOME member row: `pick`. *)
Section GKR.
  Variable S : qsem.
  Variable pick : list value -> value.

  Definition agg_out (aggs : list (aggfn * expr)) (members : rel) : list value :=
    map (fun fa => agg_apply (fst fa) (map (fun r => eval (q_esem S) r (snd fa)) members) (length members)) aggs.

  Definition reduced_rows (kpos : nat) (keys : list nat) (aggs : list (aggfn * expr)) (rows : rel) : rel :=
    let kcol := nth kpos keys 0%nat in
    map (fun kv =>
           let members := filter (fun r => row_same [nth kcol r VErr] kv) rows in
           map (fun ic => if Nat.eqb (fst ic) kpos then hd VErr kv else pick (col (snd ic) members))
               (combine (seq 0 (length keys)) keys)
           ++ agg_out aggs members)
        (distinct (map (fun r => [nth kcol r VErr]) rows)).

  Definition original_rows (keys : list nat) (aggs : list (aggfn * expr)) (rows : rel) : rel :=
    group_rows S (map ECol keys) aggs rows.
End GKR.

(* try_reduce: the first group column of integer-like type that is a "unique key" of the (single) base table.
   types: 0 = Int64/Int32/Date32, anything else = other *)
Definition gkr_key (rows : rel) (int_like : nat -> bool) (keys : list nat) : option nat :=
  if (length keys <? 2)%nat then None else
  (fix go (i : nat) (ks : list nat) : option nat :=
     match ks with
     | [] => None
     | c :: t => if int_like c && inferred_unique rows c then Some i else go (Datatypes.S i) t
     end) 0%nat keys.

(* the recorded class: the key the rule picks is NOT unique although its statistics say so *)
Definition known_ndv_unique (rows : rel) (int_like : nat -> bool) (keys : list nat) : bool :=
  match gkr_key rows int_like keys with
  | Some i => has_dup_values (col (nth i keys 0%nat) rows)
  | None => false
  end.

(* acceptance of an optimised answer: one row per key value, decoration columns hold the value of some member *)
Definition gkr_accepts (S : qsem) (kpos : nat) (keys : list nat) (aggs : list (aggfn * expr)) (rows impl : rel) : bool :=
  let kcol := nth kpos keys 0%nat in
  let groups := distinct (map (fun r => [nth kcol r VErr]) rows) in
  Nat.eqb (length impl) (length groups) &&
  forallb (fun kv =>
             let members := filter (fun r => row_same [nth kcol r VErr] kv) rows in
             match filter (fun o => row_same [nth kpos o VErr] kv) impl with
             | [o] =>
                 forallb (fun ic => existsb (value_same (nth (fst ic) o VErr)) (col (snd ic) members))
                         (combine (seq 0 (length keys)) keys)
                 && row_same (skipn (length keys) o) (agg_out S aggs members)
             | _ => false
             end) groups.

(* ---- LEFT-join count pushdown (eager_aggregation.rs try_rewrite_left_count) ----
   Aggregate(group=[k], COUNT(y)) over L LEFT JOIN R ON k = fk   ==>
   Project [k, COALESCE(cnt, 0)] (L LEFT JOIN Aggregate(R, group=[fk], COUNT(y) AS cnt) ON k = fk) *)
Definition left_count_original (L R : query) (k fk y : nat) : query :=
  QAgg (QJoin JLeft L R (ECmp CEq (ECol k) (ECol (width L + fk)))) [ECol k] [(ACount, ECol (width L + y))].
Definition left_count_rewritten (L R : query) (k fk y : nat) : query :=
  QProject (QJoin JLeft L (QAgg R [ECol fk] [(ACount, ECol y)]) (ECmp CEq (ECol k) (ECol (width L))))
           [ECol k; ECoalesce [ECol (width L + 1); ELit (VInt 0)]].
Definition known_ndv_unique_count (Lrows : rel) (k : nat) : bool :=
  inferred_unique Lrows k && has_dup_values (col k Lrows).

(* ================= (b2) packed keys ================= *)
Definition i64_max : Z := 2 ^ 63 - 1.
(* u64::next_power_of_two for n >= 1 *)
Definition next_pow2 (n : Z) : Z := 2 ^ Z.log2_up n.
Definition pack (K a b : Z) : Z := a * K + b.

(* PackedJoinKeys::try_pack on the bounds (min,max) of [l1; r1; l2; r2];
   PackedGroupKeys::try_pack is the same guard on [a; a; b; b] *)
Definition pack_guard (b0 b1 b2 b3 : Z * Z) : option Z :=
  if (fst b0 <? 0) || (fst b1 <? 0) || (fst b2 <? 0) || (fst b3 <? 0) then None else
  let max2 := Z.max (snd b2) (snd b3) in
  let k := next_pow2 (max2 + 1) in
  let max1 := Z.max (snd b0) (snd b1) in
  if max1 * k + max2 >? i64_max then None else Some k.

(* ScalarFunction::BitwiseRightShift is a LOGICAL shift of the 64-bit pattern: (lv as u64 >> rv) as i64 *)
Definition to_i64 (z : Z) : Z := let m := z mod 2 ^ 64 in if m >=? 2 ^ 63 then m - 2 ^ 64 else m.
Definition unpack_a (K pk : Z) : Z := to_i64 (Z.shiftr (pk mod 2 ^ 64) (Z.log2 K)).
Definition unpack_b (K pk : Z) : Z := Z.land pk (K - 1).

(* the two ON conditions: columns a,b of the left row against c,d of the right row (indices into l ++ r) *)
Definition on_pairs (a b c d : nat) : expr := EAnd (ECmp CEq (ECol a) (ECol c)) (ECmp CEq (ECol b) (ECol d)).
Definition pack_expr (K : Z) (a b : nat) : expr := EArith AAdd (EArith AMul (ECol a) (ELit (VInt K))) (ECol b).
Definition on_packed (K : Z) (a b c d : nat) : expr := ECmp CEq (pack_expr K a b) (pack_expr K c d).

(* value v respects the bound (lo,hi): NULL or an integer inside *)
Definition in_bound (bd : Z * Z) (v : value) : bool :=
  match v with VNull => true | VInt z => (fst bd <=? z) && (z <=? snd bd) | _ => false end.
Definition row_in_bounds (a b c d : nat) (b0 b1 b2 b3 : Z * Z) (lr : row) : bool :=
  in_bound b0 (nth a lr VErr) && in_bound b1 (nth c lr VErr) && in_bound b2 (nth b lr VErr) && in_bound b3 (nth d lr VErr).

(* column bounds are looked up by BARE column name in every table's statistics; the widest wins
   (packed_join_keys.rs column_bounds) *)
Definition catalog := list (list (Z * (Z * Z))).      (* per table: column name id -> (min,max) *)
Definition column_bounds (cat : catalog) (name : Z) : option (Z * Z) :=
  fold_left (fun acc t =>
               match find (fun nb => fst nb =? name) t with
               | Some (_, (lo, hi)) => match acc with None => Some (lo, hi) | Some (a, b) => Some (Z.min a lo, Z.max b hi) end
               | None => acc
               end) cat None.
Definition pack_guard_by_name (cat : catalog) (l1 r1 l2 r2 : Z) : option Z :=
  match column_bounds cat l1, column_bounds cat r1, column_bounds cat l2, column_bounds cat r2 with
  | Some b0, Some b1, Some b2, Some b3 => pack_guard b0 b1 b2 b3
  | _, _, _, _ => None
  end.

(* PackedGroupKeys: GROUP BY a, b => GROUP BY a*K+b, then unpack by shift / mask *)
Definition packed_group_rows (S : qsem) (K : Z) (a b : nat) (aggs : list (aggfn * expr)) (rows : rel) : rel :=
  map (fun o => match o with
                | VInt pk :: rest => VInt (unpack_a K pk) :: VInt (unpack_b K pk) :: rest
                | v :: rest => v :: v :: rest
                | [] => []
                end)
      (group_rows S [pack_expr K a b] aggs rows).

(* the recorded class: a key column of the rewritten node carries a value outside the bounds found under its name *)
Definition known_bounds_by_name (bounds : list (Z * Z)) (keycols : list (list value)) : bool :=
  existsb (fun bv => existsb (fun v => negb (in_bound (fst bv) v)) (snd bv)) (combine bounds keycols).

(* group_key_reduction.rs column_table, packed_group_keys.rs column_bounds, eager_aggregation.rs lookup_column_stats:
   a plain column is attributed to the ONE table whose footer statistics mention its BARE NAME — whichever relation the
   plan node actually reads (another table without statistics, a derived column of a subquery, ...) *)
Definition column_table (cat : list (list Z)) (name : Z) : option nat :=
  match filter (fun it => existsb (Z.eqb name) (snd it)) (combine (seq 0 (length cat)) cat) with
  | [(i, _)] => Some i
  | _ => None
  end.
(* the recorded class: some key column's statistics are those of a relation other than the one the node reads
   (`reads` = Some table index for a base-table scan, None for a derived relation) *)
Definition known_stats_by_name (cat : list (list Z)) (reads : option nat) (names : list Z) : bool :=
  existsb (fun n => match column_table cat n with
                    | Some t => negb (match reads with Some s => Nat.eqb s t | None => false end)
                    | None => false
                    end) names.

(* ---- rule guards as functions of the table the statistics come from (`stat_rows`; the check passes the rows of the
   Parquet table whose footer the engine consults, which need not be the table the plan reads) ---- *)
Definition bounds_of_col (vs : list value) : option (Z * Z) :=
  match zmin_list (ints_of vs), zmax_list (ints_of vs) with Some lo, Some hi => Some (lo, hi) | _, _ => None end.

(* parquet.rs statistics() over the column chunks (has statistics?, values). Since the `fix:` commit recorded in
   known_findings.txt a chunk without statistics that holds rows makes the column report NO integer bounds; before it,
   min / max were folded over the chunks that had statistics and so described only a part of the column
   (`stats_of_chunks_before_fix` keeps that behaviour expressible: the regression witness stays a theorem). *)
Definition stats_of_chunks_gen (fold_described_only : bool) (chunks : list (bool * list value)) : colstats :=
  let described := flat_map (fun c : bool * list value => if fst c then snd c else []) chunks in
  let all := flat_map snd chunks in
  let unknown := existsb (fun c : bool * list value => negb (fst c) && negb (Nat.eqb (length (snd c)) 0)) chunks in
  let hide := unknown && negb fold_described_only in
  let mn := if hide then None else zmin_list (ints_of described) in
  let mx := if hide then None else zmax_list (ints_of described) in
  let nulls := if forallb fst chunks then Some (null_count all) else None in
  mkCS mn mx nulls (ndv_est (Z.of_nat (length all)) nulls mn mx).
Definition stats_of_chunks := stats_of_chunks_gen false.
Definition stats_of_chunks_before_fix := stats_of_chunks_gen true.
(* the (closed) class: some chunk of a key column has no statistics and holds a value outside the bounds of the others *)
Definition known_partial_stats (chunks : list (bool * list value)) : bool :=
  match cs_min (stats_of_chunks_before_fix chunks), cs_max (stats_of_chunks_before_fix chunks) with
  | Some lo, Some hi =>
      existsb (fun c : bool * list value => negb (fst c) && existsb (fun v => negb (in_bound (lo, hi) v)) (snd c)) chunks
  | _, _ => false
  end.

(* PackedGroupKeys::try_pack: exactly two key columns of type Int64 / Int32, NULL-free and bounded per the statistics *)
Definition pgk_guard (stat_rows : rel) (is_int : nat -> bool) (keys : list nat) : option Z :=
  match keys with
  | [a; b] =>
      if is_int a && is_int b && (null_count (col a stat_rows) =? 0) && (null_count (col b stat_rows) =? 0) then
        match bounds_of_col (col a stat_rows), bounds_of_col (col b stat_rows) with
        | Some ba, Some bb => pack_guard ba ba bb bb
        | _, _ => None
        end
      else None
  | _ => None
  end.

(* PackedJoinKeys::try_pack: bounds of the four key columns by bare name over the Parquet tables (names, rows) *)
Definition catalog_of (tables : list (list Z * rel)) : catalog :=
  map (fun t => flat_map (fun ic => match bounds_of_col (col (fst ic) (snd t)) with
                                    | Some b => [(snd ic, b)] | None => [] end)
                         (combine (seq 0 (length (fst t))) (fst t))) tables.

(* EagerAggregation::try_rewrite_left_count: the left join key is a "unique key" of the table its name resolves to *)
Definition left_count_guard (stat_rows : rel) (k : nat) : bool := inferred_unique stat_rows k.
(* Before the `fix:` commit recorded in known_findings.txt (2bbc018) the pre-aggregate of that rewrite declared its key field
   Int64 whatever the right join key's type; for an INT32 / DATE key the rewritten LEFT join matched nothing and every count
   was 0 — the answer of the rewritten plan over an EMPTY right input (kept for the regression theorem; the class is closed:
   the key field now has the column's own type and `left_count_rewritten` is the model for every key type). *)
Definition left_count_before_fix_narrow_key (L R : query) (k fk y : nat) : query :=
  left_count_rewritten L (QFilter R (ELit (VBool false))) k fk y.
Definition known_leftcount_key_type (stat_rows : rel) (k : nat) (right_key_is_bigint : bool) : bool :=
  left_count_guard stat_rows k && negb right_key_is_bigint.

(* ================= (c) structural rules ================= *)
(* columns read by an expression *)
Fixpoint cols (e : expr) : list nat :=
  match e with
  | ECol i => [i]
  | ELit _ => []
  | ECmp _ a b | EAnd a b | EOr a b | EArith _ a b | ELike a b _ => cols a ++ cols b
  | ENot a | EIsNull a | EIsNotNull a | ENeg a => cols a
  | EIn a l _ => cols a ++ flat_map cols l
  | EBetween a lo hi _ => cols a ++ cols lo ++ cols hi
  | ECase whens els =>
      flat_map (fun ct => cols (fst ct) ++ cols (snd ct)) whens ++ match els with Some x => cols x | None => [] end
  | ECoalesce l => flat_map cols l
  end.

Fixpoint remap (f : nat -> nat) (e : expr) : expr :=
  match e with
  | ECol i => ECol (f i)
  | ELit v => ELit v
  | ECmp op a b => ECmp op (remap f a) (remap f b)
  | EAnd a b => EAnd (remap f a) (remap f b)
  | EOr a b => EOr (remap f a) (remap f b)
  | ENot a => ENot (remap f a)
  | EIsNull a => EIsNull (remap f a)
  | EIsNotNull a => EIsNotNull (remap f a)
  | EIn a l neg => EIn (remap f a) (map (remap f) l) neg
  | EBetween a lo hi neg => EBetween (remap f a) (remap f lo) (remap f hi) neg
  | ELike a p neg => ELike (remap f a) (remap f p) neg
  | EArith op a b => EArith op (remap f a) (remap f b)
  | ENeg a => ENeg (remap f a)
  | ECase whens els =>
      ECase (map (fun ct => (remap f (fst ct), remap f (snd ct))) whens)
            (match els with Some x => Some (remap f x) | None => None end)
  | ECoalesce l => ECoalesce (map (remap f) l)
  end.

(* projection pruning: keep only the listed input columns, re-index the expressions *)
Definition select (keep : list nat) (r : row) : row := map (fun i => nth i r VErr) keep.
Fixpoint index_of (i : nat) (l : list nat) : nat :=
  match l with [] => 0%nat | x :: t => if Nat.eqb x i then 0%nat else Datatypes.S (index_of i t) end.
Definition prune_project (keep : list nat) (es : list expr) (rows : rel) : rel :=
  map (fun r' => map (eval sql_sem r') (map (remap (fun i => index_of i keep)) es)) (map (select keep) rows).

(* ---- predicate pushdown over Project and Limit (predicate_pushdown.rs pushdown) ----
   Since the `fix:` commit recorded in known_findings.txt (12a27a2) a predicate sinks below a projection only when every
   column it reads is PASSED THROUGH unchanged (the projection's expression for that output is that same input column), and
   never below a LIMIT. Before it, a predicate sank below a projection whenever the NAMES it read existed in the
   projection's input, and through Limit and Sort (`*_before_fix`: the regression witnesses stay theorems). *)
Definition passes_through (es : list expr) (p : expr) : bool :=
  forallb (fun i => match nth i es (ELit VErr) with ECol j => Nat.eqb j i | _ => false end) (cols p).
Definition push_filter (q : query) : query :=
  match q with
  | QFilter (QProject q0 es) p => if passes_through es p then QProject (QFilter q0 p) es else q
  | _ => q                                  (* in particular QFilter (QLimit ..) p stays as it is *)
  end.
Definition push_filter_before_fix (q : query) : query :=
  match q with
  | QFilter (QProject q0 es) p =>
      if forallb (fun i => Nat.ltb i (width q0)) (cols p) then QProject (QFilter q0 p) es else q   (* "the name exists below" *)
  | QFilter (QLimit (QSort q0 ks) s f) p => QLimit (QSort (QFilter q0 p) ks) s f
  | QFilter (QLimit q0 s f) p => QLimit (QFilter q0 p) s f
  | _ => q
  end.

(* ---- constant folding (constant_folding.rs fold_expr): literal-literal evaluation and the boolean shortcuts ---- *)
Definition in_i64 (z : Z) : bool := (- 2 ^ 63 <=? z) && (z <=? i64_max).
Definition is_true_lit (e : expr) : bool := match e with ELit (VBool true) => true | _ => false end.
Definition is_false_lit (e : expr) : bool := match e with ELit (VBool false) => true | _ => false end.

(* eval_binary on two literals of the same kind; None = not folded *)
Definition fold_cmp (op : cmpop) (x y : value) : option value :=
  match x, y with
  | VInt a, VInt b => Some (VBool (cmp_test op (a ?= b)))
  | VStr a, VStr b => Some (VBool (cmp_test op (bytes_cmp a b)))
  | VBool a, VBool b => match op with
                        | CEq => Some (VBool (Bool.eqb a b)) | CNe => Some (VBool (negb (Bool.eqb a b)))
                        | _ => None end
  | _, _ => None
  end.
Definition fold_arith (op : arith) (x y : value) : option value :=
  match x, y with
  | VInt a, VInt b =>
      let z := match op with AAdd => a + b | ASub => a - b | AMul => a * b end in
      if in_i64 z then Some (VInt z) else None          (* checked_add / checked_sub / checked_mul *)
  | _, _ => None
  end.
Definition fold_bool (is_and : bool) (x y : value) : option value :=
  match x, y with
  | VBool a, VBool b => Some (VBool (if is_and then a && b else a || b))
  | _, _ => None
  end.

Fixpoint fold (e : expr) : expr :=
  match e with
  | ECmp op a b =>
      let a' := fold a in let b' := fold b in
      match a', b' with
      | ELit x, ELit y => match fold_cmp op x y with Some v => ELit v | None => ECmp op a' b' end
      | _, _ => ECmp op a' b'
      end
  | EArith op a b =>
      let a' := fold a in let b' := fold b in
      match a', b' with
      | ELit x, ELit y => match fold_arith op x y with Some v => ELit v | None => EArith op a' b' end
      | _, _ => EArith op a' b'
      end
  | EAnd a b =>
      let a' := fold a in let b' := fold b in
      match (match a', b' with ELit x, ELit y => fold_bool true x y | _, _ => None end) with
      | Some v => ELit v
      | None =>
          if is_true_lit b' then a'                                  (* x AND true = x *)
          else if is_true_lit a' then b'                             (* true AND x = x *)
          else if is_false_lit a' || is_false_lit b' then ELit (VBool false)   (* x AND false = false *)
          else EAnd a' b'
      end
  | EOr a b =>
      let a' := fold a in let b' := fold b in
      match (match a', b' with ELit x, ELit y => fold_bool false x y | _, _ => None end) with
      | Some v => ELit v
      | None =>
          if is_false_lit b' then a'                                 (* x OR false = x *)
          else if is_false_lit a' then b'                            (* false OR x = x *)
          else if is_true_lit a' || is_true_lit b' then ELit (VBool true)      (* x OR true = true *)
          else EOr a' b'
      end
  | ENot a => ENot (fold a)                    (* UnaryExpr: operand folded, never evaluated *)
  | ENeg a => ENeg (fold a)
  | EIsNull a => EIsNull (fold a)
  | EIsNotNull a => EIsNotNull (fold a)
  | ECase whens els =>
      ECase (map (fun ct => (fold (fst ct), fold (snd ct))) whens)
            (match els with Some x => Some (fold x) | None => None end)
  | ECoalesce l => ECoalesce (map fold l)       (* ScalarFunc: arguments folded *)
  | ECol _ | ELit _ | EIn _ _ _ | EBetween _ _ _ _ | ELike _ _ _ => e       (* `_ => expr.clone()` *)
  end.

(* the rule over a plan: Filter, Project, Join, Aggregate expressions are folded; Sort keys and VALUES are not *)
Fixpoint fold_query (q : query) : query :=
  match q with
  | QTable _ _ | QValues _ _ => q
  | QFilter q p => QFilter (fold_query q) (fold p)
  | QProject q es => QProject (fold_query q) (map fold es)
  | QJoin jt l r on => QJoin jt (fold_query l) (fold_query r) (fold on)
  | QAgg q keys aggs => QAgg (fold_query q) (map fold keys) (map (fun fa => (fst fa, fold (snd fa))) aggs)
  | QDistinct q => QDistinct (fold_query q)
  | QSetOp op all l r => QSetOp op all (fold_query l) (fold_query r)
  | QSort q keys => QSort (fold_query q) keys
  | QLimit q s f => QLimit (fold_query q) s f
  end.

(* ---- OR-derivation (derive_or_predicates.rs derive_from_or): one IN-list per column constrained in EVERY disjunct ---- *)
Fixpoint flatten_and (e : expr) : list expr := match e with EAnd a b => flatten_and a ++ flatten_and b | _ => [e] end.
Fixpoint flatten_or (e : expr) : list expr := match e with EOr a b => flatten_or a ++ flatten_or b | _ => [e] end.
Definition lit_of (e : expr) : option value := match e with ELit v => Some v | _ => None end.
Definition all_lits (l : list expr) : option (list value) :=
  fold_right (fun e acc => match lit_of e, acc with Some v, Some vs => Some (v :: vs) | _, _ => None end) (Some []) l.
Definition part_values (c : nat) (p : expr) : list value :=
  match p with
  | ECmp CEq (ECol i) (ELit v) => if Nat.eqb i c then [v] else []
  | ECmp CEq (ELit v) (ECol i) => if Nat.eqb i c then [v] else []
  | EIn (ECol i) l false => if Nat.eqb i c then match all_lits l with Some vs => vs | None => [] end else []
  | _ => []
  end.
Definition disjunct_values (c : nat) (d : expr) : list value := flat_map (part_values c) (flatten_and d).
Definition is_nil {A} (l : list A) : bool := match l with [] => true | _ => false end.
Fixpoint dedup_values (vs : list value) : list value :=
  match vs with [] => [] | v :: t => v :: filter (fun y => negb (value_eqb v y)) (dedup_values t) end.
Definition derive_col (c : nat) (e : expr) : option expr :=
  let ds := flatten_or e in
  if (2 <=? length ds)%nat && forallb (fun d => negb (is_nil (disjunct_values c d))) ds then
    let vs := dedup_values (flat_map (disjunct_values c) ds) in
    if (length vs <=? 20)%nat then Some (EIn (ECol c) (map ELit vs) false) else None
  else None.

(* ================= (d) the fixpoint driver (Optimizer::optimize_with_rules) ================= *)
Section Driver.
  Variable plan : Type.
  Variable plan_eqb : plan -> plan -> bool.      (* comparison of the Debug renderings *)

  (* one sweep over the loop rules: (plan, changed?, applications) *)
  Fixpoint sweep (rules : list (plan -> plan)) (p : plan) (changed : bool) (n : nat) : plan * bool * nat :=
    match rules with
    | [] => (p, changed, n)
    | r :: t => let p' := r p in
                if plan_eqb p' p then sweep t p changed (Datatypes.S n) else sweep t p' true (Datatypes.S n)
    end.

  Fixpoint iterate (fuel : nat) (rules : list (plan -> plan)) (p : plan) (n : nat) : plan * nat :=
    match fuel with
    | O => (p, n)
    | Datatypes.S fuel' =>
        match sweep rules p false n with
        | (p', true, n') => iterate fuel' rules p' n'
        | (p', false, n') => (p', n')
        end
    end.

  (* final rules (PackedJoinKeys) run exactly once, after the loop, unconditionally *)
  Definition driver (max_iterations : nat) (loop_rules final_rules : list (plan -> plan)) (p : plan) : plan * nat :=
    let '(p1, n1) := iterate max_iterations loop_rules p 0%nat in
    (fold_left (fun acc r => r acc) final_rules p1, (n1 + length final_rules)%nat).
End Driver.

(* the production rule list and order, as read from src/optimizer/mod.rs (Optimizer::new); the check re-reads the source
   every run and compares. PackedJoinKeys is partitioned out of the loop and runs once after it. *)
Module RuleNames.
  Import String.
  Local Open Scope string_scope.
  Definition production_rules : list string :=
    ["ConstantFolding"; "DeriveOrPredicates"; "PredicatePushdown"; "FlattenDependentJoin"; "SubqueryDecorrelation";
     "SemiJoinPushdown"; "JoinReorder"; "PredicatePushdown"; "HavingTotalCse"; "GroupKeyReduction"; "EagerAggregation";
     "PackedGroupKeys"; "PackedJoinKeys"; "ProjectionPushdown"; "VectorSearchPushdown"].
  Definition final_rule : string := "PackedJoinKeys".
  Definition loop_rules : list string := filter (fun n => negb (String.eqb n final_rule)) production_rules.
  Definition final_rules : list string := filter (fun n => String.eqb n final_rule) production_rules.
  Definition same_rules (l : list string) : bool := list_eqb String.eqb l production_rules.
End RuleNames.
Definition max_iterations : nat := 10.
Definition application_bound : nat :=
  (max_iterations * List.length RuleNames.loop_rules + List.length RuleNames.final_rules)%nat.
