(* C09 proofs, part 4: collecting the shards (zero participants, a single participant, every shard empty) and
   the alias-closure scanner over the merge SQL. *)
From Coq Require Import String Ascii.
From QV Require Import Base.Util C09.Model.

(* ================= collecting the batches: MergeShape::Concat ================= *)
Section Collect.
  Context {R : Type}.
  Implicit Types (nodes : list (node R)) (esr : list (list R)).

  Definition active nodes := filter (fun n : node R => negb (Nat.eqb (n_splits n) 0)) nodes.

  Theorem zero_participants_refused esr : concat_merge esr [] = inl ENoMembers.
  Proof. reflexivity. Qed.

  Lemma concat_via_ipc (bs : list (list R)) : concat (via_ipc bs) = concat bs.
  Proof. destruct bs; reflexivity. Qed.
  Lemma via_ipc_nonempty (bs : list (list R)) : via_ipc bs <> [].
  Proof. destruct bs; discriminate. Qed.

  Lemma concat_concat_map {A B} (f : A -> list (list B)) (l : list A) :
    concat (concat (map f l)) = concat (map (fun x => concat (f x)) l).
  Proof. induction l as [|h t IH]; [reflexivity|]. cbn [map concat]. now rewrite concat_app, IH. Qed.

  Lemma filter_partition_perm {A} (p : A -> bool) (g : A -> list R) (l : list A) :
    Permutation (concat (map g (filter p l)) ++ concat (map g (filter (fun x => negb (p x)) l))) (concat (map g l)).
  Proof.
    induction l as [|h t IH]; [reflexivity|]. cbn [filter]. destruct (p h); cbn [negb map concat].
    - rewrite <- app_assoc. now apply Permutation_app_head.
    - rewrite Permutation_app_comm, <- app_assoc. apply Permutation_app_head. now rewrite Permutation_app_comm.
  Qed.

  Definition rows_of (n : node R) : list R := concat (n_batches n).

  (* the rows the coordinator collects are the rows of the active nodes, each exactly once *)
  Lemma collected_rows esr nodes : active nodes <> [] ->
    Permutation (concat (collect_batches esr nodes)) (concat (map rows_of (active nodes))).
  Proof.
    intros NE. unfold collect_batches. fold (active nodes). destruct (active nodes) as [|a act] eqn:E; [congruence|].
    rewrite concat_app, !concat_concat_map.
    rewrite (map_ext (fun n => concat (via_ipc (n_batches n))) rows_of) by (intros n; apply concat_via_ipc).
    apply (filter_partition_perm n_self rows_of).
  Qed.

  (* "no shard returned a schema" happens exactly in the recorded class *)
  Theorem no_schema_iff_known esr nodes : nodes <> [] ->
    (concat_merge esr nodes = inl ENoSchema <-> known_local_empty esr nodes = true).
  Proof.
    intros NE. unfold concat_merge, known_local_empty, collect_batches. destruct nodes as [|n0 ns]; [congruence|].
    fold (active (n0 :: ns)). destruct (active (n0 :: ns)) as [|a act] eqn:E.
    - destruct esr; split; congruence.
    - remember (a :: act) as A eqn:EA. clear E EA NE n0 ns a act.
      assert (H : concat (map n_batches (filter n_self A))
                  ++ concat (map (fun n => via_ipc (n_batches n)) (filter (fun n => negb (n_self n)) A)) = []
                  <-> forallb (fun n => n_self n && match n_batches n with [] => true | _ => false end) A = true).
      { induction A as [|h t IH]; [split; reflexivity|]. cbn [filter forallb].
        destruct (n_self h) eqn:S; cbn [negb andb map concat].
        - destruct (n_batches h) eqn:B; cbn [app].
          + exact IH.
          + split; discriminate.
        - split; [|discriminate]. intros X. apply app_eq_nil in X as [_ X]. apply app_eq_nil in X as [X _].
          now apply via_ipc_nonempty in X. }
      destruct (concat (map n_batches (filter n_self A))
                ++ concat (map (fun n => via_ipc (n_batches n)) (filter (fun n => negb (n_self n)) A))) eqn:C.
      + split; [intros _; now apply H | reflexivity].
      + split; [discriminate|]. intros X. apply H in X. discriminate.
  Qed.

  (* outside that class the Concat answer is the bag of all the nodes' rows: idle nodes and empty shards included *)
  Theorem concat_exact esr nodes : nodes <> [] ->
    (forall n, In n nodes -> n_splits n = 0%nat -> rows_of n = []) -> concat esr = [] ->
    known_local_empty esr nodes = false ->
    exists rows, concat_merge esr nodes = inr rows /\ Permutation rows (concat (map rows_of nodes)).
  Proof.
    intros NE Hidle Hesr Hk.
    assert (ALL : concat (map rows_of (active nodes)) = concat (map rows_of nodes)).
    { clear -Hidle. unfold active. induction nodes as [|h t IH]; [reflexivity|]. cbn [filter map concat].
      destruct (Nat.eqb (n_splits h) 0) eqn:E; cbn [negb map concat].
      - apply Nat.eqb_eq in E. rewrite (Hidle h (or_introl eq_refl) E). cbn [app]. apply IH.
        intros n Hn. apply Hidle. now right.
      - f_equal. apply IH. intros n Hn. apply Hidle. now right. }
    pose proof (no_schema_iff_known esr nodes NE) as IFF.
    unfold concat_merge in *. destruct nodes as [|n0 ns]; [congruence|].
    destruct (collect_batches esr (n0 :: ns)) as [|b bs] eqn:C.
    - assert (X : known_local_empty esr (n0 :: ns) = true) by now apply IFF. congruence.
    - exists (concat (b :: bs)). split; [reflexivity|]. rewrite <- C, <- ALL.
      destruct (active (n0 :: ns)) as [|a act] eqn:EA.
      + unfold collect_batches. fold (active (n0 :: ns)). rewrite EA. cbn [map concat]. now rewrite Hesr.
      + rewrite <- EA. apply collected_rows. rewrite EA. discriminate.
  Qed.

  (* a cluster of one (or any cluster where only the initiator owns splits) whose fragment answers with no batch:
     the single node returns the empty relation, the distributed run fails *)
  Theorem single_local_empty_refuted :
    exists nodes : list (node R),
      nodes <> [] /\ concat (map rows_of nodes) = [] /\ known_local_empty [] nodes = true
      /\ concat_merge [] nodes = inl ENoSchema.
  Proof. exists [mkNode R true 1 []]. repeat split; try reflexivity. discriminate. Qed.
End Collect.

(* ================= verify_alias_closure ================= *)

Lemma scan_app a b st : fold_left scan_step (a ++ b) st = fold_left scan_step b (fold_left scan_step a st).
Proof. apply fold_left_app. Qed.

Lemma is_word_not_quote c : is_word c = true -> (c =? 34) = false.
Proof.
  unfold is_word, is_digit, is_upper, is_lower. intros H. apply Z.eqb_neq. intros ->. vm_compute in H. discriminate.
Qed.

Lemma scan_word w : forall st, sc_quoted st = false -> forallb is_word w = true ->
  fold_left scan_step w st = mkScan (sc_ident st ++ w) false (sc_ok st).
Proof.
  induction w as [|c w IH]; intros st Q H.
  - cbn [fold_left]. rewrite app_nil_r. destruct st; cbn in *; now subst.
  - cbn [forallb] in H. apply andb_true_iff in H as [Hc Hw]. cbn [fold_left].
    unfold scan_step at 2. rewrite (is_word_not_quote c Hc), Q, Hc.
    rewrite IH by (try reflexivity; exact Hw). cbn [sc_ident sc_ok]. now rewrite <- app_assoc.
Qed.

Lemma scan_ok_monotone l : forall st, sc_ok st = false -> sc_ok (fold_left scan_step l st) = false.
Proof.
  induction l as [|c l IH]; intros st H; [exact H|]. cbn [fold_left]. apply IH.
  unfold scan_step. destruct (c =? 34); [exact H|]. destruct (sc_quoted st); [exact H|].
  destruct (is_word c); cbn [sc_ok]; [exact H|]. now rewrite H.
Qed.

(* a bare word (outside quotes, not a function name) that is not one of the generated aliases, the partial
   table, a listed keyword or digit-led is ALWAYS rejected, wherever it stands in the merge query *)
Theorem alias_closure_complete pre w c post ok0 :
  fold_left scan_step pre scan_init = mkScan [] false ok0 ->
  w <> [] -> forallb is_word w = true ->
  is_word c = false -> c <> 34 -> c <> 40 ->
  reserved w = false ->
  verify_alias_closure (pre ++ w ++ c :: post) = false.
Proof.
  intros Hpre Hne Hw Hc Hq Hp Hr. unfold verify_alias_closure.
  rewrite scan_app, Hpre, scan_app, (scan_word w) by (try reflexivity; exact Hw).
  cbn [sc_ident sc_ok app fold_left].
  assert (S : scan_step (mkScan w false ok0) c = mkScan [] false false).
  { unfold scan_step. cbn [sc_ident sc_quoted sc_ok].
    assert (E1 : (c =? 34) = false) by now apply Z.eqb_neq. assert (E2 : (c =? 40) = false) by now apply Z.eqb_neq.
    destruct w as [|z w']; [congruence|]. rewrite E1, Hc, E2, Hr. now rewrite andb_false_r. }
  rewrite S. rewrite scan_ok_monotone by reflexivity. reflexivity.
Qed.

Theorem alias_closure_complete_at_end pre w ok0 :
  fold_left scan_step pre scan_init = mkScan [] false ok0 ->
  w <> [] -> forallb is_word w = true -> reserved w = false ->
  verify_alias_closure (pre ++ w) = false.
Proof.
  intros Hpre Hne Hw Hr. unfold verify_alias_closure.
  rewrite scan_app, Hpre, (scan_word w) by (try reflexivity; exact Hw). cbn [sc_ident sc_ok app].
  destruct w; [congruence|]. rewrite Hr. apply andb_false_r.
Qed.

Definition zs (s : string) : list Z := map (fun a => Z.of_nat (nat_of_ascii a)) (list_ascii_of_string s).

(* the merge query the planner really emits passes; the same query with a base column left in it does not *)
Example merge_sql_accepted :
  verify_alias_closure (zs "SELECT qe_g0 AS ""b"", SUM(qe_a0) AS ""COUNT(*)"", CAST(SUM(qe_a1s) AS DOUBLE) / CAST(SUM(qe_a1c) AS DOUBLE) AS ""AVG(a)"" FROM qe_dist_partial GROUP BY qe_g0 HAVING SUM(qe_a2) > 2 ORDER BY ""b"" DESC NULLS LAST LIMIT 3 OFFSET 1") = true.
Proof. vm_compute. reflexivity. Qed.
Example leftover_column_rejected :
  verify_alias_closure (zs "SELECT qe_g0 AS ""b"", SUM(l_quantity) AS ""s"" FROM qe_dist_partial GROUP BY qe_g0") = false.
Proof. vm_compute. reflexivity. Qed.

(* ... but the exclusion list is by NAME: a base column called like a listed keyword (date, text, first, end, ...)
   or starting with qe_g / qe_a would survive this net. (It does not reach it: Rewriter::rewrite already refuses
   every bare column, see rewrite_refuses; this is the second net's own blind spot.) *)
Theorem alias_closure_reserved_name_refuted :
  exists w, w <> [] /\ forallb is_word w = true /\ reserved w = true
            /\ verify_alias_closure (zs "SELECT qe_g0 AS ""b"", SUM(" ++ w ++ zs ") AS ""s"" FROM qe_dist_partial") = true
            /\ verify_alias_closure (zs "SELECT " ++ w ++ zs " FROM qe_dist_partial") = true.
Proof. exists (zs "date"). vm_compute. repeat split; congruence. Qed.
