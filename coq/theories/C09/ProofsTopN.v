(* C09 proofs, part 3: top-N. Each worker sorts its shard and keeps LIMIT+OFFSET rows; the initiator sorts the
   union and applies the exact LIMIT/OFFSET. The key sequence is the single-node one and the rows are rows of
   the table (which tied row is returned is left free, as ORDER BY leaves it). The u64 `limit + offset`. *)
From Coq Require Import Sorting.Sorted.
From QV Require Import Base.Util C09.Model.

Section KeySort.
  Context {Key : Type}.
  Variable kle : Key -> Key -> bool.
  Hypothesis kle_total : forall a b, kle a b = true \/ kle b a = true.
  Hypothesis kle_trans : forall a b c, kle a b = true -> kle b c = true -> kle a c = true.
  Hypothesis kle_antisym : forall a b, kle a b = true -> kle b a = true -> a = b.

  Notation ksort := (isort kle).
  Notation kins := (insert kle).
  Definition kleP (a b : Key) : Prop := kle a b = true.

  Lemma firstn_insert a : forall s k, firstn k (kins a s) = firstn k (kins a (firstn k s)).
  Proof.
    induction s as [|h t IH]; intros k.
    - now rewrite firstn_nil.
    - destruct k as [|k]; [reflexivity|]. rewrite firstn_cons. cbn [insert]. destruct (kle a h).
      + rewrite !firstn_cons. f_equal. destruct k as [|k]; [reflexivity|]. rewrite !firstn_cons. f_equal.
        rewrite firstn_firstn. now rewrite Nat.min_l by lia.
      + rewrite !firstn_cons. f_equal. apply IH.
  Qed.

  Lemma fold_insert_prefix k A : forall X Y, firstn k X = firstn k Y ->
    firstn k (fold_right kins X A) = firstn k (fold_right kins Y A).
  Proof.
    induction A as [|a A IH]; intros X Y E; [exact E|]. cbn [fold_right].
    rewrite firstn_insert, (IH X Y E), <- firstn_insert. reflexivity.
  Qed.

  Lemma ksort_app A B : ksort (A ++ B) = fold_right kins (ksort B) A.
  Proof. unfold isort. apply fold_right_app. Qed.

  Lemma insert_forall (P : Key -> Prop) a l : P a -> Forall P l -> Forall P (kins a l).
  Proof.
    intros Pa Hl. apply Forall_forall. intros y Hy.
    apply (Permutation_in _ (insert_perm kle a l)) in Hy. destruct Hy as [<-|Hy]; [exact Pa|].
    rewrite Forall_forall in Hl. now apply Hl.
  Qed.

  Lemma insert_sorted a l : StronglySorted kleP l -> StronglySorted kleP (kins a l).
  Proof.
    induction 1 as [|h t Ht IH Hh]; cbn [insert]; [constructor; constructor|].
    destruct (kle a h) eqn:E.
    - constructor; [now constructor|]. constructor; [exact E|].
      eapply Forall_impl; [|exact Hh]. intros y Hy. now apply (kle_trans a h y).
    - constructor; [exact IH|]. apply insert_forall; [|exact Hh].
      destruct (kle_total a h) as [X|X]; [congruence | exact X].
  Qed.
  Lemma ksort_sorted l : StronglySorted kleP (ksort l).
  Proof. induction l as [|h t IH]; [constructor|]. cbn [isort fold_right]. now apply insert_sorted. Qed.

  Lemma ksort_id l : StronglySorted kleP l -> ksort l = l.
  Proof.
    induction 1 as [|h t Ht IH Hh]; [reflexivity|]. cbn [isort fold_right]. fold (ksort t). rewrite IH.
    destruct t as [|x t]; [reflexivity|]. cbn [insert]. inversion Hh as [|? ? Hx _]; subst.
    unfold kleP in Hx. now rewrite Hx.
  Qed.

  Lemma firstn_sorted k : forall l, StronglySorted kleP l -> StronglySorted kleP (firstn k l).
  Proof.
    induction k as [|k IH]; intros l H; [constructor|]. destruct H as [|h t Ht Hh]; [constructor|].
    cbn [firstn]. constructor; [now apply IH|].
    apply Forall_forall. intros y Hy. rewrite Forall_forall in Hh. apply Hh.
    rewrite <- (firstn_skipn k t). apply in_or_app. now left.
  Qed.

  Lemma sorted_perm_eq : forall l1 l2, StronglySorted kleP l1 -> StronglySorted kleP l2 -> Permutation l1 l2 -> l1 = l2.
  Proof.
    induction l1 as [|x l1 IH]; intros l2 S1 S2 Pm.
    - now apply Permutation_nil in Pm.
    - destruct l2 as [|y l2]; [apply Permutation_sym, Permutation_nil in Pm; discriminate|].
      inversion S1 as [|? ? S1' F1]; inversion S2 as [|? ? S2' F2]; subst.
      assert (x = y).
      { assert (Ix : In x (y :: l2)) by (apply (Permutation_in _ Pm); now left).
        assert (Iy : In y (x :: l1)) by (apply (Permutation_in _ (Permutation_sym Pm)); now left).
        rewrite Forall_forall in F1, F2.
        destruct Ix as [->|Ix]; [reflexivity|]. destruct Iy as [->|Iy]; [reflexivity|].
        apply kle_antisym; [now apply F1 | now apply F2]. }
      subst. f_equal. apply IH; auto. now apply Permutation_cons_inv in Pm.
  Qed.

  Lemma ksort_perm_eq a b : Permutation a b -> ksort a = ksort b.
  Proof.
    intros P. apply sorted_perm_eq; try apply ksort_sorted. now rewrite !isort_perm.
  Qed.

  (* the first k keys of the sorted union depend on each shard only through ITS first k keys *)
  Lemma topk_one k s C : firstn k (ksort (firstn k (ksort s) ++ C)) = firstn k (ksort (s ++ C)).
  Proof.
    rewrite (ksort_perm_eq (firstn k (ksort s) ++ C) (C ++ firstn k (ksort s))) by apply Permutation_app_comm.
    rewrite (ksort_perm_eq (s ++ C) (C ++ s)) by apply Permutation_app_comm.
    rewrite !ksort_app. rewrite (ksort_id (firstn k (ksort s))) by (apply firstn_sorted, ksort_sorted).
    apply fold_insert_prefix. rewrite firstn_firstn. now rewrite Nat.min_id.
  Qed.

  Theorem topk_shards k (shards : list (list Key)) :
    firstn k (ksort (concat (map (fun s => firstn k (ksort s)) shards))) = firstn k (ksort (concat shards)).
  Proof.
    induction shards as [|s t IH]; [reflexivity|]. cbn [map concat].
    rewrite <- (topk_one k s (concat t)). rewrite !ksort_app. now apply fold_insert_prefix.
  Qed.
End KeySort.

Section TopNProofs.
  Context {R Key : Type}.
  Variable key : R -> Key.
  Variable kle : Key -> Key -> bool.
  Hypothesis kle_total : forall a b, kle a b = true \/ kle b a = true.
  Hypothesis kle_trans : forall a b c, kle a b = true -> kle b c = true -> kle a c = true.
  Hypothesis kle_antisym : forall a b, kle a b = true -> kle b a = true -> a = b.

  Notation rle := (rle key kle).
  Notation topn := (topn key kle).
  Notation topn_distributed := (topn_distributed key kle).

  Lemma map_key_insert x s : map key (insert rle x s) = insert kle (key x) (map key s).
  Proof.
    induction s as [|h t IH]; [reflexivity|]. cbn [insert map]. unfold Model.rle at 1.
    destruct (kle (key x) (key h)); cbn [map]; [reflexivity|]. now rewrite IH.
  Qed.
  Lemma map_key_isort l : map key (isort rle l) = isort kle (map key l).
  Proof.
    induction l as [|h t IH]; [reflexivity|]. cbn [isort fold_right map]. fold (isort rle t). fold (isort kle (map key t)).
    now rewrite map_key_insert, IH.
  Qed.

  Lemma keys_topn n m l : map key (topn n m l) = firstn n (skipn m (isort kle (map key l))).
  Proof. unfold Model.topn. now rewrite <- firstn_map, <- skipn_map, map_key_isort. Qed.

  (* ORDER BY k LIMIT n OFFSET m: the distributed key sequence is the single-node key sequence *)
  Theorem topn_pretruncate n m (shards : list (list R)) :
    map key (topn_distributed (n + m) n m shards) = map key (topn n m (concat shards)).
  Proof.
    unfold Model.topn_distributed. rewrite !keys_topn, !firstn_skipn_comm. f_equal.
    rewrite !concat_map, !map_map.
    rewrite (map_ext (fun s => map key (topn (n + m) 0 s)) (fun s => firstn (m + n) (isort kle (map key s)))).
    2:{ intros s. rewrite keys_topn. cbn [skipn]. now rewrite Nat.add_comm. }
    rewrite <- (map_map (map key) (fun ks => firstn (m + n) (isort kle ks))).
    now apply topk_shards.
  Qed.

  (* pre-truncating to MORE rows than needed is harmless too (any keep >= n + m) *)
  Theorem topn_pretruncate_ge keep n m (shards : list (list R)) : (n + m <= keep)%nat ->
    map key (topn_distributed keep n m shards) = map key (topn n m (concat shards)).
  Proof.
    intros Hk. unfold Model.topn_distributed. rewrite !keys_topn, !firstn_skipn_comm. f_equal.
    rewrite !concat_map, !map_map.
    rewrite (map_ext (fun s => map key (topn keep 0 s)) (fun s => firstn keep (isort kle (map key s)))).
    2:{ intros s. rewrite keys_topn. reflexivity. }
    rewrite <- (map_map (map key) (fun ks => firstn keep (isort kle ks))).
    set (A := concat (map (fun ks => firstn keep (isort kle ks)) (map (map key) shards))).
    set (B := concat (map (map key) shards)).
    assert (E : firstn keep (isort kle A) = firstn keep (isort kle B)) by now apply topk_shards.
    replace (m + n)%nat with (Nat.min (m + n) keep) by lia.
    now rewrite <- !firstn_firstn, E.
  Qed.

  (* ... and every returned row is a row of the table, with multiplicity *)
  Definition subbag_of (a b : list R) : Prop := exists rest, Permutation (a ++ rest) b.
  Lemma subbag_refl a : subbag_of a a. Proof. exists []. now rewrite app_nil_r. Qed.
  Lemma subbag_trans a b c : subbag_of a b -> subbag_of b c -> subbag_of a c.
  Proof. intros [r1 P1] [r2 P2]. exists (r1 ++ r2). now rewrite app_assoc, P1. Qed.
  Lemma subbag_perm a b : Permutation a b -> subbag_of a b.
  Proof. intros P. exists []. now rewrite app_nil_r. Qed.
  Lemma subbag_firstn n l : subbag_of (firstn n l) l.
  Proof. exists (skipn n l). now rewrite firstn_skipn. Qed.
  Lemma subbag_skipn n l : subbag_of (skipn n l) l.
  Proof. exists (firstn n l). rewrite Permutation_app_comm. now rewrite firstn_skipn. Qed.
  Lemma subbag_topn n m l : subbag_of (topn n m l) l.
  Proof.
    unfold Model.topn. eapply subbag_trans; [apply subbag_firstn|].
    eapply subbag_trans; [apply subbag_skipn|]. apply subbag_perm, isort_perm.
  Qed.
  Lemma subbag_app a b c d : subbag_of a b -> subbag_of c d -> subbag_of (a ++ c) (b ++ d).
  Proof.
    intros [r1 P1] [r2 P2]. exists (r1 ++ r2). rewrite <- P1, <- P2.
    rewrite <- !app_assoc. apply Permutation_app_head. rewrite !app_assoc. apply Permutation_app_tail.
    apply Permutation_app_comm.
  Qed.
  Theorem topn_rows_are_table_rows keep n m (shards : list (list R)) :
    subbag_of (topn_distributed keep n m shards) (concat shards).
  Proof.
    unfold Model.topn_distributed. eapply subbag_trans; [apply subbag_topn|].
    induction shards as [|s t IH]; [apply subbag_refl|]. cbn [map concat]. apply subbag_app; [apply subbag_topn|exact IH].
  Qed.
End TopNProofs.

(* ---------- the u64 addition ---------- *)
Lemma zleb_total a b : Z.leb a b = true \/ Z.leb b a = true.
Proof. destruct (Z.leb a b) eqn:E; [now left|]. right. apply Z.leb_le. apply Z.leb_gt in E. lia. Qed.
Lemma zleb_trans a b c : Z.leb a b = true -> Z.leb b c = true -> Z.leb a c = true.
Proof. rewrite !Z.leb_le. lia. Qed.
Lemma zleb_antisym a b : Z.leb a b = true -> Z.leb b a = true -> a = b.
Proof. rewrite !Z.leb_le. lia. Qed.

(* without overflow the value the code computes is limit + offset and the pre-truncation is exact *)
Theorem topn_pretruncate_u64 {R} (key : R -> Z) limit offset (shards : list (list R)) :
  0 <= limit -> 0 <= offset -> known_keep_overflow limit offset = false ->
  keep_checked limit offset = Some (keep_release limit offset) /\
  map key (topn_distributed key Z.leb (Z.to_nat (keep_release limit offset)) (Z.to_nat limit) (Z.to_nat offset) shards)
  = map key (topn key Z.leb (Z.to_nat limit) (Z.to_nat offset) (concat shards)).
Proof.
  intros Hl Ho Hk. unfold known_keep_overflow in Hk. apply Z.leb_gt in Hk.
  unfold keep_checked, keep_release. assert (L : limit + offset <? W64 = true) by (apply Z.ltb_lt; lia).
  rewrite L, Z.mod_small by lia. split; [reflexivity|].
  rewrite Z2Nat.inj_add by lia.
  apply topn_pretruncate; [apply zleb_total | apply zleb_trans | apply zleb_antisym].
Qed.

(* with it, a release build truncates every shard to (limit + offset) mod 2^64 rows: LIMIT 2^64-1 OFFSET 1 keeps 0 *)
Theorem topn_keep_overflow_refuted :
  exists limit offset (shards : list (list Z)),
    0 <= limit < W64 /\ 0 <= offset < W64 /\ known_keep_overflow limit offset = true /\
    keep_checked limit offset = None /\
    topn_distributed (fun x => x) Z.leb (Z.to_nat (keep_release limit offset)) (Z.to_nat limit) (Z.to_nat offset) shards = [] /\
    topn (fun x => x) Z.leb (Z.to_nat limit) (Z.to_nat offset) (concat shards) = [2].
Proof.
  exists (W64 - 1), 1, [[1; 2]].
  split; [unfold W64; lia|]. split; [unfold W64; lia|]. split; [reflexivity|]. split; [reflexivity|]. split.
  - unfold topn_distributed, topn. replace (keep_release (W64 - 1) 1) with 0 by reflexivity.
    change (Z.to_nat 0) with 0%nat. cbn [map firstn concat app isort fold_right skipn].
    now rewrite skipn_nil, firstn_nil.
  - unfold topn. change (Z.to_nat 1) with 1%nat.
    change (skipn 1 (isort (rle (fun x : Z => x) Z.leb) (concat [[1; 2]]))) with [2].
    apply firstn_all2. cbn [length]. unfold W64. lia.
Qed.
