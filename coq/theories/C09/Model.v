(* C09 model: the distributed planner's rewriting and the coordinator's scatter / merge, transcribed.
   anchors: src/distributed/plan.rs: Rewriter::{rewrite, rewrite_function, partial_sql, final_sql}, plan_topn
            (keep = limit + offset), verify_alias_closure / check_identifier / SQL_KEYWORDS;
            src/distributed/coordinator.rs: scatter_sql_over_table (idle nodes skipped; no active node => the
            initiator runs the fragment over an empty shard), decode_ipc (schema-only placeholder batch), merge
            (Concat: "no shard returned a schema"), execute_distributed (no participants => error).
   Values and aggregate semantics are the SQL base's (Sql/Query.v: value, agg_apply). Aggregate arguments are
   nullable exact integers (C21's merge algebra); group keys are any type with decidable equality (NULL keys
   are ordinary key values: "not distinct"). *)
From QV Require Export Sql.Query.

Definition oinj (o : option Z) : value := match o with Some z => VInt z | None => VNull end.

(* ------------------------------------------------------------------ *)
(* 1. the Rewriter on an aggregate expression                           *)

(* an expression of the SELECT list / HAVING of an aggregated statement *)
Inductive aexpr :=
| AKey (i : nat)                         (* text equals the i-th GROUP BY expression *)
| ALit (v : value)
| ACol (c : nat)                         (* a column that is neither grouped nor aggregated *)
| AAgg (f : aggfn) (arg : nat)           (* aggregate over the arg-th argument expression *)
| AUn (u : value -> value) (a : aexpr)   (* Nested / UnaryOp / Cast / IsNull / scalar function of one argument *)
| ABin (b : value -> value -> value) (x y : aexpr)
| ATer (t : value -> value -> value -> value) (x y z : aexpr).   (* Between / CASE WHEN x THEN y ELSE z *)

(* one item of the partial SELECT list: call("COUNT"|"SUM"|"MIN"|"MAX", args) AS qe_a<k> *)
Inductive pfn := PCountStar | PCount | PSum | PMin | PMax.
Definition pfn_agg (p : pfn) : aggfn :=
  match p with PCountStar => ACountStar | PCount => ACount | PSum => ASum | PMin => AMin | PMax => AMax end.
Notation pitem := (pfn * nat)%type.

(* an expression of the merge query over qe_dist_partial; FSum k = SUM(<k-th partial item's alias>) *)
Inductive fexpr :=
| FKey (i : nat)                         (* qe_g<i> *)
| FLit (v : value)
| FSum (k : nat) | FMin (k : nat) | FMax (k : nat)
| FCastD (a : fexpr)                     (* CAST(a AS DOUBLE) *)
| FDiv (x y : fexpr)
| FUn (u : value -> value) (a : fexpr)
| FBin (b : value -> value -> value) (x y : fexpr)
| FTer (t : value -> value -> value -> value) (x y z : fexpr).

(* Rewriter::rewrite, threading the partial SELECT list; an alias is the item's position.
   None = Err(unsupported(..)): the statement is not scattered (gather path or refusal). *)
Fixpoint rewrite (e : aexpr) (items : list pitem) : option (fexpr * list pitem) :=
  match e with
  | AKey i => Some (FKey i, items)
  | ALit v => Some (FLit v, items)
  | ACol _ => None                                  (* "column is neither grouped nor aggregated" *)
  | AAgg f a =>
      let k := length items in
      match f with
      | ACountStar => Some (FSum k, items ++ [(PCountStar, a)])     (* COUNT of counts is a SUM *)
      | ACount => Some (FSum k, items ++ [(PCount, a)])
      | ASum => Some (FSum k, items ++ [(PSum, a)])
      | AMin => Some (FMin k, items ++ [(PMin, a)])
      | AMax => Some (FMax k, items ++ [(PMax, a)])
      | AAvg => Some (FDiv (FCastD (FSum k)) (FCastD (FSum (S k))), items ++ [(PSum, a); (PCount, a)])
      | ACountDistinct => None                      (* "a distinct aggregate needs a shuffle to be exact" *)
      end
  | AUn u a => match rewrite a items with Some (a', i1) => Some (FUn u a', i1) | None => None end
  | ABin b x y =>
      match rewrite x items with
      | Some (x', i1) => match rewrite y i1 with Some (y', i2) => Some (FBin b x' y', i2) | None => None end
      | None => None
      end
  | ATer t x y z =>
      match rewrite x items with
      | Some (x', i1) =>
          match rewrite y i1 with
          | Some (y', i2) => match rewrite z i2 with Some (z', i3) => Some (FTer t x' y' z', i3) | None => None end
          | None => None
          end
      | None => None
      end
  end.

(* the SELECT list (and HAVING, last) rewritten left to right *)
Fixpoint rewrite_list (es : list aexpr) (items : list pitem) : option (list fexpr * list pitem) :=
  match es with
  | [] => Some ([], items)
  | e :: t => match rewrite e items with
              | Some (e', i1) => match rewrite_list t i1 with Some (t', i2) => Some (e' :: t', i2) | None => None end
              | None => None
              end
  end.

Fixpoint unsplittable (e : aexpr) : bool :=
  match e with
  | AKey _ | ALit _ => false
  | ACol _ => true
  | AAgg f _ => match f with ACountDistinct => true | _ => false end
  | AUn _ a => unsplittable a
  | ABin _ x y => unsplittable x || unsplittable y
  | ATer _ x y z => unsplittable x || unsplittable y || unsplittable z
  end.

(* CAST(x AS DOUBLE) and `/` as the merge query evaluates them (NULL in, NULL out) *)
Definition cast_dbl (v : value) : value :=
  match v with VNull => VNull | VInt z => VDbl (inject_Z z) | VDbl q => VDbl q | _ => VErr end.
Definition div_dbl (a b : value) : value :=
  match a, b with
  | VErr, _ | _, VErr => VErr
  | VNull, _ | _, VNull => VNull
  | VDbl x, VDbl y => if Qeq_bool y 0 then VErr else VDbl (Qred (x / y)%Q)
  | _, _ => VErr
  end.

Section TwoPhase.
  Context {R K : Type}.
  Variable keqb : K -> K -> bool.          (* key tuples, NULLs not distinct *)
  Variable keyf : R -> K.                  (* the GROUP BY expressions of a row *)
  Variable kv : K -> nat -> value.         (* i-th component of a key tuple *)
  Variable argv : R -> nat -> option Z.    (* the a-th aggregate argument of a row *)
  Variable kglobal : K.                    (* the (only, empty) key of a statement without GROUP BY *)

  Fixpoint dedup (l : list K) : list K :=
    match l with [] => [] | x :: t => x :: filter (fun y => negb (keqb x y)) (dedup t) end.
  Definition members (k : K) (rows : list R) : list R := filter (fun r => keqb k (keyf r)) rows.
  Definition argvals (a : nat) (ms : list R) : list value := map (fun r => oinj (argv r a)) ms.

  (* single node: the statement's own expressions over a group *)
  Fixpoint aeval (k : K) (ms : list R) (e : aexpr) : value :=
    match e with
    | AKey i => kv k i
    | ALit v => v
    | ACol _ => VErr
    | AAgg f a => agg_apply f (argvals a ms) (length ms)
    | AUn u a => u (aeval k ms a)
    | ABin b x y => b (aeval k ms x) (aeval k ms y)
    | ATer t x y z => t (aeval k ms x) (aeval k ms y) (aeval k ms z)
    end.

  (* grouped = the statement has GROUP BY; otherwise one row whatever the input *)
  Definition aggregate (grouped : bool) (es : list aexpr) (rows : list R) : list (K * list value) :=
    if grouped then map (fun k => (k, map (aeval k (members k rows)) es)) (dedup (map keyf rows))
    else [(kglobal, map (aeval kglobal rows) es)].

  (* a worker: the partial SELECT over its shard *)
  Definition pitems_eval (items : list pitem) (ms : list R) : list value :=
    map (fun pa => agg_apply (pfn_agg (fst pa)) (argvals (snd pa) ms) (length ms)) items.
  Definition partial_rows (grouped : bool) (items : list pitem) (shard : list R) : list (K * list value) :=
    if grouped then map (fun k => (k, pitems_eval items (members k shard))) (dedup (map keyf shard))
    else [(kglobal, pitems_eval items shard)].

  (* the initiator: the merge query over the collected partial rows *)
  Definition pcol (k : nat) (pvs : list (list value)) : list value := map (fun pv => nth k pv VNull) pvs.
  Fixpoint feval (k : K) (pvs : list (list value)) (e : fexpr) : value :=
    match e with
    | FKey i => kv k i
    | FLit v => v
    | FSum j => agg_apply ASum (pcol j pvs) (length pvs)
    | FMin j => agg_apply AMin (pcol j pvs) (length pvs)
    | FMax j => agg_apply AMax (pcol j pvs) (length pvs)
    | FCastD a => cast_dbl (feval k pvs a)
    | FDiv x y => div_dbl (feval k pvs x) (feval k pvs y)
    | FUn u a => u (feval k pvs a)
    | FBin b x y => b (feval k pvs x) (feval k pvs y)
    | FTer t x y z => t (feval k pvs x) (feval k pvs y) (feval k pvs z)
    end.
  Definition pmembers (k : K) (prows : list (K * list value)) : list (list value) :=
    map snd (filter (fun pr => keqb k (fst pr)) prows).
  Definition final_rows (grouped : bool) (fes : list fexpr) (prows : list (K * list value)) : list (K * list value) :=
    if grouped then map (fun k => (k, map (feval k (pmembers k prows)) fes)) (dedup (map fst prows))
    else [(kglobal, map (feval kglobal (map snd prows)) fes)].

  (* scatter: a node is (number of splits assigned, rows of its shard that survive the WHERE clause).
     Nodes without splits are skipped; when no node has a split the initiator runs the partial query over an
     empty shard, so a global aggregate still gets its identity row. *)
  Definition nonidle (shards : list (nat * list R)) : list (list R) :=
    map snd (filter (fun s => negb (Nat.eqb (fst s) 0)) shards).
  Definition scatter_partials (grouped : bool) (items : list pitem) (shards : list (nat * list R))
    : list (K * list value) :=
    match nonidle shards with
    | [] => partial_rows grouped items []
    | act => concat (map (partial_rows grouped items) act)
    end.
  Definition two_phase (grouped : bool) (es : list aexpr) (shards : list (nat * list R))
    : option (list (K * list value)) :=
    match rewrite_list es [] with
    | Some (fes, items) => Some (final_rows grouped fes (scatter_partials grouped items shards))
    | None => None
    end.
End TwoPhase.

(* ------------------------------------------------------------------ *)
(* 2. top-N: ORDER BY / LIMIT / OFFSET with per-shard pre-truncation     *)

Definition W64 : Z := 18446744073709551616.
(* plan_topn: `let keep = limit + ol.offset.unwrap_or(0)` on u64: wraps in a release build, panics with
   overflow checks on *)
Definition keep_release (limit offset : Z) : Z := (limit + offset) mod W64.
Definition keep_checked (limit offset : Z) : option Z := if limit + offset <? W64 then Some (limit + offset) else None.
Definition known_keep_overflow (limit offset : Z) : bool := W64 <=? limit + offset.

Section TopN.
  Context {R Key : Type}.
  Variable key : R -> Key.                 (* the ORDER BY key tuple of a row, direction / NULL placement folded in *)
  Variable kle : Key -> Key -> bool.
  Definition rle (a b : R) : bool := kle (key a) (key b).
  (* ORDER BY ... LIMIT n OFFSET m of a relation (stable sort: ties keep their arrival order) *)
  Definition topn (n m : nat) (rows : list R) : list R := firstn n (skipn m (isort rle rows)).
  (* workers: sorted and truncated to keep rows; initiator: exact LIMIT/OFFSET over the union *)
  Definition topn_distributed (keep n m : nat) (shards : list (list R)) : list R :=
    topn n m (concat (map (topn keep 0) shards)).
End TopN.

(* ------------------------------------------------------------------ *)
(* 3. collecting the shards' batches and the Concat merge                *)

Inductive derr := ENoMembers | ENoSchema.
(* a node: is it the initiator, how many splits it owns, the batches its fragment returns (a batch = its rows;
   a rowless plain SELECT returns NO batch, an aggregate's empty answer keeps a zero-row batch) *)
Record node {R} := mkNode { n_self : bool; n_splits : nat; n_batches : list (list R) }.
Arguments node : clear implicits.

(* decode_ipc: "An empty shard answers with a schema-only stream; that schema must survive as a zero-row batch" *)
Definition via_ipc {R} (bs : list (list R)) : list (list R) := match bs with [] => [[]] | _ => bs end.

(* scatter_sql_over_table: local batches as they are, remote ones through encode_ipc / decode_ipc; local first *)
Definition collect_batches {R} (empty_shard_run : list (list R)) (nodes : list (node R)) : list (list R) :=
  let act := filter (fun n => negb (Nat.eqb (n_splits n) 0)) nodes in
  match act with
  | [] => empty_shard_run
  | _ => concat (map n_batches (filter n_self act)) ++ concat (map (fun n => via_ipc (n_batches n)) (filter (fun n => negb (n_self n)) act))
  end.

(* execute_distributed + merge for MergeShape::Concat *)
Definition concat_merge {R} (empty_shard_run : list (list R)) (nodes : list (node R)) : derr + list R :=
  match nodes with
  | [] => inl ENoMembers
  | _ => match collect_batches empty_shard_run nodes with
         | [] => inl ENoSchema                       (* "no shard returned a schema" *)
         | bs => inr (concat bs)
         end
  end.

(* the recorded deviation: every active node is the initiator itself and its fragment returned no batch *)
Definition known_local_empty {R} (empty_shard_run : list (list R)) (nodes : list (node R)) : bool :=
  let act := filter (fun n => negb (Nat.eqb (n_splits n) 0)) nodes in
  match act with
  | [] => match empty_shard_run with [] => true | _ => false end
  | _ => forallb (fun n => n_self n && match n_batches n with [] => true | _ => false end) act
  end.

(* ------------------------------------------------------------------ *)
(* 4. verify_alias_closure: a scanner over the characters of the merge SQL *)

Definition is_digit (c : Z) : bool := (48 <=? c) && (c <=? 57).
Definition is_upper (c : Z) : bool := (65 <=? c) && (c <=? 90).
Definition is_lower (c : Z) : bool := (97 <=? c) && (c <=? 122).
(* char::is_alphanumeric() || c == '_'   (ASCII; the generated SQL is ASCII outside quoted labels) *)
Definition is_word (c : Z) : bool := is_digit c || is_upper c || is_lower c || (c =? 95).
Definition upcase (c : Z) : Z := if is_lower c then c - 32 else c.

Fixpoint starts_with (p w : list Z) : bool :=
  match p, w with
  | [], _ => true
  | a :: p', b :: w' => (a =? b) && starts_with p' w'
  | _ :: _, [] => false
  end.

Definition GROUP_PREFIX : list Z := [113; 101; 95; 103].                       (* qe_g *)
Definition AGG_PREFIX : list Z := [113; 101; 95; 97].                          (* qe_a *)
Definition PARTIAL_TABLE : list Z := [113; 101; 95; 100; 105; 115; 116; 95; 112; 97; 114; 116; 105; 97; 108].  (* qe_dist_partial *)

(* SQL_KEYWORDS, upper case *)
Definition SQL_KEYWORDS : list (list Z) :=
  [[79;82;68;69;82]; [68;69;83;67]; [65;83;67]; [76;73;77;73;84]; [79;70;70;83;69;84]; [78;85;76;76;83];
   [70;73;82;83;84]; [76;65;83;84]; [83;69;76;69;67;84]; [70;82;79;77]; [87;72;69;82;69]; [71;82;79;85;80];
   [66;89]; [72;65;86;73;78;71]; [65;83]; [67;65;83;69]; [87;72;69;78]; [84;72;69;78]; [69;76;83;69]; [69;78;68];
   [65;78;68]; [79;82]; [78;79;84]; [78;85;76;76]; [73;83]; [73;78]; [66;69;84;87;69;69;78]; [67;65;83;84];
   [68;79;85;66;76;69]; [66;73;71;73;78;84]; [73;78;84]; [73;78;84;69;71;69;82]; [86;65;82;67;72;65;82];
   [84;69;88;84]; [68;69;67;73;77;65;76]; [70;76;79;65;84]; [82;69;65;76]; [66;79;79;76;69;65;78]; [68;65;84;69];
   [84;73;77;69;83;84;65;77;80]; [84;82;85;69]; [70;65;76;83;69]; [76;73;75;69]; [80;82;69;67;73;83;73;79;78]].

(* check_identifier returns Ok for these words *)
Definition reserved (w : list Z) : bool :=
  match w with
  | [] => true
  | c :: _ =>
      is_digit c || starts_with GROUP_PREFIX w || starts_with AGG_PREFIX w || list_eqb Z.eqb w PARTIAL_TABLE
      || existsb (list_eqb Z.eqb (map upcase w)) SQL_KEYWORDS
  end.

Record scan_state := mkScan { sc_ident : list Z; sc_quoted : bool; sc_ok : bool }.
(* one iteration of `while let Some(c) = chars.next()` *)
Definition scan_step (s : scan_state) (c : Z) : scan_state :=
  if c =? 34 then mkScan (sc_ident s) (negb (sc_quoted s)) (sc_ok s)      (* double quote: toggles, the word is NOT flushed *)
  else if sc_quoted s then s
  else if is_word c then mkScan (sc_ident s ++ [c]) false (sc_ok s)
  else mkScan [] false
              (sc_ok s && (match sc_ident s with [] => true | w => if c =? 40 then true else reserved w end)).
Definition scan_init : scan_state := mkScan [] false true.
Definition verify_alias_closure (text : list Z) : bool :=
  let s := fold_left scan_step text scan_init in
  sc_ok s && (match sc_ident s with [] => true | w => reserved w end).

(* ------------------------------------------------------------------ *)
(* 4b. recorded deviation: a shard context keeps the whole table's distinct-value estimate             *)
(* storage/parquet.rs: ndv_est = min(non_null, max - min + 1) for integer-statistics columns of the WHOLE table;
   distributed/shard.rs statistics(): row_count := the shard's rows, column statistics untouched;
   optimizer/rules/group_key_reduction.rs is_unique_key: null_count == 0 && ndv_est >= row_count, and a "unique"
   group key drops the other GROUP BY columns of its table to ANY_VALUE.  So inside a small enough shard any
   NULL-free integer key looks unique and `GROUP BY k, d` is computed as `GROUP BY k`. *)
Definition ndv_est (non_null kmin kmax : Z) : Z := Z.min non_null (kmax - kmin + 1).
Record keystat := mkKeyStat { ks_int : bool; ks_nulls : Z; ks_non_null : Z; ks_min : Z; ks_max : Z }.
Definition looks_unique (shard_rows : Z) (k : keystat) : bool :=
  ks_int k && (ks_nulls k =? 0) && (0 <? ks_non_null k) && (shard_rows <=? ndv_est (ks_non_null k) (ks_min k) (ks_max k)).
(* the statement groups by >= 2 plain columns, and on some ACTIVE shard that holds >= 2 rows one of them looks unique *)
Definition known_shard_ndv (group_cols : list keystat) (active_shard_rows : list Z) : bool :=
  (2 <=? length group_cols)%nat
  && existsb (fun r => (2 <=? r) && existsb (looks_unique r) group_cols) active_shard_rows.

(* ------------------------------------------------------------------ *)
(* 5. executable spec for the per-case judgement (keys and values as Z)  *)

Definition zkeys_eqb (a b : list Z) : bool := list_eqb Z.eqb a b.
(* the distributed key sequence must be the single-node key sequence, and the rows a sub-bag of the input *)
Fixpoint remove1 (x : Z) (l : list Z) : option (list Z) :=
  match l with
  | [] => None
  | y :: t => if x =? y then Some t else match remove1 x t with Some t' => Some (y :: t') | None => None end
  end.
Fixpoint subbag (a b : list Z) : bool :=
  match a with [] => true | x :: t => match remove1 x b with Some b' => subbag t b' | None => false end end.
