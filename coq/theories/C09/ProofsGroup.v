(* C09 proofs, part 2: grouping. For every split of the rows into shards (idle nodes, empty shards, shards that
   miss a group, all-NULL groups) the merge query over the workers' partial rows is the single-node aggregate. *)
From QV Require Import Sql.Query C21.Proofs C09.Model C09.Proofs.

Lemma filter_concat {A} (p : A -> bool) (ls : list (list A)) :
  filter p (concat ls) = concat (map (filter p) ls).
Proof. induction ls as [|h t IH]; [reflexivity|]. cbn [concat map]. now rewrite filter_app, IH. Qed.

Lemma filter_filter_and {A} (p q : A -> bool) l : filter p (filter q l) = filter (fun x => q x && p x) l.
Proof.
  induction l as [|h t IH]; [reflexivity|]. cbn [filter]. destruct (q h); cbn [filter andb]; [|exact IH].
  destruct (p h); now rewrite IH.
Qed.

Lemma filter_all_true {A} (p : A -> bool) l : (forall x, In x l -> p x = true) -> filter p l = l.
Proof.
  induction l as [|h t IH]; intros H; [reflexivity|]. cbn [filter]. rewrite (H h (or_introl eq_refl)).
  f_equal. apply IH. intros x Hx. apply H. now right.
Qed.

Lemma filter_all_false {A} (p : A -> bool) l : (forall x, In x l -> p x = false) -> filter p l = [].
Proof.
  induction l as [|h t IH]; intros H; [reflexivity|]. cbn [filter]. rewrite (H h (or_introl eq_refl)).
  apply IH. intros x Hx. apply H. now right.
Qed.

Section Group.
  Context {R K : Type}.
  Variable keqb : K -> K -> bool.
  Hypothesis keqb_spec : forall a b, keqb a b = true <-> a = b.
  Variable keyf : R -> K.
  Variable kv : K -> nat -> value.
  Variable argv : R -> nat -> option Z.
  Variable kglobal : K.

  Notation dedup := (dedup keqb).
  Notation members := (members keqb keyf).
  Definition kmem (k : K) (l : list K) : bool := existsb (keqb k) l.

  Lemma keqb_refl a : keqb a a = true. Proof. now apply keqb_spec. Qed.
  Lemma keqb_sym a b : keqb a b = keqb b a.
  Proof.
    destruct (keqb a b) eqn:E, (keqb b a) eqn:F; try reflexivity.
    - apply keqb_spec in E; subst. now rewrite keqb_refl in F.
    - apply keqb_spec in F; subst. now rewrite keqb_refl in E.
  Qed.
  Lemma kmem_In k l : kmem k l = true <-> In k l.
  Proof.
    unfold kmem. rewrite existsb_exists. split.
    - intros (x & Hx & E). apply keqb_spec in E. now subst.
    - intros H. exists k. split; [exact H | apply keqb_refl].
  Qed.

  Lemma dedup_In l x : In x (dedup l) <-> In x l.
  Proof.
    induction l as [|h t IH]; [reflexivity|]. cbn [Model.dedup]. split.
    - intros [->|H]; [now left|]. apply filter_In in H as [H _]. right. now apply IH.
    - intros [->|H]; [now left|]. destruct (keqb h x) eqn:E.
      + apply keqb_spec in E. now left.
      + right. apply filter_In. split; [now apply IH | now rewrite E].
  Qed.
  Lemma dedup_NoDup l : NoDup (dedup l).
  Proof.
    induction l as [|h t IH]; [constructor|]. cbn [Model.dedup]. constructor.
    - intros H. apply filter_In in H as [_ H]. now rewrite keqb_refl in H.
    - clear -IH. induction IH as [|x l Hx Hl IHl]; cbn [filter]; [constructor|].
      destruct (negb (keqb h x)); [|exact IHl]. constructor; [|exact IHl].
      intros H. apply filter_In in H as [H _]. contradiction.
  Qed.
  Lemma dedup_nodup_id l : NoDup l -> dedup l = l.
  Proof.
    induction 1 as [|x l Hx Hl IH]; [reflexivity|]. cbn [Model.dedup]. rewrite IH. f_equal.
    apply filter_all_true. intros y Hy. destruct (keqb x y) eqn:E; [|reflexivity].
    apply keqb_spec in E. subst. contradiction.
  Qed.
  Lemma kmem_dedup k l : kmem k (dedup l) = kmem k l.
  Proof.
    destruct (kmem k l) eqn:E.
    - apply (proj2 (kmem_In k (dedup l))). apply (proj2 (dedup_In l k)). now apply (proj1 (kmem_In k l)).
    - destruct (kmem k (dedup l)) eqn:F; [|reflexivity].
      apply (proj1 (kmem_In k (dedup l))) in F. apply (proj1 (dedup_In l k)) in F.
      apply (proj2 (kmem_In k l)) in F. congruence.
  Qed.

  Lemma dedup_app a b : dedup (a ++ b) = dedup a ++ filter (fun y => negb (kmem y a)) (dedup b).
  Proof.
    induction a as [|x a IH]; cbn [app Model.dedup].
    - symmetry. apply filter_all_true. reflexivity.
    - rewrite IH, filter_app, filter_filter_and. f_equal. f_equal. apply filter_ext. intros y.
      unfold kmem. cbn [existsb]. rewrite (keqb_sym y x). now rewrite negb_orb, andb_comm.
  Qed.

  (* the group list of the merge query depends on a shard's rows only through that shard's own group list *)
  Lemma dedup_app_dedup a b : dedup (dedup a ++ b) = dedup (a ++ b).
  Proof.
    rewrite !dedup_app, (dedup_nodup_id (dedup a)) by apply dedup_NoDup. f_equal.
    apply filter_ext. intros y. now rewrite kmem_dedup.
  Qed.
  Lemma dedup_app_congr a x y : dedup x = dedup y -> dedup (a ++ x) = dedup (a ++ y).
  Proof. intros E. now rewrite !dedup_app, E. Qed.

  Lemma keys_of_shards (shards : list (list R)) :
    dedup (concat (map (fun s => dedup (map keyf s)) shards)) = dedup (map keyf (concat shards)).
  Proof.
    induction shards as [|s t IH]; [reflexivity|]. cbn [map concat].
    rewrite dedup_app_dedup, map_app. now apply dedup_app_congr.
  Qed.

  Lemma filter_keqb_nodup k l : NoDup l -> filter (keqb k) l = if kmem k l then [k] else [].
  Proof.
    induction 1 as [|x l Hx Hl IH]; [reflexivity|]. cbn [filter]. unfold kmem. cbn [existsb]. fold (kmem k l).
    destruct (keqb k x) eqn:E.
    - apply keqb_spec in E. subst x. cbn [orb]. rewrite IH.
      destruct (kmem k l) eqn:F; [apply kmem_In in F; contradiction | reflexivity].
    - cbn [orb]. exact IH.
  Qed.

  Lemma kmem_members k (s : list R) : kmem k (map keyf s) = negb (match members k s with [] => true | _ => false end).
  Proof.
    induction s as [|r s IH]; [reflexivity|]. unfold kmem, Model.members in *. cbn [map existsb filter].
    destruct (keqb k (keyf r)); [reflexivity|]. exact IH.
  Qed.

  Notation pitems_eval := (pitems_eval argv).
  Notation partial_rows := (partial_rows keqb keyf argv kglobal).
  Notation pmembers := (pmembers keqb).

  (* the partial rows of group k coming back from one shard: one row if the shard has the group, none otherwise *)
  Lemma pmembers_shard items k (s : list R) :
    pmembers k (partial_rows true items s)
    = match members k s with [] => [] | ms => [pitems_eval items ms] end.
  Proof.
    unfold Model.pmembers, Model.partial_rows.
    assert (E : forall l, filter (fun pr : K * list value => keqb k (fst pr))
                            (map (fun k' => (k', pitems_eval items (members k' s))) l)
                     = map (fun k' => (k', pitems_eval items (members k' s))) (filter (keqb k) l)).
    { induction l as [|h t IH]; [reflexivity|]. cbn [map filter fst]. destruct (keqb k h); cbn [map]; now rewrite IH. }
    rewrite E, filter_keqb_nodup by apply dedup_NoDup. rewrite kmem_dedup, kmem_members.
    destruct (members k s) as [|r l] eqn:M; cbn [negb map snd]; [reflexivity|]. now rewrite M.
  Qed.

  Definition nonnil {A} (l : list A) : bool := match l with [] => false | _ => true end.

  Lemma pmembers_shards items k (shards : list (list R)) :
    pmembers k (concat (map (partial_rows true items) shards))
    = map (pitems_eval items) (filter nonnil (map (members k) shards)).
  Proof.
    induction shards as [|s t IH]; [reflexivity|]. cbn [map concat].
    unfold Model.pmembers in *. rewrite filter_app, map_app, IH.
    fold (pmembers k (partial_rows true items s)). rewrite pmembers_shard.
    cbn [filter]. destruct (members k s); reflexivity.
  Qed.

  Lemma concat_nonnil {A} (ls : list (list A)) : concat (filter nonnil ls) = concat ls.
  Proof. induction ls as [|[|a l] t IH]; cbn [filter nonnil concat app]; [reflexivity|exact IH|now rewrite IH]. Qed.

  Lemma members_concat k (shards : list (list R)) : concat (map (members k) shards) = members k (concat shards).
  Proof. unfold Model.members. now rewrite filter_concat. Qed.

  Notation aggregate := (aggregate keqb keyf kv argv kglobal).
  Notation final_rows := (final_rows keqb kv kglobal).

  (* grouped statement, over any list of shard row sets (empty ones included) *)
  Lemma grouped_exact es fes items (shards : list (list R)) :
    rewrite_list es [] = Some (fes, items) ->
    final_rows true fes (concat (map (partial_rows true items) shards)) = aggregate true es (concat shards).
  Proof.
    intros RW. unfold Model.final_rows, Model.aggregate.
    assert (KE : map fst (concat (map (partial_rows true items) shards))
                 = concat (map (fun s => dedup (map keyf s)) shards)).
    { rewrite concat_map, map_map. f_equal. apply map_ext. intros s. unfold Model.partial_rows.
      rewrite map_map. cbn [fst]. apply map_id. }
    rewrite KE, keys_of_shards. apply map_ext_in. intros k Hk. f_equal.
    rewrite pmembers_shards.
    destruct (rewrite_list_sound kv argv es [] fes items RW) as (more & _ & S).
    specialize (S [] k (filter nonnil (map (members k) shards))). rewrite app_nil_r in S.
    rewrite S.
    - now rewrite concat_nonnil, members_concat.
    - (* the group occurs in some shard *)
      apply (proj1 (dedup_In _ _)) in Hk. apply (proj2 (kmem_In _ _)) in Hk. rewrite kmem_members in Hk.
      rewrite <- members_concat, <- concat_nonnil in Hk.
      destruct (filter nonnil (map (members k) shards)); [discriminate Hk | discriminate].
  Qed.

  (* statement without GROUP BY, over a non-empty list of shard row sets: every worker returns its identity row *)
  Lemma global_exact es fes items (shards : list (list R)) :
    rewrite_list es [] = Some (fes, items) -> shards <> [] ->
    final_rows false fes (concat (map (partial_rows false items) shards)) = aggregate false es (concat shards).
  Proof.
    intros RW NE. unfold Model.final_rows, Model.aggregate. f_equal. f_equal.
    assert (E : map snd (concat (map (partial_rows false items) shards)) = map (pitems_eval items) shards).
    { clear. induction shards as [|s t IH]; [reflexivity|]. cbn [map concat]. rewrite map_app, IH. reflexivity. }
    rewrite E.
    destruct (rewrite_list_sound kv argv es [] fes items RW) as (more & _ & S).
    specialize (S [] kglobal shards NE). now rewrite app_nil_r in S.
  Qed.

  Lemma nonidle_concat (shards : list (nat * list R)) :
    (forall s, In s shards -> fst s = 0%nat -> snd s = []) ->
    concat (nonidle shards) = concat (map snd shards).
  Proof.
    unfold nonidle. induction shards as [|s t IH]; intros H; [reflexivity|]. cbn [filter map concat].
    destruct (Nat.eqb (fst s) 0) eqn:E; cbn [negb map concat].
    - apply Nat.eqb_eq in E. rewrite (H s (or_introl eq_refl) E). cbn [app]. apply IH.
      intros x Hx. apply H. now right.
    - f_equal. apply IH. intros x Hx. apply H. now right.
  Qed.

  (* THE theorem: nodes without splits are skipped, a node whose shard is empty or misses a group is not, and
     when no node has a split the initiator answers over an empty shard *)
  Theorem two_phase_exact grouped es (shards : list (nat * list R)) :
    (forall s, In s shards -> fst s = 0%nat -> snd s = []) ->
    forall out, two_phase keqb keyf kv argv kglobal grouped es shards = Some out ->
    out = aggregate grouped es (concat (map snd shards)).
  Proof.
    intros Hidle out H. unfold two_phase in H.
    destruct (rewrite_list es []) as [[fes items]|] eqn:RW; [|discriminate]. inversion H; subst; clear H.
    rewrite <- (nonidle_concat shards Hidle). unfold scatter_partials.
    destruct (nonidle shards) as [|a act] eqn:EA.
    - (* no active node: the partial query over an empty shard *)
      destruct grouped.
      + reflexivity.
      + change (partial_rows false items []) with (concat (map (partial_rows false items) [[]])).
        rewrite (global_exact es fes items [[]] RW) by discriminate. reflexivity.
    - destruct grouped.
      + now apply grouped_exact.
      + apply global_exact; [exact RW | discriminate].
  Qed.

  (* a shape with no exact partial/final split is not scattered at all *)
  Theorem two_phase_refuses grouped es (shards : list (nat * list R)) :
    two_phase keqb keyf kv argv kglobal grouped es shards = None <-> existsb unsplittable es = true.
  Proof.
    unfold two_phase. rewrite <- (rewrite_list_none_iff es []).
    destruct (rewrite_list es []) as [[fes items]|]; split; congruence.
  Qed.
End Group.

(* the hypotheses are satisfiable and the statement is not vacuous: keys are nullable integers, three nodes
   (one idle, one whose shard misses a group, one holding an all-NULL group) *)
Definition ex_keqb (a b : option Z) : bool :=
  match a, b with Some x, Some y => x =? y | None, None => true | _, _ => false end.
Lemma ex_keqb_spec a b : ex_keqb a b = true <-> a = b.
Proof.
  destruct a as [x|], b as [y|]; cbn; split; intros H; try congruence; try discriminate.
  - apply Z.eqb_eq in H. now subst.
  - inversion H; subst. apply Z.eqb_refl.
Qed.
Example two_phase_example :
  let rows1 := [(Some 1, Some 5); (None, None); (Some 1, None)] in
  let rows2 := [(None, None); (Some 2, Some 7)] in
  let es := [AKey 0; AAgg ACountStar 0; AAgg ACount 0; AAgg ASum 0; AAgg AAvg 0; AAgg AMin 0; AAgg AMax 0] in
  two_phase ex_keqb fst (fun k _ => oinj k) (fun r _ => snd r) None true es [(2%nat, rows1); (0%nat, []); (1%nat, rows2)]
  = Some (aggregate ex_keqb fst (fun k _ => oinj k) (fun r _ => snd r) None true es (rows1 ++ rows2)).
Proof. vm_compute. reflexivity. Qed.

(* the recorded deviation `shard-ndv-unique`, on the model: a 3-row shard of a 24-row table whose key k is NULL-free
   with values 0..2 (ndv_est = min(24, 3) = 3 >= 3 shard rows) makes k look unique; the worker then computes
   GROUP BY k where the statement says GROUP BY k, d, and two groups of the shard collapse into one. *)
Definition pair_eqb (a b : Z * Z) : bool := (fst a =? fst b) && (snd a =? snd b).
Example shard_ndv_refuted :
  let shard : list (Z * Z) := [(0, 0); (0, 3); (1, 2)] in
  known_shard_ndv [mkKeyStat true 0 24 0 2; mkKeyStat true 0 24 0 3] [3] = true
  /\ length (aggregate pair_eqb (fun r => r) (fun k _ => VInt (fst k)) (fun _ _ => None) (0, 0) true [AAgg ACountStar 0] shard) = 3%nat
  /\ length (aggregate Z.eqb fst (fun k _ => VInt k) (fun _ _ => None) 0 true [AAgg ACountStar 0] shard) = 2%nat.
Proof. vm_compute. repeat split; reflexivity. Qed.
