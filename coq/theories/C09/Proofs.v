(* C09 proofs: the partial/final rewriting is exact for every split of the rows into shards (C21's merge
   algebra), top-N pre-truncation is exact up to ties, the alias-closure scanner, and the zero / single /
   all-empty participant cases of the Concat merge. *)
From Coq Require Import Sorting.Sorted.
From QV Require Import Sql.Query C21.Proofs C09.Model.

(* ================= A. one aggregate, merged with SQL SUM / MIN / MAX ================= *)

Lemma oinj_is_inj l : map oinj l = map inj l.
Proof. reflexivity. Qed.

Definition osum (zs : list Z) : option Z := match zs with [] => None | _ => Some (zsum zs) end.

(* what a worker's partial item evaluates to *)
Definition pval (p : pfn) (l : list (option Z)) : value := agg_apply (pfn_agg p) (map oinj l) (length l).

Lemma pval_countstar l : pval PCountStar l = oinj (Some (Z.of_nat (length l))).
Proof. reflexivity. Qed.
Lemma pval_count l : pval PCount l = oinj (Some (Z.of_nat (length (somes l)))).
Proof. unfold pval. cbn [pfn_agg]. rewrite oinj_is_inj, <- finish_partial. reflexivity. Qed.
Lemma pval_sum l : pval PSum l = oinj (osum (somes l)).
Proof.
  unfold pval. cbn [pfn_agg]. rewrite oinj_is_inj, <- finish_partial. unfold finish, partial; cbn [p_cnt p_sum].
  now destruct (somes l).
Qed.
Lemma pval_min l : pval PMin l = oinj (lbest Z.min (somes l)).
Proof. unfold pval. cbn [pfn_agg]. rewrite oinj_is_inj, <- finish_partial. reflexivity. Qed.
Lemma pval_max l : pval PMax l = oinj (lbest Z.max (somes l)).
Proof. unfold pval. cbn [pfn_agg]. rewrite oinj_is_inj, <- finish_partial. reflexivity. Qed.

(* the merge query's SUM / MIN / MAX over a column of partial values *)
Lemma sum_of_oinj os n : agg_apply ASum (map oinj os) n = oinj (osum (somes os)).
Proof.
  unfold agg_apply. rewrite oinj_is_inj, non_null_inj, sum_values_ints. now destruct (somes os).
Qed.
Lemma min_of_oinj os n : agg_apply AMin (map oinj os) n = oinj (lbest Z.min (somes os)).
Proof. unfold agg_apply. rewrite oinj_is_inj, non_null_inj, (best_value_ints Lt) by now left. reflexivity. Qed.
Lemma max_of_oinj os n : agg_apply AMax (map oinj os) n = oinj (lbest Z.max (somes os)).
Proof. unfold agg_apply. rewrite oinj_is_inj, non_null_inj, (best_value_ints Gt) by now right. reflexivity. Qed.

Lemma zsum_somes_osum (zss : list (list Z)) : zsum (somes (map osum zss)) = zsum (concat zss).
Proof.
  induction zss as [|zs t IH]; [reflexivity|]. cbn [map concat]. rewrite zsum_app, <- IH.
  destruct zs as [|z zs]; [reflexivity|]. cbn [osum somes]. now rewrite zsum_cons.
Qed.
Lemma osum_merge (zss : list (list Z)) : osum (somes (map osum zss)) = osum (concat zss).
Proof.
  induction zss as [|zs t IH]; [reflexivity|]. cbn [map concat].
  destruct zs as [|z zs]; [exact IH|].
  cbn [osum somes app]. f_equal. rewrite !zsum_cons, zsum_app, zsum_somes_osum. lia.
Qed.
Lemma lbest_merge f (Hf : forall x y z, f x (f y z) = f (f x y) z) (zss : list (list Z)) :
  lbest f (somes (map (lbest f) zss)) = lbest f (concat zss).
Proof.
  induction zss as [|zs t IH]; [reflexivity|]. cbn [map concat]. rewrite (lbest_app f Hf), <- IH.
  destruct (lbest f zs) as [z|]; cbn [somes lbest]; [reflexivity|]. now destruct (lbest f (somes (map (lbest f) t))).
Qed.
Lemma somes_concat (parts : list (list (option Z))) : somes (concat parts) = concat (map somes parts).
Proof. induction parts as [|p t IH]; [reflexivity|]. cbn [concat map]. now rewrite somes_app, IH. Qed.
Lemma zsum_lengths {A} (parts : list (list A)) :
  zsum (map (fun p => Z.of_nat (length p)) parts) = Z.of_nat (length (concat parts)).
Proof.
  induction parts as [|p t IH]; [reflexivity|]. cbn [map concat]. rewrite zsum_cons, IH, app_length. lia.
Qed.

Section MergeExact.
  Variable parts : list (list (option Z)).
  Hypothesis some_part : parts <> [].
  Let whole := concat parts.

  Lemma merge_countstar n :
    agg_apply ASum (map (pval PCountStar) parts) n = agg_apply ACountStar (map oinj whole) (length whole).
  Proof.
    rewrite (map_ext _ (fun l => oinj (Some (Z.of_nat (length l))))) by apply pval_countstar.
    rewrite <- (map_map (fun l => Some (Z.of_nat (length l))) oinj), sum_of_oinj.
    assert (E : somes (map (fun l : list (option Z) => Some (Z.of_nat (length l))) parts)
                = map (fun l => Z.of_nat (length l)) parts).
    { clear. induction parts as [|p t IH]; [reflexivity|]. cbn [map somes]. now rewrite IH. }
    rewrite E. destruct parts as [|p t]; [congruence|].
    change (osum (map (fun l => Z.of_nat (length l)) (p :: t)))
      with (Some (zsum (map (fun l : list (option Z) => Z.of_nat (length l)) (p :: t)))).
    rewrite zsum_lengths. reflexivity.
  Qed.

  Lemma merge_count n :
    agg_apply ASum (map (pval PCount) parts) n = agg_apply ACount (map oinj whole) (length whole).
  Proof.
    rewrite (map_ext _ (fun l => oinj (Some (Z.of_nat (length (somes l)))))) by apply pval_count.
    rewrite <- (map_map (fun l => Some (Z.of_nat (length (somes l)))) oinj), sum_of_oinj.
    assert (E : somes (map (fun l : list (option Z) => Some (Z.of_nat (length (somes l)))) parts)
                = map (fun l => Z.of_nat (length l)) (map somes parts)).
    { clear. induction parts as [|p t IH]; [reflexivity|]. cbn [map somes]. now rewrite IH. }
    rewrite E. destruct parts as [|p t] eqn:Ep; [congruence|].
    change (osum (map (fun l => Z.of_nat (length l)) (map somes (p :: t))))
      with (Some (zsum (map (fun l : list Z => Z.of_nat (length l)) (map somes (p :: t))))).
    rewrite zsum_lengths, <- somes_concat. subst whole.
    unfold agg_apply. rewrite oinj_is_inj, non_null_inj, map_length. reflexivity.
  Qed.

  Lemma merge_sum n :
    agg_apply ASum (map (pval PSum) parts) n = agg_apply ASum (map oinj whole) (length whole).
  Proof.
    rewrite (map_ext _ (fun l => oinj (osum (somes l)))) by apply pval_sum.
    rewrite <- (map_map (fun l => osum (somes l)) oinj), !sum_of_oinj. f_equal.
    rewrite <- (map_map somes osum), osum_merge. subst whole. now rewrite somes_concat.
  Qed.

  Lemma merge_min n :
    agg_apply AMin (map (pval PMin) parts) n = agg_apply AMin (map oinj whole) (length whole).
  Proof.
    rewrite (map_ext _ (fun l => oinj (lbest Z.min (somes l)))) by apply pval_min.
    rewrite <- (map_map (fun l => lbest Z.min (somes l)) oinj), !min_of_oinj. f_equal.
    rewrite <- (map_map somes (lbest Z.min)), (lbest_merge Z.min Z.min_assoc). subst whole. now rewrite somes_concat.
  Qed.

  Lemma merge_max n :
    agg_apply AMax (map (pval PMax) parts) n = agg_apply AMax (map oinj whole) (length whole).
  Proof.
    rewrite (map_ext _ (fun l => oinj (lbest Z.max (somes l)))) by apply pval_max.
    rewrite <- (map_map (fun l => lbest Z.max (somes l)) oinj), !max_of_oinj. f_equal.
    rewrite <- (map_map somes (lbest Z.max)), (lbest_merge Z.max Z.max_assoc). subst whole. now rewrite somes_concat.
  Qed.

  (* AVG travels as (sum, count) and is divided once, after the casts; the all-NULL group is NULL / 0.0 = NULL *)
  Lemma merge_avg n m :
    div_dbl (cast_dbl (agg_apply ASum (map (pval PSum) parts) n)) (cast_dbl (agg_apply ASum (map (pval PCount) parts) m))
    = agg_apply AAvg (map oinj whole) (length whole).
  Proof.
    rewrite merge_sum, merge_count. unfold agg_apply. rewrite oinj_is_inj, non_null_inj, map_length.
    rewrite sum_values_ints, avg_values_ints.
    destruct (somes whole) as [|z zs] eqn:E; [reflexivity|].
    cbn [cast_dbl div_dbl].
    assert (N : Qeq_bool (inject_Z (Z.of_nat (length (z :: zs)))) 0 = false).
    { destruct (Qeq_bool (inject_Z (Z.of_nat (length (z :: zs)))) 0) eqn:T; [|reflexivity].
      apply Qeq_bool_eq in T. unfold Qeq, inject_Z in T. cbn [Qnum Qden length] in T. lia. }
    now rewrite N.
  Qed.
End MergeExact.

Lemma nth_map_middle {A B} (g : A -> B) (l : list A) a (l' : list B) d : nth (length l) (map g l ++ a :: l') d = a.
Proof. rewrite <- (map_length g l). apply nth_middle. Qed.

(* ================= B. the Rewriter: feval (rewrite e) over the partials = aeval e over the union ================= *)

Section Rewrite.
  Context {R K : Type}.
  Variable kv : K -> nat -> value.
  Variable argv : R -> nat -> option Z.

  Notation aeval := (aeval kv argv).
  Notation feval := (feval kv).
  Notation pitems_eval := (pitems_eval argv).

  Lemma argvals_map a (ms : list R) : argvals argv a ms = map oinj (map (fun r => argv r a) ms).
  Proof. unfold argvals. now rewrite map_map. Qed.

  Lemma pitem_at items x more (ms : list R) :
    nth (length items) (pitems_eval (items ++ x :: more) ms) VNull
    = pval (fst x) (map (fun r => argv r (snd x)) ms).
  Proof.
    unfold Model.pitems_eval. rewrite map_app. cbn [map].
    rewrite nth_map_middle. unfold pval. now rewrite argvals_map, map_length.
  Qed.

  Lemma pcol_at items x more (parts : list (list R)) :
    pcol (length items) (map (pitems_eval (items ++ x :: more)) parts)
    = map (pval (fst x)) (map (fun ms => map (fun r => argv r (snd x)) ms) parts).
  Proof. unfold pcol. rewrite !map_map. apply map_ext. intros ms. apply pitem_at. Qed.

  Lemma concat_argvals a (parts : list (list R)) :
    map oinj (concat (map (fun ms => map (fun r => argv r a) ms) parts)) = argvals argv a (concat parts).
  Proof. rewrite argvals_map. f_equal. now rewrite concat_map. Qed.

  Lemma concat_len a (parts : list (list R)) :
    length (concat (map (fun ms => map (fun r : R => argv r a) ms) parts)) = length (concat parts).
  Proof. rewrite <- concat_map. apply map_length. Qed.

  Lemma parts_ne {A B} (f : A -> B) (l : list A) : l <> [] -> map f l <> [].
  Proof. destruct l; [congruence | discriminate]. Qed.

  (* extension-stable soundness: the merge expression reads only the items it created *)
  Lemma rewrite_sound e : forall items e' items',
    rewrite e items = Some (e', items') ->
    exists more, items' = items ++ more /\
      forall ext k (parts : list (list R)), parts <> [] ->
        feval k (map (pitems_eval (items' ++ ext)) parts) e' = aeval k (concat parts) e.
  Proof.
    induction e as [i|v|c|f a|u a IH|b x IHx y IHy|t x IHx y IHy z IHz]; intros items e' items' H; cbn [rewrite] in H.
    - inversion H; subst. exists []. split; [now rewrite app_nil_r|]. reflexivity.
    - inversion H; subst. exists []. split; [now rewrite app_nil_r|]. reflexivity.
    - discriminate.
    - destruct f; try discriminate; inversion H; subst; clear H.
      + exists [(PCountStar, a)]. split; [reflexivity|]. intros ext k parts Hne. cbn [Model.feval Model.aeval].
        rewrite <- app_assoc. cbn [app]. rewrite pcol_at. cbn [fst snd].
        rewrite (merge_countstar _ (parts_ne _ parts Hne)), concat_argvals, concat_len. reflexivity.
      + exists [(PCount, a)]. split; [reflexivity|]. intros ext k parts Hne. cbn [Model.feval Model.aeval].
        rewrite <- app_assoc. cbn [app]. rewrite pcol_at. cbn [fst snd].
        rewrite (merge_count _ (parts_ne _ parts Hne)), concat_argvals, concat_len. reflexivity.
      + exists [(PSum, a)]. split; [reflexivity|]. intros ext k parts Hne. cbn [Model.feval Model.aeval].
        rewrite <- app_assoc. cbn [app]. rewrite pcol_at. cbn [fst snd].
        rewrite (merge_sum _ ), concat_argvals, concat_len. reflexivity.
      + exists [(PSum, a); (PCount, a)]. split; [reflexivity|]. intros ext k parts Hne. cbn [Model.feval Model.aeval].
        rewrite <- app_assoc. cbn [app].
        pose proof (pcol_at items (PSum, a) ((PCount, a) :: ext) parts) as P1.
        pose proof (pcol_at (items ++ [(PSum, a)]) (PCount, a) ext parts) as P2.
        rewrite <- app_assoc in P2. cbn [app] in P2. rewrite app_length in P2. cbn [length] in P2.
        rewrite Nat.add_1_r in P2. rewrite P1, P2. cbn [fst snd].
        rewrite (merge_avg _ (parts_ne _ parts Hne)), concat_argvals, concat_len. reflexivity.
      + exists [(PMin, a)]. split; [reflexivity|]. intros ext k parts Hne. cbn [Model.feval Model.aeval].
        rewrite <- app_assoc. cbn [app]. rewrite pcol_at. cbn [fst snd].
        rewrite (merge_min _), concat_argvals, concat_len. reflexivity.
      + exists [(PMax, a)]. split; [reflexivity|]. intros ext k parts Hne. cbn [Model.feval Model.aeval].
        rewrite <- app_assoc. cbn [app]. rewrite pcol_at. cbn [fst snd].
        rewrite (merge_max _), concat_argvals, concat_len. reflexivity.
    - destruct (rewrite a items) as [[a' i1]|] eqn:E; [|discriminate]. inversion H; subst.
      destruct (IH _ _ _ E) as (more & -> & S). exists more. split; [reflexivity|].
      intros ext k parts Hne. cbn [Model.feval Model.aeval]. now rewrite S.
    - destruct (rewrite x items) as [[x' i1]|] eqn:Ex; [|discriminate].
      destruct (rewrite y i1) as [[y' i2]|] eqn:Ey; [|discriminate]. inversion H; subst.
      destruct (IHx _ _ _ Ex) as (m1 & -> & Sx). destruct (IHy _ _ _ Ey) as (m2 & -> & Sy).
      exists (m1 ++ m2). split; [now rewrite app_assoc|].
      intros ext k parts Hne. cbn [Model.feval Model.aeval]. rewrite Sy by assumption.
      rewrite <- (app_assoc (items ++ m1) m2 ext). now rewrite Sx.
    - destruct (rewrite x items) as [[x' i1]|] eqn:Ex; [|discriminate].
      destruct (rewrite y i1) as [[y' i2]|] eqn:Ey; [|discriminate].
      destruct (rewrite z i2) as [[z' i3]|] eqn:Ez; [|discriminate]. inversion H; subst.
      destruct (IHx _ _ _ Ex) as (m1 & -> & Sx). destruct (IHy _ _ _ Ey) as (m2 & -> & Sy).
      destruct (IHz _ _ _ Ez) as (m3 & -> & Sz).
      exists (m1 ++ m2 ++ m3). split; [now rewrite !app_assoc|].
      intros ext k parts Hne. cbn [Model.feval Model.aeval]. rewrite Sz by assumption.
      rewrite <- (app_assoc ((items ++ m1) ++ m2) m3 ext). rewrite Sy by assumption.
      rewrite <- (app_assoc (items ++ m1) m2 (m3 ++ ext)). now rewrite Sx.
  Qed.

  Lemma rewrite_list_sound es : forall items fes items',
    rewrite_list es items = Some (fes, items') ->
    exists more, items' = items ++ more /\
      forall ext k (parts : list (list R)), parts <> [] ->
        map (feval k (map (pitems_eval (items' ++ ext)) parts)) fes = map (aeval k (concat parts)) es.
  Proof.
    induction es as [|e t IH]; intros items fes items' H; cbn [rewrite_list] in H.
    - inversion H; subst. exists []. split; [now rewrite app_nil_r|]. reflexivity.
    - destruct (rewrite e items) as [[e' i1]|] eqn:E; [|discriminate].
      destruct (rewrite_list t i1) as [[t' i2]|] eqn:Et; [|discriminate]. inversion H; subst.
      destruct (rewrite_sound _ _ _ _ E) as (m1 & -> & S1). destruct (IH _ _ _ Et) as (m2 & -> & S2).
      exists (m1 ++ m2). split; [now rewrite app_assoc|].
      intros ext k parts Hne. cbn [map]. rewrite S2 by assumption. f_equal.
      rewrite <- (app_assoc (items ++ m1) m2 ext). now apply S1.
  Qed.

  (* a shape with no exact split is refused by the rewriter, exactly *)
  Lemma rewrite_refuses e : unsplittable e = true -> forall items, rewrite e items = None.
  Proof.
    induction e as [i|v|c|f a|u a IH|b x IHx y IHy|t x IHx y IHy z IHz]; cbn [rewrite unsplittable]; intros U items;
      try discriminate; try reflexivity.
    - destruct f; try discriminate; reflexivity.
    - now rewrite (IH U items).
    - destruct (unsplittable x) eqn:Ux; [now rewrite (IHx eq_refl items)|]. cbn [orb] in U.
      destruct (rewrite x items) as [[x' i1]|]; [|reflexivity]. now rewrite (IHy U i1).
    - destruct (unsplittable x) eqn:Ux; [now rewrite (IHx eq_refl items)|]. cbn [orb] in U.
      destruct (rewrite x items) as [[x' i1]|]; [|reflexivity].
      destruct (unsplittable y) eqn:Uy; [now rewrite (IHy eq_refl i1)|]. cbn [orb] in U.
      destruct (rewrite y i1) as [[y' i2]|]; [|reflexivity]. now rewrite (IHz U i2).
  Qed.

  Lemma rewrite_accepts e : unsplittable e = false -> forall items, rewrite e items <> None.
  Proof.
    induction e as [i|v|c|f a|u a IH|b x IHx y IHy|t x IHx y IHy z IHz]; cbn [rewrite unsplittable]; intros U items;
      try discriminate.
    - destruct f; discriminate.
    - specialize (IH U items). destruct (rewrite a items) as [[a' i1]|]; [discriminate|congruence].
    - apply orb_false_iff in U as [Ux Uy]. specialize (IHx Ux items).
      destruct (rewrite x items) as [[x' i1]|]; [|congruence]. specialize (IHy Uy i1).
      destruct (rewrite y i1) as [[y' i2]|]; [discriminate|congruence].
    - apply orb_false_iff in U as [U Uz]. apply orb_false_iff in U as [Ux Uy]. specialize (IHx Ux items).
      destruct (rewrite x items) as [[x' i1]|]; [|congruence]. specialize (IHy Uy i1).
      destruct (rewrite y i1) as [[y' i2]|]; [|congruence]. specialize (IHz Uz i2).
      destruct (rewrite z i2) as [[z' i3]|]; [discriminate|congruence].
  Qed.

  Lemma rewrite_none_iff e items : rewrite e items = None <-> unsplittable e = true.
  Proof.
    split; [|intros U; now apply rewrite_refuses].
    intros H. destruct (unsplittable e) eqn:U; [reflexivity|]. exfalso. now apply (rewrite_accepts e U items).
  Qed.

  Lemma rewrite_list_none_iff es : forall items, rewrite_list es items = None <-> existsb unsplittable es = true.
  Proof.
    induction es as [|e t IH]; intros items; cbn [rewrite_list existsb]; [split; discriminate|].
    destruct (rewrite e items) as [[e' i1]|] eqn:E.
    - assert (U : unsplittable e = false).
      { destruct (unsplittable e) eqn:U; [|reflexivity]. rewrite (rewrite_refuses e U items) in E. discriminate. }
      rewrite U. cbn [orb]. destruct (rewrite_list t i1) as [[t' i2]|] eqn:Et.
      + split; [discriminate|]. intros X. apply (proj2 (IH i1)) in X. congruence.
      + split; [intros _; now apply (proj1 (IH i1))|reflexivity].
    - apply rewrite_none_iff in E. rewrite E. split; reflexivity.
  Qed.
End Rewrite.
