(* C38 proofs.  Part A (Z): chunked/lane accumulation = plain sum for every length and lane width;
   Part B: dimension mismatch => Err, NULL row => NULL, slicing/offset index lemmas;
   Part C (R): the code's value in terms of sqrt, cosine_distance = 1 - cosine_similarity, and the
   meaning of the squared comparisons used by the executable spec.  Float rounding is NOT bounded. *)
From QV Require Import Base.Util C38.Model.
From Coq Require Import Reals Lra.

(* ---------------- Part A ---------------- *)
Lemma zip_firstn {A B} : forall n (a : list A) (b : list B), zip (firstn n a) (firstn n b) = firstn n (zip a b).
Proof.
  induction n as [|n IH]; intros [|x a] [|y b]; cbn [firstn zip]; try reflexivity.
  f_equal. apply IH.
Qed.
Lemma zip_skipn {A B} : forall n (a : list A) (b : list B), zip (skipn n a) (skipn n b) = skipn n (zip a b).
Proof.
  induction n as [|n IH]; intros a b; [reflexivity|].
  destruct a as [|x a], b as [|y b]; cbn [skipn zip]; try reflexivity.
  - destruct (skipn n a); reflexivity.
  - apply IH.
Qed.
Lemma zip_length {A B} : forall (a : list A) (b : list B), length a = length b -> length (zip a b) = length a.
Proof.
  induction a as [|x a IH]; intros [|y b] H; cbn [length zip] in *; try lia. f_equal. apply IH. lia.
Qed.
Lemma map2_split f n a b :
  map2 f a b = map2 f (firstn n a) (firstn n b) ++ map2 f (skipn n a) (skipn n b).
Proof.
  unfold map2. rewrite zip_firstn, zip_skipn, <- map_app, firstn_skipn. reflexivity.
Qed.

Lemma madd_spec f : forall acc xs ys, length xs = length acc -> length ys = length acc ->
  length (madd f acc xs ys) = length acc /\ zsum (madd f acc xs ys) = zsum acc + zsum (map2 f xs ys).
Proof.
  induction acc as [|a acc IH]; intros [|x xs] [|y ys] Hx Hy; cbn [length] in *; try lia.
  - split; reflexivity.
  - cbn [madd]. destruct (IH xs ys) as [L S]; try lia. split; [cbn [length]; lia|].
    unfold map2 in *. cbn [zip map fst snd]. rewrite !zsum_cons, S. lia.
Qed.

Lemma fold_add_zsum : forall l s, fold_left Z.add l s = s + zsum l.
Proof. induction l as [|x l IH]; intros s; cbn [fold_left]; [cbn; lia|]. rewrite IH, zsum_cons. lia. Qed.
Lemma fold_rem f : forall (ps : list (Z * Z)) s,
  fold_left (fun s p => s + f (fst p) (snd p)) ps s = s + zsum (map (fun p => f (fst p) (snd p)) ps).
Proof.
  induction ps as [|p ps IH]; intros s; cbn [fold_left map]; [cbn; lia|]. rewrite IH, zsum_cons. lia.
Qed.

Lemma firstn_add {A} : forall n m (l : list A), firstn (n + m) l = firstn n l ++ firstn m (skipn n l).
Proof.
  induction n as [|n IH]; intros m l; [reflexivity|].
  destruct l as [|x l]; cbn [Nat.add firstn skipn app]; [now rewrite firstn_nil|]. f_equal. apply IH.
Qed.

Lemma firstn_first_chunk {A} w m (l : list A) : firstn w (firstn (w + m) l) = firstn w l.
Proof. rewrite firstn_firstn. f_equal. lia. Qed.
Lemma skipn_first_chunk {A} w m (l : list A) : skipn w (firstn (w + m) l) = firstn m (skipn w l).
Proof. rewrite skipn_firstn_comm. f_equal. lia. Qed.

Lemma lane_loop f w : forall q acc a b,
  length acc = w -> (q * w <= length a)%nat -> (q * w <= length b)%nat ->
  let acc' := fold_left (fun acc p => madd f acc (fst p) (snd p))
                        (zip (take_chunks w q a) (take_chunks w q b)) acc in
  length acc' = w /\ zsum acc' = zsum acc + zsum (map2 f (firstn (q * w) a) (firstn (q * w) b)).
Proof.
  induction q as [|q IH]; intros acc a b La Ha Hb; cbn zeta.
  - cbn [take_chunks zip fold_left Nat.mul firstn]. split; [exact La |].
    unfold map2. cbn [zip map]. change (zsum []) with 0. lia.
  - cbn [take_chunks zip fold_left fst snd]. cbn [Nat.mul] in Ha, Hb.
    assert (Lx : length (firstn w a) = w) by (apply firstn_length_le; lia).
    assert (Ly : length (firstn w b) = w) by (apply firstn_length_le; lia).
    destruct (madd_spec f acc (firstn w a) (firstn w b)) as [L1 S1]; try lia.
    specialize (IH (madd f acc (firstn w a) (firstn w b)) (skipn w a) (skipn w b)).
    cbn zeta in IH. destruct IH as [L2 S2]; try lia; try (rewrite skipn_length; lia).
    split; [exact L2|]. rewrite S2, S1.
    cbn [Nat.mul]. rewrite (map2_split f w (firstn (w + q * w) a) (firstn (w + q * w) b)).
    rewrite !firstn_first_chunk, !skipn_first_chunk, zsum_app. lia.
Qed.

Theorem chunked_sum_plain : forall f w a b, (1 <= w)%nat -> length a = length b ->
  chunked_sum f w a b = plain_sum f a b.
Proof.
  intros f w a b Hw Hl. unfold chunked_sum, plain_sum, chunks_exact, remainder. rewrite <- Hl.
  set (q := (length a / w)%nat).
  assert (Hq : (q * w <= length a)%nat) by (unfold q; rewrite Nat.mul_comm; apply Nat.mul_div_le; lia).
  destruct (lane_loop f w q (repeat 0 w) a b) as [L S]; [apply repeat_length | lia | lia |].
  cbn zeta in L, S. rewrite fold_rem, fold_add_zsum, S.
  assert (zsum (repeat 0 w) = 0) as ->.
  { clear. induction w as [|w IH]; [reflexivity|]. cbn [repeat]. rewrite zsum_cons, IH. reflexivity. }
  rewrite (Nat.mul_comm w q). rewrite (map2_split f (q * w) a b), zsum_app. unfold map2. lia.
Qed.

Corollary dot_code_plain : forall w a b, (1 <= w)%nat -> length a = length b ->
  dot_code w a b = zsum (map2 (fun x y => x * y) a b).
Proof. intros. unfold dot_code. now rewrite chunked_sum_plain. Qed.
Corollary l2sq_code_plain : forall w a b, (1 <= w)%nat -> length a = length b ->
  l2sq_code w a b = zsum (map2 (fun x y => (x - y) * (x - y)) a b).
Proof. intros. unfold l2sq_code. now rewrite chunked_sum_plain. Qed.

Theorem row_exact_plain : forall w a b, (1 <= w)%nat -> length a = length b ->
  row_exact w a b = mkExact (plain_sum fmul a b) (plain_sum fsqd a b) (plain_sum fmul a a) (plain_sum fmul b b)
                            (zsum (map2 (fun x y => Z.abs (x * y)) a b)).
Proof.
  intros w a b Hw Hl. unfold row_exact, dot_code, l2sq_code. now rewrite !chunked_sum_plain.
Qed.

Lemma plain_nonneg_sq a : 0 <= plain_sum fmul a a.
Proof.
  unfold plain_sum, map2. apply zsum_nonneg. intros x Hx. apply in_map_iff in Hx as (p & <- & Hp).
  assert (fst p = snd p) as ->.
  { revert p Hp. induction a as [|y a IH]; intros p Hp; cbn [zip] in Hp; [contradiction|].
    destruct Hp as [<-|Hp]; [reflexivity | now apply IH]. }
  unfold fmul. nia.
Qed.
Lemma plain_nonneg_l2 a b : 0 <= plain_sum fsqd a b.
Proof.
  unfold plain_sum, map2. apply zsum_nonneg. intros x Hx. apply in_map_iff in Hx as (p & <- & Hp).
  unfold fsqd. apply Z.square_nonneg.
Qed.

(* ---------------- Part B ---------------- *)
Lemma map_seq_nth {A} (g : nat -> A) n i d : (i < n)%nat -> nth i (map g (seq 0 n)) d = g i.
Proof.
  intros H. rewrite (nth_indep _ d (g O)) by (rewrite map_length, seq_length; exact H).
  rewrite map_nth, seq_nth by exact H. reflexivity.
Qed.

Theorem distance_column_dim_mismatch : forall w col query,
  f_dim col <> length query -> distance_column w col query = None.
Proof.
  intros w col query H. unfold distance_column. apply Nat.eqb_neq in H. now rewrite H.
Qed.
Theorem distance_columns_dim_mismatch : forall w l r,
  f_dim l <> f_dim r -> distance_columns w l r = None.
Proof.
  intros w l r H. unfold distance_columns. apply Nat.eqb_neq in H. now rewrite H.
Qed.

Theorem distance_column_rows : forall w col query res,
  distance_column w col query = Some res ->
  f_dim col = length query /\ length res = nrows col /\
  forall i, (i < nrows col)%nat ->
    nth i res None = if nth i (f_valid col) false then Some (row_exact w (row col i) query) else None.
Proof.
  intros w col query res H. unfold distance_column in H.
  destruct (f_dim col =? length query)%nat eqn:D; cbn [negb] in H; [|discriminate].
  destruct (length (f_vals col) <? nrows col * f_dim col)%nat; [discriminate|]. inversion H; subst res; clear H.
  apply Nat.eqb_eq in D. split; [exact D|]. split; [now rewrite map_length, seq_length|].
  intros i Hi. now rewrite map_seq_nth.
Qed.

Corollary distance_column_null : forall w col query res i,
  distance_column w col query = Some res -> (i < nrows col)%nat ->
  nth i (f_valid col) false = false -> nth i res (Some (mkExact 0 0 0 0 0)) = None.
Proof.
  intros w col query res i H Hi V. destruct (distance_column_rows _ _ _ _ H) as (_ & L & R).
  rewrite (nth_indep _ _ None) by lia. rewrite R by exact Hi. now rewrite V.
Qed.

Theorem distance_columns_rows : forall w l r res,
  distance_columns w l r = Some res ->
  f_dim l = f_dim r /\ length res = Nat.min (nrows l) (nrows r) /\
  forall i, (i < Nat.min (nrows l) (nrows r))%nat ->
    nth i res None = if nth i (f_valid l) false && nth i (f_valid r) false
                     then Some (row_exact w (row l i) (row r i)) else None.
Proof.
  intros w l r res H. unfold distance_columns in H.
  destruct (f_dim l =? f_dim r)%nat eqn:D; cbn [negb] in H; [|discriminate]. inversion H; subst res; clear H.
  apply Nat.eqb_eq in D. split; [exact D|]. split; [now rewrite map_length, seq_length|].
  intros i Hi. now rewrite map_seq_nth.
Qed.

(* slicing: row i of a slice is row off+i of the parent, i.e. child elements [(off+i)*d, (off+i+1)*d) *)
Lemma firstn_skipn_firstn {A} (l : list A) d k m : (k + d <= m)%nat ->
  firstn d (skipn k (firstn m l)) = firstn d (skipn k l).
Proof.
  intros H. rewrite skipn_firstn_comm, firstn_firstn. f_equal. lia.
Qed.
Lemma skipn_skipn' {A} : forall y x (l : list A), skipn x (skipn y l) = skipn (y + x) l.
Proof.
  induction y as [|y IH]; intros x l; [reflexivity|].
  destruct l as [|h l]; cbn [skipn Nat.add]; [apply skipn_nil | apply IH].
Qed.
Theorem slice_row : forall off n a i, (i < n)%nat -> row (fsl_slice off n a) i = row a (off + i).
Proof.
  intros off n a i H. unfold row, fsl_slice. cbn [f_dim f_vals].
  rewrite firstn_skipn_firstn by nia. rewrite skipn_skipn'. f_equal. f_equal. lia.
Qed.
Lemma nth_firstn_lt {A} : forall (l : list A) i n d, (i < n)%nat -> nth i (firstn n l) d = nth i l d.
Proof.
  induction l as [|x l IH]; intros [|i] [|n] d H; cbn [firstn nth]; try lia; try reflexivity.
  apply IH. lia.
Qed.
Lemma nth_skipn_add {A} : forall (l : list A) off i d, nth i (skipn off l) d = nth (off + i) l d.
Proof.
  induction l as [|x l IH]; intros [|off] i d; cbn [skipn Nat.add nth]; try reflexivity.
  - destruct i; reflexivity.
  - apply IH.
Qed.
Theorem slice_valid : forall off n a i, (i < n)%nat ->
  nth i (f_valid (fsl_slice off n a)) false = nth (off + i) (f_valid a) false.
Proof.
  intros off n a i H. unfold fsl_slice. cbn [f_valid]. rewrite nth_firstn_lt by exact H. apply nth_skipn_add.
Qed.
Theorem row_elements : forall a j k, (k < f_dim a)%nat ->
  nth k (row a j) 0 = nth (j * f_dim a + k) (f_vals a) 0.
Proof.
  intros a j k H. unfold row. rewrite nth_firstn_lt by exact H. apply nth_skipn_add.
Qed.

(* ---------------- Part C ---------------- *)
Local Open Scope R_scope.

Definition val (den N : Z) : R := IZR N / (IZR den * IZR den).

(* the value the code computes for one non-NULL row, in exact real arithmetic *)
Definition row_value (k : kind) (den : Z) (x : exact) : R :=
  let dot := val den (x_dot x) in
  match k with
  | L2 => sqrt (val den (x_l2 x))
  | Dot => dot
  | Cosine | CosineSim =>
      let denom := sqrt (val den (x_na x)) * sqrt (val den (x_nb x)) in      (* norm(a) * norm(b) *)
      let sim := if Req_EM_T denom 0 then 0 else dot / denom in
      match k with Cosine => 1 - sim | _ => sim end
  end.

Theorem cosine_distance_one_minus_similarity : forall den x,
  row_value Cosine den x = 1 - row_value CosineSim den x.
Proof. reflexivity. Qed.

(* the documented formulas, for every dimension and lane width *)
Theorem formulas : forall w den a b, (1 <= w)%nat -> length a = length b ->
  let x := row_exact w a b in
  row_value L2 den x = sqrt (val den (zsum (map2 (fun p q => (p - q) * (p - q))%Z a b))) /\
  row_value Dot den x = val den (zsum (map2 Z.mul a b)) /\
  (sqrt (val den (zsum (map2 Z.mul a a))) * sqrt (val den (zsum (map2 Z.mul b b))) <> 0 ->
   row_value CosineSim den x =
     val den (zsum (map2 Z.mul a b)) / (sqrt (val den (zsum (map2 Z.mul a a))) * sqrt (val den (zsum (map2 Z.mul b b))))).
Proof.
  intros w den a b Hw Hl x. unfold x. rewrite row_exact_plain by assumption.
  unfold row_value. cbn [x_dot x_l2 x_na x_nb]. unfold plain_sum, fmul, fsqd.
  repeat split; try reflexivity.
  intros NZ. destruct (Req_EM_T _ 0) as [E|E]; [contradiction|reflexivity].
Qed.

Lemma le_sqrt_spec x P r : (0 <= P)%Z ->
  (le_sqrt x P r = true <-> IZR x * sqrt (IZR P) <= IZR r).
Proof.
  intros HP. assert (0 <= IZR P) as HP' by (now apply IZR_le).
  pose proof (sqrt_pos (IZR P)) as Hs. pose proof (sqrt_sqrt (IZR P) HP') as Hss.
  set (s := sqrt (IZR P)) in *. unfold le_sqrt.
  assert (forall a c : Z, IZR (a * a * c) = IZR a * IZR a * IZR c) as M3 by (intros; now rewrite !mult_IZR).
  assert (Hu : (IZR x * s) * (IZR x * s) = IZR x * IZR x * IZR P) by (rewrite <- Hss; ring).
  destruct (Z.leb_spec 0 x) as [Hx|Hx].
  - apply IZR_le in Hx. assert (Hu0 : 0 <= IZR x * s) by (apply Rmult_le_pos; assumption).
    set (u := IZR x * s) in *. split.
    + intros H. apply andb_true_iff in H as [H1 H2]. apply Z.leb_le in H1, H2.
      apply IZR_le in H1, H2. rewrite M3, mult_IZR, <- Hu in H2.
      destruct (Rle_or_lt u (IZR r)) as [Q|Q]; [exact Q|exfalso].
      assert (IZR r * IZR r <= IZR r * u) by (apply Rmult_le_compat_l; lra).
      assert (IZR r * u < u * u) by (apply Rmult_lt_compat_r; lra). lra.
    + intros H. apply andb_true_iff. split; apply Z.leb_le; apply le_IZR; [lra|].
      rewrite M3, mult_IZR, <- Hu. apply Rmult_le_compat; lra.
  - apply IZR_lt in Hx. assert (Hu0 : IZR x * s <= 0).
    { replace 0 with (0 * s) by ring. apply Rmult_le_compat_r; lra. }
    set (u := IZR x * s) in *. split.
    + intros H. apply orb_true_iff in H as [H|H]; apply Z.leb_le in H; apply IZR_le in H; [lra|].
      rewrite M3, mult_IZR, <- Hu in H.
      destruct (Rle_or_lt u (IZR r)) as [Q|Q]; [exact Q|exfalso].
      assert ((- u) * (- u) <= (- u) * (- IZR r)) by (apply Rmult_le_compat_l; lra).
      assert ((- u) * (- IZR r) < (- IZR r) * (- IZR r)) by (apply Rmult_lt_compat_r; lra). lra.
    + intros H. apply orb_true_iff. destruct (Z.leb_spec 0 r) as [Hr|Hr]; [now left|right].
      apply IZR_lt in Hr. apply Z.leb_le, le_IZR. rewrite M3, mult_IZR, <- Hu.
      replace (IZR r * IZR r) with ((- IZR r) * (- IZR r)) by ring.
      replace (u * u) with ((- u) * (- u)) by ring. apply Rmult_le_compat; lra.
Qed.
Lemma ge_sqrt_spec x P r : (0 <= P)%Z ->
  (ge_sqrt x P r = true <-> IZR r <= IZR x * sqrt (IZR P)).
Proof.
  intros HP. unfold ge_sqrt. rewrite le_sqrt_spec by exact HP. rewrite !opp_IZR. split; intros H; lra.
Qed.

Lemma sqrt_val den L : (0 < den)%Z -> (0 <= L)%Z -> sqrt (val den L) = sqrt (IZR L) / IZR den.
Proof.
  intros Hd HL. apply IZR_lt in Hd. apply IZR_le in HL. unfold val.
  rewrite sqrt_div_alt by nra. rewrite sqrt_square by lra. reflexivity.
Qed.

(* meaning of the executable L2 check: relative tolerance t on the documented value *)
Theorem spec_l2_sound : forall t den L vn vd,
  (0 <= L)%Z -> (0 < den)%Z -> (0 < vd)%Z -> (0 < t_d t)%Z ->
  spec_l2 t den L vn vd = true ->
  let v := IZR vn / IZR vd in let tau := IZR (t_n t) / IZR (t_d t) in
  (1 - tau) * sqrt (val den L) <= v <= (1 + tau) * sqrt (val den L).
Proof.
  intros t den L vn vd HL Hd Hv Ht H v tau. unfold spec_l2 in H. apply andb_true_iff in H as [H1 H2].
  apply le_sqrt_spec in H1; [|exact HL]. apply ge_sqrt_spec in H2; [|exact HL].
  rewrite sqrt_val by assumption. set (A := sqrt (IZR L)) in *.
  rewrite !mult_IZR in H1, H2. rewrite minus_IZR in H1. rewrite plus_IZR in H2.
  apply IZR_lt in Hd, Hv, Ht. unfold v, tau.
  assert (0 < IZR (t_d t) * IZR den * IZR vd) as Hc by (repeat apply Rmult_lt_0_compat; assumption).
  split; apply Rmult_le_reg_r with (IZR (t_d t) * IZR den * IZR vd); try exact Hc.
  - replace ((1 - IZR (t_n t) / IZR (t_d t)) * (A / IZR den) * (IZR (t_d t) * IZR den * IZR vd))
      with ((IZR (t_d t) - IZR (t_n t)) * IZR vd * A) by (field; lra).
    replace (IZR vn / IZR vd * (IZR (t_d t) * IZR den * IZR vd)) with (IZR vn * IZR (t_d t) * IZR den) by (field; lra).
    exact H1.
  - replace ((1 + IZR (t_n t) / IZR (t_d t)) * (A / IZR den) * (IZR (t_d t) * IZR den * IZR vd))
      with ((IZR (t_d t) + IZR (t_n t)) * IZR vd * A) by (field; lra).
    replace (IZR vn / IZR vd * (IZR (t_d t) * IZR den * IZR vd)) with (IZR vn * IZR (t_d t) * IZR den) by (field; lra).
    exact H2.
Qed.

(* meaning of the executable dot check *)
Theorem spec_dot_sound : forall t den N SA vn vd,
  (0 < den)%Z -> (0 < vd)%Z -> (0 < t_d t)%Z ->
  spec_dot t den N SA vn vd = true ->
  Rabs (IZR vn / IZR vd - val den N) <= IZR (t_n t) / IZR (t_d t) * val den SA.
Proof.
  intros t den N SA vn vd Hd Hv Ht H. unfold spec_dot in H. apply Z.leb_le in H. apply IZR_le in H.
  rewrite abs_IZR, minus_IZR, !mult_IZR in H. apply IZR_lt in Hd, Hv, Ht. unfold val.
  assert (0 < IZR den * IZR den * IZR (t_d t) * IZR vd) as Hc by (repeat apply Rmult_lt_0_compat; assumption).
  apply Rmult_le_reg_r with (IZR den * IZR den * IZR (t_d t) * IZR vd); [exact Hc|].
  rewrite <- (Rabs_pos_eq (IZR den * IZR den * IZR (t_d t) * IZR vd)) at 1 by lra.
  rewrite <- Rabs_mult.
  replace ((IZR vn / IZR vd - IZR N / (IZR den * IZR den)) * (IZR den * IZR den * IZR (t_d t) * IZR vd))
    with (IZR vn * IZR den * IZR den * IZR (t_d t) - IZR N * IZR vd * IZR (t_d t)) by (field; lra).
  replace (IZR (t_n t) / IZR (t_d t) * (IZR SA / (IZR den * IZR den)) * (IZR den * IZR den * IZR (t_d t) * IZR vd))
    with (IZR (t_n t) * IZR SA * IZR vd) by (field; lra).
  exact H.
Qed.

(* meaning of the executable cosine check, in numerator units (all of N, SA, sqrt(NA*NB) carry the
   same factor 1/den^2): N - tau*SA <= (sim +- e) * sqrt(NA*NB) <= N + tau*SA *)
Theorem spec_cossim_sound : forall t N NA NB SA vn vd,
  (0 < NA)%Z -> (0 < NB)%Z -> (0 < vd)%Z -> (0 < t_d t)%Z -> (0 < e_d t)%Z ->
  spec_cossim t N NA NB SA vn vd = true ->
  let sim := IZR vn / IZR vd in let tau := IZR (t_n t) / IZR (t_d t) in let e := IZR (e_n t) / IZR (e_d t) in
  let D := sqrt (IZR (NA * NB)) in
  (sim - e) * D <= IZR N + tau * IZR SA /\ IZR N - tau * IZR SA <= (sim + e) * D.
Proof.
  intros t N NA NB SA vn vd HA HB Hv Ht He H sim tau e D. unfold spec_cossim in H.
  assert ((NA =? 0)%Z = false) as EA by (apply Z.eqb_neq; lia).
  assert ((NB =? 0)%Z = false) as EB by (apply Z.eqb_neq; lia).
  rewrite EA, EB in H. cbn [orb] in H. apply andb_true_iff in H as [H1 H2].
  assert (0 <= NA * NB)%Z as HP by nia.
  apply le_sqrt_spec in H1; [|exact HP]. apply ge_sqrt_spec in H2; [|exact HP].
  fold D in H1, H2. rewrite !mult_IZR in H1, H2. rewrite minus_IZR, plus_IZR, !mult_IZR in H1.
  rewrite minus_IZR, plus_IZR, !mult_IZR in H2.
  apply IZR_lt in Hv, Ht, He. unfold sim, tau, e.
  assert (0 < IZR vd * IZR (e_d t) * IZR (t_d t)) as Hc by (repeat apply Rmult_lt_0_compat; assumption).
  split; apply Rmult_le_reg_r with (IZR vd * IZR (e_d t) * IZR (t_d t)); try exact Hc.
  - replace ((IZR vn / IZR vd - IZR (e_n t) / IZR (e_d t)) * D * (IZR vd * IZR (e_d t) * IZR (t_d t)))
      with ((IZR vn * IZR (e_d t) - IZR (e_n t) * IZR vd) * IZR (t_d t) * D) by (field; lra).
    replace ((IZR N + IZR (t_n t) / IZR (t_d t) * IZR SA) * (IZR vd * IZR (e_d t) * IZR (t_d t)))
      with ((IZR N * IZR (t_d t) + IZR (t_n t) * IZR SA) * IZR vd * IZR (e_d t)) by (field; lra).
    exact H1.
  - replace ((IZR vn / IZR vd + IZR (e_n t) / IZR (e_d t)) * D * (IZR vd * IZR (e_d t) * IZR (t_d t)))
      with ((IZR vn * IZR (e_d t) + IZR (e_n t) * IZR vd) * IZR (t_d t) * D) by (field; lra).
    replace ((IZR N - IZR (t_n t) / IZR (t_d t) * IZR SA) * (IZR vd * IZR (e_d t) * IZR (t_d t)))
      with ((IZR N * IZR (t_d t) - IZR (t_n t) * IZR SA) * IZR vd * IZR (e_d t)) by (field; lra).
    exact H2.
Qed.

(* sqrt(NA*NB)/den^2 is the code's norm(a)*norm(b) *)
Lemma denom_units : forall den NA NB, (0 < den)%Z -> (0 <= NA)%Z -> (0 <= NB)%Z ->
  sqrt (val den NA) * sqrt (val den NB) = sqrt (IZR (NA * NB)) / (IZR den * IZR den).
Proof.
  intros den NA NB Hd HA HB. rewrite !sqrt_val by assumption. rewrite mult_IZR, sqrt_mult by (now apply IZR_le).
  apply IZR_lt in Hd. field. lra.
Qed.

Close Scope R_scope.

(* ---------------- non-vacuity ---------------- *)
Example chunked_example :
  let a := map Z.of_nat (seq 1 19) in let b := map (fun n => Z.of_nat n - 7) (seq 3 19) in
  dot_code 8 a b = plain_sum fmul a b /\ l2sq_code 8 a b = plain_sum fsqd a b /\ dot_code 8 a b = 1520 /\
  dot_code 3 a b = 1520.
Proof. vm_compute. auto. Qed.
Example column_example :
  let col := fsl_slice 1 2 (mkFsl 3 [9; 9; 9; 1; 2; 3; 7; 7; 7; 4; 5; 6] [true; true; false; true]) in
  distance_column 8 col [1; 0; 2] = Some [Some (mkExact 7 5 14 5 7); None] /\
  distance_column 8 col [1; 0] = None.
Proof. vm_compute. auto. Qed.
Example spec_example :
  (* |a-b|^2 = 2 (den 1); the binary64 value of sqrt 2 passes at t = 1e-5, 1.5 does not *)
  spec_l2 (mkTol 1 100000 0 1) 1 2 6369051672525773 4503599627370496 = true /\
  spec_l2 (mkTol 1 100000 0 1) 1 2 3 2 = false.
Proof. vm_compute. auto. Qed.
